import ScenicModel.Model.RoadPickle
/-!
# C20 — "a network loaded from its cache is equivalent to one parsed": the reconnection of links

`roundtrip = __setstate__ ∘ pickle ∘ __getstate__` on the object graph.  Proved for every heap / dict / lists:
* `roundtrip_get` — refinement of the two loops of `__setstate__` (sequential in-place updates, the second loop
  reading the maneuver tuples from the already updated heap) to a closed form, position by position;
* `roundtrip_id` — on a well-formed graph (`WF`: no placeholders to begin with, every directly referenced element is
  registered in `elements` under its own uid, every referencer holding a direct reference is a value of `elements`
  or a maneuver of a member of one of the walked lists, exactly the values of `elements` carry `network`) the
  unpickled graph *is* the pickled one: every link of every element and maneuver is restored;
* `roundtrip_stale` — conversely a referencer that is not visited keeps a placeholder where it had a link;
* `roundtrip_visited_link` — a visited referencer gets `elements[uid]` for a link to an element of that uid: the
  other element if it is registered under another uid, `KeyError` if it is not registered;
* `roundtrip_not_raised`.
-/
namespace Scenic.Roads.Pickle

theorem foldl_applyAt (f : Obj → Obj) (hf : ∀ o, f (f o) = f o) (vis : List Nat) (h : Heap) (j : Nat) :
    (vis.foldl (applyAt f) h)[j]? = (h[j]?).map (fun o => if vis.contains j then f o else o) := by
  induction vis generalizing h with
  | nil => simp
  | cons i vis ih =>
    rw [List.foldl_cons, ih]
    simp only [applyAt, List.getElem?_modify]
    cases hj : h[j]? with
    | none => simp
    | some o =>
      by_cases hij : i = j
      · subst hij
        by_cases hv : vis.contains i <;> simp [hv, hf]
      · have hji : ¬ j = i := fun e => hij e.symm
        by_cases hv : vis.contains j <;> simp_all

theorem recVal_idem (els : List (Nat × Nat)) (v : Val) : recVal els (recVal els v) = recVal els v := by
  cases v with
  | ph u => simp only [recVal]; cases els.lookup u <;> simp [recVal]
  | _ => simp [recVal]

theorem mapVals_mapVals (g g' : Val → Val) (o : Obj) :
    mapVals g (mapVals g' o) = mapVals (fun v => g (g' v)) o := by
  simp [mapVals, List.map_map, Function.comp_def]

theorem recObj_idem (els : List (Nat × Nat)) (o : Obj) : recObj els (recObj els o) = recObj els o := by
  simp [recObj, mapVals_mapVals, recVal_idem]

theorem visitElem_idem (cfg : Cfg) (els : List (Nat × Nat)) (o : Obj) :
    visitElem cfg els (visitElem cfg els o) = visitElem cfg els o := by
  unfold visitElem
  cases cfg.setsNetwork <;> simp [recObj, mapVals, List.map_map, Function.comp_def, recVal_idem]

theorem recObj_visitElem (cfg : Cfg) (els : List (Nat × Nat)) (o : Obj) :
    recObj els (visitElem cfg els o) = visitElem cfg els o := by
  unfold visitElem
  cases cfg.setsNetwork <;> simp [recObj, mapVals, List.map_map, Function.comp_def, recVal_idem]

/-- a value map that neither creates nor destroys tuples leaves every tuple attribute alone -/
def TupSafe (g : Val → Val) : Prop := (∀ l, g (.tup l) = .tup l) ∧ (∀ v l, g v = .tup l → v = .tup l)

theorem recVal_tupSafe (els : List (Nat × Nat)) : TupSafe (recVal els) := by
  refine ⟨fun l => rfl, fun v l => ?_⟩
  cases v with
  | ph u => simp only [recVal]; cases els.lookup u <;> simp
  | _ => simp [recVal]

theorem getVal_tupSafe (h : Heap) : TupSafe (getVal h) := by
  refine ⟨fun l => rfl, fun v l => ?_⟩
  cases v with
  | ref i => simp only [getVal]; cases uidOf h i <;> simp
  | _ => simp [getVal]

theorem lookup_map_vals (g : Val → Val) (k : String) (as : List (String × Val)) :
    (as.map fun kv => (kv.1, g kv.2)).lookup k = (as.lookup k).map g := by
  induction as with
  | nil => rfl
  | cons a as ih =>
    obtain ⟨a1, a2⟩ := a
    simp only [List.map_cons, List.lookup_cons]
    cases hk : k == a1 <;> simp [ih]

theorem tupAttr_mapVals (g : Val → Val) (hg : TupSafe g) (o : Obj) (k : String) :
    tupAttr (mapVals g o) k = tupAttr o k := by
  simp only [tupAttr, mapVals, lookup_map_vals]
  cases hv : o.attrs.lookup k with
  | none => rfl
  | some v =>
    simp only [Option.map_some]
    cases v with
    | tup l => simp [hg.1]
    | ref i =>
      cases hgv : g (.ref i) with
      | tup l => exact absurd (hg.2 _ _ hgv) (by simp)
      | _ => rfl
    | ph i =>
      cases hgv : g (.ph i) with
      | tup l => exact absurd (hg.2 _ _ hgv) (by simp)
      | _ => rfl
    | keyError i =>
      cases hgv : g (.keyError i) with
      | tup l => exact absurd (hg.2 _ _ hgv) (by simp)
      | _ => rfl

theorem tupAttr_getstateObj (cfg : Cfg) (h : Heap) (o : Obj) (k : String) :
    tupAttr (getstateObj cfg h o) k = tupAttr o k := by
  unfold getstateObj
  split
  · have := tupAttr_mapVals (getVal h) (getVal_tupSafe h) o k
    split <;> simpa [tupAttr, mapVals] using this
  · rfl

theorem tupAttr_visitElem (cfg : Cfg) (els : List (Nat × Nat)) (o : Obj) (k : String) :
    tupAttr (visitElem cfg els o) k = tupAttr o k := by
  have := tupAttr_mapVals (recVal els) (recVal_tupSafe els) o k
  unfold visitElem
  split <;> simpa [tupAttr, mapVals, recObj] using this

theorem manList_congr (cfg : Cfg) (net : Net) (h h' : Heap)
    (hh : ∀ e : Nat, (h'[e]?).map (fun o => tupAttr o cfg.manAttr) = (h[e]?).map (fun o => tupAttr o cfg.manAttr)) :
    manList cfg net h' = manList cfg net h := by
  unfold manList
  congr 1
  funext e
  have := hh e
  cases h1 : h'[e]? <;> cases h2 : h[e]? <;> simp_all

theorem getstate_get (cfg : Cfg) (h : Heap) (j : Nat) :
    (getstate cfg h)[j]? = (h[j]?).map (getstateObj cfg h) := by
  simp [getstate]

theorem phase1_get (cfg : Cfg) (net : Net) (h : Heap) (j : Nat) :
    (phase1 cfg net h)[j]? =
      (h[j]?).map (fun o => if (elemIdx net).contains j then visitElem cfg net.elements o else o) :=
  foldl_applyAt _ (visitElem_idem cfg net.elements) _ _ _

theorem manList_roundtrip (cfg : Cfg) (net : Net) (h : Heap) :
    manList cfg net (phase1 cfg net (getstate cfg h)) = manList cfg net h := by
  apply manList_congr
  intro e
  rw [phase1_get, getstate_get]
  cases h[e]? with
  | none => rfl
  | some o =>
    simp only [Option.map_some]
    split <;> simp [tupAttr_visitElem, tupAttr_getstateObj]

/-- **refinement**: the two in-place loops of `__setstate__` after `__getstate__` compute `finalObj` at every position -/
theorem roundtrip_get (cfg : Cfg) (net : Net) (h : Heap) (j : Nat) :
    (roundtrip cfg net h)[j]? = (h[j]?).map (finalObj cfg net h j) := by
  unfold roundtrip setstate
  simp only
  rw [foldl_applyAt _ (recObj_idem net.elements), manList_roundtrip, phase1_get, getstate_get]
  cases h[j]? with
  | none => rfl
  | some o =>
    simp only [Option.map_some, finalObj]
    by_cases h1 : j ∈ elemIdx net <;> by_cases h2 : j ∈ manList cfg net h <;>
      simp [h1, h2, recObj_visitElem]

theorem roundtrip_length (cfg : Cfg) (net : Net) (h : Heap) : (roundtrip cfg net h).length = h.length := by
  have key : ∀ (f : Obj → Obj) (vis : List Nat) (h : Heap), (vis.foldl (applyAt f) h).length = h.length := by
    intro f vis
    induction vis with
    | nil => intro h; rfl
    | cons i vis ih => intro h; rw [List.foldl_cons, ih]; simp [applyAt]
  simp [roundtrip, setstate, phase1, key, getstate]

/-- a parsed network's object graph as far as pickling is concerned -/
structure WF (cfg : Cfg) (net : Net) (h : Heap) : Prop where
  /-- a freshly built network holds no placeholders -/
  clean : ∀ o ∈ h, ∀ kv ∈ o.attrs, isPh kv.2 = false ∧ isErr kv.2 = false
  /-- a directly referenced element is the value of `elements` at its own uid -/
  registered : ∀ o ∈ h, o.mixin = true → ∀ kv ∈ o.attrs, ∀ i u, kv.2 = .ref i → uidOf h i = some u →
    net.elements.lookup u = some i
  /-- every referencer that holds a direct reference to an element is visited by one of the two loops -/
  visited : ∀ j o, h[j]? = some o → o.mixin = true →
    (∃ kv ∈ o.attrs, ∃ i u, kv.2 = .ref i ∧ uidOf h i = some u) →
    j ∈ elemIdx net ∨ j ∈ manList cfg net h
  /-- exactly the values of `elements` carry a `network` attribute … -/
  netIn : ∀ j o, h[j]? = some o → j ∈ elemIdx net → o.hasNet = true
  /-- … and an element that has one is a value of `elements` -/
  netOnly : ∀ j o, h[j]? = some o → o.mixin = true → o.isElem = true → o.hasNet = true →
    j ∈ elemIdx net

theorem val_fix (els : List (Nat × Nat)) (h : Heap) (v : Val) (hc : isPh v = false)
    (hr : ∀ i u, v = .ref i → uidOf h i = some u → els.lookup u = some i) :
    recVal els (getVal h v) = v := by
  cases v with
  | ref i =>
    simp only [getVal]
    cases hu : uidOf h i with
    | none => rfl
    | some u => simp [recVal, hr i u rfl hu]
  | ph u => simp [isPh] at hc
  | _ => rfl

theorem recVal_clean (els : List (Nat × Nat)) (v : Val) (hc : isPh v = false) : recVal els v = v := by
  cases v <;> simp_all [isPh, recVal]

theorem map_vals_id (g : Val → Val) (as : List (String × Val)) (hg : ∀ kv ∈ as, g kv.2 = kv.2) :
    (as.map fun kv => (kv.1, g kv.2)) = as := by
  induction as with
  | nil => rfl
  | cons a as ih =>
    simp only [List.map_cons]
    rw [ih (fun kv hkv => hg kv (List.mem_cons_of_mem _ hkv)), hg a (List.mem_cons_self ..)]

/-- **parsed = reconnect(pickled)**: on a well-formed graph every link is restored, nothing else changes -/
theorem roundtrip_id (cfg : Cfg) (net : Net) (h : Heap) (hs : cfg.setsNetwork = true) (wf : WF cfg net h) :
    roundtrip cfg net h = h := by
  apply List.ext_getElem?
  intro j
  rw [roundtrip_get]
  cases hj : h[j]? with
  | none => rfl
  | some o =>
    have hmem : o ∈ h := List.mem_of_getElem? hj
    simp only [Option.map_some, Option.some.injEq]
    have hclean : ∀ kv ∈ o.attrs, recVal net.elements kv.2 = kv.2 :=
      fun kv hkv => recVal_clean _ _ (wf.clean o hmem kv hkv).1
    obtain ⟨mixin, isElem, uid, hasNet, attrs⟩ := o
    unfold finalObj getstateObj
    cases hm : mixin with
    | false =>
      simp only [Bool.false_eq_true, if_false]
      by_cases h1 : j ∈ elemIdx net
      · have hn := wf.netIn j _ hj h1
        simp only at hn hclean
        simp [h1, visitElem, hs, recObj, mapVals, map_vals_id _ _ hclean, hn, hm]
      · by_cases h2 : j ∈ manList cfg net h
        · simp only at hclean
          simp [h1, h2, recObj, mapVals, map_vals_id _ _ hclean, hm]
        · simp [h1, h2, hm]
    | true =>
      subst hm
      have hfix : ∀ kv ∈ attrs, recVal net.elements (getVal h kv.2) = kv.2 := fun kv hkv =>
        val_fix _ _ _ (wf.clean _ hmem kv hkv).1 (fun i u e hu => wf.registered _ hmem rfl kv hkv i u e hu)
      have hfix' : (attrs.map fun kv => (kv.1, recVal net.elements (getVal h kv.2))) = attrs :=
        map_vals_id (fun v => recVal net.elements (getVal h v)) attrs hfix
      by_cases h1 : j ∈ elemIdx net
      · have hn := wf.netIn j _ hj h1
        simp only at hn
        subst hn
        by_cases hd : (isElem && cfg.dropsNetwork) = true <;>
          simp [h1, hd, visitElem, hs, recObj, mapVals, List.map_map, Function.comp_def, hfix']
      · have hnet : (isElem && cfg.dropsNetwork) = true → hasNet = false := by
          intro hd
          cases hh : hasNet with
          | false => rfl
          | true =>
            subst hh
            have : isElem = true := by
              cases isElem <;> simp_all
            exact absurd (wf.netOnly j _ hj rfl this rfl) h1
        by_cases h2 : j ∈ manList cfg net h
        · by_cases hd : (isElem && cfg.dropsNetwork) = true
          · simp [h1, h2, hd, recObj, mapVals, List.map_map, Function.comp_def, hfix', hnet hd]
          · simp [h1, h2, hd, recObj, mapVals, List.map_map, Function.comp_def, hfix']
        · have hnone : ∀ kv ∈ attrs, getVal h kv.2 = kv.2 := by
            intro kv hkv
            cases hv : kv.2 with
            | ref i =>
              simp only [getVal]
              cases hu : uidOf h i with
              | none => rfl
              | some u =>
                have := wf.visited j _ hj rfl ⟨kv, hkv, i, u, hv, hu⟩
                simp_all
            | _ => rfl
          have hnone' := map_vals_id (getVal h) attrs hnone
          by_cases hd : (isElem && cfg.dropsNetwork) = true
          · simp [h1, h2, hd, mapVals, hnone', hnet hd]
          · simp [h1, h2, hd, mapVals, hnone']

theorem getstateObj_attrs (cfg : Cfg) (h : Heap) (o : Obj) (hm : o.mixin = true) :
    (getstateObj cfg h o).attrs = o.attrs.map fun kv => (kv.1, getVal h kv.2) := by
  unfold getstateObj
  rw [if_pos hm]
  simp only
  split <;> rfl

theorem visitElem_attrs (cfg : Cfg) (els : List (Nat × Nat)) (o : Obj) :
    (visitElem cfg els o).attrs = o.attrs.map fun kv => (kv.1, recVal els kv.2) := by
  unfold visitElem
  simp only
  split <;> rfl

/-- **a referencer outside both loops keeps the placeholder** (the link is lost) -/
theorem roundtrip_stale (cfg : Cfg) (net : Net) (h : Heap) (j : Nat) (o : Obj) (k : String) (i u : Nat)
    (hj : h[j]? = some o) (hm : o.mixin = true) (hk : (k, Val.ref i) ∈ o.attrs) (hu : uidOf h i = some u)
    (h1 : j ∉ elemIdx net) (h2 : j ∉ manList cfg net h) :
    ∃ o', (roundtrip cfg net h)[j]? = some o' ∧ (k, Val.ph u) ∈ o'.attrs := by
  refine ⟨finalObj cfg net h j o, by rw [roundtrip_get, hj]; rfl, ?_⟩
  have hf : finalObj cfg net h j o = getstateObj cfg h o := by simp [finalObj, h1, h2]
  rw [hf, getstateObj_attrs cfg h o hm, List.mem_map]
  exact ⟨(k, .ref i), hk, by simp [getVal, hu]⟩

/-- a visited referencer gets, for a link to an element of uid `u`, whatever `elements[u]` is
(`recVal els (.ph u)` = `.ref i'` when `elements[u]` is object `i'` — the element itself only if it is registered
under its own uid — and `.keyError u`, i.e. `KeyError`, when `u` is not a key) -/
theorem roundtrip_visited_link (cfg : Cfg) (net : Net) (h : Heap) (j : Nat) (o : Obj) (k : String) (i u : Nat)
    (hj : h[j]? = some o) (hm : o.mixin = true) (hk : (k, Val.ref i) ∈ o.attrs) (hu : uidOf h i = some u)
    (hv : j ∈ elemIdx net ∨ j ∈ manList cfg net h) :
    ∃ o', (roundtrip cfg net h)[j]? = some o' ∧ (k, recVal net.elements (Val.ph u)) ∈ o'.attrs := by
  refine ⟨finalObj cfg net h j o, by rw [roundtrip_get, hj]; rfl, ?_⟩
  have hf : (finalObj cfg net h j o).attrs =
      (getstateObj cfg h o).attrs.map fun kv => (kv.1, recVal net.elements kv.2) := by
    unfold finalObj
    by_cases h1 : j ∈ elemIdx net
    · simp [h1, visitElem_attrs]
    · rcases hv with hv | hv
      · exact absurd hv h1
      · simp [h1, hv, recObj, mapVals]
  rw [hf, getstateObj_attrs cfg h o hm, List.mem_map]
  refine ⟨(k, .ph u), ?_, rfl⟩
  rw [List.mem_map]
  exact ⟨(k, .ref i), hk, by simp [getVal, hu]⟩

theorem roundtrip_not_raised (cfg : Cfg) (net : Net) (h : Heap) (hs : cfg.setsNetwork = true) (wf : WF cfg net h) :
    raised (roundtrip cfg net h) = false := by
  rw [roundtrip_id cfg net h hs wf]
  simp only [raised, List.any_eq_false, List.any_eq_true, not_exists, not_and]
  intro o ho kv hkv
  simp [(wf.clean o ho kv hkv).2]

end Scenic.Roads.Pickle
