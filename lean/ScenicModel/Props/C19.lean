import ScenicModel.Lemmas.Choose
import ScenicModel.Gen.Choose
import ScenicModel.Props.C19Step

/-!
# C19 — `do choose` / `do shuffle` and run-time random values follow the stated probabilities

Model: `ScenicModel/Model/Choose.lean` (`pickEnabled`, `doChoose`, `doShuffle`, `drawDist`, `exec`), parametric
in the constants `Config` that `tools/translate/choose.py` regenerates from `/repo` into `Gen/Choose.lean`.
All theorems are for every list of items, every weight assignment within the stated hypotheses, every
step-dependent precondition table `env.pre`, every running-time table `env.dur`, every start step `t`
(no bounds); probabilities are exact rationals.  `Dist.prob d P` is the probability of event `P`.

Spec vocabulary (defined in `Lemmas/Choose.lean`):
* `enabledAt env t items`   — the listed items whose preconditions hold at step `t`;
* `totalW l`                — sum of the weights of `l`;
* `chooseOutcome env t x`   — "exactly `x` ran, started at `t`, and the statement finished";
* `orderOutcome env t order`— "the items ran to completion in exactly this order, first start at `t`";
* `pickProb env t rem x = if x ∈ enabledAt env t rem then x.weight / totalW (enabledAt env t rem) else 0`;
* `orderProb env t rem (x₁ :: x₂ :: …) = pickProb env t rem x₁ * pickProb env t₂ (rem.erase x₁) x₂ * …`
  with `t₂ = t + env.dur x₁.id t`, … (each factor conditions on the not-yet-run items and on the step at which that
  pick happens);
* `chainProb` / `indepProb` — chain-rule product / product of stated marginals for run-time draws.

Corner recorded (it is what the code does, see `choose_single_ignores_weight`): when exactly one item is enabled
its weight is not looked at — an item of weight 0 (or of negative weight) still runs.  The `…_prob` theorems
therefore carry the hypothesis that the enabled weights are non-negative with positive sum, under which
"probability proportional to weight" is well defined.
-/
namespace Scenic.C19
open Scenic.Choose

/-! ## side conditions on the regenerated data -/

/-- the constants read from `_invokeSubBehavior` / `Options.__init__` are the ones the theorems need:
tuple-form weight 1, the shortcut fires for exactly one enabled item and takes element 0, zero weights dropped -/
theorem gen_config_wf : Scenic.Gen.chooseConfig.WF := by decide

/-- the shuffle scheduler of the current source works on a copy of a dict operand (`subs = dict(subs[0])`, extracted by
the translator): re-decided on every run; fails if the copy is ever dropped again -/
theorem gen_copies_operand : Scenic.Gen.chooseConfig.copyOperand = true := by decide

/-! ## `do choose` -/

/-- **choose_prob.** With distinct items, non-negative enabled weights and positive total enabled weight,
`do choose` runs item `x` (and only `x`) with probability `weight x / Σ_enabled weight` if `x`'s preconditions hold
at the current step, and with probability 0 otherwise. -/
theorem choose_prob (c : Config) (hc : c.WF) (env : Env) (t : Nat) (items : List Item)
    (hid : (items.map (·.id)).Nodup)
    (hnn : ∀ x ∈ enabledAt env t items, 0 ≤ x.weight)
    (hpos : enabledAt env t items ≠ [] → 0 < totalW (enabledAt env t items))
    (x : Item) (hx : x ∈ items) :
    Dist.prob (doChoose c env t items) (fun o => decide (o = chooseOutcome env t x)) =
      if x ∈ enabledAt env t items then x.weight / totalW (enabledAt env t items) else 0 :=
  choose_prob_aux c hc env t items hid hnn hpos x hx

example : Dist.prob (doChoose ⟨1, 1, 0, true, false⟩ ⟨fun i t => i != 3 || t ≥ 5, fun _ _ => 2⟩ 0 [⟨1, 2⟩, ⟨2, 3⟩, ⟨3, 1⟩])
    (fun o => decide (o = chooseOutcome ⟨fun i t => i != 3 || t ≥ 5, fun _ _ => 2⟩ 0 ⟨2, 3⟩)) = 3 / 5 := by
  decide +kernel

/-- **choose on the generated constants.** -/
theorem choose_prob_gen (env : Env) (t : Nat) (items : List Item) (hid : (items.map (·.id)).Nodup)
    (hnn : ∀ x ∈ enabledAt env t items, 0 ≤ x.weight)
    (hpos : enabledAt env t items ≠ [] → 0 < totalW (enabledAt env t items)) (x : Item) (hx : x ∈ items) :
    Dist.prob (doChoose Scenic.Gen.chooseConfig env t items) (fun o => decide (o = chooseOutcome env t x)) =
      if x ∈ enabledAt env t items then x.weight / totalW (enabledAt env t items) else 0 :=
  choose_prob _ gen_config_wf env t items hid hnn hpos x hx

/-- **choose_exactly_one.** Every outcome of `do choose` that finishes ran exactly one item, that item is listed,
its preconditions held at the step of the choice, and the statement ends when that item ends (any `Config`). -/
theorem choose_exactly_one (c : Config) (env : Env) (t : Nat) (items : List Item) (o : Outcome) (q : Rat)
    (h : (o, q) ∈ doChoose c env t items) (hs : o.status = .done) :
    ∃ x, x ∈ items ∧ env.pre x.id t = true ∧ o = chooseOutcome env t x := by
  unfold doChoose at h
  rw [Dist.mem_bind] at h
  obtain ⟨p, q1, q2, hp, ho, _⟩ := h
  by_cases hp' : ∃ x, p = .picked x
  · obtain ⟨x, rfl⟩ := hp'
    have hx := mem_enabledAt.mp (pick_support c env t items x q1 hp)
    simp only [chooseStep] at ho
    rw [Dist.mem_pure] at ho
    exact ⟨x, hx.1, hx.2, ho.1⟩
  · have hnp : ∀ x, p ≠ .picked x := fun x e => hp' ⟨x, e⟩
    rw [chooseStep_fail _ _ _ hnp, Dist.mem_pure] at ho
    obtain ⟨rfl, _⟩ := ho
    exact absurd hs (failOutcome_status t p)

/-- **choose_deadlock_rejects.** No listed item enabled ⇒ the simulation is rejected (probability 1). -/
theorem choose_deadlock_rejects (c : Config) (env : Env) (t : Nat) (items : List Item)
    (h : enabledAt env t items = []) : doChoose c env t items = Dist.pure ⟨[], t, .rejected⟩ := by
  unfold doChoose
  rw [pickEnabled_nil c env t items h]
  simp [Dist.bind, Dist.pure, chooseStep, failOutcome]

example : enabledAt ⟨fun _ t => t ≥ 2, fun _ _ => 1⟩ 0 [⟨1, 1⟩, ⟨2, 1⟩] = [] := by decide

/-- **corner (recorded).** With exactly one enabled item its weight is ignored: it runs with probability 1 whatever its
weight, including weight 0 and negative weights. -/
theorem choose_single_ignores_weight (c : Config) (hc : c.WF) (env : Env) (t : Nat) (items : List Item) (x : Item)
    (h : enabledAt env t items = [x]) : doChoose c env t items = Dist.pure (chooseOutcome env t x) := by
  unfold doChoose
  rw [pickEnabled_single c hc env t items x h]
  simp [Dist.bind, Dist.pure, chooseStep, chooseOutcome]

example : doChoose ⟨1, 1, 0, true, false⟩ ⟨fun i _ => i == 7, fun _ _ => 3⟩ 4 [⟨7, 0⟩, ⟨8, 5⟩]
    = Dist.pure (chooseOutcome ⟨fun i _ => i == 7, fun _ _ => 3⟩ 4 ⟨7, 0⟩) := by decide +kernel

/-- **tuple form is uniform.** `do choose A, B, …` gives every enabled item probability `1 / #enabled`. -/
theorem choose_tuple_uniform (c : Config) (hc : c.WF) (env : Env) (t : Nat) (ids : List Nat) (hid : ids.Nodup)
    (i : Nat) (hi : i ∈ ids) (hen : env.pre i t = true) :
    Dist.prob (doChoose c env t (tupleItems c ids)) (fun o => decide (o = chooseOutcome env t ⟨i, 1⟩)) =
      1 / ((enabledAt env t (tupleItems c ids)).length : Rat) := by
  have hdw : (c.defaultWeight : Rat) = 1 := by rw [hc.1]; simp
  have hitems : tupleItems c ids = ids.map fun i => (⟨i, 1⟩ : Item) := by
    unfold tupleItems; rw [hdw]
  have hids : ((tupleItems c ids).map (·.id)) = ids := by
    rw [hitems, List.map_map]; simp [Function.comp_def]
  have hw1 : ∀ x ∈ tupleItems c ids, x.weight = 1 := by
    intro x hx; rw [hitems] at hx; simp only [List.mem_map] at hx; obtain ⟨j, _, rfl⟩ := hx; rfl
  have hmem : (⟨i, 1⟩ : Item) ∈ tupleItems c ids := by
    rw [hitems]; exact List.mem_map.mpr ⟨i, hi, rfl⟩
  have hen' : (⟨i, 1⟩ : Item) ∈ enabledAt env t (tupleItems c ids) := mem_enabledAt.mpr ⟨hmem, hen⟩
  have htot : totalW (enabledAt env t (tupleItems c ids)) = ((enabledAt env t (tupleItems c ids)).length : Rat) := by
    have : ∀ l : List Item, (∀ x ∈ l, x.weight = 1) → totalW l = (l.length : Rat) := by
      intro l hl
      induction l with
      | nil => simp [totalW]
      | cons a l ih =>
        have ha := hl a (List.mem_cons_self)
        have := ih (fun x hx => hl x (List.mem_cons_of_mem _ hx))
        simp only [totalW, List.map_cons, List.sum_cons, List.length_cons] at this ⊢
        rw [this, ha]; push_cast; ring
    exact this _ (fun x hx => hw1 x (mem_enabledAt.mp hx).1)
  rw [choose_prob c hc env t (tupleItems c ids) (by rw [hids]; exact hid)
    (fun x hx => by rw [hw1 x (mem_enabledAt.mp hx).1]; exact zero_le_one)
    (fun hne => by
      rw [htot]
      have : 0 < (enabledAt env t (tupleItems c ids)).length := List.length_pos_iff.mpr hne
      exact_mod_cast this)
    ⟨i, 1⟩ hmem, if_pos hen', htot]

/-! ## `do shuffle` -/

/-- **shuffle_each_once.** Every finished outcome of `do shuffle` ran every listed item exactly once: the sequence of
started items is a permutation of the listed ones (any `Config`, any weights, any preconditions). -/
theorem shuffle_each_once (c : Config) (env : Env) (t : Nat) (items : List Item) (o : Outcome) (q : Rat)
    (h : (o, q) ∈ doShuffle c env t items) (hs : o.status = .done) :
    (o.log.map (·.val)).Perm (items.map fun x => (x.id : Int)) :=
  shuffleAux_perm c env items.length t items rfl o q h hs

/-- **shuffle_order_prob.** With distinct items of positive weight, the probability that the items run in exactly
the order `order` is the product formula `orderProb`: at each pick, `weight / Σ weight` over the not-yet-run items
whose preconditions hold *at the step of that pick* (0 if the next item of `order` is not enabled then). -/
theorem shuffle_order_prob (c : Config) (hc : c.WF) (env : Env) (t : Nat) (items : List Item)
    (hid : (items.map (·.id)).Nodup) (hw : ∀ x ∈ items, 0 < x.weight)
    (order : List Item) (ho : ∀ y ∈ order, y ∈ items) :
    Dist.prob (doShuffle c env t items) (fun o => decide (o = orderOutcome env t order)) =
      orderProb env t items order :=
  shuffleAux_order_prob c hc env items (id_inj items hid) hw items.length t items rfl
    (nodup_of_ids items hid) (fun _ h => h) order ho

theorem shuffle_order_prob_gen (env : Env) (t : Nat) (items : List Item)
    (hid : (items.map (·.id)).Nodup) (hw : ∀ x ∈ items, 0 < x.weight)
    (order : List Item) (ho : ∀ y ∈ order, y ∈ items) :
    Dist.prob (doShuffle Scenic.Gen.chooseConfig env t items) (fun o => decide (o = orderOutcome env t order)) =
      orderProb env t items order :=
  shuffle_order_prob _ gen_config_wf env t items hid hw order ho

/-- first factor of the product formula, spelled out -/
theorem orderProb_cons (env : Env) (t : Nat) (rem : List Item) (x : Item) (rest : List Item) :
    orderProb env t rem (x :: rest) =
      (if x ∈ enabledAt env t rem then x.weight / totalW (enabledAt env t rem) else 0) *
        orderProb env (t + env.dur x.id t) (rem.erase x) rest := rfl

-- item 6 only becomes enabled at step 3; item 4 runs 2 steps, item 5 runs 0 steps
example : orderProb ⟨fun i t => i != 6 || t ≥ 3, fun i _ => if i == 4 then 2 else if i == 5 then 0 else 1⟩ 2
    [⟨4, 2⟩, ⟨5, 3⟩, ⟨6, 1⟩] [⟨4, 2⟩, ⟨6, 1⟩, ⟨5, 3⟩] = 1 / 10 := by decide +kernel

/-- **deadlock_rejects (shuffle).** If at some pick items remain but none is enabled, the simulation is rejected. -/
theorem shuffle_deadlock_rejects (c : Config) (env : Env) (n t : Nat) (rem : List Item) (hne : rem ≠ [])
    (h : enabledAt env t rem = []) : shuffleAux c env (n + 1) t rem = Dist.pure ⟨[], t, .rejected⟩ := by
  rw [shuffleAux_succ c env n t rem hne, pickEnabled_nil c env t rem h]
  simp [Dist.bind, Dist.pure, shuffleStep, failOutcome]

/-- **shuffle_reject_only_deadlock.** `do shuffle` rejects the simulation *only* at a deadlock: in every rejected
outcome some items have not run yet (`rest ≠ []`; run ones ++ rest = the listed ones), and at the step of the rejection
none of them is enabled with a non-zero weight (no enabled one at all when weights are positive). -/
theorem shuffle_reject_only_deadlock (c : Config) (hc : c.WF) (env : Env) (t : Nat) (items : List Item)
    (o : Outcome) (q : Rat) (h : (o, q) ∈ doShuffle c env t items) (hs : o.status = .rejected) :
    ∃ rest : List Item, rest ≠ [] ∧
      ((o.log.map (·.val)) ++ rest.map (fun x => (x.id : Int))).Perm (items.map fun x => (x.id : Int)) ∧
      ∀ x ∈ enabledAt env o.endTime rest, x.weight = 0 :=
  shuffleAux_rejected c hc env items.length t items rfl o q h hs

-- a shuffle that deadlocks after its first item: item 2 is enabled only at step 0, item 1 runs one step
example : (⟨[⟨0, 0, 1⟩], 1, .rejected⟩, (1 / 2 : Rat)) ∈
    doShuffle ⟨1, 1, 0, true, false⟩ ⟨fun i t => i == 1 || t == 0, fun _ _ => 1⟩ 0 [⟨1, 1⟩, ⟨2, 1⟩] := by decide +kernel

/-! ## a dict operand held in a local variable (`d = {A(): 2, B(): 1}` … `do shuffle d` … `do choose d`) -/

/-- **named_operand_is_literal.** If the shuffle scheduler works on a copy of its operand (`Config.copyOperand`, read
from the source), a statement whose operand is a variable behaves exactly like the same statement with the dict written
out: every theorem above about `do choose {…}` / `do shuffle {…}` then holds for `do choose d` / `do shuffle d`,
however often and in whatever order the variable is used. -/
theorem named_operand_is_literal (c : Config) (hc : c.copyOperand = true) (env : Env) (ss : List Stmt) (t : Nat)
    (vals : List Int) (st : Store) :
    exec c env ss t vals st = exec c env (ss.map (Stmt.resolve st)) t vals st := by
  induction ss generalizing t vals with
  | nil => rfl
  | cons s ss ih =>
    have hk : (fun t' => exec c env ss t' vals st) = (fun t' => exec c env (ss.map (Stmt.resolve st)) t' vals st) :=
      funext fun t' => ih _ _
    cases s with
    | wait n => simp only [List.map_cons, Stmt.resolve, exec]; exact ih _ _
    | draw d =>
      simp only [List.map_cons, Stmt.resolve, exec]
      have : (fun z => exec c env ss (t + 1) (vals ++ [z]) st) =
          (fun z => exec c env (ss.map (Stmt.resolve st)) (t + 1) (vals ++ [z]) st) := funext fun z => ih _ _
      rw [this]
    | choose items => simp only [List.map_cons, Stmt.resolve, exec]; rw [hk]
    | shuffle items => simp only [List.map_cons, Stmt.resolve, exec]; rw [hk]
    | chooseVar k => simp only [List.map_cons, Stmt.resolve, exec]; rw [hk]
    | shuffleVar k => simp only [List.map_cons, Stmt.resolve, exec, afterShuffle, hc, if_true]; rw [hk]

-- non-vacuity: with operand copying, shuffling the same variable twice runs all its items twice
example : Dist.prob (exec ⟨1, 1, 0, true, true⟩ ⟨fun _ _ => true, fun _ _ => 1⟩ [.shuffleVar 0, .shuffleVar 0] 0 []
    [[⟨1, 1⟩, ⟨2, 3⟩]]) (fun o => decide (o.log.length = 4)) = 1 := by decide +kernel

/-- **named operand on the generated constants** (no hypothesis: the side condition `gen_copies_operand` is re-decided
on the data extracted from the current source). In the code as it is, `do choose d` / `do shuffle d` on a dict held in a
variable is the statement with the dict written out, any number of uses in any order. -/
theorem named_operand_is_literal_gen (env : Env) (ss : List Stmt) (t : Nat) (vals : List Int) (st : Store) :
    exec Scenic.Gen.chooseConfig env ss t vals st =
      exec Scenic.Gen.chooseConfig env (ss.map (Stmt.resolve st)) t vals st :=
  named_operand_is_literal _ gen_copies_operand env ss t vals st

/-- so the second `do shuffle d` runs every item of `d` once again, on the generated constants -/
example : Dist.prob (exec Scenic.Gen.chooseConfig ⟨fun _ _ => true, fun _ _ => 1⟩ [.shuffleVar 0, .shuffleVar 0] 0 []
    [[⟨1, 1⟩, ⟨2, 3⟩]]) (fun o => decide (o.log.length = 4)) = 1 := by
  rw [named_operand_is_literal_gen]; decide +kernel

/-- **shuffleVar_consumes** (what a scheduler that does *not* copy would do, `copyOperand = false` — the behaviour of the
source before repair `867d4ecd`): `do shuffle d` runs the items `d` holds and leaves `d` empty for everything that follows. -/
theorem shuffleVar_consumes (c : Config) (hc : c.copyOperand = false) (env : Env) (k : Nat) (rest : List Stmt) (t : Nat)
    (vals : List Int) (st : Store) :
    exec c env (.shuffleVar k :: rest) t vals st =
      exec c env (.shuffle (st.getD k []) :: rest) t vals (st.set k []) := by
  have h : afterShuffle c st k = st.set k [] := by simp [afterShuffle, hc]
  simp only [exec, h]

/-- **the side condition is needed (regression witness).** Were the copy dropped (`copyOperand = false`), "`do shuffle`
runs every listed item exactly once" would fail for the second of two `do shuffle d` on the same variable: it runs nothing
(the two-statement body is the same as `do shuffle {A, B}; do shuffle {}`), and a `do choose d` after it deadlocks.
This is the defect repaired by `867d4ecd`; the model with the extracted `copyOperand = true` does not have it
(`named_operand_is_literal_gen`). -/
theorem operand_copy_is_needed :
    exec ⟨1, 1, 0, true, false⟩ ⟨fun _ _ => true, fun _ _ => 1⟩ [.shuffleVar 0, .shuffleVar 0] 0 [] [[⟨1, 1⟩, ⟨2, 3⟩]] =
        exec ⟨1, 1, 0, true, false⟩ ⟨fun _ _ => true, fun _ _ => 1⟩ [.shuffle [⟨1, 1⟩, ⟨2, 3⟩], .shuffle []] 0 [] [] ∧
      Dist.prob (exec ⟨1, 1, 0, true, false⟩ ⟨fun _ _ => true, fun _ _ => 1⟩ [.shuffleVar 0, .chooseVar 0] 0 []
        [[⟨1, 1⟩, ⟨2, 3⟩]]) (fun o => decide (o.status = .rejected)) = 1 := by
  decide +kernel

/-! ## the model's outcomes form a probability distribution -/

/-- **exec_mass.** For every program (sequence of waits, run-time draws, `do choose`, `do shuffle`) the outcome
distribution has total mass 1; hence `P(rejected or error) = 1 − Σ P(finished logs)`. -/
theorem exec_total_mass (c : Config) (hc : c.WF) (env : Env) (ss : List Stmt) (t : Nat) (vals : List Int)
    (st : Store) : Dist.mass (exec c env ss t vals st) = 1 := exec_mass c hc env ss t vals st

theorem shuffle_total_mass (c : Config) (hc : c.WF) (env : Env) (t : Nat) (items : List Item) :
    Dist.mass (doShuffle c env t items) = 1 := shuffleAux_mass c hc env _ _ _

/-! ## run-time random values -/

/-- **runtime_draws_chain.** A body consisting of `n` distribution evaluations produces the value sequence `vs` with
probability `Π_k P_k(v_k | v_1 … v_{k-1})` where `P_k` is the *stated* distribution of the `k`-th expression evaluated
with the values drawn before it (and 0 if `vs` has the wrong length). -/
theorem runtime_draws_chain (c : Config) (env : Env) (ss : List DrawSpec) (vals : List Int) (t : Nat) (vs : List Int)
    (st : Store) :
    Dist.prob (exec c env (ss.map Stmt.draw) t vals st)
      (fun o => decide (o = ⟨drawEvents t vs, t + ss.length, .done⟩)) = chainProb c vals ss vs :=
  exec_draws_chain c env ss vals t vs st

/-- **runtime_draws_indep.** If the expressions do not mention earlier draws, the joint probability is the product of
the stated marginals — whatever was drawn earlier in the simulation (`vals` arbitrary): every evaluation is a
fresh, independent sample. -/
theorem runtime_draws_indep (c : Config) (env : Env) (ss : List DrawSpec) (hcl : ∀ s ∈ ss, s.closed = true)
    (vals : List Int) (t : Nat) (vs : List Int) (st : Store) :
    Dist.prob (exec c env (ss.map Stmt.draw) t vals st)
      (fun o => decide (o = ⟨drawEvents t vs, t + ss.length, .done⟩)) = indepProb c ss vs := by
  rw [runtime_draws_chain, chainProb_indep c ss vals vs hcl]

example : indepProb ⟨1, 1, 0, true, false⟩ [.range (.const 1) (.const 3), .weighted [(7, 1), (8, 3)], .range (.const 1) (.const 3)]
    [2, 8, 2] = 1 / 12 := by decide +kernel

/-- stated marginal of `DiscreteRange(l, h)`: uniform on `l..h` -/
theorem runtime_range_uniform (c : Config) (vals : List Int) (l h v : Int) (hlh : l ≤ h) :
    Dist.prob (drawDist c vals (.range (.const l) (.const h))) (fun p => decide (p = Pick.picked v)) =
      if l ≤ v ∧ v ≤ h then 1 / ((h - l + 1 : Int) : Rat) else 0 := range_prob c vals l h v hlh

/-- stated marginal of `Options({v: w, …})`: value `v` has probability (total weight given to `v`) / (total weight) -/
theorem runtime_options_weighted (c : Config) (hc : c.WF) (vals : List Int) (opts : List (Int × Rat))
    (hnn : ∀ x ∈ opts, 0 ≤ x.2) (hpos : 0 < sumW opts) (v : Int) :
    Dist.prob (drawDist c vals (.weighted opts)) (fun p => decide (p = Pick.picked v)) = wOf v opts / sumW opts :=
  weightedPick_prob c hc.2.2.2 opts hnn hpos v

/-! ## `random.choices` index computation -/

/-- **choices_interval.** For positive weights, `random.choices(…, cum_weights=accumulate(ws))` maps the raw uniform
value `u ∈ [0,1)` to index `i` exactly when `u·total` lies in `[w₀+…+w_{i-1}, w₀+…+w_i)` — an interval of
`u`-length `wᵢ / total`. -/
theorem choices_interval (ws : List Rat) (hpos : ∀ w ∈ ws, 0 < w) (u : Rat) (h0 : 0 ≤ u) (h1 : u < 1)
    (i : Nat) (hi : i < ws.length) :
    choicesIndex ws u = i ↔ (ws.take i).sum ≤ u * ws.sum ∧ u * ws.sum < (ws.take (i + 1)).sum := by
  have hne : ws ≠ [] := by intro h; rw [h] at hi; simp at hi
  have htot : 0 < ws.sum := sum_pos_of_pos ws hpos hne
  have hx0 : (0 : Rat) ≤ u * ws.sum := mul_nonneg h0 (le_of_lt htot)
  have hxlt : u * ws.sum < 0 + ws.sum := by
    rw [zero_add]
    calc u * ws.sum < 1 * ws.sum := by exact mul_lt_mul_of_pos_right h1 htot
      _ = ws.sum := one_mul _
  have hlt := bisectRight_lt ws hpos 0 (u * ws.sum) hx0 hxlt
  have hmin : choicesIndex ws u = bisectRight (cumulative 0 ws) (u * ws.sum) := by
    unfold choicesIndex
    exact Nat.min_eq_left (by omega)
  rw [hmin, bisectRight_cumulative ws hpos 0 (u * ws.sum) hx0 i hi]
  simp

example : choicesIndex [2, 3, 1] (1 / 2) = 1 := by decide +kernel

/-! ## non-vacuity: the hypotheses of the theorems above hold for concrete, non-trivial data -/

/-- concrete data used by the non-vacuity examples: item 6 only becomes enabled at step 3; item 4 runs 2 steps,
item 5 runs 0 steps, item 6 one step -/
def exEnv : Env := ⟨fun i t => i != 6 || t ≥ 3, fun i _ => if i == 4 then 2 else if i == 5 then 0 else 1⟩
def exItems : List Item := [⟨4, 2⟩, ⟨5, 3⟩, ⟨6, 1⟩]

theorem exItems_pos : ∀ x ∈ exItems, 0 < x.weight := by
  intro x hx
  simp only [exItems, List.mem_cons, List.not_mem_nil, or_false] at hx
  rcases hx with rfl | rfl | rfl <;> decide +kernel

-- the hypotheses of `shuffle_order_prob` hold for this data, and the value is the hand-computed 2/5 · 1/4 · 1
example : Dist.prob (doShuffle Scenic.Gen.chooseConfig exEnv 2 exItems)
    (fun o => decide (o = orderOutcome exEnv 2 [⟨4, 2⟩, ⟨6, 1⟩, ⟨5, 3⟩])) = 1 / 10 := by
  rw [shuffle_order_prob_gen exEnv 2 exItems (by decide) exItems_pos _ (by decide)]
  decide +kernel

-- the hypotheses of `choose_prob` hold (step 2: items 4 and 5 enabled, 6 not)
example : Dist.prob (doChoose Scenic.Gen.chooseConfig exEnv 2 exItems)
    (fun o => decide (o = chooseOutcome exEnv 2 ⟨5, 3⟩)) = 3 / 5 := by
  rw [choose_prob_gen exEnv 2 exItems (by decide)
    (fun x hx => le_of_lt (exItems_pos x (mem_enabledAt.mp hx).1))
    (fun _ => by decide +kernel) ⟨5, 3⟩ (by decide)]
  decide +kernel

-- `shuffle_each_once` / `choose_exactly_one` speak about a non-empty support
example : (orderOutcome exEnv 2 [⟨5, 3⟩, ⟨4, 2⟩, ⟨6, 1⟩], (3 / 5 : Rat)) ∈ doShuffle ⟨1, 1, 0, true, false⟩ exEnv 2 exItems := by
  decide +kernel

example : (chooseOutcome exEnv 2 ⟨4, 2⟩, (2 / 5 : Rat)) ∈ doChoose ⟨1, 1, 0, true, false⟩ exEnv 2 exItems := by
  decide +kernel

-- `runtime_draws_indep`: closed specs exist and give a non-degenerate product
example : (∀ s ∈ [DrawSpec.range (.const 1) (.const 3), DrawSpec.weighted [(7, 1), (8, 3)]], s.closed = true) := by
  decide

-- `choices_interval`: weights 2,3,1 — index 1 is selected exactly for u·6 ∈ [2, 5)
example : choicesIndex [2, 3, 1] (1 / 3) = 1 ∧ choicesIndex [2, 3, 1] (5 / 6) = 2 ∧ choicesIndex [2, 3, 1] (33 / 100) = 0 := by
  decide +kernel


/-! ## round 4: `Options` as a function of the raw uniform value refines `weightedPick`

`optionsSelect c s xs u` (Model/ChooseSelect.lean) follows `Options.__init__ → makeSelector → DiscreteRange.__init__ →
DiscreteRange.sampleGiven (random.choices, cum_weights) → MultiplexerDistribution.sampleGiven` for the value `u` that
`random()` returns.  The theorems say: the raw uniform values that select entry `k` of the options of non-zero weight
are exactly the interval `[selLo k, selHi k)`, these intervals tile `[0,1)`, and the length of the `k`-th one is exactly the
probability of the `k`-th entry of the distribution `weightedPick` (the model every `_prob` theorem above speaks about).
So under an ideal uniform `random()` the code samples `weightedPick`. -/

/-- the integer constants read from `Options.__init__`/`makeSelector`/`DiscreteRange` are the ones the refinement needs -/
theorem gen_select_wf : Scenic.Gen.selectConfig.WF := by decide

theorem choicesIndex_lt (ws : List Rat) (hne : ws ≠ []) (u : Rat) : choicesIndex ws u < ws.length := by
  have hlen : 0 < ws.length := List.length_pos_iff.mpr hne
  have := Nat.min_le_right (bisectRight (cumulative 0 ws) (u * ws.sum)) (ws.length - 1)
  show min (bisectRight (cumulative 0 ws) (u * ws.sum)) (ws.length - 1) < ws.length
  omega

theorem selectIndex_wf (s : SelectConfig) (hs : s.WF) (ws : List Rat) (hne : ws ≠ []) (hsum : 0 < ws.sum) (u : Rat) :
    selectIndex s ws u = some (choicesIndex ws u) := by
  obtain ⟨h1, h2, h3, h4⟩ := hs
  have hlen : 0 < ws.length := List.length_pos_iff.mpr hne
  have hci := choicesIndex_lt ws hne u
  unfold selectIndex
  simp only [h1, h2, h3, h4]
  have e1 : ¬ ws.length < 1 := by omega
  have e2 : ¬ ws.length - 1 < 0 := by omega
  have e3 : ¬ ws.length ≠ ws.length - 1 - 0 + 1 := by omega
  have e4 : ¬ ((List.range (ws.length - 1 + 1)).drop 0).length ≠ ws.length := by
    simp; omega
  have e5 : ¬ ws.sum ≤ 0 := not_le.mpr hsum
  rw [if_neg e1, if_neg e2, if_neg e3, if_neg e4, if_neg e5, if_neg (by simp)]
  simp only [List.drop_zero]
  rw [List.getElem?_range (by omega)]

theorem select_interval (s : SelectConfig) (hs : s.WF) (ws : List Rat) (hpos : ∀ w ∈ ws, 0 < w) (u : Rat)
    (h0 : 0 ≤ u) (h1 : u < 1) (k : Nat) (hk : k < ws.length) :
    selectIndex s ws u = some k ↔ selLo ws k ≤ u ∧ u < selHi ws k := by
  have hne : ws ≠ [] := by intro h; rw [h] at hk; simp at hk
  have htot := sum_pos_of_pos ws hpos hne
  rw [selectIndex_wf s hs ws hne htot u, Option.some_inj, choices_interval ws hpos u h0 h1 k hk]
  unfold selLo selHi
  rw [div_le_iff₀ htot, lt_div_iff₀ htot]

theorem select_interval_length (ws : List Rat) (k : Nat) (hk : k < ws.length) :
    selHi ws k - selLo ws k = ws[k] / ws.sum := by
  unfold selHi selLo
  rw [List.take_succ_eq_append_getElem hk, List.sum_append, ← sub_div]
  congr 1
  simp

theorem select_partition (ws : List Rat) (hsum : 0 < ws.sum) :
    selLo ws 0 = 0 ∧ (∀ k, selHi ws k = selLo ws (k + 1)) ∧ selHi ws (ws.length - 1) = 1 := by
  refine ⟨by simp [selLo], fun k => rfl, ?_⟩
  unfold selHi
  have : List.take (ws.length - 1 + 1) ws = ws := List.take_of_length_le (by omega)
  rw [this, div_self (ne_of_gt hsum)]

theorem nz_pos {α : Type} (xs : List (α × Rat)) (hnn : ∀ x ∈ xs, 0 ≤ x.2) :
    ∀ w ∈ (xs.filter (fun x => x.2 != 0)).map Prod.snd, 0 < w := by
  intro w hw
  rw [List.mem_map] at hw
  obtain ⟨x, hx, rfl⟩ := hw
  rw [List.mem_filter] at hx
  have h1 := hnn x hx.1
  have h2 : x.2 ≠ 0 := by simpa using hx.2
  exact lt_of_le_of_ne h1 (Ne.symm h2)

theorem any_neg_false {α : Type} (xs : List (α × Rat)) (hnn : ∀ x ∈ xs, 0 ≤ x.2) :
    (xs.any fun x => decide (x.2 < 0)) = false := by
  rw [List.any_eq_false]
  intro x hx
  have := hnn x hx
  simp only [decide_eq_true_eq, not_lt]
  exact this

theorem optionsSelect_of_interval (c : Config) (hz : c.dropZero = true) (s : SelectConfig) (hs : s.WF) {α : Type}
    (xs : List (α × Rat)) (hnn : ∀ x ∈ xs, 0 ≤ x.2) (u : Rat) (h0 : 0 ≤ u) (h1 : u < 1) (k : Nat)
    (hk : k < (xs.filter (fun x => x.2 != 0)).length)
    (hu : selLo ((xs.filter (fun x => x.2 != 0)).map Prod.snd) k ≤ u ∧
          u < selHi ((xs.filter (fun x => x.2 != 0)).map Prod.snd) k) :
    optionsSelect c s xs u = .picked ((xs.filter (fun x => x.2 != 0))[k]).1 := by
  have hsel := (select_interval s hs _ (nz_pos xs hnn) u h0 h1 k (by simpa using hk)).mpr hu
  have hne : (xs.filter (fun x => x.2 != 0)).isEmpty = false := by
    cases h : xs.filter (fun x => x.2 != 0) with
    | nil => rw [h] at hk; simp at hk
    | cons a l => rfl
  unfold optionsSelect
  simp only [any_neg_false xs hnn, hz, if_true, Bool.false_eq_true, if_false, hne, hsel,
    List.getElem?_eq_getElem hk]

theorem weightedPick_entry (c : Config) (hz : c.dropZero = true) {α : Type}
    (xs : List (α × Rat)) (hnn : ∀ x ∈ xs, 0 ≤ x.2) (k : Nat)
    (hk : k < (xs.filter (fun x => x.2 != 0)).length) :
    (weightedPick c xs)[k]? = some (.picked ((xs.filter (fun x => x.2 != 0))[k]).1,
      selHi ((xs.filter (fun x => x.2 != 0)).map Prod.snd) k - selLo ((xs.filter (fun x => x.2 != 0)).map Prod.snd) k) := by
  have hne : (xs.filter (fun x => x.2 != 0)).isEmpty = false := by
    cases h : xs.filter (fun x => x.2 != 0) with
    | nil => rw [h] at hk; simp at hk
    | cons a l => rfl
  rw [select_interval_length _ k (by simpa using hk)]
  unfold weightedPick
  simp only [any_neg_false xs hnn, hz, if_true, Bool.false_eq_true, if_false, hne, List.getElem?_map,
    List.getElem?_eq_getElem hk, Option.map_some, List.getElem_map, sumW]


/-- every raw uniform value lands in the interval of some entry, and that entry is what the pipeline returns -/
theorem optionsSelect_lands (c : Config) (hz : c.dropZero = true) (s : SelectConfig) (hs : s.WF) {α : Type}
    (xs : List (α × Rat)) (hnn : ∀ x ∈ xs, 0 ≤ x.2) (hne : xs.filter (fun x => x.2 != 0) ≠ [])
    (u : Rat) (h0 : 0 ≤ u) (h1 : u < 1) :
    ∃ k, ∃ hk : k < (xs.filter (fun x => x.2 != 0)).length,
      (selLo ((xs.filter (fun x => x.2 != 0)).map Prod.snd) k ≤ u ∧
        u < selHi ((xs.filter (fun x => x.2 != 0)).map Prod.snd) k) ∧
      optionsSelect c s xs u = .picked ((xs.filter (fun x => x.2 != 0))[k]).1 := by
  have hpos := nz_pos xs hnn
  have hne' : (xs.filter (fun x => x.2 != 0)).map Prod.snd ≠ [] := by simpa using hne
  have hlt := choicesIndex_lt _ hne' u
  have hk : choicesIndex ((xs.filter (fun x => x.2 != 0)).map Prod.snd) u < (xs.filter (fun x => x.2 != 0)).length := by
    simpa using hlt
  have hsel := selectIndex_wf s hs _ hne' (sum_pos_of_pos _ hpos hne') u
  have hint := (select_interval s hs _ hpos u h0 h1 _ hlt).mp hsel
  exact ⟨_, hk, hint, optionsSelect_of_interval c hz s hs xs hnn u h0 h1 _ hk hint⟩

/-- **options_raw_uniform_refines.** For non-negative weights and every entry `k` of the options of non-zero weight: every
raw uniform value in `[selLo k, selHi k)` makes the pipeline return that entry, and the length of this interval is exactly
the probability `weightedPick` gives to its `k`-th entry (which is that same option). -/
theorem options_raw_uniform_refines (c : Config) (hz : c.dropZero = true) (s : SelectConfig) (hs : s.WF) {α : Type}
    (xs : List (α × Rat)) (hnn : ∀ x ∈ xs, 0 ≤ x.2) (k : Nat) (hk : k < (xs.filter (fun x => x.2 != 0)).length) :
    (∀ u : Rat, 0 ≤ u → u < 1 →
        selLo ((xs.filter (fun x => x.2 != 0)).map Prod.snd) k ≤ u ∧
          u < selHi ((xs.filter (fun x => x.2 != 0)).map Prod.snd) k →
        optionsSelect c s xs u = .picked ((xs.filter (fun x => x.2 != 0))[k]).1) ∧
    (weightedPick c xs)[k]? = some (.picked ((xs.filter (fun x => x.2 != 0))[k]).1,
      selHi ((xs.filter (fun x => x.2 != 0)).map Prod.snd) k - selLo ((xs.filter (fun x => x.2 != 0)).map Prod.snd) k) :=
  ⟨fun u h0 h1 hu => optionsSelect_of_interval c hz s hs xs hnn u h0 h1 k hk hu, weightedPick_entry c hz xs hnn k hk⟩

/-- the same on the constants generated from the current source (no hypothesis on the constants) -/
theorem options_raw_uniform_refines_gen {α : Type}
    (xs : List (α × Rat)) (hnn : ∀ x ∈ xs, 0 ≤ x.2) (k : Nat) (hk : k < (xs.filter (fun x => x.2 != 0)).length) :
    (∀ u : Rat, 0 ≤ u → u < 1 →
        selLo ((xs.filter (fun x => x.2 != 0)).map Prod.snd) k ≤ u ∧
          u < selHi ((xs.filter (fun x => x.2 != 0)).map Prod.snd) k →
        optionsSelect Scenic.Gen.chooseConfig Scenic.Gen.selectConfig xs u =
          .picked ((xs.filter (fun x => x.2 != 0))[k]).1) ∧
    (weightedPick Scenic.Gen.chooseConfig xs)[k]? = some (.picked ((xs.filter (fun x => x.2 != 0))[k]).1,
      selHi ((xs.filter (fun x => x.2 != 0)).map Prod.snd) k - selLo ((xs.filter (fun x => x.2 != 0)).map Prod.snd) k) :=
  options_raw_uniform_refines _ gen_config_wf.2.2.2 _ gen_select_wf xs hnn k hk

/-- the exceptions agree too: a negative weight is `ValueError` in both, for every raw value -/
theorem optionsSelect_negative_agrees (c : Config) (s : SelectConfig) {α : Type} (xs : List (α × Rat)) (u : Rat)
    (h : (xs.any fun x => decide (x.2 < 0)) = true) :
    optionsSelect c s xs u = .negWeight ∧ weightedPick c xs = Dist.pure .negWeight :=
  ⟨by simp [optionsSelect, h], by simp [weightedPick, h]⟩

-- non-vacuity: weights 2, 0, 3, 1 — the option of weight 0 is never selected, `u = 1/2` lies in `[1/3, 5/6)` → entry 1 (= 9)
example : optionsSelect ⟨1, 1, 0, true, true⟩ ⟨1, 0, 1, 0⟩ [((7 : Int), (2 : Rat)), (8, 0), (9, 3), (10, 1)] (1 / 2) = .picked 9 := by
  decide +kernel
example : selLo [2, 3, 1] 1 = 1 / 3 ∧ selHi [2, 3, 1] 1 = 5 / 6 ∧ selHi [2, 3, 1] 1 - selLo [2, 3, 1] 1 = 3 / 6 := by
  decide +kernel
example : ∀ x ∈ [((7 : Int), (2 : Rat)), (8, 0), (9, 3), (10, 1)], 0 ≤ x.2 := by decide +kernel
-- a selector built with `DiscreteRange(1, n, weights)` would raise for every input (why `gen_select_wf` is needed)
example : optionsSelect ⟨1, 1, 0, true, true⟩ ⟨1, 1, 1, 0⟩ [((7 : Int), (2 : Rat)), (9, 3)] (1 / 2) = .crash := by decide +kernel

end Scenic.C19
