/-! # C19 — property theorems (stub: filled in when the property's model is built) -/
namespace Scenic.C19
end Scenic.C19
