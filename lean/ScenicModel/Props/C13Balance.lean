import ScenicModel.Props.C13Sched

/-!
# C13 (part 1): sub-behaviours started under a block that is abandoned are stopped

`balance` is a global invariant of the interpreter `go`, proved for every program, every state
(any nesting of try-interrupt statements, loops and sub-behaviours), every environment and every
fuel: the sub-behaviours in progress inside a suspended generator are exactly those that were
started and not yet stopped.  In particular, whenever a generator *concludes* -- a block finishes,
a handler executes `abort`/`break`/`continue`/`return`, a `do .. until` condition fires, the
behaviour returns -- every sub-behaviour that was in progress in any of its (abandoned) blocks has
received its stop, exactly once.
-/
namespace Scenic.Interrupts

/-- balance of starts and stops against the sub-behaviours in progress (`S` before, `K.subs k'` after) -/
def Bal (S : List Nat) : Out → Prop
  | .yielded _ k' lg => ∀ b, (K.subs k').count b + nStop b lg = S.count b + nStart b lg
  | .done _ lg => ∀ b, nStop b lg = S.count b + nStart b lg
  /- the step ends with a guard violation (an exception that leaves every generator on its way) -/
  | .viol _ lg => ∀ b, nStop b lg = S.count b + nStart b lg
  | .diverge => True

theorem Bal_pre {S S' : List Nat} {r : Out} {lg0 : List Ev} (h : Bal S' r)
    (h0 : ∀ b, S'.count b + nStop b lg0 = S.count b + nStart b lg0) : Bal S (r.pre lg0) := by
  cases r with
  | yielded a k lg => intro b; have := h b; have := h0 b; simp at *; omega
  | done f lg => intro b; have := h b; have := h0 b; simp at *; omega
  | viol v lg => intro b; have := h b; have := h0 b; simp at *; omega
  | diverge => trivial

theorem nStop_stopsOf (cfg : Cfg) (hstop : cfg.stopInFinally = true) (b : Nat) (S : List Nat) :
    nStop b (stopsOf cfg S) = S.count b := by simp [stopsOf, hstop, nStop_map_stop]

theorem nStart_stopsOf (cfg : Cfg) (b : Nat) (S : List Nat) : nStart b (stopsOf cfg S) = 0 := by
  unfold stopsOf; split
  · exact nStart_map_stop b S
  · rfl

theorem nStop_closeStops (cfg : Cfg) (hstop : cfg.stopInFinally = true) (hclose : cfg.closeBlocks = true) (b : Nat)
    (S : List Nat) : nStop b (closeStops cfg S) = S.count b := by
  simp [closeStops, hclose, nStop_stopsOf cfg hstop]

theorem nStart_closeStops (cfg : Cfg) (b : Nat) (S : List Nat) : nStart b (closeStops cfg S) = 0 := by
  unfold closeStops; split
  · exact nStart_stopsOf cfg b S
  · rfl

theorem count_single (b b' : Nat) : List.count b' [b] = if b = b' then 1 else 0 := by
  by_cases h : b = b' <;> simp [List.count_cons, h]

/-- **abandoned_subs_stopped** (invariant form). -/
theorem balance (cfg : Cfg) (hstop : cfg.stopInFinally = true) (hclose : cfg.closeBlocks = true) (P : Prog) (env : Env)
    (fuel self : Nat) (inSub : Bool) (task : Task) :
    Bal task.subs (go cfg P env fuel self inSub task) := by
  fun_induction go cfg P env fuel self inSub task
  case case1 => trivial
  case case2 ih => simpa [Task.subs, K.subs] using ih
  case case3 x ih =>
    rw [x] at ih
    intro b; have := ih b
    simp [Task.subs, K.subs, List.count_append] at *; omega
  case case4 b sub l c f lg x ih2 ih1 =>
    rw [x] at ih2
    refine Bal_pre ih1 ?_
    intro b'; have := ih2 b'
    simp [Task.subs, K.subs, List.count_append, nStop_stopsOf cfg hstop, nStart_stopsOf] at *
    omega
  case case5 b sub l c v lg x ih =>
    rw [x] at ih
    intro b'; have := ih b'
    simp [Task.subs, K.subs, List.count_append, nStop_stopsOf cfg hstop, nStart_stopsOf] at *
    omega
  case case6 => trivial
  case case7 self _ kind body hs l c busy h lg v x =>
    intro b
    have := invCheck_noStartStop P env self b
    rw [x] at this
    simp [Task.subs, K.subs, List.count_append, nStop_closeStops cfg hstop hclose, nStart_closeStops] at *
    omega
  case case8 self _ kind body hs l c busy h lg x ih =>
    refine Bal_pre ih ?_
    intro b
    have := invCheck_noStartStop P env self b
    rw [x] at this
    simp [Task.subs, K.subs] at *; omega
  case case9 ih => simpa [Task.subs, K.subs] using ih
  case case10 => intro b; simp [Task.subs]
  case case11 ih => simpa [Task.subs] using ih
  case case12 ih => simpa [Task.subs] using ih
  case case13 ih => simpa [Task.subs] using ih
  case case14 ih => simpa [Task.subs] using ih
  case case15 => intro b; simp [Task.subs, K.subs]
  case case16 self _ l c lg v x =>
    intro b
    have := invCheck_noStartStop P env self b
    rw [x] at this
    simp [Task.subs] at *; omega
  case case17 self _ l c lg x ih =>
    refine Bal_pre ih ?_
    intro b
    have := invCheck_noStartStop P env self b
    rw [x] at this
    simp [Task.subs] at *; omega
  case case18 b l c lg v hs =>
    intro b'
    have h2 := startChecks_noStartStop cfg P env b b'
    rw [hs] at h2
    simp [Task.subs] at *; omega
  case case19 b l c lg hs a k' lg' x ih =>
    rw [x] at ih
    intro b'
    have := ih b'
    have h2 := startChecks_noStartStop cfg P env b b'
    rw [hs] at h2
    simp [Task.subs, K.subs, List.count_append, count_single] at *
    omega
  case case20 b l c lg hs f lg' x ih2 ih1 =>
    rw [x] at ih2
    refine Bal_pre ih1 ?_
    intro b'
    have := ih2 b'
    have h2 := startChecks_noStartStop cfg P env b b'
    rw [hs] at h2
    simp [Task.subs, count_single, nStop_stopsOf cfg hstop, nStart_stopsOf] at *
    omega
  case case21 b l c lg hs v lg' x ih =>
    rw [x] at ih
    intro b'
    have := ih b'
    have h2 := startChecks_noStartStop cfg P env b b'
    rw [hs] at h2
    simp [Task.subs, count_single, nStop_stopsOf cfg hstop, nStart_stopsOf] at *
    omega
  case case22 => trivial
  case case23 ih => simpa [Task.subs] using ih
  case case24 ih => simpa [Task.subs] using ih
  case case25 => intro b; simp [Task.subs]
  case case26 x _ ih => rw [x]; simpa [Task.subs] using ih
  case case27 x _ => rw [x]; intro b; simp [Task.subs]
  case case28 ih => simpa [Task.subs, blkSubs, blksSubs_map_none] using ih
  case case29 self inSub kind body hs l c i blk inSub' r a k' lg hr hi ih2 ih1 =>
    have hblk : Bal (blkSubs blk) r := by
      rw [blkSubs_eq]
      show Bal (optSubs blk.st) (match blk.st with
        | some k => go cfg P env _ self inSub' (.resume k)
        | none => go cfg P env _ self inSub' (.exec blk.code []))
      cases blk.st with
      | none => simpa [optSubs, Task.subs] using ih1
      | some k => simpa [optSubs, Task.subs] using ih2 k
    rw [hr] at hblk
    have hb : blk = body := by
      show (match pick cfg env hs with | none => body | some i => hs.getD i body) = body
      rw [show pick cfg env hs = none from hi]
    intro b; have := hblk b
    rw [hb] at this
    simp [Task.subs, K.subs, blkSubs, List.count_append] at *
    omega
  case case30 self inSub kind body hs l c i blk inSub' r a k' lg hr ci hi ih2 ih1 =>
    have hblk : Bal (blkSubs blk) r := by
      rw [blkSubs_eq]
      show Bal (optSubs blk.st) (match blk.st with
        | some k => go cfg P env _ self inSub' (.resume k)
        | none => go cfg P env _ self inSub' (.exec blk.code []))
      cases blk.st with
      | none => simpa [optSubs, Task.subs] using ih1
      | some k => simpa [optSubs, Task.subs] using ih2 k
    rw [hr] at hblk
    have hp : pick cfg env hs = some ci := hi
    have hlt := pick_lt cfg env hs ci hp
    have hb : blk = hs.getD ci default := by
      show (match pick cfg env hs with | none => body | some i => hs.getD i body) = _
      rw [hp]; exact getD_eq_of_lt hs ci _ _ hlt
    intro b; have h1 := hblk b
    have h2 := count_blksSubs_setSt b (some k') hs ci hlt
    rw [hb] at h1
    simp [Task.subs, K.subs, List.count_append, optSubs] at *
    omega
  case case31 self inSub kind body hs l c i blk inSub' r f lg hr h ih3 ih2 ih1 =>
    have hblk : Bal (blkSubs blk) r := by
      rw [blkSubs_eq]
      show Bal (optSubs blk.st) (match blk.st with
        | some k => go cfg P env _ self inSub' (.resume k)
        | none => go cfg P env _ self inSub' (.exec blk.code []))
      cases blk.st with
      | none => simpa [optSubs, Task.subs] using ih2
      | some k => simpa [optSubs, Task.subs] using ih3 k
    rw [hr] at hblk
    obtain ⟨ci, hp⟩ : ∃ ci, pick cfg env hs = some ci := by
      cases hp : pick cfg env hs with
      | none => simp [i, hp] at h
      | some ci => exact ⟨ci, rfl⟩
    have hlt := pick_lt cfg env hs ci hp
    have hb : blk = hs.getD ci default := by
      show (match pick cfg env hs with | none => body | some i => hs.getD i body) = _
      rw [hp]; exact getD_eq_of_lt hs ci _ _ hlt
    have hi0 : i.getD 0 = ci := by show (pick cfg env hs).getD 0 = ci; rw [hp]; rfl
    rw [hi0] at ih1 ⊢
    refine Bal_pre ih1 ?_
    intro b; have h1 := hblk b
    have h2 := count_blksSubs_setSt b none hs ci hlt
    rw [hb] at h1
    simp [Task.subs, List.count_append, optSubs] at *
    omega
  case case32 self inSub kind body hs l c i blk inSub' r f lg hr h ih3 ih2 ih1 =>
    have hblk : Bal (blkSubs blk) r := by
      rw [blkSubs_eq]
      show Bal (optSubs blk.st) (match blk.st with
        | some k => go cfg P env _ self inSub' (.resume k)
        | none => go cfg P env _ self inSub' (.exec blk.code []))
      cases blk.st with
      | none => simpa [optSubs, Task.subs] using ih2
      | some k => simpa [optSubs, Task.subs] using ih3 k
    rw [hr] at hblk
    refine Bal_pre ih1 ?_
    intro b; have h1 := hblk b
    cases hp : pick cfg env hs with
    | none =>
      have hb : blk = body := by
        show (match pick cfg env hs with | none => body | some i => hs.getD i body) = _
        rw [hp]
      have ho : otherSubs body hs i = blksSubs hs := by
        show otherSubs body hs (pick cfg env hs) = _
        rw [hp]; rfl
      rw [hb] at h1
      simp [Task.subs, List.count_append, ho, nStop_stopsOf cfg hstop, nStart_stopsOf] at *
      omega
    | some ci =>
      have hlt := pick_lt cfg env hs ci hp
      have hb : blk = hs.getD ci default := by
        show (match pick cfg env hs with | none => body | some i => hs.getD i body) = _
        rw [hp]; exact getD_eq_of_lt hs ci _ _ hlt
      have ho : otherSubs body hs i = blkSubs body ++ blksSubs (hs.eraseIdx ci) := by
        show otherSubs body hs (pick cfg env hs) = _
        rw [hp]; rfl
      have h2 := count_blksSubs_eraseIdx b hs ci hlt
      rw [hb] at h1
      simp [Task.subs, List.count_append, ho, nStop_stopsOf cfg hstop, nStart_stopsOf] at *
      omega
  case case33 self inSub kind body hs l c i blk inSub' r v lg hr ih2 ih1 =>
    have hblk : Bal (blkSubs blk) r := by
      rw [blkSubs_eq]
      show Bal (optSubs blk.st) (match blk.st with
        | some k => go cfg P env _ self inSub' (.resume k)
        | none => go cfg P env _ self inSub' (.exec blk.code []))
      cases blk.st with
      | none => simpa [optSubs, Task.subs] using ih1
      | some k => simpa [optSubs, Task.subs] using ih2 k
    rw [hr] at hblk
    intro b; have h1 := hblk b
    cases hp : pick cfg env hs with
    | none =>
      have hb : blk = body := by
        show (match pick cfg env hs with | none => body | some i => hs.getD i body) = _
        rw [hp]
      have ho : otherSubs body hs i = blksSubs hs := by
        show otherSubs body hs (pick cfg env hs) = _
        rw [hp]; rfl
      rw [hb] at h1
      simp [Task.subs, List.count_append, ho, nStop_closeStops cfg hstop hclose, nStart_closeStops] at *
      omega
    | some ci =>
      have hlt := pick_lt cfg env hs ci hp
      have hb : blk = hs.getD ci default := by
        show (match pick cfg env hs with | none => body | some i => hs.getD i body) = _
        rw [hp]; exact getD_eq_of_lt hs ci _ _ hlt
      have ho : otherSubs body hs i = blkSubs body ++ blksSubs (hs.eraseIdx ci) := by
        show otherSubs body hs (pick cfg env hs) = _
        rw [hp]; rfl
      have h2 := count_blksSubs_eraseIdx b hs ci hlt
      rw [hb] at h1
      simp [Task.subs, List.count_append, ho, nStop_closeStops cfg hstop hclose, nStart_closeStops] at *
      omega
  case case34 => trivial

end Scenic.Interrupts

namespace Scenic.Interrupts

def stSubs : Option Task → List Nat
  | some task => task.subs
  | none => []

theorem simLoop_balance (cfg : Cfg) (hstop : cfg.stopInFinally = true) (hclose : cfg.closeBlocks = true) (P : Prog) (envAt : Nat → Env)
    (fuel main : Nat) :
    ∀ (n t : Nat) (st : Option Task) (pend : List Ev), (∀ b, nStop b pend = nStart b pend) →
      (simLoop cfg P envAt fuel main n t st pend).outcome = .ok →
      ∀ b, (simLoop cfg P envAt fuel main n t st pend).pending.count b
            + nStop b (simLoop cfg P envAt fuel main n t st pend).events.flatten
          = (stSubs st).count b + nStart b (simLoop cfg P envAt fuel main n t st pend).events.flatten
  | 0, t, st, pend => by
    intro hp _ b
    have := hp b
    cases st <;> simp [simLoop, stSubs] <;> omega
  | n + 1, t, none, pend => by
    intro hp h b
    have ih := simLoop_balance cfg hstop hclose P envAt fuel main n (t + 1) none [] (by simp) (by simpa [simLoop] using h) b
    have := hp b
    simp [simLoop, stSubs] at ih ⊢
    omega
  | n + 1, t, some task, pend => by
    intro hp h b
    have hb := balance cfg hstop hclose P (envAt t) fuel main false task
    have := hp b
    unfold simLoop at h ⊢
    cases hg : go cfg P (envAt t) fuel main false task with
    | yielded a k lg =>
      rw [hg] at hb
      simp only [hg] at h ⊢
      have ih := simLoop_balance cfg hstop hclose P envAt fuel main n (t + 1) (some (.resume k)) [] (by simp) h b
      have := hb b
      have e : (Task.resume k).subs = K.subs k := rfl
      simp [stSubs, e] at ih ⊢
      omega
    | done f lg =>
      rw [hg] at hb
      simp only [hg] at h ⊢
      have ih := simLoop_balance cfg hstop hclose P envAt fuel main n (t + 1) none [] (by simp) h b
      have := hb b
      simp [stSubs] at ih ⊢
      omega
    | viol v lg => simp [hg] at h
    | diverge => simp [hg] at h

/-- **abandoned_subs_stopped** (whole simulation): in every completed simulation of every program, every
    sub-behaviour that was started has been stopped, except those still in progress at the end. -/
theorem simulate_balance (cfg : Cfg) (hstop : cfg.stopInFinally = true) (hclose : cfg.closeBlocks = true) (P : Prog) (envAt : Nat → Env)
    (fuel main steps : Nat) (hok : (simulate cfg P envAt fuel main steps).outcome = .ok) (b : Nat) :
    nStart b (simulate cfg P envAt fuel main steps).events.flatten
      = nStop b (simulate cfg P envAt fuel main steps).events.flatten
        + (simulate cfg P envAt fuel main steps).pending.count b := by
  unfold simulate at hok ⊢
  have hs := startChecks_noStartStop cfg P (envAt 0) main
  cases hsc : startChecks cfg P (envAt 0) main with
  | mk lg v =>
    rw [hsc] at hs
    cases v with
    | some v => simp [hsc] at hok
    | none =>
      simp only [hsc] at hok ⊢
      have := simLoop_balance cfg hstop hclose P envAt fuel main steps 0 _ lg
        (by intro b; have := hs b; simp at this; omega) hok b
      simp [stSubs, Task.subs] at this
      omega

/-- ... and when the simulation ends with a guard violation instead (an exception travelling out of all the
    generators), nothing is left running either -/
theorem simLoop_balance_viol (cfg : Cfg) (hstop : cfg.stopInFinally = true) (hclose : cfg.closeBlocks = true) (P : Prog)
    (envAt : Nat → Env) (fuel main : Nat) :
    ∀ (n t : Nat) (st : Option Task) (pend : List Ev) (v : Viol) (t' : Nat), (∀ b, nStop b pend = nStart b pend) →
      (simLoop cfg P envAt fuel main n t st pend).outcome = .violation v t' →
      ∀ b, nStop b (simLoop cfg P envAt fuel main n t st pend).events.flatten
          = (stSubs st).count b + nStart b (simLoop cfg P envAt fuel main n t st pend).events.flatten
  | 0, t, st, pend, v, t' => by
    intro _ h; simp [simLoop] at h
  | n + 1, t, none, pend, v, t' => by
    intro hp h b
    have ih := simLoop_balance_viol cfg hstop hclose P envAt fuel main n (t + 1) none [] v t' (by simp)
      (by simpa [simLoop] using h) b
    have := hp b
    simp [simLoop, stSubs] at ih ⊢
    omega
  | n + 1, t, some task, pend, v, t' => by
    intro hp h b
    have hb := balance cfg hstop hclose P (envAt t) fuel main false task
    have := hp b
    unfold simLoop at h ⊢
    cases hg : go cfg P (envAt t) fuel main false task with
    | yielded a k lg =>
      rw [hg] at hb
      simp only [hg] at h ⊢
      have ih := simLoop_balance_viol cfg hstop hclose P envAt fuel main n (t + 1) (some (.resume k)) [] v t' (by simp) h b
      have := hb b
      have e : (Task.resume k).subs = K.subs k := rfl
      simp [stSubs, e] at ih ⊢
      omega
    | done f lg =>
      rw [hg] at hb
      simp only [hg] at h ⊢
      have ih := simLoop_balance_viol cfg hstop hclose P envAt fuel main n (t + 1) none [] v t' (by simp) h b
      have := hb b
      simp [stSubs] at ih ⊢
      omega
    | viol v' lg =>
      rw [hg] at hb
      have := hb b
      simp [stSubs] at *
      omega
    | diverge => simp [hg] at h

/-- **abandoned_subs_stopped** (exceptional exit): when a simulation is ended by a guard violation at step `t`,
    every sub-behaviour that was started -- in whatever block of whatever statement, pre-empted or running -- has been stopped by the time the violation is reported. -/
theorem simulate_balance_viol (cfg : Cfg) (hstop : cfg.stopInFinally = true) (hclose : cfg.closeBlocks = true) (P : Prog)
    (envAt : Nat → Env) (fuel main steps : Nat) (v : Viol) (t : Nat)
    (hv : (simulate cfg P envAt fuel main steps).outcome = .violation v t) (b : Nat) :
    nStart b (simulate cfg P envAt fuel main steps).events.flatten
      = nStop b (simulate cfg P envAt fuel main steps).events.flatten := by
  unfold simulate at hv ⊢
  have hs := startChecks_noStartStop cfg P (envAt 0) main
  cases hsc : startChecks cfg P (envAt 0) main with
  | mk lg v0 =>
    rw [hsc] at hs
    cases v0 with
    | some v0 => have := hs b; simp at this ⊢; omega
    | none =>
      simp only [hsc] at hv ⊢
      have := simLoop_balance_viol cfg hstop hclose P envAt fuel main steps 0 _ lg v t
        (by intro b; have := hs b; simp at this; omega) hv b
      simp [stSubs, Task.subs] at this
      omega

end Scenic.Interrupts
