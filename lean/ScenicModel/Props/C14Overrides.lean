import ScenicModel.Lemmas.Overrides

/-!
# C14 (part 1): a simulation leaves the scene untouched, however it ends

All statements are about the model in `Model/Overrides.lean` and hold for *every* event sequence
(every program of the modelled fragment, cut off at every point: a failure anywhere is a prefix of the
events followed by the `finally` block), every initial world and every history of earlier simulations.
They are parametric in the configuration `Cfg` that the translator reads off the source; the
side conditions on the generated configuration are in `Props/C14Side*.lean`.
-/
namespace Scenic.C14
open Scenic.Overrides

/-- **proxy isolation**: while the objects of the simulation are proxied, no event – attribute write,
    `override`, revert at a scenario's end, in any order and number – reaches the scene's objects. -/
theorem proxy_isolation (cfg : Cfg) (st : St) (evs : List Ev) (h : Inv st)
    (hs : scopedEvs st.objs evs = true) : (run cfg st evs).w.orig = st.w.orig :=
  (run_spec cfg evs st h hs).1

theorem inv_initSt (w : World) : Inv (initSt w []) :=
  ⟨by intro o ho; simp [initSt] at ho, by intro f hf e he; simp [initSt] at hf; subst hf; simp at he⟩

/-! ## the `finally` block -/

theorem stopList_spec (cfg : Cfg) (l : List Nat) : ∀ (st : St), Inv st →
    (l.foldl (stopScen cfg) st).w.orig = st.w.orig ∧ (l.foldl (stopScen cfg) st).w.proxied = st.w.proxied ∧
    (l.foldl (stopScen cfg) st).objs = st.objs ∧ Inv (l.foldl (stopScen cfg) st) := by
  induction l with
  | nil => intro st h; exact ⟨rfl, rfl, rfl, h⟩
  | cons s rest ih =>
    intro st h
    have h1 := stopScen_spec cfg st s h
    have h2 := ih (stopScen cfg st s) h1.2.2.2
    simp only [List.foldl_cons]
    exact ⟨h2.1.trans h1.1, h2.2.1.trans h1.2.1, h2.2.2.1.trans h1.2.2.1, h2.2.2.2⟩

theorem disableAll_orig (l : List ObjId) : ∀ (w : World), (l.foldl World.disable w).orig = w.orig := by
  induction l with
  | nil => intro w; rfl
  | cons o rest ih => intro w; simp only [List.foldl_cons]; rw [ih]; rfl

/-- once nothing is reverted any more, the rest of the block cannot touch the scene -/
theorem cleanup_noStop (cfg : Cfg) (a : Bool) : ∀ (steps : List Step) (st : St) (e : Bool),
    steps.contains .stopScenarios = false → (cleanup cfg a steps st e).1.w.orig = st.w.orig := by
  intro steps
  induction steps with
  | nil => intro st e _; rfl
  | cons s rest ih =>
    intro st e h
    have hr : rest.contains .stopScenarios = false := by
      simp only [List.contains_cons, Bool.or_eq_false_iff] at h; exact h.2
    cases s with
    | destroy => simp only [cleanup]; exact ih _ _ hr
    | disableProxies =>
      simp only [cleanup]
      rw [ih _ _ hr]
      exact disableAll_orig _ _
    | stopBehaviors =>
      simp only [cleanup]
      split
      · exact ih _ _ hr
      · rfl
    | stopScenarios => simp at h
    | endSimulation => simp only [cleanup]; exact ih _ _ hr

theorem cleanup_safe (cfg : Cfg) (a : Bool) : ∀ (steps : List Step) (st : St) (e : Bool),
    Inv st → safeOrder steps = true → (cleanup cfg a steps st e).1.w.orig = st.w.orig := by
  intro steps
  induction steps with
  | nil => intro st e _ _; rfl
  | cons s rest ih =>
    intro st e h hs
    cases s with
    | destroy => simp only [cleanup]; exact ih _ _ h (by simpa [safeOrder] using hs)
    | disableProxies =>
      simp only [safeOrder, Bool.not_eq_true'] at hs
      simp only [cleanup]
      rw [cleanup_noStop cfg a rest _ _ hs]
      exact disableAll_orig _ _
    | stopBehaviors =>
      simp only [cleanup]
      split
      · exact ih _ _ h (by simpa [safeOrder] using hs)
      · rfl
    | stopScenarios =>
      simp only [cleanup, cleanupStep, stopAllRunning]
      have h1 := stopList_spec cfg ((st.frames.reverse.filter isRunning).map (·.id)) st h
      rw [ih _ _ h1.2.2.2 (by simpa [safeOrder] using hs)]
      exact h1.1
    | endSimulation => simp only [cleanup]; exact ih _ _ h (by simpa [safeOrder] using hs)

/-- **a simulation leaves the scene untouched, however it ends**: for every sequence of events (any
    program, cut off anywhere by an exception, a rejection or a guard violation), if the `finally` block
    reverts overrides only while the proxies are still in place and no override of an earlier simulation is
    still remembered, the scene's objects are exactly what they were. -/
theorem sim_scene_untouched (cfg : Cfg) (w : World) (agentsSet : Bool) (evs : List Ev)
    (hord : safeOrder cfg.order = true) (hs : scopedEvs [] evs = true) :
    (runSim cfg w [] agentsSet evs).w.orig = w.orig := by
  have h0 := inv_initSt w
  have h1 := run_spec cfg evs (initSt w []) h0 hs
  simp only [runSim]
  rw [cleanup_safe cfg agentsSet cfg.order _ false h1.2 hord]
  exact h1.1

example : safeOrder [.destroy, .stopBehaviors, .stopScenarios, .disableProxies, .endSimulation] = true ∧
    scopedEvs [] [.create 0, .start 0, .write 0 0 5, .prepare 1 0, .override 1 0 [(0, 1)], .start 1] = true := by
  decide

/-! ## afterwards no object is proxied: every property reads as before -/

/-- only objects of the simulation are proxied -/
def OnlyObjs (st : St) : Prop := ∀ o, st.w.proxied o = true → o ∈ st.objs

theorem stopScen_proxied (cfg : Cfg) (st : St) (s : Nat) :
    (stopScen cfg st s).w.proxied = st.w.proxied := by
  unfold stopScen
  split
  · exact revertFrames_proxied _ _
  · rfl

theorem step_onlyObjs (cfg : Cfg) (st : St) (ev : Ev) (h : OnlyObjs st) : OnlyObjs (step cfg st ev) := by
  cases ev with
  | create o =>
    intro o' ho'
    simp only [step] at ho' ⊢
    rcases World.enable_proxied_inv _ _ _ ho' with h1 | h1
    · subst h1; simp
    · exact List.mem_append_left _ (h o' h1)
  | write o p v =>
    intro o' ho'
    simp only [step] at ho' ⊢
    rw [World.write_proxied] at ho'; exact h o' ho'
  | override s o ps =>
    have key : ∀ (l : List (PropId × Val)) (w : World),
        (l.foldl (fun w pv => w.write o pv.1 pv.2) w).proxied = w.proxied := by
      intro l
      induction l with
      | nil => intro w; rfl
      | cons pv rest ih => intro w; simp only [List.foldl_cons]; rw [ih, World.write_proxied]
    intro o' ho'
    simp only [step, doOverride] at ho' ⊢
    rw [key] at ho'; exact h o' ho'
  | prepare s par => intro o' ho'; exact h o' ho'
  | start s => intro o' ho'; exact h o' ho'
  | stop s =>
    intro o' ho'
    simp only [step] at ho' ⊢
    rw [stopScen_proxied] at ho'
    rw [stopScen_objs]; exact h o' ho'

theorem run_onlyObjs (cfg : Cfg) : ∀ (evs : List Ev) (st : St), OnlyObjs st → OnlyObjs (run cfg st evs) := by
  intro evs
  induction evs with
  | nil => intro st h; exact h
  | cons ev rest ih => intro st h; exact ih _ (step_onlyObjs cfg st ev h)

theorem stopList_proxied (cfg : Cfg) (l : List Nat) : ∀ (st : St),
    (l.foldl (stopScen cfg) st).w.proxied = st.w.proxied := by
  induction l with
  | nil => intro st; rfl
  | cons s rest ih => intro st; simp only [List.foldl_cons]; rw [ih, stopScen_proxied]

theorem disableAll_proxied (l : List ObjId) : ∀ (w : World) (o : ObjId),
    (l.foldl World.disable w).proxied o = true → w.proxied o = true ∧ o ∉ l := by
  induction l with
  | nil => intro w o h; exact ⟨h, by simp⟩
  | cons x rest ih =>
    intro w o h
    simp only [List.foldl_cons] at h
    have := ih _ _ h
    simp only [World.disable] at this
    by_cases e : o = x
    · simp [e] at this
    · simp only [e, if_false] at this
      exact ⟨this.1, by simp [e, this.2]⟩

/-- no object is proxied -/
def NoneProxied (w : World) : Prop := ∀ o, w.proxied o = false

theorem cleanup_noneProxied_keep (cfg : Cfg) (a : Bool) : ∀ (steps : List Step) (st : St) (e : Bool),
    NoneProxied st.w → NoneProxied (cleanup cfg a steps st e).1.w := by
  intro steps
  induction steps with
  | nil => intro st e h; exact h
  | cons s rest ih =>
    intro st e h
    cases s with
    | destroy => simp only [cleanup]; exact ih _ _ h
    | disableProxies =>
      simp only [cleanup]
      apply ih
      intro o
      cases hb : (List.foldl World.disable st.w st.objs).proxied o with
      | false => exact hb
      | true =>
        have := (disableAll_proxied _ _ _ hb).1
        rw [h o] at this; exact absurd this (by simp)
    | stopBehaviors =>
      simp only [cleanup]
      split
      · exact ih _ _ h
      · exact h
    | stopScenarios =>
      simp only [cleanup, cleanupStep, stopAllRunning]
      apply ih
      intro o
      rw [stopList_proxied]; exact h o
    | endSimulation => simp only [cleanup]; exact ih _ _ h

theorem cleanup_disables (cfg : Cfg) (a : Bool) (hab : (a || cfg.agentsEarly) = true) :
    ∀ (steps : List Step) (st : St) (e : Bool),
    OnlyObjs st → .disableProxies ∈ steps → NoneProxied (cleanup cfg a steps st e).1.w := by
  intro steps
  induction steps with
  | nil => intro st e _ hm; simp at hm
  | cons s rest ih =>
    intro st e h hm
    cases s with
    | destroy =>
      simp only [cleanup]
      exact ih _ _ h (by simpa using hm)
    | disableProxies =>
      simp only [cleanup]
      apply cleanup_noneProxied_keep
      intro o
      cases hb : (List.foldl World.disable st.w st.objs).proxied o with
      | false => exact hb
      | true =>
        have := disableAll_proxied _ _ _ hb
        exact absurd (h o this.1) this.2
    | stopBehaviors =>
      simp only [cleanup, hab, if_true]
      exact ih _ _ h (by simpa using hm)
    | stopScenarios =>
      simp only [cleanup, cleanupStep, stopAllRunning]
      apply ih _ _ _ (by simpa using hm)
      intro o ho
      rw [stopList_proxied] at ho
      have hobjs : ∀ (l : List Nat) (st : St), (l.foldl (stopScen cfg) st).objs = st.objs := by
        intro l
        induction l with
        | nil => intro st; rfl
        | cons x r ih2 => intro st; simp only [List.foldl_cons]; rw [ih2, stopScen_objs]
      rw [hobjs]; exact h o ho
    | endSimulation =>
      simp only [cleanup]
      exact ih _ _ h (by simpa using hm)

/-- after the simulation no object is proxied any more (given that none was before) -/
theorem sim_proxies_disabled (cfg : Cfg) (w : World) (stale : Saved) (agentsSet : Bool) (evs : List Ev)
    (hw : NoneProxied w) (hab : (agentsSet || cfg.agentsEarly) = true)
    (hd : .disableProxies ∈ cfg.order) :
    NoneProxied (runSim cfg w stale agentsSet evs).w := by
  simp only [runSim]
  apply cleanup_disables cfg agentsSet hab _ _ _ _ hd
  apply run_onlyObjs
  intro o ho
  simp only [initSt] at ho
  rw [hw o] at ho; exact absurd ho (by simp)

/-- **every object property reads the same afterwards** (overridden, written or simulator-updated alike) -/
theorem sim_reads_unchanged (cfg : Cfg) (w : World) (agentsSet : Bool) (evs : List Ev)
    (hw : NoneProxied w) (hab : (agentsSet || cfg.agentsEarly) = true)
    (hd : .disableProxies ∈ cfg.order) (hord : safeOrder cfg.order = true)
    (hs : scopedEvs [] evs = true) (o : ObjId) (p : PropId) :
    (runSim cfg w [] agentsSet evs).w.read o p = w.read o p := by
  have h1 := sim_scene_untouched cfg w agentsSet evs hord hs
  have h2 := sim_proxies_disabled cfg w [] agentsSet evs hw hab hd
  unfold World.read
  rw [h2 o, hw o, h1]
  rfl

/-- the `finally` block reaches `veneer.endSimulation` -/
theorem cleanup_reaches_endSimulation (cfg : Cfg) (a : Bool) (hab : (a || cfg.agentsEarly) = true) :
    ∀ (steps : List Step) (st : St) (e : Bool),
    (.endSimulation ∈ steps ∨ e = true) → (cleanup cfg a steps st e).2 = true := by
  intro steps
  induction steps with
  | nil => intro st e h; rcases h with h | h; simp at h; exact h
  | cons s rest ih =>
    intro st e h
    cases s with
    | destroy => simp only [cleanup]; exact ih _ _ (by simpa using h)
    | disableProxies => simp only [cleanup]; exact ih _ _ (by simpa using h)
    | stopBehaviors => simp only [cleanup, hab, if_true]; exact ih _ _ (by simpa using h)
    | stopScenarios => simp only [cleanup]; exact ih _ _ (by simpa using h)
    | endSimulation => simp only [cleanup]; exact ih _ _ (Or.inr rfl)

/-- **the global state is always rolled back**: whatever happened, `veneer.endSimulation` runs. -/
theorem sim_reaches_endSimulation (cfg : Cfg) (w : World) (stale : Saved) (agentsSet : Bool) (evs : List Ev)
    (hab : (agentsSet || cfg.agentsEarly) = true) (he : .endSimulation ∈ cfg.order) :
    (runSim cfg w stale agentsSet evs).ended = true := by
  simp only [runSim]
  exact cleanup_reaches_endSimulation cfg agentsSet hab _ _ _ (Or.inl he)

end Scenic.C14
