import ScenicModel.Lemmas.Visibility

/-! C17 (part 1): exact ray / box geometry — the slab argument behind occlusion. -/
namespace Scenic.Vis

/-- per-axis entry parameter of the line `o + s·e` into the slab `[-h, h]` -/
def entry (o e h : Rat) : Rat :=
  if -h ≤ o ∧ o ≤ h then 0 else if o < -h then (-h - o) / e else (h - o) / e

theorem entry_spec {o e h s0 : Rat} (hs0 : 0 ≤ s0) (hin : -h ≤ o + s0 * e ∧ o + s0 * e ≤ h) :
    0 ≤ entry o e h ∧ entry o e h ≤ s0 ∧
    (∀ s, entry o e h ≤ s → s ≤ s0 → -h ≤ o + s * e ∧ o + s * e ≤ h) ∧
    (¬(-h ≤ o ∧ o ≤ h) → 0 < entry o e h ∧ entry o e h ∈ axisCands o e h) := by
  unfold entry
  by_cases h0 : -h ≤ o ∧ o ≤ h
  · simp only [h0, and_self, if_true, le_refl, true_and, not_true_eq_false, false_imp_iff, and_true]
    refine ⟨hs0, ?_⟩
    intro s hs hs'
    rcases le_total 0 e with he | he
    · constructor <;> nlinarith [mul_nonneg hs he, mul_le_mul_of_nonneg_right hs' he]
    · constructor <;> nlinarith [mul_nonneg_of_nonpos_of_nonpos (by linarith : -s ≤ 0) he, mul_le_mul_of_nonpos_right hs' he]
  · simp only [h0, if_false, not_false_eq_true, true_imp_iff]
    by_cases hlo : o < -h
    · simp only [hlo, if_true]
      have he : 0 < e := by
        by_contra hne
        have : e ≤ 0 := not_lt.mp hne
        nlinarith [mul_nonneg_of_nonpos_of_nonpos (by linarith : -s0 ≤ 0) this]
      have hk : (-h - o) / e * e = -h - o := by field_simp
      set k := (-h - o) / e with hkdef
      have hkpos : 0 < k := by
        by_contra hne
        have : k ≤ 0 := not_lt.mp hne
        nlinarith
      refine ⟨le_of_lt hkpos, ?_, ?_, hkpos, ?_⟩
      · by_contra hne
        have : s0 < k := not_le.mp hne
        nlinarith
      · intro s hs hs'
        constructor <;> nlinarith
      · unfold axisCands
        simp [ne_of_gt he, hkdef]
    · simp only [hlo, if_false]
      have hhi : h < o := by
        by_contra hne
        exact h0 ⟨not_lt.mp hlo, not_lt.mp hne⟩
      have he : e < 0 := by
        by_contra hne
        have : 0 ≤ e := not_lt.mp hne
        nlinarith [mul_nonneg hs0 this]
      have hne0 : e ≠ 0 := ne_of_lt he
      have hk : (h - o) / e * e = h - o := by field_simp
      set k := (h - o) / e with hkdef
      have hkpos : 0 < k := by
        by_contra hne
        have : k ≤ 0 := not_lt.mp hne
        nlinarith
      refine ⟨le_of_lt hkpos, ?_, ?_, hkpos, ?_⟩
      · by_contra hne
        have : s0 < k := not_le.mp hne
        nlinarith
      · intro s hs hs'
        constructor <;> nlinarith
      · unfold axisCands
        simp [ne_of_lt he, hkdef]


theorem inExt_iff (h l : V3) :
    InExt h l ↔ (-h.x ≤ l.x ∧ l.x ≤ h.x) ∧ (-h.y ≤ l.y ∧ l.y ≤ h.y) ∧ (-h.z ≤ l.z ∧ l.z ≤ h.z) := Iff.rfl

/-- **Slab lemma.**  If the line `o + s·e` is inside the box extents at some `s0 ≥ 0` but not at `0`, then one of
    the six face-plane crossings lies in `(0, s0]` and is a point of the box. -/
theorem slab_hit {h o e : V3} {s0 : Rat} (hs0 : 0 ≤ s0) (hin : InExt h (o.add (e.smul s0)))
    (hout : ¬ InExt h o) :
    ∃ s, s ∈ axisCands o.x e.x h.x ++ axisCands o.y e.y h.y ++ axisCands o.z e.z h.z ∧
      0 < s ∧ s ≤ s0 ∧ InExt h (o.add (e.smul s)) := by
  rw [inExt_iff] at hin hout
  simp only [V3.add_x, V3.add_y, V3.add_z, V3.smul_x, V3.smul_y, V3.smul_z] at hin
  obtain ⟨hx, hy, hz⟩ := hin
  obtain ⟨ax0, ax1, ax2, ax3⟩ := entry_spec hs0 hx
  obtain ⟨ay0, ay1, ay2, ay3⟩ := entry_spec hs0 hy
  obtain ⟨az0, az1, az2, az3⟩ := entry_spec hs0 hz
  set a := entry o.x e.x h.x
  set b := entry o.y e.y h.y
  set c := entry o.z e.z h.z
  -- the latest entry
  have key : ∀ s, a ≤ s → b ≤ s → c ≤ s → s ≤ s0 → InExt h (o.add (e.smul s)) := by
    intro s h1 h2 h3 h4
    rw [inExt_iff]
    simp only [V3.add_x, V3.add_y, V3.add_z, V3.smul_x, V3.smul_y, V3.smul_z]
    exact ⟨ax2 s h1 h4, ay2 s h2 h4, az2 s h3 h4⟩
  -- some axis is violated at 0
  have hviol : ¬(-h.x ≤ o.x ∧ o.x ≤ h.x) ∨ ¬(-h.y ≤ o.y ∧ o.y ≤ h.y) ∨ ¬(-h.z ≤ o.z ∧ o.z ≤ h.z) := by
    by_contra hcon
    simp only [not_or, not_not] at hcon
    exact hout ⟨hcon.1, hcon.2.1, hcon.2.2⟩
  -- case analysis on which entry is the largest
  have memx : ¬(-h.x ≤ o.x ∧ o.x ≤ h.x) → a ∈ axisCands o.x e.x h.x ++ axisCands o.y e.y h.y ++ axisCands o.z e.z h.z :=
    fun hv => List.mem_append_left _ (List.mem_append_left _ (ax3 hv).2)
  have memy : ¬(-h.y ≤ o.y ∧ o.y ≤ h.y) → b ∈ axisCands o.x e.x h.x ++ axisCands o.y e.y h.y ++ axisCands o.z e.z h.z :=
    fun hv => List.mem_append_left _ (List.mem_append_right _ (ay3 hv).2)
  have memz : ¬(-h.z ≤ o.z ∧ o.z ≤ h.z) → c ∈ axisCands o.x e.x h.x ++ axisCands o.y e.y h.y ++ axisCands o.z e.z h.z :=
    fun hv => List.mem_append_right _ (az3 hv).2
  -- an entry that is positive belongs to a violated axis
  have posx : 0 < a → ¬(-h.x ≤ o.x ∧ o.x ≤ h.x) := by
    intro hp hv
    have : a = 0 := by simp only [a, entry, hv, and_self, if_true]
    linarith
  have posy : 0 < b → ¬(-h.y ≤ o.y ∧ o.y ≤ h.y) := by
    intro hp hv
    have : b = 0 := by simp only [b, entry, hv, and_self, if_true]
    linarith
  have posz : 0 < c → ¬(-h.z ≤ o.z ∧ o.z ≤ h.z) := by
    intro hp hv
    have : c = 0 := by simp only [c, entry, hv, and_self, if_true]
    linarith
  -- the maximum is positive
  have hmaxpos : 0 < a ∨ 0 < b ∨ 0 < c := by
    rcases hviol with hv | hv | hv
    · exact Or.inl (ax3 hv).1
    · exact Or.inr (Or.inl (ay3 hv).1)
    · exact Or.inr (Or.inr (az3 hv).1)
  rcases le_total b a with hba | hab
  · rcases le_total c a with hca | hac
    · -- a is the maximum
      have hpa : 0 < a := by rcases hmaxpos with hp | hp | hp <;> linarith
      exact ⟨a, memx (posx hpa), hpa, ax1, key a le_rfl hba hca ax1⟩
    · have hpc : 0 < c := by rcases hmaxpos with hp | hp | hp <;> linarith
      exact ⟨c, memz (posz hpc), hpc, az1, key c hac (le_trans hba hac) le_rfl az1⟩
  · rcases le_total c b with hcb | hbc
    · have hpb : 0 < b := by rcases hmaxpos with hp | hp | hp <;> linarith
      exact ⟨b, memy (posy hpb), hpb, ay1, key b hab le_rfl hcb ay1⟩
    · have hpc : 0 < c := by rcases hmaxpos with hp | hp | hp <;> linarith
      exact ⟨c, memz (posz hpc), hpc, az1, key c (le_trans hab hbc) hbc le_rfl az1⟩

/-! ### box coordinates are affine -/

theorem Box.loc_line (b : Box) (p d : V3) (s : Rat) :
    b.loc (p.add (d.smul s)) = (b.loc p).add ((b.M.applyT d).smul s) := by
  unfold Box.loc
  apply V3.ext' <;>
    simp only [Mat3.applyT_x, Mat3.applyT_y, Mat3.applyT_z, V3.add_x, V3.add_y, V3.add_z, V3.sub_x, V3.sub_y,
      V3.sub_z, V3.smul_x, V3.smul_y, V3.smul_z] <;> ring

theorem Box.loc_sub (b : Box) (x p : V3) : (b.loc x).sub (b.loc p) = b.M.applyT (x.sub p) := by
  unfold Box.loc
  apply V3.ext' <;>
    simp only [Mat3.applyT_x, Mat3.applyT_y, Mat3.applyT_z, V3.sub_x, V3.sub_y, V3.sub_z] <;> ring

/-- membership in `hitParams`, unfolded -/
theorem Box.mem_hitParams (b : Box) (p dir : V3) (s : Rat) :
    s ∈ b.hitParams p dir ↔
      s ∈ axisCands (b.loc p).x (b.M.applyT dir).x b.h.x ++ axisCands (b.loc p).y (b.M.applyT dir).y b.h.y
          ++ axisCands (b.loc p).z (b.M.applyT dir).z b.h.z ∧ b.Contains (p.add (dir.smul s)) := by
  unfold Box.hitParams Box.Contains
  simp only [List.mem_filter, decide_eq_true_eq]
  rw [Box.loc_line]

/-- every reported hit parameter is a point of the box (soundness of the ray casting model) -/
theorem Box.hitParams_sound (b : Box) (p dir : V3) (s : Rat) (hs : s ∈ b.hitParams p dir) :
    b.Contains (p.add (dir.smul s)) := ((b.mem_hitParams p dir s).mp hs).2

/-- **completeness of the ray casting model**: if the ray from `p` (outside the box) along `dir` is inside the box
    at parameter `s0 ≥ 0`, a hit is reported at some parameter in `(0, s0]`. -/
theorem Box.hitParams_complete (b : Box) (p dir : V3) (s0 : Rat) (hs0 : 0 ≤ s0)
    (hin : b.Contains (p.add (dir.smul s0))) (hout : ¬ b.Contains p) :
    ∃ s, s ∈ b.hitParams p dir ∧ 0 < s ∧ s ≤ s0 := by
  unfold Box.Contains at hin hout
  rw [Box.loc_line] at hin
  obtain ⟨s, hmem, hpos, hle, hbox⟩ := slab_hit hs0 hin hout
  refine ⟨s, ?_, hpos, hle⟩
  rw [Box.mem_hitParams]
  refine ⟨hmem, ?_⟩
  unfold Box.Contains
  rw [Box.loc_line]
  exact hbox

/-! ### distance to a box -/

theorem excess_sq_le {u h w : Rat} (h1 : -h ≤ w) (h2 : w ≤ h) :
    excess u h * excess u h ≤ (w - u) * (w - u) := by
  unfold excess absR
  split_ifs with ha hb hb
  · nlinarith [mul_self_nonneg (w - u)]
  · nlinarith
  · nlinarith [mul_self_nonneg (w - u)]
  · nlinarith

/-- the squared distance to the box is a lower bound of the squared distance to any of its points -/
theorem Box.distSq_le (b : Box) (hM : b.M.IsOrtho) (p x : V3) (hx : b.Contains x) :
    b.distSq p ≤ (x.sub p).normSq := by
  have h1 : (x.sub p).normSq = ((b.loc x).sub (b.loc p)).normSq := by
    rw [Box.loc_sub, Mat3.normSq_applyT hM]
  rw [h1]
  unfold Box.Contains at hx
  rw [inExt_iff] at hx
  obtain ⟨⟨x1, x2⟩, ⟨y1, y2⟩, ⟨z1, z2⟩⟩ := hx
  unfold Box.distSq
  simp only [V3.normSq_def, V3.sub_x, V3.sub_y, V3.sub_z]
  have a := excess_sq_le (u := (b.loc p).x) x1 x2
  have b' := excess_sq_le (u := (b.loc p).y) y1 y2
  have c := excess_sq_le (u := (b.loc p).z) z1 z2
  linarith

end Scenic.Vis
