import ScenicModel.Props.C02Checker
import ScenicModel.Props.C02Defaults
import ScenicModel.Props.C02Metrics
import ScenicModel.Props.C02Oracle
import ScenicModel.Model.SceneReqs

/-! # C02 — every generated scene satisfies all of its requirements

Parts: `C02Checker` (the sample checkers and the rejection loop, for every order / history / skipped
optional check), `C02Defaults` (completeness of the default requirements), `C02Metrics` (invariants of the
statistics), `C02Oracle` (soundness of the separating-axis / half-space certificates used by the scene
re-verification).  This file composes the first two into the statement of the property. -/
namespace Scenic.C02
open Scenic.Checker Scenic.DefaultReqs Scenic.SceneReqs

theorem mem_toReqsFrom (c : DefaultReqs.Cfg) (act : Nat → Bool) :
    ∀ (kinds : List ReqKind) (n i : Nat) (k : ReqKind), kinds[i]? = some k →
      (⟨n + i, k.optional c, kindActive act k⟩ : Req) ∈ toReqsFrom c act n kinds
  | [], _, _, _, h => by simp at h
  | k0 :: ks, n, i, k, h => by
    unfold toReqsFrom
    cases i with
    | zero =>
      simp only [List.getElem?_cons_zero, Option.some.injEq] at h
      subst h
      exact List.mem_cons_self
    | succ i =>
      simp only [List.getElem?_cons_succ] at h
      have := mem_toReqsFrom c act ks (n + 1) i k h
      have e : n + 1 + i = n + (i + 1) := by omega
      rw [e] at this
      exact List.mem_cons_of_mem _ this

/-- a sample accepted by the checker falsifies no active non-optional requirement *kind* -/
theorem accepted_kinds (c : DefaultReqs.Cfg) (act : Nat → Bool) (kinds : List ReqKind) (w : World)
    (hacc : ∀ r ∈ toReqs c act kinds, r.active = true → r.optional = false → falsOf c kinds w r.id = some false) :
    ∀ k ∈ kinds, kindActive act k = true → k.optional c = false → w.raises k = false ∧ falsified c w k = false := by
  intro k hk hact hopt
  obtain ⟨i, hi⟩ := List.mem_iff_getElem?.mp hk
  have hm := mem_toReqsFrom c act kinds 0 i k hi
  have := hacc _ hm hact hopt
  simp only [Nat.zero_add, falsOf, hi] at this
  cases hr : w.raises k with
  | true => simp [hr] at this
  | false => simpa [hr] using this

/-- what "satisfies the built-in requirements" means for a sample `w` of a scenario with the given
    instances: the statement of the property, in terms of the real geometric predicates -/
def BuiltinsHold (c : DefaultReqs.Cfg) (insts : List Inst) (objects : List Nat) (ego : Option Nat) (w : World) : Prop :=
  -- no two objects overlap unless one allows collisions
  (∀ a b, (a, b) ∈ pairs objects → w.allow a = false → w.allow b = false → w.intersects a b = false) ∧
  -- every object lies inside its container
  (∀ o ∈ objects, (instAt insts o).containerAll = false → w.contained o = true) ∧
  -- every instance that must be visible from an observer is, given all actually-occluding objects
  (∀ t, t < insts.length → ∀ s, (instAt insts t).observing = some s →
      w.canSee s t ((fullOccluders c insts objects s t).filter w.occluding) = true) ∧
  -- every instance that must not be visible is not
  (∀ t, t < insts.length → ∀ s, (instAt insts t).nonObserving = some s →
      w.canSee s t ((fullOccluders c insts objects s t).filter w.occluding) = false) ∧
  -- every `requireVisible` object is visible from the ego
  (∀ o ∈ objects, (instAt insts o).requireVisible = true → some o ≠ ego →
      ∃ e, ego = some e ∧ w.canSee e o ((objects.filter fun x => x != e && x != o).filter w.occluding) = true)

/-- from "no default requirement is falsified" to the geometric statement -/
theorem builtins_of_not_falsified (c : DefaultReqs.Cfg) (hc : c.WF = true) (insts : List Inst)
    (objects : List Nat) (ego : Option Nat) (defaults : List ReqKind)
    (hgen : generate c insts objects ego = some defaults) (w : World) (hw : w.consistent insts)
    (hnf : ∀ k ∈ defaults, k.optional c = false → falsified c w k = false) :
    BuiltinsHold c insts objects ego w := by
  obtain ⟨hI, hC, hV, hN, hE⟩ := defaults_complete c hc insts objects ego defaults hgen
  obtain ⟨m1, m2, m3, m4, _⟩ := defaults_mandatory c hc
  obtain ⟨hcr, hcf, _, _, _, _, _, _, _, _, _, _, _, _, _, _, hskip, hpos, hcneg, hvneg, hvf, hnn, _⟩ := dwf_parts c hc
  refine ⟨?_, ?_, ?_, ?_, ?_⟩
  · intro a b hab ha hb
    have col : ∀ x, w.allow x = false → collidable c (instAt insts x) = true := by
      intro x hx
      unfold collidable tri
      cases hs : (instAt insts x).allowStatic with
      | none => exact hcr
      | some v =>
        have := hw x v hs
        rw [hx] at this
        subst this
        exact hcf
    have := hnf _ (hI a b hab (col a ha) (col b hb)) (m1 a b)
    simp only [falsified, hskip, ha, hb, hpos, Bool.or_self, Bool.and_false, Bool.false_eq_true, if_false,
      beq_true] at this
    exact this
  · intro o ho hca
    have := hnf _ (hC o ho hca) (m2 o)
    simp only [falsified, hcneg] at this
    simpa using this
  · intro t ht s hs
    have := hnf _ (hV t ht s hs) (m3 s t _)
    simp only [falsified, hvneg, hvf, if_true] at this
    simpa using this
  · intro t ht s hs
    have := hnf _ (hN t ht s hs) (m4 s t _)
    simp only [falsified, hvneg, hvf, hnn, if_true] at this
    simpa using this
  · intro o ho hrv hne
    obtain ⟨e, he, hmem⟩ := hE o ho hrv hne
    refine ⟨e, he, ?_⟩
    have := hnf _ hmem (m3 e o _)
    simp only [falsified, hvneg, hvf, if_true] at this
    simpa using this

/-- **C02, composed.**  For every scenario (instance descriptors, object order, ego, number of user
    requirements), every checker state `st` (i.e. every history of previously checked samples and scenes),
    every selection `act` of soft requirements for this scene, every stream of candidate samples and every
    sequence of measured running times: the sample returned by `_generateInner` was really sampled,
    satisfies every user requirement selected for this scene, and satisfies the built-in requirements
    (no overlap unless collisions are allowed, containment, (in)visibility with the complete occluder
    lists). -/
theorem generated_scene_satisfies_requirements
    (cc : Checker.Cfg) (hcc : cc.WF = true) (dc : DefaultReqs.Cfg) (hdc : dc.WF = true)
    (insts : List Inst) (objects : List Nat) (ego : Option Nat) (defaults : List ReqKind)
    (hgen : generate dc insts objects ego = some defaults)
    (nUser B : Nat) (st st' : State) (act : Nat → Bool) (cands : List (Option World × List Rat)) (j : Nat)
    (h : generateInner cc B (toReqs dc act (allKinds defaults nUser)) st
          (cands.map (attemptOf dc (allKinds defaults nUser))) 0 = (st', some j)) :
    ∃ w ts, cands[j]? = some (some w, ts) ∧
      (∀ k, k < nUser → act k = true → w.raises (.user k) = false ∧ w.userFalse k = false) ∧
      (w.consistent insts → BuiltinsHold dc insts objects ego w) := by
  obtain ⟨a, ha, _, hsr, hall⟩ := generate_sound cc hcc B _ _ st 0 st' j h
  simp only [Nat.sub_zero, List.getElem?_map, Option.map_eq_some_iff] at ha
  obtain ⟨cand, hcand, hattempt⟩ := ha
  obtain ⟨ow, ts⟩ := cand
  cases ow with
  | none =>
    simp only [attemptOf] at hattempt
    subst hattempt
    simp at hsr
  | some w =>
    simp only [attemptOf] at hattempt
    subst hattempt
    refine ⟨w, ts, hcand, ?_, ?_⟩
    · intro k hk hact
      have hmem : ReqKind.user k ∈ allKinds defaults nUser := by
        unfold allKinds
        exact List.mem_append.mpr (Or.inr (List.mem_map.mpr ⟨k, List.mem_range.mpr hk, rfl⟩))
      have := accepted_kinds dc act _ w hall _ hmem (by simpa [kindActive] using hact)
        ((defaults_mandatory dc hdc).2.2.2.2 k)
      have huf : dc.userFalsifiedWhenFalse = true := by
        obtain ⟨_, _, _, _, _, _, _, _, _, _, _, _, _, _, _, _, _, _, _, _, _, _, h23⟩ := dwf_parts dc hdc
        exact h23
      exact ⟨this.1, by simpa [falsified, huf] using this.2⟩
    · intro hw
      apply builtins_of_not_falsified dc hdc insts objects ego defaults hgen w hw
      intro k hk hopt
      have hmem : k ∈ allKinds defaults nUser := List.mem_append.mpr (Or.inl hk)
      have hka : kindActive act k = true := by
        -- default requirements are never user requirements
        cases k with
        | user u =>
          exfalso
          -- `generate` never produces a `.user` kind
          have : ∀ x ∈ defaults, ∀ u, x ≠ ReqKind.user u := by
            intro x hx u hxu
            subst hxu
            exact generate_no_user dc insts objects ego defaults hgen u hx
          exact this _ hk u rfl
        | _ => rfl
      exact (accepted_kinds dc act _ w hall k hmem hka hopt).2


/-! ### the hypotheses of the composed theorem are satisfiable: a concrete run -/

/-- objects 0 and 1 overlap -/
def exWorldBad : World :=
  ⟨fun _ => false, fun _ => true, fun a b => a == 0 && b == 1, fun _ => true, fun _ _ _ => true, fun _ => false, fun _ => false, fun _ => false⟩
/-- nothing overlaps, everything is contained and visible, the user requirement holds -/
def exWorldGood : World :=
  ⟨fun _ => false, fun _ => true, fun _ _ => false, fun _ => true, fun _ _ _ => true, fun _ => false, fun _ => false, fun _ => false⟩

def exDefaults : List ReqKind := (generate Scenic.Gen.defaultReqsCfg exInsts [0, 1, 2, 3] (some 0)).getD []

/-- first candidate rejected during sampling, second falsifies an intersection requirement, third accepted -/
example :
    (generateInner Scenic.Gen.checkerCfg 4 (toReqs Scenic.Gen.defaultReqsCfg (fun _ => true) (allKinds exDefaults 1))
      (State.init 4 14)
      ([(none, []), (some exWorldBad, [1, 1/2, 1/4, 3]), (some exWorldGood, [1, 1, 1, 1, 1, 1, 1, 1, 1, 1, 1, 1, 1, 1])].map
        (attemptOf Scenic.Gen.defaultReqsCfg (allKinds exDefaults 1))) 0).2 = some 2 := by
  decide +kernel

/-- the user requirement raises RejectionException on this candidate -/
def exWorldRaises : World := { exWorldGood with raises := fun k => k == .user 0 }

/-- a candidate on which the (selected) user requirement raises is refused like a falsifying one -/
example :
    (generateInner Scenic.Gen.checkerCfg 4 (toReqs Scenic.Gen.defaultReqsCfg (fun _ => true) (allKinds exDefaults 1))
      (State.init 4 14)
      ([(some exWorldRaises, [1, 1, 1, 1, 1, 1, 1, 1, 1, 1, 1, 1, 1, 1]), (some exWorldGood, [1, 1, 1, 1, 1, 1, 1, 1, 1, 1, 1, 1, 1, 1])].map
        (attemptOf Scenic.Gen.defaultReqsCfg (allKinds exDefaults 1))) 0).2 = some 1 := by
  decide +kernel

example : exDefaults.length = 13 ∧ World.consistent exWorldGood exInsts := by
  refine ⟨by decide, ?_⟩
  intro i b h
  have hi : (instAt exInsts i).allowStatic = some false ∨ (instAt exInsts i).allowStatic = none := by
    unfold instAt exInsts
    match i with
    | 0 | 1 | 2 | 3 => simp
    | n + 4 => simp
  rcases hi with h1 | h1
  · rw [h1] at h
    simp only [Option.some.injEq] at h
    simp [exWorldGood, ← h]
  · rw [h1] at h; simp at h

end Scenic.C02
