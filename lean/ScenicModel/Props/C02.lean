/-! # C02 — property theorems (stub: filled in when the property's model is built) -/
namespace Scenic.C02
end Scenic.C02
