import ScenicModel.Lemmas.RegionAlgebra

/-!
# C16 (part 1): set semantics of the exact handlers and of the routes of the double dispatch

`handlerOK` / `routeOK` are *decidable* judgements on the finite control abstraction: "this handler
(this route), reached for operands that look like `c`, implements `op`".  The theorems below show
that the judgement is sound for **all** regions: whenever it holds, the result of running the handler
(route) on two concrete regions contains a point exactly when set semantics says so, all three
coordinates taken into account.  `Props/C16.lean` decides the judgement for every control state of
the table regenerated from /repo.

Full statement wanted by the property (kept visible):

    ∀ A B p, (A.op B).mem p = op.sem (A.mem p) (B.mem p)        for op ∈ {intersect, union, difference}

`Props/C16.lean` shows `routeOK` for every control state of the regenerated table, with one stated
exception (`curveCut`): a polygon minus a polyline is returned unchanged, because a curve has no interior —
every point of it is a boundary point, which the property excludes; there the statement is proved for the
points off the curve (`exec_sound_c`).  The witness theorems at the end record what goes wrong when a handler
is reached without the guards added by the repairs b481834b (polygon at height ≠ 0 against a polyline) and
7945c47f (unions with a polyline).
-/
namespace Scenic.Region

/-- set semantics of the three operations -/
def Op.sem : Op → Bool → Bool → Bool
  | .intersect, a, b => a && b
  | .union, a, b => a || b
  | .difference, a, b => a && !b
  | .intersects, _, _ => false

def planarK (k : Kind) : Bool := k.isa .poly

/-- operands that look like `c` share no point: two planar regions at different heights, or a planar
    region at a height ≠ 0 and a polyline (which lives at height 0) -/
def disjointK (c : Ctl) : Bool :=
  (planarK c.ka && planarK c.kb && c.zne) || (planarK c.ka && c.kb == .line && c.ea)
    || (c.ka == .line && planarK c.kb && c.eb)

/-- handler `h`, reached for operands that look like `c`, implements `op` -/
def handlerOK (F : Flags) (op : Op) (c : Ctl) : Handler → Bool
  | .retSelf => (op == .intersect && c.ka == .empty) || (op == .union && c.ka == .all)
      || (op == .difference && (c.ka == .empty || c.kb == .empty || disjointK c))
  | .retOther => (op == .intersect && c.ka == .all) || (op == .union && c.ka == .empty)
  | .retNowhere => (op == .intersect && disjointK c) || (op == .difference && c.kb == .all)
  | .polyAnd passZ => op == .intersect && planarK c.ka &&
      ((planarK c.kb && !c.zne && passZ && F.fromShapelyPassesZ) || (c.kb == .foot && passZ && F.fromShapelyPassesZ)
        || (c.kb == .line && !c.ea))
  | .polyOr passZ => op == .union && planarK c.ka && planarK c.kb && !c.zne && passZ
  | .polySub passZ => op == .difference && planarK c.ka && passZ && F.fromShapelyPassesZ &&
      ((planarK c.kb && !c.zne) || c.kb == .foot)
  | .lineAnd => op == .intersect && c.ka == .line && (c.kb == .foot || c.kb == .line || (planarK c.kb && !c.eb))
  | .lineSub => op == .difference && c.ka == .line && (c.kb == .foot || c.kb == .line || (planarK c.kb && !c.eb))
  | .footAnd => op == .intersect && c.ka == .foot && c.kb == .foot
  | .footOr => op == .union && c.ka == .foot && c.kb == .foot
  | .footSub => op == .difference && c.ka == .foot && c.kb == .foot
  | .footPathClip => op == .intersect && c.ka == .foot && c.kb == .path
  | .volAnd => op == .intersect && c.ka == .vol && c.kb == .vol
  | .volOr => op == .union && c.ka == .vol && c.kb == .vol
  | .volSub => op == .difference && c.ka == .vol && c.kb == .vol
  | .volFootAnd => op == .intersect && c.ka == .vol && c.kb == .foot
  | .volFootSub => op == .difference && c.ka == .vol && c.kb == .foot
  | .volSlice s r => op == .intersect && c.ka == .vol && planarK c.kb && s == .otherZ && r == .otherZ
  | .volPathClip => op == .intersect && c.ka == .vol && c.kb == .path
  | .volLineClip => op == .intersect && c.ka == .vol && c.kb == .line
  | .ptsFilter => op == .intersect && c.ka == .pts && c.kb == .pts
  | .ptsSampler => op == .intersect
  | _ => false

/-- route `r`, computed for operands that look like `c`, implements `op` -/
def routeOK (F : Flags) (op : Op) : Ctl → Route → Bool
  | c, .run h => handlerOK F op c h
  | c, .swap r => op != .difference && routeOK F op c.swap r
  | c, .lift z r => op == .intersect && c.ka == .foot && planarK c.kb && z == .otherZ && routeOK F op c.lift r
  | _, .compose => op != .intersects
  | _, _ => false

/-- a polygon at height 0 minus a polyline (operands that look like `c`): Shapely returns the polygon, since
    removing a curve from an area leaves the same closed area -/
def curveCut (c : Ctl) : Bool := planarK c.ka && c.kb == .line && !c.ea

/-- `routeOK`, or the one route that implements `difference` only off the subtrahend (`curveCut`) -/
def routeOKc (F : Flags) (op : Op) (c : Ctl) (r : Route) : Bool :=
  routeOK F op c r || (op == .difference && curveCut c && r == .run (.polySub true) && F.fromShapelyPassesZ)

/-- contracts of the geometric libraries used as oracles (Shapely `contains` / `intersects`, FCL) -/
def OracleOK (O : Oracle) : Prop :=
  (∀ a b, O.sub2 a b = true ↔ ∀ q, b q = true → a q = true) ∧
  (∀ f, O.ne2 f = true ↔ ∃ q, f q = true) ∧
  (∀ f, O.ne3 f = true ↔ ∃ p, f p = true)

/-! ### facts about the control abstraction -/

@[simp] theorem ctl_ka (A B : Reg) : (ctlOf A B).ka = A.kind := rfl
@[simp] theorem ctl_kb (A B : Reg) : (ctlOf A B).kb = B.kind := rfl

theorem ctl_zne {A B : Reg} (ha : planarK A.kind = true) (hb : planarK B.kind = true) :
    (ctlOf A B).zne = decide (A.zz ≠ B.zz) := by
  have h1 := (kind_planar_cases A ha).1
  have h2 := (kind_planar_cases B hb).1
  simp only [ctlOf, h1, h2]

theorem ctl_ea {A B : Reg} (ha : planarK A.kind = true) : (ctlOf A B).ea = decide (A.zz ≠ 0) := by
  have h1 := (kind_planar_cases A ha).1
  simp only [ctlOf, h1, elevated]

theorem ctl_eb {A B : Reg} (hb : planarK B.kind = true) : (ctlOf A B).eb = decide (B.zz ≠ 0) := by
  have h1 := (kind_planar_cases B hb).1
  simp only [ctlOf, h1, elevated]

theorem ctl_swap (A B : Reg) : (ctlOf A B).swap = ctlOf B A := by
  simp only [ctlOf, Ctl.swap]
  congr 1
  cases A.z? <;> cases B.z? <;> simp [ne_comm]

theorem disjoint_sound (A B : Reg) (h : disjointK (ctlOf A B) = true) (p : Pt) : (A.mem p && B.mem p) = false := by
  simp only [disjointK, ctl_ka, ctl_kb, Bool.or_eq_true, Bool.and_eq_true, beq_iff_eq] at h
  rcases h with (⟨⟨ha, hb⟩, hz⟩ | ⟨⟨ha, hb⟩, he⟩) | ⟨⟨ha, hb⟩, he⟩
  · have hA := kind_planar_cases A ha
    have hB := kind_planar_cases B hb
    rw [ctl_zne ha hb] at hz
    have hzz : A.zz ≠ B.zz := by simpa using hz
    rw [hA.2.2 p, hB.2.2 p]; grind
  · have hA := kind_planar_cases A ha
    have hB := kind_line_cases B hb
    rw [ctl_ea ha] at he
    have hz0 : A.zz ≠ 0 := by simpa using he
    rw [hA.2.2 p, hB.2.2 p]; grind
  · have hA := kind_line_cases A ha
    have hB := kind_planar_cases B hb
    rw [ctl_eb hb] at he
    have hz0 : B.zz ≠ 0 := by simpa using he
    rw [hA.2.2 p, hB.2.2 p]; grind

/-! ### the handlers, one by one -/

section handlers
variable (O : Oracle) (F : Flags) (A B : Reg)

theorem polyAnd_sound (passZ : Bool) (hok : handlerOK F .intersect (ctlOf A B) (.polyAnd passZ) = true) :
    ∃ r, runH O F (.polyAnd passZ) A B = .res r ∧ ∀ p, r.mem p = (A.mem p && B.mem p) := by
  simp only [handlerOK, ctl_ka, ctl_kb, beq_self_eq_true, Bool.true_and, Bool.and_eq_true, Bool.or_eq_true] at hok
  obtain ⟨ha, hcase⟩ := hok
  have hA := kind_planar_cases A ha
  rcases hcase with (⟨⟨⟨hb, hz⟩, hp⟩, hf⟩ | ⟨⟨hb, hp⟩, hf⟩) | ⟨hb, he⟩
  · -- polygon ∩ polygon at the same height
    have hB := kind_planar_cases B hb
    rw [ctl_zne ha hb] at hz
    have hzz : A.zz = B.zz := by simpa using hz
    have hnl : (B.kind == Kind.line) = false := by
      rcases (isa_poly_iff _).mp hb with h | h <;> simp [h]
    refine ⟨_, by simp only [runH, hnl, hp, hf]; rfl, fun p => ?_⟩
    simp only [Res.mem, hA.2.2 p, hB.2.2 p, ← hzz]
    grind
  · -- polygon ∩ footprint
    have hbk : B.kind = .foot := by simpa using hb
    have hB := kind_foot_cases B hbk
    refine ⟨_, by simp only [runH, hbk, hp, hf]; rfl, fun p => ?_⟩
    simp only [Res.mem, hA.2.2 p, hB.2 p]
    grind
  · -- polygon at height 0 ∩ polyline
    have hbk : B.kind = .line := by simpa using hb
    have hB := kind_line_cases B hbk
    rw [ctl_ea ha] at he
    have hz0 : A.zz = 0 := by simpa using he
    refine ⟨_, by simp only [runH, hbk]; rfl, fun p => ?_⟩
    simp only [Res.mem, hA.2.2 p, hB.2.2 p, hz0]
    grind

theorem polyOr_sound (passZ : Bool) (hok : handlerOK F .union (ctlOf A B) (.polyOr passZ) = true) :
    ∃ r, runH O F (.polyOr passZ) A B = .res r ∧ ∀ p, r.mem p = (A.mem p || B.mem p) := by
  simp only [handlerOK, ctl_ka, ctl_kb, beq_self_eq_true, Bool.true_and, Bool.and_eq_true] at hok
  obtain ⟨⟨⟨ha, hb⟩, hz⟩, hp⟩ := hok
  have hA := kind_planar_cases A ha
  have hB := kind_planar_cases B hb
  rw [ctl_zne ha hb] at hz
  have hzz : A.zz = B.zz := by simpa using hz
  have hnl : (B.kind == Kind.line) = false := by
    rcases (isa_poly_iff _).mp hb with h | h <;> simp [h]
  refine ⟨_, by simp only [runH, hnl, hp]; rfl, fun p => ?_⟩
  simp only [Res.mem, hA.2.2 p, hB.2.2 p, ← hzz]
  grind

theorem polySub_sound (passZ : Bool) (hok : handlerOK F .difference (ctlOf A B) (.polySub passZ) = true) :
    ∃ r, runH O F (.polySub passZ) A B = .res r ∧ ∀ p, r.mem p = (A.mem p && !B.mem p) := by
  simp only [handlerOK, ctl_ka, ctl_kb, beq_self_eq_true, Bool.true_and, Bool.and_eq_true, Bool.or_eq_true] at hok
  obtain ⟨⟨⟨ha, hp⟩, hf⟩, hcase⟩ := hok
  have hA := kind_planar_cases A ha
  rcases hcase with ⟨hb, hz⟩ | hb
  · have hB := kind_planar_cases B hb
    rw [ctl_zne ha hb] at hz
    have hzz : A.zz = B.zz := by simpa using hz
    have hnl : (B.kind == Kind.line) = false := by
      rcases (isa_poly_iff _).mp hb with h | h <;> simp [h]
    refine ⟨_, by simp only [runH, hnl, hp, hf]; rfl, fun p => ?_⟩
    simp only [Res.mem, hA.2.2 p, hB.2.2 p, ← hzz]
    grind
  · have hbk : B.kind = .foot := by simpa using hb
    have hB := kind_foot_cases B hbk
    refine ⟨_, by simp only [runH, hbk, hp, hf]; rfl, fun p => ?_⟩
    simp only [Res.mem, hA.2.2 p, hB.2 p]
    grind

/-- a flat polygon minus a polyline is the polygon, at the polygon's height -/
theorem polySub_curve_sound (hc : curveCut (ctlOf A B) = true) (hF : F.fromShapelyPassesZ = true) :
    ∃ r, runH O F (.polySub true) A B = .res r ∧ ∀ p, r.mem p = A.mem p := by
  simp only [curveCut, ctl_ka, ctl_kb, Bool.and_eq_true, beq_iff_eq] at hc
  obtain ⟨⟨ha, hb⟩, _⟩ := hc
  have hA := kind_planar_cases A ha
  refine ⟨_, by simp only [runH, hb, hF]; rfl, fun p => ?_⟩
  simp only [Res.mem, hA.2.2 p]
  simp

theorem lineAnd_sound (hok : handlerOK F .intersect (ctlOf A B) .lineAnd = true) :
    ∃ r, runH O F .lineAnd A B = .res r ∧ ∀ p, r.mem p = (A.mem p && B.mem p) := by
  simp only [handlerOK, ctl_ka, ctl_kb, beq_self_eq_true, Bool.true_and, Bool.and_eq_true, Bool.or_eq_true] at hok
  obtain ⟨ha, hcase⟩ := hok
  have hak : A.kind = .line := by simpa [ctlOf] using ha
  have hA := kind_line_cases A hak
  refine ⟨_, rfl, fun p => ?_⟩
  rcases hcase with (hb | hb) | ⟨hb, he⟩
  · have hB := kind_foot_cases B (by simpa [ctlOf] using hb)
    simp only [Res.mem, hA.2.2 p, hB.2 p]; grind
  · have hB := kind_line_cases B (by simpa [ctlOf] using hb)
    simp only [Res.mem, hA.2.2 p, hB.2.2 p]; grind
  · have hB := kind_planar_cases B hb
    rw [ctl_eb hb] at he
    have hz0 : B.zz = 0 := by simpa using he
    simp only [Res.mem, hA.2.2 p, hB.2.2 p, hz0]; grind

theorem lineSub_sound (hok : handlerOK F .difference (ctlOf A B) .lineSub = true) :
    ∃ r, runH O F .lineSub A B = .res r ∧ ∀ p, r.mem p = (A.mem p && !B.mem p) := by
  simp only [handlerOK, ctl_ka, ctl_kb, beq_self_eq_true, Bool.true_and, Bool.and_eq_true, Bool.or_eq_true] at hok
  obtain ⟨ha, hcase⟩ := hok
  have hak : A.kind = .line := by simpa [ctlOf] using ha
  have hA := kind_line_cases A hak
  refine ⟨_, rfl, fun p => ?_⟩
  rcases hcase with (hb | hb) | ⟨hb, he⟩
  · have hB := kind_foot_cases B (by simpa [ctlOf] using hb)
    simp only [Res.mem, hA.2.2 p, hB.2 p]; grind
  · have hB := kind_line_cases B (by simpa [ctlOf] using hb)
    simp only [Res.mem, hA.2.2 p, hB.2.2 p]; grind
  · have hB := kind_planar_cases B hb
    rw [ctl_eb hb] at he
    have hz0 : B.zz = 0 := by simpa using he
    simp only [Res.mem, hA.2.2 p, hB.2.2 p, hz0]; grind

theorem foot_sound (op : Op) (h : Handler)
    (hh : (op = .intersect ∧ h = .footAnd) ∨ (op = .union ∧ h = .footOr) ∨ (op = .difference ∧ h = .footSub))
    (ha : A.kind = .foot) (hb : B.kind = .foot) :
    ∃ r, runH O F h A B = .res r ∧ ∀ p, r.mem p = op.sem (A.mem p) (B.mem p) := by
  have hA := kind_foot_cases A ha
  have hB := kind_foot_cases B hb
  rcases hh with ⟨rfl, rfl⟩ | ⟨rfl, rfl⟩ | ⟨rfl, rfl⟩ <;>
    exact ⟨_, rfl, fun p => by simp only [Res.mem, Op.sem, hA.2 p, hB.2 p]⟩

theorem vol_sound (op : Op) (h : Handler)
    (hh : (op = .intersect ∧ h = .volAnd) ∨ (op = .union ∧ h = .volOr) ∨ (op = .difference ∧ h = .volSub)) :
    ∃ r, runH O F h A B = .res r ∧ ∀ p, r.mem p = op.sem (A.mem p) (B.mem p) := by
  rcases hh with ⟨rfl, rfl⟩ | ⟨rfl, rfl⟩ | ⟨rfl, rfl⟩ <;> exact ⟨_, rfl, fun p => rfl⟩

theorem volFoot_sound (op : Op) (h : Handler)
    (hh : (op = .intersect ∧ h = .volFootAnd) ∨ (op = .difference ∧ h = .volFootSub)) (hb : B.kind = .foot) :
    ∃ r, runH O F h A B = .res r ∧ ∀ p, r.mem p = op.sem (A.mem p) (B.mem p) := by
  have hB := kind_foot_cases B hb
  rcases hh with ⟨rfl, rfl⟩ | ⟨rfl, rfl⟩ <;>
    exact ⟨_, rfl, fun p => by simp only [Res.mem, Op.sem, hB.2 p]⟩

theorem volSlice_sound (hb : planarK B.kind = true) :
    ∃ r, runH O F (.volSlice .otherZ .otherZ) A B = .res r ∧ ∀ p, r.mem p = (A.mem p && B.mem p) := by
  have hB := kind_planar_cases B hb
  refine ⟨_, rfl, fun p => ?_⟩
  simp only [Res.mem, ZSrc.pick, hB.2.2 p]
  by_cases hz : p.z = B.zz
  · have : p.xy.at B.zz = p := by rw [← hz]; exact Pt.xy_at p
    simp [hz, this]
  · simp [hz]

theorem clip_sound :
    (B.kind = .path → ∃ r, runH O F .volPathClip A B = .res r ∧ ∀ p, r.mem p = (A.mem p && B.mem p)) ∧
    (B.kind = .line → ∃ r, runH O F .volLineClip A B = .res r ∧ ∀ p, r.mem p = (A.mem p && B.mem p)) ∧
    (A.kind = .foot → B.kind = .path →
      ∃ r, runH O F .footPathClip A B = .res r ∧ ∀ p, r.mem p = (A.mem p && B.mem p)) := by
  refine ⟨fun hb => ?_, fun hb => ?_, fun ha hb => ?_⟩
  · have hB := kind_path_cases B hb
    exact ⟨_, rfl, fun p => by simp only [Res.mem, hB p]; grind⟩
  · have hB := kind_line_cases B hb
    refine ⟨_, rfl, fun p => ?_⟩
    simp only [Res.mem, hB.2.2 p, hB.2.1]
    by_cases hz : p.z = 0
    · have : p.xy.at 0 = p := by rw [← hz]; exact Pt.xy_at p
      simp [hz, this]; grind
    · simp [hz]
  · have hA := kind_foot_cases A ha
    have hB := kind_path_cases B hb
    exact ⟨_, rfl, fun p => by simp only [Res.mem, hA.2 p, hB p]; grind⟩

theorem ptsFilter_sound (ha : A.kind = .pts) (hb : B.kind = .pts) :
    ∃ r, runH O F .ptsFilter A B = .res r ∧ ∀ p, r.mem p = (A.mem p && B.mem p) := by
  refine ⟨_, rfl, fun p => ?_⟩
  have hA := fun q => (kind_pts_cases F A ha q).1
  have hB := fun q => kind_pts_cases F B hb q
  simp only [Res.mem, hA p, (hB p).1]
  have : ∀ q, containsPoint F B q = B.points.contains q := fun q => (hB q).2
  rw [Bool.eq_iff_iff]
  simp only [List.contains_eq_mem, List.mem_filter, this, Bool.and_eq_true, decide_eq_true_eq]

end handlers

/-- **every exact handler obeys set semantics in three coordinates**, whenever the decidable
    judgement `handlerOK` accepts it for the control abstraction of the two operands -/
theorem runH_sound (O : Oracle) (F : Flags) (op : Op) (h : Handler) (A B : Reg)
    (hok : handlerOK F op (ctlOf A B) h = true) :
    ∃ r, runH O F h A B = .res r ∧ ∀ p, r.mem p = op.sem (A.mem p) (B.mem p) := by
  cases h with
  | retSelf =>
    refine ⟨_, rfl, fun p => ?_⟩
    simp only [handlerOK, ctl_ka, ctl_kb, Bool.or_eq_true, Bool.and_eq_true, beq_iff_eq] at hok
    rcases hok with (⟨rfl, ha⟩ | ⟨rfl, ha⟩) | ⟨rfl, (ha | hb) | hd⟩
    · simp [Res.mem, Op.sem, kind_empty_mem A ha p]
    · simp [Res.mem, Op.sem, kind_all_mem A ha p]
    · simp [Res.mem, Op.sem, kind_empty_mem A ha p]
    · simp [Res.mem, Op.sem, kind_empty_mem B hb p]
    · have := disjoint_sound A B hd p
      simp only [Res.mem, Op.sem]
      cases h1 : A.mem p <;> cases h2 : B.mem p <;> simp_all
  | retOther =>
    refine ⟨_, rfl, fun p => ?_⟩
    simp only [handlerOK, ctl_ka, ctl_kb, Bool.or_eq_true, Bool.and_eq_true, beq_iff_eq] at hok
    rcases hok with ⟨rfl, ha⟩ | ⟨rfl, ha⟩
    · simp [Res.mem, Op.sem, kind_all_mem A ha p]
    · simp [Res.mem, Op.sem, kind_empty_mem A ha p]
  | retNowhere =>
    refine ⟨_, rfl, fun p => ?_⟩
    simp only [handlerOK, ctl_ka, ctl_kb, Bool.or_eq_true, Bool.and_eq_true, beq_iff_eq] at hok
    rcases hok with ⟨rfl, hd⟩ | ⟨rfl, hb⟩
    · have := disjoint_sound A B hd p
      simp [Res.mem, Op.sem, Reg.mem, this]
    · simp [Res.mem, Op.sem, Reg.mem, kind_all_mem B hb p]
  | polyAnd passZ =>
    have : op = .intersect := by
      cases op <;> simp [handlerOK] at hok ⊢
    subst this; exact polyAnd_sound O F A B passZ hok
  | polyOr passZ =>
    have : op = .union := by
      cases op <;> simp [handlerOK] at hok ⊢
    subst this; exact polyOr_sound O F A B passZ hok
  | polySub passZ =>
    have : op = .difference := by
      cases op <;> simp [handlerOK] at hok ⊢
    subst this; exact polySub_sound O F A B passZ hok
  | lineAnd =>
    have : op = .intersect := by
      cases op <;> simp [handlerOK] at hok ⊢
    subst this; exact lineAnd_sound O F A B hok
  | lineSub =>
    have : op = .difference := by
      cases op <;> simp [handlerOK] at hok ⊢
    subst this; exact lineSub_sound O F A B hok
  | footAnd =>
    simp only [handlerOK, ctl_ka, ctl_kb, Bool.and_eq_true, beq_iff_eq] at hok
    exact foot_sound O F A B op _ (Or.inl ⟨hok.1.1, rfl⟩) hok.1.2 hok.2
  | footOr =>
    simp only [handlerOK, ctl_ka, ctl_kb, Bool.and_eq_true, beq_iff_eq] at hok
    exact foot_sound O F A B op _ (Or.inr (Or.inl ⟨hok.1.1, rfl⟩)) hok.1.2 hok.2
  | footSub =>
    simp only [handlerOK, ctl_ka, ctl_kb, Bool.and_eq_true, beq_iff_eq] at hok
    exact foot_sound O F A B op _ (Or.inr (Or.inr ⟨hok.1.1, rfl⟩)) hok.1.2 hok.2
  | footPathClip =>
    simp only [handlerOK, ctl_ka, ctl_kb, Bool.and_eq_true, beq_iff_eq] at hok
    obtain ⟨⟨rfl, ha⟩, hb⟩ := hok
    exact (clip_sound O F A B).2.2 ha hb
  | volAnd =>
    simp only [handlerOK, ctl_ka, ctl_kb, Bool.and_eq_true, beq_iff_eq] at hok
    exact vol_sound O F A B op _ (Or.inl ⟨hok.1.1, rfl⟩)
  | volOr =>
    simp only [handlerOK, ctl_ka, ctl_kb, Bool.and_eq_true, beq_iff_eq] at hok
    exact vol_sound O F A B op _ (Or.inr (Or.inl ⟨hok.1.1, rfl⟩))
  | volSub =>
    simp only [handlerOK, ctl_ka, ctl_kb, Bool.and_eq_true, beq_iff_eq] at hok
    exact vol_sound O F A B op _ (Or.inr (Or.inr ⟨hok.1.1, rfl⟩))
  | volFootAnd =>
    simp only [handlerOK, ctl_ka, ctl_kb, Bool.and_eq_true, beq_iff_eq] at hok
    exact volFoot_sound O F A B op _ (Or.inl ⟨hok.1.1, rfl⟩) hok.2
  | volFootSub =>
    simp only [handlerOK, ctl_ka, ctl_kb, Bool.and_eq_true, beq_iff_eq] at hok
    exact volFoot_sound O F A B op _ (Or.inr ⟨hok.1.1, rfl⟩) hok.2
  | volSlice s r =>
    simp only [handlerOK, ctl_ka, ctl_kb, Bool.and_eq_true, beq_iff_eq] at hok
    obtain ⟨⟨⟨⟨rfl, _⟩, hb⟩, rfl⟩, rfl⟩ := hok
    exact volSlice_sound O F A B hb
  | volPathClip =>
    simp only [handlerOK, ctl_ka, ctl_kb, Bool.and_eq_true, beq_iff_eq] at hok
    obtain ⟨⟨rfl, _⟩, hb⟩ := hok
    exact (clip_sound O F A B).1 hb
  | volLineClip =>
    simp only [handlerOK, ctl_ka, ctl_kb, Bool.and_eq_true, beq_iff_eq] at hok
    obtain ⟨⟨rfl, _⟩, hb⟩ := hok
    exact (clip_sound O F A B).2.1 hb
  | ptsFilter =>
    simp only [handlerOK, ctl_ka, ctl_kb, Bool.and_eq_true, beq_iff_eq] at hok
    obtain ⟨⟨rfl, ha⟩, hb⟩ := hok
    exact ptsFilter_sound O F A B ha hb
  | ptsSampler =>
    simp only [handlerOK, beq_iff_eq] at hok
    subst hok
    exact ⟨_, rfl, fun p => rfl⟩
  | _ => simp [handlerOK] at hok

/-! ### routes -/

theorem sem_comm (op : Op) (hd : op ≠ .difference) (a b : Bool) : op.sem a b = op.sem b a := by
  cases op <;> simp [Op.sem, Bool.and_comm, Bool.or_comm] at hd ⊢

theorem ctl_lift {A B : Reg} (s : Shape2) (hA : A = .foot s) (hb : planarK B.kind = true) :
    ctlOf (liftReg .otherZ A B) B = (ctlOf A B).lift := by
  subst hA
  have hB := kind_planar_cases B hb
  by_cases hl : B.isLazy = true
  · have e : liftReg .otherZ (.foot s) B = .lzy (.planar B.zz s) := by simp [liftReg, hl, ZSrc.pick]
    rw [e]
    simp only [ctlOf, Ctl.lift, Reg.kind, Reg.z?, hB.1, elevated, hl, Ctl.mk.injEq]
    simp [Reg.isLazy]
  · have hl' : B.isLazy = false := by simpa using hl
    have e : liftReg .otherZ (.foot s) B = .planar B.zz s := by simp [liftReg, hl', ZSrc.pick]
    rw [e]
    simp only [ctlOf, Ctl.lift, Reg.kind, Reg.z?, hB.1, elevated, hl', Ctl.mk.injEq]
    simp [Reg.isLazy]

/-- a `foot` operand is `foot s` possibly under `lzy` wrappers; `liftReg` only lifts the bare form,
    which is the only one the generator and Scenic build (a footprint has no random parameters) -/
def bareFoot : Reg → Prop
  | .foot _ => True
  | _ => False

/-- **every route the dispatch can take obeys set semantics in three coordinates**, whenever the
    decidable judgement `routeOK` accepts it for the control abstraction of the operands -/
theorem exec_sound (O : Oracle) (F : Flags) (op : Op) (r : Route) :
    ∀ (A B : Reg), (A.kind = .foot → bareFoot A) → (B.kind = .foot → bareFoot B) →
      routeOK F op (ctlOf A B) r = true →
      ∃ res, exec O F op r A B = .res res ∧ ∀ p, res.mem p = op.sem (A.mem p) (B.mem p) := by
  induction r with
  | run h => exact fun A B _ _ hok => runH_sound O F op h A B hok
  | swap r ih =>
    intro A B hfa hfb hok
    simp only [routeOK, Bool.and_eq_true, bne_iff_ne, ne_eq] at hok
    rw [ctl_swap] at hok
    obtain ⟨res, h1, h2⟩ := ih B A hfb hfa hok.2
    exact ⟨res, h1, fun p => by rw [h2 p, sem_comm op hok.1]⟩
  | lift z r ih =>
    intro A B hfa hfb hok
    simp only [routeOK, ctl_ka, ctl_kb, Bool.and_eq_true, beq_iff_eq] at hok
    obtain ⟨⟨⟨⟨rfl, ha⟩, hb⟩, rfl⟩, hr⟩ := hok
    have hak : A.kind = .foot := by simpa [ctlOf] using ha
    have hbare := hfa hak
    cases A with
    | foot s =>
      have hB := kind_planar_cases B hb
      rw [← ctl_lift s rfl hb] at hr
      have hfa' : (liftReg .otherZ (.foot s) B).kind = .foot → bareFoot (liftReg .otherZ (.foot s) B) := by
        intro hk
        by_cases hl : B.isLazy = true <;> simp [liftReg, hl, Reg.kind] at hk
      obtain ⟨res, h1, h2⟩ := ih _ B hfa' hfb hr
      refine ⟨res, h1, fun p => ?_⟩
      rw [h2 p]
      have hm : (liftReg .otherZ (.foot s) B).mem p = (decide (p.z = B.zz) && s.mem p.xy) := by
        by_cases hl : B.isLazy = true <;> simp [liftReg, hl, Reg.mem, ZSrc.pick]
      simp only [Op.sem, hm, hB.2.2 p, Reg.mem]
      grind
    | _ => simp [bareFoot] at hbare
  | compose =>
    intro A B _ _ hok
    refine ⟨_, rfl, fun p => ?_⟩
    cases op <;> simp [routeOK, Res.mem, Op.sem] at hok ⊢
  | viaIntersect r _ => intro A B _ _ hok; simp [routeOK] at hok
  | crash => intro A B _ _ hok; simp [routeOK] at hok
  | fuel => intro A B _ _ hok; simp [routeOK] at hok

/-- the same with the `curveCut` route: a polygon minus a polyline obeys set semantics at every point **off the
    polyline** (all of whose points are boundary points) -/
theorem exec_sound_c (O : Oracle) (F : Flags) (op : Op) (r : Route) (A B : Reg)
    (hfa : A.kind = .foot → bareFoot A) (hfb : B.kind = .foot → bareFoot B)
    (hok : routeOKc F op (ctlOf A B) r = true) :
    ∃ res, exec O F op r A B = .res res ∧
      ∀ p, ((op = .difference ∧ curveCut (ctlOf A B) = true) → B.mem p = false) →
        res.mem p = op.sem (A.mem p) (B.mem p) := by
  simp only [routeOKc, Bool.or_eq_true, Bool.and_eq_true, beq_iff_eq] at hok
  rcases hok with hok | ⟨⟨⟨hop, hc⟩, hr⟩, hF⟩
  · obtain ⟨res, h1, h2⟩ := exec_sound O F op r A B hfa hfb hok
    exact ⟨res, h1, fun p _ => h2 p⟩
  · subst hop hr
    obtain ⟨res, h1, h2⟩ := polySub_curve_sound O F A B hc hF
    refine ⟨res, h1, fun p hp => ?_⟩
    rw [h2 p, Op.sem, hp ⟨rfl, hc⟩]
    simp

/-- planar results keep the height of their operands: a route accepted by `routeOK` that ends in one of
    the polygon handlers yields a `PolygonalRegion` at the operands' common height -/
theorem exec_keeps_height (O : Oracle) (F : Flags) (A B : Reg) (ha : planarK A.kind = true)
    (hb : planarK B.kind = true) (hz : A.zz = B.zz) (hF : F.fromShapelyPassesZ = true) :
    (∃ s, runH O F (.polyAnd true) A B = .res (.planar A.zz s)) ∧
    (∃ s, runH O F (.polyOr true) A B = .res (.planar A.zz s)) ∧
    (∃ s, runH O F (.polySub true) A B = .res (.planar A.zz s)) := by
  have hnl : (B.kind == Kind.line) = false := by
    rcases (isa_poly_iff _).mp hb with h | h <;> simp [h]
  exact ⟨⟨fun q => A.sh q && B.sh q, by simp [runH, hnl, hF]⟩, ⟨fun q => A.sh q || B.sh q, by simp [runH, hnl]⟩,
    ⟨fun q => A.sh q && !B.sh q, by simp [runH, hnl, hF]⟩⟩

/-! ### what goes wrong when a fact extracted from the source has the other value (negation witnesses) -/

def unitDisc : Shape2 := .disc ⟨0, 0⟩ 1

/-- without `z=self.z` (the defect repaired by 4fd67d49) the intersection of two discs at height 5 does
    not contain the point (0,0,5) both contain -/
theorem polyAnd_drops_height_witness (O : Oracle) (F : Flags) :
    ∃ r, runH O F (.polyAnd false) (.planar 5 unitDisc) (.planar 5 unitDisc) = .res r ∧
      r.mem ⟨0, 0, 5⟩ = false ∧ (Reg.planar 5 unitDisc).mem ⟨0, 0, 5⟩ = true := by
  refine ⟨_, rfl, ?_, ?_⟩
  · simp [Res.mem, Reg.kind]
  · simp [Reg.mem, unitDisc, Shape2.mem, V2.dsq, sq, Pt.xy]

/-- why the guard `isinstance(other, PolylineRegion) and self.z != 0` added by b481834b is needed: the polygon
    handler run on a polygon at height 5 and a polyline returns the planar intersection as a curve at height 0:
    the point (0,0,0) is in the result but not in the polygon (`handlerOK` rejects this, so a table without the
    guard fails `gen_routes_sound`) -/
theorem elevated_polygon_polyline_witness (O : Oracle) (F : Flags) :
    ∃ r, runH O F (.polyAnd true) (.planar 5 unitDisc) (.line [⟨-1, 0⟩, ⟨1, 0⟩]) = .res r ∧
      r.mem ⟨0, 0, 0⟩ = true ∧ (Reg.planar 5 unitDisc).mem ⟨0, 0, 0⟩ = false := by
  refine ⟨_, rfl, ?_, ?_⟩
  · simp [Res.mem, Reg.kind, Reg.sh, Reg.shape2, unitDisc, Shape2.mem, V2.dsq, sq, Pt.xy, onChain, chainSegs, onSeg2]
    norm_num
  · simp [Reg.mem]

/-- why the guard `not isinstance(other, PolygonalRegion)` added by 7945c47f is needed: the polygon-union handler
    run on a polygon and a polyline returns the polygon: the point (2,0,0) of the polyline is lost -/
theorem union_polyline_dropped_witness (O : Oracle) (F : Flags) :
    ∃ r, runH O F (.polyOr true) (.planar 0 unitDisc) (.line [⟨-3, 0⟩, ⟨3, 0⟩]) = .res r ∧
      r.mem ⟨2, 0, 0⟩ = false ∧ (Reg.line [⟨-3, 0⟩, ⟨3, 0⟩]).mem ⟨2, 0, 0⟩ = true := by
  refine ⟨_, rfl, ?_, ?_⟩
  · simp [Res.mem, Reg.kind, Reg.sh, Reg.shape2, unitDisc, Shape2.mem, V2.dsq, sq, Pt.xy]
    norm_num
  · simp [Reg.mem, onChain, chainSegs, onSeg2, V2.dsq, sq, Pt.xy]
    norm_num

end Scenic.Region
