import ScenicModel.Props.C17Cert

/-!
C17 (part 4b): the shadow of a convex occluder is convex — the certificate behind the "hidden behind a wall" oracle.
-/
namespace Scenic.Vis

theorem convex_between {lo hi a b m : Rat} (ha : lo ≤ a ∧ a ≤ hi) (hb : lo ≤ b ∧ b ≤ hi) (hm0 : 0 ≤ m) (hm1 : m ≤ 1) :
    lo ≤ m * a + (1 - m) * b ∧ m * a + (1 - m) * b ≤ hi := by
  have h1 : 0 ≤ 1 - m := by linarith
  constructor <;> nlinarith [mul_nonneg hm0 (sub_nonneg.mpr ha.1), mul_nonneg hm0 (sub_nonneg.mpr ha.2),
    mul_nonneg h1 (sub_nonneg.mpr hb.1), mul_nonneg h1 (sub_nonneg.mpr hb.2)]

/-- the solid box is convex -/
theorem Box.contains_convex (b : Box) (x y : V3) (hx : b.Contains x) (hy : b.Contains y) (m : Rat) (hm0 : 0 ≤ m)
    (hm1 : m ≤ 1) : b.Contains (lerp (1 - m) x y) := by
  unfold Box.Contains at *
  rw [inExt_iff] at *
  have e : b.loc (lerp (1 - m) x y) = ⟨m * (b.loc x).x + (1 - m) * (b.loc y).x, m * (b.loc x).y + (1 - m) * (b.loc y).y,
      m * (b.loc x).z + (1 - m) * (b.loc y).z⟩ := by
    unfold Box.loc lerp
    apply V3.ext' <;>
      simp only [Mat3.applyT_x, Mat3.applyT_y, Mat3.applyT_z, V3.sub_x, V3.sub_y, V3.sub_z] <;> ring
  rw [e]
  exact ⟨convex_between hx.1 hy.1 hm0 hm1, convex_between hx.2.1 hy.2.1 hm0 hm1,
    convex_between hx.2.2 hy.2.2 hm0 hm1⟩

/-- **the shadow of a convex occluder is convex**: if the lines of sight from `cam` (outside the box) to `p` and to `q`
    both pass through the box, so does the line of sight to every point between `p` and `q`. -/
theorem segMeets_lerp (b : Box) (cam p q : V3) (hcam : ¬ b.Contains cam) (hp : SegMeets b cam p)
    (hq : SegMeets b cam q) (t : Rat) (ht0 : 0 ≤ t) (ht1 : t ≤ 1) : SegMeets b cam (lerp t p q) := by
  obtain ⟨sp, sp0, sp1, hxp⟩ := hp
  obtain ⟨sq, sq0, sq1, hxq⟩ := hq
  have cam_eq : ∀ d : V3, cam.add (d.smul 0) = cam := by
    intro d; apply V3.ext' <;> simp
  have hsp : 0 < sp := by
    rcases lt_or_eq_of_le sp0 with h | h
    · exact h
    · rw [← h, cam_eq] at hxp; exact absurd hxp hcam
  have hsq : 0 < sq := by
    rcases lt_or_eq_of_le sq0 with h | h
    · exact h
    · rw [← h, cam_eq] at hxq; exact absurd hxq hcam
  have h1t : 0 ≤ 1 - t := by linarith
  -- denominator
  set Dn := (1 - t) * sq + t * sp with hDn
  have hDpos : 0 < Dn := by
    rcases lt_or_eq_of_le ht1 with h | h
    · have : 0 < (1 - t) * sq := mul_pos (by linarith) hsq
      have : 0 ≤ t * sp := mul_nonneg ht0 sp0
      linarith
    · rw [hDn, h]; simp only [sub_self, zero_mul, zero_add, one_mul]; exact hsp
  have hDne : Dn ≠ 0 := ne_of_gt hDpos
  set m := (1 - t) * sq / Dn with hm
  have hm0 : 0 ≤ m := div_nonneg (mul_nonneg h1t sq0) (le_of_lt hDpos)
  have hm1 : m ≤ 1 := by
    rw [hm, div_le_one hDpos, hDn]; nlinarith [mul_nonneg ht0 sp0]
  have h1m : 1 - m = t * sp / Dn := by
    rw [hm]; field_simp; rw [hDn]; ring
  set sr := sp * sq / Dn with hsr
  have hsr0 : 0 ≤ sr := div_nonneg (mul_nonneg sp0 sq0) (le_of_lt hDpos)
  have hsr1 : sr ≤ 1 := by
    rw [hsr, div_le_one hDpos, hDn]
    -- sp*sq ≤ (1-t) sq + t sp  since sp ≤ 1 and sq ≤ 1
    nlinarith [mul_nonneg h1t (mul_nonneg sq0 (sub_nonneg.mpr sp1)), mul_nonneg ht0 (mul_nonneg sp0 (sub_nonneg.mpr sq1))]
  refine ⟨sr, hsr0, hsr1, ?_⟩
  have hconv := b.contains_convex _ _ hxp hxq m hm0 hm1
  have e : cam.add (((lerp t p q).sub cam).smul sr)
      = lerp (1 - m) (cam.add ((p.sub cam).smul sp)) (cam.add ((q.sub cam).smul sq)) := by
    have k1 : m * sp = (1 - t) * sr := by rw [hm, hsr]; field_simp
    have k2 : (1 - m) * sq = t * sr := by rw [h1m, hsr]; field_simp
    unfold lerp
    apply V3.ext' <;>
      simp only [V3.add_x, V3.add_y, V3.add_z, V3.sub_x, V3.sub_y, V3.sub_z, V3.smul_x, V3.smul_y, V3.smul_z]
    · linear_combination (-(p.x - cam.x)) * k1 + (-(q.x - cam.x)) * k2
    · linear_combination (-(p.y - cam.y)) * k1 + (-(q.y - cam.y)) * k2
    · linear_combination (-(p.z - cam.z)) * k1 + (-(q.z - cam.z)) * k2
  rw [e]; exact hconv

/-- world position of the point with box coordinates `l` -/
def Box.at (b : Box) (l : V3) : V3 := b.c.add (b.M.apply l)

theorem Box.at_lerp_x (b : Box) (t u w ly lz : Rat) :
    b.at ⟨(1 - t) * u + t * w, ly, lz⟩ = lerp t (b.at ⟨u, ly, lz⟩) (b.at ⟨w, ly, lz⟩) := by
  unfold Box.at lerp
  apply V3.ext' <;>
    simp only [Mat3.apply_x, Mat3.apply_y, Mat3.apply_z, V3.add_x, V3.add_y, V3.add_z] <;> ring

theorem Box.at_lerp_y (b : Box) (t u w lx lz : Rat) :
    b.at ⟨lx, (1 - t) * u + t * w, lz⟩ = lerp t (b.at ⟨lx, u, lz⟩) (b.at ⟨lx, w, lz⟩) := by
  unfold Box.at lerp
  apply V3.ext' <;>
    simp only [Mat3.apply_x, Mat3.apply_y, Mat3.apply_z, V3.add_x, V3.add_y, V3.add_z] <;> ring

theorem Box.at_lerp_z (b : Box) (t u w lx ly : Rat) :
    b.at ⟨lx, ly, (1 - t) * u + t * w⟩ = lerp t (b.at ⟨lx, ly, u⟩) (b.at ⟨lx, ly, w⟩) := by
  unfold Box.at lerp
  apply V3.ext' <;>
    simp only [Mat3.apply_x, Mat3.apply_y, Mat3.apply_z, V3.add_x, V3.add_y, V3.add_z] <;> ring

/-- the eight corners of a box (world coordinates) -/
def Box.corners (b : Box) : List V3 :=
  [b.at ⟨-b.h.x, -b.h.y, -b.h.z⟩, b.at ⟨-b.h.x, -b.h.y, b.h.z⟩, b.at ⟨-b.h.x, b.h.y, -b.h.z⟩, b.at ⟨-b.h.x, b.h.y, b.h.z⟩,
   b.at ⟨b.h.x, -b.h.y, -b.h.z⟩, b.at ⟨b.h.x, -b.h.y, b.h.z⟩, b.at ⟨b.h.x, b.h.y, -b.h.z⟩, b.at ⟨b.h.x, b.h.y, b.h.z⟩]

/-- if the lines of sight to the eight corners of the target pass through the occluder, so does the line of sight to
    every point of the target -/
theorem segMeets_of_corners (occ tgt : Box) (hMt : tgt.M.IsOrtho) (cam : V3) (hcam : ¬ occ.Contains cam)
    (hc : ∀ c ∈ tgt.corners, SegMeets occ cam c) (p : V3) (hp : tgt.Contains p) : SegMeets occ cam p := by
  unfold Box.Contains at hp
  rw [inExt_iff] at hp
  obtain ⟨⟨x1, x2⟩, ⟨y1, y2⟩, ⟨z1, z2⟩⟩ := hp
  obtain ⟨tx, tx0, tx1, ex⟩ := exists_param x1 x2
  obtain ⟨ty, ty0, ty1, ey⟩ := exists_param y1 y2
  obtain ⟨tz, tz0, tz1, ez⟩ := exists_param z1 z2
  have hp' : p = tgt.at ⟨(tgt.loc p).x, (tgt.loc p).y, (tgt.loc p).z⟩ := by
    unfold Box.at
    have hw : tgt.M.apply (tgt.loc p) = p.sub tgt.c := Mat3.apply_applyT hMt _
    have e : (⟨(tgt.loc p).x, (tgt.loc p).y, (tgt.loc p).z⟩ : V3) = tgt.loc p := rfl
    rw [e, hw]
    apply V3.ext' <;> simp only [V3.add_x, V3.add_y, V3.add_z, V3.sub_x, V3.sub_y, V3.sub_z] <;> ring
  rw [hp', ex, ey, ez]
  have c1 := hc _ (by simp [Box.corners] : tgt.at ⟨-tgt.h.x, -tgt.h.y, -tgt.h.z⟩ ∈ tgt.corners)
  have c2 := hc _ (by simp [Box.corners] : tgt.at ⟨-tgt.h.x, -tgt.h.y, tgt.h.z⟩ ∈ tgt.corners)
  have c3 := hc _ (by simp [Box.corners] : tgt.at ⟨-tgt.h.x, tgt.h.y, -tgt.h.z⟩ ∈ tgt.corners)
  have c4 := hc _ (by simp [Box.corners] : tgt.at ⟨-tgt.h.x, tgt.h.y, tgt.h.z⟩ ∈ tgt.corners)
  have c5 := hc _ (by simp [Box.corners] : tgt.at ⟨tgt.h.x, -tgt.h.y, -tgt.h.z⟩ ∈ tgt.corners)
  have c6 := hc _ (by simp [Box.corners] : tgt.at ⟨tgt.h.x, -tgt.h.y, tgt.h.z⟩ ∈ tgt.corners)
  have c7 := hc _ (by simp [Box.corners] : tgt.at ⟨tgt.h.x, tgt.h.y, -tgt.h.z⟩ ∈ tgt.corners)
  have c8 := hc _ (by simp [Box.corners] : tgt.at ⟨tgt.h.x, tgt.h.y, tgt.h.z⟩ ∈ tgt.corners)
  rw [Box.at_lerp_x]
  apply segMeets_lerp _ _ _ _ hcam _ _ _ tx0 tx1
  · rw [Box.at_lerp_y]
    apply segMeets_lerp _ _ _ _ hcam _ _ _ ty0 ty1
    · rw [Box.at_lerp_z]; exact segMeets_lerp _ _ _ _ hcam c1 c2 _ tz0 tz1
    · rw [Box.at_lerp_z]; exact segMeets_lerp _ _ _ _ hcam c3 c4 _ tz0 tz1
  · rw [Box.at_lerp_y]
    apply segMeets_lerp _ _ _ _ hcam _ _ _ ty0 ty1
    · rw [Box.at_lerp_z]; exact segMeets_lerp _ _ _ _ hcam c5 c6 _ tz0 tz1
    · rw [Box.at_lerp_z]; exact segMeets_lerp _ _ _ _ hcam c7 c8 _ tz0 tz1

/-- **object_hidden_behind_box**: the certificate used by the occlusion oracle — if the point predicate reports each of
    the eight corners of the target blocked by one box occluder (which does not contain the camera), the object model
    reports the target not visible, for every list of candidate rays. -/
theorem object_hidden_behind_box (vw : Viewer) (hR : vw.R.IsOrtho) (rays : List V3) (tgt wall : Box)
    (occ : List Box) (hwall : wall ∈ occ) (hMw : wall.M.IsOrtho) (hMt : tgt.M.IsOrtho)
    (hh : 0 ≤ tgt.h.x ∧ 0 ≤ tgt.h.y ∧ 0 ≤ tgt.h.z) (hcam : ¬ wall.Contains vw.cam)
    (hne : ∀ c ∈ tgt.corners, c ≠ vw.cam)
    (hc : ∀ c ∈ tgt.corners, wall.Blocks Cfg.reference vw.cam (c.sub vw.cam) (c.sub vw.cam).normSq = true) :
    objectVisible Cfg.reference vw rays tgt occ = false := by
  apply object_hidden_never_visible vw hR rays tgt occ hh
  intro p hp
  refine ⟨wall, hwall, hMw, hcam, ?_⟩
  exact segMeets_of_corners wall tgt hMt vw.cam hcam
    (fun c hcm => occlusion_sound wall vw.cam c (hne c hcm) (hc c hcm)) p hp

end Scenic.Vis
