import ScenicModel.Lemmas.SamplerDraws
import ScenicModel.Model.SamplerOptions
import ScenicModel.Gen.SamplerOptCfg
import ScenicModel.Gen.SamplerCfg

/-!
# C01 — the construction of a weighted choice (`Options({...})` / `Discrete({...})`, dict branch of `Options.__init__`)

`optBuild` (Model/SamplerOptions.lean) is the constructor's loop with its comparisons as data (`Scenic.Gen.optCfg`,
regenerated from the source; `gen_optcfg_wf` re-decided on every run).  The theorems say, for every list of items:
which error is raised, that exactly the zero-weight options are dropped (order kept), that the dropped options are
not dependencies of the multiplexer (so never sampled), that the kept weights satisfy the "proper weights" hypothesis
of `scene_generation_eq_declarative_semantics`, that the selector takes position `k` with probability
`w_k / (total weight of all items)`, and that `Options.clone` (`resample`) rebuilds the same options and weights.
-/
namespace Scenic.Sampler
open Dist

theorem optLoop_eq {c : OptCfg} (h : c.WF) (items : List (Nat × Option Rat)) :
    optLoop c items = match firstErr items with
      | some e => .error e
      | none => .ok (keptSpec items) := by
  obtain ⟨h1, h2, h3, h4, _, _⟩ := h
  induction items with
  | nil => rfl
  | cons it rest ih =>
    obtain ⟨o, w?⟩ := it
    cases w? with
    | none => rfl
    | some w =>
      simp only [optLoop, firstErr, keptSpec, h1, h2, h3, h4, WCmp.test, ih, Int.cast_zero, decide_eq_true_eq]
      by_cases hneg : w < 0
      · simp [hneg]
      · simp only [hneg, if_false]
        cases firstErr rest with
        | some e => rfl
        | none => by_cases hz : w = 0 <;> simp [hz]

theorem firstErr_none_iff (items : List (Nat × Option Rat)) : firstErr items = none ↔ Proper items := by
  induction items with
  | nil => simp [firstErr, Proper]
  | cons it rest ih =>
    obtain ⟨o, w?⟩ := it
    cases w? with
    | none =>
      simp only [firstErr, Proper]
      constructor
      · intro h; cases h
      · intro h
        obtain ⟨w, hw, _⟩ := h (o, none) (List.mem_cons_self ..)
        cases hw
    | some w =>
      simp only [firstErr]
      by_cases hneg : w < 0
      · simp only [hneg, if_true]
        constructor
        · intro h; cases h
        · intro h
          obtain ⟨w', hw, hnn⟩ := h (o, some w) (List.mem_cons_self ..)
          simp only [Option.some.injEq] at hw
          subst hw
          exact absurd hneg (not_lt.mpr hnn)
      · simp only [hneg, if_false, ih]
        constructor
        · intro h x hx
          rcases List.mem_cons.mp hx with rfl | hx
          · exact ⟨w, rfl, not_lt.mp hneg⟩
          · exact h x hx
        · intro h x hx
          exact h x (List.mem_cons_of_mem _ hx)

theorem keptSpec_mem (items : List (Nat × Option Rat)) (o : Nat) (w : Rat) :
    (o, w) ∈ keptSpec items ↔ (o, some w) ∈ items ∧ w ≠ 0 := by
  induction items with
  | nil => simp [keptSpec]
  | cons it rest ih =>
    obtain ⟨o', w?⟩ := it
    cases w? with
    | none => simp [keptSpec, ih]
    | some w' =>
      simp only [keptSpec]
      by_cases hz : w' = 0
      · simp only [hz, if_true, ih, List.mem_cons, Prod.mk.injEq, Option.some.injEq]
        constructor
        · rintro ⟨h, hne⟩; exact ⟨Or.inr h, hne⟩
        · rintro ⟨h | h, hne⟩
          · exact absurd h.2 hne
          · exact ⟨h, hne⟩
      · simp only [hz, if_false, List.mem_cons, Prod.mk.injEq, ih, Option.some.injEq]
        constructor
        · rintro (⟨rfl, rfl⟩ | ⟨h, hne⟩)
          · exact ⟨Or.inl ⟨rfl, rfl⟩, hz⟩
          · exact ⟨Or.inr h, hne⟩
        · rintro ⟨h | h, hne⟩
          · exact Or.inl h
          · exact Or.inr ⟨h, hne⟩

theorem keptSpec_pos (items : List (Nat × Option Rat)) (hp : Proper items) : ∀ p ∈ keptSpec items, 0 < p.2 := by
  rintro ⟨o, w⟩ hmem
  obtain ⟨hin, hne⟩ := (keptSpec_mem items o w).mp hmem
  obtain ⟨w', hw, hnn⟩ := hp _ hin
  simp only [Option.some.injEq] at hw
  subst hw
  exact lt_of_le_of_ne hnn (Ne.symm hne)

theorem keptSpec_sum (items : List (Nat × Option Rat)) : sumW ((keptSpec items).map (·.2)) = itemsTotal items := by
  induction items with
  | nil => rfl
  | cons it rest ih =>
    obtain ⟨o, w?⟩ := it
    cases w? with
    | none => simpa [keptSpec, itemsTotal] using ih
    | some w =>
      simp only [keptSpec, itemsTotal]
      by_cases hz : w = 0
      · simp [hz, ih]
      · simp [hz, sumW, ih]

theorem zip_map_fst_snd (kept : List (Nat × Rat)) : (kept.map (·.1)).zip (kept.map (·.2)) = kept := by
  induction kept with
  | nil => rfl
  | cons p rest ih => simp [ih]

theorem keptSpec_some (kept : List (Nat × Rat)) (h : ∀ p ∈ kept, 0 < p.2) :
    keptSpec (kept.map fun p => (p.1, some p.2)) = kept ∧ firstErr (kept.map fun p => (p.1, some p.2)) = none := by
  induction kept with
  | nil => exact ⟨rfl, rfl⟩
  | cons p rest ih =>
    have hp := h p (List.mem_cons_self ..)
    obtain ⟨i1, i2⟩ := ih fun q hq => h q (List.mem_cons_of_mem _ hq)
    have hne : p.2 ≠ 0 := ne_of_gt hp
    have hnl : ¬ p.2 < 0 := not_lt.mpr (le_of_lt hp)
    simp [keptSpec, firstErr, hne, hnl, i1, i2]

end Scenic.Sampler

namespace Scenic.C01
open Scenic.Sampler Scenic.Gen Scenic.Sampler.Dist

/-- side condition on generated data: `Options.__init__` refuses negative weights (`prob < 0`), skips exactly the
    zero weights (`prob == 0`) and rejects an empty domain (`len(options) == 0`) -/
theorem gen_optcfg_wf : optCfg.WF := by decide

/-- **what `Options({...})` builds, for every list of items**: the first item whose weight is not a number / is
    negative raises; otherwise exactly the items with a non-zero weight are kept, in order; none left is a rejection -/
theorem options_build_spec (items : List (Nat × Option Rat)) :
    optBuild optCfg items = match firstErr items with
      | some .typeError => .typeError
      | some .negative => .negative
      | none => if keptSpec items = [] then .empty
                else .ok ((keptSpec items).map (·.1)) ((keptSpec items).map (·.2)) := by
  simp only [optBuild, optLoop_eq gen_optcfg_wf items]
  cases firstErr items with
  | some e => cases e <;> rfl
  | none =>
    have h5 : optCfg.emptyCmp = .eq := gen_optcfg_wf.2.2.2.2.1
    have h6 : optCfg.emptyConst = 0 := gen_optcfg_wf.2.2.2.2.2
    simp only [h5, h6, WCmp.test, Int.cast_zero]
    cases keptSpec items with
    | nil => simp
    | cons p rest =>
      have hpos : (0 : Rat) ≤ ((rest.length : Nat) : Rat) := by exact_mod_cast Nat.zero_le _
      have : ¬ (((rest.length : Nat) : Rat) + 1 = 0) := by intro h0; linarith
      simp [this]

example : optBuild optCfg [(7, some 1), (8, some 0), (9, some 3)] = .ok [7, 9] [1, 3] := by decide +kernel
example : optBuild optCfg [(7, some 0), (8, some (-1)), (9, none)] = .negative := by decide +kernel
example : optBuild optCfg [(7, some 0), (8, some 0)] = .empty := by decide +kernel

/-- no error is raised iff every weight is a non-negative constant number; nothing is kept iff all weights are zero -/
theorem options_build_errors (items : List (Nat × Option Rat)) :
    (firstErr items = none ↔ Proper items)
      ∧ (keptSpec items = [] ↔ ∀ o w, (o, some w) ∈ items → w = 0) := by
  refine ⟨firstErr_none_iff items, ?_⟩
  constructor
  · intro h o w hin
    by_contra hne
    have := (keptSpec_mem items o w).mpr ⟨hin, hne⟩
    rw [h] at this
    cases this
  · intro h
    apply List.eq_nil_iff_forall_not_mem.mpr
    rintro ⟨o, w⟩ hmem
    obtain ⟨hin, hne⟩ := (keptSpec_mem items o w).mp hmem
    exact hne (h o w hin)

/-- a successful construction is `keptSpec` of proper items -/
theorem options_build_ok {items : List (Nat × Option Rat)} {os : List Nat} {ws : List Rat}
    (h : optBuild optCfg items = .ok os ws) :
    Proper items ∧ keptSpec items ≠ [] ∧ os = (keptSpec items).map (·.1) ∧ ws = (keptSpec items).map (·.2) := by
  rw [options_build_spec] at h
  cases hfe : firstErr items with
  | some e => rw [hfe] at h; cases e <;> cases h
  | none =>
    rw [hfe] at h
    simp only at h
    by_cases hk : keptSpec items = []
    · rw [if_pos hk] at h; cases h
    · rw [if_neg hk] at h
      injection h with h1 h2
      exact ⟨(firstErr_none_iff items).mp hfe, hk, h1.symm, h2.symm⟩

/-- **the kept weights are proper**: as many weights as options, at least one, all positive, and their total is
    the total weight of all items — so the weighted selector satisfies the hypothesis "non-negative, not all zero" of
    `scene_generation_eq_declarative_semantics` (`Prog.normalizedB` on `.windex ws`) -/
theorem options_kept_proper {items : List (Nat × Option Rat)} {os : List Nat} {ws : List Rat}
    (h : optBuild optCfg items = .ok os ws) :
    os.length = ws.length ∧ ws ≠ [] ∧ (∀ w ∈ ws, 0 < w) ∧ sumW ws = itemsTotal items ∧ 0 < sumW ws
      ∧ (ws.all (fun w => decide (0 ≤ w)) && decide (0 < sumW ws)) = true := by
  obtain ⟨hp, hne, rfl, rfl⟩ := options_build_ok h
  have hpos : ∀ w ∈ (keptSpec items).map (·.2), 0 < w := by
    intro w hw
    obtain ⟨p, hp', rfl⟩ := List.mem_map.mp hw
    exact keptSpec_pos items hp p hp'
  have hsum : 0 < sumW ((keptSpec items).map (·.2)) := by
    cases hk : keptSpec items with
    | nil => exact absurd hk hne
    | cons p rest =>
      rw [hk] at hpos
      have h0 : 0 < p.2 := hpos p.2 (by simp)
      have hr : ∀ l : List Rat, (∀ w ∈ l, 0 < w) → 0 ≤ sumW l := by
        intro l
        induction l with
        | nil => intro _; exact le_refl 0
        | cons a l ih =>
          intro hl
          have ha := hl a (List.mem_cons_self ..)
          have := ih fun w hw => hl w (List.mem_cons_of_mem _ hw)
          simp only [sumW]; linarith
      have := hr (rest.map (·.2)) fun w hw => hpos w (by simp only [List.map_cons]; exact List.mem_cons_of_mem _ hw)
      simp only [List.map_cons, sumW]; linarith
  refine ⟨by simp, ?_, hpos, keptSpec_sum items, hsum, ?_⟩
  · intro hnil; exact hne (List.map_eq_nil_iff.mp hnil)
  · simp only [Bool.and_eq_true, List.all_eq_true, decide_eq_true_eq]
    exact ⟨fun w hw => le_of_lt (hpos w hw), hsum⟩

example : (optBuild optCfg [(7, some 1), (8, some 0), (9, some 3)] = .ok [7, 9] [1, 3]) ∧ sumW [1, 3] = 4 := by
  decide +kernel

/-- **a zero-weight option is dropped, not merely never selected**: the multiplexer's dependencies are its selector
    and exactly the options given a non-zero weight (an empty range inside a zero-weight option never rejects a scene) -/
theorem options_dropped_not_dependency {items : List (Nat × Option Rat)} {os : List Nat} {ws : List Rat}
    (h : optBuild optCfg items = .ok os ws) (idx o : Nat) :
    o ∈ (optNodes idx os ws).2.deps ↔ o = idx ∨ ∃ w, (o, some w) ∈ items ∧ w ≠ 0 := by
  obtain ⟨_, _, rfl, rfl⟩ := options_build_ok h
  simp only [optNodes, Node.deps, List.mem_cons, List.mem_map]
  constructor
  · rintro (h | ⟨p, hp, rfl⟩)
    · exact Or.inl h
    · exact Or.inr ⟨p.2, (keptSpec_mem items p.1 p.2).mp hp⟩
  · rintro (h | ⟨w, hw⟩)
    · exact Or.inl h
    · exact Or.inr ⟨(o, w), (keptSpec_mem items o w).mpr hw, rfl⟩

example : (8 ∈ (optNodes 0 [7, 9] [1, 3]).2.deps) = False := by decide

/-- **the law of the weighted choice in terms of the weights the program wrote**: position `k` of the kept options is
    selected with probability `w_k / (total weight of all items)`, and that position holds an item of the program with
    exactly that (non-zero) weight -/
theorem options_selector_law {items : List (Nat × Option Rat)} {os : List Nat} {ws : List Rat}
    (h : optBuild optCfg items = .ok os ws) (env : Env) (k : Nat) (hk : k < ws.length) :
    mass (draw samplerCfg (.windex ws) env) (onSome (isIndex k)) = ws.getD k 0 / itemsTotal items
      ∧ (os.getD k 0, some (ws.getD k 0)) ∈ items ∧ ws.getD k 0 ≠ 0 := by
  obtain ⟨hlen, _, hpos, hsum, _, _⟩ := options_kept_proper h
  obtain ⟨_, _, hos, hws⟩ := options_build_ok h
  refine ⟨?_, ?_⟩
  · rw [← hsum]
    exact windex_draw samplerCfg ws (fun w hw => le_of_lt (hpos w hw)) env k hk
  · have hk' : k < (keptSpec items).length := by rw [hws] at hk; simpa using hk
    have hmem : (keptSpec items)[k] ∈ keptSpec items := List.getElem_mem hk'
    have e1 : os.getD k 0 = ((keptSpec items)[k]).1 := by
      subst hos; simp [List.getD, hk']
    have e2 : ws.getD k 0 = ((keptSpec items)[k]).2 := by
      subst hws; simp [List.getD, hk']
    rw [e1, e2]
    exact (keptSpec_mem items _ _).mp hmem

/-- **`Options.clone` (`resample` of a weighted choice) rebuilds the same options and weights** -/
theorem options_clone_same {items : List (Nat × Option Rat)} {os : List Nat} {ws : List Rat}
    (h : optBuild optCfg items = .ok os ws) : optClone optCfg os ws = .ok os ws := by
  obtain ⟨hp, hne, rfl, rfl⟩ := options_build_ok h
  have hpos := keptSpec_pos items hp
  obtain ⟨e1, e2⟩ := keptSpec_some (keptSpec items) hpos
  simp only [optClone, zip_map_fst_snd, options_build_spec, e1, e2, if_neg hne]

example : optClone optCfg [7, 9] [1, 3] = .ok [7, 9] [1, 3] := by decide +kernel

end Scenic.C01
