import ScenicModel.Props.C17Point

/-!
C17 (part 3): the object branch (ray casting abstracted to a finite list of candidate rays):
more occluders never reveal; an object wholly outside the view volume, or all of whose lines of sight are
blocked, is never reported visible.
-/
namespace Scenic.Vis

/-! ### the angular windows do not depend on the length of the vector -/

theorem forward_ref (v : V3) : forward Cfg.reference v = v.y := rfl
theorem horizSq_ref (v : V3) : horizSq Cfg.reference v = v.y * v.y + v.x * v.x := rfl
theorem zeroCos_ref : zeroCos Cfg.reference = 0 := rfl

theorem geMulSqrt_scale {f c n k : Rat} (hk : 0 < k) :
    GeMulSqrt (k * f) c (k * k * n) ↔ GeMulSqrt f c n := by
  unfold GeMulSqrt
  have hkk : 0 < k * k := mul_pos hk hk
  have e1 : 0 ≤ k * f ↔ 0 ≤ f := by
    constructor
    · intro h; by_contra hn; have : f < 0 := not_le.mp hn; nlinarith
    · intro h; exact mul_nonneg (le_of_lt hk) h
  have e2 : c * c * (k * k * n) ≤ k * f * (k * f) ↔ c * c * n ≤ f * f := by
    constructor
    · intro h; by_contra hn; have : f * f < c * c * n := not_le.mp hn; nlinarith
    · intro h; nlinarith
  have e3 : k * f * (k * f) ≤ c * c * (k * k * n) ↔ f * f ≤ c * c * n := by
    constructor
    · intro h; by_contra hn; have : c * c * n < f * f := not_le.mp hn; nlinarith
    · intro h; nlinarith
  split
  · rw [e1, e2]
  · rw [e1, e3]

theorem azOK_ref (h : Half) (v : V3) :
    AzOK Cfg.reference h v ↔
      if v.y * v.y + v.x * v.x = 0 then h.c ≤ 0 else GeMulSqrt v.y h.c (v.y * v.y + v.x * v.x) := Iff.rfl

theorem altOK_ref (h : Half) (v : V3) : AltOK Cfg.reference h v ↔ v.z * v.z ≤ h.s * h.s * v.normSq := Iff.rfl

theorem inWindows_ref (vw : Viewer) (v : V3) :
    InWindows Cfg.reference vw v ↔ v ≠ V3.zero ∧ AzOK Cfg.reference vw.a0 v ∧ AltOK Cfg.reference vw.a1 v :=
  Iff.rfl

theorem azOK_scale (c y x k : Rat) (hk : 0 < k)
    (h : if y * y + x * x = 0 then c ≤ 0 else GeMulSqrt y c (y * y + x * x)) :
    if k * y * (k * y) + k * x * (k * x) = 0 then c ≤ 0
    else GeMulSqrt (k * y) c (k * y * (k * y) + k * x * (k * x)) := by
  have e : k * y * (k * y) + k * x * (k * x) = k * k * (y * y + x * x) := by ring
  have hkk : 0 < k * k := mul_pos hk hk
  by_cases h0 : y * y + x * x = 0
  · rw [if_pos h0] at h
    rw [if_pos (by rw [e, h0, mul_zero])]
    exact h
  · rw [if_neg h0] at h
    rw [if_neg (by rw [e]; exact mul_ne_zero (ne_of_gt hkk) h0), e]
    exact (geMulSqrt_scale hk).mpr h

theorem smul_ne_zero {k : Rat} (hk : 0 < k) {v : V3} (hv : v ≠ V3.zero) : v.smul k ≠ V3.zero := by
  intro h
  apply hv
  have hx := congrArg V3.x h
  have hy := congrArg V3.y h
  have hz := congrArg V3.z h
  simp only [V3.smul_x, V3.smul_y, V3.smul_z, V3.zero] at hx hy hz
  have hk' : k ≠ 0 := ne_of_gt hk
  have hx' : v.x = 0 := by simpa [hk'] using hx
  have hy' : v.y = 0 := by simpa [hk'] using hy
  have hz' : v.z = 0 := by simpa [hk'] using hz
  exact V3.ext' hx' hy' hz'

/-- a positive multiple of a vector inside the windows is inside the windows -/
theorem inWindows_smul (vw : Viewer) (v : V3) {k : Rat} (hk : 0 < k) (h : InWindows Cfg.reference vw v) :
    InWindows Cfg.reference vw (v.smul k) := by
  rw [inWindows_ref] at h ⊢
  obtain ⟨hv, haz, halt⟩ := h
  refine ⟨smul_ne_zero hk hv, ?_, ?_⟩
  · exact azOK_scale _ _ _ _ hk ((azOK_ref _ _).mp haz)
  · rw [altOK_ref] at halt ⊢
    simp only [V3.smul_z, V3.normSq_def, V3.smul_x, V3.smul_y]
    rw [V3.normSq_def] at halt
    have hkk : 0 ≤ k * k := le_of_lt (mul_pos hk hk)
    nlinarith [mul_le_mul_of_nonneg_left halt hkk]

/-- the point reached by travelling `s > 0` along a ray that lies inside the windows, within the visible distance,
    is in the view volume -/
theorem ray_point_in_view_volume (vw : Viewer) (hR : vw.R.IsOrtho) (r : V3) (s : Rat) (hs : 0 < s)
    (hw : InWindows Cfg.reference vw r) (hD : 0 ≤ vw.D)
    (hsd : s * s * (vw.R.apply r).normSq ≤ vw.D * vw.D) :
    InViewVolume vw (vw.cam.add ((vw.R.apply r).smul s)) := by
  unfold InViewVolume
  have e : vw.R.applyT ((vw.cam.add ((vw.R.apply r).smul s)).sub vw.cam) = r.smul s := by
    have : (vw.cam.add ((vw.R.apply r).smul s)).sub vw.cam = (vw.R.apply r).smul s := by
      apply V3.ext' <;> simp only [V3.sub_x, V3.sub_y, V3.sub_z, V3.add_x, V3.add_y, V3.add_z] <;> ring
    rw [this, Mat3.applyT_smul, Mat3.applyT_apply hR]
  simp only [e]
  refine ⟨⟨hD, ?_⟩, inWindows_smul vw r hs hw⟩
  rw [Mat3.normSq_apply hR] at hsd
  have : (r.smul s).normSq = s * s * r.normSq := by
    simp only [V3.normSq_def, V3.smul_x, V3.smul_y, V3.smul_z]; ring
  rw [this]; exact hsd

/-! ### unfolding the object model -/

theorem minList_mem : ∀ (l : List Rat) (s : Rat), minList l = some s → s ∈ l
  | [], s, h => by simp [minList] at h
  | a :: rest, s, h => by
    unfold minList at h
    cases hr : minList rest with
    | none =>
      rw [hr] at h
      simp only [Option.some.injEq] at h
      rw [← h]; exact List.mem_cons_self
    | some m =>
      rw [hr] at h
      simp only at h
      split at h
      · simp only [Option.some.injEq] at h
        rw [← h]; exact List.mem_cons_self
      · simp only [Option.some.injEq] at h
        rw [← h]; exact List.mem_cons_of_mem _ (minList_mem rest m hr)

/-- a reported first hit is a point of the target surface at a parameter `s ≥ 0` within the visible distance -/
theorem Box.firstHit_spec (b : Box) (p dir : V3) (D s : Rat) (h : b.firstHit p dir D = some s) :
    s ∈ b.hitParams p dir ∧ 0 ≤ s ∧ s * s * dir.normSq ≤ D * D := by
  unfold Box.firstHit at h
  have := minList_mem _ _ h
  simp only [List.mem_filter, decide_eq_true_eq] at this
  exact ⟨this.1, this.2.1, this.2.2⟩

theorem rayShows_iff (cfg : Cfg) (vw : Viewer) (tgt : Box) (occ : List Box) (r : V3) :
    rayShows cfg vw tgt occ r = true ↔
      InWindows cfg vw r ∧ ∃ s, tgt.firstHit vw.cam (rayDir cfg vw r) vw.D = some s ∧
        ∀ b ∈ occ, b.Kept cfg vw = true →
          b.Blocks cfg vw.cam (rayDir cfg vw r) (s * s * (rayDir cfg vw r).normSq) = false := by
  unfold rayShows
  simp only [Bool.and_eq_true, decide_eq_true_eq]
  cases hf : tgt.firstHit vw.cam (rayDir cfg vw r) vw.D with
  | none => simp
  | some s =>
    simp only [Bool.not_eq_true', List.any_eq_false, List.mem_filter, and_imp, Option.some.injEq,
      exists_eq_left', Bool.not_eq_true]

theorem objectVisible_iff (cfg : Cfg) (vw : Viewer) (rays : List V3) (tgt : Box) (occ : List Box) :
    objectVisible cfg vw rays tgt occ = true ↔
      pointVisible cfg vw tgt.c occ = true ∨
        ((0 ≤ vw.D ∧ tgt.distSq vw.cam ≤ vw.D * vw.D) ∧ ∃ r ∈ rays, rayShows cfg vw tgt occ r = true) := by
  unfold objectVisible
  simp only [Bool.or_eq_true, Bool.and_eq_true, decide_eq_true_eq, List.any_eq_true]

/-! ### T5: more occluders never reveal an object -/

/-- **object_occluders_monotone** (any configuration, any list of candidate rays) -/
theorem object_occluders_monotone (cfg : Cfg) (vw : Viewer) (rays : List V3) (tgt : Box) (occ occ' : List Box)
    (hsub : ∀ b ∈ occ, b ∈ occ') (h : objectVisible cfg vw rays tgt occ' = true) :
    objectVisible cfg vw rays tgt occ = true := by
  rw [objectVisible_iff] at h ⊢
  rcases h with h | ⟨hd, r, hr, hs⟩
  · exact Or.inl (occluders_monotone cfg vw tgt.c occ occ' hsub h)
  · refine Or.inr ⟨hd, r, hr, ?_⟩
    rw [rayShows_iff] at hs ⊢
    obtain ⟨hw, s, hf, hb⟩ := hs
    exact ⟨hw, s, hf, fun b hb' hk => hb b (hsub b hb') hk⟩

/-! ### T6: an object wholly outside the view volume is never reported visible -/

theorem Box.contains_centre (b : Box) (hh : 0 ≤ b.h.x ∧ 0 ≤ b.h.y ∧ 0 ≤ b.h.z) : b.Contains b.c := by
  unfold Box.Contains Box.loc
  rw [inExt_iff]
  simp only [Mat3.applyT_x, Mat3.applyT_y, Mat3.applyT_z, V3.sub_x, V3.sub_y, V3.sub_z, sub_self, mul_zero,
    add_zero]
  obtain ⟨a, b', c⟩ := hh
  exact ⟨⟨by linarith, a⟩, ⟨by linarith, b'⟩, ⟨by linarith, c⟩⟩

/-- **object_outside_never_visible**: if no point of the target box lies in the view volume (and the camera is
    not inside the target), the object model reports not visible — whatever the candidate rays and occluders. -/
theorem object_outside_never_visible (vw : Viewer) (hR : vw.R.IsOrtho) (rays : List V3) (tgt : Box)
    (occ : List Box) (hh : 0 ≤ tgt.h.x ∧ 0 ≤ tgt.h.y ∧ 0 ≤ tgt.h.z) (hcam : ¬ tgt.Contains vw.cam)
    (hout : ∀ p, tgt.Contains p → ¬ InViewVolume vw p) :
    objectVisible Cfg.reference vw rays tgt occ = false := by
  by_contra h
  rw [Bool.not_eq_false, objectVisible_iff] at h
  rcases h with h | ⟨hd, r, _, hs⟩
  · have := outside_never_visible vw hR tgt.c occ (hout _ (tgt.contains_centre hh))
    rw [this] at h; exact Bool.noConfusion h
  · rw [rayShows_iff] at hs
    obtain ⟨hw, s, hf, _⟩ := hs
    obtain ⟨hmem, hs0, hsd⟩ := tgt.firstHit_spec _ _ _ _ hf
    have hx := tgt.hitParams_sound _ _ _ hmem
    have hdir : rayDir Cfg.reference vw r = vw.R.apply r := rfl
    rw [hdir] at hx hsd
    rcases lt_or_eq_of_le hs0 with hpos | hzero
    · exact hout _ hx (ray_point_in_view_volume vw hR r s hpos hw hd.1 hsd)
    · apply hcam
      rw [← hzero] at hx
      have : vw.cam.add ((vw.R.apply r).smul 0) = vw.cam := by
        apply V3.ext' <;> simp
      rw [this] at hx; exact hx

/-! ### T7: an object all of whose lines of sight are blocked is never reported visible -/

/-- **object_hidden_never_visible**: if the line of sight to every point of the target passes through some occluder
    (an orthogonal box not containing the camera), the object model reports not visible. -/
theorem object_hidden_never_visible (vw : Viewer) (hR : vw.R.IsOrtho) (rays : List V3) (tgt : Box)
    (occ : List Box) (hh : 0 ≤ tgt.h.x ∧ 0 ≤ tgt.h.y ∧ 0 ≤ tgt.h.z)
    (hhid : ∀ p, tgt.Contains p → ∃ b ∈ occ, b.M.IsOrtho ∧ ¬ b.Contains vw.cam ∧ SegMeets b vw.cam p) :
    objectVisible Cfg.reference vw rays tgt occ = false := by
  by_contra h
  rw [Bool.not_eq_false, objectVisible_iff] at h
  rcases h with h | ⟨hd, r, _, hs⟩
  · obtain ⟨b, hb, hM, hout, hm⟩ := hhid _ (tgt.contains_centre hh)
    have := blocked_never_visible vw hR tgt.c occ b hb hM hout hm
    rw [this] at h; exact Bool.noConfusion h
  · rw [rayShows_iff] at hs
    obtain ⟨_, s, hf, hocc⟩ := hs
    obtain ⟨hmem, hs0, hsd⟩ := tgt.firstHit_spec _ _ _ _ hf
    have hx := tgt.hitParams_sound _ _ _ hmem
    obtain ⟨b, hb, hM, hout, u, hu0, hu1, hin⟩ := hhid _ hx
    set dir := rayDir Cfg.reference vw r with hdir
    -- the point at fraction u of the segment to the hit point is the point at parameter u*s of the ray
    have e : vw.cam.add (((vw.cam.add (dir.smul s)).sub vw.cam).smul u) = vw.cam.add (dir.smul (u * s)) := by
      apply V3.ext' <;>
        simp only [V3.sub_x, V3.sub_y, V3.sub_z, V3.add_x, V3.add_y, V3.add_z, V3.smul_x, V3.smul_y, V3.smul_z] <;>
        ring
    rw [e] at hin
    have hblk := blocks_of_meets b vw.cam dir s (u * s) (mul_nonneg hu0 hs0) (by nlinarith) hin hout
    by_cases hk : b.Kept Cfg.reference vw = true
    · have := hocc b hb hk
      rw [hblk] at this; exact Bool.noConfusion this
    · have := filter_irrelevant vw b hM dir (s * s * dir.normSq) ⟨hd.1, hsd⟩ (by simpa using hk)
      rw [hblk] at this; exact Bool.noConfusion this

end Scenic.Vis
