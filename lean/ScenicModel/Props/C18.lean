import ScenicModel.Props.C18Int
import ScenicModel.Gen.IntCodec
import ScenicModel.Props.C18Replay
import ScenicModel.Props.C18Sample
import ScenicModel.Props.C18Stream
import ScenicModel.Gen.StreamCfg

/-!
# C18 — property theorems, instantiated on the data regenerated from /repo

`Scenic.Gen.intTable` is rewritten from the ASTs of `writeInt`/`readInt` on every check run; the
side conditions below are re-decided by the kernel on that table.
-/
namespace Scenic.C18
open Scenic.Codec Scenic.Gen

/-- side condition on generated data: the extracted constants make the codec well-formed -/
theorem gen_table_wf : intTable.WF := by decide

/-- side condition on generated data: every read of the decoder is length-checked, so the model's
    `readExact` (error on short read) describes the code -/
theorem gen_reads_checked : readsChecked = true ∧ bytesChecked = true := by decide

theorem int_roundtrip (z : Int) (bs s : Bytes) (hw : writeInt intTable z = some bs) :
    readInt intTable (bs ++ s) = some (z, s) :=
  Codec.int_roundtrip intTable gen_table_wf z bs s hw

theorem int_truncation_refused (z : Int) (bs p q : Bytes)
    (hw : writeInt intTable z = some bs) (hpq : bs = p ++ q) (hq : q ≠ []) :
    readInt intTable p = none :=
  Codec.int_truncation_refused intTable gen_table_wf z bs p q hw hpq hq

theorem bool_roundtrip (b : Bool) (bs s : Bytes) (hw : writeBool intTable b = some bs) :
    readBool intTable (bs ++ s) = some (b, s) :=
  Codec.bool_roundtrip intTable gen_table_wf b bs s hw

theorem bytes_roundtrip (v bs s : Bytes) (hw : writeBytes intTable v = some bs) :
    readBytes intTable (bs ++ s) = some (v, s) :=
  Codec.bytes_roundtrip intTable gen_table_wf v bs s hw

theorem bytes_truncation_refused (v bs p q : Bytes)
    (hw : writeBytes intTable v = some bs) (hpq : bs = p ++ q) (hq : q ≠ []) :
    readBytes intTable p = none :=
  Codec.bytes_truncation_refused intTable gen_table_wf v bs p q hw hpq hq

/-- whole-sample round trip for every scenario graph, with the integer codec of the current source -/
theorem sample_roundtrip (c : Sample.Ctx) (ht : c.t = intTable) (hD : Sample.DAG c.g)
    (vals : Nat → Sample.Val) (hCons : Sample.Consistent c vals) (roots : List Nat)
    (hroots : ∀ r ∈ roots, r < c.g.length) (enc : Bytes)
    (hw : Sample.writeSample c vals roots = some enc) (s : Bytes) :
    ∃ env, Sample.readSample c roots (enc ++ s) = some (env, s) ∧
      (∀ j v, env.lookup j = some v → v = vals j) ∧
      (∀ r ∈ roots, Sample.lookupD c env r = vals r) :=
  Sample.sample_roundtrip c (ht ▸ gen_table_wf) hD vals hCons roots hroots enc hw s

/-- every strict prefix of a sample encoding is refused -/
theorem sample_truncation_refused (c : Sample.Ctx) (ht : c.t = intTable) (hD : Sample.DAG c.g)
    (vals : Nat → Sample.Val) (hCons : Sample.Consistent c vals) (roots : List Nat)
    (hroots : ∀ r ∈ roots, r < c.g.length) (enc : Bytes)
    (hw : Sample.writeSample c vals roots = some enc) (p q : Bytes) (hpq : enc = p ++ q)
    (hq : q ≠ []) : Sample.readSample c roots p = none :=
  Sample.sample_truncation_refused c (ht ▸ gen_table_wf) hD vals hCons roots hroots enc hw p q hpq hq

/-! ### stream / scene layer on the constants regenerated from `serialization.py` / `simulators.py`
(`Gen/StreamCfg.lean`, translator `tools/translate/streamcfg.py`) -/

/-- side condition: the extracted format versions fit their fields, `checkDivergence` is bit 1, and the
    field widths written and read by the source are the ones the model hard-codes (2+4+4 / 2+4) -/
theorem gen_stream_wf : streamFmt.WF ∧ sceneVersion < 256 ^ 2 ∧
    sceneWriteWidths = [2, 4, 4] ∧ sceneReadWidths = [2, 4, 4] ∧
    replayWriteWidths = [2, 4] ∧ replayReadWidths = [2, 4] := by decide

/-- side condition: the statement shapes the model assumes are the ones of the source: header fields are
    length-checked before they are unpacked, another version is refused, both hashes are compared under
    `verify`; the replaying run takes its divergence flag from the replay header, and the recording run
    sets that flag exactly when it writes divergence data -/
theorem gen_stream_checked : sceneHeaderChecked = true ∧ replayHeaderChecked = true ∧
    flagFromHeader = true ∧ flagIffDivergenceData = true := by decide

open Scenic.ReplayStream in
/-- replay header of the current source: every 32-bit flags word round-trips -/
theorem replay_header_roundtrip (f : Nat) (hf : f < 256 ^ 4) (s : Bytes) :
    readHeader streamFmt.replayVersion (writeHeader streamFmt.replayVersion f ++ s) = some (f, s) :=
  ReplayStream.header_roundtrip _ f gen_stream_wf.1.1 hf s

open Scenic.ReplayStream in
/-- a replay written by any other format version is refused by the current source's version -/
theorem replay_header_refuses_other_version (v f : Nat) (hv : v < 256 ^ 2)
    (hne : v ≠ streamFmt.replayVersion) (s : Bytes) :
    readHeader streamFmt.replayVersion (writeHeader v f ++ s) = none :=
  ReplayStream.header_refuses_version v _ f hv hne s

open Scenic.ReplayStream in
/-- `simulate(replay = getReplay() of a recording run)` reproduces the drawn values, with the integer
    codec, replay format version and flag bit of the current source -/
theorem simulate_replay_reproduces (c : Cfg) (ht : c.t = intTable)
    (hrefl : ∀ ty v, c.diverged ty v v = false)
    (fresh fresh' : Nat → Sample.Val) (hT : Typed c fresh) (wd ca : Bool) (n : Nat) (stR : St)
    (hrec : simulate c streamFmt true wd false none fresh n = .ok stR) :
    ∃ st', simulate c streamFmt false false ca (some stR.out) fresh' n = .ok st' ∧
      st'.hist = stR.hist :=
  ReplayStream.simulate_replay_reproduces c (ht ▸ gen_table_wf) hrefl streamFmt gen_stream_wf.1
    fresh fresh' hT wd ca n stR hrec

open Scenic.ReplayStream in
example : simulate ReplayStream.exCfg streamFmt true true false none ReplayStream.exFresh 10
    = simulate ReplayStream.exCfg ReplayStream.exFmt true true false none ReplayStream.exFresh 10 := rfl

/-- scene round trip with the scene format version and integer codec of the current source -/
theorem scene_roundtrip (c : Sample.Ctx) (ht : c.t = intTable) (hD : Sample.DAG c.g)
    (h : Sample.Header) (hver : h.version = sceneVersion) (vals : Nat → Sample.Val)
    (hCons : Sample.Consistent c vals) (roots : List Nat) (hroots : ∀ r ∈ roots, r < c.g.length)
    (enc : Bytes) (hw : Sample.writeScene c h vals roots = some enc)
    (ha : h.astHash.length = 4) (ho : h.optHash.length = 4) (s : Bytes) :
    ∃ env, Sample.readScene c h roots (enc ++ s) = some (env, s) ∧
      (∀ r ∈ roots, Sample.lookupD c env r = vals r) :=
  Sample.scene_roundtrip c (ht ▸ gen_table_wf) hD h vals hCons roots hroots enc hw
    (hver ▸ gen_stream_wf.2.1) ha ho s

/-- **new**: every input shorter than the 10-byte scene header is refused by `readScene(verify=True)`,
    although only the version field is length-checked: a short hash field cannot equal a 4-byte hash.
    (For every scenario, graph and root list.) -/
theorem scene_header_truncation_refused (c : Sample.Ctx) (h : Sample.Header) (roots : List Nat)
    (p : Bytes) (ha : h.astHash.length = 4) (ho : h.optHash.length = 4) (hp : p.length < 10) :
    Sample.readScene c h roots p = none := by
  unfold Sample.readScene
  cases h2 : readExact 2 p with
  | none => rfl
  | some r =>
    obtain ⟨a, s1⟩ := r
    obtain ⟨hs, hal⟩ := readExact_eq_some h2
    have hl : p.length = 2 + s1.length := by rw [hs, List.length_append, hal]
    simp only
    split
    · rfl
    · split
      · rfl
      · rename_i _ hA
        split
        · rfl
        · rename_i hO
          exfalso
          have hA' : (s1.take 4).length = 4 := by
            have : s1.take 4 = h.astHash := Classical.not_not.mp hA
            rw [this, ha]
          have hO' : ((s1.drop 4).take 4).length = 4 := by
            have : (s1.drop 4).take 4 = h.optHash := Classical.not_not.mp hO
            rw [this, ho]
          simp only [List.length_take, List.length_drop] at hA' hO'
          omega

/-- the hypotheses are satisfiable and the statement is not vacuous: a 9-byte prefix of a valid header -/
example : Sample.readScene ⟨intTable, [], fun _ _ => .none, fun _ => .none⟩
    ⟨sceneVersion, [1, 2, 3, 4], [5, 6, 7, 8]⟩ [] [3, 0, 1, 2, 3, 4, 5, 6, 7] = none :=
  scene_header_truncation_refused _ _ _ _ rfl rfl (by decide)

end Scenic.C18
