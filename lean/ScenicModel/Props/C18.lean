import ScenicModel.Props.C18Int
import ScenicModel.Gen.IntCodec
import ScenicModel.Props.C18Replay
import ScenicModel.Props.C18Sample
import ScenicModel.Props.C18Stream

/-!
# C18 — property theorems, instantiated on the data regenerated from /repo

`Scenic.Gen.intTable` is rewritten from the ASTs of `writeInt`/`readInt` on every check run; the
side conditions below are re-decided by the kernel on that table.
-/
namespace Scenic.C18
open Scenic.Codec Scenic.Gen

/-- side condition on generated data: the extracted constants make the codec well-formed -/
theorem gen_table_wf : intTable.WF := by decide

/-- side condition on generated data: every read of the decoder is length-checked, so the model's
    `readExact` (error on short read) describes the code -/
theorem gen_reads_checked : readsChecked = true ∧ bytesChecked = true := by decide

theorem int_roundtrip (z : Int) (bs s : Bytes) (hw : writeInt intTable z = some bs) :
    readInt intTable (bs ++ s) = some (z, s) :=
  Codec.int_roundtrip intTable gen_table_wf z bs s hw

theorem int_truncation_refused (z : Int) (bs p q : Bytes)
    (hw : writeInt intTable z = some bs) (hpq : bs = p ++ q) (hq : q ≠ []) :
    readInt intTable p = none :=
  Codec.int_truncation_refused intTable gen_table_wf z bs p q hw hpq hq

theorem bool_roundtrip (b : Bool) (bs s : Bytes) (hw : writeBool intTable b = some bs) :
    readBool intTable (bs ++ s) = some (b, s) :=
  Codec.bool_roundtrip intTable gen_table_wf b bs s hw

theorem bytes_roundtrip (v bs s : Bytes) (hw : writeBytes intTable v = some bs) :
    readBytes intTable (bs ++ s) = some (v, s) :=
  Codec.bytes_roundtrip intTable gen_table_wf v bs s hw

theorem bytes_truncation_refused (v bs p q : Bytes)
    (hw : writeBytes intTable v = some bs) (hpq : bs = p ++ q) (hq : q ≠ []) :
    readBytes intTable p = none :=
  Codec.bytes_truncation_refused intTable gen_table_wf v bs p q hw hpq hq

/-- whole-sample round trip for every scenario graph, with the integer codec of the current source -/
theorem sample_roundtrip (c : Sample.Ctx) (ht : c.t = intTable) (hD : Sample.DAG c.g)
    (vals : Nat → Sample.Val) (hCons : Sample.Consistent c vals) (roots : List Nat)
    (hroots : ∀ r ∈ roots, r < c.g.length) (enc : Bytes)
    (hw : Sample.writeSample c vals roots = some enc) (s : Bytes) :
    ∃ env, Sample.readSample c roots (enc ++ s) = some (env, s) ∧
      (∀ j v, env.lookup j = some v → v = vals j) ∧
      (∀ r ∈ roots, Sample.lookupD c env r = vals r) :=
  Sample.sample_roundtrip c (ht ▸ gen_table_wf) hD vals hCons roots hroots enc hw s

/-- every strict prefix of a sample encoding is refused -/
theorem sample_truncation_refused (c : Sample.Ctx) (ht : c.t = intTable) (hD : Sample.DAG c.g)
    (vals : Nat → Sample.Val) (hCons : Sample.Consistent c vals) (roots : List Nat)
    (hroots : ∀ r ∈ roots, r < c.g.length) (enc : Bytes)
    (hw : Sample.writeSample c vals roots = some enc) (p q : Bytes) (hpq : enc = p ++ q)
    (hq : q ≠ []) : Sample.readSample c roots p = none :=
  Sample.sample_truncation_refused c (ht ▸ gen_table_wf) hD vals hCons roots hroots enc hw p q hpq hq

end Scenic.C18
