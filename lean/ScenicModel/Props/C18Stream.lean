import ScenicModel.Model.ReplayStream
import ScenicModel.Lemmas.Sample

/-!
C18 (part 4): the replay stream of a simulation.

* `header_roundtrip`, `header_refuses_version`, `header_truncation_refused`
* `checkProps_spec`: the divergence loop of `updateObjects` reports a divergence exactly when some
  dynamic property of the object has diverged (in `dynTypes` order), otherwise consumes exactly the
  recorded values.
* `replay_reproduces`: for every deterministic program + simulator (`next`), every source of fresh
  random values and every number of events, replaying what a run recorded draws exactly the same
  values in the same order — whatever the replaying run would have sampled itself — raises no
  error and reports no divergence, and consumes the replay completely.
* `simulate_replay_reproduces`: the same through `initializeReplay` (header written and parsed,
  divergence flag carried by the header).
-/
namespace Scenic.Codec

theorem writeInt_ne_nil (t : IntTable) (z : Int) {b : Bytes} (hw : writeInt t z = some b) :
    b ≠ [] := by
  unfold writeInt at hw
  split at hw
  · simp only [Option.some.injEq] at hw; subst hw; simp
  · split at hw
    · simp only [Option.some.injEq] at hw; subst hw; simp
    · split at hw
      · simp only [Option.some.injEq] at hw; subst hw; simp
      · dsimp only at hw
        split at hw
        · simp at hw
        · simp only [Option.some.injEq] at hw; subst hw; simp

end Scenic.Codec

namespace Scenic.ReplayStream
open Scenic.Codec Scenic.Sample

/-! ### header -/

theorem header_roundtrip (v f : Nat) (hv : v < 256 ^ 2) (hf : f < 256 ^ 4) (s : Bytes) :
    readHeader v (writeHeader v f ++ s) = some (f, s) := by
  unfold readHeader writeHeader
  have h2 : readExact 2 (toLE v 2 ++ toLE f 4 ++ s) = some (toLE v 2, toLE f 4 ++ s) := by
    have := readExact_append (toLE v 2) (toLE f 4 ++ s)
    rw [length_toLE] at this
    simpa [List.append_assoc] using this
  have h4 : readExact 4 (toLE f 4 ++ s) = some (toLE f 4, s) := by
    have := readExact_append (toLE f 4) s
    rw [length_toLE] at this
    exact this
  rw [h2]
  simp only [fromLE_toLE _ _ hv, ne_eq, not_true_eq_false, if_false, h4, fromLE_toLE _ _ hf]

/-- a replay written by another format version is refused -/
theorem header_refuses_version (v v' f : Nat) (hv : v < 256 ^ 2) (hne : v ≠ v') (s : Bytes) :
    readHeader v' (writeHeader v f ++ s) = none := by
  unfold readHeader writeHeader
  have h2 : readExact 2 (toLE v 2 ++ toLE f 4 ++ s) = some (toLE v 2, toLE f 4 ++ s) := by
    have := readExact_append (toLE v 2) (toLE f 4 ++ s)
    rw [length_toLE] at this
    simpa [List.append_assoc] using this
  rw [h2]
  simp only [fromLE_toLE _ _ hv, ne_eq, hne, not_false_eq_true, if_true]

/-- every strict prefix of a replay header is refused -/
theorem header_truncation_refused (v : Nat) (p : Bytes) (hp : p.length < 6) :
    readHeader v p = none := by
  unfold readHeader
  cases h2 : readExact 2 p with
  | none => rfl
  | some r =>
    obtain ⟨a, s1⟩ := r
    obtain ⟨hs, ha⟩ := readExact_eq_some h2
    simp only
    split
    · rfl
    · have : readExact 4 s1 = none := by
        unfold readExact
        have hl : p.length = a.length + s1.length := by rw [hs, List.length_append]
        have : ¬ 4 ≤ s1.length := by omega
        simp [this]
      simp [this]

/-! ### the divergence loop -/

/-- `(type, recorded value, value now)` for each dynamic property of an object -/
abbrev Prop3 := Ty × Val × Val

def recorded (ps : List Prop3) : List (Ty × Val) := ps.map fun p => (p.1, p.2.1)
def actual (ps : List Prop3) : List (Ty × Val) := ps.map fun p => (p.1, p.2.2)

/-- **Divergence is reported exactly when a property diverged.** If the replay holds the recorded
    values of the object's dynamic properties, the loop raises `DivergenceError` (or, with
    `continueAfterDivergence`, stops replaying) iff `valuesHaveDiverged` holds for at least one of
    them; otherwise it consumes exactly those values and keeps replaying. -/
theorem checkProps_spec (c : Cfg) (hWF : c.t.WF) (m : Mode) (ps : List Prop3)
    (hty : ∀ p ∈ ps, p.2.1.hasTy p.1) (enc s : Bytes)
    (hw : writeProps c.t (recorded ps) = some enc) :
    checkProps c m (actual ps) (enc ++ s) =
      if ps.any (fun p => c.diverged p.1 p.2.1 p.2.2) then
        (if m.continueAfter then .ok none else .error .diverged)
      else .ok (some s) := by
  induction ps generalizing enc with
  | nil =>
    simp only [recorded, List.map_nil, writeProps, Option.some.injEq] at hw
    subst hw
    simp [actual, checkProps]
  | cons p ps ih =>
    obtain ⟨ty, e, a⟩ := p
    simp only [recorded, List.map_cons, writeProps] at hw
    cases hv : writeValue c.t e with
    | none => simp [hv] at hw
    | some b =>
      simp only [hv] at hw
      cases hr : writeProps c.t (List.map (fun p : Prop3 => (p.1, p.2.1)) ps) with
      | none => simp [hr] at hw
      | some rest =>
        simp only [hr, Option.map_some, Option.some.injEq] at hw
        subst hw
        have hte : e.hasTy ty := hty (ty, e, a) (by simp)
        have hrd := value_roundtrip c.t hWF e ty hte b (rest ++ s) hv
        simp only [actual, List.map_cons, checkProps, List.append_assoc, hrd, List.any_cons]
        by_cases hd : c.diverged ty e a = true
        · simp [hd]
        · have hd' : c.diverged ty e a = false := by simpa using hd
          simp only [hd', Bool.false_eq_true, if_false, Bool.false_or]
          exact ih (fun p hp => hty p (by simp [hp])) rest hr

/-- a property whose value is the recorded one never diverges ⇒ replaying the recorded values of an
    object consumes exactly what was written -/
theorem checkProps_self (c : Cfg) (hWF : c.t.WF) (hrefl : ∀ ty v, c.diverged ty v v = false)
    (m : Mode) (ps : List (Ty × Val)) (hty : ∀ p ∈ ps, p.2.hasTy p.1) (enc s : Bytes)
    (hw : writeProps c.t ps = some enc) : checkProps c m ps (enc ++ s) = .ok (some s) := by
  induction ps generalizing enc with
  | nil =>
    simp only [writeProps, Option.some.injEq] at hw
    subst hw
    simp [checkProps]
  | cons p ps ih =>
    obtain ⟨ty, a⟩ := p
    simp only [writeProps] at hw
    cases hv : writeValue c.t a with
    | none => simp [hv] at hw
    | some b =>
      simp only [hv] at hw
      cases hr : writeProps c.t ps with
      | none => simp [hr] at hw
      | some rest =>
        simp only [hr, Option.map_some, Option.some.injEq] at hw
        subst hw
        have hta : a.hasTy ty := hty (ty, a) (by simp)
        have hrd := value_roundtrip c.t hWF a ty hta b (rest ++ s) hv
        simp only [checkProps, List.append_assoc, hrd, hrefl, Bool.false_eq_true, if_false]
        exact ih (fun p hp => hty p (by simp [hp])) rest hr

/-! ### replaying what was recorded -/

/-- the encoding of a value of a type other than `None` is not empty -/
theorem writeValue_ne_nil (t : IntTable) (v : Val) (ty : Ty) (hty : v.hasTy ty) (hne : ty ≠ .none)
    (b : Bytes) (hw : writeValue t v = some b) : b ≠ [] := by
  intro hb
  subst hb
  cases v with
  | none => cases ty <;> simp_all [Val.hasTy]
  | float r =>
    cases ty <;> simp only [Val.hasTy] at hty
    simp only [writeValue, Option.some.injEq] at hw; subst hw; simp at hty
  | vector r =>
    cases ty <;> simp only [Val.hasTy] at hty
    simp only [writeValue, Option.some.injEq] at hw; subst hw; simp at hty
  | orientation r =>
    cases ty <;> simp only [Val.hasTy] at hty
    simp only [writeValue, Option.some.injEq] at hw; subst hw; simp at hty
  | int z =>
    simp only [writeValue] at hw
    exact writeInt_ne_nil t z hw rfl
  | bool b =>
    simp only [writeValue, writeBool] at hw
    exact writeInt_ne_nil t _ hw rfl
  | bytes w =>
    simp only [writeValue, writeBytes] at hw
    cases hi : writeInt t (w.length : Int) with
    | none => simp [hi] at hw
    | some ib =>
      simp only [hi, Option.map_some, Option.some.injEq] at hw
      have : ib = [] := (List.append_eq_nil_iff.mp hw).1
      subst this
      exact writeInt_ne_nil t _ hi rfl

/-- the replaying state `I` stands for the not yet consumed recording `bs`
    (`some []` and `none` both mean "not replaying any more": `detectReplayEnd`) -/
def Stands (I : Option Bytes) (bs : Bytes) : Prop := I = some bs ∨ (bs = [] ∧ I = none)

/-- hypotheses on the program/simulator: values have the declared types, and no distribution has
    value type `None` -/
structure Typed (c : Cfg) (fresh : Nat → Val) : Prop where
  draw_ty : ∀ k h ty, c.next k h = .draw ty → (fresh h.length).hasTy ty ∧ ty ≠ .none
  props_ty : ∀ k h ps, c.next k h = .update ps → ∀ p ∈ ps, p.2.hasTy p.1

/-- a recording run never starts replaying -/
theorem step_inp_none (c : Cfg) (m : Mode) (fresh : Nat → Val) (k : Nat) (h : List Val) (o : Bytes) (st' : St)
    (hs : step c m fresh ⟨k, h, none, o⟩ = .ok (some st')) : st'.inp = none := by
  unfold step at hs
  split at hs
  · simp at hs
  · simp only at hs
    split at hs
    · split at hs
      · simp at hs
      · simp only [Except.ok.injEq, Option.some.injEq] at hs; subst hs; rfl
    · simp only [Except.ok.injEq, Option.some.injEq] at hs; subst hs; rfl
  · simp only at hs
    split at hs
    · simp at hs
    · simp only [Except.ok.injEq, Option.some.injEq] at hs; subst hs; rfl

/-- the output of a step only appends to what was written before -/
theorem step_out_shift (c : Cfg) (m : Mode) (fresh : Nat → Val) (k : Nat) (h : List Val) (I : Option Bytes)
    (o : Bytes) :
    step c m fresh ⟨k, h, I, o⟩ =
      match step c m fresh ⟨k, h, I, []⟩ with
      | .error e => .error e
      | .ok none => .ok none
      | .ok (some st) => .ok (some ⟨st.k, st.hist, st.inp, o ++ st.out⟩) := by
  unfold step
  simp only
  cases c.next k h with
  | stop => rfl
  | draw ty =>
    simp only
    cases I with
    | none =>
      simp only
      cases m.record <;> simp only [Bool.false_eq_true, if_false, if_true]
      · simp
      · cases writeValue c.t (fresh h.length) <;> simp
    | some bs =>
      cases bs with
      | nil =>
        simp only
        cases m.record <;> simp only [Bool.false_eq_true, if_false, if_true]
        · simp
        · cases writeValue c.t (fresh h.length) <;> simp
      | cons b bs =>
        simp only
        cases readValue c.t ty (b :: bs) with
        | none => rfl
        | some p =>
          simp only
          cases m.record <;> simp only [Bool.false_eq_true, if_false, if_true]
          · simp
          · cases writeValue c.t p.1 <;> simp
  | update ps =>
    simp only
    cases (if (m.record && m.writeDiv) = true then writeProps c.t ps else some []) with
    | none => rfl
    | some enc =>
      simp only
      cases I with
      | none => simp
      | some bs =>
        cases bs with
        | nil => simp
        | cons b bs =>
          simp only
          cases m.checkDiv <;> simp only [Bool.false_eq_true, if_false, if_true]
          · simp
          · cases checkProps c m ps (b :: bs) <;> simp

theorem run_out_shift (c : Cfg) (m : Mode) (fresh : Nat → Val) (n : Nat) (k : Nat) (h : List Val)
    (I : Option Bytes) (o : Bytes) :
    run c m fresh n ⟨k, h, I, o⟩ =
      match run c m fresh n ⟨k, h, I, []⟩ with
      | .error e => .error e
      | .ok st => .ok ⟨st.k, st.hist, st.inp, o ++ st.out⟩ := by
  induction n generalizing k h I o with
  | zero => simp [run]
  | succ n ih =>
    simp only [run]
    rw [step_out_shift c m fresh k h I o]
    cases hs : step c m fresh ⟨k, h, I, []⟩ with
    | error e => rfl
    | ok r =>
      cases r with
      | none => simp
      | some st =>
        simp only
        rw [ih st.k st.hist st.inp (o ++ st.out), ih st.k st.hist st.inp st.out]
        cases run c m fresh n ⟨st.k, st.hist, st.inp, []⟩ with
        | error e => rfl
        | ok st2 => simp [List.append_assoc]

/-- one event of the recording run is followed by the replaying run: same history, and the
    replaying state stands for the rest of the recording -/
theorem step_sim (c : Cfg) (hWF : c.t.WF) (hrefl : ∀ ty v, c.diverged ty v v = false)
    (fresh fresh' : Nat → Val) (hT : Typed c fresh) (wd : Bool) (m : Mode) (hm : m.checkDiv = wd)
    (hmw : m.record = true → m.writeDiv = true → wd = true)
    (k : Nat) (h : List Val) (st1 : St)
    (hs : step c ⟨true, wd, false, false⟩ fresh ⟨k, h, none, []⟩ = .ok (some st1))
    (I : Option Bytes) (e2 o2 : Bytes) (hI : Stands I (st1.out ++ e2)) :
    ∃ I1 o3, step c m fresh' ⟨k, h, I, o2⟩ = .ok (some ⟨st1.k, st1.hist, I1, o3⟩) ∧ Stands I1 e2 := by
  unfold step at hs ⊢
  simp only at hs ⊢
  cases hn : c.next k h with
  | stop => simp [hn] at hs
  | draw ty =>
    simp only [hn, if_true] at hs ⊢
    obtain ⟨hty, hne⟩ := hT.draw_ty k h ty hn
    cases hv : writeValue c.t (fresh h.length) with
    | none => simp [hv] at hs
    | some enc =>
      simp only [hv, Except.ok.injEq, Option.some.injEq] at hs
      subst hs
      simp only [List.nil_append] at hI ⊢
      have hnn := writeValue_ne_nil c.t _ ty hty hne enc hv
      have hrd := value_roundtrip c.t hWF _ ty hty enc e2 hv
      rcases hI with hI | ⟨hnil, _⟩
      · subst hI
        cases henc : enc ++ e2 with
        | nil => exact absurd (List.append_eq_nil_iff.mp henc).1 hnn
        | cons b bs =>
          simp only
          rw [← henc, hrd]
          simp only
          cases m.record with
          | false => exact ⟨some e2, o2, by simp, Or.inl rfl⟩
          | true => exact ⟨some e2, o2 ++ enc, by simp [hv], Or.inl rfl⟩
      · exact absurd (List.append_eq_nil_iff.mp hnil).1 hnn
  | update ps =>
    simp only [hn] at hs ⊢
    have hpt := hT.props_ty k h ps hn
    cases wd with
    | false =>
      simp only [Bool.and_false, Bool.false_eq_true, if_false, Except.ok.injEq,
        Option.some.injEq] at hs
      subst hs
      simp only [List.append_nil, List.nil_append] at hI ⊢
      have hnw : (m.record && m.writeDiv) = false := by
        cases hr : m.record <;> cases hw : m.writeDiv <;> simp
        exact absurd (hmw hr hw) (by simp)
      simp only [hnw, Bool.false_eq_true, if_false, hm]
      rcases hI with hI | ⟨hnil, hI⟩
      · subst hI
        cases e2 with
        | nil => exact ⟨none, o2 ++ [], by simp, Or.inr ⟨rfl, rfl⟩⟩
        | cons b bs => exact ⟨some (b :: bs), o2 ++ [], by simp, Or.inl rfl⟩
      · subst hI; subst hnil
        exact ⟨none, o2 ++ [], by simp, Or.inr ⟨rfl, rfl⟩⟩
    | true =>
      simp only [Bool.and_self, if_true] at hs
      cases hw : writeProps c.t ps with
      | none => simp [hw] at hs
      | some enc =>
        simp only [hw, Except.ok.injEq, Option.some.injEq] at hs
        subst hs
        simp only [List.nil_append] at hI ⊢
        simp only [hm, if_true]
        rcases hI with hI | ⟨hnil, hI⟩
        · subst hI
          cases hcat : enc ++ e2 with
          | nil =>
            have := (List.append_eq_nil_iff.mp hcat).2
            refine ⟨none, o2 ++ (if (m.record && m.writeDiv) = true then enc else []), ?_,
              Or.inr ⟨this, rfl⟩⟩
            cases m.record <;> cases m.writeDiv <;> simp
          | cons b bs =>
            simp only
            rw [← hcat, checkProps_self c hWF hrefl m ps hpt enc e2 hw]
            refine ⟨some e2, o2 ++ (if (m.record && m.writeDiv) = true then enc else []), ?_,
              Or.inl rfl⟩
            cases m.record <;> cases m.writeDiv <;> simp
        · subst hI
          have := (List.append_eq_nil_iff.mp hnil).2
          refine ⟨none, o2 ++ (if (m.record && m.writeDiv) = true then enc else []), ?_,
            Or.inr ⟨this, rfl⟩⟩
          cases m.record <;> cases m.writeDiv <;> simp

/-- when the recording run stops, so does the replaying run -/
theorem step_sim_stop (c : Cfg) (m m' : Mode) (fresh fresh' : Nat → Val) (k : Nat) (h : List Val)
    (I I' : Option Bytes) (o o' : Bytes)
    (hs : step c m fresh ⟨k, h, I, o⟩ = .ok none) : step c m' fresh' ⟨k, h, I', o'⟩ = .ok none := by
  unfold step at hs ⊢
  simp only at hs ⊢
  cases hn : c.next k h with
  | stop => rfl
  | draw ty =>
    simp only [hn] at hs
    split at hs
    · simp at hs
    · split at hs
      · split at hs <;> simp at hs
      · simp at hs
  | update ps =>
    simp only [hn] at hs
    split at hs
    · simp at hs
    · split at hs
      · split at hs
        · split at hs <;> simp at hs
        · simp at hs
      · simp at hs

theorem run_sim (c : Cfg) (hWF : c.t.WF) (hrefl : ∀ ty v, c.diverged ty v v = false)
    (fresh fresh' : Nat → Val) (hT : Typed c fresh) (wd : Bool) (m : Mode) (hm : m.checkDiv = wd)
    (hmw : m.record = true → m.writeDiv = true → wd = true) (n : Nat) :
    ∀ (k : Nat) (h : List Val) (stR : St),
      run c ⟨true, wd, false, false⟩ fresh n ⟨k, h, none, []⟩ = .ok stR →
      ∀ (I : Option Bytes) (o2 : Bytes), Stands I stR.out →
        ∃ st', run c m fresh' n ⟨k, h, I, o2⟩ = .ok st' ∧ st'.hist = stR.hist ∧ st'.k = stR.k ∧
          Stands st'.inp [] := by
  induction n with
  | zero =>
    intro k h stR hr I o2 hI
    simp only [run, Except.ok.injEq] at hr
    subst hr
    exact ⟨⟨k, h, I, o2⟩, rfl, rfl, rfl, hI⟩
  | succ n ih =>
    intro k h stR hr I o2 hI
    simp only [run] at hr ⊢
    cases hs : step c ⟨true, wd, false, false⟩ fresh ⟨k, h, none, []⟩ with
    | error e => simp [hs] at hr
    | ok r =>
      cases r with
      | none =>
        simp only [hs, Except.ok.injEq] at hr
        subst hr
        rw [step_sim_stop c _ m fresh fresh' k h none I [] o2 hs]
        exact ⟨⟨k, h, I, o2⟩, rfl, rfl, rfl, hI⟩
      | some st1 =>
        simp only [hs] at hr
        have hnone := step_inp_none c _ fresh k h [] st1 hs
        obtain ⟨k1, h1, i1, e1⟩ := st1
        simp only at hnone
        subst hnone
        rw [run_out_shift] at hr
        cases hr2 : run c ⟨true, wd, false, false⟩ fresh n ⟨k1, h1, none, []⟩ with
        | error e => simp [hr2] at hr
        | ok st2 =>
          simp only [hr2, Except.ok.injEq] at hr
          subst hr
          simp only at hI
          obtain ⟨I1, o3, hstep, hI1⟩ :=
            step_sim c hWF hrefl fresh fresh' hT wd m hm hmw k h ⟨k1, h1, none, e1⟩ hs I st2.out o2 hI
          simp only at hstep
          rw [hstep]
          simp only
          exact ih k1 h1 st2 hr2 I1 o3 hI1

/-- **Replaying a recording reproduces the run.** -/
theorem replay_reproduces (c : Cfg) (hWF : c.t.WF) (hrefl : ∀ ty v, c.diverged ty v v = false)
    (fresh fresh' : Nat → Val) (hT : Typed c fresh) (wd : Bool) (m : Mode) (hm : m.checkDiv = wd)
    (hmw : m.record = true → m.writeDiv = true → wd = true) (n : Nat) (stR : St) (o2 : Bytes)
    (hrec : run c ⟨true, wd, false, false⟩ fresh n ⟨0, [], none, []⟩ = .ok stR) :
    ∃ st', run c m fresh' n ⟨0, [], some stR.out, o2⟩ = .ok st' ∧ st'.hist = stR.hist ∧
      (st'.inp = some [] ∨ st'.inp = none) := by
  obtain ⟨st', hr, hh, _, hs⟩ :=
    run_sim c hWF hrefl fresh fresh' hT wd m hm hmw n 0 [] stR hrec (some stR.out) o2 (Or.inl rfl)
  refine ⟨st', hr, hh, ?_⟩
  rcases hs with h | ⟨_, h⟩
  · exact Or.inl h
  · exact Or.inr h

theorem flagSet_one_one : flagSet 1 1 = true := by decide
theorem flagSet_one_zero : flagSet 1 0 = false := by decide

/-- **The same through `Simulator.simulate`**: what `getReplay()` returns after a recording run
    (header included), given as `replay=` to a second run of the same deterministic program and
    simulator, makes that run draw the same values — with any divergence-check setting of the
    recording, any `continueAfterDivergence`, and whatever the second run would sample itself. -/
theorem simulate_replay_reproduces (c : Cfg) (hWF : c.t.WF)
    (hrefl : ∀ ty v, c.diverged ty v v = false) (f : Fmt) (hf : f.WF)
    (fresh fresh' : Nat → Val) (hT : Typed c fresh) (wd ca : Bool) (n : Nat) (stR : St)
    (hrec : simulate c f true wd false none fresh n = .ok stR) :
    ∃ st', simulate c f false false ca (some stR.out) fresh' n = .ok st' ∧ st'.hist = stR.hist := by
  obtain ⟨hv, hbit⟩ := hf
  unfold simulate at hrec
  simp only [if_true] at hrec
  rw [run_out_shift] at hrec
  cases hr : run c ⟨true, wd, false, false⟩ fresh n ⟨0, [], none, []⟩ with
  | error e => simp [hr] at hrec
  | ok st0 =>
    simp only [hr, Except.ok.injEq] at hrec
    subst hrec
    simp only
    have hfl : (if wd = true then f.checkBit else 0) < 256 ^ 4 := by
      cases wd <;> simp [hbit]
    have hh := header_roundtrip f.replayVersion (if wd = true then f.checkBit else 0) hv hfl st0.out
    have hne : writeHeader f.replayVersion (if wd = true then f.checkBit else 0) ++ st0.out ≠ [] := by
      unfold writeHeader; simp [toLE]
    unfold simulate
    cases hcat : writeHeader f.replayVersion (if wd = true then f.checkBit else 0) ++ st0.out with
    | nil => exact absurd hcat hne
    | cons b bs =>
      simp only
      rw [← hcat, hh]
      simp only [Bool.false_eq_true, if_false]
      have hflag : flagSet f.checkBit (if wd = true then f.checkBit else 0) = wd := by
        cases wd <;> simp [hbit, flagSet_one_one, flagSet_one_zero]
      obtain ⟨st', hrun, hhist, _⟩ :=
        replay_reproduces c hWF hrefl fresh fresh' hT wd ⟨false, false, wd, ca⟩ rfl (by simp) n st0 []
          hr
      rw [hflag]
      exact ⟨st', hrun, hhist⟩


/-! ### truncated replays: a cut inside a recorded value is refused -/

theorem value_truncation_refused (t : IntTable) (h : t.WF) (v : Val) (ty : Ty) (hty : v.hasTy ty)
    (p q : Bytes) (hw : writeValue t v = some (p ++ q)) (hq : q ≠ []) : readValue t ty p = none :=
  strict_prefix_refused (readValue t ty) (fun _ _ _ x hh => readValue_mono t ty hh x) (p ++ q) v
    (by simpa using value_roundtrip t h v ty hty (p ++ q) [] hw) p q rfl hq

/-- a replay that ends inside the recorded values of an object's dynamic properties makes the
    divergence loop raise `SerializationError` -/
theorem checkProps_truncation_refused (c : Cfg) (hWF : c.t.WF)
    (hrefl : ∀ ty v, c.diverged ty v v = false) (m : Mode) (ps : List (Ty × Val))
    (hty : ∀ p ∈ ps, p.2.hasTy p.1) (enc p q : Bytes) (hw : writeProps c.t ps = some enc)
    (hpq : enc = p ++ q) (hq : q ≠ []) : checkProps c m ps p = .error .serr := by
  induction ps generalizing enc p with
  | nil =>
    simp only [writeProps, Option.some.injEq] at hw
    subst hw
    exact absurd (List.append_eq_nil_iff.mp hpq.symm).2 hq
  | cons pr ps ih =>
    obtain ⟨ty, a⟩ := pr
    simp only [writeProps] at hw
    have hta : a.hasTy ty := hty (ty, a) (by simp)
    cases hv : writeValue c.t a with
    | none => simp [hv] at hw
    | some b =>
      simp only [hv] at hw
      cases hr : writeProps c.t ps with
      | none => simp [hr] at hw
      | some rest =>
        simp only [hr, Option.map_some, Option.some.injEq] at hw
        subst hw
        have hps : ∀ p ∈ ps, p.2.hasTy p.1 := fun p hp => hty p (by simp [hp])
        rcases List.append_eq_append_iff.mp hpq with ⟨a', hp, hrest⟩ | ⟨c', hb, hq'⟩
        · subst hp
          have hrd := value_roundtrip c.t hWF a ty hta b a' hv
          simp only [checkProps, hrd, hrefl, Bool.false_eq_true, if_false]
          exact ih hps rest a' hr hrest
        · by_cases hc : c' = []
          · subst hc
            simp only [List.append_nil] at hb
            simp only [List.nil_append] at hq'
            subst hb
            have hrd := value_roundtrip c.t hWF a ty hta b [] hv
            simp only [List.append_nil] at hrd
            simp only [checkProps, hrd, hrefl, Bool.false_eq_true, if_false]
            exact ih hps rest [] hr (by simp [hq'])
          · subst hb
            have := value_truncation_refused c.t hWF a ty hta p c' hv hc
            simp [checkProps, this]

/-- a replay that ends inside the recorded value of a run-time random choice is refused -/
theorem draw_truncation_refused (c : Cfg) (hWF : c.t.WF) (m : Mode) (fresh : Nat → Val) (k : Nat)
    (h : List Val) (o : Bytes) (ty : Ty) (hn : c.next k h = .draw ty) (v : Val) (hty : v.hasTy ty)
    (p q : Bytes) (hp : p ≠ []) (hw : writeValue c.t v = some (p ++ q)) (hq : q ≠ []) :
    step c m fresh ⟨k, h, some p, o⟩ = .error .serr := by
  have hr := value_truncation_refused c.t hWF v ty hty p q hw hq
  unfold step
  simp only [hn]
  cases p with
  | nil => exact absurd rfl hp
  | cons b bs => simp [hr]

/-- … and so is one that ends inside the divergence data of an object (divergence check on) -/
theorem update_truncation_refused (c : Cfg) (hWF : c.t.WF)
    (hrefl : ∀ ty v, c.diverged ty v v = false) (m : Mode) (hm : m.checkDiv = true)
    (hrec : m.record = false) (fresh : Nat → Val) (k : Nat) (h : List Val) (o : Bytes)
    (ps : List (Ty × Val)) (hn : c.next k h = .update ps) (hty : ∀ p ∈ ps, p.2.hasTy p.1)
    (enc p q : Bytes) (hp : p ≠ []) (hw : writeProps c.t ps = some enc) (hpq : enc = p ++ q)
    (hq : q ≠ []) : step c m fresh ⟨k, h, some p, o⟩ = .error .serr := by
  have hr := checkProps_truncation_refused c hWF hrefl m ps hty enc p q hw hpq hq
  unfold step
  simp only [hn, hrec, Bool.false_and, Bool.false_eq_true, if_false, hm, if_true]
  cases p with
  | nil => exact absurd rfl hp
  | cons b bs => simp [hr]

/-! ### non-vacuity: a behavior drawing an int and a float per step, one object with a float and a
vector property, divergence data on -/

def exNext : Nat → List Val → Ev
  | 0, h => if h = [] then .draw .int else .stop
  | 1, _ => .update [(.float, .float [1, 2, 3, 4, 5, 6, 7, 8]), (.int, .int 300)]
  | 2, h => if h = [.int 7] then .draw .float else .stop
  | 3, _ => .update [(.float, .float [8, 7, 6, 5, 4, 3, 2, 1]), (.int, .int (-1))]
  | _, _ => .stop

def exCfg : Cfg := { t := refTable, next := exNext, diverged := fun _ e a => e != a }

def exFresh : Nat → Val
  | 0 => .int 7
  | _ => .float [9, 9, 9, 9, 9, 9, 9, 9]

/-- a second run would draw other values -/
def exFresh' : Nat → Val
  | 0 => .int 5
  | _ => .float [0, 0, 0, 0, 0, 0, 0, 0]

def exFmt : Fmt := ⟨2, 1⟩

def summary : Except Err St → Option (Nat × List Val × Bytes)
  | .ok st => some (st.k, st.hist, st.out)
  | .error _ => none

def errOf : Except Err St → Option Err
  | .ok _ => none
  | .error e => some e

example : exFmt.WF := by decide

example : Typed exCfg exFresh := by
  constructor
  · intro k h ty hn
    simp only [exCfg] at hn
    unfold exNext at hn
    split at hn
    · split at hn
      · rename_i hh; subst hh
        simp only [Ev.draw.injEq] at hn; subst hn; simp [exFresh, Val.hasTy]
      · simp at hn
    · simp at hn
    · split at hn
      · rename_i hh; subst hh
        simp only [Ev.draw.injEq] at hn; subst hn; simp [exFresh, Val.hasTy]
      · simp at hn
    · simp at hn
    · simp at hn
  · intro k h ps hn p hp
    simp only [exCfg] at hn
    unfold exNext at hn
    split at hn
    · split at hn <;> simp at hn
    · simp only [Ev.update.injEq] at hn; subst hn
      simp only [List.mem_cons, List.not_mem_nil, or_false] at hp
      rcases hp with rfl | rfl <;> simp [Val.hasTy]
    · split at hn <;> simp at hn
    · simp only [Ev.update.injEq] at hn; subst hn
      simp only [List.mem_cons, List.not_mem_nil, or_false] at hp
      rcases hp with rfl | rfl <;> simp [Val.hasTy]
    · simp at hn

/-- the recording: header (version 2, flags 1), 7, the two properties, the float, the two properties -/
example : summary (simulate exCfg exFmt true true false none exFresh 10) =
    some (4, [.float [9, 9, 9, 9, 9, 9, 9, 9], .int 7],
      [2, 0, 1, 0, 0, 0, 7, 1, 2, 3, 4, 5, 6, 7, 8, 253, 44, 1, 9, 9, 9, 9, 9, 9, 9, 9,
       8, 7, 6, 5, 4, 3, 2, 1, 253, 255, 255]) := by decide

/-- replayed, a run that would have drawn 5 (and stopped at once) draws 7 and the float again -/
example : summary (simulate exCfg exFmt false false false
    (some [2, 0, 1, 0, 0, 0, 7, 1, 2, 3, 4, 5, 6, 7, 8, 253, 44, 1, 9, 9, 9, 9, 9, 9, 9, 9,
       8, 7, 6, 5, 4, 3, 2, 1, 253, 255, 255]) exFresh' 10) =
    some (4, [.float [9, 9, 9, 9, 9, 9, 9, 9], .int 7], []) := by decide

/-- a recorded property that differs (300 recorded as 299) is reported as a divergence … -/
example : errOf (simulate exCfg exFmt false false false
    (some [2, 0, 1, 0, 0, 0, 7, 1, 2, 3, 4, 5, 6, 7, 8, 253, 43, 1, 9, 9, 9, 9, 9, 9, 9, 9,
       8, 7, 6, 5, 4, 3, 2, 1, 253, 255, 255]) exFresh' 10) = some .diverged := by decide

/-- … a replay cut inside a value is a serialization error, and so is one of another version -/
example : errOf (simulate exCfg exFmt false false false
    (some [2, 0, 1, 0, 0, 0, 7, 1, 2, 3, 4, 5, 6, 7, 8, 253, 44]) exFresh' 10) = some .serr := by
  decide
example : errOf (simulate exCfg exFmt false false false
    (some [3, 0, 1, 0, 0, 0, 7, 1, 2, 3, 4, 5, 6, 7, 8, 253, 44, 1]) exFresh' 10) = some .serr := by
  decide

end Scenic.ReplayStream
