import ScenicModel.Props.C17Object

/-!
C17 (part 4): soundness of the certificates the object oracle uses on the real code
(`outsideCert`: the whole box is outside the view volume; `insideCert`: the whole box is inside).
-/
namespace Scenic.Vis

theorem inViewVolume_iff (vw : Viewer) (p : V3) :
    InViewVolume vw p ↔ (0 ≤ vw.D ∧ (vf vw p).normSq ≤ vw.D * vw.D) ∧ InWindows Cfg.reference vw (vf vw p) :=
  Iff.rfl

/-- value of a linear functional of the viewer frame at a point of the box, in box coordinates -/
theorem lin_eq (vw : Viewer) (b : Box) (hM : b.M.IsOrtho) (l p : V3) :
    l.dot (vf vw p) =
      l.dot (vw.R.applyT (b.c.sub vw.cam)) + (b.M.applyT (vw.R.apply l)).dot (b.loc p) := by
  have hw : b.M.apply (b.loc p) = p.sub b.c := Mat3.apply_applyT hM _
  have hx := congrArg V3.x hw
  have hy := congrArg V3.y hw
  have hz := congrArg V3.z hw
  simp only [Mat3.apply_x, Mat3.apply_y, Mat3.apply_z, V3.sub_x, V3.sub_y, V3.sub_z] at hx hy hz
  unfold vf
  simp only [V3.dot_def, Mat3.applyT_x, Mat3.applyT_y, Mat3.applyT_z, Mat3.apply_x, Mat3.apply_y, Mat3.apply_z,
    V3.sub_x, V3.sub_y, V3.sub_z]
  have ex : p.x - vw.cam.x = (b.c.x - vw.cam.x) + (p.x - b.c.x) := by ring
  have ey : p.y - vw.cam.y = (b.c.y - vw.cam.y) + (p.y - b.c.y) := by ring
  have ez : p.z - vw.cam.z = (b.c.z - vw.cam.z) + (p.z - b.c.z) := by ring
  rw [ex, ey, ez, ← hx, ← hy, ← hz]
  ring

theorem lin_le_maxLin (vw : Viewer) (b : Box) (hM : b.M.IsOrtho) (l p : V3) (hp : b.Contains p) :
    l.dot (vf vw p) ≤ b.maxLin vw l := by
  rw [lin_eq vw b hM]
  unfold Box.maxLin
  unfold Box.Contains at hp
  rw [inExt_iff] at hp
  obtain ⟨⟨x1, x2⟩, ⟨y1, y2⟩, ⟨z1, z2⟩⟩ := hp
  simp only [V3.dot_def]
  have a := mul_le_absR_mul (g := (b.M.applyT (vw.R.apply l)).x) x1 x2
  have b' := mul_le_absR_mul (g := (b.M.applyT (vw.R.apply l)).y) y1 y2
  have c := mul_le_absR_mul (g := (b.M.applyT (vw.R.apply l)).z) z1 z2
  nlinarith

theorem minLin_le_lin (vw : Viewer) (b : Box) (hM : b.M.IsOrtho) (l p : V3) (hp : b.Contains p) :
    b.minLin vw l ≤ l.dot (vf vw p) := by
  rw [lin_eq vw b hM]
  unfold Box.minLin
  unfold Box.Contains at hp
  rw [inExt_iff] at hp
  obtain ⟨⟨x1, x2⟩, ⟨y1, y2⟩, ⟨z1, z2⟩⟩ := hp
  simp only [V3.dot_def]
  have a := mul_le_absR_mul (k := -(b.loc p).x) (h := b.h.x) (g := (b.M.applyT (vw.R.apply l)).x) (by linarith) (by linarith)
  have b' := mul_le_absR_mul (k := -(b.loc p).y) (h := b.h.y) (g := (b.M.applyT (vw.R.apply l)).y) (by linarith) (by linarith)
  have c := mul_le_absR_mul (k := -(b.loc p).z) (h := b.h.z) (g := (b.M.applyT (vw.R.apply l)).z) (by linarith) (by linarith)
  nlinarith

/-! ### outside -/

theorem horiz_zero {x y : Rat} (h : y * y + x * x = 0) : x = 0 ∧ y = 0 := by
  constructor <;> nlinarith [mul_self_nonneg x, mul_self_nonneg y]

/-- a vector strictly beyond the right bounding plane of a convex azimuth wedge is outside the wedge -/
theorem not_azOK_right (h : Half) (hv : h.Valid) (hc : 0 < h.c) (v : V3)
    (hs : -h.c * v.x + h.s * v.y < 0) : ¬ AzOK Cfg.reference h v := by
  rw [azOK_ref]
  intro haz
  by_cases h0 : v.y * v.y + v.x * v.x = 0
  · rw [if_pos h0] at haz; linarith
  · rw [if_neg h0] at haz
    unfold GeMulSqrt at haz
    rw [if_pos (le_of_lt hc)] at haz
    obtain ⟨hy, hsq⟩ := haz
    obtain ⟨hu, hs0⟩ := hv
    have h1 : h.s * v.y < h.c * v.x := by linarith
    have h2 : 0 ≤ h.s * v.y := mul_nonneg hs0 hy
    have h3 := mul_self_lt_mul_self h2 h1
    have hu2 : h.c * h.c * (v.y * v.y) + h.s * h.s * (v.y * v.y) = v.y * v.y := by
      rw [← add_mul, hu, one_mul]
    nlinarith

theorem not_azOK_left (h : Half) (hv : h.Valid) (hc : 0 < h.c) (v : V3)
    (hs : h.c * v.x + h.s * v.y < 0) : ¬ AzOK Cfg.reference h v := by
  rw [azOK_ref]
  intro haz
  by_cases h0 : v.y * v.y + v.x * v.x = 0
  · rw [if_pos h0] at haz; linarith
  · rw [if_neg h0] at haz
    unfold GeMulSqrt at haz
    rw [if_pos (le_of_lt hc)] at haz
    obtain ⟨hy, hsq⟩ := haz
    obtain ⟨hu, hs0⟩ := hv
    have h1 : h.s * v.y < -(h.c * v.x) := by linarith
    have h2 : 0 ≤ h.s * v.y := mul_nonneg hs0 hy
    have h3 := mul_self_lt_mul_self h2 h1
    have hu2 : h.c * h.c * (v.y * v.y) + h.s * h.s * (v.y * v.y) = v.y * v.y := by
      rw [← add_mul, hu, one_mul]
    nlinarith

theorem not_azOK_behind (h : Half) (hc : 0 < h.c) (v : V3) (hs : v.y < 0) : ¬ AzOK Cfg.reference h v := by
  rw [azOK_ref]
  intro haz
  by_cases h0 : v.y * v.y + v.x * v.x = 0
  · rw [if_pos h0] at haz; linarith
  · rw [if_neg h0] at haz
    unfold GeMulSqrt at haz
    rw [if_pos (le_of_lt hc)] at haz
    linarith [haz.1]

/-- a vector strictly inside the convex cone complementary to a reflex azimuth wedge is outside the wedge -/
theorem not_azOK_reflex (h : Half) (hv : h.Valid) (hc : ¬ 0 < h.c) (v : V3)
    (h1 : 0 < h.c * v.x - h.s * v.y) (h2 : 0 < -h.c * v.x - h.s * v.y) : ¬ AzOK Cfg.reference h v := by
  rw [azOK_ref]
  intro haz
  obtain ⟨hu, hs0⟩ := hv
  have hc' : h.c ≤ 0 := not_lt.mp hc
  by_cases h0 : v.y * v.y + v.x * v.x = 0
  · obtain ⟨hx, hy⟩ := horiz_zero h0
    rw [hx, hy] at h1; simp at h1
  · rw [if_neg h0] at haz
    unfold GeMulSqrt at haz
    have hsy : h.s * v.y < 0 := by linarith
    have hneg : ¬ 0 ≤ v.y := by
      intro hy; have := mul_nonneg hs0 hy; linarith
    by_cases hc0 : 0 ≤ h.c
    · rw [if_pos hc0] at haz; exact hneg haz.1
    · rw [if_neg hc0] at haz
      rcases haz with hy | hsq
      · exact hneg hy
      · have hu2 : h.c * h.c * (v.y * v.y) + h.s * h.s * (v.y * v.y) = v.y * v.y := by
          rw [← add_mul, hu, one_mul]
        nlinarith [mul_pos h1 h2]

/-! ### the altitude band: the two nappes above and below it are convex -/

theorem not_altOK_of_offBand (h : Half) (hv : h.ValidAlt) (sgn : Rat) (v : V3) (ho : OffBand h sgn v) :
    ¬ AltOK Cfg.reference h v := by
  rw [altOK_ref, V3.normSq_def]
  intro ha
  obtain ⟨⟨hun, _⟩, _⟩ := hv
  obtain ⟨_, hq⟩ := ho
  have hu2 : h.c * h.c * (v.z * v.z) + h.s * h.s * (v.z * v.z) = v.z * v.z := by
    rw [← add_mul, hun, one_mul]
  nlinarith

def lerp (t : Rat) (a b : V3) : V3 :=
  ⟨(1 - t) * a.x + t * b.x, (1 - t) * a.y + t * b.y, (1 - t) * a.z + t * b.z⟩

/-- the open nappe is convex -/
theorem offBand_lerp (h : Half) (sgn : Rat) (a b : V3) (ha : OffBand h sgn a) (hb : OffBand h sgn b)
    (t : Rat) (ht0 : 0 ≤ t) (ht1 : t ≤ 1) : OffBand h sgn (lerp t a b) := by
  obtain ⟨za, qa⟩ := ha
  obtain ⟨zb, qb⟩ := hb
  have h1t : 0 ≤ 1 - t := by linarith
  constructor
  · show 0 < sgn * ((1 - t) * a.z + t * b.z)
    rcases lt_or_eq_of_le ht1 with hlt | heq
    · have : 0 < 1 - t := by linarith
      nlinarith [mul_pos this za, mul_nonneg ht0 (le_of_lt zb)]
    · rw [heq]; nlinarith
  · show h.s * h.s * (((1 - t) * a.x + t * b.x) * ((1 - t) * a.x + t * b.x)
        + ((1 - t) * a.y + t * b.y) * ((1 - t) * a.y + t * b.y))
      < h.c * h.c * (((1 - t) * a.z + t * b.z) * ((1 - t) * a.z + t * b.z))
    -- the two heights have the same sign, so their product is positive
    have hzz : 0 < a.z * b.z := by
      have : 0 < (sgn * a.z) * (sgn * b.z) := mul_pos za zb
      have e : (sgn * a.z) * (sgn * b.z) = (sgn * sgn) * (a.z * b.z) := by ring
      rw [e] at this
      have hs2 : 0 ≤ sgn * sgn := mul_self_nonneg sgn
      by_contra hn
      have : a.z * b.z ≤ 0 := not_lt.mp hn
      nlinarith
    have hcc : 0 < h.c * h.c := by
      by_contra hn
      have hc0 : h.c * h.c ≤ 0 := not_lt.mp hn
      have : h.c * h.c * (a.z * a.z) ≤ 0 := mul_nonpos_of_nonpos_of_nonneg hc0 (mul_self_nonneg _)
      have : 0 ≤ h.s * h.s * (a.x * a.x + a.y * a.y) :=
        mul_nonneg (mul_self_nonneg _) (by nlinarith [mul_self_nonneg a.x, mul_self_nonneg a.y])
      linarith
    set ra := a.x * a.x + a.y * a.y with hra
    set rb := b.x * b.x + b.y * b.y with hrb
    have hra0 : 0 ≤ ra := by rw [hra]; nlinarith [mul_self_nonneg a.x, mul_self_nonneg a.y]
    have hrb0 : 0 ≤ rb := by rw [hrb]; nlinarith [mul_self_nonneg b.x, mul_self_nonneg b.y]
    have hss : 0 ≤ h.s * h.s := mul_self_nonneg _
    -- reverse Cauchy–Schwarz: the mixed term is positive
    set X := h.s * h.s * (a.x * b.x + a.y * b.y) with hX
    set Y := h.c * h.c * (a.z * b.z) with hY
    have hYpos : 0 < Y := mul_pos hcc hzz
    have hcs : (a.x * b.x + a.y * b.y) * (a.x * b.x + a.y * b.y) ≤ ra * rb := by
      rw [hra, hrb]; nlinarith [mul_self_nonneg (a.x * b.y - a.y * b.x)]
    have hprod : (h.s * h.s * ra) * (h.s * h.s * rb) < (h.c * h.c * (a.z * a.z)) * (h.c * h.c * (b.z * b.z)) :=
      mul_lt_mul'' qa qb (mul_nonneg hss hra0) (mul_nonneg hss hrb0)
    have hXY : X * X < Y * Y := by
      have e1 : X * X = (h.s * h.s) * (h.s * h.s) * ((a.x * b.x + a.y * b.y) * (a.x * b.x + a.y * b.y)) := by
        rw [hX]; ring
      have e2 : Y * Y = (h.c * h.c * (a.z * a.z)) * (h.c * h.c * (b.z * b.z)) := by rw [hY]; ring
      have e3 : (h.s * h.s * ra) * (h.s * h.s * rb) = (h.s * h.s) * (h.s * h.s) * (ra * rb) := by ring
      have : X * X ≤ (h.s * h.s) * (h.s * h.s) * (ra * rb) := by
        rw [e1]; exact mul_le_mul_of_nonneg_left hcs (mul_nonneg hss hss)
      rw [e2]; rw [e3] at hprod; linarith
    have hXltY : X < Y := by
      by_contra hn
      have : Y ≤ X := not_lt.mp hn
      nlinarith
    -- expand the quadratic form along the segment
    have expand : h.c * h.c * (((1 - t) * a.z + t * b.z) * ((1 - t) * a.z + t * b.z))
        - h.s * h.s * (((1 - t) * a.x + t * b.x) * ((1 - t) * a.x + t * b.x)
          + ((1 - t) * a.y + t * b.y) * ((1 - t) * a.y + t * b.y))
        = (1 - t) * (1 - t) * (h.c * h.c * (a.z * a.z) - h.s * h.s * ra)
          + t * t * (h.c * h.c * (b.z * b.z) - h.s * h.s * rb)
          + 2 * t * (1 - t) * (Y - X) := by
      rw [hra, hrb, hX, hY]; ring
    have hA : 0 < h.c * h.c * (a.z * a.z) - h.s * h.s * ra := by linarith
    have hB : 0 < h.c * h.c * (b.z * b.z) - h.s * h.s * rb := by linarith
    have hC : 0 ≤ 2 * t * (1 - t) * (Y - X) :=
      mul_nonneg (mul_nonneg (by linarith) h1t) (by linarith)
    have hpos : 0 < (1 - t) * (1 - t) * (h.c * h.c * (a.z * a.z) - h.s * h.s * ra)
          + t * t * (h.c * h.c * (b.z * b.z) - h.s * h.s * rb) := by
      rcases lt_or_eq_of_le ht1 with hlt | heq
      · have h1 : 0 < (1 - t) * (1 - t) := mul_pos (by linarith) (by linarith)
        have := mul_pos h1 hA
        have := mul_nonneg (mul_self_nonneg t) (le_of_lt hB)
        linarith
      · rw [heq]; simp only [sub_self, mul_zero, zero_mul, zero_add, one_mul]; exact hB
    linarith

/-! ### a box is the convex hull of its corners (in the viewer frame) -/

theorem boxPt_lerp_x (vw : Viewer) (b : Box) (t u w ly lz : Rat) :
    boxPt vw b ⟨(1 - t) * u + t * w, ly, lz⟩ = lerp t (boxPt vw b ⟨u, ly, lz⟩) (boxPt vw b ⟨w, ly, lz⟩) := by
  unfold boxPt vf lerp
  apply V3.ext' <;>
    simp only [Mat3.applyT_x, Mat3.applyT_y, Mat3.applyT_z, Mat3.apply_x, Mat3.apply_y, Mat3.apply_z, V3.add_x,
      V3.add_y, V3.add_z, V3.sub_x, V3.sub_y, V3.sub_z] <;> ring

theorem boxPt_lerp_y (vw : Viewer) (b : Box) (t u w lx lz : Rat) :
    boxPt vw b ⟨lx, (1 - t) * u + t * w, lz⟩ = lerp t (boxPt vw b ⟨lx, u, lz⟩) (boxPt vw b ⟨lx, w, lz⟩) := by
  unfold boxPt vf lerp
  apply V3.ext' <;>
    simp only [Mat3.applyT_x, Mat3.applyT_y, Mat3.applyT_z, Mat3.apply_x, Mat3.apply_y, Mat3.apply_z, V3.add_x,
      V3.add_y, V3.add_z, V3.sub_x, V3.sub_y, V3.sub_z] <;> ring

theorem boxPt_lerp_z (vw : Viewer) (b : Box) (t u w lx ly : Rat) :
    boxPt vw b ⟨lx, ly, (1 - t) * u + t * w⟩ = lerp t (boxPt vw b ⟨lx, ly, u⟩) (boxPt vw b ⟨lx, ly, w⟩) := by
  unfold boxPt vf lerp
  apply V3.ext' <;>
    simp only [Mat3.applyT_x, Mat3.applyT_y, Mat3.applyT_z, Mat3.apply_x, Mat3.apply_y, Mat3.apply_z, V3.add_x,
      V3.add_y, V3.add_z, V3.sub_x, V3.sub_y, V3.sub_z] <;> ring

theorem exists_param {l h : Rat} (h1 : -h ≤ l) (h2 : l ≤ h) :
    ∃ t, 0 ≤ t ∧ t ≤ 1 ∧ l = (1 - t) * (-h) + t * h := by
  have hh : 0 ≤ h := by linarith
  rcases lt_or_eq_of_le hh with hpos | hz
  · refine ⟨(l + h) / (2 * h), ?_, ?_, ?_⟩
    · apply div_nonneg <;> linarith
    · rw [div_le_one (by linarith)]; linarith
    · field_simp; ring
  · refine ⟨0, le_refl _, by norm_num, ?_⟩
    rw [← hz] at h1 h2 ⊢
    simp only [neg_zero] at h1
    have : l = 0 := le_antisymm h2 h1
    rw [this]; ring

/-- if the eight corners are off the band on one side, so is every point of the box -/
theorem offBand_of_corners (vw : Viewer) (b : Box) (hM : b.M.IsOrtho) (sgn : Rat)
    (hc : cornersOffBand vw b sgn) (p : V3) (hp : b.Contains p) : OffBand vw.a1 sgn (vf vw p) := by
  unfold Box.Contains at hp
  rw [inExt_iff] at hp
  obtain ⟨⟨x1, x2⟩, ⟨y1, y2⟩, ⟨z1, z2⟩⟩ := hp
  obtain ⟨tx, tx0, tx1, ex⟩ := exists_param x1 x2
  obtain ⟨ty, ty0, ty1, ey⟩ := exists_param y1 y2
  obtain ⟨tz, tz0, tz1, ez⟩ := exists_param z1 z2
  have hp' : vf vw p = boxPt vw b ⟨(b.loc p).x, (b.loc p).y, (b.loc p).z⟩ := by
    unfold boxPt
    have hw : b.M.apply (b.loc p) = p.sub b.c := Mat3.apply_applyT hM _
    have : b.c.add (b.M.apply ⟨(b.loc p).x, (b.loc p).y, (b.loc p).z⟩) = p := by
      have e : (⟨(b.loc p).x, (b.loc p).y, (b.loc p).z⟩ : V3) = b.loc p := rfl
      rw [e, hw]
      apply V3.ext' <;> simp only [V3.add_x, V3.add_y, V3.add_z, V3.sub_x, V3.sub_y, V3.sub_z] <;> ring
    rw [this]
  rw [hp', ex, ey, ez]
  obtain ⟨c1, c2, c3, c4, c5, c6, c7, c8⟩ := hc
  rw [boxPt_lerp_x]
  apply offBand_lerp _ _ _ _ _ _ _ tx0 tx1
  · rw [boxPt_lerp_y]
    apply offBand_lerp _ _ _ _ _ _ _ ty0 ty1
    · rw [boxPt_lerp_z]; exact offBand_lerp _ _ _ _ c1 c2 _ tz0 tz1
    · rw [boxPt_lerp_z]; exact offBand_lerp _ _ _ _ c3 c4 _ tz0 tz1
  · rw [boxPt_lerp_y]
    apply offBand_lerp _ _ _ _ _ _ _ ty0 ty1
    · rw [boxPt_lerp_z]; exact offBand_lerp _ _ _ _ c5 c6 _ tz0 tz1
    · rw [boxPt_lerp_z]; exact offBand_lerp _ _ _ _ c7 c8 _ tz0 tz1


/-- **outsideCert_sound**: if the certificate holds, no point of the box is in the view volume. -/
theorem outsideCert_sound (vw : Viewer) (hR : vw.R.IsOrtho) (ha : vw.a0.Valid) (ha1 : vw.a1.ValidAlt) (b : Box)
    (hM : b.M.IsOrtho) (hc : outsideCert vw b = true) (p : V3) (hp : b.Contains p) : ¬ InViewVolume vw p := by
  rw [inViewVolume_iff]
  rintro ⟨⟨hD, hdist⟩, hw⟩
  unfold outsideCert at hc
  simp only [Bool.or_eq_true, decide_eq_true_eq] at hc
  rw [inWindows_ref] at hw
  obtain ⟨_, hazok, haltok⟩ := hw
  rcases hc with (((hneg | hfar) | habove) | hbelow) | haz
  · linarith
  · have := b.distSq_le hM vw.cam p hp
    unfold vf at hdist
    rw [Mat3.normSq_applyT hR] at hdist
    linarith
  · exact not_altOK_of_offBand _ ha1 1 _ (offBand_of_corners vw b hM 1 habove p hp) haltok
  · exact not_altOK_of_offBand _ ha1 (-1) _ (offBand_of_corners vw b hM (-1) hbelow p hp) haltok
  · by_cases hc0 : 0 < vw.a0.c
    · simp only [hc0, if_true, Bool.or_eq_true, decide_eq_true_eq] at haz
      rcases haz with (h1 | h2) | h3
      · have := lin_le_maxLin vw b hM ⟨-vw.a0.c, vw.a0.s, 0⟩ p hp
        simp only [V3.dot_def] at this
        exact not_azOK_right _ ha hc0 _ (by nlinarith) hazok
      · have := lin_le_maxLin vw b hM ⟨vw.a0.c, vw.a0.s, 0⟩ p hp
        simp only [V3.dot_def] at this
        exact not_azOK_left _ ha hc0 _ (by nlinarith) hazok
      · have := lin_le_maxLin vw b hM ⟨0, 1, 0⟩ p hp
        simp only [V3.dot_def] at this
        exact not_azOK_behind _ hc0 _ (by nlinarith) hazok
    · simp only [hc0, if_false, Bool.and_eq_true, decide_eq_true_eq] at haz
      obtain ⟨h1, h2⟩ := haz
      have e1 := minLin_le_lin vw b hM ⟨vw.a0.c, -vw.a0.s, 0⟩ p hp
      have e2 := minLin_le_lin vw b hM ⟨-vw.a0.c, -vw.a0.s, 0⟩ p hp
      simp only [V3.dot_def] at e1 e2
      exact not_azOK_reflex _ ha hc0 _ (by nlinarith) (by nlinarith) hazok

/-- **object_outside_cert**: when the certificate holds (and the camera is not inside the target) the object model
    reports not visible, for every list of candidate rays and every set of occluders. -/
theorem object_outside_cert (vw : Viewer) (hR : vw.R.IsOrtho) (ha : vw.a0.Valid) (ha1 : vw.a1.ValidAlt)
    (rays : List V3) (tgt : Box)
    (hM : tgt.M.IsOrtho) (occ : List Box) (hh : 0 ≤ tgt.h.x ∧ 0 ≤ tgt.h.y ∧ 0 ≤ tgt.h.z)
    (hcam : ¬ tgt.Contains vw.cam) (hc : outsideCert vw tgt = true) :
    objectVisible Cfg.reference vw rays tgt occ = false :=
  object_outside_never_visible vw hR rays tgt occ hh hcam (outsideCert_sound vw hR ha ha1 tgt hM hc)

/-! ### inside -/

theorem far_sq_le {u h w : Rat} (h1 : -h ≤ w) (h2 : w ≤ h) :
    (w - u) * (w - u) ≤ (absR u + h) * (absR u + h) := by
  unfold absR
  split <;> nlinarith

theorem Box.le_farSq (b : Box) (hM : b.M.IsOrtho) (p x : V3) (hx : b.Contains x) :
    (x.sub p).normSq ≤ b.farSq p := by
  have h1 : (x.sub p).normSq = ((b.loc x).sub (b.loc p)).normSq := by
    rw [Box.loc_sub, Mat3.normSq_applyT hM]
  rw [h1]
  unfold Box.Contains at hx
  rw [inExt_iff] at hx
  obtain ⟨⟨x1, x2⟩, ⟨y1, y2⟩, ⟨z1, z2⟩⟩ := hx
  unfold Box.farSq
  simp only [V3.normSq_def, V3.sub_x, V3.sub_y, V3.sub_z]
  have a := far_sq_le (u := (b.loc p).x) x1 x2
  have b' := far_sq_le (u := (b.loc p).y) y1 y2
  have c := far_sq_le (u := (b.loc p).z) z1 z2
  linarith

/-- inside a convex azimuth wedge: on the inner side of both bounding planes and ahead -/
theorem azOK_convex (h : Half) (hv : h.Valid) (hc : 0 < h.c) (v : V3) (hne : v.y * v.y + v.x * v.x ≠ 0)
    (f1 : 0 ≤ -h.c * v.x + h.s * v.y) (f2 : 0 ≤ h.c * v.x + h.s * v.y) (f3 : 0 ≤ v.y) :
    AzOK Cfg.reference h v := by
  rw [azOK_ref, if_neg hne]
  obtain ⟨hun, hs0⟩ := hv
  have hu2 : h.c * h.c * (v.y * v.y) + h.s * h.s * (v.y * v.y) = v.y * v.y := by
    rw [← add_mul, hun, one_mul]
  unfold GeMulSqrt
  rw [if_pos (le_of_lt hc)]
  refine ⟨f3, ?_⟩
  have g1 : 0 ≤ h.s * v.y - h.c * v.x := by linarith
  have g2 : 0 ≤ h.s * v.y + h.c * v.x := by linarith
  nlinarith [mul_nonneg g1 g2]

/-- inside a reflex azimuth wedge: ahead, or on the inner side of one of the two bounding planes -/
theorem azOK_reflex (h : Half) (hv : h.Valid) (hc : ¬ 0 < h.c) (v : V3) (hne : v.y * v.y + v.x * v.x ≠ 0)
    (f : 0 ≤ v.y ∨ 0 ≤ -h.c * v.x + h.s * v.y ∨ 0 ≤ h.c * v.x + h.s * v.y) :
    AzOK Cfg.reference h v := by
  rw [azOK_ref, if_neg hne]
  obtain ⟨hun, hs0⟩ := hv
  have hc' : h.c ≤ 0 := not_lt.mp hc
  have hu2 : h.c * h.c * (v.y * v.y) + h.s * h.s * (v.y * v.y) = v.y * v.y := by
    rw [← add_mul, hun, one_mul]
  unfold GeMulSqrt
  by_cases hc00 : 0 ≤ h.c
  · -- c = 0: the wedge is the half plane y ≥ 0
    have hcz : h.c = 0 := le_antisymm hc' hc00
    have hcx : h.c * v.x = 0 := by rw [hcz, zero_mul]
    rw [if_pos hc00]
    have hs1 : h.s * h.s = 1 := by rw [hcz] at hun; linarith
    have hspos : 0 < h.s := by
      rcases lt_or_eq_of_le hs0 with hh | hh
      · exact hh
      · rw [← hh] at hs1; simp at hs1
    have hy : 0 ≤ v.y := by
      rcases f with f | f | f
      · exact f
      · by_contra hn
        have : v.y < 0 := not_le.mp hn
        nlinarith
      · by_contra hn
        have : v.y < 0 := not_le.mp hn
        nlinarith
    refine ⟨hy, ?_⟩
    rw [hcz]; nlinarith [mul_self_nonneg v.y]
  · rw [if_neg hc00]
    by_cases hy : 0 ≤ v.y
    · exact Or.inl hy
    · right
      have hy' : v.y < 0 := not_le.mp hy
      have hsy : h.s * v.y ≤ 0 := mul_nonpos_of_nonneg_of_nonpos hs0 (le_of_lt hy')
      rcases f with f | f | f
      · exact absurd f hy
      · have f1 : 0 ≤ -(h.s * v.y) := by linarith
        have f2 : -(h.s * v.y) ≤ -(h.c * v.x) := by linarith
        have f3 := mul_self_le_mul_self f1 f2
        nlinarith
      · have f1 : 0 ≤ -(h.s * v.y) := by linarith
        have f2 : -(h.s * v.y) ≤ h.c * v.x := by linarith
        have f3 := mul_self_le_mul_self f1 f2
        nlinarith

/-- inside the altitude band: `cos·|z| ≤ sin·w` for some `w` with `w² ≤ x² + y²` -/
theorem altOK_of_cert (h : Half) (hv : h.ValidAlt) (v : V3) (w : Rat)
    (hw2 : w * w ≤ v.y * v.y + v.x * v.x) (g1 : h.c * v.z ≤ h.s * w) (g2 : -(h.c * v.z) ≤ h.s * w) :
    AltOK Cfg.reference h v := by
  rw [altOK_ref]
  obtain ⟨⟨hun, hs0⟩, hc0⟩ := hv
  have hsw : 0 ≤ h.s * w := by linarith
  have g3 : (h.c * v.z) * (h.c * v.z) ≤ (h.s * w) * (h.s * w) := by
    rcases le_total 0 (h.c * v.z) with hz | hz
    · exact mul_self_le_mul_self hz g1
    · have := mul_self_le_mul_self (by linarith : 0 ≤ -(h.c * v.z)) g2
      nlinarith
  have g4 : (h.s * w) * (h.s * w) ≤ h.s * h.s * (v.y * v.y + v.x * v.x) := by
    have : 0 ≤ h.s * h.s := mul_self_nonneg _
    nlinarith [mul_le_mul_of_nonneg_left hw2 this]
  have hu2 : h.c * h.c * (v.z * v.z) + h.s * h.s * (v.z * v.z) = v.z * v.z := by
    rw [← add_mul, hun, one_mul]
  rw [V3.normSq_def]
  nlinarith

/-- Cauchy–Schwarz with a unit vector of the horizontal plane -/
theorem unit_dot_sq_le (ux uy x y : Rat) (hu : ux * ux + uy * uy = 1) :
    (ux * x + uy * y) * (ux * x + uy * y) ≤ y * y + x * x := by
  have : (ux * x + uy * y) * (ux * x + uy * y) + (ux * y - uy * x) * (ux * y - uy * x)
      = (ux * ux + uy * uy) * (y * y + x * x) := by ring
  rw [hu, one_mul] at this
  nlinarith [mul_self_nonneg (ux * y - uy * x)]

/-- **insideCert_sound**: if the certificate holds, every point of the box is in the view volume. -/
theorem insideCert_sound (vw : Viewer) (hR : vw.R.IsOrtho) (ha0 : vw.a0.Valid) (ha1 : vw.a1.ValidAlt) (b : Box)
    (hM : b.M.IsOrtho) (u : V3) (hc : insideCert vw b u = true) (p : V3) (hp : b.Contains p) :
    InViewVolume vw p := by
  unfold insideCert at hc
  simp only [Bool.and_eq_true, decide_eq_true_eq] at hc
  obtain ⟨⟨⟨⟨⟨hD, hfar⟩, hu0, hu1⟩, hpos⟩, haz⟩, halt1, halt2⟩ := hc
  -- the functional u is positive on the box
  have eu := minLin_le_lin vw b hM u p hp
  simp only [V3.dot_def, hu0, zero_mul, add_zero] at eu
  have hupos : 0 < u.x * (vf vw p).x + u.y * (vf vw p).y := by linarith
  have hcs := unit_dot_sq_le u.x u.y (vf vw p).x (vf vw p).y hu1
  have hhoriz : (vf vw p).y * (vf vw p).y + (vf vw p).x * (vf vw p).x ≠ 0 := by
    intro h0
    obtain ⟨hx, hy⟩ := horiz_zero h0
    rw [hx, hy] at hupos; simp at hupos
  have hvne : vf vw p ≠ V3.zero := by
    intro h0
    apply hhoriz
    rw [h0]; simp [V3.zero]
  rw [inViewVolume_iff]
  refine ⟨⟨hD, ?_⟩, ?_⟩
  · have := b.le_farSq hM vw.cam p hp
    unfold vf
    rw [Mat3.normSq_applyT hR]
    linarith
  · rw [inWindows_ref]
    refine ⟨hvne, ?_, ?_⟩
    · -- azimuth
      have e1 := minLin_le_lin vw b hM ⟨-vw.a0.c, vw.a0.s, 0⟩ p hp
      have e2 := minLin_le_lin vw b hM ⟨vw.a0.c, vw.a0.s, 0⟩ p hp
      have e3 := minLin_le_lin vw b hM ⟨0, 1, 0⟩ p hp
      simp only [V3.dot_def] at e1 e2 e3
      by_cases hc0 : 0 < vw.a0.c
      · simp only [hc0, if_true, Bool.and_eq_true, decide_eq_true_eq] at haz
        obtain ⟨⟨h1, h2⟩, h3⟩ := haz
        exact azOK_convex _ ha0 hc0 _ hhoriz (by linarith) (by linarith) (by linarith)
      · simp only [hc0, if_false, Bool.or_eq_true, decide_eq_true_eq] at haz
        apply azOK_reflex _ ha0 hc0 _ hhoriz
        rcases haz with (h1 | h2) | h3
        · exact Or.inl (by linarith)
        · exact Or.inr (Or.inl (by linarith))
        · exact Or.inr (Or.inr (by linarith))
    · -- altitude
      have e1 := minLin_le_lin vw b hM ⟨vw.a1.s * u.x, vw.a1.s * u.y, -vw.a1.c⟩ p hp
      have e2 := minLin_le_lin vw b hM ⟨vw.a1.s * u.x, vw.a1.s * u.y, vw.a1.c⟩ p hp
      simp only [V3.dot_def] at e1 e2
      exact altOK_of_cert _ ha1 _ (u.x * (vf vw p).x + u.y * (vf vw p).y) hcs (by nlinarith) (by nlinarith)

end Scenic.Vis
