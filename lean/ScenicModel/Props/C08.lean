/-! # C08 — property theorems (stub: filled in when the property's model is built) -/
namespace Scenic.C08
end Scenic.C08
