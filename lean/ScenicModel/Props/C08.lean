import ScenicModel.Props.C08Bounds
import ScenicModel.Props.C08Heading
import ScenicModel.Props.C08Geom
import ScenicModel.Props.C08Morph
import ScenicModel.Props.C08Loops
import ScenicModel.Props.C08Cond
import ScenicModel.Gen.Pruning

/-!
# C08 — pruning never changes which scenes can be generated

Property theorems instantiated on the data regenerated from /repo (`Gen/Pruning.lean`, rewritten by
`tools/translate/pruning.py` on every check run).  The `gen_*` side conditions are re-decided by the
kernel on that data; when the source changes so that one of them becomes false the build breaks and
the check searches the real code for a failing input.

Full statement of the property (not provable as one theorem: shapely buffering, trimesh
voxelisation and mesh booleans are outside the model — their over-approximation claims are checked
on the real code by the direct oracle):

  for every program and every accepted sample ω of the unpruned program, ω's base point lies in the
  pruned region; pruning adds no scene; compilation terminates and does not report a satisfiable
  program infeasible.

What is proved here, for all inputs:
  * `bounds_sound`, `inconsistency_sound`, `nonordering_no_bound`  (requirement syntax → intervals)
  * `rh_range_sound`, `cell_pair_kept`                              (relative-heading pruning)
  * `erosion_sound`, `visibility_buffer_sound`                      (metric side conditions)
  * `erode_passes_sound`, `erode_count_sound`, `dilate_passes_sound`, `dilate_count_sound`,
    `buffer_voxels_sound`, `erode_voxels_sound`                      (voxel over-approximations end to end)
  * `buffer_retry_terminates`, `erode_retry_terminates`, `erode_retry_coarsens`
  * `prune_preserves_cond`, `prune_no_new_scenes`, `rejection_output_conditional`
-/
namespace Scenic.C08
open Scenic.Pruning Scenic.Gen

/-! ## side conditions on the generated data -/

theorem gen_dispatch_wf : pruneDispatch.WF = true := by decide

theorem gen_rh_sound :
    rhConfig.Sound = true ∧ rhGuardInclusive = true ∧ overlapSound rhOverlapOps = true := by decide

theorem gen_amounts : erosionUsesDifference = true ∧ visibilityBufferIsSum = true := by decide

theorem gen_erode_count : erodeCount.Sound = true ∧ erodeNegates = true := by decide

theorem gen_dilate_count : dilateCount.Sound = true := by decide

theorem gen_dilation_pads : dilationPads = true := by decide

theorem gen_buffer_loop :
    bufferLoop.Terminating = true ∧ (0 : Rat) < pruningPitch ∧ pruningPitch ≤ 1 ∧ 1 ≤ pruningPitch * 2 ^ 3 := by
  decide +kernel

theorem gen_erode_loop : erodeLoop.Terminating = true ∧ erodeLoop.passesCurrentPitch = true := by decide

/-! ## requirement syntax → bounds -/

/-- every value satisfying the requirement lies in the extracted interval (current dispatch table) -/
theorem bounds_sound (e : Env) (first : Expr) (rest : List (CmpOp × Expr)) (bs : Bounds)
    (hr : matchBounds pruneDispatch first rest = .ok bs) (hok : chainOk e first rest)
    (hh : chainHolds e first rest) : ∀ t b, (t, b) ∈ bs → inBound b (e.q t) :=
  Pruning.bounds_sound gen_dispatch_wf e first rest bs hr hok hh

example : matchBounds pruneDispatch (.leaf ⟨some 1, none, 0⟩)
    [(.lt, .leaf ⟨none, some 7, 1⟩), (.ltE, .leaf ⟨some 5, none, 2⟩)] = .ok [(7, (some 1, some 5))] := by
  decide +kernel

/-- an `InconsistentScenarioError` from the matcher means the requirement is unsatisfiable -/
theorem inconsistency_sound (e : Env) (first : Expr) (rest : List (CmpOp × Expr))
    (hr : matchBounds pruneDispatch first rest = .error ()) (hok : chainOk e first rest) :
    ¬ chainHolds e first rest :=
  Pruning.inconsistency_sound gen_dispatch_wf e first rest hr hok

example : matchBounds pruneDispatch (.abs1 ⟨none, some 7, 0⟩) [(.lt, .leaf ⟨some (-1), none, 1⟩)]
    = .error () := by decide +kernel

/-- `abs(Q) > -1` (always true) must not raise: the guard comes before the sign check -/
example : matchBounds pruneDispatch (.abs1 ⟨none, some 7, 0⟩) [(.gt, .leaf ⟨some (-1), none, 1⟩)]
    = .ok [] := by decide +kernel

theorem nonordering_no_bound (left right : Expr) (op : CmpOp)
    (hop : op = .notEq ∨ op = .is ∨ op = .isNot ∨ op = .in_ ∨ op = .notIn) :
    matchBoundsInner pruneDispatch left right op = .none :=
  Pruning.nonordering_no_bound gen_dispatch_wf left right op hop

/-- **regression witness for 0216aa9a**: with the old dispatch (no operator filter) `5 != Q` gave the
    lower bound 5, violated by `Q = 0`. -/
theorem old_dispatch_unsound :
    let D : Dispatch := { pruneDispatch with boundOps := [.lt, .ltE, .eq, .notEq, .is, .isNot, .in_, .notIn] }
    matchBounds D (.leaf ⟨some 5, none, 0⟩) [(.notEq, .leaf ⟨none, some 0, 1⟩)]
        = .ok [(0, (some 5, none))] ∧ (5 : Rat) ≠ 0 ∧ ¬ ((5 : Rat) ≤ 0) := by
  decide +kernel

/-! ## relative headings -/

theorem rh_range_sound {P : Rat} (hP : 0 < P) (bh oL oR th tL tR d e : Rat)
    (hd1 : oL ≤ d) (hd2 : d ≤ oR) (he1 : tL ≤ e) (he2 : e ≤ tR)
    (hw : oR - oL < 2 * P) (htw : tR - tL < 2 * P) (rh : Rat) (hr1 : -P < rh) (hr2 : rh < P)
    (hrh : ∃ k : Int, rh = (th + e) - (bh + d) + 2 * P * (k : Rat)) :
    (relativeHeadingRange rhConfig P (some bh) oL oR (some th) tL tR).1 ≤ rh ∧
      rh ≤ (relativeHeadingRange rhConfig P (some bh) oL oR (some th) tL tR).2 :=
  Pruning.rh_range_sound_interior gen_rh_sound.1 hP bh oL oR th tL tR d e hd1 hd2 he1 he2 hw htw rh hr1 hr2 hrh

/-- headings 0.95 and −0.95 half-turns: the true relative heading 0.1 lies in the returned range -/
example : (relativeHeadingRange rhConfig 1 (some (19/20)) 0 0 (some (-19/20)) 0 0) = (1/10, 1/10) := by
  decide +kernel

theorem cell_pair_kept {P : Rat} (hP : 0 < P) (bh oL oR th tL tR d e lowerBound upperBound : Rat)
    (hguard : rhGuardTrips rhGuardInclusive P oL oR tL tR lowerBound upperBound = false)
    (hd1 : oL ≤ d) (hd2 : d ≤ oR) (he1 : tL ≤ e) (he2 : e ≤ tR)
    (rh : Rat) (hr1 : -P < rh) (hr2 : rh < P)
    (hrh : ∃ k : Int, rh = (th + e) - (bh + d) + 2 * P * (k : Rat))
    (hreq1 : lowerBound ≤ rh) (hreq2 : rh ≤ upperBound) :
    cellPairKept rhConfig rhOverlapOps rhOverlapConj P (some bh) oL oR (some th) tL tR lowerBound upperBound
      = true := by
  rw [gen_rh_sound.2.1] at hguard
  exact Pruning.cell_pair_kept gen_rh_sound.1 rhOverlapConj gen_rh_sound.2.2 hP bh oL oR th tL tR d e
    lowerBound upperBound hguard hd1 hd2 he1 he2 rh hr1 hr2 hrh hreq1 hreq2

/-! ## erosion / dilation -/

/-- the erosion amount used by `pruneContainment` is `minRadius − maxDistance`, only when positive -/
theorem erosion_amount_spec {r d e : Rat}
    (h : erosionAmount erosionUsesDifference (some r) (some d) = some e) : e = r - d ∧ 0 < e := by
  rw [gen_amounts.1] at h; exact erosionAmount_spec h

example : erosionAmount erosionUsesDifference (some (3/2)) (some (1/2)) = some 1 := by decide +kernel

theorem visibility_buffer_spec (radius d : Rat) :
    visibilityBuffer visibilityBufferIsSum radius d = radius + d := by
  rw [gen_amounts.2]; rfl

/-- the pass count of `_erodeOverapproximate` never erodes by more than `maxErosion` -/
theorem erode_count_sound (maxErosion pitch targetPitch : Rat) (hr : 0 ≤ maxErosion) (hp : 0 < targetPitch) :
    match erodeMorph erodeCount erodeNegates maxErosion pitch targetPitch with
    | .erode k => 3 * ((k : Rat) * (k : Rat)) * (targetPitch * targetPitch) ≤ maxErosion * maxErosion
    | _ => True := by
  rw [gen_erode_count.2]
  exact Pruning.erode_count_sound gen_erode_count.1 maxErosion pitch targetPitch hr hp

example : erodeMorph erodeCount erodeNegates 4 (3/20) 1 = .erode 1 := by decide +kernel
example : erodeMorph erodeCount erodeNegates 1 (3/20) 1 = .dilate 1 := by decide +kernel

/-- the pass count of `_bufferOverapproximate` dilates by at least `minBuffer`, for every mesh (the divisor is
    the voxel edge since d16097f5; before, only for meshes of extent ≥ 1: `dilate_relative_pitch_underbuffers`) -/
theorem dilate_count_sound (minBuffer pitch targetPitch : Rat) (hp : 0 < targetPitch) :
    minBuffer ≤ ((dilatePasses dilateCount minBuffer pitch targetPitch : Int) : Rat) * targetPitch :=
  Pruning.dilate_count_sound gen_dilate_count minBuffer pitch targetPitch hp

example : dilatePasses dilateCount (433/500) (3/20) (3/50) = 16 := by decide +kernel

/-- `_bufferOverapproximate` (voxel branch), end to end on the generated configuration: every point within
    `minBuffer` of the region lies in a voxel of the returned set -/
theorem buffer_voxels_sound (C : Pt → Prop) (cells : List Cell) (minBuffer pitch tp : Rat) (htp : 0 < tp)
    (hb : 0 ≤ minBuffer) (hcover : ∀ y, C y → voxelOf tp y ∈ cells) (x y : Pt) (hx : C x)
    (h1 : x.1 - y.1 ≤ minBuffer ∧ y.1 - x.1 ≤ minBuffer)
    (h2 : x.2.1 - y.2.1 ≤ minBuffer ∧ y.2.1 - x.2.1 ≤ minBuffer)
    (h3 : x.2.2 - y.2.2 ≤ minBuffer ∧ y.2.2 - x.2.2 ≤ minBuffer) :
    voxelOf tp y ∈ applyMorph (dilateMorph dilateCount minBuffer pitch tp) cells :=
  Pruning.buffer_voxels_sound gen_dilate_count C cells minBuffer pitch tp htp hb hcover x y hx h1 h2 h3

/-- `_erodeOverapproximate`, end to end on the generated configuration: every point whose closed
    `maxErosion`-ball lies in the region survives -/
theorem erode_voxels_sound (C : Pt → Prop) (cells : List Cell) (maxErosion pitch tp : Rat) (htp : 0 < tp)
    (hr : 0 ≤ maxErosion) (hcover : ∀ y, C y → voxelOf tp y ∈ cells) (x : Pt)
    (hball : ∀ y, distSq x y ≤ maxErosion * maxErosion → C y) :
    voxelOf tp x ∈ applyMorph (erodeMorph erodeCount erodeNegates maxErosion pitch tp) cells := by
  rw [gen_erode_count.2]
  exact Pruning.erode_voxels_sound gen_erode_count.1 C cells maxErosion pitch tp htp hr hcover x hball

/-- a 5×5×5 block of unit voxels, erosion amount 2 (one pass: floor(2/√3) − 1 = 0 … the block is left alone) -/
example : erodeMorph erodeCount erodeNegates 2 (3/20) 1 = .same := by decide +kernel
example : applyMorph (erodeMorph erodeCount erodeNegates 4 (3/20) 1)
    ([0, 1, 2].flatMap fun a => [0, 1, 2].flatMap fun b => [0, 1, 2].map fun c => ((a, b, c) : Cell)) = [(1, 1, 1)] := by
  decide +kernel

/-- `VoxelRegion.dilation` computes the morphology of the unbounded grid (the one `buffer_voxels_sound` /
    `erode_voxels_sound` speak about): the dilated set is not clipped to the original grid -/
theorem dilation_unclipped (shape : Nat × Nat × Nat) (m : Morph) (cs : List Cell) :
    applyMorphGrid dilationPads shape m cs = applyMorph m cs := by
  rw [gen_dilation_pads]; cases m <;> rfl

/-- **regression witness for e7c606cc**: without padding, one voxel in a 1×1×1 grid stays one voxel under dilation,
    although its 26 neighbours are within one pass -/
theorem dilation_clipped_underbuffers :
    applyMorphGrid false (1, 1, 1) (.dilate 1) [(0, 0, 0)] = [(0, 0, 0)] ∧
      (1, 0, 0) ∈ applyMorph (.dilate 1) [(0, 0, 0)] := by decide +kernel

/-! ## retry loops -/

/-- the `while buffered_container is None` loop of `bufferHelper` ends within 4 iterations whatever the
    voxel→mesh conversion does -/
theorem buffer_retry_terminates (conv : Rat → Bool) :
    ∃ m, m ≤ 4 ∧ retryLoop bufferLoop conv pruningPitch 4 pruningPitch = some m :=
  retry_loop_terminates bufferLoop gen_buffer_loop.1 conv pruningPitch 3 gen_buffer_loop.2.2.2

/-- the `while eroded_container is None` loop of `pruneContainment` ends within 4 iterations whatever the
    voxel→mesh conversion does (false before 8b16337f: `old_erode_loop_diverges`) -/
theorem erode_retry_terminates (conv : Rat → Bool) :
    ∃ m, m ≤ 4 ∧ retryLoop erodeLoop conv pruningPitch 4 pruningPitch = some m :=
  retry_loop_terminates erodeLoop gen_erode_loop.1 conv pruningPitch 3 gen_buffer_loop.2.2.2

/-- … and its `i`-th retry is made with the pitch `min(PRUNING_PITCH·2ⁱ, 1)`, not with the same pitch again -/
theorem erode_retry_coarsens (conv : Rat → Bool) (fuel i : Nat) (x : Rat)
    (h : (retryTrace erodeLoop conv pruningPitch fuel pruningPitch)[i]? = some x) :
    x = min (pruningPitch * 2 ^ i) 1 :=
  retry_trace_doubles erodeLoop gen_erode_loop.2 conv pruningPitch fuel pruningPitch gen_buffer_loop.2.1
    gen_buffer_loop.2.2.1 i x h

example : retryLoop erodeLoop (fun _ => false) pruningPitch 4 pruningPitch = some 4 := by decide +kernel
example : retryTrace erodeLoop (fun p => p == 3/5) pruningPitch 9 pruningPitch = [3/20, 3/10, 3/5] := by
  decide +kernel
example : retryLoop ⟨false, false, false⟩ (fun _ => false) (3/20) 50 (3/20) = none := by decide +kernel

/-! ## conditioning -/

/-- pruning to a region containing every accepted sample leaves the conditional distribution unchanged -/
theorem prune_preserves_cond {Ω : Type} (d : Pruning.Dist Ω) (keep acc E : Ω → Bool) (c : Rat) (hc : c ≠ 0)
    (h : ∀ ω, acc ω = true → keep ω = true) :
    ((d.restrict keep).scale c).cond acc E = d.cond acc E :=
  Pruning.prune_preserves_cond d keep acc E c hc h

/-- six equally likely positions 0..5, accepted: {2,3}; pruned region {1,2,3,4}: P(position = 2 | accepted) = 1/2 -/
example :
    let d : Pruning.Dist Nat := [(0, 1), (1, 1), (2, 1), (3, 1), (4, 1), (5, 1)]
    let acc : Nat → Bool := fun n => n == 2 || n == 3
    let keep : Nat → Bool := fun n => 1 ≤ n && n ≤ 4
    ((d.restrict keep).scale (3/2)).cond acc (· == 2) = 1/2 ∧ d.cond acc (· == 2) = 1/2 := by
  decide +kernel

theorem prune_no_new_scenes {Ω : Type} (d : Pruning.Dist Ω) (keep : Ω → Bool) (c : Rat) (x : Ω × Rat)
    (hx : x ∈ (d.restrict keep).scale c) : ∃ w, (x.1, w) ∈ d ∧ keep x.1 = true ∧ x.2 = c * w :=
  Pruning.prune_no_new_scenes d keep c x hx

end Scenic.C08
