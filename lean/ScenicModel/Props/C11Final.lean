import ScenicModel.Props.C11Sem
/-!
# C11 — definite verdicts are final; early rejection; Scenic's acceptance rule

(B) `definite_final_*`: on the fragment `okZero c true`, a `TRUE` (4) verdict after `n` steps means every
    continuation satisfies the formula, a `FALSE` (1) verdict means no continuation does.
(C) `always_prop_false_immediate`: `always p` with `p` non-temporal is `FALSE` as soon as `p` is false.
(E) `accept_iff`, `early_reject_hopeless`, `scene_reject_consistent`, `dynamic_*`: the rule of
    `DynamicScenario._step` / `_stop`.
-/
namespace Scenic.LTL

theorem Agree.mono {σ σ' : Trace} {n k : Nat} (h : Agree σ σ' n) (hk : k ≤ n) : Agree σ σ' k :=
  fun t ht => h t (by omega)

theorem Agree.refl (σ : Trace) (n : Nat) : Agree σ σ n := fun _ _ => rfl

/-! ## (B) finality -/

section final
variable (c : MonCfg) (σ σ' : Trace) (n m : Nat)

/-- the statement proved by induction: both definite verdicts are final at index `i` -/
def FinalAt (f : F) (i : Nat) : Prop :=
  (evalAt c σ n f i = 4 → sat σ' m f i = true) ∧ (evalAt c σ n f i = 1 → sat σ' m f i = false)

theorem until_final (hag : Agree σ σ' n) (hnm : n ≤ m) (a b : F) (i : Nat) (hn : i < n)
    (hhi : ∀ k, i ≤ k → k < n → c.hi i k (n - 1) = k) (hb : b.prop = true)
    (iha : ∀ j, j < n → FinalAt c σ σ' n m a j) : FinalAt c σ σ' n m (.until a b) i := by
  unfold FinalAt
  simp only [evalAt, sat]
  unfold untilVal
  cases h : findFrom (fun k => truthy (evalAt c σ n b k)) i (n - 1 + 1 - i) with
  | none => simp
  | some k =>
    simp only
    obtain ⟨h1, h2, h3, h4⟩ := findFrom_some h
    rw [window hn] at h2
    rw [hhi k h1 h2]
    simp only [truthy, decide_eq_true_eq] at h3
    have hbk : ∀ k', k' < n → sat σ' m b k' = b.pval (σ k') := fun k' hk' => by
      rw [sat_prop σ' m b hb, hag k' hk']
    constructor
    · intro hv
      have h4' : 4 ≤ minRange (fun j => evalAt c σ n a j) (evalAt c σ n b k) i k := by omega
      rw [le_minRange_iff] at h4'
      rw [anyRange_iff]
      refine ⟨k, h1, by omega, ?_⟩
      rw [Bool.and_eq_true, allRange_iff]
      constructor
      · rw [hbk k h2]
        have := evalAt_prop c σ n b hb k
        cases hp : b.pval (σ k) with
        | true => rfl
        | false => rw [hp] at this; simp [b4] at this; omega
      · intro j a1 a2
        have hj := h4'.2 j a1 a2
        have := (evalAt_range c σ n a j).2
        exact (iha j (by omega)).1 (by omega)
    · intro hv
      have h1' : minRange (fun j => evalAt c σ n a j) (evalAt c σ n b k) i k ≤ 1 := by omega
      rw [minRange_le_iff] at h1'
      rcases h1' with hbad | ⟨j, a1, a2, hj⟩
      · omega
      · have hj1 : evalAt c σ n a j = 1 := by have := (evalAt_range c σ n a j).1; omega
        have hsa : sat σ' m a j = false := (iha j (by omega)).2 hj1
        rw [anyRange_false_iff]
        intro k' b1 b2
        by_cases hk' : k' ≤ j
        · -- the right operand was not truthy at k' < k, and it is non-temporal: it stays false
          have hnt := h4 k' b1 (by omega)
          simp only [truthy, decide_eq_false_iff_not] at hnt
          have hev := evalAt_prop c σ n b hb k'
          have : b.pval (σ k') = false := by
            cases hp : b.pval (σ k') with
            | false => rfl
            | true => rw [hp] at hev; simp [b4] at hev; omega
          rw [hbk k' (by omega), this, Bool.false_and]
        · have : allRange (fun j => sat σ' m a j) i k' = false := by
            cases hall : allRange (fun j => sat σ' m a j) i k' with
            | false => rfl
            | true =>
              rw [allRange_iff] at hall
              have := hall j a1 (by omega)
              rw [hsa] at this
              cases this
          rw [this, Bool.and_false]

theorem eventually_final (hnm : n ≤ m) (f : F) (i : Nat) (hn : i < n)
    (ih : ∀ k, k < n → FinalAt c σ σ' n m f k) : FinalAt c σ σ' n m (.eventually f) i := by
  unfold FinalAt
  simp only [evalAt, sat]
  rcases ev_cases (c := c) (r := fun k => evalAt c σ n f k) hn (fun k => (evalAt_range c σ n f k).2) with h2 | ⟨k, h1, h2, h3, h4⟩
  · rw [h2]; simp
  · rw [h4]
    constructor
    · intro hv
      rw [anyRange_iff]
      exact ⟨k, h1, by omega, (ih k h2).1 hv⟩
    · intro hv; omega

theorem always_final (hnm : n ≤ m) (f : F) (i : Nat) (hn : i < n)
    (ih : ∀ k, k < n → FinalAt c σ σ' n m f k) : FinalAt c σ σ' n m (.always f) i := by
  unfold FinalAt
  simp only [evalAt, sat]
  have hr : ∀ k, 5 - evalAt c σ n f k ≤ 4 := fun k => by have := evalAt_range c σ n f k; omega
  rcases ev_cases (c := c) (r := fun k => 5 - evalAt c σ n f k) hn hr with h2 | ⟨k, h1, h2, h3, h4⟩
  · rw [h2]; simp
  · rw [h4]
    constructor
    · intro hv; omega
    · intro hv
      have hk : evalAt c σ n f k = 1 := by have := evalAt_range c σ n f k; omega
      have := (ih k h2).2 hk
      cases hall : allRange (fun k => sat σ' m f k) i m with
      | false => rfl
      | true =>
        rw [allRange_iff] at hall
        have := hall k h1 (by omega)
        simp_all

/-- definite verdicts are final at every index -/
theorem definite_final_all (hag : Agree σ σ' n) (hnm : n ≤ m) : ∀ (f : F), f.okAll c true = true →
    ∀ i, i < n → FinalAt c σ σ' n m f i
  | .atom a, _, i, hi => by
    unfold FinalAt
    simp only [evalAt, sat, ← hag i hi]
    cases σ i a <;> simp [b4]
  | .tt, _, _, _ => by simp [FinalAt, evalAt, sat]
  | .ff, _, _, _ => by simp [FinalAt, evalAt, sat]
  | .not f, h, i, hi => by
    simp only [F.okAll] at h
    have ih := definite_final_all hag hnm f h i hi
    unfold FinalAt at ih ⊢
    simp only [evalAt, sat]
    have := evalAt_range c σ n f i
    constructor
    · intro hv; rw [ih.2 (by omega)]; rfl
    · intro hv; rw [ih.1 (by omega)]; rfl
  | .and a b, h, i, hi => by
    simp only [F.okAll, Bool.and_eq_true] at h
    have iha := definite_final_all hag hnm a h.1 i hi
    have ihb := definite_final_all hag hnm b h.2 i hi
    unfold FinalAt at iha ihb ⊢
    simp only [evalAt, sat]
    have := evalAt_range c σ n a i; have := evalAt_range c σ n b i
    constructor
    · intro hv; rw [iha.1 (by omega), ihb.1 (by omega)]; rfl
    · intro hv
      by_cases h1 : evalAt c σ n a i = 1
      · rw [iha.2 h1]; rfl
      · rw [ihb.2 (by omega)]; simp
  | .or a b, h, i, hi => by
    simp only [F.okAll, Bool.and_eq_true] at h
    have iha := definite_final_all hag hnm a h.1 i hi
    have ihb := definite_final_all hag hnm b h.2 i hi
    unfold FinalAt at iha ihb ⊢
    simp only [evalAt, sat]
    have := evalAt_range c σ n a i; have := evalAt_range c σ n b i
    constructor
    · intro hv
      by_cases h1 : evalAt c σ n a i = 4
      · rw [iha.1 h1]; rfl
      · rw [ihb.1 (by omega)]; simp
    · intro hv; rw [iha.2 (by omega), ihb.2 (by omega)]; rfl
  | .implies a b, h, i, hi => by
    simp only [F.okAll, Bool.and_eq_true] at h
    have iha := definite_final_all hag hnm a h.1 i hi
    have ihb := definite_final_all hag hnm b h.2 i hi
    unfold FinalAt at iha ihb ⊢
    simp only [evalAt, sat]
    have := evalAt_range c σ n a i; have := evalAt_range c σ n b i
    constructor
    · intro hv
      by_cases h1 : evalAt c σ n a i = 1
      · rw [iha.2 h1]; rfl
      · rw [ihb.1 (by omega)]; simp
    · intro hv; rw [iha.1 (by omega), ihb.2 (by omega)]; rfl
  | .next f, h, i, hi => by
    simp only [F.okAll] at h
    unfold FinalAt
    simp only [evalAt, sat]
    by_cases hl : i + 1 > n - 1
    · simp [hl]
    · simp only [hl, if_false]
      have ih := definite_final_all hag hnm f h (i + 1) (by omega)
      unfold FinalAt at ih
      constructor
      · intro hv; rw [ih.1 hv]; simp; omega
      · intro hv; rw [ih.2 hv]; simp
  | .until a b, h, i, hi => by
    simp only [F.okAll, Bool.and_eq_true, Bool.not_eq_true', Bool.or_eq_true, Bool.true_eq_false, false_or] at h
    exact until_final c σ σ' n m hag hnm a b i hi (fun k _ hk => hi_exact c i k n (Or.inr h.1.1.1) hk) h.2
      (fun j hj => definite_final_all hag hnm a h.1.1.2 j hj)
  | .eventually f, h, i, hi => by
    simp only [F.okAll] at h
    exact eventually_final c σ σ' n m hnm f i hi (fun k hk => definite_final_all hag hnm f h k hk)
  | .always f, h, i, hi => by
    simp only [F.okAll] at h
    exact always_final c σ σ' n m hnm f i hi (fun k hk => definite_final_all hag hnm f h k hk)

/-- **false_is_final / true_is_final** at index 0, on the fragment `okZero c true` -/
theorem definite_final_zero (hag : Agree σ σ' n) (hnm : n ≤ m) (hn : 0 < n) : ∀ (f : F), f.okZero c true = true →
    FinalAt c σ σ' n m f 0
  | .atom a, h => definite_final_all c σ σ' n m hag hnm _ (by simpa [F.okZero] using h) 0 hn
  | .tt, h => definite_final_all c σ σ' n m hag hnm _ (by simpa [F.okZero] using h) 0 hn
  | .ff, h => definite_final_all c σ σ' n m hag hnm _ (by simpa [F.okZero] using h) 0 hn
  | .next f, h => definite_final_all c σ σ' n m hag hnm _ (by simpa [F.okZero] using h) 0 hn
  | .eventually f, h => definite_final_all c σ σ' n m hag hnm _ (by simpa [F.okZero] using h) 0 hn
  | .always f, h => definite_final_all c σ σ' n m hag hnm _ (by simpa [F.okZero] using h) 0 hn
  | .not f, h => by
    simp only [F.okZero] at h
    have ih := definite_final_zero hag hnm hn f h
    unfold FinalAt at ih ⊢
    simp only [evalAt, sat]
    have := evalAt_range c σ n f 0
    constructor
    · intro hv; rw [ih.2 (by omega)]; rfl
    · intro hv; rw [ih.1 (by omega)]; rfl
  | .and a b, h => by
    simp only [F.okZero, Bool.and_eq_true] at h
    have iha := definite_final_zero hag hnm hn a h.1
    have ihb := definite_final_zero hag hnm hn b h.2
    unfold FinalAt at iha ihb ⊢
    simp only [evalAt, sat]
    have := evalAt_range c σ n a 0; have := evalAt_range c σ n b 0
    constructor
    · intro hv; rw [iha.1 (by omega), ihb.1 (by omega)]; rfl
    · intro hv
      by_cases h1 : evalAt c σ n a 0 = 1
      · rw [iha.2 h1]; rfl
      · rw [ihb.2 (by omega)]; simp
  | .or a b, h => by
    simp only [F.okZero, Bool.and_eq_true] at h
    have iha := definite_final_zero hag hnm hn a h.1
    have ihb := definite_final_zero hag hnm hn b h.2
    unfold FinalAt at iha ihb ⊢
    simp only [evalAt, sat]
    have := evalAt_range c σ n a 0; have := evalAt_range c σ n b 0
    constructor
    · intro hv
      by_cases h1 : evalAt c σ n a 0 = 4
      · rw [iha.1 h1]; rfl
      · rw [ihb.1 (by omega)]; simp
    · intro hv; rw [iha.2 (by omega), ihb.2 (by omega)]; rfl
  | .implies a b, h => by
    simp only [F.okZero, Bool.and_eq_true] at h
    have iha := definite_final_zero hag hnm hn a h.1
    have ihb := definite_final_zero hag hnm hn b h.2
    unfold FinalAt at iha ihb ⊢
    simp only [evalAt, sat]
    have := evalAt_range c σ n a 0; have := evalAt_range c σ n b 0
    constructor
    · intro hv
      by_cases h1 : evalAt c σ n a 0 = 1
      · rw [iha.2 h1]; rfl
      · rw [ihb.1 (by omega)]; simp
    · intro hv; rw [iha.1 (by omega), ihb.2 (by omega)]; rfl
  | .until a b, h => by
    simp only [F.okZero, Bool.and_eq_true, Bool.not_eq_true', Bool.or_eq_true, Bool.true_eq_false, false_or] at h
    exact until_final c σ σ' n m hag hnm a b 0 hn (fun k _ hk => hi_exact c 0 k n (Or.inl rfl) hk) h.2
      (fun j hj => definite_final_all c σ σ' n m hag hnm a h.1.1 j hj)

end final

/-- **false_is_final**: a FALSE verdict after `n` steps ⇒ no continuation (any trace agreeing on the first
    `n` steps, of any length `m ≥ n`) satisfies the formula -/
theorem false_is_final (c : MonCfg) (σ σ' : Trace) (n m : Nat) (f : F) (hf : f.okZero c true = true)
    (hn : 0 < n) (hag : Agree σ σ' n) (hnm : n ≤ m) (hv : evalAt c σ n f 0 = 1) : sat σ' m f 0 = false :=
  (definite_final_zero c σ σ' n m hag hnm hn f hf).2 hv

/-- **true_is_final**: a TRUE verdict ⇒ every continuation satisfies the formula -/
theorem true_is_final (c : MonCfg) (σ σ' : Trace) (n m : Nat) (f : F) (hf : f.okZero c true = true)
    (hn : 0 < n) (hag : Agree σ σ' n) (hnm : n ≤ m) (hv : evalAt c σ n f 0 = 4) : sat σ' m f 0 = true :=
  (definite_final_zero c σ σ' n m hag hnm hn f hf).1 hv

/-! ## (C) `always` / `eventually` of a non-temporal condition react at once -/

/-- `always p`, `p` non-temporal: FALSE in the very step in which `p` is (or has been) false — for every
    monitor configuration -/
theorem always_prop_false_immediate (c : MonCfg) (σ : Trace) (n : Nat) (p : F) (hp : p.prop = true)
    (k : Nat) (hk : k < n) (hfalse : p.pval (σ k) = false) : evalAt c σ n (.always p) 0 = 1 := by
  simp only [evalAt]
  have hr : ∀ k, 5 - evalAt c σ n p k ≤ 4 := fun k => by have := evalAt_range c σ n p k; omega
  rw [untilVal_ev hr]
  have hit : (fun k => truthy (5 - evalAt c σ n p k)) k = true := by
    simp [evalAt_prop c σ n p hp, hfalse, b4, truthy]
  obtain ⟨k', hk', _⟩ := findFrom_of_hit (p := fun k => truthy (5 - evalAt c σ n p k)) (i := 0)
    (fuel := n - 1 + 1 - 0) (Nat.zero_le k) (by omega) hit
  rw [hk']
  simp only
  have h3 := (findFrom_some hk').2.2.1
  simp only [evalAt_prop c σ n p hp, truthy, decide_eq_true_eq] at h3 ⊢
  cases hpv : p.pval (σ k') with
  | false => simp [b4]
  | true => rw [hpv] at h3; simp [b4] at h3

/-- … and is PRESUMABLY_TRUE (3) as long as `p` has held in every step so far -/
theorem always_prop_presumably_true (c : MonCfg) (σ : Trace) (n : Nat) (p : F) (hp : p.prop = true) (hn : 0 < n)
    (hall : ∀ k, k < n → p.pval (σ k) = true) : evalAt c σ n (.always p) 0 = 3 := by
  simp only [evalAt]
  have hr : ∀ k, 5 - evalAt c σ n p k ≤ 4 := fun k => by have := evalAt_range c σ n p k; omega
  rw [untilVal_ev hr]
  cases h : findFrom (fun k => truthy (5 - evalAt c σ n p k)) 0 (n - 1 + 1 - 0) with
  | none => rfl
  | some k =>
    obtain ⟨_, h2, h3, _⟩ := findFrom_some h
    simp [evalAt_prop c σ n p hp, hall k (by omega), b4, truthy] at h3

/-- `eventually p`, `p` non-temporal: TRUE as soon as `p` has been true -/
theorem eventually_prop_true_immediate (c : MonCfg) (σ : Trace) (n : Nat) (p : F) (hp : p.prop = true)
    (k : Nat) (hk : k < n) (htrue : p.pval (σ k) = true) : evalAt c σ n (.eventually p) 0 = 4 := by
  simp only [evalAt]
  rw [untilVal_ev (fun k => (evalAt_range c σ n p k).2)]
  have hit : (fun k => truthy (evalAt c σ n p k)) k = true := by
    simp [evalAt_prop c σ n p hp, htrue, b4, truthy]
  obtain ⟨k', hk', _⟩ := findFrom_of_hit (p := fun k => truthy (evalAt c σ n p k)) (i := 0)
    (fuel := n - 1 + 1 - 0) (Nat.zero_le k) (by omega) hit
  rw [hk']
  simp only
  have h3 := (findFrom_some hk').2.2.1
  simp only [evalAt_prop c σ n p hp, truthy, decide_eq_true_eq] at h3 ⊢
  cases hpv : p.pval (σ k') with
  | true => simp [b4]
  | false => rw [hpv] at h3; simp [b4] at h3

/-! ## (E) Scenic's rule -/

section rule
variable (c : MonCfg) (R : Rule)

theorem run_accepted_iff (f : F) (σ : Trace) (N : Nat) (hN : 0 < N) :
    run c R f σ N = .accepted ↔
      (∀ t, t < N → R.stepReject.contains (evalAt c σ (t + 1) f 0) = false) ∧
        R.stopReject.contains (evalAt c σ N f 0) = false := by
  unfold run
  cases h : findFrom (fun t => R.stepReject.contains (evalAt c σ (t + 1) f 0)) 0 N with
  | some t =>
    simp only
    obtain ⟨_, h2, h3, _⟩ := findFrom_some h
    constructor
    · intro hh; cases hh
    · rintro ⟨hall, _⟩
      have := hall t (by omega)
      rw [this] at h3; cases h3
  | none =>
    have hnone := findFrom_none h
    have hN' : ¬ N = 0 := by omega
    simp only [hN', if_false]
    constructor
    · intro hh
      refine ⟨fun t ht => hnone t (Nat.zero_le t) (by omega), ?_⟩
      cases hc : R.stopReject.contains (evalAt c σ N f 0) with
      | false => rfl
      | true => rw [hc] at hh; simp at hh
    · rintro ⟨_, hs⟩
      rw [hs]; simp

theorem run_rejectedAt (f : F) (σ : Trace) (N t : Nat) (hN : 0 < N) (h : run c R f σ N = .rejectedAt t) :
    (t < N ∧ R.stepReject.contains (evalAt c σ (t + 1) f 0) = true ∧
        ∀ s, s < t → R.stepReject.contains (evalAt c σ (s + 1) f 0) = false) ∨
      (t = N - 1 ∧ R.stopReject.contains (evalAt c σ N f 0) = true ∧
        ∀ s, s < N → R.stepReject.contains (evalAt c σ (s + 1) f 0) = false) := by
  unfold run at h
  cases hf : findFrom (fun t => R.stepReject.contains (evalAt c σ (t + 1) f 0)) 0 N with
  | some t' =>
    rw [hf] at h
    simp only [Outcome.rejectedAt.injEq] at h
    subst h
    obtain ⟨_, h2, h3, h4⟩ := findFrom_some hf
    exact Or.inl ⟨by omega, h3, fun s hs => h4 s (Nat.zero_le s) hs⟩
  | none =>
    rw [hf] at h
    have hN' : ¬ N = 0 := by omega
    simp only [hN', if_false] at h
    have hnone := findFrom_none hf
    right
    cases hc : R.stopReject.contains (evalAt c σ N f 0) with
    | false => rw [hc] at h; simp at h
    | true =>
      rw [hc] at h
      simp only [if_true, Outcome.rejectedAt.injEq] at h
      exact ⟨h.symm, rfl, fun s hs => hnone s (Nat.zero_le s) (by omega)⟩

theorem contains_one (v : Nat) : ([1] : List Nat).contains v = decide (v = 1) := by
  by_cases h : v = 1 <;> simp [h]

theorem contains_one_two (v : Nat) (h1 : 1 ≤ v) : ([1, 2] : List Nat).contains v = !truthy v := by
  unfold truthy
  by_cases h : 3 ≤ v
  · have a : ¬ v = 1 := by omega
    have b : ¬ v = 2 := by omega
    simp [h, a, b]
  · have : v = 1 ∨ v = 2 := by omega
    rcases this with rfl | rfl <;> simp

/-- **accept_iff**: with the canonical rule, on the fragment where the monitor is exact and definite verdicts
    are final, a requirement in force for `N ≥ 1` steps is accepted exactly when the `N`-step trace
    satisfies the formula -/
theorem accept_iff (hR : R.Canonical) (f : F) (h0 : f.okZero c false = true) (h1 : f.okZero c true = true)
    (σ : Trace) (N : Nat) (hN : 0 < N) : run c R f σ N = .accepted ↔ sat σ N f 0 = true := by
  obtain ⟨hs, hp, _⟩ := hR
  rw [run_accepted_iff c R f σ N hN, hs, hp]
  have hfin := verdict_iff_sat_zero c σ N hN f h0
  rw [contains_one_two _ (evalAt_range c σ N f 0).1]
  constructor
  · rintro ⟨_, hl⟩
    apply hfin.1
    simp [truthy] at hl
    omega
  · intro hsat
    constructor
    · intro t ht
      rw [contains_one]
      simp only [decide_eq_false_iff_not]
      intro hv
      have := false_is_final c σ σ (t + 1) N f h1 (by omega) (Agree.refl σ _) (by omega) hv
      rw [hsat] at this; cases this
    · have := hfin.2 hsat
      simp [truthy, this]

/-- **early_reject_hopeless**: a rejection before the last step happens only when no continuation of the
    steps seen so far could satisfy the formula -/
theorem early_reject_hopeless (hR : R.Canonical) (f : F) (h1 : f.okZero c true = true) (σ : Trace) (N t : Nat)
    (hN : 0 < N) (h : run c R f σ N = .rejectedAt t) (ht : t + 1 < N) :
    ∀ (σ' : Trace) (m : Nat), Agree σ σ' (t + 1) → t + 1 ≤ m → sat σ' m f 0 = false := by
  obtain ⟨hs, _, _⟩ := hR
  intro σ' m hag hm
  rcases run_rejectedAt c R f σ N t hN h with ⟨_, hrej, _⟩ | ⟨ht', _, _⟩
  · rw [hs, contains_one] at hrej
    simp only [decide_eq_true_eq] at hrej
    exact false_is_final c σ σ' (t + 1) m f h1 (by omega) hag hm hrej
  · omega

/-- a rejection in the last step of an exact formula means the whole trace does not satisfy it -/
theorem reject_implies_unsat (hR : R.Canonical) (f : F) (h0 : f.okZero c false = true)
    (h1 : f.okZero c true = true) (σ : Trace) (N t : Nat) (hN : 0 < N) (h : run c R f σ N = .rejectedAt t) :
    sat σ N f 0 = false := by
  cases hs : sat σ N f 0 with
  | false => rfl
  | true =>
    have := (accept_iff c R hR f h0 h1 σ N hN).2 hs
    rw [this] at h; cases h

/-- the initial-scene check never rejects a scene whose simulation would not be rejected in step 0 -/
theorem scene_reject_consistent (hR : R.Canonical) (f : F) (σ : Trace) (N : Nat) (hN : 0 < N)
    (h : sceneOK c R f σ = false) : run c R f σ N = .rejectedAt 0 := by
  obtain ⟨hs, _, hsc⟩ := hR
  unfold sceneOK at h
  rw [hsc] at h
  simp only [Bool.not_eq_false'] at h
  unfold run
  cases N with
  | zero => omega
  | succ N =>
    unfold findFrom
    rw [hs]
    simp only [Nat.zero_add]
    rw [h]
    simp

/-- for a non-temporal formula the rule only looks at the first step: same outcome as evaluating it once -/
theorem run_prop (hR : R.Canonical) (f : F) (hp : f.prop = true) (σ : Trace) (N : Nat) (hN : 0 < N) :
    run c R f σ N = if f.pval (σ 0) then .accepted else .rejectedAt 0 := by
  obtain ⟨hs, hpst, _⟩ := hR
  have hv : ∀ n, evalAt c σ n f 0 = b4 (f.pval (σ 0)) := fun n => evalAt_prop c σ n f hp 0
  cases hpv : f.pval (σ 0) with
  | true =>
    simp only [if_true]
    rw [run_accepted_iff c R f σ N hN, hs, hpst]
    simp only [hv, hpv, b4]
    exact ⟨fun _ _ => by decide, by decide⟩
  | false =>
    simp only [Bool.false_eq_true, if_false]
    unfold run
    cases N with
    | zero => omega
    | succ N =>
      unfold findFrom
      rw [hs]
      simp [hv, hpv, b4]

/-- a non-temporal `require` executed while the simulation runs (evaluated on the spot) behaves exactly as
    if it were monitored, provided every node can be evaluated -/
theorem immediate_eq_run (hR : R.Canonical) (f : F) (hp : f.prop = true) (he : f.evaluable R.impliesEval = true)
    (σ : Trace) (N : Nat) (hN : 0 < N) : runImmediate R f σ = run c R f σ N := by
  rw [run_prop c R hR f hp σ N hN]
  unfold runImmediate
  rw [he]; rfl

theorem evaluable_of_impliesEval : ∀ (f : F), f.prop = true → f.evaluable true = true
  | .atom _, _ | .tt, _ | .ff, _ => rfl
  | .not f, h => by simp only [F.prop] at h; simpa [F.evaluable] using evaluable_of_impliesEval f h
  | .and a b, h | .or a b, h | .implies a b, h => by
    simp only [F.prop, Bool.and_eq_true] at h
    simp [F.evaluable, evaluable_of_impliesEval a h.1, evaluable_of_impliesEval b h.2]
  | .next _, h | .until _ _, h | .eventually _, h | .always _, h => by simp [F.prop] at h

/-- requirement in the setup block of a scenario started at run time -/
theorem runtime_setup_accept_iff (hR : R.Canonical) (hI : R.impliesEval = true) (f : F)
    (h0 : f.okZero c false = true) (h1 : f.okZero c true = true) (σ : Trace) (N : Nat) (hN : 0 < N) :
    runRuntimeSetup c R f σ N = .accepted ↔ sat σ N f 0 = true := by
  unfold runRuntimeSetup
  cases hp : f.prop with
  | true =>
    simp only [if_true]
    rw [immediate_eq_run c R hR f hp (by rw [hI]; exact evaluable_of_impliesEval f hp) σ N hN]
    exact accept_iff c R hR f h0 h1 σ N hN
  | false => simp only [Bool.false_eq_true, if_false]; exact accept_iff c R hR f h0 h1 σ N hN

/-- a requirement registered at run time and tested on its first verdict like on every later one goes through
    exactly the checks of a requirement that was there from the start -/
theorem runRegistered_eq_run (f : F) (σ : Trace) (N : Nat) (hN : 0 < N) :
    runRegistered c R R.stepReject f σ N = run c R f σ N := by
  unfold runRegistered run
  cases N with
  | zero => omega
  | succ n =>
    have hn : ¬ (n + 1 = 0) := by omega
    simp only [Nat.add_sub_cancel, hn, if_false]
    have hsplit : findFrom (fun t => R.stepReject.contains (evalAt c σ (t + 1) f 0)) 0 (n + 1) =
        if R.stepReject.contains (evalAt c σ 1 f 0) = true then some 0
        else findFrom (fun t => R.stepReject.contains (evalAt c σ (t + 1) f 0)) 1 n := by
      rw [findFrom]
    rw [hsplit]
    cases h0 : R.stepReject.contains (evalAt c σ 1 f 0) with
    | true => simp only [if_true]
    | false => simp only [Bool.false_eq_true, if_false]

/-- a `require` executed in a running scenario (compose block): same criterion, counted from the step in which
    the statement executes -/
theorem dynamic_require_monitored (hR : R.Canonical) (hD : R.RuntimeCanonical) (f : F)
    (h0 : f.okZero c false = true) (h1 : f.okZero c true = true) (σ : Trace) (N : Nat) (hN : 0 < N) :
    runDynamic c R f σ N = .accepted ↔ sat σ N f 0 = true := by
  obtain ⟨hd, hI⟩ := hD
  unfold runDynamic
  cases hp : f.prop with
  | true =>
    simp only [if_true]
    rw [immediate_eq_run c R hR f hp (by rw [hI]; exact evaluable_of_impliesEval f hp) σ N hN]
    exact accept_iff c R hR f h0 h1 σ N hN
  | false =>
    simp only [Bool.false_eq_true, if_false, hd]
    rw [runRegistered_eq_run c R f σ N hN]
    exact accept_iff c R hR f h0 h1 σ N hN

/-- … and it is rejected before the end of its scenario only when no continuation could satisfy it -/
theorem dynamic_early_reject_hopeless (hR : R.Canonical) (hD : R.RuntimeCanonical) (f : F) (hp : f.prop = false)
    (h1 : f.okZero c true = true) (σ : Trace) (N t : Nat) (hN : 0 < N)
    (h : runDynamic c R f σ N = .rejectedAt t) (ht : t + 1 < N) :
    ∀ (σ' : Trace) (m : Nat), Agree σ σ' (t + 1) → t + 1 ≤ m → sat σ' m f 0 = false := by
  unfold runDynamic at h
  simp only [hp, Bool.false_eq_true, if_false, hD.1] at h
  rw [runRegistered_eq_run c R f σ N hN] at h
  exact early_reject_hopeless c R hR f h1 σ N t hN h ht

/-- values instead of Booleans: `evaluate()` of a non-temporal tree is truthy exactly when the Boolean
    reading of the formula holds of the truth values of the atoms -/
theorem evalPy_truth (v : Nat → PyVal) : ∀ (f : F), f.prop = true →
    (f.evalPy v).truth = f.pval (fun a => (v a).truth)
  | .atom _, _ => rfl
  | .tt, _ => rfl
  | .ff, _ => rfl
  | .not f, h => by
    simp only [F.prop] at h
    simp [F.evalPy, F.pval, PyVal.ofBool, evalPy_truth v f h]
  | .and a b, h => by
    simp only [F.prop, Bool.and_eq_true] at h
    simp [F.evalPy, F.pval, PyVal.ofBool, evalPy_truth v a h.1, evalPy_truth v b h.2]
  | .or a b, h => by
    simp only [F.prop, Bool.and_eq_true] at h
    simp [F.evalPy, F.pval, PyVal.ofBool, evalPy_truth v a h.1, evalPy_truth v b h.2]
  | .implies a b, h => by
    simp only [F.prop, Bool.and_eq_true] at h
    simp only [F.evalPy, F.pval]
    rw [← evalPy_truth v a h.1, ← evalPy_truth v b h.2]
    cases (a.evalPy v).truth <;> simp [PyVal.ofBool]
  | .next _, h | .until _ _, h | .eventually _, h | .always _, h => by simp [F.prop] at h

/-- evaluating on the returned values gives the outcome of evaluating on their truth values -/
theorem runImmediateV_eq (f : F) (hp : f.prop = true) (v : Nat → PyVal) (σ : Trace)
    (hσ : ∀ a, σ 0 a = (v a).truth) : runImmediateV R f v = runImmediate R f σ := by
  unfold runImmediateV runImmediate
  rw [evalPy_truth v f hp]
  have : (fun a => (v a).truth) = σ 0 := by funext a; exact (hσ a).symm
  rw [this]

/-- with the atoms' values coerced by `bool()` the monitor sees exactly their truth values (`None` included) -/
theorem atomInput_coerced (v : PyVal) : atomInput true v = some v.truth := rfl

/-- without the coercion a `None` goes missing from the atom's history -/
theorem atomInput_raw_none (v : PyVal) (h : v.isNone = true) : atomInput false v = none := by
  simp [atomInput, h]

end rule

end Scenic.LTL
