import ScenicModel.Model.Solid
import ScenicModel.Props.C04Planar
import Mathlib.Tactic.Linarith

/-!
# C04 (round 4) — volume against surface, volume against footprint (with the slab cache), region in region

* `intersectsSurface_correct` — the three passes of `MeshVolumeRegion.intersects(MeshSurfaceRegion)` return
  `A ∩ S ≠ ∅` through every exit, under `SurfContract`.
* `approxBound_covers`, `footprintSlab_covers`, `slabHistory_covers` — **for every cache state and every history
  of queries** against one footprint, the slab that `approxBoundFootprint` hands back (re-used or rebuilt)
  covers the vertical extent of the mesh it was asked for; `approxBound_cache` — the cache always holds the slab
  just returned.
* `intersectsFootprint_correct` — hence cutting the footprint cylinder `F × ℝ` to that slab does not change
  whether it meets a solid lying in `[lo, hi]`: the answer of the recursive volume/volume call is the ground truth.
* `containsRegionInner_correct` — `reg.difference(self)` empty ⇔ `reg ⊆ self`.
-/
namespace Scenic.Solid
open Set

/-! ## volume against surface -/

structure SurfCfg.Sound (c : SurfCfg) : Prop where
  p1Ret : c.p1Ret = false
  p2Ret : c.p2Ret = true
  p3Negate : c.p3Negate = false

/-- `A` the solid of the volume, `S` the surface, `v0` the first vertex of the surface mesh -/
structure SurfContract {β : Type*} (A S : Set β) (v0 : β) (o : SurfObs) : Prop where
  bbox : o.bbOverlap = false → Disjoint A S
  collideSound : o.collide = true → (A ∩ S).Nonempty
  /-- without a collision the (connected) surface lies wholly inside or wholly outside the volume -/
  allOrNone : o.collide = false → S ⊆ A ∨ Disjoint A S
  first : v0 ∈ S
  hasFirst : o.hasFirst = true ↔ v0 ∈ A

/-- **Every exit of `MeshVolumeRegion.intersects(MeshSurfaceRegion)` returns the ground truth.** -/
theorem intersectsSurface_correct {β : Type*} (c : SurfCfg) (hc : c.Sound) {A S : Set β} {v0 : β} {o : SurfObs}
    (h : SurfContract A S v0 o) : (intersectsSurface c o).1 = true ↔ (A ∩ S).Nonempty := by
  unfold intersectsSurface
  by_cases h1 : o.bbOverlap = true
  · by_cases h2 : o.collide = true
    · simp only [h1, h2, Bool.not_true, Bool.false_eq_true, if_false, if_true, hc.p2Ret, true_iff]
      exact h.collideSound h2
    · have h2' : o.collide = false := by simpa using h2
      simp only [h1, h2', Bool.not_true, Bool.false_eq_true, if_false, hc.p3Negate]
      rw [h.hasFirst]
      constructor
      · intro hv; exact ⟨v0, hv, h.first⟩
      · rintro ⟨x, hxA, hxS⟩
        rcases h.allOrNone h2' with hs | hd
        · exact hs h.first
        · exact absurd hxS (Set.disjoint_left.1 hd hxA)
  · have h1' : o.bbOverlap = false := by simpa using h1
    simp only [h1', Bool.not_false, if_true, hc.p1Ret, Bool.false_eq_true, false_iff,
      Set.not_nonempty_iff_eq_empty]
    exact (h.bbox h1').inter_eq

/-! ## the slab of a footprint and its one-entry cache -/

structure SlabCfg.Sound (c : SlabCfg) : Prop where
  heightNonneg : ∀ lo hi, lo ≤ hi → 0 ≤ c.height lo hi
  covers : ∀ lo hi, lo ≤ hi → c.center lo hi - c.height lo hi / 2 ≤ lo ∧ hi ≤ c.center lo hi + c.height lo hi / 2
  cache : ∀ pc ph cz h, c.conn.eval (c.topCmp.eval (c.topLhs pc ph cz h) (c.topRhs pc ph cz h))
      (c.botCmp.eval (c.botLhs pc ph cz h) (c.botRhs pc ph cz h)) = true →
      pc - ph / 2 ≤ cz - h / 2 ∧ cz + h / 2 ≤ pc + ph / 2
  padded : ∀ cz h, 0 ≤ h → h ≤ c.padded cz h

/-- the cache always holds exactly the slab that was just handed back -/
theorem approxBound_cache (c : SlabCfg) (cache : Option (Rat × Rat)) (cz h : Rat) :
    (approxBound c cache cz h).2.1 = some (approxBound c cache cz h).1 := by
  unfold approxBound
  cases cache with
  | none => rfl
  | some p => obtain ⟨pc, ph⟩ := p; dsimp only; split <;> rfl

/-- **Whatever the cache holds, the slab handed back covers the requested one.** -/
theorem approxBound_covers (c : SlabCfg) (hc : c.Sound) (cache : Option (Rat × Rat)) (cz h : Rat) (hh : 0 ≤ h) :
    slabLo (approxBound c cache cz h).1 ≤ cz - h / 2 ∧ cz + h / 2 ≤ slabHi (approxBound c cache cz h).1 := by
  have fresh : slabLo (cz, c.padded cz h) ≤ cz - h / 2 ∧ cz + h / 2 ≤ slabHi (cz, c.padded cz h) := by
    have := hc.padded cz h hh
    unfold slabLo slabHi; dsimp only
    constructor <;> linarith
  unfold approxBound
  cases cache with
  | none => exact fresh
  | some p =>
    obtain ⟨pc, ph⟩ := p
    dsimp only
    split
    · rename_i hit
      have := hc.cache pc ph cz h hit
      unfold slabLo slabHi; dsimp only
      exact this
    · exact fresh

/-- the slab used for a mesh of vertical extent `[lo, hi]` covers `[lo, hi]`, for every cache state -/
theorem footprintSlab_covers (c : SlabCfg) (hc : c.Sound) (cache : Option (Rat × Rat)) (lo hi : Rat) (h : lo ≤ hi) :
    slabLo (footprintSlab c cache lo hi).1 ≤ lo ∧ hi ≤ slabHi (footprintSlab c cache lo hi).1 := by
  have a := approxBound_covers c hc cache (c.center lo hi) (c.height lo hi) (hc.heightNonneg lo hi h)
  have b := hc.covers lo hi h
  unfold footprintSlab
  constructor <;> linarith [a.1, a.2, b.1, b.2]

/-- **For every history of queries against one footprint (any initial cache), the i-th slab covers the i-th mesh.** -/
theorem slabHistory_covers (c : SlabCfg) (hc : c.Sound) (qs : List (Rat × Rat)) :
    ∀ cache, (∀ q ∈ qs, q.1 ≤ q.2) →
      List.Forall₂ (fun q s => slabLo s ≤ q.1 ∧ q.2 ≤ slabHi s) qs (slabHistory c cache qs) := by
  induction qs with
  | nil => intro _ _; exact List.Forall₂.nil
  | cons q rest ih =>
    intro cache hq
    obtain ⟨lo, hi⟩ := q
    unfold slabHistory
    refine List.Forall₂.cons ?_ (ih _ fun q' hq' => hq q' (List.mem_cons_of_mem _ hq'))
    exact footprintSlab_covers c hc cache lo hi (hq (lo, hi) List.mem_cons_self)

/-- `F × [slabLo s, slabHi s]`: what `boundFootprint` extrudes -/
def slabPrism {α : Type*} (F : Set α) (s : Rat × Rat) : Set (α × ℝ) :=
  {x | x.1 ∈ F ∧ ((slabLo s : Rat) : ℝ) ≤ x.2 ∧ x.2 ≤ ((slabHi s : Rat) : ℝ)}

/-- **`MeshVolumeRegion.intersects(PolygonalFootprintRegion)`**: for a solid `A` whose heights lie in `[lo, hi]`
(the vertical bounds of its mesh), any cache state, and any answer `ans` of the recursive volume/volume call that is
right about the bounded footprint, `ans` is right about the footprint cylinder `F × ℝ`. -/
theorem intersectsFootprint_correct {α : Type*} (c : SlabCfg) (hc : c.Sound) (cache : Option (Rat × Rat))
    (lo hi : Rat) (hlh : lo ≤ hi) {A : Set (α × ℝ)} {F : Set α}
    (hA : ∀ x ∈ A, ((lo : Rat) : ℝ) ≤ x.2 ∧ x.2 ≤ ((hi : Rat) : ℝ)) (ans : Bool)
    (hans : ans = true ↔ (A ∩ slabPrism F (footprintSlab c cache lo hi).1).Nonempty) :
    ans = true ↔ (A ∩ cylinder F).Nonempty := by
  rw [hans]
  obtain ⟨h1, h2⟩ := footprintSlab_covers c hc cache lo hi hlh
  have h1' : ((slabLo (footprintSlab c cache lo hi).1 : Rat) : ℝ) ≤ (lo : ℝ) := by exact_mod_cast h1
  have h2' : ((hi : Rat) : ℝ) ≤ ((slabHi (footprintSlab c cache lo hi).1 : Rat) : ℝ) := by exact_mod_cast h2
  constructor
  · rintro ⟨x, hxA, hxF, _⟩; exact ⟨x, hxA, hxF⟩
  · rintro ⟨x, hxA, hxF⟩
    have := hA x hxA
    exact ⟨x, hxA, hxF, by linarith [this.1], by linarith [this.2]⟩

/-! ## region in region -/

structure InnerCfg.Sound (c : InnerCfg) : Prop where
  swapped : c.swapped = false
  negate : c.negate = false

/-- **`MeshVolumeRegion.containsRegionInner(MeshVolumeRegion)` returns `B ⊆ A`** (exact boolean difference) -/
theorem containsRegionInner_correct {β : Type*} (c : InnerCfg) (hc : c.Sound) {A B : Set β} (e1 e2 : Bool)
    (h1 : e1 = true ↔ B \ A = ∅) : containsRegionInner c e1 e2 = true ↔ B ⊆ A := by
  unfold containsRegionInner
  simp only [hc.swapped, hc.negate, Bool.false_eq_true, if_false]
  rw [h1, Set.diff_eq_empty]

end Scenic.Solid
