import ScenicModel.Props.C06Eval

/-!
# C06 (part 5): defaulted properties (`_defaultedProperties` / `constProps`) and `_override`

"... or else the default of the most derived class": which properties fell back to the class default is
recorded by `_resolveSpecifiers` in `_defaultedProperties` (returned as `constProps` after dropping the random
ones).  `Constructible._override` re-runs the resolution with the current values as defaults.
-/
namespace Scenic.C06
open Scenic.Spec

theorem mem_defaulted_iff_get {C : ClassInfo} {S : List Spec} {o : Outcome} (h : resolve C S = .ok o)
    (p : String) : p ∈ defaulted o ↔ ∃ q, get o.assign p = some (.dflt q) := by
  obtain ⟨pre, hpre, _, ha, _, _⟩ := resolve_ok h
  have hnd : (o.assign.map (·.1)).Nodup := by rw [ha]; exact assign_keys_nodup (assignPhase_ok hpre)
  unfold defaulted
  simp only [List.mem_map, List.mem_filter]
  constructor
  · rintro ⟨⟨p', n⟩, ⟨hmem, hd⟩, rfl⟩
    cases n with
    | user _ => simp at hd
    | dflt q => exact ⟨q, get_of_mem_nodup hnd hmem⟩
  · rintro ⟨q, hq⟩
    exact ⟨(p, .dflt q), ⟨mem_of_get hq, rfl⟩, rfl⟩

/-- **A property is defaulted iff the class has a default for it and no given specifier names it** -- whatever
the priorities, the kind (modifying or not) and the order of the specifiers. -/
theorem defaulted_iff {C : ClassInfo} {S : List Spec} {o : Outcome} (h : resolve C S = .ok o) (p : String) :
    p ∈ defaulted o ↔ ((∃ e ∈ C.defaults, e.1 = p) ∧ ∀ t ∈ S, ∀ k, (p, k) ∉ t.prios) := by
  rw [mem_defaulted_iff_get h]
  have hs := resolve_spec h p
  constructor
  · rintro ⟨q, hq⟩
    rw [hq] at hs
    exact ⟨hs.2.1, hs.2.2⟩
  · rintro ⟨hd, hn⟩
    cases hg : get o.assign p with
    | none =>
      rw [hg] at hs
      obtain ⟨e, he, hep⟩ := hd
      exact absurd hep (hs.2 e he)
    | some a =>
      cases a with
      | dflt q => exact ⟨q, rfl⟩
      | user n =>
        rw [hg] at hs
        obtain ⟨s, hs', _, k, hk, _⟩ := hs
        exact absurd hk (hn s hs' k)

/-- **The set of defaulted properties does not depend on the order of the specifiers** (no hypothesis on the
number of modifying specifiers). -/
theorem defaulted_perm_invariant {C : ClassInfo} {S1 S2 : List Spec} {o1 o2 : Outcome} (hperm : S1.Perm S2)
    (h1 : resolve C S1 = .ok o1) (h2 : resolve C S2 = .ok o2) (p : String) :
    p ∈ defaulted o1 ↔ p ∈ defaulted o2 := by
  rw [defaulted_iff h1, defaulted_iff h2]
  constructor
  · rintro ⟨hd, hn⟩
    exact ⟨hd, fun t ht => hn t (hperm.mem_iff.mpr ht)⟩
  · rintro ⟨hd, hn⟩
    exact ⟨hd, fun t ht => hn t (hperm.mem_iff.mp ht)⟩

/-- **The defaulted properties are exactly those whose final value was produced by the class default** (a
defaulted property is never modified, a specified one never falls back to the default). -/
theorem defaulted_final_value {C : ClassInfo} {S : List Spec} {o : Outcome} (h : resolve C S = .ok o) :
    ∃ ctx, evaluate C S o = .ok ctx ∧ ∀ p, p ∈ defaulted o ↔ get ctx p = some (.dflt p) := by
  obtain ⟨ctx, hok, hget⟩ := evaluate_ok h
  refine ⟨ctx, hok, fun p => ?_⟩
  rw [hget p, mem_defaulted_iff_get h]
  have hs := resolve_spec h p
  unfold finalWriter
  cases hm : get o.modifier p with
  | some m =>
    obtain ⟨M, _, _, hmM, _, _, _, s, _, hga, _⟩ := resolve_modifier h p m hm
    simp only
    constructor
    · rintro ⟨q, hq⟩
      rw [hga] at hq; cases hq
    · intro hmd
      rw [hmM] at hmd; cases hmd
  | none =>
    simp only
    constructor
    · rintro ⟨q, hq⟩
      rw [hq] at hs
      rw [hq, hs.1]
    · intro hq
      exact ⟨p, hq⟩

/-- `constProps`: defaulted and not random. -/
theorem constProps_iff {C : ClassInfo} {S : List Spec} {o : Outcome} (h : resolve C S = .ok o)
    (sampled : String → Bool) (p : String) :
    p ∈ constProps sampled o ↔
      ((∃ e ∈ C.defaults, e.1 = p) ∧ (∀ t ∈ S, ∀ k, (p, k) ∉ t.prios) ∧ sampled p = false) := by
  unfold constProps
  rw [List.mem_filter, defaulted_iff h]
  simp only [Bool.not_eq_true', and_assoc]

/-! ## `_override` -/

theorem overrideCheckProps_none {dyn props : List String} {ps : List String}
    (h : overrideCheckProps dyn props ps = none) : ∀ p ∈ ps, p ∉ dyn ∧ p ∈ props := by
  induction ps with
  | nil => intro p hp; cases hp
  | cons q qs ih =>
    unfold overrideCheckProps at h
    split at h
    · cases h
    · rename_i hnd
      split at h
      · cases h
      · rename_i hin
        intro p hp
        rcases List.mem_cons.mp hp with rfl | hp
        · exact ⟨hnd, Classical.not_not.mp hin⟩
        · exact ih h p hp

theorem overrideCheckProps_none_of {dyn props : List String} {ps : List String}
    (h : ∀ p ∈ ps, p ∉ dyn ∧ p ∈ props) : overrideCheckProps dyn props ps = none := by
  induction ps with
  | nil => rfl
  | cons q qs ih =>
    unfold overrideCheckProps
    have hq := h q (List.mem_cons_self ..)
    rw [if_neg hq.1, if_neg (fun hn => hn hq.2)]
    exact ih (fun p hp => h p (List.mem_cons_of_mem _ hp))

/-- the validation loop of `_override` passes iff every property named by a specifier is a non-dynamic
property of the object -/
theorem overrideCheck_none_iff (dyn props : List String) (S : List Spec) :
    overrideCheck dyn props S = none ↔ ∀ t ∈ S, ∀ k p, (p, k) ∈ t.prios → p ∉ dyn ∧ p ∈ props := by
  induction S with
  | nil => simp [overrideCheck]
  | cons s rest ih =>
    unfold overrideCheck
    constructor
    · intro h
      split at h
      · cases h
      · rename_i hc
        intro t ht k p hp
        rcases List.mem_cons.mp ht with rfl | ht
        · exact overrideCheckProps_none hc p (List.mem_map.mpr ⟨(p, k), hp, rfl⟩)
        · exact ih.mp h t ht k p hp
    · intro h
      have hc : overrideCheckProps dyn props (s.prios.map (·.1)) = none := by
        apply overrideCheckProps_none_of
        intro p hp
        obtain ⟨⟨p', k⟩, hpk, rfl⟩ := List.mem_map.mp hp
        exact h s (List.mem_cons_self ..) k p' hpk
      rw [hc]
      exact ih.mpr (fun t ht => h t (List.mem_cons_of_mem _ ht))

theorem override_ok {C : ClassInfo} {dyn props : List String} {S : List Spec} {o : Outcome}
    (h : override C dyn props S = .ok o) :
    overrideCheck dyn props S = none ∧ resolve (overrideClass C props) S = .ok o := by
  unfold override at h
  split at h
  · cases h
  · rename_i hc
    split at h
    · cases h
    · rename_i o' hr
      cases h
      exact ⟨hc, hr⟩

/-- **An override only touches what it names.**  After a successful `override obj <specifiers>`, whatever the
order, priorities and kinds of the specifiers:
* every property named by a specifier is a property of the object, not dynamic and not final;
* every property of the object that no specifier names keeps the value it had (the final context maps it to
  the replacement default built from `getattr(self, prop)`), and conversely a property mapped to its old value
  is named by no specifier;
* the object has exactly the properties it had (no property appears or disappears). -/
theorem override_spec {C : ClassInfo} {dyn props : List String} {S : List Spec} {o : Outcome}
    (h : override C dyn props S = .ok o) :
    (∀ t ∈ S, ∀ k p, (p, k) ∈ t.prios → p ∈ props ∧ p ∉ dyn ∧ p ∉ C.finals) ∧
    ∃ ctx, evaluate (overrideClass C props) S o = .ok ctx ∧
      (∀ p, get ctx p = some (.dflt p) ↔ (p ∈ props ∧ ∀ t ∈ S, ∀ k, (p, k) ∉ t.prios)) ∧
      (∀ p, (get ctx p).isSome ↔ p ∈ props) := by
  obtain ⟨hc, hr⟩ := override_ok h
  have hchk := (overrideCheck_none_iff dyn props S).mp hc
  have hdef : ∀ p, (∃ e ∈ (overrideClass C props).defaults, e.1 = p) ↔ p ∈ props := by
    intro p
    unfold overrideClass
    simp only [List.mem_map]
    constructor
    · rintro ⟨e, ⟨q, hq, rfl⟩, rfl⟩; exact hq
    · intro hp; exact ⟨(p, []), ⟨p, hp, rfl⟩, rfl⟩
  refine ⟨?_, ?_⟩
  · intro t ht k p hp
    refine ⟨(hchk t ht k p hp).2, (hchk t ht k p hp).1, fun hf => ?_⟩
    obtain ⟨e, he, _⟩ := final_reported (overrideClass C props) S t ht p k hp hf
    rw [hr] at he; cases he
  · obtain ⟨ctx, hok, hval⟩ := defaulted_final_value hr
    refine ⟨ctx, hok, ?_, ?_⟩
    · intro p
      rw [← hval p, defaulted_iff hr p, hdef p]
    · obtain ⟨ctx', hok', htot⟩ := evaluate_total hr
      rw [hok] at hok'; cases hok'
      intro p
      rw [htot p, hdef p]
      constructor
      · rintro (⟨t, ht, k, hk⟩ | hp)
        · exact (hchk t ht k p hk).2
        · exact hp
      · intro hp; exact Or.inr hp

/-- **Overriding is order independent.**  Whether the validation loop refuses the override does not depend on
the order of the specifiers; if it does not, two orders that both resolve leave the same properties untouched
(no hypothesis on modifying specifiers), and with at most one modifying specifier the resolutions have the same
outcome. -/
theorem override_perm_invariant (C : ClassInfo) (dyn props : List String) (S1 S2 : List Spec) (hperm : S1.Perm S2) :
    (overrideCheck dyn props S1 = none ↔ overrideCheck dyn props S2 = none) ∧
    ((S1.filter (fun s => s.modifying)).length ≤ 1 →
      SameOutcome (resolve (overrideClass C props) S1) (resolve (overrideClass C props) S2)) ∧
    (∀ o1 o2, override C dyn props S1 = .ok o1 → override C dyn props S2 = .ok o2 →
      ∀ p, p ∈ defaulted o1 ↔ p ∈ defaulted o2) := by
  refine ⟨?_, fun hmod => resolve_perm_invariant _ S1 S2 hperm hmod, ?_⟩
  · rw [overrideCheck_none_iff, overrideCheck_none_iff]
    constructor
    · intro h t ht; exact h t (hperm.mem_iff.mpr ht)
    · intro h t ht; exact h t (hperm.mem_iff.mp ht)
  · intro o1 o2 h1 h2 p
    exact defaulted_perm_invariant hperm (override_ok h1).2 (override_ok h2).2 p

/-- **Refusals of `_override` are justified**: a refusal means some specifier names a dynamic property or a
property the object does not have. -/
theorem override_refused_sound {C : ClassInfo} {dyn props : List String} {S : List Spec} {e : OvErr}
    (h : override C dyn props S = .refused e) :
    ∃ t ∈ S, ∃ k p, (p, k) ∈ t.prios ∧ (p ∈ dyn ∨ p ∉ props) := by
  have hne : overrideCheck dyn props S ≠ none := by
    intro hc
    unfold override at h
    rw [hc] at h
    cases hr : resolve (overrideClass C props) S <;> rw [hr] at h <;> simp at h
  rw [Ne, overrideCheck_none_iff] at hne
  apply Classical.byContradiction
  intro hcon
  apply hne
  intro t ht k p hp
  exact ⟨fun hd => hcon ⟨t, ht, k, p, hp, Or.inl hd⟩,
    Classical.byContradiction fun hnp => hcon ⟨t, ht, k, p, hp, Or.inr hnp⟩⟩

/-! ### non-vacuity -/
section examples

def exOv : List String := ["behavior", "length", "position", "speed", "yaw"]

/-- defaulted: `length` is specified by `with length`, `shape`/`height`/`baseOffset` fall back to the class -/
example : (okOf (resolve exC [exAhead, exOn, exWith, exFacing])).map (fun o =>
    ((defaulted o).contains "shape", (defaulted o).contains "height", (defaulted o).contains "length",
     (defaulted o).contains "position")) = some (true, true, false, false) := by decide

example : (okOf (resolve exC [exFacing, exWith, exOn, exAhead])).map (fun o =>
    ((constProps (fun p => p == "height") o).contains "height", (constProps (fun p => p == "height") o).contains "shape",
     (constProps (fun _ => false) o).contains "height")) = some (false, true, true) := by decide

def ovOf : OvOutcome → Option Outcome
  | .ok o => some o
  | _ => none

/-- an override of `length` leaves the four other properties with their old values -/
example : (ovOf (override exC ["speed"] exOv [exWith])).map (fun o => defaulted o) =
    some ["behavior", "position", "speed", "yaw"] := by decide

/-- refused: dynamic property / unknown property / final property -/
example : override exC ["length"] exOv [exWith] = .refused .dynamicProp := by decide
example : override exC [] ["position"] [exWith] = .refused .noSuchProp := by decide
example : override ⟨[], ["length"]⟩ [] exOv [exWith] = .resolveErr .finalProp := by decide

end examples

end Scenic.C06
