import ScenicModel.Props.C13Balance

/-!
# C13 (part 3): guards are checked when promised

(a) when a behaviour starts: preconditions, then invariants;
(b) every time it resumes after an action (the check emitted after each `take`, and the re-check of
    runTryInterrupt after each of its yields);
(c) after a sub-behaviour finished;
(d) not while a sub-behaviour runs (needs `tiCheckSkipsSub`; negation witness for the other case);
(e) a guard that is false *or* raises a rejection is a violation, which ends the simulation.
-/
namespace Scenic.Interrupts

/-! ## (e) what a violation is -/

theorem checkGuards_ok_iff (env : Env) (beh : Nat) :
    ∀ gs, (checkGuards env beh gs).2 = true ↔ ∀ g ∈ gs, env.guard g = 1
  | [] => by simp [checkGuards]
  | g :: gs => by
    unfold checkGuards
    by_cases h : env.guard g = 1
    · simp [h, checkGuards_ok_iff env beh gs]
    · simp [h]

/-- when all guards hold each one was evaluated, in order -/
theorem checkGuards_log_ok (env : Env) (beh : Nat) :
    ∀ gs, (checkGuards env beh gs).2 = true → (checkGuards env beh gs).1 = gs.map (Ev.chk beh)
  | [] => by simp [checkGuards]
  | g :: gs => by
    unfold checkGuards
    by_cases h : env.guard g = 1
    · simp only [h, if_true]; intro h2; simp [checkGuards_log_ok env beh gs h2]
    · simp [h]

/-- a rejection raised inside a guard (value 2) counts as a violation, like `false` (value 0) -/
theorem rejection_in_guard_is_violation (env : Env) (beh g : Nat) (gs : List Nat) (hg : g ∈ gs)
    (h : env.guard g = 0 ∨ env.guard g = 2) : (checkGuards env beh gs).2 = false := by
  cases hc : (checkGuards env beh gs).2 with
  | false => rfl
  | true =>
    have := (checkGuards_ok_iff env beh gs).1 hc g hg
    omega

theorem invCheck_none_iff (P : Prog) (env : Env) (b : Nat) :
    (invCheck P env b).2 = none ↔ ∀ g ∈ (getBeh P b).inv, env.guard g = 1 := by
  unfold invCheck
  rw [← checkGuards_ok_iff env b]
  cases h : (checkGuards env b (getBeh P b).inv).2 <;> simp [h]

/-! ## (a) start -/

/-- **guards at start**: a behaviour starts without violation exactly when all its preconditions and all its
    invariants hold at that time step -/
theorem start_ok_iff (cfg : Cfg) (hp : cfg.startPre = true) (hi : cfg.startInv = true) (P : Prog) (env : Env) (b : Nat) :
    (startChecks cfg P env b).2 = none ↔ ∀ g ∈ (getBeh P b).pre ++ (getBeh P b).inv, env.guard g = 1 := by
  unfold startChecks
  simp only [hp, hi, if_true]
  have h1 := checkGuards_ok_iff env b (getBeh P b).pre
  have h2 := checkGuards_ok_iff env b (getBeh P b).inv
  cases hc1 : (checkGuards env b (getBeh P b).pre).2 <;> cases hc2 : (checkGuards env b (getBeh P b).inv).2 <;>
    simp [hc1, hc2] at h1 h2 ⊢
  · obtain ⟨g, hg, hne⟩ := h1; exact ⟨g, Or.inl hg, hne⟩
  · obtain ⟨g, hg, hne⟩ := h1; exact ⟨g, Or.inl hg, hne⟩
  · obtain ⟨g, hg, hne⟩ := h2; exact ⟨g, Or.inr hg, hne⟩
  · intro g hg; rcases hg with hg | hg
    · exact h1 g hg
    · exact h2 g hg

/-- a precondition that does not hold is reported as a precondition violation of that behaviour,
    a failing invariant (with all preconditions holding) as an invariant violation -/
theorem start_violation_kind (cfg : Cfg) (hp : cfg.startPre = true) (hi : cfg.startInv = true) (P : Prog) (env : Env)
    (b : Nat) (v : Viol) (h : (startChecks cfg P env b).2 = some v) :
    v.beh = b ∧ (v.kind = .pre ↔ ∃ g ∈ (getBeh P b).pre, env.guard g ≠ 1) := by
  unfold startChecks at h
  simp only [hp, hi, if_true] at h
  have h1 := checkGuards_ok_iff env b (getBeh P b).pre
  cases hc1 : (checkGuards env b (getBeh P b).pre).2
  · simp [hc1] at h h1
    subst h
    exact ⟨rfl, by simpa using h1⟩
  · simp only [hc1, if_true] at h
    cases hc2 : (checkGuards env b (getBeh P b).inv).2
    · simp [hc2] at h
      subst h
      refine ⟨rfl, ?_⟩
      simp only [reduceCtorEq, false_iff, not_exists, not_and]
      intro g hg
      simpa using (h1.1 hc1) g hg
    · simp [hc2] at h

/-- the agent's behaviour is checked before the first step, at time 0 -/
theorem simulate_start_violation (cfg : Cfg) (P : Prog) (envAt : Nat → Env) (fuel main steps : Nat) (v : Viol)
    (h : (startChecks cfg P (envAt 0) main).2 = some v) :
    (simulate cfg P envAt fuel main steps).outcome = .violation v 0 := by
  unfold simulate
  cases hs : startChecks cfg P (envAt 0) main with
  | mk lg o => rw [hs] at h; simp at h; subst h; rfl

/-- a sub-behaviour is checked when it is invoked, before it runs -/
theorem sub_start_violation (cfg : Cfg) (P : Prog) (env : Env) (fuel self : Nat) (inSub : Bool) (b : Nat)
    (l : List L) (c : List Frame) (v : Viol) (h : (startChecks cfg P env b).2 = some v) :
    go cfg P env (fuel + 1) self inSub (.exec (.sub b :: l) c)
      = .viol v (startChecks cfg P env b).1 := by
  cases hs : startChecks cfg P env b with
  | mk lg o => rw [hs] at h; simp at h; subst h; rw [go]; simp [hs]

/-! ## (b) after an action -/

/-- `take a` compiles to the yield followed by the invariant check -/
theorem lowerTake_spec (cfg : Cfg) (h1 : cfg.checkAfterInvoke = true) (h2 : cfg.checkBeforeInvoke = false) (a : Nat) :
    lowerTake cfg a = [L.yld a, L.chk] := by simp [lowerTake, h1, h2]

/-- **guards after an action**: when the behaviour is resumed after `take a`, the first thing that happens is
    the check of its invariants; a failing one ends the step with a violation, otherwise the code goes on -/
theorem resume_after_take_checks (cfg : Cfg) (P : Prog) (env env' : Env) (fuel self : Nat) (inSub : Bool)
    (a : Nat) (l : List L) (c : List Frame) :
    go cfg P env (fuel + 1) self inSub (.exec (L.yld a :: L.chk :: l) c) = .yielded a (.atYld (L.chk :: l) c) []
    ∧ go cfg P env' (fuel + 2) self inSub (.resume (.atYld (L.chk :: l) c)) =
        match invCheck P env' self with
        | (lg, some v) => .viol v lg
        | (lg, none) => (go cfg P env' fuel self inSub (.exec l c)).pre lg := by
  constructor
  · rw [go]
  · (rw [go, go]) <;> rfl

/-- ... and when another block of a try-interrupt statement is resumed instead of the one that took the
    action, the statement itself re-checks the invariants before choosing the block (no sub-behaviour being
    in progress) -/
theorem try_resume_checks (cfg : Cfg) (htc : cfg.tiCheck = true) (P : Prog) (env : Env) (fuel self : Nat)
    (kind : TryKind) (body : Blk K) (hs : List (Blk K)) (l : List L) (c : List Frame)
    (hq : (kindIsDoUntil kind || blkHasSub body || blksHaveSub hs) = false) :
    go cfg P env (fuel + 1) self false (.resume (.atTry kind body hs l c)) =
      match invCheck P env self with
      | (lg, some v) => .viol v (lg ++ closeStops cfg (blkSubs body ++ blksSubs hs))
      | (lg, none) => (go cfg P env fuel self false (.loopTI kind body hs l c)).pre lg := by
  rw [go]
  have : (false || kindIsDoUntil kind || blkHasSub body || blksHaveSub hs) = false := by simpa using hq
  simp only [htc, this, Bool.and_false, Bool.not_false, Bool.and_true, if_true]
  rfl

/-! ## (c) after a finished sub-behaviour -/

theorem lowerDo_spec (cfg : Cfg) (h1 : cfg.checkAfterInvoke = true) (h2 : cfg.checkBeforeInvoke = false) (b : Nat) :
    lowerDo cfg b none = [L.sub b, L.chk] := by simp [lowerDo, h1, h2]

/-- **guards after a finished sub-behaviour**: in the step in which the sub-behaviour's generator finishes,
    it is stopped and the invariants of the invoking behaviour are checked before it goes on -/
theorem resume_after_sub_checks (cfg : Cfg) (P : Prog) (env : Env) (fuel self : Nat) (inSub : Bool)
    (b : Nat) (sub : K) (l : List L) (c : List Frame) (f : Flow) (lg : List Ev)
    (hd : go cfg P env (fuel + 1) b false (.resume sub) = .done f lg) :
    go cfg P env (fuel + 2) self inSub (.resume (.atSub b sub (L.chk :: l) c)) =
      match invCheck P env self with
      | (lg', some v) => .viol v (lg ++ stopsOf cfg [b] ++ lg')
      | (lg', none) => (go cfg P env fuel self inSub (.exec l c)).pre (lg ++ stopsOf cfg [b] ++ lg') := by
  rw [go]
  simp only [hd]
  rw [go]
  cases hi : invCheck P env self with
  | mk lg' o =>
    cases o with
    | none =>
      simp only
      cases go cfg P env fuel self inSub (.exec l c) <;> simp [Out.pre, List.append_assoc]
    | some v => simp [Out.pre]

/-! ## (d) not while a sub-behaviour runs -/

mutual
/-- the sub-behaviour that is resumed next if no interrupt fires: follow the `try` bodies down -/
def K.subLeaf (cfg : Cfg) (env : Env) : K → Option (Nat × K)
  | .atYld _ _ => none
  | .atSub b sub _ _ => some (b, sub)
  | .atTry _ body hs _ _ => if pick cfg env hs = none then blkSubLeaf cfg env body else none
def blkSubLeaf (cfg : Cfg) (env : Env) : Blk K → Option (Nat × K)
  | ⟨_, _, none⟩ => none
  | ⟨_, _, some k⟩ => K.subLeaf cfg env k
end

mutual
theorem K.subLeaf_hasSub (cfg : Cfg) (env : Env) : ∀ (k : K) (p : Nat × K), K.subLeaf cfg env k = some p → K.hasSub k = true
  | .atYld _ _, _, h => by simp [K.subLeaf] at h
  | .atSub _ _ _ _, _, _ => by simp [K.hasSub]
  | .atTry _ body hs _ _, p, h => by
    unfold K.subLeaf at h
    split at h
    · have := blkSubLeaf_hasSub cfg env body p h
      simp [K.hasSub, this]
    · simp at h
theorem blkSubLeaf_hasSub (cfg : Cfg) (env : Env) : ∀ (b : Blk K) (p : Nat × K), blkSubLeaf cfg env b = some p → blkHasSub b = true
  | ⟨_, _, none⟩, _, h => by simp [blkSubLeaf] at h
  | ⟨_, _, some k⟩, p, h => by
    unfold blkSubLeaf at h
    simpa [blkHasSub] using K.subLeaf_hasSub cfg env k p h
end

/-- the sub-behaviour's own step finished its generator -/
def SubDone (cfg : Cfg) (P : Prog) (env : Env) (b : Nat) (sub : K) : Prop :=
  ∃ fuel' f lg', go cfg P env fuel' b false (.resume sub) = .done f lg'

/-- **no guard of the invoking behaviour is evaluated while its sub-behaviour runs.**
    Let `k` be the suspended generator of a behaviour that is waiting for sub-behaviour `b` (state `sub`),
    directly or under any nesting of try-interrupt statements none of whose handlers is active now.
    If the step yields an action and the sub-behaviour did not finish in it, then the action *and the whole
    event log* of the step are those of the sub-behaviour's own step: the invoking behaviour evaluated no
    guard at all. (When the sub-behaviour finishes, `resume_after_sub_checks` applies.) -/
theorem no_check_while_sub_runs (cfg : Cfg) (hskip : cfg.tiCheckSkipsSub = true) (P : Prog) (env : Env) :
    ∀ (fuel self : Nat) (inSub : Bool) (k : K) (b : Nat) (sub : K), K.subLeaf cfg env k = some (b, sub) →
      match go cfg P env fuel self inSub (.resume k) with
      | .yielded a _ lg =>
        (∃ fuel' sub', fuel' ≤ fuel ∧ go cfg P env fuel' b false (.resume sub) = .yielded a sub' lg)
          ∨ SubDone cfg P env b sub
      | .done _ _ => SubDone cfg P env b sub
      | _ => True
  | 0, _, _, _, _, _, _ => by simp [go]
  | fuel + 1, self, inSub, .atYld _ _, b, sub, h => by simp [K.subLeaf] at h
  | fuel + 1, self, inSub, .atSub b0 sub0 l c, b, sub, h => by
    simp only [K.subLeaf, Option.some.injEq, Prod.mk.injEq] at h
    obtain ⟨rfl, rfl⟩ := h
    rw [go]
    cases hg : go cfg P env fuel b0 false (.resume sub0) with
    | yielded a sub' lg => exact Or.inl ⟨fuel, sub', Nat.le_succ _, hg⟩
    | done f lg =>
      have hd : SubDone cfg P env b0 sub0 := ⟨fuel, f, lg, hg⟩
      simp only
      cases go cfg P env fuel self inSub (.exec l c) <;> simp [Out.pre, hd]
    | viol v lg => trivial
    | diverge => trivial
  | fuel + 1, self, inSub, .atTry kind body hs l c, b, sub, h => by
    unfold K.subLeaf at h
    split at h
    · rename_i hp
      have hbusy : blkHasSub body = true := blkSubLeaf_hasSub cfg env body _ h
      rw [go]
      simp only [hskip, hbusy, Bool.or_true, Bool.true_or, Bool.true_and, Bool.not_true, Bool.and_false,
        Bool.false_eq_true, if_false]
      cases fuel with
      | zero => simp [go]
      | succ fuel =>
        rw [loopTI_eq, hp]
        obtain ⟨cnd, code, st⟩ := body
        cases st with
        | none => simp [blkSubLeaf] at h
        | some kb =>
          simp only [blkSubLeaf] at h
          have ih := no_check_while_sub_runs cfg hskip P env fuel self
            (inSubFor inSub kind ⟨cnd, code, some kb⟩ hs none) kb b sub h
          simp only [stepBlk]
          cases hg : go cfg P env fuel self (inSubFor inSub kind ⟨cnd, code, some kb⟩ hs none) (.resume kb) with
          | yielded a k' lg =>
            rw [hg] at ih
            rcases ih with ⟨f', s', hle, hs'⟩ | hd
            · exact Or.inl ⟨f', s', by omega, hs'⟩
            · exact Or.inr hd
          | done f lg =>
            rw [hg] at ih
            simp only
            simp only [Option.isSome_none, Bool.and_false, Bool.false_and, Bool.false_eq_true, if_false]
            cases go cfg P env fuel self inSub (.exec (afterTry kind f l) c) <;> simp [Out.pre, ih]
          | viol v lg => trivial
          | diverge => trivial
    · simp at h

end Scenic.Interrupts
