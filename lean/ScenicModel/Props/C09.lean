import ScenicModel.Props.C09Peg
import ScenicModel.Props.C09Rewrites
/-!
# C09 — plain Python inside Scenic compiles to exactly what CPython would parse

The property has two halves, each with its own model and theorems, both instantiated on data regenerated from
`/repo` on every run:

* grammar (`Props/C09Peg.lean`): `front_insertion_conservative`, `scenic_grammar_conservative`,
  `guarded_alternative_fails`, `scenic_rules_fail`, `erased_result_is_full_result`;
  side conditions `gen_F_ok`, `gen_S_ok`, `gen_residue`, `gen_residue_named`, `gen_residue_allowed`, `gen_scenic_hard`;
* compile step (`Props/C09Rewrites.lean`): `compile_identity_off_triggers`, `rw_keeps_location`,
  `compile_keeps_root_location`, `compile_invents_no_line`, `compile_leaves_no_gap`;
  side conditions `gen_cfg_ok`, `gen_cfg_documented`.

The full statement ("for every Python module without reserved words Scenic's tree equals CPython's tree after the
documented rewrites") additionally needs: the erased grammar `pythonCore` is CPython's grammar, the actions build
CPython's nodes, the tokenizers agree. Those are not formal objects here; they are validated by the differential run
over the standard library / site-packages on every check (see `tools/props/c09.py`), which at the time of writing
finds the deviations listed in `findings.d/C09.json`.
-/
namespace Scenic.C09

/-- the two halves, stated together for the generated data -/
theorem plain_python_partial :
    (∀ (toks : Array Peg.Tok), Peg.wordFree Gen.Grammar.scenicWordMask toks → ∀ fuel,
        Peg.parse Gen.Grammar.grammar toks false fuel Gen.Grammar.start ≠ .oof →
        Peg.parse pythonCore toks false fuel Gen.Grammar.start
          = Peg.parse Gen.Grammar.grammar toks false fuel Gen.Grammar.start) ∧
    (∀ t : Rewrites.T, Rewrites.located t = true → Rewrites.noTrigger Gen.RewriteData.cfg t = true →
        Rewrites.compile Gen.RewriteData.cfg t = some t) ∧
    (∀ t t' : Rewrites.T, Rewrites.compile Gen.RewriteData.cfg t = some t' →
        Rewrites.located t' = true ∧ ∀ n ∈ Rewrites.lines t', n ∈ Rewrites.lines t ∨ n = 1) :=
  ⟨fun toks hW fuel h => scenic_grammar_conservative toks hW fuel h,
   fun t hl h => scenic_compile_identity_off_triggers t hl h,
   fun t t' h => ⟨compile_leaves_no_gap _ t t' h, scenic_compile_invents_no_line t t' h⟩⟩

end Scenic.C09
