/-! # C09 — property theorems (stub: filled in when the property's model is built) -/
namespace Scenic.C09
end Scenic.C09
