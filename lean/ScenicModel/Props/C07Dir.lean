import ScenicModel.Model.Frames
import ScenicModel.Props.C07Spec
/-!
# C07 (part 3) — specifiers instantiated on data regenerated from `/repo`

`left of / right of / ahead of / behind / above / below`, `on`, `beyond … by <scalar>`, and the side /
edge / corner operators of an `Object`.

The formulas of the directional specifiers, the contact offsets and the side / corner tables are the
ones regenerated from `/repo` (`Gen/Frames.lean`); the `gen_*` theorems are the side conditions on
that generated data and are re-checked on every run.
-/
namespace Scenic.C07
open Scenic.Frames


/-! ## vocabulary used to state the theorems -/

/-- the coordinate of a vector along local axis `i` (0 = right, 1 = forward, 2 = up) -/
def vget {α : Type} (v : Vec3 α) : Fin 3 → α
  | 0 => v.x
  | 1 => v.y
  | 2 => v.z

/-- width / length / height by axis -/
def dget {α : Type} (d : Dims α) : Fin 3 → α
  | 0 => d.w
  | 1 => d.l
  | 2 => d.h

/-- the local axis along which each directional specifier displaces the new object -/
def axisOf : Dir → Fin 3
  | .left => 0 | .right => 0 | .ahead => 1 | .behind => 1 | .above => 2 | .below => 2

/-- … and its direction -/
def sgnOf {α : Type} [Field α] : Dir → α
  | .left => -1 | .right => 1 | .ahead => 1 | .behind => -1 | .above => 1 | .below => -1

/-- the documented meaning of the 18 side / edge / corner operators:
    signs of (right, forward, up) half-dimensions -/
def documentedSides : List (String × (Int × Int × Int)) := [
  ("left", (-1, 0, 0)), ("right", (1, 0, 0)), ("front", (0, 1, 0)), ("back", (0, -1, 0)),
  ("top", (0, 0, 1)), ("bottom", (0, 0, -1)),
  ("frontLeft", (-1, 1, 0)), ("frontRight", (1, 1, 0)), ("backLeft", (-1, -1, 0)), ("backRight", (1, -1, 0)),
  ("topFrontLeft", (-1, 1, 1)), ("topFrontRight", (1, 1, 1)), ("topBackLeft", (-1, -1, 1)),
  ("topBackRight", (1, -1, 1)), ("bottomFrontLeft", (-1, 1, -1)), ("bottomFrontRight", (1, 1, -1)),
  ("bottomBackLeft", (-1, -1, -1)), ("bottomBackRight", (1, -1, -1))]

/-! ## side conditions on the generated data -/

section gen
variable {α : Type} [Field α]

/-- along its own axis every `makeOffset` moves the new centre by
    `± (self/2 + D + ref/2 + tol)`: half of each box, the requested distance and the tolerance -/
theorem gen_offset_axis (k : Dir) (self ref : Dims α) (tol : α) (c : Vec3 α) :
    vget (makeOffset k self ref tol c) (axisOf k)
      = sgnOf k * (dget self (axisOf k) / 2 + vget c (axisOf k) + dget ref (axisOf k) / 2 + tol) := by
  cases k <;> simp only [makeOffset, Vec3.ofTriple, vget, dget, axisOf, sgnOf, Gen.Frames.leftOffset,
    Gen.Frames.rightOffset, Gen.Frames.aheadOffset, Gen.Frames.behindOffset, Gen.Frames.aboveOffset,
    Gen.Frames.belowOffset] <;> ring

/-- … and passes the other two offsets through unchanged -/
theorem gen_offset_other (k : Dir) (self ref : Dims α) (tol : α) (c : Vec3 α) (i : Fin 3) (hi : i ≠ axisOf k) :
    vget (makeOffset k self ref tol c) i = vget c i := by
  cases k <;> fin_cases i <;> first | (exfalso; exact hi rfl) | rfl

/-- a scalar `D` is a displacement along the specifier's own axis only -/
theorem gen_components (k : Dir) (d : α) (i : Fin 3) :
    vget (dirComponents k d) i = if i = axisOf k then d else 0 := by
  cases k <;> fin_cases i <;> rfl

/-- no `by D`: half the contact tolerance; with `by D`: nothing extra -/
theorem gen_contact (ct : α) : Gen.Frames.contactOffsetNone ct = ct / 2 ∧ Gen.Frames.contactOffsetGiven ct = 0 :=
  ⟨rfl, rfl⟩

/-- `on`: the contact offset is `(0, 0, ct/2) - baseOffset` -/
theorem gen_on_contact (ct ox oy oz : α) :
    Gen.Frames.onContactOffset ct ox oy oz = (-ox, -oy, ct / 2 - oz) := by
  simp only [Gen.Frames.onContactOffset, zero_sub]

/-- `beyond X by D`: the scalar is the forward (`+Y`) component -/
theorem gen_beyond_scalar (d : α) : Gen.Frames.beyondScalar d = (0, d, 0) := rfl

end gen

/-- `Object.corners` lists exactly the 8 sign combinations -/
theorem gen_corner_table :
    Gen.Frames.cornerTable.length = 8 ∧
    ∀ sx ∈ [(1 : Int), -1], ∀ sy ∈ [(1 : Int), -1], ∀ sz ∈ [(1 : Int), -1], (sx, sy, sz) ∈ Gen.Frames.cornerTable := by
  decide

/-- every entry of the corner table is a sign triple -/
theorem gen_corner_signs :
    ∀ t ∈ Gen.Frames.cornerTable, (t.1 = 1 ∨ t.1 = -1) ∧ (t.2.1 = 1 ∨ t.2.1 = -1) ∧ (t.2.2 = 1 ∨ t.2.2 = -1) := by
  decide

/-- the side / edge / corner properties of `Object` use the documented signs -/
theorem gen_side_table : Gen.Frames.sideTable = documentedSides := by decide

section field
variable {α : Type} [Field α]

/-! ## corners, sides, edges of an object (`object_types.py:1232-1349`) -/

/-- every element of `Object.corners` is `position + orientation · (±w/2, ±l/2, ±h/2)` -/
theorem corners_mem (p : Vec3 α) (m : Mat3 α) (d : Dims α) (c : Vec3 α) (hc : c ∈ corners p m d) :
    ∃ t ∈ Gen.Frames.cornerTable, c = relativePosition p m (sideVec d t) := by
  simp only [corners, List.mem_map] at hc
  obtain ⟨t, ht, rfl⟩ := hc
  exact ⟨t, ht, rfl⟩

/-- `front of X`, `back right of X`, `top front left of X`, …: the named operator yields the point
    whose coordinates in X's frame are the documented signed half-dimensions, and the resulting
    `OrientedPoint` inherits X's orientation -/
theorem side_operator (p : Vec3 α) (m : Mat3 α) (hm : m.IsRot) (d : Dims α) (name : String)
    (t : Int × Int × Int) (ht : documentedSides.lookup name = some t) :
    ∃ q, sidePoint p m d name = some q ∧ localCoords p m q.position = sideVec d t ∧ q.orientation = m := by
  refine ⟨relativize p m (sideVec d t), ?_, ?_, ?_⟩
  · simp only [sidePoint, gen_side_table, ht, Option.map_some]
  · exact side_local p m hm d t
  · exact inherited_orientation _ m
example : documentedSides.lookup "frontLeft" = some (-1, 1, 0) := by decide

/-- the side midpoint is the mean of the four corners of that face (here: `front of X`) -/
theorem front_is_face_midpoint [CharZero α] (p : Vec3 α) (m : Mat3 α) (d : Dims α) :
    (relativePosition p m (sideVec d (0, 1, 0))).smul 4 =
      (((relativePosition p m (sideVec d (1, 1, 1))).add (relativePosition p m (sideVec d (-1, 1, 1)))).add
        (relativePosition p m (sideVec d (1, 1, -1)))).add (relativePosition p m (sideVec d (-1, 1, -1))) := by
  ext <;> simp [sideVec, signed] <;> unfold_frames <;> ring

/-! ## `on` (`veneer.py:1521-1585`) -/

/-- `on`: the *base* of the object (`position + baseOffset`, in the frame the region provides) sits
    exactly half the contact tolerance above the chosen point, along the region's up axis -/
theorem on_base_contact (pos : Vec3 α) (ct : α) (base : Vec3 α) (r : Mat3 α) (hr : r.IsRot) :
    (onPosition pos ct base none).add base = pos.add ⟨0, 0, ct / 2⟩ ∧
    localCoords pos r ((onPosition pos ct base (some r)).add (r.mulVec base)) = ⟨0, 0, ct / 2⟩ := by
  constructor
  · simp only [onPosition, gen_on_contact, Vec3.ofTriple]; frames_ring
  · have h : ((pos.add (r.mulVec (Vec3.ofTriple (Gen.Frames.onContactOffset ct base.x base.y base.z)))).add
        (r.mulVec base)) = relativePosition pos r ⟨0, 0, ct / 2⟩ := by
      simp only [gen_on_contact, Vec3.ofTriple]; frames_ring
    simp only [onPosition, h]
    exact localCoords_relativePosition pos r hr _

end field

/-! ### the directional specifiers -/

section directional
variable {α : Type} [Field α]

theorem signed_bounds [LinearOrder α] [IsStrictOrderedRing α] (s : Int) (a : α) (ha : 0 ≤ a) :
    -a ≤ signed s a ∧ signed s a ≤ a := by
  unfold signed; split_ifs <;> constructor <;> linarith

theorem signed_one (a : α) : signed 1 a = a ∧ signed (-1) a = -a := by
  constructor <;> simp [signed]

/-! ## `left of / right of / ahead of / behind / above / below <Object> [by D]` -/

/-- **coordinates of the new centre** in X's frame: along the specifier's axis
    `± (self/2 + D + X/2 + tol)`, and the two other coordinates are the given offsets -/
theorem directional_local (k : Dir) (refPos : Vec3 α) (m : Mat3 α) (hm : m.IsRot) (refDims self : Dims α)
    (ct : α) (dist : Dist α) :
    let pN := (dirObject k refPos m refDims self ct dist).1
    vget (localCoords refPos m pN) (axisOf k) =
        sgnOf k * (dget self (axisOf k) / 2 + vget (distComponents k dist) (axisOf k)
                    + dget refDims (axisOf k) / 2 + contactTol dist ct) ∧
    (∀ i, i ≠ axisOf k → vget (localCoords refPos m pN) i = vget (distComponents k dist) i) ∧
    (dirObject k refPos m refDims self ct dist).2 = m := by
  intro pN
  have h : localCoords refPos m pN = makeOffset k self refDims (contactTol dist ct) (distComponents k dist) :=
    localCoords_relativePosition refPos m hm _
  refine ⟨?_, ?_, rfl⟩
  · rw [h, gen_offset_axis]
  · intro i hi; rw [h, gen_offset_other _ _ _ _ _ i hi]

/-- the requested gap `D` (0 when omitted) plus the contact term: `ct/2` when no `by D` was given -/
def requestedGap (k : Dir) (dist : Dist α) (ct : α) : α :=
  vget (distComponents k dist) (axisOf k) + contactTol dist ct

theorem requestedGap_values (k : Dir) (d ct : α) (v : Vec3 α) :
    requestedGap k (.scalar d) ct = d ∧ requestedGap k .none ct = ct / 2 ∧
    requestedGap k (.vector v) ct = vget v (axisOf k) := by
  refine ⟨?_, ?_, ?_⟩
  · simp only [requestedGap, distComponents, gen_components, contactTol, if_true, (gen_contact ct).2, add_zero]
  · cases k <;> simp [requestedGap, distComponents, contactTol, (gen_contact ct).1, vget, axisOf, Vec3.zero]
  · simp only [requestedGap, distComponents, contactTol, (gen_contact ct).2, add_zero]

/-- **the gap theorem.** Let the new object inherit X's orientation `m` (the specifier sets
    `parentOrientation = X.orientation`; yaw = pitch = roll = 0). Measured along X's corresponding
    local axis, *every* corner of X's bounding box is at least `D` away from *every* corner of the new
    object's bounding box (on the side named by the specifier), and some pair of corners realises
    exactly `D`: the gap between the two boxes along that axis is exactly `D`
    (`D` = the `by` distance; half the new object's contact tolerance when omitted). -/
theorem directional_gap [LinearOrder α] [IsStrictOrderedRing α] (k : Dir) (refPos : Vec3 α) (m : Mat3 α) (hm : m.IsRot) (refDims self : Dims α)
    (hr : 0 ≤ refDims.w ∧ 0 ≤ refDims.l ∧ 0 ≤ refDims.h) (hs : 0 ≤ self.w ∧ 0 ≤ self.l ∧ 0 ≤ self.h)
    (ct : α) (dist : Dist α) :
    let pN := (dirObject k refPos m refDims self ct dist).1
    let gap := fun cN cX : Vec3 α =>
      sgnOf k * (vget (localCoords refPos m cN) (axisOf k) - vget (localCoords refPos m cX) (axisOf k))
    (∀ cN ∈ corners pN m self, ∀ cX ∈ corners refPos m refDims, requestedGap k dist ct ≤ gap cN cX) ∧
    (∃ cN ∈ corners pN m self, ∃ cX ∈ corners refPos m refDims, gap cN cX = requestedGap k dist ct) := by
  intro pN gap
  obtain ⟨hax, -, -⟩ := directional_local k refPos m hm refDims self ct dist
  -- local coordinates of any corner
  have hN : ∀ t, localCoords refPos m (relativePosition pN m (sideVec self t)) =
      (localCoords refPos m pN).add (sideVec self t) := fun t => localCoords_offset refPos pN m hm _
  have hX : ∀ t, localCoords refPos m (relativePosition refPos m (sideVec refDims t)) = sideVec refDims t :=
    fun t => localCoords_relativePosition refPos m hm _
  have hw2 : 0 ≤ self.w / 2 ∧ 0 ≤ self.l / 2 ∧ 0 ≤ self.h / 2 ∧ 0 ≤ refDims.w / 2 ∧ 0 ≤ refDims.l / 2
      ∧ 0 ≤ refDims.h / 2 := by
    obtain ⟨a, b, c⟩ := hr; obtain ⟨d, e, f⟩ := hs
    refine ⟨?_, ?_, ?_, ?_, ?_, ?_⟩ <;> positivity
  obtain ⟨sw, sl, sh, rw', rl, rh⟩ := hw2
  constructor
  · intro cN hcN cX hcX
    obtain ⟨tN, -, rfl⟩ := corners_mem _ _ _ _ hcN
    obtain ⟨tX, -, rfl⟩ := corners_mem _ _ _ _ hcX
    simp only [gap, hN, hX, requestedGap]
    have b1 := signed_bounds tN.1 _ sw; have b2 := signed_bounds tN.2.1 _ sl; have b3 := signed_bounds tN.2.2 _ sh
    have b4 := signed_bounds tX.1 _ rw'; have b5 := signed_bounds tX.2.1 _ rl; have b6 := signed_bounds tX.2.2 _ rh
    cases k <;> simp only [axisOf, sgnOf, vget, dget, Vec3.add, sideVec] at hax ⊢ <;> rw [hax] <;> nlinarith
  · -- the facing corners: the new object's corner on the side towards X, X's corner on the side towards it
    have hall := gen_corner_table.2
    cases k
    case left =>
      refine ⟨relativePosition pN m (sideVec self (1, 1, 1)), ?_, relativePosition refPos m (sideVec refDims (-1, 1, 1)), ?_, ?_⟩
      · exact List.mem_map.2 ⟨_, hall 1 (by decide) 1 (by decide) 1 (by decide), rfl⟩
      · exact List.mem_map.2 ⟨_, hall (-1) (by decide) 1 (by decide) 1 (by decide), rfl⟩
      · simp only [gap, hN, hX, requestedGap]
        simp only [axisOf, sgnOf, vget, dget, Vec3.add, sideVec, (signed_one _).1, (signed_one _).2] at hax ⊢
        rw [hax]; ring
    case right =>
      refine ⟨relativePosition pN m (sideVec self (-1, 1, 1)), ?_, relativePosition refPos m (sideVec refDims (1, 1, 1)), ?_, ?_⟩
      · exact List.mem_map.2 ⟨_, hall (-1) (by decide) 1 (by decide) 1 (by decide), rfl⟩
      · exact List.mem_map.2 ⟨_, hall 1 (by decide) 1 (by decide) 1 (by decide), rfl⟩
      · simp only [gap, hN, hX, requestedGap]
        simp only [axisOf, sgnOf, vget, dget, Vec3.add, sideVec, (signed_one _).1, (signed_one _).2] at hax ⊢
        rw [hax]; ring
    case ahead =>
      refine ⟨relativePosition pN m (sideVec self (1, -1, 1)), ?_, relativePosition refPos m (sideVec refDims (1, 1, 1)), ?_, ?_⟩
      · exact List.mem_map.2 ⟨_, hall 1 (by decide) (-1) (by decide) 1 (by decide), rfl⟩
      · exact List.mem_map.2 ⟨_, hall 1 (by decide) 1 (by decide) 1 (by decide), rfl⟩
      · simp only [gap, hN, hX, requestedGap]
        simp only [axisOf, sgnOf, vget, dget, Vec3.add, sideVec, (signed_one _).1, (signed_one _).2] at hax ⊢
        rw [hax]; ring
    case behind =>
      refine ⟨relativePosition pN m (sideVec self (1, 1, 1)), ?_, relativePosition refPos m (sideVec refDims (1, -1, 1)), ?_, ?_⟩
      · exact List.mem_map.2 ⟨_, hall 1 (by decide) 1 (by decide) 1 (by decide), rfl⟩
      · exact List.mem_map.2 ⟨_, hall 1 (by decide) (-1) (by decide) 1 (by decide), rfl⟩
      · simp only [gap, hN, hX, requestedGap]
        simp only [axisOf, sgnOf, vget, dget, Vec3.add, sideVec, (signed_one _).1, (signed_one _).2] at hax ⊢
        rw [hax]; ring
    case above =>
      refine ⟨relativePosition pN m (sideVec self (1, 1, -1)), ?_, relativePosition refPos m (sideVec refDims (1, 1, 1)), ?_, ?_⟩
      · exact List.mem_map.2 ⟨_, hall 1 (by decide) 1 (by decide) (-1) (by decide), rfl⟩
      · exact List.mem_map.2 ⟨_, hall 1 (by decide) 1 (by decide) 1 (by decide), rfl⟩
      · simp only [gap, hN, hX, requestedGap]
        simp only [axisOf, sgnOf, vget, dget, Vec3.add, sideVec, (signed_one _).1, (signed_one _).2] at hax ⊢
        rw [hax]; ring
    case below =>
      refine ⟨relativePosition pN m (sideVec self (1, 1, 1)), ?_, relativePosition refPos m (sideVec refDims (1, 1, -1)), ?_, ?_⟩
      · exact List.mem_map.2 ⟨_, hall 1 (by decide) 1 (by decide) 1 (by decide), rfl⟩
      · exact List.mem_map.2 ⟨_, hall 1 (by decide) 1 (by decide) (-1) (by decide), rfl⟩
      · simp only [gap, hN, hX, requestedGap]
        simp only [axisOf, sgnOf, vget, dget, Vec3.add, sideVec, (signed_one _).1, (signed_one _).2] at hax ⊢
        rw [hax]; ring
example : (rotZ (⟨3/5, 4/5⟩ : Ang Rat)).IsRot := isRot_rotZ (by unfold Ang.Unit; norm_num)

/-- `K of <OrientedPoint> [by D]`: the reference is a point (zero dimensions, no contact term):
    the face of the new object towards the point is at distance `D` along the axis, the other two
    coordinates are the given offsets, and the point's orientation is inherited -/
theorem directional_opoint (k : Dir) (refPos : Vec3 α) (m : Mat3 α) (hm : m.IsRot) (self : Dims α) (dist : Dist α) :
    let pN := (dirOPoint k refPos m self dist).1
    vget (localCoords refPos m pN) (axisOf k) =
        sgnOf k * (dget self (axisOf k) / 2 + vget (distComponents k dist) (axisOf k)) ∧
    (∀ i, i ≠ axisOf k → vget (localCoords refPos m pN) i = vget (distComponents k dist) i) ∧
    (dirOPoint k refPos m self dist).2 = m := by
  intro pN
  have h : localCoords refPos m pN = makeOffset k self ⟨0, 0, 0⟩ 0 (distComponents k dist) :=
    localCoords_relativePosition refPos m hm _
  refine ⟨?_, ?_, rfl⟩
  · rw [h, gen_offset_axis]; cases k <;> simp [dget, axisOf]
  · intro i hi; rw [h, gen_offset_other _ _ _ _ _ i hi]

/-- `K of <vector> [by D]`: in the new object's *own* frame (its own orientation `o`) the given
    position sits on the axis at `∓ (self/2 + D)` from the centre — i.e. without `by D` the midpoint
    of the opposite face of the bounding box is exactly at the given position -/
theorem directional_vector (k : Dir) (pos : Vec3 α) (o : Mat3 α) (ho : o.IsRot) (self : Dims α) (dist : Dist α) :
    let pN := dirVector k pos o self dist
    vget (localCoords pos o pN) (axisOf k) =
        sgnOf k * (dget self (axisOf k) / 2 + vget (distComponents k dist) (axisOf k)) ∧
    (∀ i, i ≠ axisOf k → vget (localCoords pos o pN) i = vget (distComponents k dist) i) := by
  intro pN
  have h : localCoords pos o pN = makeOffset k self ⟨0, 0, 0⟩ 0 (distComponents k dist) :=
    localCoords_relativePosition pos o ho _
  refine ⟨?_, ?_⟩
  · rw [h, gen_offset_axis]; cases k <;> simp [dget, axisOf]
  · intro i hi; rw [h, gen_offset_other _ _ _ _ _ i hi]

/-- `left of <vector>` without `by`: the midpoint of the *right* side of the new box is the vector
    (and symmetrically for the other five) -/
theorem directional_vector_midpoint (pos : Vec3 α) (o : Mat3 α) (self : Dims α) :
    relativePosition (dirVector .left pos o self .none) o (sideVec self (1, 0, 0)) = pos ∧
    relativePosition (dirVector .right pos o self .none) o (sideVec self (-1, 0, 0)) = pos ∧
    relativePosition (dirVector .ahead pos o self .none) o (sideVec self (0, -1, 0)) = pos ∧
    relativePosition (dirVector .behind pos o self .none) o (sideVec self (0, 1, 0)) = pos ∧
    relativePosition (dirVector .above pos o self .none) o (sideVec self (0, 0, -1)) = pos ∧
    relativePosition (dirVector .below pos o self .none) o (sideVec self (0, 0, 1)) = pos := by
  refine ⟨?_, ?_, ?_, ?_, ?_, ?_⟩ <;>
    simp only [dirVector, makeOffset, distComponents, Vec3.ofTriple, Gen.Frames.leftOffset, Gen.Frames.rightOffset,
      Gen.Frames.aheadOffset, Gen.Frames.behindOffset, Gen.Frames.aboveOffset, Gen.Frames.belowOffset, sideVec] <;>
    simp [signed] <;> ext <;> unfold_frames <;> ring

/-- the directional specifiers are *frame covariant*: moving X by a rigid motion `(g, t)` moves the
    new object's position by the same motion and rotates its inherited orientation by `g` -/
theorem directional_rigid (k : Dir) (g : Mat3 α) (t refPos : Vec3 α) (m : Mat3 α) (refDims self : Dims α)
    (ct : α) (dist : Dist α) :
    dirObject k ((g.mulVec refPos).add t) (g.mul m) refDims self ct dist =
      ((g.mulVec (dirObject k refPos m refDims self ct dist).1).add t, g.mul m) := by
  simp only [dirObject, relativePosition_rigid]

variable [DecidableEq α]

/-- `beyond X by D from Y` with a scalar `D`: the point at distance `D` behind `X` on the ray from
    `Y` through `X`:  `X + D · (X − Y)/|X − Y|` -/
theorem beyond_scalar (pos fromPt : Vec3 α) (dist h rho : α) (hh : h ≠ 0) (hrho : rho ≠ 0) :
    beyond pos (beyondScalar dist) fromPt h rho = pos.add ((pos.sub fromPt).smul (dist / rho)) := by
  simp only [beyond, beyondScalar, gen_beyond_scalar, Vec3.ofTriple, azimuthOf_eq, altitudeOf_eq, if_neg hh, if_neg hrho]
  ext <;> unfold_frames <;> field_simp <;> ring
example : (5 : Rat) * 5 = 3 * 3 + 4 * 4 ∧ (13 : Rat) * 13 = 5 * 5 + 12 * 12 := by norm_num

end directional

end Scenic.C07
