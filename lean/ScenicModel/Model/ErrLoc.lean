/-! # C10 — error-location layer of the generated parser (scenic.gram, `class Parser`)

Model of `Parser._build_syntax_error`, of the `raise_syntax_error_*` helpers in front of it, of the final raise of
`Parser.parse` and of the line bookkeeping of pegen's `Tokenizer` (`_lines`), as functions of the *fetched-token history*.

* `Tok` = (start line, end line) of a fetched token (columns do not influence the reported line nor the lookups).
* `_lines` keys: pegen stores `tok.start[0]` of every fetched token; `parse_string` may pre-load every source line
  `1..N` (`Data.preload`).  `known d N h l` = "`l` is a key of `_lines`".
* `build`: `start`/`stop` are the *line* components of the optional `start`/`end` arguments; missing ones are taken from
  `diagnose()` = last fetched token; if both are missing the text comes from the token (no lookup); otherwise
  `get_lines(range(start, end+1))`, and on `KeyError` (`Data.fallback`) `get_lines([start])`.  Reported line =
  `start + Data.lineOffset` (the source says `start[0]`: offset 0).
* helpers: each one selects `start`/`end` among the start/end of (the first/last token of) its arguments or of the last
  fetched token (`Sel`); the table is extracted from the source. -/
namespace Scenic.ErrLoc

structure Tok where
  sl : Nat
  el : Nat
deriving Repr, DecidableEq

inductive Sel | none | a1s | a1e | a2s | a2e | diagS | diagE
deriving Repr, DecidableEq

structure Helper where
  name : String
  start : Sel
  stop : Sel
deriving Repr, DecidableEq

structure Data where
  preload : Bool          -- parse_string: tokenizer._lines.update(enumerate(readlines, start=1))
  fallback : Bool         -- _build_syntax_error: except KeyError: get_lines([start[0]])
  lineOffset : Nat        -- reported lineno = start[0] + lineOffset
  tokErrLineFirst : Bool  -- TokenError wrapper: `msg, (lineno, offset) = e.args; syn.lineno = lineno`
  helpers : List Helper
deriving Repr

/-- arguments of a helper: first and last token of argument 1 and of argument 2 (a TokenInfo argument: first = last) -/
structure Args where
  f1 : Tok
  l1 : Tok
  f2 : Tok
  l2 : Tok
deriving Repr

inductive Out | ok (line : Nat) (fellBack : Bool) | keyError | noToken
deriving Repr, DecidableEq

def known (d : Data) (N : Nat) (h : List Tok) (l : Nat) : Bool :=
  (d.preload && decide (1 ≤ l) && decide (l ≤ N)) || h.any (fun t => t.sl == l)

def rangeKnown (d : Data) (N : Nat) (h : List Tok) (s e : Nat) : Bool :=
  (List.range' s (e + 1 - s)).all (known d N h)

def build (d : Data) (N : Nat) (h : List Tok) (start stop : Option Nat) : Out :=
  match h.getLast? with
  | Option.none => .noToken          -- unreachable: diagnose() fetches a token when none was fetched yet
  | some dg =>
    let s := start.getD dg.sl
    let e := stop.getD dg.el
    if start.isNone && stop.isNone then .ok (s + d.lineOffset) false
    else if rangeKnown d N h s e then .ok (s + d.lineOffset) false
    else if d.fallback then
      (if known d N h s then .ok (s + d.lineOffset) true else .keyError)
    else .keyError

def selLine (h : List Tok) (a : Args) : Sel → Option Nat
  | .none => Option.none
  | .a1s => some a.f1.sl
  | .a1e => some a.l1.el
  | .a2s => some a.f2.sl
  | .a2e => some a.l2.el
  | .diagS => h.getLast?.map (·.sl)
  | .diagE => h.getLast?.map (·.el)

def runHelper (d : Data) (N : Nat) (h : List Tok) (hp : Helper) (a : Args) : Out :=
  build d N h (selLine h a hp.start) (selLine h a hp.stop)

def Sel.isStart : Sel → Bool
  | .none | .a1s | .a2s | .diagS => true
  | _ => false

/-- what makes a helper safe: the KeyError fallback with a start line that is the start of a fetched token, or all
    source lines pre-loaded -/
def Helper.protected (d : Data) (hp : Helper) : Bool := (d.fallback && hp.start.isStart) || d.preload

def Data.ok (d : Data) : Bool :=
  d.lineOffset == 0 && d.tokErrLineFirst && d.helpers.all (Helper.protected d) && !d.helpers.isEmpty

/-- tokens as `tokenize` produces them for a text of `N` lines: they start in `[1, N+1]` (ENDMARKER / final DEDENTs on
    `N+1`), do not end before they start and only end on a later line inside the text (multi-line strings) -/
def Tok.wf (N : Nat) (t : Tok) : Bool :=
  decide (1 ≤ t.sl) && decide (t.sl ≤ N + 1) && decide (t.sl ≤ t.el) && (t.el == t.sl || decide (t.el ≤ N))

/-- TokenError wrapper of `parse_string`: `e.args[1] = (a, b)`; reported line -/
def tokenErrorLine (d : Data) (a b : Nat) : Nat := if d.tokErrLineFirst then a else b

end Scenic.ErrLoc
