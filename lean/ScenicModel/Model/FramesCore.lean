import ScenicModel.Gen.Frames
/-!
# FramesCore — executable model of Scenic's vector / orientation algebra and of the geometric
specifiers and operators built on it (property C07).

Everything is polymorphic in the scalar type `α` (only the operations `+ - * / neg 0 1 2` are
assumed), so that the same functions are

* *run* at `α = Rat` by the driver `Driver/C07.lean` (exact arithmetic, compared with the real code), and
* *reasoned about* at an arbitrary field (`Props/C07*.lean`), in particular `ℝ`.

Conventions mirrored from `/repo` (file, line numbers at the pinned commit):

* `Vector`            — `core/vectors.py:428`            → `Vec3`
* `Orientation`       — `core/vectors.py:207` (SciPy `Rotation`, quaternion `(x,y,z,w)`) → `Quat` and its
  rotation matrix `Quat.toMat`; `Orientation.__mul__` is `Quat.mul` / `Mat3.mul`, `inverse` is
  `Quat.conj` / `Mat3.transpose`, `Vector.applyRotation` is `Mat3.mulVec`.
* angles are carried as `(cos, sin)` pairs (`Ang`); `Orientation.fromEuler(yaw,pitch,roll)` is
  the intrinsic `ZXY` product `rotZ yaw * rotX pitch * rotY roll` (`euler`).
* `atan2`/`hypot` results (`sphericalCoordinates`, `angleTo`, `altitudeTo`) are expressed through
  the *witnessed* square roots `h = hypot(x,y)`, `rho = hypot(x,y,z)` supplied by the caller.

The primitives whose formulas are *regenerated from `/repo` on every run* (`Gen/Frames.lean`) are
instantiated on that data here: `rotatedBy` (`Vector.rotatedBy`), the SciPy axis sequence of `euler`
(`Orientation._fromEuler`), the angle formulas of `sphericalCoordinates` / `azimuthTo` / `altitudeTo` /
`apparentHeadingAtPoint` (compiled to `(cos, sin)` arithmetic around one `atan2`), the step rule of
`followFrom`, and the table of the `facing toward` family. `Lemmas/Frames.lean` proves the closed forms
(`euler_eq`, `azimuthOf_eq`, …) those definitions must have — these are side conditions on the generated data.
`Model/Frames.lean` adds the six offset formulas of `left of … below`, the `on` contact offset and the
side / corner tables.
-/
namespace Scenic.Frames

@[ext] structure Vec3 (α : Type) where
  x : α
  y : α
  z : α
deriving DecidableEq, Repr

/-- 3×3 matrix given by its rows -/
@[ext] structure Mat3 (α : Type) where
  r0 : Vec3 α
  r1 : Vec3 α
  r2 : Vec3 α
deriving DecidableEq, Repr

/-- quaternion `w + xi + yj + zk` (SciPy stores `(x,y,z,w)`) -/
@[ext] structure Quat (α : Type) where
  w : α
  x : α
  y : α
  z : α
deriving DecidableEq, Repr

/-- an angle, carried as `(cos, sin)` -/
@[ext] structure Ang (α : Type) where
  c : α
  s : α
deriving DecidableEq, Repr

/-- `width, length, height` -/
structure Dims (α : Type) where
  w : α
  l : α
  h : α
deriving DecidableEq, Repr

section
variable {α : Type} [Add α] [Sub α] [Mul α] [Neg α] [Div α] [OfNat α 0] [OfNat α 1] [OfNat α 2]

/-! ## vectors -/
namespace Vec3
def zero : Vec3 α := ⟨0, 0, 0⟩
def ex : Vec3 α := ⟨1, 0, 0⟩
def ey : Vec3 α := ⟨0, 1, 0⟩
def ez : Vec3 α := ⟨0, 0, 1⟩
/-- `Vector.__add__` -/
def add (a b : Vec3 α) : Vec3 α := ⟨a.x + b.x, a.y + b.y, a.z + b.z⟩
/-- `Vector.__sub__` -/
def sub (a b : Vec3 α) : Vec3 α := ⟨a.x - b.x, a.y - b.y, a.z - b.z⟩
def neg (a : Vec3 α) : Vec3 α := ⟨-a.x, -a.y, -a.z⟩
/-- `Vector.__mul__` (by a scalar) -/
def smul (k : α) (a : Vec3 α) : Vec3 α := ⟨k * a.x, k * a.y, k * a.z⟩
/-- `Vector.dot` -/
def dot (a b : Vec3 α) : α := a.x * b.x + a.y * b.y + a.z * b.z
def normSq (a : Vec3 α) : α := a.dot a
def ofTriple (t : α × α × α) : Vec3 α := ⟨t.1, t.2.1, t.2.2⟩
end Vec3

/-! ## matrices -/
namespace Mat3
def col0 (m : Mat3 α) : Vec3 α := ⟨m.r0.x, m.r1.x, m.r2.x⟩
def col1 (m : Mat3 α) : Vec3 α := ⟨m.r0.y, m.r1.y, m.r2.y⟩
def col2 (m : Mat3 α) : Vec3 α := ⟨m.r0.z, m.r1.z, m.r2.z⟩
def one : Mat3 α := ⟨⟨1, 0, 0⟩, ⟨0, 1, 0⟩, ⟨0, 0, 1⟩⟩
/-- `Rotation.apply` / `Vector.applyRotation` -/
def mulVec (m : Mat3 α) (v : Vec3 α) : Vec3 α := ⟨m.r0.dot v, m.r1.dot v, m.r2.dot v⟩
def transpose (m : Mat3 α) : Mat3 α := ⟨m.col0, m.col1, m.col2⟩
/-- composition: `(a.mul b).mulVec v = a.mulVec (b.mulVec v)` -/
def mul (a b : Mat3 α) : Mat3 α :=
  ⟨⟨a.r0.dot b.col0, a.r0.dot b.col1, a.r0.dot b.col2⟩,
   ⟨a.r1.dot b.col0, a.r1.dot b.col1, a.r1.dot b.col2⟩,
   ⟨a.r2.dot b.col0, a.r2.dot b.col1, a.r2.dot b.col2⟩⟩
def det (m : Mat3 α) : α :=
  m.r0.x * (m.r1.y * m.r2.z - m.r1.z * m.r2.y) - m.r0.y * (m.r1.x * m.r2.z - m.r1.z * m.r2.x)
    + m.r0.z * (m.r1.x * m.r2.y - m.r1.y * m.r2.x)
/-- every entry divided by `k` -/
def sdiv (m : Mat3 α) (k : α) : Mat3 α :=
  ⟨⟨m.r0.x / k, m.r0.y / k, m.r0.z / k⟩, ⟨m.r1.x / k, m.r1.y / k, m.r1.z / k⟩, ⟨m.r2.x / k, m.r2.y / k, m.r2.z / k⟩⟩
/-- every entry multiplied by `k` -/
def scale (k : α) (m : Mat3 α) : Mat3 α :=
  ⟨⟨k * m.r0.x, k * m.r0.y, k * m.r0.z⟩, ⟨k * m.r1.x, k * m.r1.y, k * m.r1.z⟩, ⟨k * m.r2.x, k * m.r2.y, k * m.r2.z⟩⟩
/-- a proper rotation: orthogonal (both sides) with determinant one -/
def IsRot (m : Mat3 α) : Prop := m.mul m.transpose = one ∧ m.transpose.mul m = one ∧ m.det = 1
end Mat3

/-! ## quaternions (`Orientation.q`, `Orientation.r`) -/
namespace Quat
def one : Quat α := ⟨1, 0, 0, 0⟩
/-- Hamilton product (`Rotation.__mul__`, hence `Orientation.__mul__`) -/
def mul (a b : Quat α) : Quat α :=
  ⟨a.w * b.w - a.x * b.x - a.y * b.y - a.z * b.z,
   a.w * b.x + a.x * b.w + a.y * b.z - a.z * b.y,
   a.w * b.y - a.x * b.z + a.y * b.w + a.z * b.x,
   a.w * b.z + a.x * b.y - a.y * b.x + a.z * b.w⟩
/-- `Rotation.inv` (`Orientation.inverse`) -/
def conj (a : Quat α) : Quat α := ⟨a.w, -a.x, -a.y, -a.z⟩
def normSq (a : Quat α) : α := a.w * a.w + a.x * a.x + a.y * a.y + a.z * a.z
/-- the rotation matrix of `q` scaled by `|q|²` (polynomial in the components) -/
def rawMat (q : Quat α) : Mat3 α :=
  ⟨⟨q.w * q.w + q.x * q.x - q.y * q.y - q.z * q.z, 2 * (q.x * q.y - q.w * q.z), 2 * (q.x * q.z + q.w * q.y)⟩,
   ⟨2 * (q.x * q.y + q.w * q.z), q.w * q.w - q.x * q.x + q.y * q.y - q.z * q.z, 2 * (q.y * q.z - q.w * q.x)⟩,
   ⟨2 * (q.x * q.z - q.w * q.y), 2 * (q.y * q.z + q.w * q.x), q.w * q.w - q.x * q.x - q.y * q.y + q.z * q.z⟩⟩
/-- the rotation matrix of a (not necessarily unit, but non-zero) quaternion — `Rotation.as_matrix` -/
def toMat (q : Quat α) : Mat3 α := q.rawMat.sdiv q.normSq
/-- rotation about Z by the angle whose half has `(cos : sin) = (a : b)` — `Orientation._fromHeading` -/
def aboutZ (a b : α) : Quat α := ⟨a, 0, 0, b⟩
def aboutX (a b : α) : Quat α := ⟨a, b, 0, 0⟩
def aboutY (a b : α) : Quat α := ⟨a, 0, b, 0⟩
end Quat

/-! ## angles -/
namespace Ang
def zero : Ang α := ⟨1, 0⟩
/-- the angle whose half-angle has `(cos : sin) = (a : b)`  (tangent half-angle parametrisation) -/
def ofHalf (a b : α) : Ang α := ⟨(a * a - b * b) / (a * a + b * b), 2 * a * b / (a * a + b * b)⟩
def add (p q : Ang α) : Ang α := ⟨p.c * q.c - p.s * q.s, p.s * q.c + p.c * q.s⟩
def neg (p : Ang α) : Ang α := ⟨p.c, -p.s⟩
def sub (p q : Ang α) : Ang α := p.add q.neg
/-- `+ π/2` -/
def quarter (p : Ang α) : Ang α := ⟨-p.s, p.c⟩
def Unit (p : Ang α) : Prop := p.c * p.c + p.s * p.s = 1
end Ang

/-- rotation about the global Z axis; heading `0` maps `+Y` to `+Y`, positive = counter-clockwise -/
def rotZ (a : Ang α) : Mat3 α := ⟨⟨a.c, -a.s, 0⟩, ⟨a.s, a.c, 0⟩, ⟨0, 0, 1⟩⟩
def rotX (a : Ang α) : Mat3 α := ⟨⟨1, 0, 0⟩, ⟨0, a.c, -a.s⟩, ⟨0, a.s, a.c⟩⟩
def rotY (a : Ang α) : Mat3 α := ⟨⟨a.c, 0, a.s⟩, ⟨0, 1, 0⟩, ⟨-a.s, 0, a.c⟩⟩

/-- one elementary rotation of a SciPy axis sequence; axes are encoded as in `Gen/Frames.lean`
    (`X = 0, Y = 1, Z = 2` intrinsic; the extrinsic lower-case axes are not modelled: identity) -/
def rotAxis : Nat → Ang α → Mat3 α
  | 0, a => rotX a
  | 1, a => rotY a
  | 2, a => rotZ a
  | _, _ => Mat3.one

/-- `Rotation.from_euler(axes, angles)` for an intrinsic (upper-case) axis sequence: the product of the
    elementary rotations in the order given -/
def eulerSeq : List Nat → List (Ang α) → Mat3 α
  | [c], [a] => rotAxis c a
  | c :: cs, a :: as => (rotAxis c a).mul (eulerSeq cs as)
  | _, _ => Mat3.one

/-- `Orientation.fromEuler(yaw, pitch, roll)`: `Rotation.from_euler(<axes>, [yaw, pitch, roll])` with the
    axis sequence regenerated from the source (intrinsic `ZXY`; `euler_eq`) -/
def euler (yaw pitch roll : Ang α) : Mat3 α := eulerSeq Gen.Frames.fromEulerAxes [yaw, pitch, roll]

/-- `Vector.rotatedBy(angle)` (2-D rotation, `z` unchanged); formula regenerated from the source -/
def rotatedBy (v : Vec3 α) (a : Ang α) : Vec3 α :=
  Vec3.ofTriple (Gen.Frames.rotatedByFormula a.c a.s v.x v.y v.z)

/-! ## points, frames, boxes -/

/-- `Vector.offsetLocally(orientation, offset)` (`vectors.py:502`) -/
def offsetLocally (p : Vec3 α) (ori : Mat3 α) (off : Vec3 α) : Vec3 α := p.add (ori.mulVec off)

/-- `OrientedPoint.relativePosition(vec)` (`object_types.py:989`) -/
def relativePosition (pos : Vec3 α) (ori : Mat3 α) (v : Vec3 α) : Vec3 α := offsetLocally pos ori v

/-- coordinates of the global point `p` in the frame `(pos, ori)` (inverse of `relativePosition`
    for a rotation `ori`); not a function of the code, used to *state* what the code achieves -/
def localCoords (pos : Vec3 α) (ori : Mat3 α) (p : Vec3 α) : Vec3 α := ori.transpose.mulVec (p.sub pos)

/-- an `OrientedPoint` as the specifier machinery sees it -/
structure OPoint (α : Type) where
  position : Vec3 α
  parentOrientation : Mat3 α
  yaw : Ang α
  pitch : Ang α
  roll : Ang α

/-- the `orientation` property default (`object_types.py:898`):
    `parentOrientation * Orientation.fromEuler(yaw, pitch, roll)` -/
def OPoint.orientation (p : OPoint α) : Mat3 α := p.parentOrientation.mul (euler p.yaw p.pitch p.roll)

/-- `OrientedPoint.relativize(vec)` (`object_types.py:985`):
    `OrientedPoint._with(position=…, parentOrientation=self.orientation)` -/
def relativize (pos : Vec3 α) (ori : Mat3 α) (v : Vec3 α) : OPoint α :=
  ⟨relativePosition pos ori v, ori, Ang.zero, Ang.zero, Ang.zero⟩

/-- `s * a` for a sign `s ∈ {-1, 0, 1}` (as written in `Vector(-self.hw, 0, self.hh)`) -/
def signed (s : Int) (a : α) : α := if s > 0 then a else if s < 0 then -a else 0

/-- the local vector `(sx·hw, sy·hl, sz·hh)` -/
def sideVec (d : Dims α) (t : Int × Int × Int) : Vec3 α :=
  ⟨signed t.1 (d.w / 2), signed t.2.1 (d.l / 2), signed t.2.2 (d.h / 2)⟩

/-! ## spherical coordinates (`vectors.py:480`), azimuth / altitude (`vectors.py:522-533`) -/

variable [DecidableEq α]

/-- `(cos, sin)` of `atan2(A, B)` for `ab = (A, B)`; the witness `w = hypot(A, B)` is supplied by the
    caller; `atan2(0, 0) = 0` -/
def atan2CS (ab : α × α) (w : α) : Ang α := if w = 0 then ⟨1, 0⟩ else ⟨ab.2 / w, ab.1 / w⟩

def Ang.ofPair (p : α × α) : Ang α := ⟨p.1, p.2⟩

/-- `sphericalCoordinates()[1]` (`theta = atan2(y, x) - π/2`, formula regenerated from the source) as
    `(cos, sin)`; `h = hypot(x, y)` is supplied by the caller. Closed form: `azimuthOf_eq`
    (`atan2(0, 0) = 0`, hence `theta = -π/2` for a vertical vector). -/
def azimuthOf (d : Vec3 α) (h : α) : Ang α :=
  let t := atan2CS (Gen.Frames.sphThetaArgs d.x d.y d.z h) h
  Ang.ofPair (Gen.Frames.sphThetaPost t.c t.s)

/-- `sphericalCoordinates()[2]` (`phi = atan2(z, hypot(x, y))`, regenerated); `rho = hypot(x, y, z)`
    supplied by the caller. Closed form: `altitudeOf_eq`. -/
def altitudeOf (d : Vec3 α) (h rho : α) : Ang α :=
  let t := atan2CS (Gen.Frames.sphPhiArgs d.x d.y d.z h) rho
  Ang.ofPair (Gen.Frames.sphPhiPost t.c t.s)

/-- `Vector.angleTo` = `azimuthTo`: `normalizeAngle(atan2(dy, dx) - π/2)` (regenerated; `azimuthTo_eq`) -/
def azimuthTo (a b : Vec3 α) (h : α) : Ang α :=
  let d := b.sub a
  let t := atan2CS (Gen.Frames.azimuthToArgs d.x d.y d.z h) h
  Ang.ofPair (Gen.Frames.azimuthToPost t.c t.s)

/-- `Vector.altitudeTo` (regenerated; `altitudeTo_eq`) -/
def altitudeTo (a b : Vec3 α) (h rho : α) : Ang α :=
  let d := b.sub a
  let t := atan2CS (Gen.Frames.altitudeToArgs d.x d.y d.z h) rho
  Ang.ofPair (Gen.Frames.altitudeToPost t.c t.s)

/-- square of `distance from X to Y` (`Vector.distanceTo`) -/
def distSq (a b : Vec3 α) : α := (b.sub a).normSq

/-! ## `beyond`, `offset by`, `offset along`, `on` -/

/-- `beyond pos by offset from fromPt` (`veneer.py:1651`): position of the new object -/
def beyond (pos off fromPt : Vec3 α) (h rho : α) : Vec3 α :=
  let d := pos.sub fromPt
  pos.add ((euler (azimuthOf d h) (altitudeOf d h rho) Ang.zero).mulVec off)

/-- `beyond … from F`: the `parentOrientation` that is specified. `fromOri` is the orientation of `F`
    when `F` is an `OrientedPoint`/`Object` (`none` for a plain vector: global orientation). -/
def beyondParent (fromOri : Option (Mat3 α)) : Mat3 α := fromOri.getD Mat3.one

/-- `offset by v` (`veneer.py:1619`): position and parentOrientation -/
def offsetBy (egoPos : Vec3 α) (egoOri : Mat3 α) (off : Vec3 α) : Vec3 α × Mat3 α :=
  ((relativize egoPos egoOri off).position, egoOri)

/-- `offset along H by v` (`veneer.py:1632`, `OffsetAlong` 1254) -/
def offsetAlong (egoPos : Vec3 α) (egoOri H : Mat3 α) (off : Vec3 α) : Vec3 α × Mat3 α :=
  (offsetLocally egoPos H off, egoOri)

/-! ## the `facing` family (`veneer.py:2006-2161`) -/

/-- `parentOrientation.localAnglesFor(target)` before Euler extraction: `parent.inverse * target` -/
def facingLocal (parent target : Mat3 α) : Mat3 α := parent.transpose.mul target

/-- the direction whose spherical angles become yaw (and pitch) in `facing [directly] toward / away from` -/
def facingDirection (away : Bool) (parent : Mat3 α) (position target : Vec3 α) : Vec3 α :=
  parent.transpose.mulVec (if away then position.sub target else target.sub position)

/-- a member of the `facing toward` family (`facing [directly] toward / away from T`,
    `apparently facing H from T`), described by its row `(away, pitch, addHeading)` of the generated
    `facingTable`: the yaw, and the pitch if it is specified too. The spherical angles are those of
    `±(T - position)` expressed in the parent frame. -/
def facingFamily (row : Bool × Bool × Bool) (parent : Mat3 α) (position target : Vec3 α) (heading : Ang α)
    (h rho : α) : Ang α × Option (Ang α) :=
  let dir := facingDirection row.1 parent position target
  let yaw := azimuthOf dir h
  (if row.2.2 then yaw.add heading else yaw, if row.2.1 then some (altitudeOf dir h rho) else none)

/-- the same, by the name of the specifier function in `veneer.py` (generated table) -/
def facingByName (name : String) (parent : Mat3 α) (position target : Vec3 α) (heading : Ang α)
    (h rho : α) : Option (Ang α × Option (Ang α)) :=
  (Gen.Frames.facingTable.lookup name).map fun row => facingFamily row parent position target heading h rho

/-- `apparently facing H from P`: the yaw that is specified — the azimuth, *in the parent frame*, of the
    line of sight from `P` to the object, plus `H` -/
def apparentlyFacingYaw (parent : Mat3 α) (position fromPt : Vec3 α) (heading : Ang α) (h : α) : Ang α :=
  (azimuthOf (parent.transpose.mulVec (position.sub fromPt)) h).add heading

/-! ## operators (`veneer.py:1143-1466`) -/

/-- `relative heading of X from Y` on yaw angles: `normalizeAngle(X.yaw - Y.yaw)` -/
def relativeHeading (x y : Ang α) : Ang α := x.sub y

/-- `apparentHeadingAtPoint(point, heading, base)` (`geometry.py`):
    `heading + π/2 - atan2(oy - y, ox - x)` (formula regenerated from the source; closed form
    `apparentHeading_eq`); `h = hypot(ox - x, oy - y)` -/
def apparentHeading (point : Vec3 α) (heading : Ang α) (base : Vec3 α) (h : α) : Ang α :=
  let t := atan2CS (Gen.Frames.apparentHeadingArgs point.x point.y base.x base.y) h
  Ang.ofPair (Gen.Frames.apparentHeadingPost heading.c heading.s t.c t.s)

/-- `OrientedPoint.distancePast(vec)`: `(position - vec).rotatedBy(-heading).y` -/
def distancePast (pos : Vec3 α) (heading : Ang α) (v : Vec3 α) : α :=
  (rotatedBy (pos.sub v) heading.neg).y

/-- the yaw of a rotation matrix (`Orientation.yaw`, SciPy `as_euler("ZXY")[0]`) away from gimbal
    lock: `atan2(-m01, m11)`; `cp = hypot(m01, m11)` (the cosine of the pitch) supplied by the caller -/
def yawOf (m : Mat3 α) (cp : α) : Ang α := ⟨m.r1.y / cp, -m.r0.y / cp⟩
def pitchOf (m : Mat3 α) (cp : α) : Ang α := ⟨cp, m.r2.y⟩
def rollOf (m : Mat3 α) (cp : α) : Ang α := ⟨m.r2.z / cp, -m.r2.x / cp⟩

/-- kinds of argument of the polymorphic `relative to` (vector fields are not modelled) -/
inductive Arg (α : Type)
  | vec (v : Vec3 α)
  | heading (a : Ang α)
  | orient (m : Mat3 α)
  /-- an `OrientedPoint`/`Object`: position, global orientation, global heading -/
  | opoint (pos : Vec3 α) (ori : Mat3 α) (heading : Ang α)

inductive RelResult (α : Type)
  | vec (v : Vec3 α)
  | heading (a : Ang α)
  | orient (m : Mat3 α)
  /-- a new `OrientedPoint`: position and parentOrientation (yaw = pitch = roll = 0) -/
  | opoint (pos : Vec3 α) (parent : Mat3 α)
  | typeError

/-- `RelativeTo(X, Y)` (`veneer.py:1154`), dispatch order as in the source. A plain number is
    *both* a known heading and a known orientation; the orientation branch comes first. -/
def relativeTo (x y : Arg α) : RelResult α :=
  match x, y with
  | .opoint _ _ _, .opoint _ _ _ => .typeError
  | .opoint _ _ hd, .heading a => .heading (hd.add a)
  | .heading a, .opoint _ _ hd => .heading (hd.add a)
  -- `toOrientation(Y) * toOrientation(X)`
  | .opoint _ ox _, .orient m => .orient (m.mul ox)
  | .orient m, .opoint _ oy _ => .orient (oy.mul m)
  | .opoint p o _, .vec v => .opoint (relativePosition p o v) o
  | .vec v, .opoint p o _ => .opoint (relativePosition p o v) o
  | .orient a, .orient b => .orient (b.mul a)
  | .orient a, .heading b => .orient ((rotZ b).mul a)
  | .heading a, .orient b => .orient (b.mul (rotZ a))
  | .heading a, .heading b => .orient ((rotZ b).mul (rotZ a))
  | .vec a, .vec b => .vec (a.add b)
  | .vec _, _ => .typeError
  | _, .vec _ => .typeError

/-! ## `following F [from P] for D` (`vectors.py:706`): forward Euler -/

/-- `n` forward-Euler steps of length `step` along the field's local `+Y` -/
def followSteps (field : Vec3 α → Mat3 α) (step : α) : Nat → Vec3 α → Vec3 α
  | 0, p => p
  | n + 1, p => followSteps field step n (p.add ((field p).mulVec ⟨0, step, 0⟩))

/-- `Following`: position and parentOrientation (`field[pos]`) -/
def following (field : Vec3 α → Mat3 α) (step : α) (n : Nat) (p : Vec3 α) : Vec3 α × Mat3 α :=
  let q := followSteps field step n p
  (q, field q)

end

/-- number of steps taken by `followFrom` (`max(minSteps, ceil(dist / defaultStepSize))`; regenerated
    from the source, characterised by `follow_step_rule`) -/
def followNumSteps (minSteps : Nat) (dist stepSize : Rat) : Nat :=
  Gen.Frames.followNumSteps minSteps dist stepSize

end Scenic.Frames
