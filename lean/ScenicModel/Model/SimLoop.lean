import ScenicModel.Model.SimCo
/-! # C12 — the simulation loop

Executable model of `Simulation.__init__`/`_run` (`core/simulators.py`) and of
`DynamicScenario._start/_step/_stop/_invokeInner/_runMonitors` (`core/dynamics/scenarios.py`)
for the dynamic fragment: nested scenarios with setup and compose blocks, agents with
behaviors and sub-behaviors, monitors, records, `terminate after`, `terminate when`,
`terminate simulation when`, `terminate`, `terminate simulation`, `do/wait … for/until`,
the step limit, and an arbitrary agent schedule.  Everything the run does that can be
observed from outside is appended to `St.log`.

The order in which one iteration of `_run` performs its phases is *data* (`Sem.order`),
regenerated from the source on every check run (`Gen/RunOrder.lean`).

Fuel: `fuel` bounds the depth of the scenario recursion, `cf` the number of statements one
`send(None)` may execute; when either runs out the run is `Abort.stuck` (CPython would not
return / would hit its recursion limit).  All theorems hold for every value of both. -/
namespace Scenic.SimLoop

structure ScenCls where
  agents : List Nat                 -- behavior (index into `Code.behs`) of each object the setup block creates
  mons : List Nat                   -- `require monitor M()` (index into `Prog.monCls`)
  compose : Option (List Stmt)
  limit : Option Nat                -- `terminate after`, in steps
  termWhen : List Nat               -- `terminate when cond`
  reqAlways : Bool                  -- a (true) `require always` whose evaluation is logged
  termSimWhen : List Nat := []      -- `terminate simulation when cond`
  recInit : Bool := false           -- a `record initial` whose evaluation is logged
  recs : List Nat := []             -- `record` statements (tag of each)
  recFinal : Bool := false          -- a `record final` whose evaluation is logged
  deriving Inhabited

structure Prog where
  code : Code
  monCls : List (List Stmt)
  scens : List ScenCls              -- class 0 is the top-level scenario
  maxSteps : Nat
  deriving Inhabited

/-- the class of the top-level scenario -/
def Prog.top (P : Prog) : ScenCls := P.scens.getD 0 default
/-- the top-level scenario's `terminate simulation when` conditions -/
def Prog.termSimWhen (P : Prog) : List Nat := P.top.termSimWhen

/-- the phases of one iteration of `Simulation._run` -/
inductive Phase
  | scen          -- `terminationReason = dynamicScenario._step()`
  | record        -- `self.recordCurrentState()`
  | monitors      -- `newReason = dynamicScenario._runMonitors()`
  | retPending    -- `if terminationReason is not None: return …`
  | termSimWhen   -- `dynamicScenario._checkSimulationTerminationConditions()`
  | maxSteps      -- `if maxSteps and self.currentTime >= maxSteps: return …`
  | behaviors     -- `for agent in schedule: … agent.behavior._step() …`
  | actions       -- `self.executeActions(allActions)`
  | simStep       -- `self.step()`
  | clock         -- `self.currentTime += 1`
  | update        -- `self.updateObjects()`
  deriving Repr, DecidableEq, Inhabited

/-- the order documented in `docs/reference/dynamic_scenarios.rst` (steps 1–9) -/
def Phase.documented : List Phase :=
  [.scen, .record, .monitors, .retPending, .termSimWhen, .maxSteps, .behaviors, .actions,
   .simStep, .clock, .update]

/-- facts about the code that are regenerated from the source and executed by the model -/
structure Sem where
  order : List Phase
  deriving Repr, DecidableEq, Inhabited

def Sem.documented : Sem := ⟨Phase.documented⟩

inductive Term
  | scenarioComplete | terminatedByMonitor | simulationTerminationCondition | timeLimit
  | terminatedByBehavior
  deriving Repr, DecidableEq, Inhabited

inductive Abort
  | stuck         -- out of fuel
  | error         -- RuntimeError (bad schedule) / construct outside the fragment
  deriving Repr, DecidableEq, Inhabited

structure MonInst where
  cls : Nat
  co : Stack
  deriving Inhabited

structure Inst where
  cls : Nat
  running : Bool
  elapsed : Nat                     -- `_elapsedTime`
  co : Option Stack                 -- `_runningIterator`
  mons : List MonInst               -- `_monitors`
  subs : List Nat                   -- `_subScenarios` (instance numbers)
  deriving Inhabited

structure Agent where
  parent : Nat                      -- `_parentScenario`
  co : Stack
  deriving Inhabited

structure St where
  time : Nat
  insts : List Inst
  agents : List Agent
  log : List Ev
  abort : Option Abort
  deriving Inhabited

namespace St
def emit (st : St) (e : Ev) : St := { st with log := st.log ++ [e] }
def emits (st : St) (l : List Ev) : St := { st with log := st.log ++ l }
def fail (st : St) (a : Abort) : St := { st with abort := some a }
def inst (st : St) (i : Nat) : Inst := st.insts.getD i default
def modInst (st : St) (i : Nat) (f : Inst → Inst) : St :=
  { st with insts := st.insts.modify i f }
def setAgentCo (st : St) (a : Nat) (s : Stack) : St :=
  { st with agents := st.agents.modify a fun x => { x with co := s } }
end St

/-- result of `DynamicScenario._step` as seen by the caller -/
inductive Ret
  | cont        -- `None`
  | stopped     -- a reason that is not an `_EndSimulationAction`
  | endSim      -- an `_EndSimulationAction`
  | abort       -- an exception (rejection) / fuel exhausted: `St.abort` says which
  deriving Repr, DecidableEq, Inhabited

inductive CRes
  | yielded (y : Y) (s : Stack)
  | done
  | aborted
  deriving Inhabited

/-- the objects created by a setup block: one agent per behavior, owned by instance `id` -/
def addAgents (P : Prog) (id : Nat) : List Nat → St → St
  | [], st => st
  | b :: rest, st =>
    addAgents P id rest { st.emit (.create st.agents.length) with
      agents := st.agents ++ [⟨id, [.seq (P.code.behs.getD b [])]⟩] }

/-- a fresh instance of scenario class `k` -/
def newInst (P : Prog) (k : Nat) : Inst :=
  let cls := P.scens.getD k default
  { cls := k, running := true, elapsed := 0,
    co := cls.compose.map fun body => [.seq body],
    mons := cls.mons.map fun m => ⟨m, [.seq (P.monCls.getD m [])]⟩,
    subs := [] }

/-- `sub._prepare(); sub._start()` for one sub-scenario of class `k` -/
def startOne (P : Prog) (k : Nat) (st : St) : St :=
  let st := addAgents P st.insts.length (P.scens.getD k default).agents st
  { st with insts := st.insts ++ [newInst P k] }

/-- `for sub in subs: sub._prepare(); sub._start()` -/
def startAll (P : Prog) : List Nat → St → St
  | [], st => st
  | k :: rest, st => startAll P rest (startOne P k st)

/-- the first loop of `_invokeInner` and `self._subScenarios = list(subs)` -/
def startSubs (P : Prog) (i : Nat) (subs : List Nat) (st : St) : St :=
  let first := st.insts.length
  (startAll P subs st).modInst i fun x => { x with subs := (List.range subs.length).map (first + ·) }

/-- the scenario's own `terminate when` conditions; `true` = one of them holds -/
def evalTermWhen (P : Prog) : List Nat → St → St × Bool
  | [], st => (st, false)
  | c :: rest, st =>
    let v := P.code.cond c st.time
    let st := st.emit (.cond .termWhen c v)
    if v then (st, true) else evalTermWhen P rest st

/-- step (a) of `_step`: the temporal requirements of instance `i` (the fragment's only
    requirement is a `require always` that holds; its evaluation is logged) -/
def checkReqs (P : Prog) (i : Nat) (st : St) : St :=
  if (P.scens.getD (st.inst i).cls default).reqAlways then st.emit (.q i) else st

/-- step (b) of `_step`: `self._elapsedTime >= self._timeLimitInSteps` -/
def limitReached (cls : ScenCls) (inst : Inst) : Bool :=
  match cls.limit with
  | some l => decide (l ≤ inst.elapsed)
  | none => false

section
variable (P : Prog) (S : Sem) (cf : Nat)

mutual
/-- `DynamicScenario._stop` -/
def stopScen : Nat → Nat → St → St
  | 0, _, st => st.fail .stuck
  | n + 1, i, st =>
    let st := st.emit (.stop i)
    let st := st.modInst i fun x => { x with mons := [] }
    let st := stopList n (st.inst i).subs st
    st.modInst i fun x => { x with co := none, running := false }

/-- `for sub in subs: if sub._isRunning: sub._stop(…)` -/
def stopList : Nat → List Nat → St → St
  | 0, _, st => st.fail .stuck
  | _ + 1, [], st => st
  | n + 1, j :: rest, st =>
    let st := if (st.inst j).running then stopScen n j st else st
    stopList n rest st
end

mutual
/-- `DynamicScenario._step` -/
def stepScen : Nat → Nat → St → St × Ret
  | 0, _, st => (st.fail .stuck, .abort)
  | n + 1, i, st =>
    let cls := P.scens.getD (st.inst i).cls default
    -- (a) temporal requirements
    let st := checkReqs P i st
    -- (b) time limit
    if limitReached cls (st.inst i) then (stopScen n i st, .stopped) else
    let st := st.modInst i fun x => { x with elapsed := x.elapsed + 1 }
    -- (d) compose block
    match (st.inst i).co with
    | none => afterCompose n i cls true st
    | some s =>
      match composeHandle n i (resume P.code (.comp i) st.time cf s) st with
      | (st, .aborted) => (st, .abort)
      | (st, .yielded .endScen _) => (stopScen n i st, .stopped)
      | (st, .yielded .endSim _) => (stopScen n i st, .endSim)
      | (st, .yielded (.acts _) s') =>
        afterCompose n i cls false (st.modInst i fun x => { x with co := some s' })
      | (st, .done) =>
        afterCompose n i cls true (st.modInst i fun x => { x with co := none })

/-- the rest of `_step` after the compose block has run: the scenario's `terminate when`
    conditions (of the top-level scenario and of sub-scenarios alike) -/
def afterCompose : Nat → Nat → ScenCls → Bool → St → St × Ret
  | 0, _, _, _, st => (st.fail .stuck, .abort)
  | n + 1, i, cls, composeDone, st =>
    if cls.compose.isSome && composeDone then (stopScen n i st, .stopped) else
    match evalTermWhen P cls.termWhen st with
    | (st, true) => (stopScen n i st, .stopped)
    | (st, false) => (st, .cont)

/-- serve the requests of the compose coroutine until it yields or ends -/
def composeHandle : Nat → Nat → Out → St → St × CRes
  | 0, _, _, st => (st.fail .stuck, .aborted)
  | n + 1, i, out, st =>
    let st := st.emits out.log
    match out.res with
    | .yield y s => (st, .yielded y s)
    | .done => (st, .done)
    | .stuck => (st.fail .stuck, .aborted)
    | .invokeStart subs s =>
      let st := startSubs P i subs st
      invokeLoop n i (st.inst i).subs [] s st
    | .invokeCont s =>
      let st := st.modInst i fun x => { x with subs := x.subs.filter fun j => (st.inst j).running }
      invokeLoop n i (st.inst i).subs [] s st
    | .stopSubs s =>
      let st := stopList n (st.inst i).subs st
      if st.abort.isSome then (st, .aborted) else
      composeHandle n i (exec P.code (.comp i) st.time cf s []) st

/-- the `while True` loop of `DynamicScenario._invokeInner` (one pass over the running subs) -/
def invokeLoop : Nat → Nat → List Nat → List Nat → Stack → St → St × CRes
  | 0, _, _, _, _, st => (st.fail .stuck, .aborted)
  | n + 1, i, [], newSubs, s, st =>
    let st := st.modInst i fun x => { x with subs := newSubs }
    if newSubs.isEmpty then composeHandle n i (exec P.code (.comp i) st.time cf (s.drop 1) []) st
    else (st, .yielded (.acts none) s)
  | n + 1, i, j :: todo, newSubs, s, st =>
    match stepScen n j st with
    | (st, r) =>
      if st.abort.isSome then (st, .aborted) else
      match r with
      | .endSim => (st, .yielded .endSim s)
      | .abort => (st, .aborted)
      | .cont => invokeLoop n i todo (newSubs ++ [j]) s st
      | .stopped => invokeLoop n i todo newSubs s st
end

/-- what `_runMonitors` returns -/
inductive MRet
  | none | endSim | endScen
  deriving Repr, DecidableEq, Inhabited

/-- one `monitor._step()`: new state, new stack of the monitor, did it execute
    `terminate simulation`, did it execute `terminate` -/
def monOutcome (out : Out) (old : Stack) (st : St) : St × Stack × Bool × Bool :=
  let st := st.emits out.log
  match out.res with
  | .yield .endSim s => (st, s, true, false)
  | .yield .endScen s => (st, s, false, true)
  | .yield (.acts _) s => (st, s, false, false)
  | .done => (st, [], false, false)
  | .stuck => (st.fail .stuck, old, false, false)
  | _ => (st.fail .error, old, false, false)

/-- step the monitors of instance `i` (`for monitor in self._monitors: monitor._step()`);
    returns the new monitor states, whether one executed `terminate simulation`, and whether
    one executed `terminate` -/
def stepMons (i : Nat) : Nat → List MonInst → St → St × List MonInst × Bool × Bool
  | _, [], st => (st, [], false, false)
  | j, mon :: rest, st =>
    match monOutcome (resume P.code (.mon i j) st.time cf mon.co) mon.co st with
    | (st, co', es, et) =>
      if st.abort.isSome then (st, { mon with co := co' } :: rest, es, et) else
      match stepMons i (j + 1) rest st with
      | (st, rest', es', et') => (st, { mon with co := co' } :: rest', es || es', et || et')

mutual
/-- `DynamicScenario._runMonitors` -/
def runMonitors : Nat → Nat → St → St × MRet
  | 0, _, st => (st.fail .stuck, .none)
  | n + 1, i, st =>
    match stepMons P cf i 0 (st.inst i).mons st with
    | (st, mons', es, et) =>
      let st := st.modInst i fun x => { x with mons := mons' }
      if st.abort.isSome then (st, .none) else
      match monSubs n (st.inst i).subs (if es then .endSim else .none) st with
      | (st, sub) =>
        if st.abort.isSome then (st, .none) else
        let st := if et then stopScen n i st else st
        (st, if sub != .none then sub else if et then .endScen else .none)

/-- `for sub in self._subScenarios: subreason = sub._runMonitors(); …`: only an
    `_EndSimulationAction` is handed up; a sub-scenario whose monitor executed `terminate` has
    already been stopped by its own `_runMonitors` -/
def monSubs : Nat → List Nat → MRet → St → St × MRet
  | 0, _, r, st => (st.fail .stuck, r)
  | _ + 1, [], r, st => (st, r)
  | n + 1, j :: rest, r, st =>
    match runMonitors n j st with
    | (st, rj) =>
      if st.abort.isSome then (st, r) else
      monSubs n rest (if rj = .endSim then .endSim else r) st
end

/-- `allActions[agent] = actions` on an insertion-ordered dict -/
def setAct (acts : List (Nat × Option Nat)) (a : Nat) (x : Option Nat) : List (Nat × Option Nat) :=
  if acts.any (·.1 == a) then acts.map fun p => if p.1 == a then (a, x) else p
  else acts ++ [(a, x)]

/-- outcome of one agent's turn in the loop over the schedule -/
inductive Turn
  | acts (x : Option Nat)   -- ordinary (possibly empty) actions
  | terminate               -- `_run` returns `terminatedByBehavior`
  | abort
  deriving Repr, DecidableEq, Inhabited

/-- the body of `for agent in schedule:` in `_run` -/
def behTurn (fuel : Nat) (a : Nat) (st : St) : St × Turn :=
  let ag := st.agents.getD a default
  let st := st.emit (.bstep a)
  let out := resume P.code (.beh a) st.time cf ag.co
  let st := st.emits out.log
  match out.res with
  | .yield y s =>
    let st := st.setAgentCo a s
    match y with
    | .endSim => (st, .terminate)
    | .endScen =>
      let st := if (st.inst ag.parent).running then stopScen fuel ag.parent st else st
      if st.abort.isSome then (st, .abort) else
      if ag.parent = 0 then (st, .terminate) else (st, .acts none)
    | .acts x => (st, .acts x)
  | .done => (st.setAgentCo a [], .acts none)
  | .stuck => (st.fail .stuck, .abort)
  | _ => (st.fail .error, .abort)

/-- the loop over the schedule in `_run` -/
def behLoop (fuel : Nat) : List Nat → List (Nat × Option Nat) → St →
    St × List (Nat × Option Nat) × Option Term
  | [], acts, st => (st, acts, none)
  | a :: rest, acts, st =>
    match behTurn P cf fuel a st with
    | (st, .acts x) => behLoop fuel rest (setAct acts a x) st
    | (st, .terminate) => (st, acts, some .terminatedByBehavior)
    | (st, .abort) => (st, acts, none)

/-- locals of one iteration of `_run` -/
structure Loop where
  pending : Option Term := none         -- `terminationType` while `terminationReason is not None`
  acts : List (Nat × Option Nat) := []  -- `allActions`
  deriving Inhabited

def sameSet (n : Nat) (order : List Nat) : Bool :=
  (List.range n).all (order.contains ·) && order.all (· < n)

def evalTermSim : List Nat → St → St × Bool
  | [], st => (st, false)
  | c :: rest, st =>
    let v := P.code.cond c st.time
    let st := st.emit (.cond .termSim c v)
    if v then (st, true) else evalTermSim rest st

mutual
/-- `DynamicScenario._checkSimulationTerminationConditions`: the scenario's own
    `terminate simulation when` conditions, then those of its running sub-scenarios -/
def termSimTree : Nat → Nat → St → St × Bool
  | 0, _, st => (st.fail .stuck, false)
  | n + 1, i, st =>
    match evalTermSim P (P.scens.getD (st.inst i).cls default).termSimWhen st with
    | (st, true) => (st, true)
    | (st, false) => termSimList n (st.inst i).subs st

def termSimList : Nat → List Nat → St → St × Bool
  | 0, _, st => (st.fail .stuck, false)
  | _ + 1, [], st => (st, false)
  | n + 1, j :: rest, st =>
    if (st.inst j).running then
      match termSimTree n j st with
      | (st, true) => (st, true)
      | (st, false) => termSimList n rest st
    else termSimList n rest st
end

/-- `dynamicScenario._checkSimulationTerminationConditions()` on the top-level scenario -/
def termSimTop (fuel : Nat) (st : St) : St × Bool :=
  match evalTermSim P P.termSimWhen st with
  | (st, true) => (st, true)
  | (st, false) => termSimList P fuel (st.inst 0).subs st

mutual
/-- `DynamicScenario._evaluateRecordedExprsAt(place, …)`: the scenario's own recorded
    expressions (`f` selects the place), then those of every scenario in `_subScenarios`
    (whether it is still running or not) -/
def recTree (f : ScenCls → List Ev) : Nat → Nat → St → St
  | 0, _, st => st.fail .stuck
  | n + 1, i, st =>
    recList f n (st.inst i).subs (st.emits (f (P.scens.getD (st.inst i).cls default)))

def recList (f : ScenCls → List Ev) : Nat → List Nat → St → St
  | 0, _, st => st.fail .stuck
  | _ + 1, [], st => st
  | n + 1, j :: rest, st => recList f n rest (recTree f n j st)
end

def recInitEvs (c : ScenCls) : List Ev := if c.recInit then [.recInit] else []
def recEvs (c : ScenCls) : List Ev := c.recs.map .recd
def recFinalEvs (c : ScenCls) : List Ev := if c.recFinal then [.recFinal] else []

/-- `Simulation.recordCurrentState` -/
def recordState (fuel : Nat) (st : St) : St :=
  let st := if st.time = 0 then recTree P recInitEvs fuel 0 st else st
  let st := recTree P recEvs fuel 0 st
  st.emit (.traj st.time)

variable (fuel : Nat) (sched : Nat → Nat → List Nat)

/-- one phase of one iteration; `some t` = `_run` returns with termination type `t` -/
def runPhase (ph : Phase) (st : St) (lp : Loop) : St × Loop × Option Term :=
  match ph with
  | .scen =>
    match stepScen P cf fuel 0 st with
    | (st, .abort) => (if st.abort.isSome then st else st.fail .error, lp, none)
    | (st, .cont) => (st, { lp with pending := none }, none)
    | (st, _) => (st, { lp with pending := some .scenarioComplete }, none)
  | .record => (recordState P fuel st, lp, none)
  | .monitors =>
    match runMonitors P cf fuel 0 st with
    | (st, r) => (st, if r = .none then lp else { lp with pending := some .terminatedByMonitor }, none)
  | .retPending => (st, lp, lp.pending)
  | .termSimWhen =>
    match termSimTop P fuel st with
    | (st, true) => (st, lp, some .simulationTerminationCondition)
    | (st, false) => (st, lp, none)
  | .maxSteps => (st, lp, if P.maxSteps ≠ 0 ∧ P.maxSteps ≤ st.time then some .timeLimit else none)
  | .behaviors =>
    let order := sched st.time st.agents.length
    let st := st.emit (.sched order)
    if !sameSet st.agents.length order then (st.fail .error, lp, none) else
    match behLoop P cf fuel order [] st with
    | (st, acts, t) => (st, { lp with acts := acts }, t)
  | .actions => (st.emit (.act st.time lp.acts), lp, none)
  | .simStep => (st.emit (.sim st.time), lp, none)
  | .clock => ({ st with time := st.time + 1 }, lp, none)
  | .update => (st.emit (.upd st.time), lp, none)

/-- run the phases of one iteration in the given order -/
def runPhases : List Phase → St → Loop → St × Option Term
  | [], st, _ => (st, none)
  | ph :: rest, st, lp =>
    match runPhase P cf fuel sched ph st lp with
    | (st, _, some t) => (st, some t)
    | (st, lp, none) => if st.abort.isSome then (st, none) else runPhases rest st lp

/-- `while True:` of `_run`, at most `n` iterations -/
def runLoop : Nat → St → St × Option Term
  | 0, st => (st.fail .stuck, none)
  | n + 1, st =>
    match runPhases P cf fuel sched S.order st {} with
    | (st, some t) => (st, some t)
    | (st, none) => if st.abort.isSome then (st, none) else runLoop n st

/-- state when `_run` is entered: top-level scenario started, `updateObjects()` done -/
def initSt : St :=
  (startOne P 0 { time := 0, insts := [], agents := [], log := [], abort := none }).emit (.upd 0)

/-- after `_run`: stop the scenarios still running (most recently started first), then
    `record final` -/
def stopAll : List Nat → St → St
  | [], st => st
  | i :: rest, st =>
    let st := if (st.inst i).running then stopScen fuel i st else st
    if st.abort.isSome then st else stopAll rest st

def finish (st : St) : St :=
  let st := stopAll fuel (List.range st.insts.length).reverse st
  if st.abort.isSome then st else recTree P recFinalEvs fuel 0 st

structure Result where
  log : List Ev
  time : Nat
  term : Option Term
  abort : Option Abort
  deriving Inhabited

/-- `Simulation.__init__` from `_run` on -/
def simulate : Result :=
  match runLoop P S cf fuel sched (P.maxSteps + 1) (initSt P) with
  | (st, some t) =>
    let st := finish P fuel st
    ⟨st.log, st.time, if st.abort.isSome then none else some t, st.abort⟩
  | (st, none) => ⟨st.log, st.time, none, st.abort⟩

end

/-- `len(result.trajectory)`, `len(result.actions)` and the number of simulator steps -/
def Result.trajLen (r : Result) : Nat := (r.log.filter Ev.isTraj).length
def Result.actLen (r : Result) : Nat := (r.log.filter Ev.isAct).length
def Result.simSteps (r : Result) : Nat := (r.log.filter Ev.isSim).length

end Scenic.SimLoop
