/-
Model of seeded scene generation (C15), core Lean only.

What is modelled (read from /repo/src/scenic/core):

* `Samplable.sampleAll` / `Samplable.sample` (distributions.py): depth-first evaluation of a DAG
  of samplable values in the order of the `dependencies` tuple, children in the order of
  `_dependencies`, memoised in an *identity-keyed* dictionary (`DefaultIdentityDict`).  A node
  whose `sampleGiven` draws from Python's `random` or from `numpy.random` consumes the next
  element of the corresponding user-visible generator; a `RejectionException` raised inside
  `sampleGiven` aborts the whole attempt but the generator keeps what was consumed.
* `Scenario._generateInner` (scenarios.py): one draw from Python's generator per user requirement
  (soft-requirement activation, in order), then the rejection loop: `sampleAll`, save of both
  generator states, requirement checking by an *arbitrary* checker (it may consume either generator,
  keep history, and order its checks by wall-clock measurements), restore of both states.
  Which states are saved and restored is data (`Bracket`), regenerated from the source.
* `Scenario.generate` for several scenes sharing the iteration budget.
* the sequential requirement checkers of sample_checking.py: `WeightedAcceptanceChecker`
  (active requirements in an order chosen from timing history, trailing optional requirements
  dropped, first falsified requirement wins) and `BasicChecker`.

Identities (`Id`) stand for `id()` of the Python objects: the model only ever compares them for
equality, which is what the renaming theorem (`Props/C15.lean`) makes precise.
-/
namespace Scenic.Det

abbrev Id := Nat
abbrev Val := Nat
/-- the identity-keyed dictionary of sampled values (`DefaultIdentityDict`), newest binding first -/
abbrev Memo := List (Id × Val)

/-- which user-visible generator `sampleGiven` of a node draws from -/
inductive Src where
  | py | np | none
deriving DecidableEq, Repr, Inhabited

structure Node where
  src : Src
  /-- selects the deterministic function computed by `sampleGiven` (interpreted by `sem`) -/
  tag : Nat
  /-- `_conditioned._dependencies`, in order -/
  deps : List Id
deriving Repr, Inhabited, DecidableEq

abbrev Table := List (Id × Node)

/-- state of the two user-visible generators (`random`, `numpy.random`) -/
structure RS (σ : Type) where
  py : σ
  np : σ
deriving Repr, DecidableEq

def get (m : Memo) (i : Id) : Val := (m.lookup i).getD 0
def has (m : Memo) (i : Id) : Bool := (m.lookup i).isSome

section
variable {σ : Type}
-- the generator: next output and next state (any function: all seeds, all generators)
variable (nx : σ → Nat × σ)
-- `sampleGiven`: tag, drawn number (0 when the node does not draw), child values;
-- `none` = `RejectionException`
variable (sem : Nat → Nat → List Val → Option Val)

def drawFrom : Src → RS σ → Nat × RS σ
  | .py, rs => ((nx rs.py).1, { rs with py := (nx rs.py).2 })
  | .np, rs => ((nx rs.np).1, { rs with np := (nx rs.np).2 })
  | .none, rs => (0, rs)

/-- `for child in deps: if child not in subsamples: subsamples[child] = child.sample(subsamples)` -/
def visitList (visit : Id → Memo → RS σ → Option (Val × Memo) × RS σ) :
    List Id → Memo → RS σ → Option Memo × RS σ
  | [], m, rs => (some m, rs)
  | i :: is, m, rs =>
    if has m i then visitList visit is m rs
    else match visit i m rs with
      | (none, rs') => (none, rs')
      | (some (v, m'), rs') => visitList visit is ((i, v) :: m') rs'

/-- `Samplable.sample` with recursion depth bounded by the fuel (the graph is a DAG; fuel =
    number of nodes always suffices).  An identity that is not in the table is a value that needs
    no sampling (`q if not needsSampling(q)`): it is bound without drawing. -/
def sampleNode (tbl : Table) : Nat → Id → Memo → RS σ → Option (Val × Memo) × RS σ
  | 0 => fun _ _ rs => (none, rs)
  | f + 1 => fun i m rs =>
    match tbl.lookup i with
    | none => (some (0, m), rs)
    | some nd =>
      match visitList (sampleNode tbl f) nd.deps m rs with
      | (none, rs') => (none, rs')
      | (some m', rs') =>
        let d := drawFrom nx nd.src rs'
        match sem nd.tag d.1 (nd.deps.map (get m')) with
        | none => (none, d.2)
        | some v => (some (v, m'), d.2)

/-- `Samplable.sampleAll(order)`: `none` = the attempt was rejected while sampling -/
def sampleAll (tbl : Table) (fuel : Nat) (order : List Id) (rs : RS σ) : Option Memo × RS σ :=
  visitList (sampleNode nx sem tbl fuel) order [] rs

/-- which generator states `_generateInner` saves before and restores after requirement checking -/
structure Bracket where
  savePy : Bool
  saveNp : Bool
  restorePy : Bool
  restoreNp : Bool
deriving Repr, DecidableEq

def Bracket.full (b : Bracket) : Bool := b.savePy && b.saveNp && b.restorePy && b.restoreNp

/-- state after the bracket: `saved` was taken before checking, `after` is what the checker left -/
def restore (b : Bracket) (saved after : RS σ) : RS σ :=
  { py := if b.savePy && b.restorePy then saved.py else after.py,
    np := if b.saveNp && b.restoreNp then saved.np else after.np }

/-- soft-requirement activation: one draw from Python's generator per user requirement, in order;
    `le = true` models `random.random() <= prob`, `false` models `<` -/
def activate (le : Bool) : List Nat → σ → List Bool × σ
  | [], s => ([], s)
  | p :: ps, s =>
    let r := activate le ps (nx s).2
    ((if le then decide ((nx s).1 ≤ p) else decide ((nx s).1 < p)) :: r.1, r.2)

/-- A requirement checker: any function of its own state `κ` (timing history, buffers), the
    activation flags, the sample and the generator states; it returns the verdict (`true` =
    rejected), its new state and whatever it did to the generators. -/
abbrev Checker (σ κ : Type) := κ → List Bool → Memo → RS σ → Bool × κ × RS σ

structure Outcome (σ κ : Type) where
  /-- sampled values and number of iterations used; `none` = budget exhausted (`RejectionException`) -/
  result : Option (Memo × Nat)
  chk : κ
  rs : RS σ

variable {κ : Type}

/-- the rejection loop of `_generateInner`: `n` = iterations still allowed, `it` = used so far -/
def loop (tbl : Table) (fuel : Nat) (order : List Id) (b : Bracket) (chk : Checker σ κ)
    (acts : List Bool) : Nat → Nat → κ → RS σ → Outcome σ κ
  | 0, _, k, rs => ⟨none, k, rs⟩
  | n + 1, it, k, rs =>
    match sampleAll nx sem tbl fuel order rs with
    | (none, rs') => loop tbl fuel order b chk acts n (it + 1) k rs'
    | (some m, rs') =>
      let c := chk k acts m rs'
      let rs'' := restore b rs' c.2.2
      if c.1 then loop tbl fuel order b chk acts n (it + 1) c.2.1 rs''
      else ⟨some (m, it + 1), c.2.1, rs''⟩

structure Program where
  tbl : Table
  fuel : Nat
  /-- `Scenario.dependencies` -/
  order : List Id
  /-- activation thresholds of the user requirements, in order -/
  probs : List Nat
  /-- what a scene shows: objects and global parameters -/
  view : List Id
deriving Repr

def sceneOf (view : List Id) (m : Memo) : List Val := view.map (get m)

/-- `Scenario._generateInner(maxIterations)` -/
def generateInner (P : Program) (b : Bracket) (le : Bool) (chk : Checker σ κ) (maxIt : Nat)
    (k : κ) (rs : RS σ) : Outcome σ κ :=
  let a := activate nx le P.probs rs.py
  loop nx sem P.tbl P.fuel P.order b chk a.1 maxIt 0 k { rs with py := a.2 }

structure ManyOutcome (σ κ : Type) where
  /-- scenes generated so far with their iteration counts (in order) -/
  scenes : List (List Val × Nat)
  /-- `false` = a scene could not be generated within the remaining budget -/
  ok : Bool
  chk : κ
  rs : RS σ

/-- `Scenario.generate(numScenes, maxIterations)`: the scenes share the iteration budget and the
    checker keeps its history from one scene to the next -/
def generateMany (P : Program) (b : Bracket) (le : Bool) (chk : Checker σ κ) :
    Nat → Nat → κ → RS σ → ManyOutcome σ κ
  | 0, _, k, rs => ⟨[], true, k, rs⟩
  | n + 1, budget, k, rs =>
    let o := generateInner nx sem P b le chk budget k rs
    match o.result with
    | none => ⟨[], false, o.chk, o.rs⟩
    | some (m, its) =>
      let r := generateMany P b le chk n (budget - its) o.chk o.rs
      ⟨(sceneOf P.view m, its) :: r.scenes, r.ok, r.chk, r.rs⟩

/-! ### the sequential checkers of sample_checking.py -/

/-- a requirement as a checker sees it: its verdict on a sample (`true` = falsified) and whatever
    evaluating it does to the user-visible generators -/
structure Req (σ : Type) where
  optional : Bool
  run : Memo → RS σ → Bool × RS σ

/-- evaluate in the given order, stop at the first falsified requirement -/
def seqRun : List (Req σ) → Memo → RS σ → Bool × RS σ
  | [], _, rs => (false, rs)
  | r :: rest, m, rs =>
    if (r.run m rs).1 then (true, (r.run m rs).2) else seqRun rest m (r.run m rs).2

/-- `while reqs and reqs[-1].optional: reqs.pop()` -/
def popTrailingOptional (l : List (Req σ)) : List (Req σ) :=
  (l.reverse.dropWhile (·.optional)).reverse

/-- `WeightedAcceptanceChecker`: `arrange` is the sort by measured cost (any function of the
    history `κ`), `update` the bookkeeping of timings; `reqsOf acts` are the active requirements -/
def weightedChecker (reqsOf : List Bool → List (Req σ))
    (arrange : κ → List (Req σ) → List (Req σ)) (update : κ → Memo → Bool → κ) : Checker σ κ :=
  fun k acts m rs =>
    let r := seqRun (popTrailingOptional (arrange k (reqsOf acts))) m rs
    (r.1, update k m r.1, r.2)

/-- `BasicChecker` (optional requirements dropped, fixed order) -/
def basicChecker (reqsOf : List Bool → List (Req σ)) : Checker σ Unit :=
  fun _ acts m rs =>
    let r := seqRun ((reqsOf acts).filter (fun q => !q.optional)) m rs
    (r.1, (), r.2)

end

/-! ### identities as addresses -/

/-- the same object graph laid out at other addresses -/
def renNode (ρ : Id → Id) (nd : Node) : Node := { nd with deps := nd.deps.map ρ }
def renTable (ρ : Id → Id) (t : Table) : Table := t.map fun p => (ρ p.1, renNode ρ p.2)
def renMemo (ρ : Id → Id) (m : Memo) : Memo := m.map fun p => (ρ p.1, p.2)
def renProgram (ρ : Id → Id) (P : Program) : Program :=
  { P with tbl := renTable ρ P.tbl, order := P.order.map ρ, view := P.view.map ρ }

/-- iteration order of a CPython `set` of objects hashed by address: by slot `hash mod size`
    (a simplification without collisions probing: stable insertion sort by slot) -/
def insertBySlot (size : Nat) (x : Id) : List Id → List Id
  | [] => [x]
  | y :: ys => if x % size < y % size then x :: y :: ys else y :: insertBySlot size x ys

def setOrder (size : Nat) (ids : List Id) : List Id :=
  ids.foldl (fun acc x => insertBySlot size x acc) []

/-! ### concrete instance run by the driver -/

/-- list-backed generator: the outputs of the real generator, in order (0 when exhausted) -/
def listNext : List Nat → Nat × List Nat
  | [] => (0, [])
  | x :: xs => (x, xs)

/-- the `sampleGiven` functions of the correspondence harness's stub nodes
    (`tools/props/c15.py: StubNode.sampleGiven` computes the same): a weighted sum of the drawn
    number and the child values; tags with `tag % 8 = 7` reject when the value is divisible by 3 -/
def weightedSum : Nat → List Val → Nat
  | _, [] => 0
  | k, v :: vs => k * v + weightedSum (k + 1) vs

def stubSem (tag drawn : Nat) (vals : List Val) : Option Val :=
  let v := (drawn + tag + weightedSum 2 vals) % 1000003
  if tag % 8 = 7 ∧ v % 3 = 0 then none else some v

end Scenic.Det
