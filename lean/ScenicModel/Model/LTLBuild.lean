import ScenicModel.Model.LTL
/-
Building the rv_ltl formula from a Scenic proposition tree, through the class → constructor table that
`tools/translate/ltl.py` extracts from `propositions.py` (core Lean only; used by the driver and by the
side conditions in `Props/C11.lean`).

Scenic trees arrive as prefix token lists of Scenic class names:
  `Atom k | Always φ | Eventually φ | Next φ | Not φ | And n φ₁ … φₙ | Or n φ₁ … φₙ | Until φ ψ | Implies φ ψ`
-/
namespace Scenic.LTL

abbrev CtorMap := List (String × String × List Nat)

/-- the table the property needs: every class builds its namesake, operands in source order -/
def canonicalCtorMap : CtorMap :=
  [("Always", "Always", [0]), ("Eventually", "Eventually", [0]), ("Next", "Next", [0]), ("Not", "Not", [0]),
   ("And", "And", []), ("Or", "Or", []), ("Until", "Until", [0, 1]), ("Implies", "Implies", [0, 1])]

/-- the expansions of rv_ltl's sugar monitors that `evalAt` hard-wires -/
def canonicalSugar : List (String × String) :=
  [("Eventually", "Until(True,x)"), ("Always", "Not(Eventually(Not(x)))"), ("Implies", "Or(Not(x),y)")]

/-- the classes whose presence makes a requirement temporal (`is_temporal`, used by `has_temporal_operator`) -/
def canonicalTemporal : List String := ["Always", "Eventually", "Next", "Until"]

/-- apply an rv_ltl constructor to already-built operands -/
def applyCtor (rv : String) (ops : List F) : Option F :=
  match rv, ops with
  | "Always", [f] => some (.always f)
  | "Eventually", [f] => some (.eventually f)
  | "Next", [f] => some (.next f)
  | "Not", [f] => some (.not f)
  | "Until", [a, b] => some (.until a b)
  | "Implies", [a, b] => some (.implies a b)
  | "And", fs => some (F.andL fs)
  | "Or", fs => some (F.orL fs)
  | _, _ => none

def lookupCtor (m : CtorMap) (cls : String) : Option (String × List Nat) :=
  (m.find? (fun e => e.1 == cls)).map (·.2)

/-- operands actually passed to the rv_ltl constructor: `[ops[p] for p in perm]` (variadic classes pass all) -/
def permute (perm : List Nat) (ops : List F) : Option (List F) :=
  if perm.isEmpty then some ops else perm.mapM (fun p => ops[p]?)

def arity : String → Option Nat
  | "Always" | "Eventually" | "Next" | "Not" => some 1
  | "Until" | "Implies" => some 2
  | _ => none

mutual
  /-- parse one Scenic tree from a prefix token list -/
  def parseTree (m : CtorMap) : Nat → List String → Option (F × List String)
    | 0, _ => none
    | _ + 1, [] => none
    | _ + 1, "Atom" :: k :: rest => k.toNat?.map fun a => (F.atom a, rest)
    | fuel + 1, cls :: rest =>
      match arity cls with
      | some n =>
        match parseMany m fuel n rest with
        | some (ops, rest') =>
          match lookupCtor m cls with
          | some (rv, perm) => (permute perm ops).bind fun ops' => (applyCtor rv ops').map fun f => (f, rest')
          | none => none
        | none => none
      | none =>
        if cls == "And" || cls == "Or" then
          match rest with
          | k :: rest1 =>
            match k.toNat? with
            | some n =>
              match parseMany m fuel n rest1 with
              | some (ops, rest') =>
                match lookupCtor m cls with
                | some (rv, perm) => (permute perm ops).bind fun ops' => (applyCtor rv ops').map fun f => (f, rest')
                | none => none
              | none => none
            | none => none
          | [] => none
        else none
  def parseMany (m : CtorMap) : Nat → Nat → List String → Option (List F × List String)
    | 0, _, _ => none
    | _ + 1, 0, toks => some ([], toks)
    | fuel + 1, k + 1, toks =>
      match parseTree m fuel toks with
      | some (f, rest) =>
        match parseMany m fuel k rest with
        | some (fs, rest') => some (f :: fs, rest')
        | none => none
      | none => none
end

def build (m : CtorMap) (toks : List String) : Option F :=
  match parseTree m (2 * toks.length + 2) toks with
  | some (f, []) => some f
  | _ => none

/-- the trace number `x` of length `len` over `k` atoms: atom `a` in step `t` is bit `k*t + a` of `x` -/
def traceOfCode (k x : Nat) : Trace := fun t a => decide (a < k) && (x >>> (k * t + a)) % 2 == 1

end Scenic.LTL
