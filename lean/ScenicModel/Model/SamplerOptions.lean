import ScenicModel.Model.Sampler
/-!
# The dict branch of `Options.__init__` (distributions.py): which options and weights a weighted choice keeps

`Options({o_0: w_0, ...})` / `Discrete({...})` walks the items in order; a weight that is not a constant number raises
`TypeError`, a negative one `ValueError`, a zero one is *skipped* (the option is dropped: it is neither an option of the
multiplexer nor one of its dependencies, so it is never sampled), every other item is appended to `options` and
`weights`; no option left raises `RejectionException`; the selector is `DiscreteRange(0, len(options) - 1, weights)`.
`Options.clone` (`resample`) rebuilds from the kept `optWeights`.

The comparisons and constants are data (`OptCfg`), regenerated from the source into `Gen/SamplerOptCfg.lean`.
Core Lean only, executable (run by `Driver/C01.lean`, command `optbuild`).
-/
namespace Scenic.Sampler

inductive WCmp | lt | le | eq | ne | ge | gt
  deriving DecidableEq, Repr

def WCmp.test : WCmp → Rat → Rat → Bool
  | .lt, a, b => decide (a < b)
  | .le, a, b => decide (a ≤ b)
  | .eq, a, b => decide (a = b)
  | .ne, a, b => !decide (a = b)
  | .ge, a, b => decide (b ≤ a)
  | .gt, a, b => decide (b < a)

structure OptCfg where
  /-- a weight with `prob <negCmp> negConst` raises `ValueError` -/
  negCmp : WCmp
  negConst : Int
  /-- a weight with `prob <skipCmp> skipConst` is skipped (`continue`) before both appends -/
  skipCmp : WCmp
  skipConst : Int
  /-- `len(options) <emptyCmp> emptyConst` raises `RejectionException` -/
  emptyCmp : WCmp
  emptyConst : Int
  deriving DecidableEq, Repr

/-- the configuration the property needs: negative weights refused, exactly the zero weights dropped, an empty
    domain rejected -/
def OptCfg.WF (c : OptCfg) : Prop :=
  c.negCmp = .lt ∧ c.negConst = 0 ∧ c.skipCmp = .eq ∧ c.skipConst = 0 ∧ c.emptyCmp = .eq ∧ c.emptyConst = 0

instance (c : OptCfg) : Decidable c.WF := by unfold OptCfg.WF; infer_instance

inductive LoopErr | typeError | negative
  deriving DecidableEq, Repr

/-- the loop `for opt, prob in opts.items()`: an item is (option node, weight), `none` = not a constant number.
    The first offending item raises. -/
def optLoop (c : OptCfg) : List (Nat × Option Rat) → Except LoopErr (List (Nat × Rat))
  | [] => .ok []
  | (_, none) :: _ => .error .typeError
  | (o, some w) :: rest =>
    if c.negCmp.test w (c.negConst : Rat) then .error .negative
    else match optLoop c rest with
      | .error e => .error e
      | .ok kept => if c.skipCmp.test w (c.skipConst : Rat) then .ok kept else .ok ((o, w) :: kept)

inductive Built
  | typeError
  | negative
  | empty
  | ok (opts : List Nat) (ws : List Rat)
  deriving DecidableEq, Repr

/-- `Options.__init__` on a dict: the options and weights handed to `makeSelector` / `MultiplexerDistribution` -/
def optBuild (c : OptCfg) (items : List (Nat × Option Rat)) : Built :=
  match optLoop c items with
  | .error .typeError => .typeError
  | .error .negative => .negative
  | .ok kept =>
    if c.emptyCmp.test ((kept.length : Nat) : Rat) (c.emptyConst : Rat) then .empty
    else .ok (kept.map (·.1)) (kept.map (·.2))

/-- the two nodes the constructor creates: weighted selector and multiplexer (selector stored at `idx`) -/
def optNodes (idx : Nat) (opts : List Nat) (ws : List Rat) : Node × Node := (.windex ws, .mux idx opts)

/-- `Options.clone`: `type(self)(self.optWeights)` — the constructor runs again on the kept items -/
def optClone (c : OptCfg) (opts : List Nat) (ws : List Rat) : Built :=
  optBuild c ((opts.zip ws).map fun p => (p.1, some p.2))

/-- declarative: the items with a non-zero weight, in order -/
def keptSpec : List (Nat × Option Rat) → List (Nat × Rat)
  | [] => []
  | (_, none) :: rest => keptSpec rest
  | (o, some w) :: rest => if w = 0 then keptSpec rest else (o, w) :: keptSpec rest

/-- declarative: the error the first offending item raises, if any -/
def firstErr : List (Nat × Option Rat) → Option LoopErr
  | [] => none
  | (_, none) :: _ => some .typeError
  | (_, some w) :: rest => if w < 0 then some .negative else firstErr rest

/-- all weights are constant numbers and none is negative -/
def Proper (items : List (Nat × Option Rat)) : Prop := ∀ it ∈ items, ∃ w, it.2 = some w ∧ 0 ≤ w

/-- total weight of the items (non-numbers count 0) -/
def itemsTotal : List (Nat × Option Rat) → Rat
  | [] => 0
  | (_, none) :: rest => itemsTotal rest
  | (_, some w) :: rest => w + itemsTotal rest

end Scenic.Sampler
