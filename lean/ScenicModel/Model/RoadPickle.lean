/-!
# Pickling of a road network: `_ElementReferencer.__getstate__`, `NetworkElement.__getstate__`,
`Network.__setstate__` (model of `scenic.domains.driving.roads`)

The object graph is a heap (list of objects, addressed by position).  Of an object's `__dict__` only the
attributes that refer to other objects are kept: a *direct* reference (`Val.ref`), a tuple / list / dict of
references (`Val.tup`: `__getstate__` looks at top-level values only and pickle's memo keeps identities, so
these survive as they are), an `_ElementPlaceholder(uid)` (`Val.ph`).  `self.elements[uid]` of a uid that is not
a key raises `KeyError`: the value becomes `Val.keyError` and `raised` is the observable (after a KeyError the
real `__setstate__` stops, so only `raised` is then meaningful).  `hasNet` = the object has a `network`
attribute.  uids are numbered by the exporter.  No Mathlib: compiled into the driver.
-/
namespace Scenic.Roads.Pickle

inductive Val
  | ref (i : Nat) | ph (uid : Nat) | tup (is : List Nat) | keyError (uid : Nat)
  deriving DecidableEq, Repr

structure Obj where
  /-- subclass of `_ElementReferencer` -/
  mixin : Bool
  /-- instance of `NetworkElement` -/
  isElem : Bool
  uid : Nat
  hasNet : Bool
  attrs : List (String × Val)
  deriving DecidableEq, Repr

/-- what the translator extracts from the three methods -/
structure Cfg where
  /-- `NetworkElement.__getstate__` deletes `network` -/
  dropsNetwork : Bool
  /-- `__setstate__` assigns `elem.network` to every value of `self.elements` -/
  setsNetwork : Bool
  /-- the Network attributes whose members' maneuvers are reconnected, in order -/
  manOwners : List String
  manAttr : String
  deriving DecidableEq, Repr

structure Net where
  /-- the dict `elements`: uid ↦ object, in order -/
  elements : List (Nat × Nat)
  /-- tuple attributes of the Network object -/
  lists : List (String × List Nat)
  deriving Repr

abbrev Heap := List Obj

def uidOf (h : Heap) (i : Nat) : Option Nat :=
  match h[i]? with
  | some o => if o.isElem then some o.uid else none
  | none => none

/-- `if isinstance(value, NetworkElement): state[key] = _ElementPlaceholder(value.uid)` -/
def getVal (h : Heap) : Val → Val
  | .ref i => match uidOf h i with
    | some u => .ph u
    | none => .ref i
  | v => v

def mapVals (g : Val → Val) (o : Obj) : Obj := { o with attrs := o.attrs.map fun kv => (kv.1, g kv.2) }

def getstateObj (cfg : Cfg) (h : Heap) (o : Obj) : Obj :=
  if o.mixin then
    let o' := mapVals (getVal h) o
    if o.isElem && cfg.dropsNetwork then { o' with hasNet := false } else o'
  else o

/-- the pickled graph (pickle itself is trusted to preserve the graph of states) -/
def getstate (cfg : Cfg) (h : Heap) : Heap := h.map (getstateObj cfg h)

/-- `if isinstance(value, _ElementPlaceholder): state[key] = self.elements[value.uid]` -/
def recVal (els : List (Nat × Nat)) : Val → Val
  | .ph u => match els.lookup u with
    | some i => .ref i
    | none => .keyError u
  | v => v

def recObj (els : List (Nat × Nat)) (o : Obj) : Obj := mapVals (recVal els) o

/-- body of the first loop: `reconnect(elem); elem.network = proxy` -/
def visitElem (cfg : Cfg) (els : List (Nat × Nat)) (o : Obj) : Obj :=
  let o' := recObj els o
  if cfg.setsNetwork then { o' with hasNet := true } else o'

def tupAttr (o : Obj) (k : String) : List Nat :=
  match o.attrs.lookup k with
  | some (.tup l) => l
  | _ => []

def applyAt (f : Obj → Obj) (h : Heap) (i : Nat) : Heap := h.modify i f

def elemIdx (net : Net) : List Nat := net.elements.map (·.2)

def phase1 (cfg : Cfg) (net : Net) (h : Heap) : Heap :=
  (elemIdx net).foldl (applyAt (visitElem cfg net.elements)) h

def owners (cfg : Cfg) (net : Net) : List Nat :=
  cfg.manOwners.flatMap fun k => (net.lists.lookup k).getD []

/-- the maneuvers visited by the second loop, read from the heap as it is at that moment -/
def manList (cfg : Cfg) (net : Net) (h : Heap) : List Nat :=
  (owners cfg net).flatMap fun e =>
    match h[e]? with
    | some o => tupAttr o cfg.manAttr
    | none => []

def setstate (cfg : Cfg) (net : Net) (h : Heap) : Heap :=
  let h1 := phase1 cfg net h
  (manList cfg net h1).foldl (applyAt (recObj net.elements)) h1

def roundtrip (cfg : Cfg) (net : Net) (h : Heap) : Heap := setstate cfg net (getstate cfg h)

def isErr : Val → Bool
  | .keyError _ => true
  | _ => false

def isPh : Val → Bool
  | .ph _ => true
  | _ => false

def raised (h : Heap) : Bool := h.any fun o => o.attrs.any fun kv => isErr kv.2

/-- the closed form proved equal to `roundtrip` position by position (`roundtrip_get`) -/
def finalObj (cfg : Cfg) (net : Net) (h : Heap) (j : Nat) (o : Obj) : Obj :=
  let p := getstateObj cfg h o
  if (elemIdx net).contains j then visitElem cfg net.elements p
  else if (manList cfg net h).contains j then recObj net.elements p
  else p

end Scenic.Roads.Pickle
