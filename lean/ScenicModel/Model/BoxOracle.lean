/-
Exact-geometry oracle used to re-verify accepted scenes (C02): convex polytopes given by the vertices and
triangular faces of the objects' `occupiedSpace` meshes, in any 3D pose.  All coordinates are *integers*
(the Python side scales the exact binary-rational values of the floats by a common power of two), so every
test below is exact.  Core Lean only.

Three-valued answers: a verdict is only given when it holds with an explicit margin `m` (in scaled units);
distances along an unnormalised axis `n` are compared with `m * ‖n‖₁ ≥ m * ‖n‖₂`, so no square root is needed
and the effective margin is between `m` and `√3 m`.
-/
namespace Scenic.Oracle

abbrev V3 := Int × Int × Int

def V3.sub (a b : V3) : V3 := (a.1 - b.1, a.2.1 - b.2.1, a.2.2 - b.2.2)
def V3.dot (a b : V3) : Int := a.1 * b.1 + a.2.1 * b.2.1 + a.2.2 * b.2.2
def V3.cross (a b : V3) : V3 :=
  (a.2.1 * b.2.2 - a.2.2 * b.2.1, a.2.2 * b.1 - a.1 * b.2.2, a.1 * b.2.1 - a.2.1 * b.1)
def V3.norm1 (a : V3) : Int := a.1.natAbs + a.2.1.natAbs + a.2.2.natAbs
def V3.isZero (a : V3) : Bool := a.1 == 0 && a.2.1 == 0 && a.2.2 == 0

structure Mesh where
  verts : List V3
  faces : List (Nat × Nat × Nat)

def Mesh.vert (m : Mesh) (i : Nat) : V3 := m.verts.getD i (0, 0, 0)

/-- unnormalised normal of each triangle `(p1 - p0) × (p2 - p0)` (outward for trimesh's winding), with a point on it -/
def Mesh.planes (m : Mesh) : List (V3 × V3) :=
  m.faces.map fun f =>
    let p0 := m.vert f.1
    (p0, ((m.vert f.2.1).sub p0).cross ((m.vert f.2.2).sub p0))

/-- undirected edges of the triangles, each once -/
def Mesh.edges (m : Mesh) : List (Nat × Nat) :=
  let es := m.faces.flatMap fun f => [(f.1, f.2.1), (f.2.1, f.2.2), (f.2.2, f.1)]
  (es.map fun e => if e.1 ≤ e.2 then e else (e.2, e.1)).eraseDups

def Mesh.edgeDirs (m : Mesh) : List V3 := m.edges.map fun e => (m.vert e.2).sub (m.vert e.1)

/-- `(min, max)` of `n · v` over the vertices -/
def extent (n : V3) : List V3 → Option (Int × Int)
  | [] => none
  | v :: vs =>
    let d := n.dot v
    match extent n vs with
    | none => some (d, d)
    | some (lo, hi) => some (min lo d, max hi d)

inductive Sat where
  /-- some axis separates the two vertex sets by more than the margin -/
  | separated
  /-- on every axis of the complete set the projections overlap by more than the margin -/
  | penetrating
  | undecided
deriving Repr, DecidableEq

/-- the classification of one axis: `some true` = separates with margin, `some false` = overlaps with margin -/
def axisVerdict (margin : Int) (a b : List V3) (n : V3) : Option Bool :=
  match extent n a, extent n b with
  | some (a0, a1), some (b0, b1) =>
    let gap := max (b0 - a1) (a0 - b1)
    let depth := min (a1 - b0) (b1 - a0)
    let tol := margin * n.norm1
    if gap > tol then some true
    else if depth > tol then some false
    else none
  | _, _ => none

def coordAxes : List V3 := [(1, 0, 0), (0, 1, 0), (0, 0, 1)]

/-- candidate axes: coordinate axes (cheap early exit), face normals of both, cross products of edges -/
def satAxes (a b : Mesh) : List V3 :=
  let fa := a.planes.map (·.2)
  let fb := b.planes.map (·.2)
  let ea := a.edgeDirs
  let eb := b.edgeDirs
  (coordAxes ++ fa ++ fb ++ ea.flatMap fun x => eb.map fun y => x.cross y).filter fun n => !n.isZero

/-- separating-axis test between two convex meshes -/
def sat (margin : Int) (a b : Mesh) : Sat :=
  -- cheap early exit (the coordinate axes are among `satAxes`, so this does not change the answer)
  if coordAxes.any (fun n => axisVerdict margin a.verts b.verts n == some true) then .separated else
  let axes := satAxes a b
  if axes.any (fun n => axisVerdict margin a.verts b.verts n == some true) then .separated
  else if axes.all (fun n => axisVerdict margin a.verts b.verts n == some false) then .penetrating
  else .undecided

inductive Side where
  | inside | outside | undecided
deriving Repr, DecidableEq

/-- points against an intersection of half-spaces `{x | n · (x - p) ≤ 0}` given as `(p, n)`:
    `outside` = some point is beyond some plane by more than the margin (so it is not in the region),
    `inside` = every point is behind every plane by more than the margin -/
def halfspaces (margin : Int) (hs : List (V3 × V3)) (pts : List V3) : Side :=
  let hs := hs.filter fun h => !h.2.isZero
  if pts.any (fun v => hs.any fun h => h.2.dot (v.sub h.1) > margin * h.2.norm1) then .outside
  else if pts.all (fun v => hs.all fun h => h.2.dot (v.sub h.1) < -(margin * h.2.norm1)) then .inside
  else .undecided

/-- half-planes of a convex polygon given counter-clockwise in the xy-plane (as vertical half-spaces) -/
def polygonPlanes : List (Int × Int) → List (V3 × V3)
  | [] => []
  | p :: ps =>
    let ring := p :: ps
    let nexts := ps ++ [p]
    (ring.zip nexts).map fun (a, b) => ((a.1, a.2, 0), (b.2 - a.2, -(b.1 - a.1), 0))

/-- twice the signed area (positive = counter-clockwise) -/
def signedArea2 : List (Int × Int) → Int
  | [] => 0
  | p :: ps => ((p :: ps).zip (ps ++ [p])).foldl (fun acc (a, b) => acc + (a.1 * b.2 - b.1 * a.2)) 0

/-- convexity of a counter-clockwise ring: every vertex is on or behind every edge's half-plane -/
def ringConvex (ring : List (Int × Int)) : Bool :=
  (polygonPlanes ring).all fun h => ring.all fun v => h.2.dot (V3.sub (v.1, v.2, 0) h.1) ≤ 0

/-! ## line of sight -/

/-- the parameter interval `[lo, hi] ⊆ [0, 1]` of the points `e + λ (t - e)` satisfying every constraint
    `n · (x - p) ≤ off(n)`; `none` = empty -/
def clip (off : V3 → Int) (e t : V3) : List (V3 × V3) → Rat × Rat → Option (Rat × Rat)
  | [], (lo, hi) => if lo ≤ hi then some (lo, hi) else none
  | (p, n) :: hs, (lo, hi) =>
    let a : Int := n.dot (e.sub p)
    let b : Int := n.dot (t.sub e)
    let c : Int := off n
    if b == 0 then (if a ≤ c then clip off e t hs (lo, hi) else none)
    else
      let q : Rat := ((c - a : Int) : Rat) / (b : Rat)
      if b > 0 then clip off e t hs (lo, min hi q) else clip off e t hs (max lo q, hi)

/-- the segment `e → t` meets the polytope shrunk by the margin -/
def segmentHitsDeep (margin : Int) (e t : V3) (m : Mesh) : Bool :=
  let hs := m.planes.filter fun h => !h.2.isZero
  (clip (fun n => -(margin * n.norm1)) e t hs (0, 1)).isSome

/-- the segment `e → t` misses the polytope grown by the margin -/
def segmentMissesWide (margin : Int) (e t : V3) (m : Mesh) : Bool :=
  let hs := m.planes.filter fun h => !h.2.isZero
  (clip (fun n => margin * n.norm1) e t hs (0, 1)).isNone

inductive Sight where
  /-- one occluder cuts every sight line from the eye to the vertices of the (convex) target, hence to all of it -/
  | blocked
  /-- the sight line to the target point misses every occluder -/
  | clear
  | undecided
deriving Repr, DecidableEq

/-- `targets` = vertices of a convex target (for `blocked`) ; `centre` = its position (for `clear`) -/
def lineOfSight (margin : Int) (eye centre : V3) (targets : List V3) (occluders : List Mesh) : Sight :=
  if !targets.isEmpty && occluders.any (fun o => targets.all fun t => segmentHitsDeep margin eye t o) then .blocked
  else if occluders.all (fun o => segmentMissesWide margin eye centre o) then .clear
  else .undecided

/-- squared distance from a point to the axis-aligned bounding box of a vertex set -/
def distSqToAABB (e : V3) (vs : List V3) : Option Int :=
  match extent (1, 0, 0) vs, extent (0, 1, 0) vs, extent (0, 0, 1) vs with
  | some (x0, x1), some (y0, y1), some (z0, z1) =>
    let d (lo hi v : Int) : Int := max (max (lo - v) (v - hi)) 0
    let dx := d x0 x1 e.1; let dy := d y0 y1 e.2.1; let dz := d z0 z1 e.2.2
    some (dx * dx + dy * dy + dz * dz)
  | _, _, _ => none

/-! ## point in a closed triangle mesh (any shape: convexity is *not* assumed)

Used for pairs with a non-convex member, where separating axes cannot certify an overlap: a vertex of `A` lying
strictly (by the margin) inside the solid bounded by the closed mesh `B` is a common point of `A` and the interior
of `B`, so the volumes overlap.  Parity of the crossings of the vertical ray upwards from the point; every
degenerate position (the point's projection on an edge or vertex of a projected triangle, the point within the
margin of the plane of any face) makes the answer `none`. -/

/-- orientation of `p` relative to the directed edge `a → b` in the xy-projection -/
def orient2 (a b p : V3) : Int := (b.1 - a.1) * (p.2.1 - a.2.1) - (b.2.1 - a.2.1) * (p.1 - a.1)

inductive Cross where
  | hit | miss | degenerate
deriving Repr, DecidableEq

/-- does the ray `p + t (0,0,1)`, `t > 0`, cross the triangle `a b c`? -/
def rayCross (p a b c : V3) : Cross :=
  let o1 := orient2 a b p
  let o2 := orient2 b c p
  let o3 := orient2 c a p
  if (o1 > 0 && o2 > 0 && o3 > 0) || (o1 < 0 && o2 < 0 && o3 < 0) then
    -- strictly inside the projection (so `n_z ≠ 0`): the plane point above/below `p` is at height
    -- `p_z - d / n_z` where `d = n · (p - a)`
    let n := (b.sub a).cross (c.sub a)
    let d := n.dot (p.sub a)
    if d == 0 then .degenerate
    else if (d > 0) != (n.2.2 > 0) then .hit else .miss
  else if (o1 ≥ 0 && o2 ≥ 0 && o3 ≥ 0) || (o1 ≤ 0 && o2 ≤ 0 && o3 ≤ 0) then .degenerate
  else .miss

/-- `some true` = strictly inside the solid bounded by the closed mesh, at least the margin away from the plane of
    every face; `some false` = outside with the same margin; `none` = undecided -/
def pointInMesh (margin : Int) (m : Mesh) (p : V3) : Option Bool :=
  let clearOfPlanes := m.planes.all fun h => h.2.isZero || (h.2.dot (p.sub h.1)).natAbs > margin * h.2.norm1
  let cs := m.faces.map fun f => rayCross p (m.vert f.1) (m.vert f.2.1) (m.vert f.2.2)
  if !clearOfPlanes || cs.any (· == .degenerate) then none
  else some ((cs.filter (· == .hit)).length % 2 == 1)

/-- some of the points is certainly inside / all are certainly outside / undecided -/
def pointsInMesh (margin : Int) (m : Mesh) (pts : List V3) : Side :=
  let vs := pts.map (pointInMesh margin m)
  if vs.any (· == some true) then .inside
  else if vs.all (· == some false) then .outside
  else .undecided

end Scenic.Oracle
