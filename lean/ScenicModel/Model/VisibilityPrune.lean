/-!
C17 (round 4): executable model of the **angular pruning** of the object branch of `visibility.canSee`
(src/scenic/core/visibility.py, "First we check if the vertical angles overlap …" up to "## Generate candidate rays"),
and of the end points of the ray grid (`np.linspace` over the clipped windows).

Angles are exact rationals (the floats of the run); `pi` is a parameter (the float `math.pi` in the correspondence;
the theorems hold for every `0 < pi`).  Inputs: the raw `arctan2(y, x)` of the vertices (incl. the interpolated
edge points), their `arcsin(z/|v|)`, the two flags `target_crosses_ahead/behind`, `A = viewAngles[0]/2`,
`B = viewAngles[1]/2`.  Output: `none` = the code returns `False` without casting a ray; `some ws` = the
`view_ranges` in which rays are cast.
-/
namespace Scenic.Vis.Prune

/-- `mod(r - π/2 + π, 2π) - π` for a raw `arctan2` value `r ∈ [-π, π]` -/
def normAz (pi r : Rat) : Rat := if r - pi / 2 < -pi then r - pi / 2 + 2 * pi else r - pi / 2

/-- `np.clip(x, lo, hi) = minimum(maximum(x, lo), hi)` -/
def clip (x lo hi : Rat) : Rat :=
  if x < lo then (if hi < lo then hi else lo) else (if hi < x then hi else x)

def absR (x : Rat) : Rat := if x < 0 then -x else x

/-- `np.min` of a non-empty array `m :: xs` -/
def minL : Rat → List Rat → Rat
  | m, [] => m
  | m, x :: xs => minL (if x < m then x else m) xs

/-- `np.max` of a non-empty array `m :: xs` -/
def maxL : Rat → List Rat → Rat
  | m, [] => m
  | m, x :: xs => maxL (if m < x then x else m) xs

/-- the re-centring on the back of the viewer: `left_points (>= 0) -= π`, `right_points (< 0) += π` -/
def backShift (pi h : Rat) : Rat := if 0 ≤ h then h - pi else h + pi

/-- one `(h_range, v_range)` entry of `view_ranges` -/
structure Win where
  h0 : Rat
  h1 : Rat
  v0 : Rat
  v1 : Rat
deriving Repr, DecidableEq

/-- the pruning on normalised azimuths `h :: hs` and altitudes `v :: vs` -/
def pruneCore (pi A B : Rat) (ahead behind : Bool) (h : Rat) (hs : List Rat) (v : Rat) (vs : List Rat) :
    Option (List Win) :=
  let vmin := minL v vs
  let vmax := maxL v vs
  if B < vmin ∨ vmax < -B then none
  else if ahead && behind then some [⟨-A, A, -B, B⟩]
  else if behind then
    let smin := minL (backShift pi h) (hs.map (backShift pi))
    let smax := maxL (backShift pi h) (hs.map (backShift pi))
    let ov0 := clip vmin (-B) B
    let ov1 := clip vmax (-B) B
    let w1 := if pi < absR (-A) + absR smax then [Win.mk (-A) (-pi + smax) ov0 ov1] else []
    let w2 := if pi < absR A + absR smin then [Win.mk (pi + smin) A ov0 ov1] else []
    match w1 ++ w2 with
    | [] => none
    | ws => some ws
  else
    let hmin := minL h hs
    let hmax := maxL h hs
    if hmax < -A ∨ A < hmin then none
    else some [⟨clip hmin (-A) A, clip hmax (-A) A, clip vmin (-B) B, clip vmax (-B) B⟩]

/-- the pruning as the code performs it: raw `arctan2` values are normalised first -/
def pruneWindows (pi A B : Rat) (ahead behind : Bool) (raz alts : List Rat) : Option (List Win) :=
  match raz.map (normAz pi), alts with
  | h :: hs, v :: vs => pruneCore pi A B ahead behind h hs v vs
  | _, _ => none

/-- the `i`-th of the `n` points of `np.linspace(a, b, n)` (`n ≥ 2`) -/
def linspace (a b : Rat) (n i : Nat) : Rat := a + (b - a) * i / (n - 1 : Nat)

end Scenic.Vis.Prune
