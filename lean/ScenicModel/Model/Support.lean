import ScenicModel.Model.Expr
/-!
# C05 — static bounds (`supportInterval`) of random values: the interval arithmetic

`Supp` = (lower, upper), `none` = Python's `None` (unknown).  The per-operator formulas are *data*
(`Formulas`), regenerated from `OperatorDistribution.supportInterval` by tools/translate/c05_support.py
into `Gen/SupportFormulas.lean`; the `None`-propagation and dispatch around them is modelled here
and tied to the code by the correspondence run.  Mathlib-free.
-/
namespace Scenic.Support
open Scenic.Expr

abbrev Supp := Option Rat × Option Rat

def rmin (a b : Rat) : Rat := if a ≤ b then a else b
def rmax (a b : Rat) : Rat := if a ≤ b then b else a
def rmin4 (a b c d : Rat) : Rat := rmin (rmin a b) (rmin c d)
def rmax4 (a b c d : Rat) : Rat := rmax (rmax a b) (rmax c d)

/-- the formulas of `OperatorDistribution.supportInterval` on known bounds (l1, r1) of the object and
    (l2, r2) of the operand -/
structure Formulas where
  add : Rat → Rat → Rat → Rat → Supp
  sub : Rat → Rat → Rat → Rat → Supp
  rsub : Rat → Rat → Rat → Rat → Supp
  mul : Rat → Rat → Rat → Rat → Supp
  truediv : Rat → Rat → Rat → Rat → Supp
  rtruediv : Rat → Rat → Rat → Rat → Supp
  neg : Rat → Rat → Supp
  abs : Rat → Rat → Supp
  /-- dunder names handled by the binary branch, with the formula each one uses -/
  binOps : List (String × String)
  /-- dunder names handled by the unary branch -/
  unOps : List (String × String)

/-- abstraction of a distribution for the purpose of `supportInterval` -/
inductive SExpr where
  | const (q : Rat)                      -- an int/float constant
  | opaque                               -- anything without bounds: (None, None)
  | leaf (i : Nat)                       -- a distribution with given bounds
  | bin (op : BinOp) (refl : Bool) (obj arg : SExpr)     -- OperatorDistribution
  | un (op : UnOp) (obj : SExpr)
  | range (lo hi : SExpr)                -- Range(lo, hi)
  | drange (lo hi : SExpr)               -- DiscreteRange(lo, hi)
  | mux (opts : List SExpr)              -- Options / MultiplexerDistribution (also attribute-of-mux)
  | mono (f : Fn) (args : List SExpr)    -- monotonicDistributionFunction
  | truncnormal (lo hi : Rat)
  deriving Inhabited

def dunderOf (op : BinOp) (refl : Bool) : String :=
  "__" ++ (if refl then "r" else "") ++
    (match op with
     | .add => "add" | .sub => "sub" | .mul => "mul" | .truediv => "truediv"
     | .floordiv => "floordiv" | .mod => "mod" | .pow => "pow") ++ "__"

def unDunderOf : UnOp → String
  | .neg => "__neg__" | .pos => "__pos__" | .abs => "__abs__"

def Formulas.binF (F : Formulas) (name : String) : Option (Rat → Rat → Rat → Rat → Supp) :=
  match (F.binOps.find? (·.1 == name)).map (·.2) with
  | some "add" => some F.add
  | some "sub" => some F.sub
  | some "rsub" => some F.rsub
  | some "mul" => some F.mul
  | some "truediv" => some F.truediv
  | some "rtruediv" => some F.rtruediv
  | _ => none

def Formulas.unF (F : Formulas) (name : String) : Option (Rat → Rat → Supp) :=
  match (F.unOps.find? (·.1 == name)).map (·.2) with
  | some "neg" => some F.neg
  | some "abs" => some F.abs
  | _ => none

/-- `supmin` / `supmax` over a list: None if any is None -/
def supFold (f : Rat → Rat → Rat) : List (Option Rat) → Option Rat
  | [] => none
  | [x] => x
  | x :: rest => match x, supFold f rest with
    | some a, some b => some (f a b)
    | _, _ => none

def unionOfSupports (ss : List Supp) : Supp :=
  (supFold rmin (ss.map (·.1)), supFold rmax (ss.map (·.2)))

def allSome : List (Option Rat) → Option (List Rat)
  | [] => some []
  | some q :: rest => (allSome rest).map (q :: ·)
  | none :: _ => none

/-- `method(*bounds)` for the monotone functions: `max`/`min`; a single argument is not iterable (raises) -/
def monoApply (f : Fn) (qs : List Rat) : Option Rat :=
  match qs with
  | [] => none
  | [_] => none
  | q :: rest => some (rest.foldl (match f with | .max => ratMax | .min => ratMin) q)

mutual
  /-- `supportInterval(dist)`; the outer `none` = an exception is raised (no bounds are reported) -/
  def support (F : Formulas) (ivs : Nat → Supp) : SExpr → Option Supp
    | .const q => some (some q, some q)
    | .opaque => some (none, none)
    | .leaf i => some (ivs i)
    | .bin op refl obj arg =>
      match F.binF (dunderOf op refl) with
      | none => some (none, none)
      | some f =>
        (support F ivs obj).bind fun s1 => (support F ivs arg).bind fun s2 =>
          match s1, s2 with
          | (some l1, some r1), (some l2, some r2) => some (f l1 r1 l2 r2)
          | _, _ => some (none, none)
    | .un op obj =>
      match F.unF (unDunderOf op) with
      | none => some (none, none)
      | some f =>
        (support F ivs obj).bind fun s =>
          match s with
          | (some l, some r) => some (f l r)
          | _ => none                      -- `-None` / `None < 0` raise TypeError
    | .range lo hi =>
      (support F ivs lo).bind fun s1 => (support F ivs hi).bind fun s2 => some (unionOfSupports [s1, s2])
    | .drange lo hi =>
      (support F ivs lo).bind fun s1 => (support F ivs hi).bind fun s2 => some (s1.1, s2.2)
    | .mux opts => (supportList F ivs opts).map unionOfSupports
    | .mono f args =>
      (supportList F ivs args).bind fun ss =>
        let lo : Option (Option Rat) := match allSome (ss.map (·.1)) with
          | none => some none
          | some qs => (monoApply f qs).map some
        let hi : Option (Option Rat) := match allSome (ss.map (·.2)) with
          | none => some none
          | some qs => (monoApply f qs).map some
        lo.bind fun l => hi.map fun h => (l, h)
    | .truncnormal lo hi => some (some lo, some hi)
  def supportList (F : Formulas) (ivs : Nat → Supp) : List SExpr → Option (List Supp)
    | [] => some []
    | e :: rest => (support F ivs e).bind fun s => (supportList F ivs rest).map (s :: ·)
end

end Scenic.Support
