import ScenicModel.Model.Expr
/-!
# C05 — static bounds (`supportInterval`) of random values: the interval arithmetic

`Supp` = (lower, upper), `none` = Python's `None` (unknown).  The per-operator formulas are *data*
(`Formulas`), regenerated from `OperatorDistribution.supportInterval` by tools/translate/c05_support.py
into `Gen/SupportFormulas.lean`; the `None`-propagation and dispatch around them is modelled here
and tied to the code by the correspondence run.  Mathlib-free.
-/
namespace Scenic.Support
open Scenic.Expr

abbrev Supp := Option Rat × Option Rat

def rmin (a b : Rat) : Rat := if a ≤ b then a else b
def rmax (a b : Rat) : Rat := if a ≤ b then b else a
def rmin4 (a b c d : Rat) : Rat := rmin (rmin a b) (rmin c d)
def rmax4 (a b c d : Rat) : Rat := rmax (rmax a b) (rmax c d)

inductive FKey where
  | add | sub | rsub | mul | truediv | rtruediv
  deriving Repr, DecidableEq

inductive UKey where
  | neg | abs
  deriving Repr, DecidableEq

/-- the formulas of `OperatorDistribution.supportInterval` on known bounds (l1, r1) of the object and
    (l2, r2) of the operand -/
structure Formulas where
  add : Rat → Rat → Rat → Rat → Supp
  sub : Rat → Rat → Rat → Rat → Supp
  rsub : Rat → Rat → Rat → Rat → Supp
  mul : Rat → Rat → Rat → Rat → Supp
  truediv : Rat → Rat → Rat → Rat → Supp
  rtruediv : Rat → Rat → Rat → Rat → Supp
  neg : Rat → Rat → Supp
  abs : Rat → Rat → Supp
  /-- `geometry._hypotSupport`: the bounds (l, r) of one argument of `hypot` are replaced by bounds of its
      absolute value before `math.hypot` is applied to all lower / all upper bounds (the identity when `hypot` is
      declared a `monotonicDistributionFunction`) -/
  hypAbs : Rat → Rat → Rat × Rat
  /-- operators handled by the binary branch (operator, reflected), with the formula each one uses -/
  binOps : List (BinOp × Bool × FKey)
  /-- operators handled by the unary branch -/
  unOps : List (UnOp × UKey)

def Formulas.binOf (F : Formulas) : FKey → Rat → Rat → Rat → Rat → Supp
  | .add => F.add | .sub => F.sub | .rsub => F.rsub | .mul => F.mul | .truediv => F.truediv | .rtruediv => F.rtruediv

def Formulas.unOf (F : Formulas) : UKey → Rat → Rat → Supp
  | .neg => F.neg | .abs => F.abs

/-- the association the dispatch of `supportInterval` must respect for the formulas to mean what they say -/
def expectedBinOps : List (BinOp × Bool × FKey) :=
  [(.add, false, .add), (.add, true, .add), (.sub, false, .sub), (.sub, true, .rsub),
   (.mul, false, .mul), (.mul, true, .mul), (.truediv, false, .truediv), (.truediv, true, .rtruediv)]

def expectedUnOps : List (UnOp × UKey) := [(.neg, .neg), (.abs, .abs)]

def Formulas.tableOK (F : Formulas) : Bool :=
  F.binOps.all (expectedBinOps.contains ·) && F.unOps.all (expectedUnOps.contains ·)

/-- abstraction of a distribution for the purpose of `supportInterval` -/
inductive SExpr where
  | const (q : Rat)                      -- an int/float constant
  | opaque                               -- anything without bounds: (None, None)
  | leaf (i : Nat)                       -- a distribution with given bounds
  | bin (op : BinOp) (refl : Bool) (obj arg : SExpr)     -- OperatorDistribution
  | un (op : UnOp) (obj : SExpr)
  | range (lo hi : SExpr)                -- Range(lo, hi)
  | drange (lo hi : SExpr)               -- DiscreteRange(lo, hi)
  | mux (opts : List SExpr)              -- Options / MultiplexerDistribution (also attribute-of-mux)
  | mono (f : Fn) (args : List SExpr)    -- monotonicDistributionFunction
  | hypot (args : List SExpr)            -- geometry.hypot (support = _hypotSupport)
  | truncnormal (lo hi : Rat)
  deriving Inhabited

def Formulas.binF (F : Formulas) (op : BinOp) (refl : Bool) : Option (Rat → Rat → Rat → Rat → Supp) :=
  (F.binOps.find? (fun e => e.1 == op && e.2.1 == refl)).map fun e => F.binOf e.2.2

def Formulas.unF (F : Formulas) (op : UnOp) : Option (Rat → Rat → Supp) :=
  (F.unOps.find? (fun e => e.1 == op)).map fun e => F.unOf e.2

/-- `supmin` / `supmax` over a list: None if any is None -/
def supFold (f : Rat → Rat → Rat) : List (Option Rat) → Option Rat
  | [] => none
  | [x] => x
  | x :: rest => match x, supFold f rest with
    | some a, some b => some (f a b)
    | _, _ => none

def unionOfSupports (ss : List Supp) : Supp :=
  (supFold rmin (ss.map (·.1)), supFold rmax (ss.map (·.2)))

def allSome : List (Option Rat) → Option (List Rat)
  | [] => some []
  | some q :: rest => (allSome rest).map (q :: ·)
  | none :: _ => none

/-- `method(*bounds)` for the monotone functions: `max`/`min`; a single argument is not iterable (raises) -/
def monoApply (f : Fn) (qs : List Rat) : Option Rat :=
  match qs with
  | [] => none
  | [_] => none
  | q :: rest => some (rest.foldl (match f with | .max => ratMax | .min => ratMin) q)

/-- one bound of a monotone function: `None if None in bounds else method(*bounds)`; the outer `none` = `method` raises -/
def monoBound (f : Fn) (os : List (Option Rat)) : Option (Option Rat) :=
  match allSome os with
  | none => some none
  | some qs => (monoApply f qs).map some

/-- `_hypotSupport`: `None, None` as soon as a bound of an argument is unknown; otherwise the lists of transformed
    lower and upper bounds -/
def hypBounds (F : Formulas) : List Supp → Option (List Rat × List Rat)
  | [] => some ([], [])
  | (some l, some r) :: rest =>
    (hypBounds F rest).map fun (ls, hs) => ((F.hypAbs l r).1 :: ls, (F.hypAbs l r).2 :: hs)
  | _ :: _ => none

/-- `hyp` stands for `math.hypot` on floats (an uninterpreted function: the theorems assume only that it is
    monotone in the absolute values of its arguments; the driver instantiates it with a rational approximation) -/
def hypSupport (F : Formulas) (hyp : List Rat → Rat) (ss : List Supp) : Supp :=
  match hypBounds F ss with
  | none => (none, none)
  | some (ls, hs) => (some (hyp ls), some (hyp hs))

mutual
  /-- `supportInterval(dist)`; the outer `none` = an exception is raised (no bounds are reported) -/
  def support (F : Formulas) (hyp : List Rat → Rat) (ivs : Nat → Supp) : SExpr → Option Supp
    | .const q => some (some q, some q)
    | .opaque => some (none, none)
    | .leaf i => some (ivs i)
    | .bin op refl obj arg =>
      match F.binF op refl with
      | none => some (none, none)
      | some f =>
        (support F hyp ivs obj).bind fun s1 => (support F hyp ivs arg).bind fun s2 =>
          match s1, s2 with
          | (some l1, some r1), (some l2, some r2) => some (f l1 r1 l2 r2)
          | _, _ => some (none, none)
    | .un op obj =>
      match F.unF op with
      | none => some (none, none)
      | some f =>
        (support F hyp ivs obj).bind fun s =>
          match s with
          | (some l, some r) => some (f l r)
          | _ => none                      -- `-None` / `None < 0` raise TypeError
    | .range lo hi =>
      (support F hyp ivs lo).bind fun s1 => (support F hyp ivs hi).bind fun s2 => some (unionOfSupports [s1, s2])
    | .drange lo hi =>
      (support F hyp ivs lo).bind fun s1 => (support F hyp ivs hi).bind fun s2 => some (s1.1, s2.2)
    | .mux opts => (supportList F hyp ivs opts).map unionOfSupports
    | .mono f args =>
      (supportList F hyp ivs args).bind fun ss =>
        (monoBound f (ss.map (·.1))).bind fun l => (monoBound f (ss.map (·.2))).map fun h => (l, h)
    | .hypot args => (supportList F hyp ivs args).map (hypSupport F hyp)
    | .truncnormal lo hi => some (some lo, some hi)
  def supportList (F : Formulas) (hyp : List Rat → Rat) (ivs : Nat → Supp) : List SExpr → Option (List Supp)
    | [] => some []
    | e :: rest => (support F hyp ivs e).bind fun s => (supportList F hyp ivs rest).map (s :: ·)
end

end Scenic.Support
