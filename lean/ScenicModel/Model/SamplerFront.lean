import ScenicModel.Model.Sampler
/-
Front end of the sampler model: how the statements of a program bind names to nodes of the dependency DAG and how a
`require` statement captures its bindings (`PendingRequirement.__init__` saves the current value of every name the
condition refers to, and of the ego object; `compile` turns them into the requirement's dependencies).

A program is a list of statements executed in order.  `define x nodes` stands for `x = <expression>`: the expression's
nodes are appended to the DAG (an expression only refers to nodes that exist already) and `x` is bound to the last of
them.  `require p cond` resolves every name in `cond` *now* and stores the result.
-/
namespace Scenic.Sampler

/-- requirement conditions as written: over names -/
inductive NExpr
  | name (x : String)
  | const (v : Val)
  | op (f : String) (args : List NExpr)
  deriving Repr, Inhabited

abbrev Names := List (String × Nat)

mutual
/-- replace every name by the node it denotes at this moment -/
def NExpr.resolve (names : Names) : NExpr → RExpr
  | .name x => match names.lookup x with
    | some i => .ref i
    | none => .const .err
  | .const v => .const v
  | .op f args => .op f (NExpr.resolveList names args)
def NExpr.resolveList (names : Names) : List NExpr → List RExpr
  | [] => []
  | e :: es => NExpr.resolve names e :: NExpr.resolveList names es
end

inductive Stmt
  /-- `x = <expression>`; the new nodes of the expression, the last one being its value -/
  | define (x : String) (nodes : List Node)
  /-- `require[p] cond` -/
  | require (p : Rat) (cond : NExpr)
  deriving Repr, Inhabited

structure CState where
  nodes : List Node := []
  names : Names := []
  reqs : List (Rat × RExpr) := []
  deriving Repr, Inhabited

def exec (s : CState) : Stmt → CState
  | .define x nodes =>
    let all := s.nodes ++ nodes
    { s with nodes := all, names := (x, all.length - 1) :: s.names }
  | .require p cond => { s with reqs := s.reqs ++ [(p, cond.resolve s.names)] }

def run (ss : List Stmt) (s : CState := {}) : CState := ss.foldl exec s

end Scenic.Sampler
