import ScenicModel.Model.DepOrder
/-
How the dependency graph walked by `Samplable.sampleAll` is built and iterated (C15), core Lean only.

Read from /repo/src/scenic/core:

* `Samplable.__init__` (distributions.py): `deps = []`; `for dep in dependencies: if isLazy(dep):
  deps.append(dep)`; `super().__init__(props, deps)` — the lazy arguments, in the order given,
  duplicates kept;
* `LazilyEvaluable.__init__` (lazy_eval.py): `self._dependencies = tuple(dependencies)`;
* `Samplable.sample`: `for child in self._conditioned._dependencies:` — the children are visited in the
  order of that tuple;
* `Samplable.sampleAll`: `for q in quantities:` — the roots are visited in the order given.

Each of these four places has a *kind* regenerated from the source by the translator's container
tracker: insertion order, or an address-derived order (`set(...)`, modelled by `setOrder`).
`Props/C15Sample.lean` proves that with insertion-ordered kinds the graph and the walk are canonical
(independent of addresses) and exhibits a witness that one address-ordered iteration loses that.

For a kind that is not ordered, `tableK` permutes the children of a node and `sampleGiven` is handed
the child values in that permuted order; the real code hands them over by key.  The witness therefore
uses a symmetric `sampleGiven` (a sum), for which the two coincide.
-/
namespace Scenic.Det

structure SampleKinds where
  /-- `Samplable.__init__`: the local list `deps` -/
  initDeps : Bool
  /-- `LazilyEvaluable.__init__`: what is stored in `self._dependencies` -/
  stored : Bool
  /-- `Samplable.sample`: the iteration over `self._conditioned._dependencies` -/
  children : Bool
  /-- `Samplable.sampleAll`: the iteration over `quantities` -/
  quantities : Bool
  /-- table size of the address-hashed sets (only used by kinds that are not ordered) -/
  size : Nat
deriving Repr, DecidableEq

def SampleKinds.allOrdered (k : SampleKinds) : Bool :=
  k.initDeps && k.stored && k.children && k.quantities

/-- `_dependencies` of a value constructed with the arguments `args`; `lazy` = the identities for which
    `isLazy` holds -/
def initDependencies (k : SampleKinds) (lazy args : List Id) : List Id :=
  iterSeq k.stored k.size (iterSeq k.initDeps k.size (args.filter (needsB lazy)))

/-- a samplable value as it is constructed: identity, generator it draws from, tag of its
    `sampleGiven`, the `dependencies` argument of `Samplable.__init__` -/
structure Decl where
  id : Id
  src : Src
  tag : Nat
  args : List Id
deriving Repr, DecidableEq

/-- the graph that construction leaves behind -/
def buildTable (k : SampleKinds) (lazy : List Id) (ds : List Decl) : Table :=
  ds.map fun d => (d.id, { src := d.src, tag := d.tag, deps := initDependencies k lazy d.args })

/-- the graph as `Samplable.sample` iterates it -/
def tableK (k : SampleKinds) (tbl : Table) : Table :=
  tbl.map fun p => (p.1, { p.2 with deps := iterSeq k.children k.size p.2.deps })

section
variable {σ : Type}
variable (nx : σ → Nat × σ)
variable (sem : Nat → Nat → List Val → Option Val)

/-- `Samplable.sampleAll(order)` with the iteration kinds of the source -/
def sampleAllK (k : SampleKinds) (tbl : Table) (fuel : Nat) (order : List Id) (rs : RS σ) :
    Option Memo × RS σ :=
  sampleAll nx sem (tableK k tbl) fuel (iterSeq k.quantities k.size order) rs

/-- construct the values, then sample the roots -/
def constructAndSample (k : SampleKinds) (lazy : List Id) (ds : List Decl) (fuel : Nat)
    (order : List Id) (rs : RS σ) : Option Memo × RS σ :=
  sampleAllK nx sem k (buildTable k lazy ds) fuel order rs
end

def renDecl (ρ : Id → Id) (d : Decl) : Decl := { d with id := ρ d.id, args := d.args.map ρ }

/-- a symmetric `sampleGiven`: drawn number plus the sum of the child values -/
def sumSem (_tag drawn : Nat) (vals : List Val) : Option Val := some (drawn + vals.foldl (· + ·) 0)

end Scenic.Det
