/-
Model of Scenic's scene sampler for the finite-discrete fragment (core Lean only, executable).

What is modelled (read from /repo, not from the documentation):

* `Samplable.sampleAll` / `Samplable.sample` (distributions.py): a depth-first walk over the dependency DAG with an
  identity-keyed dictionary of the values sampled so far (`visit`, `sampleAll`);
* `DiscreteRange.sampleGiven` (rounding of the bounds, the empty test raising `RejectionException`, `random.randint`),
  the weighted form (`random.choices` over cumulative weights), `Options` = selector + `MultiplexerDistribution`,
  `UniformDistribution` (selector over a variable-length list with star-unpacking), and the deterministic
  distributions (`OperatorDistribution`, `FunctionDistribution`, `AttributeDistribution`, `TupleDistribution`,
  `StarredDistribution`) as functions of their dependencies (`draw`);
* `Scenario._generateInner` (scenarios.py): activation of the soft requirements, then the rejection loop that
  samples all dependencies, checks the active requirements and retries at most `maxIterations` times (`generate`).

Probabilities are exact rationals; a distribution is a finite list of weighted outcomes, and `none` stands for a
`RejectionException`.  CPython's `random` is idealised (see notes/design/C01.md).
The constants in `Cfg` are regenerated from the source on every run (`Gen/SamplerCfg.lean`).
-/
namespace Scenic.Sampler

/-! ## finitely supported weighted outcomes -/

abbrev Dist (α : Type) := List (α × Rat)

namespace Dist
variable {α β : Type}

def pure (a : α) : Dist α := [(a, 1)]

def scale (w : Rat) (d : Dist α) : Dist α := List.map (fun p => (p.1, w * p.2)) d

def bind (d : Dist α) (f : α → Dist β) : Dist β := List.flatMap (fun p => scale p.2 (f p.1)) d

def map (f : α → β) (d : Dist α) : Dist β := List.map (fun p => (f p.1, p.2)) d

/-- total weight of the outcomes satisfying `p` -/
def mass : Dist α → (α → Bool) → Rat
  | [], _ => 0
  | x :: xs, p => (if p x.1 then x.2 else 0) + mass xs p

def uniform (xs : List α) : Dist α := List.map (fun x => (x, 1 / (xs.length : Rat))) xs

def sumW : List Rat → Rat
  | [] => 0
  | w :: ws => w + sumW ws

/-- outcomes with positive weight, normalised (`random.choices`) -/
def weighted (xs : List (α × Rat)) : Dist α :=
  let tot := sumW (xs.map (·.2))
  List.map (fun p => (p.1, p.2 / tot)) (xs.filter fun p => decide (0 < p.2))

def bernoulli (q : Rat) : Dist Bool := [(true, q), (false, 1 - q)]

end Dist

/-- sequencing of computations that may be rejected -/
def bindO {α β : Type} (d : Dist (Option α)) (f : α → Dist (Option β)) : Dist (Option β) :=
  d.bind fun
    | none => Dist.pure none
    | some a => f a

/-! ## values and the deterministic operators (plain Python semantics on exact rationals) -/

inductive Val
  | num (q : Rat)
  | bool (b : Bool)
  | str (s : String)
  | tup (vs : List Val)
  | lst (vs : List Val)
  | none
  | err
  deriving BEq, Repr, Inhabited

namespace Val

def showRat (q : Rat) : String := s!"{q.num}/{q.den}"

def hexDigit (n : Nat) : Char := if n < 10 then Char.ofNat (48 + n) else Char.ofNat (87 + n)

def hexOfString (s : String) : String :=
  String.ofList (s.toUTF8.toList.foldr (fun b acc => hexDigit (b.toNat / 16) :: hexDigit (b.toNat % 16) :: acc) [])

mutual
/-- the canonical text shared with the Python harness -/
def canon : Val → String
  | num q => showRat q
  | bool b => if b then "T" else "F"
  | str s => "\"" ++ hexOfString s ++ "\""
  | tup vs => "(" ++ canonList vs ++ ")"
  | lst vs => "[" ++ canonList vs ++ "]"
  | none => "N"
  | err => "E"
def canonList : List Val → String
  | [] => ""
  | [v] => canon v
  | v :: w :: vs => canon v ++ "," ++ canonList (w :: vs)
end

def items : Val → Option (List Val)
  | tup vs => some vs
  | lst vs => some vs
  | _ => Option.none

def isInt (q : Rat) : Bool := q.den == 1

/-- Python's `seq[i]` with negative indices -/
def index (vs : List Val) (q : Rat) : Val :=
  if isInt q then
    let n : Int := vs.length
    let i := if q.num < 0 then q.num + n else q.num
    if 0 ≤ i ∧ i < n then vs.getD i.toNat err else err
  else err

def numList : List Val → Option (List Rat)
  | [] => some []
  | num q :: vs => (numList vs).map (q :: ·)
  | _ => Option.none

def maxR : List Rat → Option Rat
  | [] => Option.none
  | q :: qs => some (qs.foldl (fun a b => if a < b then b else a) q)

def minR : List Rat → Option Rat
  | [] => Option.none
  | q :: qs => some (qs.foldl (fun a b => if b < a then b else a) q)

/-- `int(x)`: truncation toward zero -/
def trunc (q : Rat) : Int := if q < 0 then q.ceil else q.floor

def cmp (f : Rat → Rat → Bool) : List Val → Val
  | [num a, num b] => bool (f a b)
  | _ => err

/-- the operators, functions, attributes and methods of the fragment, applied to sampled values -/
def applyOp (name : String) (args : List Val) : Val :=
  match name, args with
  | "add", [num a, num b] => num (a + b)
  | "sub", [num a, num b] => num (a - b)
  | "mul", [num a, num b] => num (a * b)
  | "truediv", [num a, num b] => if b == 0 then err else num (a / b)
  | "floordiv", [num a, num b] => if b == 0 then err else num ((a / b).floor : Int)
  | "mod", [num a, num b] => if b == 0 then err else num (a - b * ((a / b).floor : Int))
  | "neg", [num a] => num (-a)
  | "abs", [num a] => num (if a < 0 then -a else a)
  | "int", [num a] => num (trunc a : Int)
  | "tuple", vs => tup vs
  | "list", vs => lst vs
  | "getitem", [s, num i] => match items s with
    | some vs => index vs i
    | Option.none => err
  | "len", [s] => match items s with
    | some vs => num (vs.length : Nat)
    | Option.none => err
  | "attr0", [s] => match items s with
    | some vs => vs.getD 0 err
    | Option.none => err
  | "attr1", [s] => match items s with
    | some vs => vs.getD 1 err
    | Option.none => err
  | "count", [s, v] => match items s with
    | some vs => num ((vs.filter (· == v)).length : Nat)
    | Option.none => err
  | "max", vs =>
    let vs := match vs with
      | [s] => (items s).getD [err]
      | _ => vs
    match (numList vs).bind maxR with
    | some q => num q
    | Option.none => err
  | "min", vs =>
    let vs := match vs with
      | [s] => (items s).getD [err]
      | _ => vs
    match (numList vs).bind minR with
    | some q => num q
    | Option.none => err
  | "addmul", [num a, num b] => num (a + b)
  | "addmul", [num a, num b, num c] => num ((a + b) * c)
  | "lt", vs => cmp (fun a b => decide (a < b)) vs
  | "le", vs => cmp (fun a b => decide (a ≤ b)) vs
  | "gt", vs => cmp (fun a b => decide (b < a)) vs
  | "ge", vs => cmp (fun a b => decide (b ≤ a)) vs
  | "eq", [a, b] => bool (a == b)
  | "ne", [a, b] => bool (!(a == b))
  | "and", [bool a, bool b] => bool (a && b)
  | "or", [bool a, bool b] => bool (a || b)
  | "implies", [bool a, bool b] => bool (!a || b)
  | "not", [bool a] => bool (!a)
  | _, _ => err

def truthy : Val → Bool
  | bool b => b
  | _ => false

end Val

/-! ## configuration extracted from the source -/

inductive Rounding | ceil | floor
  deriving DecidableEq, Repr

inductive Cmp | lt | le | gt | ge
  deriving DecidableEq, Repr

structure Cfg where
  /-- `DiscreteRange.sampleGiven`: `left = <lowRound>(low)` -/
  lowRound : Rounding
  /-- `right = <highRound>(high)` -/
  highRound : Rounding
  /-- the empty test is `right < left` (strict) rather than `right <= left` -/
  emptyStrict : Bool
  /-- `Options.__init__`: the selector is `DiscreteRange(selLo, len(options) + selHiOff)` -/
  selLo : Int
  selHiOff : Int
  /-- `UniformDistribution.__init__`: the selector is `DiscreteRange(dynSelLo, length + dynSelHiOff)` -/
  dynSelLo : Int
  dynSelHiOff : Int
  /-- `_generateInner`: a soft requirement is active when `random.random() <actCmp> operand` -/
  actCmp : Cmp
  /-- operand is `1 - req.prob` rather than `req.prob` -/
  actOneMinus : Bool
  /-- `iterations` starts at this value -/
  iterStart : Nat
  /-- the loop gives up when `iterations <stopCmp> maxIterations` (`ge` or `gt`) -/
  stopCmp : Cmp
  deriving DecidableEq, Repr

/-- the configuration the property needs -/
def Cfg.WF (c : Cfg) : Prop :=
  c.lowRound = .ceil ∧ c.highRound = .floor ∧ c.emptyStrict = true ∧ c.selLo = 0 ∧ c.selHiOff = -1
  ∧ c.dynSelLo = 0 ∧ c.dynSelHiOff = -1 ∧ (c.actCmp = .le ∨ c.actCmp = .lt) ∧ c.actOneMinus = false
  ∧ c.iterStart = 0 ∧ c.stopCmp = .ge

instance (c : Cfg) : Decidable c.WF := by unfold Cfg.WF; infer_instance

def roundBy : Rounding → Rat → Int
  | .ceil, q => q.ceil
  | .floor, q => q.floor

/-- probability that `random.random() <cmp> x` for a uniform draw from [0, 1) and `0 ≤ x ≤ 1` -/
def Cfg.actProb (c : Cfg) (p : Rat) : Rat :=
  let x := if c.actOneMinus then 1 - p else p
  match c.actCmp with
  | .le => x
  | .lt => x
  | .ge => 1 - x
  | .gt => 1 - x

/-- number of attempts the loop of `_generateInner` makes before giving up -/
def Cfg.attempts (c : Cfg) (maxIterations : Nat) : Nat :=
  match c.stopCmp with
  | .ge => maxIterations - c.iterStart
  | .gt => maxIterations + 1 - c.iterStart
  | .le => 0
  | .lt => 0

/-! ## the dependency DAG -/

inductive Node
  | const (v : Val)
  /-- `DiscreteRange(low, high)`; the bounds are nodes -/
  | drange (lo hi : Nat)
  /-- the selector `Options` makes for `n` unweighted options -/
  | selector (n : Nat)
  /-- the selector `UniformDistribution` makes; `len` is the node holding the total number of options -/
  | dynSelector (len : Nat)
  /-- weighted `DiscreteRange(0, n, weights)`: `random.choices` -/
  | windex (ws : List Rat)
  /-- `MultiplexerDistribution(index, options)` -/
  | mux (idx : Nat) (opts : List Nat)
  /-- `UniformDistribution(options)`; `true` marks a starred option -/
  | ustar (sel : Nat) (opts : List (Bool × Nat))
  /-- deterministic function of the (possibly star-unpacked) arguments -/
  | op (f : String) (args : List (Bool × Nat))
  deriving Repr, Inhabited

/-- `_dependencies`, in the order the real constructors pass them -/
def Node.deps : Node → List Nat
  | .const _ => []
  | .drange lo hi => [lo, hi]
  | .selector _ => []
  | .dynSelector len => [len]
  | .windex _ => []
  | .mux idx opts => idx :: opts
  | .ustar sel opts => opts.map (·.2) ++ [sel]
  | .op _ args => args.map (·.2)

abbrev Env := List (Nat × Val)

def Env.get (env : Env) (i : Nat) : Val :=
  match env.lookup i with
  | some v => v
  | Option.none => .err

def Env.keys (env : Env) : List Nat := env.map (·.1)

def intRange (l r : Int) : List Int := List.map (fun (k : Nat) => l + (k : Int)) (List.range (r - l + 1).toNat)

/-- `randint(left, right)` after the empty test -/
def drawIntRange (strict : Bool) (l r : Int) : Dist (Option Val) :=
  if (if strict then decide (r < l) else decide (r ≤ l)) then Dist.pure none
  else (Dist.uniform (intRange l r)).map fun k => some (.num (k : Int))

def argVals (env : Env) (args : List (Bool × Nat)) : List Val :=
  args.flatMap fun a =>
    if a.1 then (match (env.get a.2).items with
      | some vs => vs
      | Option.none => [.err])
    else [env.get a.2]

/-- `sampleGiven` of one node, given the values of its dependencies -/
def draw (cfg : Cfg) (nd : Node) (env : Env) : Dist (Option Val) :=
  match nd with
  | .const v => Dist.pure (some v)
  | .drange lo hi =>
    match env.get lo, env.get hi with
    | .num a, .num b => drawIntRange cfg.emptyStrict (roundBy cfg.lowRound a) (roundBy cfg.highRound b)
    | _, _ => Dist.pure (some .err)
  | .selector n => drawIntRange cfg.emptyStrict cfg.selLo ((n : Int) + cfg.selHiOff)
  | .dynSelector len =>
    match env.get len with
    | .num a => drawIntRange cfg.emptyStrict (roundBy cfg.lowRound (cfg.dynSelLo : Int))
                  (roundBy cfg.highRound (a + (cfg.dynSelHiOff : Int)))
    | _ => Dist.pure (some .err)
  | .windex ws =>
    (Dist.weighted ((List.range ws.length).zip ws)).map fun k => some (.num (k : Nat))
  | .mux idx opts =>
    match env.get idx with
    | .num q =>
      if Val.isInt q ∧ 0 ≤ q.num ∧ q.num < opts.length then
        Dist.pure (some (env.get (opts.getD q.num.toNat 0)))
      else Dist.pure (some .err)
    | _ => Dist.pure (some .err)
  | .ustar sel opts =>
    match env.get sel with
    | .num q =>
      let vs := argVals env opts
      if Val.isInt q ∧ 0 ≤ q.num ∧ q.num < vs.length then Dist.pure (some (vs.getD q.num.toNat .err))
      else Dist.pure (some .err)
    | _ => Dist.pure (some .err)
  | .op f args => Dist.pure (some (Val.applyOp f (argVals env args)))

structure Prog where
  nodes : List Node
  deriving Repr, Inhabited

/-- dependencies point backwards: the graph is acyclic -/
def Prog.WF (P : Prog) : Prop :=
  ∀ (i : Nat) (nd : Node), P.nodes[i]? = some nd → ∀ j ∈ nd.deps, j < i

/-- sample node `i` itself (its dependencies are in `env`) and record the value under its identity -/
def step (cfg : Cfg) (P : Prog) (i : Nat) (env : Env) : Dist (Option Env) :=
  match P.nodes[i]? with
  | Option.none => Dist.pure none
  | some nd => (draw cfg nd env).bind fun
    | Option.none => Dist.pure none
    | some v => Dist.pure (some ((i, v) :: env))

/-- `Samplable.sample(subsamples)`: sample every dependency not sampled yet, then the node itself.
    The first argument bounds the recursion depth (never exhausted for acyclic graphs, see `visit_eq_seqAlong`). -/
def visit (cfg : Cfg) (P : Prog) : Nat → Nat → Env → Dist (Option Env)
  | 0, _, _ => Dist.pure none
  | fuel + 1, i, env =>
    if env.keys.contains i then Dist.pure (some env)
    else
      match P.nodes[i]? with
      | Option.none => Dist.pure none
      | some nd =>
        bindO ((Node.deps nd).foldl (fun acc j => bindO acc (visit cfg P fuel j)) (Dist.pure (some env)))
          (step cfg P i)

def visitList (cfg : Cfg) (P : Prog) (fuel : Nat) (js : List Nat) (env : Env) : Dist (Option Env) :=
  js.foldl (fun acc j => bindO acc (visit cfg P fuel j)) (Dist.pure (some env))

/-- `Samplable.sampleAll(dependencies)` -/
def sampleAll (cfg : Cfg) (P : Prog) (roots : List Nat) : Dist (Option Env) :=
  visitList cfg P (P.nodes.length + 1) roots []

/-- one draw per listed node, in the listed order -/
def seqAlong (cfg : Cfg) (P : Prog) : List Nat → Env → Dist (Option Env)
  | [], env => Dist.pure (some env)
  | i :: is, env => bindO (step cfg P i env) (seqAlong cfg P is)

/-- the nodes a depth-first visit of `i` samples, given the identities already sampled (newest first) -/
def orderNew (P : Prog) : Nat → Nat → List Nat → List Nat
  | 0, _, _ => []
  | fuel + 1, i, vis =>
    if vis.contains i then []
    else
      match P.nodes[i]? with
      | Option.none => [i]
      | some nd =>
        ((Node.deps nd).foldl (fun acc j => acc ++ orderNew P fuel j (acc.reverse ++ vis)) []) ++ [i]

def orderNewList (P : Prog) (fuel : Nat) (js : List Nat) (vis : List Nat) : List Nat :=
  js.foldl (fun acc j => acc ++ orderNew P fuel j (acc.reverse ++ vis)) []

/-- the order in which `sampleAll roots` draws (DFS post-order) -/
def postorder (P : Prog) (roots : List Nat) : List Nat :=
  orderNewList P (P.nodes.length + 1) roots []

/-! ## requirements, attempts, the rejection loop -/

/-- requirement conditions: plain Python over the sampled values of the nodes bound when the statement ran -/
inductive RExpr
  | ref (i : Nat)
  | const (v : Val)
  | op (f : String) (args : List RExpr)
  deriving Repr, Inhabited

mutual
def RExpr.eval (env : Env) : RExpr → Val
  | .ref i => env.get i
  | .const v => v
  | .op f args => Val.applyOp f (RExpr.evalList env args)
def RExpr.evalList (env : Env) : List RExpr → List Val
  | [] => []
  | e :: es => RExpr.eval env e :: RExpr.evalList env es
end

def RExpr.holds (e : RExpr) (env : Env) : Bool := (e.eval env).truthy

/-- the checker: evaluate the requirements in the given order, stop at the first falsified one -/
def checkSeq (env : Env) : List (Env → Bool) → Bool
  | [] => true
  | r :: rs => if r env then checkSeq env rs else false

/-- one iteration of the loop: sample everything once, then check the active requirements -/
def attempt {σ : Type} (cfg : Cfg) (P : Prog) (roots : List Nat) (active : List (Env → Bool)) (scene : Env → σ) :
    Dist (Option σ) :=
  (sampleAll cfg P roots).bind fun
    | Option.none => Dist.pure none
    | some env => if checkSeq env active then Dist.pure (some (scene env)) else Dist.pure none

/-- the rejection loop: `n` attempts left, `k` made so far; the result carries the number of iterations used -/
def loop {σ : Type} (att : Dist (Option σ)) : Nat → Nat → Dist (Option (σ × Nat))
  | 0, _ => Dist.pure none
  | n + 1, k => att.bind fun
    | some s => Dist.pure (some (s, k + 1))
    | Option.none => loop att n (k + 1)

/-- activation of the soft requirements, one `random.random()` each, in order -/
def activation (cfg : Cfg) : List Rat → Dist (List Bool)
  | [] => Dist.pure []
  | p :: ps => (Dist.bernoulli (cfg.actProb p)).bind fun b => (activation cfg ps).bind fun bs => Dist.pure (b :: bs)

def activeOf {α : Type} : List α → List Bool → List α
  | r :: rs, b :: bs => if b then r :: activeOf rs bs else activeOf rs bs
  | _, _ => []

/-- `Scenario._generateInner(maxIterations)`: the outcome records which soft requirements were active -/
def generate {σ : Type} (cfg : Cfg) (P : Prog) (roots : List Nat) (reqs : List (Rat × (Env → Bool)))
    (defaults : List (Env → Bool)) (scene : Env → σ) (maxIterations : Nat) :
    Dist (List Bool × Option (σ × Nat)) :=
  (activation cfg (reqs.map (·.1))).bind fun act =>
    (loop (attempt cfg P roots (defaults ++ activeOf (reqs.map (·.2)) act) scene)
      (cfg.attempts maxIterations) cfg.iterStart).map fun r => (act, r)

end Scenic.Sampler
