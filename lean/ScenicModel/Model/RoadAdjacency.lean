/-!
# Adjacent lane sections of one road section
(xodr_parser.py `Road.toScenicRoad`, "Connect lane sections to adjacent lane sections", and the
lane order of `RoadSection.__attrs_post_init__` in roads.py)

Lanes of a road section are keyed by their OpenDRIVE id (negative = right of the reference line =
forward, positive = backward, 0 = the reference line itself, never a lane).  The `if/elif/else`
chains computing `leftID` / `rightID` are data regenerated from the source.
-/
namespace Scenic.RoadAdj

inductive Guard | lt (k : Int) | eq (k : Int) | otherwise
  deriving DecidableEq, Repr

inductive Expr | add (k : Int) | const (k : Int)
  deriving DecidableEq, Repr

def Guard.holds : Guard → Int → Bool
  | .lt k, x => decide (x < k)
  | .eq k, x => x == k
  | .otherwise, _ => true

def Expr.eval : Expr → Int → Int
  | .add k, x => x + k
  | .const k, _ => k

/-- an `if / elif / else` chain on the lane id -/
def evalChain : List (Guard × Expr) → Int → Int
  | [], x => x
  | (g, e) :: rest, x => if g.holds x then e.eval x else evalChain rest x

structure Cfg where
  left : List (Guard × Expr)
  right : List (Guard × Expr)
  /-- `if self.drive_on_right: faster = left; slower = right` (else the other way round) -/
  fasterIsLeftOnRight : Bool
  /-- a faster / slower lane of the other direction is discarded -/
  dropOpposite : Bool
  deriving DecidableEq, Repr

/-- `isForward = id_ < 0` -/
def isForward (id : Int) : Bool := decide (id < 0)

/-- `lanes.get(x)` on the id-keyed dict of the section -/
def getId (ids : List Int) (x : Int) : Option Int := if ids.contains x then some x else none

structure Adj where
  left : Option Int
  right : Option Int
  faster : Option Int
  slower : Option Int
  adjacent : List Int
  deriving DecidableEq, Repr

def keepSameDir (c : Cfg) (id : Int) : Option Int → Option Int
  | some j => if c.dropOpposite && (isForward j != isForward id) then none else some j
  | none => none

/-- what the loop assigns to the lane section with id `id` of a section whose lanes are `ids` -/
def adjOf (c : Cfg) (driveOnRight : Bool) (ids : List Int) (id : Int) : Adj :=
  let l := getId ids (evalChain c.left id)
  let r := getId ids (evalChain c.right id)
  let fasterIsLeft := driveOnRight == c.fasterIsLeftOnRight
  { left := l, right := r,
    faster := keepSameDir c id (if fasterIsLeft then l else r),
    slower := keepSameDir c id (if fasterIsLeft then r else l),
    adjacent := l.toList ++ r.toList }

/-- the chains as written in the source -/
def refCfg : Cfg :=
  { left := [(.lt (-1), .add 1), (.eq (-1), .const 1), (.eq 1, .const (-1)), (.otherwise, .add (-1))],
    right := [(.lt 0, .add (-1)), (.otherwise, .add 1)],
    fasterIsLeftOnRight := true, dropOpposite := true }

/-! ### lane order of a `RoadSection` built from `lanesByOpenDriveID` -/

/-- `for i in range(rightmost, leftmost + 1)` -/
def idRange (lo hi : Int) : List Int := (List.range (hi + 1 - lo).toNat).map (fun (k : Nat) => lo + (k : Int))

/-- `(forwardLanes, backwardLanes)` of `RoadSection.__attrs_post_init__`: ids from the rightmost to
the leftmost, 0 and missing ids skipped, negative ids forward, positive ids backward -/
def sectionOrder (ids : List Int) : List Int × List Int :=
  match ids.min?, ids.max? with
  | some lo, some hi =>
    let present := (idRange lo hi).filter (fun i => i != 0 && ids.contains i)
    (present.filter (fun i => decide (i < 0)), present.filter (fun i => !decide (i < 0)))
  | _, _ => ([], [])

end Scenic.RoadAdj
