import ScenicModel.Model.Roads
/-!
# Point lookups (`Network.findPointIn` and the `…At` methods of roads.py)

The geometry is abstract: for one query point, `exact` lists the elements whose polygon intersects
the point and `near` those whose polygon intersects the tolerance disc round it (what the two
R-tree queries of `findElementWithin` return).  The model is the control logic: passes in order,
the `tolerance > 0` guard, first match in the order of the list that was passed in.
-/
namespace Scenic.Roads

inductive Pass | exact | tolerant
  deriving DecidableEq, Repr

/-- candidate sets of one query point -/
structure PointFacts where
  exact : List Nat
  near : List Nat
  deriving Repr

/-- `for elem in elems: if elem.uid in candidates: return elem` -/
def firstIn (cands elems : List Nat) : Option Nat := elems.find? (fun x => cands.contains x)

def runPass (tolPos : Bool) (pf : PointFacts) (elems : List Nat) : Pass → Option Nat
  | .exact => firstIn pf.exact elems
  | .tolerant => if tolPos then firstIn pf.near elems else none

/-- `findPointIn` with the passes given as data (regenerated from the source) -/
def findPointInWith (passes : List Pass) (tolPos : Bool) (pf : PointFacts) (elems : List Nat) :
    Option Nat :=
  passes.findSome? (runPass tolPos pf elems)

/-- `Network.findPointIn` as written: exact pass, then tolerant pass -/
def findPointIn (tolPos : Bool) (pf : PointFacts) (elems : List Nat) : Option Nat :=
  findPointInWith [.exact, .tolerant] tolPos pf elems

/-- an `…At` method: search some lists of the network (concatenated in order); if `child` is
given, search those lists *of the element found* (e.g. `laneSectionAt` = `laneAt` then
`lane.sectionAt`). -/
structure LookupDef where
  first : Paths
  child : Option Paths := none
  deriving DecidableEq, Repr

def lookupWith (passes : List Pass) (n : Network) (tolPos : Bool) (pf : PointFacts) (d : LookupDef) :
    Option Nat :=
  match findPointInWith passes tolPos pf (n.eval d.first 0), d.child with
  | some e, some c => findPointInWith passes tolPos pf (n.eval c e)
  | r, none => r
  | none, some _ => none

end Scenic.Roads
