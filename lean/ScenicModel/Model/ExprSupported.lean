import ScenicModel.Model.Expr
/-!
# C05 — the fragment on which `forest_eval_eq_python` is proved

`supportedB T env e` is a *checkable* predicate (the driver evaluates it for every generated case, so the evidence
shows how much of the explored input space lies inside the proved fragment).  It excludes exactly the places
where the model itself shows that Scenic's forest and plain Python differ, plus a few shapes whose proof was
not attempted (each marked "not attempted").
-/
namespace Scenic.Expr

/-- `first.__op__(rest)` with the `NotImplemented` fallback differs from Python's `first op rest`:
    `tuple.__add__(Vector)` raises instead of deferring to `Vector.__radd__`, and `tuple` has no `__sub__`. -/
def fwdProblem (op : BinOp) (a b : Val) : Bool :=
  match a, b with
  | .seq _ _, .vec .. => op == .add || op == .sub
  | _, _ => false

/-- `x.__rop__(c)` with the fallback differs from Python's `c op x`: sequences and strings have no `__radd__` /
    `__rsub__` attribute. -/
def reflProblem (op : BinOp) (c x : Val) : Bool :=
  match x, c with
  | .seq _ _, .seq _ _ => op == .add
  | .str _, .str _ => op == .add
  | .seq _ _, .vec .. => op == .add || op == .sub
  | _, _ => false

/-- the sampled operands of an OperatorDistribution are combined as plain Python would combine them -/
def dispOK (T : Tables) (refl : Bool) (op : BinOp) (first rest : Val) : Bool :=
  T.pythonDispatch || !(if refl then reflProblem op rest first else fwdProblem op first rest)

/-- a condition on the sampled values of two nodes (vacuous when one of them raises) -/
def valsOK (T : Tables) (env : Env) (n m : Node) (p : Val → Val → Bool) : Bool :=
  match evalNode T env n, evalNode T env m with
  | some a, some b => p a b
  | _, _ => true

def evalsSome (T : Tables) (env : Env) (n : Node) : Bool := (evalNode T env n).isSome

/-- an all-zero tuple/list with fewer than three elements: the decorated `Vector.__add__` returns `self`,
    the undecorated method (used by VectorMethodDistribution) raises IndexError -/
def shortZero : Val → Bool
  | .seq _ xs => allZero xs && xs.length < 3
  | _ => false

/-- `VectorDistribution.__op__(self, arg)`: excluded are the operands for which the handler raises AttributeError
    while compiling (a constant that is not a Vector, unless the handler accepts sequences) and raw tuples
    containing random values (they are not sampled by VectorOperatorDistribution). -/
def vhZeroArgOK (T : Tables) (arg : Node) : Bool :=
  match arg with
  | .const v => T.vecHandlerAcceptsSeq || (isZero3 v).isSome
  | _ => false

def vhOK (T : Tables) (op : BinOp) (refl : Bool) (arg : Node) : Bool :=
  !arg.isRaw && (vecOpsLookup T op refl).all fun zeroIdentity => !(zeroIdentity && !arg.isLazy) || vhZeroArgOK T arg

/-- `Vector.__op__(self, arg)` for a Vector `self` (constant or with random coordinates) -/
def vecCoreOK (T : Tables) (env : Env) (op : BinOp) (refl : Bool) (self arg : Node) : Bool :=
  if !vecHas op refl then
    (if arg.isDist && !refl then !arg.isVecDist && valsOK T env arg self (fun x c => dispOK T true op x c) else true)
  else if arg.isLazy then
    (match self with
     | .const _ => !refl && valsOK T env self arg (fun _ b => !shortZero b)
     | _ => true)
  else arg.isConst

def vecHelperOK (T : Tables) (env : Env) (op : BinOp) (refl : Bool) (self arg : Node) : Bool :=
  vecCoreOK T env op (if op == .mul then false else refl) self arg

/-- `c op r` for a constant `c` that is not a Vector -/
def constLeftOK (T : Tables) (env : Env) (op : BinOp) (l r : Node) : Bool :=
  if r.isVecDist then r.vty == .vector && vhOK T op true l
  else if r.isDist then valsOK T env r l (fun x c => dispOK T true op x c)
  else match r with
    | .vecOf .. => vecHelperOK T env op true r l
    | .rawt .. => false              -- arithmetic on raw tuples: not attempted
    | _ => true

def binGenOK (T : Tables) (env : Env) (op : BinOp) (l r : Node) : Bool :=
  if l.isVecDist then l.vty == .vector && vhOK T op false r
  else if l.isDist then valsOK T env l r (fun a b => dispOK T false op a b)
  else match l with
    | .vecOf .. => vecHelperOK T env op false l r
    | .const (.vec ..) => vecHelperOK T env op false l r
    | .const (.str _) => op != .mod && constLeftOK T env op l r     -- `str % x` formats x: outside the model
    | .const _ => constLeftOK T env op l r
    | .rawt .. => false            -- arithmetic on raw tuples: not attempted
    | _ => true

/-- the side condition of `forest_eval_eq_python` at a binary operator, on the built operands -/
def binOK (T : Tables) (env : Env) (op : BinOp) (l r : Node) : Bool :=
  match l, r with
  | .fail, _ => true
  | _, .fail => true
  | .const _, .const _ => true
  | l, r => binGenOK T env op l r

/-- indexing: a container that is not a Distribution must be indexed by a constant (Python's own `tuple.__getitem__`
    rejects a Distribution), and all its elements must evaluate (Scenic only evaluates the selected one) -/
def getitemOK (T : Tables) (env : Env) (obj idx : Node) : Bool :=
  obj.isFail || idx.isFail || obj.isDist || (idx.isConst && (obj.isConst || evalsSome T env obj))

/-- `len` / attribute access on a raw tuple or a Vector with random coordinates: all elements must evaluate -/
def lazyOK (T : Tables) (env : Env) (n : Node) : Bool :=
  match n with
  | .rawt .. | .vecOf .. => evalsSome T env n
  | _ => true

/-- `*v` where `v` is a Vector with random coordinates is rejected by `wrapStarredValue` -/
def starOK (n : Node) : Bool :=
  match n with
  | .vecOf .. => false
  | _ => true

mutual
  /-- the fragment on which `forest_eval_eq_python` is proved -/
  def supportedB (T : Tables) (env : Env) : Expr → Bool
    | .const _ => true
    | .leaf _ _ => true
    | .bin op l r => supportedB T env l && supportedB T env r && binOK T env op (build T l) (build T r)
    | .un _ e => supportedB T env e
    | .getitem e i => supportedB T env e && supportedB T env i && getitemOK T env (build T e) (build T i)
    | .len e => supportedB T env e && lazyOK T env (build T e)
    | .attr e _ => supportedB T env e && lazyOK T env (build T e)
    | .mkseq _ es => supportedList T env es
    | .mkvec x y z => supportedB T env x && supportedB T env y && supportedB T env z
    | .call _ args => supportedArgs T env args
  def supportedList (T : Tables) (env : Env) : List Expr → Bool
    | [] => true
    | e :: rest => supportedB T env e && supportedList T env rest
  def supportedArgs (T : Tables) (env : Env) : List Arg → Bool
    | [] => true
    | .pos e :: rest => supportedB T env e && supportedArgs T env rest
    | .star e :: rest => supportedB T env e && starOK (build T e) && supportedArgs T env rest
end

end Scenic.Expr
