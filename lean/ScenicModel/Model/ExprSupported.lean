import ScenicModel.Model.Expr
/-!
# C05 — the fragment on which `forest_eval_eq_python` is proved

`supportedB T env e` is a *checkable* predicate (the driver evaluates it for every generated case, so the evidence
shows how much of the explored input space lies inside the proved fragment).  It excludes exactly the places
where the model itself shows that Scenic's forest and plain Python differ — nothing is excluded because its proof
was not attempted:

* `shortZero`: `Vector(1, 2, 3) + X` with `X` sampled to an all-zero sequence of fewer than three elements
  (plain Python returns the vector through the zero-identity shortcut of the decorated operator, the
  VectorMethodDistribution calls the undecorated method, which raises IndexError);
* `str % x` (string formatting: outside the value universe);
* a container that is not a Distribution indexed by a random value (Python's own `tuple.__getitem__` rejects the
  Distribution while compiling);
* the lazily discarded parts of raw tuples and of Vectors with random coordinates (Scenic evaluates only the element
  that is used; plain Python evaluates, and may raise in, all of them);
* `*v` for a Vector `v` with random coordinates (rejected by `wrapStarredValue`).
-/
namespace Scenic.Expr

/-- a condition on the sampled values of two nodes (vacuous when one of them raises) -/
def valsOK (T : Tables) (env : Env) (n m : Node) (p : Val → Val → Bool) : Bool :=
  match evalNode T env n, evalNode T env m with
  | some a, some b => p a b
  | _, _ => true

def evalsSome (T : Tables) (env : Env) (n : Node) : Bool := (evalNode T env n).isSome

/-- an all-zero tuple/list with fewer than three elements: the decorated `Vector.__add__` returns `self`,
    the undecorated method (used by VectorMethodDistribution) raises IndexError -/
def shortZero : Val → Bool
  | .seq _ xs => allZero xs && xs.length < 3
  | _ => false

/-- `Vector.__op__(self, arg)` for a Vector `self` (constant or with random coordinates): only a *constant* Vector
    combined with a random operand builds a VectorMethodDistribution -/
def vecCoreOK (T : Tables) (env : Env) (op : BinOp) (refl : Bool) (self arg : Node) : Bool :=
  if vecHas op refl && (toDist arg).isLazy then
    (match self with
     | .const _ => valsOK T env self arg (fun _ b => !shortZero b)
     | _ => true)
  else true

def vecHelperOK (T : Tables) (env : Env) (op : BinOp) (refl : Bool) (self arg : Node) : Bool :=
  vecCoreOK T env op (if op == .mul then false else refl) self arg

/-- a raw tuple/list (a plain Python container holding random values) repeated with `*`: Scenic repeats the
    container while compiling, so its elements must evaluate where plain Python evaluates them
    (`(x, 1 / y) * 0` is `()` for Scenic, ZeroDivisionError for Python when `y` is sampled to 0) -/
def rawMulOK (T : Tables) (env : Env) (op : BinOp) (n : Node) : Bool :=
  op != .mul || evalsSome T env n

/-- `c op r` for a constant `c` that is not a Vector -/
def constLeftOK (T : Tables) (env : Env) (op : BinOp) (r : Node) : Bool :=
  if r.isVecDist then true
  else if r.isDist then true
  else match r with
    | .vecOf .. => true
    | .rawt .. => rawMulOK T env op r
    | _ => true

/-- `rawtuple op Vector(..)`: the constant Vector's reflected method builds a VectorMethodDistribution over the
    (wrapped) tuple -/
def rawVecOK (T : Tables) (env : Env) (op : BinOp) (l r : Node) : Bool :=
  match r with
  | .const (.vec ..) => vecHelperOK T env op true r l
  | _ => true

def binGenOK (T : Tables) (env : Env) (op : BinOp) (l r : Node) : Bool :=
  if l.isVecDist then true
  else if l.isDist then true
  else match l with
    | .vecOf .. => true
    | .const (.vec ..) => vecHelperOK T env op false l r
    | .const (.str _) => op != .mod && constLeftOK T env op r     -- `str % x` formats x: outside the model
    | .const _ => constLeftOK T env op r
    | .rawt .. =>
      rawMulOK T env op l && rawVecOK T env op l r
    | _ => true

/-- the side condition of `forest_eval_eq_python` at a binary operator, on the built operands -/
def binOK (T : Tables) (env : Env) (op : BinOp) (l r : Node) : Bool :=
  match l, r with
  | .fail, _ => true
  | _, .fail => true
  | .const _, .const _ => true
  | l, r => binGenOK T env op l r

/-- indexing: a container that is not a Distribution must be indexed by a constant (Python's own `tuple.__getitem__`
    rejects a Distribution), and all its elements must evaluate (Scenic only evaluates the selected one) -/
def getitemOK (T : Tables) (env : Env) (obj idx : Node) : Bool :=
  obj.isFail || idx.isFail || obj.isDist || (idx.isConst && (obj.isConst || evalsSome T env obj))

/-- `len` / attribute access on a raw tuple or a Vector with random coordinates: all elements must evaluate -/
def lazyOK (T : Tables) (env : Env) (n : Node) : Bool :=
  match n with
  | .rawt .. | .vecOf .. => evalsSome T env n
  | _ => true

/-- `*v` where `v` is a Vector with random coordinates is rejected by `wrapStarredValue` -/
def starOK (n : Node) : Bool :=
  match n with
  | .vecOf .. => false
  | _ => true

mutual
  /-- the fragment on which `forest_eval_eq_python` is proved -/
  def supportedB (T : Tables) (env : Env) : Expr → Bool
    | .const _ => true
    | .leaf _ _ => true
    | .bin op l r => supportedB T env l && supportedB T env r && binOK T env op (build T l) (build T r)
    | .un _ e => supportedB T env e
    | .getitem e i => supportedB T env e && supportedB T env i && getitemOK T env (build T e) (build T i)
    | .len e => supportedB T env e && lazyOK T env (build T e)
    | .attr e _ => supportedB T env e && lazyOK T env (build T e)
    | .mkseq _ es => supportedList T env es
    | .mkvec x y z => supportedB T env x && supportedB T env y && supportedB T env z
    | .call _ args => supportedArgs T env args
  def supportedList (T : Tables) (env : Env) : List Expr → Bool
    | [] => true
    | e :: rest => supportedB T env e && supportedList T env rest
  def supportedArgs (T : Tables) (env : Env) : List Arg → Bool
    | [] => true
    | .pos e :: rest => supportedB T env e && supportedArgs T env rest
    | .star e :: rest => supportedB T env e && starOK (build T e) && supportedArgs T env rest
end

end Scenic.Expr
