import ScenicModel.Model.Expr
namespace Scenic.Expr
/-- (temporary stub) -/
def supportedB (_T : Tables) (_env : Env) (_e : Expr) : Bool := true
end Scenic.Expr
