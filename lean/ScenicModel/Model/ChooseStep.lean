import ScenicModel.Model.Choose
/-!
# Small-step (one simulation time step at a time) model of a behavior / compose / monitor body  (property C19)

`Model/Choose.lean` gives the *big-step* meaning of a body (`exec`: the distribution over whole runs).  The code does
not run a body in one go: the body is a Python generator that the simulator resumes once per time step
(`Behavior._step` → `_runningIterator.send(None)`), and `do choose` / `do shuffle` are generators nested in it
(`_invokeSubBehavior` → `_runSubBehavior` → `scheduler()` → `_invokeInner` → `yield from sub._runningIterator`).
This file models exactly that:

* `AState` — where a suspended body is: `wait` = number of `yield`s still to come from the innermost running piece
  (a `wait`/`take` sequence, a running sub-behaviour, the time step after a run-time draw), `shuf` = the dict `subs` of the
  shuffle scheduler in progress (`while subs: choice = pick(subs); subs.pop(choice); yield from …`), `rest` = the
  statements of the body not yet started, `vals` = values drawn so far, `store` = dicts held in local variables;
* `resume t` — what one `send(None)` at time step `t` does: run until the next `yield` (`Step.suspended`) or until the
  body ends / the simulation is rejected / an exception escapes (`Step.finished`); all picks and draws that happen
  during that time step are made at step `t` (so a sub-behaviour that ends without taking an action is followed by
  the next pick *in the same time step*);
* `runSteps n` — the simulator loop for one body: `n` time steps, then a continuation;
* `lockstep` — several bodies (the agents' behaviors, monitors, the compose block) resumed one after the other in
  every time step, all drawing from the same random number generator.

`Lemmas/ChooseStep.lean` proves that the big-step semantics is the fixed point of this machine
(`exec` = one `resume`, then `exec` of the successor state — for every state and every time step) and that bodies
resumed in lockstep have the product of their individual outcome distributions.
-/
namespace Scenic.Choose

/-- control state of a suspended (or not yet started) body -/
structure AState where
  /-- `yield`s still to be performed before anything else happens -/
  wait : Nat
  /-- not-yet-run items of the `do shuffle` in progress (`[]`: none in progress) -/
  shuf : List Item
  /-- statements not yet started -/
  rest : List Stmt
  /-- values drawn so far -/
  vals : List Int
  /-- dicts held in local variables -/
  store : Store
  deriving DecidableEq, Repr

def AState.init (ss : List Stmt) (st : Store) : AState := ⟨0, [], ss, [], st⟩

/-- result of resuming a body for one time step -/
inductive Step where
  /-- the body yielded (one time step passes); `evs` happened during this time step -/
  | suspended (evs : List Event) (s : AState)
  /-- the body ended / was rejected / raised during this time step; `o.log` = what happened during it -/
  | finished (o : Outcome)
  deriving DecidableEq, Repr

def Step.prepend (evs : List Event) : Step → Step
  | .suspended e s => .suspended (evs ++ e) s
  | .finished o => .finished (o.prepend evs)

/-- number of control transitions a state can make within one time step (fuel for `resume`) -/
def stmtSize (st : Store) : Stmt → Nat
  | .shuffle items => items.length + 2
  | .shuffleVar k => (st.getD k []).length + 2
  | _ => 1

/-- bound on the dicts a later statement can see: the store only ever shrinks (`afterShuffle`) -/
def restSize (st : Store) : List Stmt → Nat
  | [] => 0
  | s :: ss => stmtSize st s + restSize st ss

def AState.need (s : AState) : Nat := s.shuf.length + restSize s.store s.rest + 1

/-- after the pick of the shuffle scheduler at step `t` -/
def resumeShuffle (env : Env) (t : Nat) (s : AState) (recur : AState → Dist Step) : Pick Item → Dist Step
  | .picked x =>
    Dist.map (Step.prepend [ranEvent t x]) (recur { s with wait := env.dur x.id t, shuf := s.shuf.erase x })
  | p => Dist.pure (.finished (failOutcome t p))

/-- after the pick of a `do choose` at step `t` (`r`: the statements after it) -/
def resumeChoose (env : Env) (t : Nat) (s : AState) (r : List Stmt) (recur : AState → Dist Step) : Pick Item → Dist Step
  | .picked x => Dist.map (Step.prepend [ranEvent t x]) (recur { s with wait := env.dur x.id t, rest := r })
  | p => Dist.pure (.finished (failOutcome t p))

/-- after a run-time draw at step `t` -/
def resumeDraw (t : Nat) (s : AState) (r : List Stmt) (recur : AState → Dist Step) : Pick Int → Dist Step
  | .picked z => Dist.map (Step.prepend [⟨t, 1, z⟩]) (recur { s with wait := 1, rest := r, vals := s.vals ++ [z] })
  | p => Dist.pure (.finished (failOutcome t p))

/-- one `send(None)` at time step `t`: run the body until its next `yield` -/
def resume (c : Config) (env : Env) (t : Nat) : Nat → AState → Dist Step
  | 0, _ => Dist.pure (.finished ⟨[], t, .error⟩)      -- out of fuel: not reachable with fuel `≥ s.need`
  | fuel + 1, s =>
    if 0 < s.wait then Dist.pure (.suspended [] { s with wait := s.wait - 1 })
    else if !s.shuf.isEmpty then
      Dist.bind (pickEnabled c env t s.shuf) (resumeShuffle env t s (resume c env t fuel))
    else match s.rest with
      | [] => Dist.pure (.finished ⟨[], t, .done⟩)
      | .wait n :: r => resume c env t fuel { s with wait := n, rest := r }
      | .draw d :: r => Dist.bind (drawDist c s.vals d) (resumeDraw t s r (resume c env t fuel))
      | .choose items :: r =>
        Dist.bind (pickEnabled c env t items) (resumeChoose env t s r (resume c env t fuel))
      | .shuffle items :: r => resume c env t fuel { s with shuf := items, rest := r }
      | .chooseVar k :: r =>
        Dist.bind (pickEnabled c env t (s.store.getD k [])) (resumeChoose env t s r (resume c env t fuel))
      | .shuffleVar k :: r =>
        resume c env t fuel { s with shuf := s.store.getD k [], rest := r, store := afterShuffle c s.store k }

/-- what the simulator does with the result of a time step: go on at the next step, or stop -/
def afterStep (k : Nat → AState → Dist Outcome) (t : Nat) : Step → Dist Outcome
  | .suspended evs s => Dist.map (Outcome.prepend evs) (k (t + 1) s)
  | .finished o => Dist.pure o

/-- the simulator loop for one body: `n` time steps starting at step `t`, then continuation `k` -/
def runSteps (c : Config) (env : Env) (k : Nat → AState → Dist Outcome) : Nat → Nat → AState → Dist Outcome
  | 0, t, s => k t s
  | n + 1, t, s => Dist.bind (resume c env t s.need s) (afterStep (runSteps c env k n) t)

/-! ## several bodies resumed in lockstep -/

/-- a body in the simulator's list: still running (with its log so far) or over -/
inductive Agent where
  | running (log : List Event) (s : AState)
  | over (o : Outcome)
  deriving Repr

def Agent.afterStep (log : List Event) : Step → Agent
  | .suspended evs s => .running (log ++ evs) s
  | .finished o => .over (o.prepend log)

/-- one time step of one body -/
def agentStep (c : Config) (env : Env) (t : Nat) : Agent → Dist Agent
  | .running log s => Dist.map (Agent.afterStep log) (resume c env t s.need s)
  | .over o => Dist.pure (.over o)

/-- run the given one-step functions one after the other, all on the same random number generator -/
def Dist.sequence {α : Type} : List (Dist α) → Dist (List α)
  | [] => Dist.pure []
  | d :: ds => Dist.bind d fun a => Dist.map (fun as => a :: as) (Dist.sequence ds)

/-- one simulation time step: every body is resumed once, in list order -/
def lockstepStep (c : Config) (env : Env) (t : Nat) (agents : List Agent) : Dist (List Agent) :=
  Dist.sequence (agents.map (agentStep c env t))

/-- `n` simulation time steps starting at step `t` -/
def lockstep (c : Config) (env : Env) : Nat → Nat → List Agent → Dist (List Agent)
  | 0, _, agents => Dist.pure agents
  | n + 1, t, agents => Dist.bind (lockstepStep c env t agents) (lockstep c env n (t + 1))

/-- `n` time steps of a single body -/
def agentRun (c : Config) (env : Env) : Nat → Nat → Agent → Dist Agent
  | 0, _, a => Dist.pure a
  | n + 1, t, a => Dist.bind (agentStep c env t a) (agentRun c env n (t + 1))

end Scenic.Choose
