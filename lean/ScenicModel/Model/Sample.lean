import ScenicModel.Model.Codec

/-!
Model of scene (sample) encoding: `Serializer.writeScene/readScene/writeSample/readSample/
writeSamplable/readSamplable`, `Samplable.serializeValue/deserializeValue`,
`Distribution.serializeValue/deserializeValue` and the `MultiplexerDistribution` overrides.

A scenario's dependency graph is a list of nodes; the identity of a node (`id(obj)` in the writer's
`seenObjs`, the object itself as key of the reader's `DefaultIdentityDict`) is its index.
* `const`  — `not needsSampling(obj)`: nothing is written or read; looking it up in the reader's
             dictionary gives the object itself (`cv i`).
* `prim ty` — a non-deterministic distribution: its sampled value is written with the codec of `ty`.
* `det deps op` — a `_deterministic` distribution (operators, function calls, objects, tuples, …):
             its dependencies are written/read, then the value is recomputed (`sampleGiven`) as
             `eval op` of the dependency values.
* `mux idx opts` — `MultiplexerDistribution`: the index, then only the chosen option.
Core Lean only.
-/
namespace Scenic.Sample
open Scenic.Codec

inductive Ty | none | float | int | bool | bytes | vector | orientation
  deriving DecidableEq, Repr

/-- floats / vectors / orientations are raw `struct.pack` payloads (8 / 24 / 32 bytes) -/
inductive Val
  | none
  | float (raw : Bytes)
  | int (z : Int)
  | bool (b : Bool)
  | bytes (v : Bytes)
  | vector (raw : Bytes)
  | orientation (raw : Bytes)
  deriving DecidableEq, Repr

def Val.hasTy : Val → Ty → Prop
  | .none, .none => True
  | .float r, .float => r.length = 8
  | .int _, .int => True
  | .bool _, .bool => True
  | .bytes _, .bytes => True
  | .vector r, .vector => r.length = 24
  | .orientation r, .orientation => r.length = 32
  | _, _ => False

/-- `Serializer.writeValue(value, ty)` -/
def writeValue (t : IntTable) : Val → Option Bytes
  | .none => some []
  | .float r => some r
  | .int z => writeInt t z
  | .bool b => writeBool t b
  | .bytes v => writeBytes t v
  | .vector r => some r
  | .orientation r => some r

/-- `Serializer.readValue(ty)` -/
def readValue (t : IntTable) : Ty → Bytes → Option (Val × Bytes)
  | .none, s => some (.none, s)
  | .float, s => (readExact 8 s).map fun (a, r) => (.float a, r)
  | .int, s => (readInt t s).map fun (z, r) => (.int z, r)
  | .bool, s => (readBool t s).map fun (b, r) => (.bool b, r)
  | .bytes, s => (readBytes t s).map fun (v, r) => (.bytes v, r)
  | .vector, s => (readExact 24 s).map fun (a, r) => (.vector a, r)
  | .orientation, s => (readExact 32 s).map fun (a, r) => (.orientation a, r)

inductive Node
  | const
  | prim (ty : Ty)
  | det (deps : List Nat) (op : Nat)
  | mux (idx : Nat) (opts : List Nat)
  deriving Repr

abbrev Graph := List Node

def Graph.node (g : Graph) (i : Nat) : Node := g.getD i .const

/-- everything the codec needs to know about a scenario and one sample of it -/
structure Ctx where
  t : IntTable
  g : Graph
  /-- `sampleGiven` of deterministic node kinds -/
  eval : Nat → List Val → Val
  /-- a constant node looked up in the reader's dictionary is itself -/
  cv : Nat → Val

abbrev WState := List Nat × Bytes            -- (seenObjs, stream so far)
abbrev RState := List (Nat × Val) × Bytes    -- (values dictionary, unread stream)

def lookupD (c : Ctx) (env : List (Nat × Val)) (i : Nat) : Val :=
  match env.lookup i with
  | some v => v
  | none => c.cv i

/-- `options[k]` (0 when out of range; callers check the range first) -/
def optAt : List Nat → Nat → Nat
  | [], _ => 0
  | a :: _, 0 => a
  | _ :: l, k + 1 => optAt l k

/-- fold a state transformer over a list of node ids, stopping at the first failure -/
def foldM {σ : Type} (step : Nat → σ → Option σ) : List Nat → σ → Option σ
  | [], s => some s
  | d :: ds, s => match step d s with
    | none => none
    | some s' => foldM step ds s'

/-- `Serializer.writeSamplable(obj, values)`; the first argument is recursion fuel -/
def writeNode (c : Ctx) (vals : Nat → Val) : Nat → Nat → WState → Option WState
  | 0, _, _ => none
  | f + 1, i, (seen, out) =>
    match c.g.node i with
    | .const => some (seen, out)
    | .prim _ =>
      if i ∈ seen then some (seen, out) else
      match writeValue c.t (vals i) with
      | none => none
      | some b => some (i :: seen, out ++ b)
    | .det deps _ =>
      if i ∈ seen then some (seen, out) else
      foldM (writeNode c vals f) deps (i :: seen, out)
    | .mux idx opts =>
      if i ∈ seen then some (seen, out) else
      match writeNode c vals f idx (i :: seen, out) with
      | none => none
      | some st1 =>
        match vals idx with
        | .int k =>
          if 0 ≤ k ∧ k.toNat < opts.length then writeNode c vals f (optAt opts k.toNat) st1
          else none
        | _ => none

/-- `Serializer.readSamplable(obj, values)` -/
def readNode (c : Ctx) : Nat → Nat → RState → Option RState
  | 0, _, _ => none
  | f + 1, i, (env, rest) =>
    match c.g.node i with
    | .const => some (env, rest)
    | .prim ty =>
      if (env.lookup i).isSome then some (env, rest) else
      match readValue c.t ty rest with
      | none => none
      | some (v, r) => some ((i, v) :: env, r)
    | .det deps op =>
      if (env.lookup i).isSome then some (env, rest) else
      match foldM (readNode c f) deps (env, rest) with
      | none => none
      | some (env', r) => some ((i, c.eval op (deps.map (lookupD c env'))) :: env', r)
    | .mux idx opts =>
      if (env.lookup i).isSome then some (env, rest) else
      match readNode c f idx (env, rest) with
      | none => none
      | some (env1, r1) =>
        match lookupD c env1 idx with
        | .int k =>
          if 0 ≤ k ∧ k.toNat < opts.length then
            match readNode c f (optAt opts k.toNat) (env1, r1) with
            | none => none
            | some (env2, r2) => some ((i, lookupD c env2 (optAt opts k.toNat)) :: env2, r2)
          else none
        | _ => none

/-- `writeSample(objects, values)` / `readSample(objects)` over the scenario's dependency list -/
def writeSample (c : Ctx) (vals : Nat → Val) (roots : List Nat) : Option Bytes :=
  (foldM (writeNode c vals c.g.length.succ) roots ([], [])).map (·.2)

def readSample (c : Ctx) (roots : List Nat) (s : Bytes) : Option RState :=
  foldM (readNode c c.g.length.succ) roots ([], s)

/-- the graph is acyclic in the numbering: every dependency has a smaller index
    (Scenic builds distributions from already-existing ones) -/
def DAG (g : Graph) : Prop :=
  ∀ i, match g.node i with
    | .det deps _ => ∀ d ∈ deps, d < i
    | .mux idx opts => idx < i ∧ ∀ o ∈ opts, o < i
    | _ => True

/-- `vals` is a sample of the scenario: every node's value is what `sampleGiven` computes -/
def Consistent (c : Ctx) (vals : Nat → Val) : Prop :=
  ∀ i, match c.g.node i with
    | .const => vals i = c.cv i
    | .prim ty => (vals i).hasTy ty
    | .det deps op => vals i = c.eval op (deps.map vals)
    | .mux idx opts => ∃ k : Int, vals idx = .int k ∧ 0 ≤ k ∧ k.toNat < opts.length ∧
        vals i = vals (optAt opts k.toNat)

/-! ### scene header: format version (2 bytes LE), AST hash (4), options hash (4) -/

structure Header where
  version : Nat
  astHash : Bytes
  optHash : Bytes
  deriving DecidableEq, Repr

def writeScene (c : Ctx) (h : Header) (vals : Nat → Val) (roots : List Nat) : Option Bytes :=
  (writeSample c vals roots).map fun body => toLE h.version 2 ++ h.astHash ++ h.optHash ++ body

/-- `readScene(scenario, verify=True)`; `h` is the reading scenario's header -/
def readScene (c : Ctx) (h : Header) (roots : List Nat) (s : Bytes) : Option RState :=
  match readExact 2 s with
  | none => none
  | some (v, s1) =>
    if fromLE v ≠ h.version then none else
    let a := s1.take 4
    if a ≠ h.astHash then none else
    let s2 := s1.drop 4
    let o := s2.take 4
    if o ≠ h.optHash then none else
    readSample c roots (s2.drop 4)

end Scenic.Sample
