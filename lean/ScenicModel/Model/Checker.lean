/-
Model of `scenic.core.sample_checking` (SampleChecker / BasicChecker / WeightedAcceptanceChecker)
and of the rejection loop of `Scenario._generateInner` / `generateBatch`.  Core Lean only.

Every syntactic choice point of the Python source that matters for soundness is a field of `Cfg`
(regenerated from /repo by `tools/translate/checkercfg.py` into `Gen/CheckerCfg.lean`); the functions
below are what the code *does* for any value of those fields, the theorems in `Props/C02*.lean`
hold for every configuration satisfying `Cfg.WF`, and `WF Gen.checkerCfg` is re-decided on every run.

A requirement is `{id, optional, active}`; what `falsifiedBy(sample)` does for the sample at hand
is a function `fals : Nat → Option Bool` of the id (the sample is fixed during one `checkRequirements` call):
`some b` = it returns `b`, `none` = it raises `RejectionException` (e.g. a user requirement evaluating a vector
field outside its domain), which `SampleChecker.checkRequirements` turns into a rejection.
-/
namespace Scenic.Checker

structure Req where
  id : Nat
  optional : Bool
  active : Bool
deriving Repr, DecidableEq

/-- predicates on a requirement that can appear in a comprehension filter / loop condition -/
inductive Pred where
  | active | notActive | optional | notOptional | always
deriving Repr, DecidableEq

def Pred.eval : Pred → Req → Bool
  | .active, r => r.active
  | .notActive, r => !r.active
  | .optional, r => r.optional
  | .notOptional, r => !r.optional
  | .always, _ => true

/-- which end of the list an index expression / `pop` refers to (`reqs[-1]`, `reqs.pop()` = last) -/
inductive End where
  | first | last
deriving Repr, DecidableEq

structure Cfg where
  /-- `reqs = [req for req in self.requirements if <wFilter>]` -/
  wFilter : Pred
  /-- `reqs.sort(key=..., reverse=?)` -/
  wSortReverse : Bool
  /-- `while reqs and <pred>(reqs[<wPopTest>]): reqs.pop(<wPopFrom>)`; `none` = no such loop -/
  wPopPred : Option Pred
  wPopTest : End
  wPopFrom : End
  /-- the evaluation loop iterates over `self.sortedRequirements()` (true) or `self.requirements` (false) -/
  wLoopSorted : Bool
  /-- `if rejected: return msg` (true) / `if not rejected: return msg` (false) -/
  wRejectWhen : Bool
  /-- the loop falls through to `return None` -/
  wFallthroughAccepts : Bool
  /-- metrics are `(int(not rejected), dt)` (true) / `(int(rejected), dt)` (false) -/
  wAccNotRejected : Bool
  /-- BasicChecker: `if req.active and req.falsifiedBy(sample)` has the `req.active` guard -/
  bGuardActive : Bool
  bRejectWhen : Bool
  bFallthroughAccepts : Bool
  /-- BasicChecker.setRequirements: the `else` branch appends non-optional requirements -/
  bKeepMandatory : Bool
  /-- threshold on the number of IntersectionRequirements for keeping the blanket pre-check -/
  bBlanketMin : Nat
  /-- `except RejectionException as e: return e` (a rejection, i.e. not `None`); `false` = the handler
      returns `None`, i.e. a sample whose check raised is *accepted* -/
  catchRejects : Bool
deriving Repr, DecidableEq

/-- the configuration under which the soundness theorems are proved -/
def Cfg.WF (c : Cfg) : Bool :=
  c.wFilter == .active &&
  (c.wPopPred == none || (c.wPopPred == some .optional && c.wPopTest == c.wPopFrom)) &&
  c.wRejectWhen && c.wFallthroughAccepts &&
  c.bGuardActive && c.bRejectWhen && c.bFallthroughAccepts && c.bKeepMandatory &&
  c.catchRejects

/-! ## cost of a requirement (`getRequirementCost`) and the sort -/

/-- Python tuple `(x, y)` with `x` possibly `float("inf")` (`none`) -/
abbrev Cost := Option Rat × Rat

def Cost.le (a b : Cost) : Bool :=
  match a.1, b.1 with
  | some x, some y => if x < y then true else if y < x then false else decide (a.2 ≤ b.2)
  | some _, none => true
  | none, some _ => false
  | none, none => decide (a.2 ≤ b.2)

/-- `while reqs and p(reqs[test]): reqs.pop(from)` -/
def popLoop (p : Req → Bool) (test frm : End) (l : List Req) : List Req :=
  match test, frm with
  | .last, .last => (l.reverse.dropWhile p).reverse
  | .first, .first => l.dropWhile p
  | .last, .first => match l.getLast? with
      | some r => if p r then [] else l
      | none => []
  | .first, .last => match l.head? with
      | some r => if p r then [] else l
      | none => []

/-- stable insertion: `a` (which preceded every element of the list in the original order) goes before
    the first element it is `≤` to -/
def insertBy {α} (le : α → α → Bool) (a : α) : List α → List α
  | [] => [a]
  | b :: l => if le a b then a :: b :: l else b :: insertBy le a l

/-- stable sort (Python's `list.sort` is stable; for a total preorder every stable sort gives the same list) -/
def stableSort {α} (le : α → α → Bool) : List α → List α
  | [] => []
  | a :: l => insertBy le a (stableSort le l)

/-- `WeightedAcceptanceChecker.sortedRequirements` for an arbitrary key function. -/
def sortedRequirements (c : Cfg) (key : Req → Cost) (reqs : List Req) : List Req :=
  let rs := reqs.filter c.wFilter.eval
  let rs := stableSort (fun a b => if c.wSortReverse then Cost.le (key b) (key a) else Cost.le (key a) (key b)) rs
  match c.wPopPred with
  | none => rs
  | some p => popLoop p.eval c.wPopTest c.wPopFrom rs

/-! ## evaluation loops -/

inductive Outcome where
  | accept
  | reject (id : Nat)
  /-- `falsifiedBy` asserts `self.active`: evaluating an inactive requirement raises AssertionError -/
  | crash
  /-- `falsifiedBy` of requirement `id` raised RejectionException and `checkRequirements` returned it:
      the sample is rejected (no metrics are recorded for that requirement) -/
  | rejectExc (id : Nat)
deriving Repr, DecidableEq

/-- what `checkRequirements` makes of a RejectionException raised by requirement `id`:
    `return e` (a rejection) or, for a handler returning `None`, acceptance of the sample -/
def onRaise (catchRejects : Bool) (id : Nat) : Outcome :=
  if catchRejects then .rejectExc id else .accept

/-- the `for req in …:` loop of `checkRequirementsInner` inside the `try` of `checkRequirements`; returns the
    ids evaluated to completion, in order, with the value `falsifiedBy` returned, and the outcome -/
def evalLoop (rejectWhen fallthrough catchRejects : Bool) (fals : Nat → Option Bool) :
    List Req → List (Nat × Bool) × Outcome
  | [] => ([], if fallthrough then .accept else .reject 0)
  | r :: rs =>
    if !r.active then ([], .crash) else
    match fals r.id with
    | none => ([], onRaise catchRejects r.id)
    | some f =>
      if f == rejectWhen then ([(r.id, f)], .reject r.id)
      else
        let (ev, out) := evalLoop rejectWhen fallthrough catchRejects fals rs
        ((r.id, f) :: ev, out)

/-- the decision part of `WeightedAcceptanceChecker.checkRequirementsInner` -/
def weightedDecide (c : Cfg) (key : Req → Cost) (reqs : List Req) (fals : Nat → Option Bool) :
    List (Nat × Bool) × Outcome :=
  evalLoop c.wRejectWhen c.wFallthroughAccepts c.catchRejects fals
    (if c.wLoopSorted then sortedRequirements c key reqs else reqs)

/-! ### BasicChecker -/

/-- `BasicChecker.setRequirements`: `isBlanket`/`isIntersection` classify by id -/
def basicSelect (c : Cfg) (initialCollisionCheck : Bool) (isBlanket isIntersection : Nat → Bool)
    (reqs : List Req) : List Req :=
  let nInter := (reqs.filter (fun r => isIntersection r.id)).length
  reqs.filter fun r =>
    if r.optional then
      isBlanket r.id && initialCollisionCheck && decide (nInter ≥ c.bBlanketMin)
    else c.bKeepMandatory

def basicLoop (c : Cfg) (fals : Nat → Option Bool) : List Req → List (Nat × Bool) × Outcome
  | [] => ([], if c.bFallthroughAccepts then .accept else .reject 0)
  | r :: rs =>
    if c.bGuardActive && !r.active then
      basicLoop c fals rs
    else if !r.active then ([], .crash)
    else
      match fals r.id with
      | none => ([], onRaise c.catchRejects r.id)
      | some f =>
        if f == c.bRejectWhen then ([(r.id, f)], .reject r.id)
        else
          let (ev, out) := basicLoop c fals rs
          ((r.id, f) :: ev, out)

/-! ## the statistics kept by WeightedAcceptanceChecker -/

structure RS where
  /-- `self.buffers[req]`: a deque of (accepted, time) -/
  buf : List (Int × Rat)
  /-- `self.bufferSums[req]` -/
  sumAcc : Int
  sumTime : Rat
deriving Repr

abbrev State := List RS

def RS.init (bufferSize : Nat) : RS := ⟨List.replicate bufferSize (0, 0), 0, 0⟩

def State.init (bufferSize nreqs : Nat) : State := List.replicate nreqs (RS.init bufferSize)

/-- `updateMetrics` for one requirement (`popleft` of an empty deque is outside the model: bufferSize ≥ 1) -/
def RS.update (s : RS) (m : Int × Rat) : RS :=
  let old := s.buf.headD (0, 0)
  ⟨s.buf.tail ++ [m], s.sumAcc + (m.1 - old.1), s.sumTime + (m.2 - old.2)⟩

def State.update (st : State) (id : Nat) (m : Int × Rat) : State :=
  match st[id]? with
  | some s => st.set id (s.update m)
  | none => st

/-- `getRequirementCost` (exact rationals) -/
def RS.cost (bufferSize : Nat) (s : RS) : Cost :=
  let runtime := s.sumTime / bufferSize
  let rej := 1 - (s.sumAcc : Rat) / bufferSize
  if rej > 0 then (some (runtime / rej), 0) else (none, runtime)

def State.key (bufferSize : Nat) (st : State) (r : Req) : Cost :=
  match st[r.id]? with
  | some s => s.cost bufferSize
  | none => (none, 0)

/-- apply the metric updates of one call: evaluation `k` took `times[k]` -/
def applyMetrics (c : Cfg) : State → List (Nat × Bool) → List Rat → State
  | st, [], _ => st
  | st, (id, f) :: ev, ts =>
    let acc : Int := if f != c.wAccNotRejected then 1 else 0   -- int(not rejected) when wAccNotRejected
    applyMetrics c (st.update id (acc, ts.headD 0)) ev ts.tail

/-- one `WeightedAcceptanceChecker.checkRequirements` call: order from the current statistics,
    evaluation, statistics update -/
def weightedCheck (c : Cfg) (bufferSize : Nat) (st : State) (reqs : List Req) (fals : Nat → Option Bool)
    (times : List Rat) : State × List (Nat × Bool) × Outcome :=
  let (ev, out) := weightedDecide c (st.key bufferSize) reqs fals
  (applyMetrics c st ev times, ev, out)

/-! ## the rejection loop of `Scenario._generateInner` -/

structure Attempt where
  /-- `Samplable.sampleAll` raised RejectionException for this candidate -/
  sampleRejected : Bool
  /-- `req.falsifiedBy(sample)` by requirement id (`none` = raises RejectionException) -/
  fals : Nat → Option Bool
  /-- durations measured by the checker for the successive evaluations -/
  times : List Rat

/-- the rejection loop of `_generateInner` over an arbitrary checker with state `σ`:
    returns the index (from `k`) of the accepted candidate, `none` if the candidates are exhausted
    (RejectionException after maxIterations) or the checker crashed -/
def generateWith {σ : Type} (check : σ → Attempt → σ × Outcome) : σ → List Attempt → Nat → σ × Option Nat
  | st, [], _ => (st, none)
  | st, a :: as, k =>
    if a.sampleRejected then generateWith check st as (k + 1)
    else
      match check st a with
      | (st', .accept) => (st', some k)
      | (st', .reject _) => generateWith check st' as (k + 1)
      | (st', .rejectExc _) => generateWith check st' as (k + 1)
      | (st', .crash) => (st', none)

/-- one call of the default checker as a step of the rejection loop -/
def weightedStep (c : Cfg) (bufferSize : Nat) (reqs : List Req) (st : State) (a : Attempt) : State × Outcome :=
  let r := weightedCheck c bufferSize st reqs a.fals a.times
  (r.1, r.2.2)

/-- `_generateInner` with a `WeightedAcceptanceChecker` -/
def generateInner (c : Cfg) (bufferSize : Nat) (reqs : List Req) :
    State → List Attempt → Nat → State × Option Nat :=
  generateWith (weightedStep c bufferSize reqs)

/-- one call of a `BasicChecker` (stateless) whose `setRequirements` selected `sel` -/
def basicStep (c : Cfg) (sel : List Req) (_ : Unit) (a : Attempt) : Unit × Outcome :=
  ((), (basicLoop c a.fals sel).2)

/-- `_generateInner` with a `BasicChecker` -/
def generateInnerBasic (c : Cfg) (initialCollisionCheck : Bool) (isBlanket isIntersection : Nat → Bool)
    (reqs : List Req) (atts : List Attempt) : Option Nat :=
  (generateWith (basicStep c (basicSelect c initialCollisionCheck isBlanket isIntersection reqs)) () atts 0).2

/-- soft-requirement activation `random.random() <cmp> req.prob`; `cmpLe` = the comparison is `<=` -/
def activates (cmpLe : Bool) (u prob : Rat) : Bool :=
  if cmpLe then decide (u ≤ prob) else decide (u < prob)

/-- set the `active` flags for one scene: built-in requirements stay active, user requirement `id`
    becomes `act id` -/
def setActive (isUser : Nat → Bool) (act : Nat → Bool) (reqs : List Req) : List Req :=
  reqs.map fun r => if isUser r.id then { r with active := act r.id } else r

/-- `generateBatch`: scenes generated one after the other by the *same* checker (statistics persist);
    each scene has its own activation of the soft requirements and its own candidate stream -/
def generateBatch (c : Cfg) (bufferSize : Nat) (isUser : Nat → Bool) (reqs : List Req) :
    State → List ((Nat → Bool) × List Attempt) → List (Option Nat)
  | _, [] => []
  | st, (act, atts) :: rest =>
    let (st', r) := generateInner c bufferSize (setActive isUser act reqs) st atts 0
    r :: generateBatch c bufferSize isUser reqs st' rest

end Scenic.Checker
