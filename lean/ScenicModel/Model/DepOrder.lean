import ScenicModel.Model.Determinism
/-
How `Scenario.dependencies` is put together at compile time (C15), core Lean only.

Read from /repo/src/scenic/core:

* `requirements.getNameBindings`: the functions with closure cells that a requirement reads are
  collected in a dict used as an insertion-ordered set (`closures[f] = None`, `tuple(closures)`);
* `PendingRequirement.__init__`: `self.cells.extend(closure.__closure__)` for the closures in that
  order;
* `PendingRequirement.compile`: `depsByID.setdefault(id(value), value)` over
  `chain(allBindings.values(), cellVals)` filtered by `needsSampling`, then all objects of the scenario
  if the requirement mentions `CanSee`, then the ego; `deps = tuple(depsByID.values())`;
* `DynamicScenario._compileRequirements`: `self._requirementDepsByID.setdefault(id(dep), dep)` over
  the compiled requirements in order; `_toScenario` passes `tuple(self._requirementDepsByID.values())`;
* `Scenario.__init__`: `self.dependencies = self._instances + paramDeps + tuple(requirementDeps) +
  tuple(behaviorDeps)`.

Every container on that path has a *kind* (regenerated from the source by the translator's container
tracker): iterated in insertion order, or in an order derived from addresses (a `set` of objects
hashed by `id()`, modelled by `setOrder`).  The theorems of `Props/C15Deps.lean` show that with
insertion-ordered containers the tuple is canonical (independent of the addresses), and the witness
shows that one address-ordered container is enough to lose that.
-/
namespace Scenic.Det

/-- `for x in l: d.setdefault(id(x), x)` on top of the keys `acc`; `tuple(d.values())` -/
def dedupInto (acc : List Id) : List Id → List Id
  | [] => acc
  | x :: xs => if acc.contains x then dedupInto acc xs else dedupInto (acc ++ [x]) xs

/-- an identity-keyed dict used as an insertion-ordered set -/
def orderedDedup (l : List Id) : List Id := dedupInto [] l

/-- iterating a container of *distinct* identities that was filled in the order `l` -/
def iterUnique (ordered : Bool) (size : Nat) (l : List Id) : List Id :=
  if ordered then orderedDedup l else setOrder size (orderedDedup l)

/-- iterating a sequence container that was filled in the order `l` -/
def iterSeq (ordered : Bool) (size : Nat) (l : List Id) : List Id :=
  if ordered then l else setOrder size (orderedDedup l)

/-- the iteration kind of every container on the way into `Scenario.dependencies`
    (`true` = insertion order) -/
structure Kinds where
  /-- `getNameBindings`: globalBindings; `PendingRequirement.__init__`: globalBindings / closureBindings -/
  bindings : Bool
  /-- `getNameBindings`: closures -/
  closures : Bool
  /-- `PendingRequirement.__init__`: cells -/
  cells : Bool
  /-- `PendingRequirement.compile`: deps -/
  compileDeps : Bool
  /-- `DynamicScenario._compileRequirements`: accumulated requirement dependencies -/
  dynDeps : Bool
  /-- what `_toScenario` passes to `Scenario(...)` -/
  passed : Bool
  /-- `Scenario.__init__`: `_instances`, `paramDeps`, `behaviorDeps`, the concatenation -/
  instances : Bool
  paramDeps : Bool
  behaviorDeps : Bool
  dependencies : Bool
  /-- table size of the address-hashed sets (only used by containers that are not ordered) -/
  size : Nat
deriving Repr, DecidableEq

def Kinds.allOrdered (k : Kinds) : Bool :=
  k.bindings && k.closures && k.cells && k.compileDeps && k.dynDeps && k.passed && k.instances
    && k.paramDeps && k.behaviorDeps && k.dependencies

/-- what one requirement reads -/
structure ReqSrc where
  /-- for every atomic proposition of the requirement (`for atom in atoms`): the functions with closure
      cells met by `getNameBindings(atom.closure)`, in the order they are met (a function may be met
      several times), each with the identities of the values in its cells -/
  atoms : List (List (Id × List Id))
  /-- `allBindings.values()`: global bindings, then closure bindings -/
  bindings : List Id
  /-- the requirement mentions `CanSee` -/
  canSee : Bool
  ego : Option Id
deriving Repr, DecidableEq

/-- what compilation hands to the construction of the dependency tuple -/
structure CompileInput where
  instances : List Id
  /-- values of the global parameters, in order of definition -/
  params : List Id
  objects : List Id
  /-- the pending requirements, in order -/
  reqs : List ReqSrc
  /-- values of the behavior namespaces, flattened in order -/
  behaviorVals : List Id
  /-- the identities for which `needsSampling` holds (filter of the requirement sources) -/
  needs : List Id
  /-- the identities for which `isinstance(_, Samplable)` holds (filter of parameters and behavior globals) -/
  samplable : List Id
deriving Repr, DecidableEq

def needsB (needs : List Id) (i : Id) : Bool := needs.contains i

/-- third value returned by `getNameBindings` for one atomic proposition -/
def atomClosures (k : Kinds) (fs : List (Id × List Id)) : List Id :=
  iterUnique k.closures k.size (fs.map (·.1))

/-- `for closure in closures: self.cells.extend(closure.__closure__)` (as the values in the cells) -/
def atomCells (k : Kinds) (fs : List (Id × List Id)) : List Id :=
  (atomClosures k fs).flatMap fun f => (fs.lookup f).getD []

/-- `PendingRequirement.cells` (as the values in the cells) -/
def reqCells (k : Kinds) (r : ReqSrc) : List Id :=
  iterSeq k.cells k.size (r.atoms.flatMap (atomCells k))

/-- the sources from which `PendingRequirement.compile` adds dependencies; their order in the source
    is regenerated by the translator -/
inductive DepSrc where
  /-- `allBindings.values()`, filtered by `needsSampling` -/
  | bindings
  /-- the values in the closure cells, filtered by `needsSampling` -/
  | cells
  /-- every object of the scenario if the requirement mentions `CanSee` -/
  | objectsIfCanSee
  | ego
deriving Repr, DecidableEq

def depSrc (k : Kinds) (I : CompileInput) (r : ReqSrc) : DepSrc → List Id
  | .bindings => (iterSeq k.bindings k.size r.bindings).filter (needsB I.needs)
  | .cells => (reqCells k r).filter (needsB I.needs)
  | .objectsIfCanSee => if r.canSee then I.objects else []
  | .ego => r.ego.toList

/-- `CompiledRequirement.dependencies` -/
def reqDeps (k : Kinds) (srcs : List DepSrc) (I : CompileInput) (r : ReqSrc) : List Id :=
  iterUnique k.compileDeps k.size (srcs.flatMap (depSrc k I r))

/-- `tuple(DynamicScenario._requirementDepsByID.values())` -/
def requirementDeps (k : Kinds) (srcs : List DepSrc) (I : CompileInput) : List Id :=
  iterUnique k.dynDeps k.size (I.reqs.flatMap (reqDeps k srcs I))

/-- the segments concatenated into `Scenario.dependencies`; their order in the source is regenerated
    by the translator -/
inductive Seg where
  | instances | params | reqDeps | behaviors
deriving Repr, DecidableEq

def segment (k : Kinds) (srcs : List DepSrc) (I : CompileInput) : Seg → List Id
  | .instances => iterSeq k.instances k.size (iterSeq k.passed k.size I.instances)
  | .params => iterSeq k.paramDeps k.size ((iterSeq k.passed k.size I.params).filter (needsB I.samplable))
  | .reqDeps => iterSeq k.passed k.size (requirementDeps k srcs I)
  | .behaviors => iterSeq k.behaviorDeps k.size (I.behaviorVals.filter (needsB I.samplable))

/-- `Scenario.dependencies` -/
def dependencies (k : Kinds) (srcs : List DepSrc) (segs : List Seg) (I : CompileInput) : List Id :=
  iterSeq k.dependencies k.size (segs.flatMap (segment k srcs I))

/-- the same compilation with every object at another address -/
def renFuncs (ρ : Id → Id) (fs : List (Id × List Id)) : List (Id × List Id) :=
  fs.map fun p => (ρ p.1, p.2.map ρ)

def renReq (ρ : Id → Id) (r : ReqSrc) : ReqSrc :=
  { atoms := r.atoms.map (renFuncs ρ),
    bindings := r.bindings.map ρ,
    canSee := r.canSee,
    ego := r.ego.map ρ }

def renInput (ρ : Id → Id) (I : CompileInput) : CompileInput :=
  { instances := I.instances.map ρ,
    params := I.params.map ρ,
    objects := I.objects.map ρ,
    reqs := I.reqs.map (renReq ρ),
    behaviorVals := I.behaviorVals.map ρ,
    needs := I.needs.map ρ,
    samplable := I.samplable.map ρ }

/-! ### the cost-sorted arrangement of `WeightedAcceptanceChecker.sortedRequirements` -/

/-- insert `a` before the first element that costs strictly more (keeps equal keys in order) -/
def insertByCost {α : Type} (cost : α → Nat) (a : α) : List α → List α
  | [] => [a]
  | b :: l => if cost a ≤ cost b then a :: b :: l else b :: insertByCost cost a l

/-- `reqs.sort(key=self.getRequirementCost)`: a stable sort by a key computed from the timing history
    `k` (any key function: the measured run times are whatever the wall clock said) -/
def sortByCost {σ κ : Type} (cost : κ → Req σ → Nat) (k : κ) (l : List (Req σ)) : List (Req σ) :=
  l.foldr (insertByCost (cost k)) []

end Scenic.Det
