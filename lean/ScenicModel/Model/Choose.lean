/-!
# Model of `do choose` / `do shuffle` and of run-time sampling (property C19)

Executable model (core Lean only, no Mathlib) of

* `Invocable._invokeSubBehavior.pickEnabledInvocable`  (src/scenic/core/dynamics/invocables.py):
  enabled set from the preconditions *at the current time step*, deadlock ⇒ rejection,
  the `len(enabled) == 1` shortcut (weight ignored), otherwise `Options(enabled)`;
* `Options.__init__` → `DiscreteRange(0, n, weights)` → `random.choices(cum_weights=…)`
  (src/scenic/core/distributions.py): negative weight ⇒ `ValueError`, zero weights dropped,
  empty domain ⇒ `RejectionException`, otherwise index `i` with probability `wᵢ / Σ w`
  (CPython's `random` idealised; `bisectRight` below models the index computation of `choices`);
* the `choose` branch (one pick, run it) and the `shuffle` scheduler (pick, pop, run to completion, repeat);
* `Distribution.__new__` during a simulation: the distribution is sampled at that moment with a fresh
  sample environment (so two evaluations are independent draws).

Distributions are finitely supported weighted lists over `Rat` (`Dist`).  Constants that the translator
reads from the source on every run live in `Config` (`Gen/Choose.lean` supplies `Gen.chooseConfig`).
-/
namespace Scenic.Choose

/-- finitely supported (sub-)distribution as a weighted list; equal outcomes may be repeated -/
abbrev Dist (α : Type) := List (α × Rat)

namespace Dist
variable {α β : Type}

def pure (a : α) : Dist α := [(a, 1)]

def bind (d : Dist α) (f : α → Dist β) : Dist β :=
  d.flatMap fun ap => (f ap.1).map fun bq => (bq.1, ap.2 * bq.2)

def map (g : α → β) (d : Dist α) : Dist β := List.map (fun ap => (g ap.1, ap.2)) d

/-- total mass -/
def mass (d : Dist α) : Rat := (List.map Prod.snd d).sum

/-- probability of the event `P` -/
def prob (d : Dist α) (P : α → Bool) : Rat := ((d.filter fun ap => P ap.1).map Prod.snd).sum

end Dist

/-- constants extracted from the source by `tools/translate/choose.py` -/
structure Config where
  /-- weight given to every item of the tuple form (`enabled[sub] = 1`, `{item: 1 for item in subs}`) -/
  defaultWeight : Nat
  /-- `if len(enabled) == shortcutLen:` -/
  shortcutLen : Nat
  /-- `choice = list(enabled)[shortcutIdx]` -/
  shortcutIdx : Nat
  /-- `Options.__init__` skips options of weight 0 (`if prob == 0: continue`) -/
  dropZero : Bool
  /-- the shuffle scheduler pops the items it has run from a *copy* of the dict operand (`subs = dict(subs[0])`);
  `false`: it pops them from the caller's own dict (`subs = subs[0]`), so that a dict held in a variable is empty after
  `do shuffle d` -/
  copyOperand : Bool
  deriving DecidableEq, Repr

/-- the values the theorems need (re-decided on the regenerated data on every run) -/
def Config.WF (c : Config) : Prop :=
  c.defaultWeight = 1 ∧ c.shortcutLen = 1 ∧ c.shortcutIdx = 0 ∧ c.dropZero = true

instance (c : Config) : Decidable c.WF := by unfold Config.WF; exact inferInstance

/-- a listed sub-behaviour / sub-scenario: identity and weight -/
structure Item where
  id : Nat
  weight : Rat
  deriving DecidableEq, Repr

/-- step-dependent behaviour of the items: precondition and running time as functions of the current step -/
structure Env where
  /-- `pre id t`: do the preconditions/invariants of item `id` hold at time step `t` -/
  pre : Nat → Nat → Bool
  /-- `dur id t`: number of time steps item `id` runs when started at step `t` -/
  dur : Nat → Nat → Nat

/-- items of the tuple form `do choose A, B, C` -/
def tupleItems (c : Config) (ids : List Nat) : List Item := ids.map fun i => ⟨i, (c.defaultWeight : Rat)⟩

/-! ## weighted pick (`Options` → `DiscreteRange` → `random.choices`) -/

inductive Pick (α : Type) where
  | picked (a : α)
  /-- `RejectSimulationException('deadlock in "do choose/shuffle"')` -/
  | deadlock
  /-- `RejectionException("tried to make discrete distribution over empty domain!")` -/
  | emptyDomain
  /-- `ValueError("discrete distribution weight … is negative")` -/
  | negWeight
  /-- `IndexError` (only reachable with a non-standard `Config`) -/
  | crash
  deriving DecidableEq, Repr

def sumW {α : Type} (xs : List (α × Rat)) : Rat := (xs.map Prod.snd).sum

/-- `Options(dict)` sampled immediately -/
def weightedPick {α : Type} (c : Config) (xs : List (α × Rat)) : Dist (Pick α) :=
  if xs.any (fun x => x.2 < 0) then Dist.pure .negWeight
  else
    let nz := if c.dropZero then xs.filter (fun x => x.2 != 0) else xs
    if nz.isEmpty then Dist.pure .emptyDomain
    else nz.map fun x => (.picked x.1, x.2 / sumW nz)

def enabledAt (env : Env) (t : Nat) (rem : List Item) : List Item := rem.filter fun x => env.pre x.id t

/-- `pickEnabledInvocable(opts)` at time step `t` -/
def pickEnabled (c : Config) (env : Env) (t : Nat) (rem : List Item) : Dist (Pick Item) :=
  let en := enabledAt env t rem
  if en.isEmpty then Dist.pure .deadlock
  else if en.length = c.shortcutLen then
    match en[c.shortcutIdx]? with
    | some x => Dist.pure (.picked x)
    | none => Dist.pure .crash
  else weightedPick c (en.map fun x => (x, x.weight))

/-! ## outcomes -/

inductive Status where
  | done | rejected | error
  deriving DecidableEq, Repr

/-- `kind = 0`: sub-behaviour/scenario `val` started at step `t`; `kind = 1`: value `val` drawn at step `t` -/
structure Event where
  t : Nat
  kind : Nat
  val : Int
  deriving DecidableEq, Repr

structure Outcome where
  log : List Event
  endTime : Nat
  status : Status
  deriving DecidableEq, Repr

def Outcome.prepend (evs : List Event) (o : Outcome) : Outcome := { o with log := evs ++ o.log }

def ranEvent (t : Nat) (x : Item) : Event := ⟨t, 0, (x.id : Int)⟩

def failOutcome {α : Type} (t : Nat) : Pick α → Outcome
  | .deadlock => ⟨[], t, .rejected⟩
  | .emptyDomain => ⟨[], t, .rejected⟩
  | _ => ⟨[], t, .error⟩

/-- what happens after the pick of a `do choose` at step `t` -/
def chooseStep (env : Env) (t : Nat) : Pick Item → Dist Outcome
  | .picked x => Dist.pure ⟨[ranEvent t x], t + env.dur x.id t, .done⟩
  | p => Dist.pure (failOutcome t p)

/-- `do choose …` started at step `t` -/
def doChoose (c : Config) (env : Env) (t : Nat) (items : List Item) : Dist Outcome :=
  Dist.bind (pickEnabled c env t items) (chooseStep env t)

/-- one iteration of the shuffle scheduler after the pick: `subs.pop(choice)`, run it to completion, go on -/
def shuffleStep (env : Env) (t : Nat) (recur : Nat → List Item → Dist Outcome) (rem : List Item) :
    Pick Item → Dist Outcome
  | .picked x => Dist.map (Outcome.prepend [ranEvent t x]) (recur (t + env.dur x.id t) (rem.erase x))
  | p => Dist.pure (failOutcome t p)

/-- the `shuffle` scheduler: `while subs: choice = pick(subs); subs.pop(choice); run choice`.
`fuel` bounds the number of iterations (`doShuffle` supplies `items.length`, which is exact). -/
def shuffleAux (c : Config) (env : Env) : Nat → Nat → List Item → Dist Outcome
  | 0, t, _ => Dist.pure ⟨[], t, .done⟩
  | fuel + 1, t, rem =>
    if rem.isEmpty then Dist.pure ⟨[], t, .done⟩
    else Dist.bind (pickEnabled c env t rem) (shuffleStep env t (shuffleAux c env fuel) rem)

def doShuffle (c : Config) (env : Env) (t : Nat) (items : List Item) : Dist Outcome :=
  shuffleAux c env items.length t items

/-! ## run-time draws (`Distribution.__new__` while a simulation is in progress) -/

inductive Operand where
  | const (z : Int)
  /-- the `k`-th value drawn so far (0-based) -/
  | prev (k : Nat)
  deriving DecidableEq, Repr

def Operand.eval (vals : List Int) : Operand → Int
  | .const z => z
  | .prev k => vals.getD k 0

inductive DrawSpec where
  /-- `DiscreteRange(lo, hi)` -/
  | range (lo hi : Operand)
  /-- `Options({v: w, …})` -/
  | weighted (opts : List (Int × Rat))
  /-- `Uniform(v, …)` = `Options((v, …))` -/
  | uniform (opts : List Int)
  deriving DecidableEq, Repr

def intRange : Int → Nat → List Int
  | _, 0 => []
  | lo, n + 1 => lo :: intRange (lo + 1) n

/-- uniform distribution on a list -/
def uniformOn {α : Type} (xs : List α) : Dist α := xs.map fun x => (x, 1 / (xs.length : Rat))

/-- the value a distribution expression evaluates to *at this moment*, given the values drawn so far -/
def drawDist (c : Config) (vals : List Int) : DrawSpec → Dist (Pick Int)
  | .range lo hi =>
    let l := lo.eval vals
    let h := hi.eval vals
    if h < l then Dist.pure .emptyDomain          -- RejectionException("empty DiscreteRange")
    else uniformOn ((intRange l (h - l + 1).toNat).map Pick.picked)
  | .weighted opts => weightedPick c opts
  | .uniform opts =>
    if opts.isEmpty then Dist.pure .emptyDomain
    else uniformOn (opts.map Pick.picked)

/-! ## programs: the body of a behavior / compose block / monitor -/

inductive Stmt where
  | wait (n : Nat)
  /-- `x = <distribution>`, then one time step -/
  | draw (s : DrawSpec)
  | choose (items : List Item)
  | shuffle (items : List Item)
  /-- `do choose d` where `d` is the dict held in local variable number `k` -/
  | chooseVar (k : Nat)
  /-- `do shuffle d` where `d` is the dict held in local variable number `k` -/
  | shuffleVar (k : Nat)
  deriving DecidableEq, Repr

/-- the dicts held in the local variables of the body (`d = {Sub(1): 2, …}`) -/
abbrev Store := List (List Item)

/-- what `d` holds after a completed `do shuffle d` -/
def afterShuffle (c : Config) (st : Store) (k : Nat) : Store := if c.copyOperand then st else st.set k []

/-- continue with `k` after a sub-computation that produced outcome `o` -/
def andThen (o : Outcome) (k : Nat → Dist Outcome) : Dist Outcome :=
  if o.status = .done then Dist.map (Outcome.prepend o.log) (k o.endTime) else Dist.pure o

/-- what happens after a run-time draw at step `t`: log the value, one time step, go on -/
def drawStep (t : Nat) (recur : Int → Dist Outcome) : Pick Int → Dist Outcome
  | .picked z => Dist.map (Outcome.prepend [⟨t, 1, z⟩]) (recur z)
  | p => Dist.pure (failOutcome t p)

def exec (c : Config) (env : Env) : List Stmt → Nat → List Int → Store → Dist Outcome
  | [], t, _, _ => Dist.pure ⟨[], t, .done⟩
  | .wait n :: rest, t, vals, st => exec c env rest (t + n) vals st
  | .draw s :: rest, t, vals, st =>
    Dist.bind (drawDist c vals s) (drawStep t fun z => exec c env rest (t + 1) (vals ++ [z]) st)
  | .choose items :: rest, t, vals, st =>
    Dist.bind (doChoose c env t items) fun o => andThen o fun t' => exec c env rest t' vals st
  | .shuffle items :: rest, t, vals, st =>
    Dist.bind (doShuffle c env t items) fun o => andThen o fun t' => exec c env rest t' vals st
  | .chooseVar k :: rest, t, vals, st =>
    Dist.bind (doChoose c env t (st.getD k [])) fun o => andThen o fun t' => exec c env rest t' vals st
  | .shuffleVar k :: rest, t, vals, st =>
    Dist.bind (doShuffle c env t (st.getD k [])) fun o =>
      andThen o fun t' => exec c env rest t' vals (afterShuffle c st k)

/-- the statement with the variable replaced by the dict it holds -/
def Stmt.resolve (st : Store) : Stmt → Stmt
  | .chooseVar k => .choose (st.getD k [])
  | .shuffleVar k => .shuffle (st.getD k [])
  | s => s

/-! ## the index computation of `random.choices(population, cum_weights=cum)`

`population[bisect(cum_weights, random() * total, 0, hi)]` with `total = cum[-1]`, `hi = len - 1`. -/

def cumulative : Rat → List Rat → List Rat
  | _, [] => []
  | acc, w :: ws => (acc + w) :: cumulative (acc + w) ws

/-- `bisect.bisect_right` on an ascending list: number of leading entries `≤ x` -/
def bisectRight : List Rat → Rat → Nat
  | [], _ => 0
  | c :: cs, x => if c ≤ x then bisectRight cs x + 1 else 0

/-- index selected by `choices` for the raw uniform value `u ∈ [0, 1)` -/
def choicesIndex (ws : List Rat) (u : Rat) : Nat :=
  let cum := cumulative 0 ws
  min (bisectRight cum (u * ws.sum)) (ws.length - 1)

end Scenic.Choose
