import ScenicModel.Model.RoadLookup
/-!
# Which centreline supplies the traffic direction at a point (roads.py)

`Network.roadDirection` / `Network.nominalDirectionsAt` first find an element among
`_nominalDirElems` (intersections, roads, shoulders) and then delegate:

* `Road._defaultHeadingAt`: `group = self.laneGroupAt(point)`; if found `group.orientation[point]`,
  i.e. `LaneGroup._defaultHeadingAt`: `lane = self.laneAt(point)`; if found the lane's own
  orientation (`LinearElement._defaultHeadingAt`: nearest segment of *its* centreline), else the
  group's centreline; no group: the road's centreline;
* a shoulder: its own centreline;
* `Intersection.nominalDirectionsAt`: `maneuversAt(point)` = the maneuvers whose connecting lane
  contains the point, else (tolerance > 0) those within tolerance (`_findPointInAll`), else the one
  whose connecting lane is closest; `Intersection._defaultHeadingAt` (used by `roadDirection`):
  always the closest connecting lane.

The geometry stays abstract: the answer is the *element* whose centreline is used (`Src.elem`) or the
symbolic "closest connecting lane of intersection `I`" (`Src.closestOf`).
-/
namespace Scenic.Roads

inductive Src
  | elem (e : Nat)
  | closestOf (I : Nat)
  deriving DecidableEq, Repr

/-- the element whose centreline supplies `e.orientation[point]` for a road or shoulder `e` -/
def headingSource (passes : List Pass) (n : Network) (tolPos : Bool) (pf : PointFacts) (e : Nat) : Nat :=
  if n.kindOf e = some .road then
    match findPointInWith passes tolPos pf (n.field .groups e) with
    | some g =>
      match findPointInWith passes tolPos pf (n.field .lanes g) with
      | some l => l
      | none => g
    | none => e
  else e

/-- connecting lanes of the maneuvers of intersection `I`, in maneuver order -/
def connLanes (n : Network) (I : Nat) : List Nat := (n.field .maneuvers I).flatMap (n.field .conn)

/-- `Network._findPointInAll(point, I.maneuvers, key = connectingLane)`: all that contain the point,
else (tolerance > 0) all within tolerance -/
def maneuverLanesAt (n : Network) (tolPos : Bool) (pf : PointFacts) (I : Nat) : List Nat :=
  let ex := (connLanes n I).filter (fun l => pf.exact.contains l)
  if !ex.isEmpty then ex
  else if tolPos then (connLanes n I).filter (fun l => pf.near.contains l)
  else []

/-- `Intersection.maneuversAt`: the maneuvers found, or the closest one if there is none -/
def sourcesOf (I : Nat) : List Nat → List Src
  | [] => [.closestOf I]
  | l :: ls => (l :: ls).map .elem

/-- `Network.nominalDirectionsAt(point)`: one source per reported direction; `d` is the lookup
definition of `_nominalDirElems` -/
def nominalSources (passes : List Pass) (n : Network) (tolPos : Bool) (pf : PointFacts) (d : LookupDef) :
    List Src :=
  match lookupWith passes n tolPos pf d with
  | none => []
  | some e =>
    if n.kindOf e = some .intersection then
      sourcesOf e (maneuverLanesAt n tolPos pf e)
    else [.elem (headingSource passes n tolPos pf e)]

/-- `Network.roadDirection[point]` (`_defaultRoadDirection`): `none` = heading 0 outside the network -/
def roadDirSource (passes : List Pass) (n : Network) (tolPos : Bool) (pf : PointFacts) (d : LookupDef) :
    Option Src :=
  match lookupWith passes n tolPos pf d with
  | none => none
  | some e =>
    if n.kindOf e = some .intersection then some (.closestOf e)
    else some (.elem (headingSource passes n tolPos pf e))

/-- a method `Owner.xAt` of a network element: search `first` of the owner; if `child` is given,
search that list of the element found (`Road.laneSectionAt` = `Road.laneAt` then `lane.sectionAt`) -/
structure ElemLookup where
  owner : Kind
  first : Field
  child : Option Field := none
  deriving DecidableEq, Repr

def elemLookupWith (passes : List Pass) (n : Network) (tolPos : Bool) (pf : PointFacts)
    (d : ElemLookup) (o : Nat) : Option Nat :=
  match findPointInWith passes tolPos pf (n.field d.first o), d.child with
  | some e, some c => findPointInWith passes tolPos pf (n.field c e)
  | r, none => r
  | none, some _ => none

end Scenic.Roads
