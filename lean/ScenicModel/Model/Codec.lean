/-
Model of `scenic.core.serialization` (binary codecs) — core Lean only, executable.

Bytes are natural numbers `< 256` (`BytesOK`); a stream is a `List Nat`; a reader returns
`none` exactly where the Python code raises (short read, bad length), otherwise the value and
the unread rest of the stream.

The integer codec is parametric in an `IntTable` holding the constants that
`tools/translate/intcodec.py` extracts from the ASTs of `writeInt` / `readInt`
(`Gen/IntCodec.lean`); theorems assume `IntTable.WF`, which is decided on the generated table.
-/
namespace Scenic.Codec

abbrev Byte := Nat
abbrev Bytes := List Nat

def BytesOK (s : Bytes) : Prop := ∀ b ∈ s, b < 256

/-- little-endian, exactly `len` bytes -/
def toLE : Nat → Nat → Bytes
  | _, 0 => []
  | n, k + 1 => n % 256 :: toLE (n / 256) k

def fromLE : Bytes → Nat
  | [] => 0
  | b :: bs => b + 256 * fromLE bs

/-- two's complement of `z` on `len` bytes (Python `int.to_bytes(..., signed=True)`);
    only used when `z` fits. -/
def toSigned (z : Int) (len : Nat) : Bytes :=
  toLE (z % (256 ^ len : Nat)).toNat len

/-- Python `int.from_bytes(bs, "little", signed=True)` -/
def fromSigned (bs : Bytes) : Int :=
  let n := fromLE bs
  let m := 256 ^ bs.length
  if 2 * n < m then (n : Int) else (n : Int) - (m : Int)

/-- `stream.read(n)` followed by a length check: `none` on a short read. -/
def readExact (n : Nat) (s : Bytes) : Option (Bytes × Bytes) :=
  if n ≤ s.length then some (s.take n, s.drop n) else none

/-- Python `int.bit_length()` of `|z|` -/
def bitLength (z : Int) : Nat :=
  let n := z.natAbs
  if n = 0 then 0 else Nat.log2 n + 1

/-- The constants of `writeInt` (w*) and `readInt` (r*). -/
structure IntTable where
  wSmallLo : Int      -- 0      : `0 <= value`
  wSmallHi : Int      -- 252    : `value <= 252`
  wTag2 : Nat         -- 253
  wLo2 : Int          -- -32768
  wHi2 : Int          -- 32767
  wLen2 : Nat         -- 2
  wTag4 : Nat         -- 254
  wLo4 : Int
  wHi4 : Int
  wLen4 : Nat         -- 4
  wTagBig : Nat       -- 255
  wLenCap : Nat       -- 256  : `length >= 256` raises
  wSignBits : Nat     -- 1    : `bit_length() + 1`
  wBitsPerByte : Nat  -- 8
  wMinLen : Nat       -- 1    : `max(1, ...)`
  rSmallHi : Nat      -- 252  : `first <= 252`
  rTag2 : Nat         -- 253
  rLen2 : Nat         -- 2
  rTag4 : Nat         -- 254
  rLen4 : Nat         -- 4
  deriving Repr, DecidableEq

/-- `max(1, math.ceil((value.bit_length() + 1) / 8))` -/
def bigLen (t : IntTable) (z : Int) : Nat :=
  max t.wMinLen ((bitLength z + t.wSignBits + (t.wBitsPerByte - 1)) / t.wBitsPerByte)

/-- `writeInt`; `none` = SerializationError (integer too long). -/
def writeInt (t : IntTable) (z : Int) : Option Bytes :=
  if t.wSmallLo ≤ z ∧ z ≤ t.wSmallHi then some [z.toNat]
  else if t.wLo2 ≤ z ∧ z ≤ t.wHi2 then some (t.wTag2 :: toSigned z t.wLen2)
  else if t.wLo4 ≤ z ∧ z ≤ t.wHi4 then some (t.wTag4 :: toSigned z t.wLen4)
  else
    let len := bigLen t z
    if len ≥ t.wLenCap then none
    else some (t.wTagBig :: len :: toSigned z len)

/-- `readInt` (with the length checks of the repaired code); `none` = error. -/
def readInt (t : IntTable) (s : Bytes) : Option (Int × Bytes) :=
  match s with
  | [] => none
  | first :: rest =>
    if first ≤ t.rSmallHi then some ((first : Int), rest)
    else if first = t.rTag2 then
      (readExact t.rLen2 rest).map fun (bs, r) => (fromSigned bs, r)
    else if first = t.rTag4 then
      (readExact t.rLen4 rest).map fun (bs, r) => (fromSigned bs, r)
    else
      match rest with
      | [] => none
      | len :: rest' =>
        (readExact len rest').map fun (bs, r) => (fromSigned bs, r)

/-- Well-formedness of the extracted constants: what makes the codec a bijection. Decidable. -/
def IntTable.WF (t : IntTable) : Prop :=
  t.wSmallLo = 0 ∧ t.wSmallHi = (t.rSmallHi : Int) ∧
  t.rSmallHi < t.rTag2 ∧ t.rSmallHi < t.rTag4 ∧ t.rSmallHi < t.wTagBig ∧
  t.wTag2 = t.rTag2 ∧ t.wTag4 = t.rTag4 ∧ t.rTag2 ≠ t.rTag4 ∧
  t.wTagBig ≠ t.rTag2 ∧ t.wTagBig ≠ t.rTag4 ∧
  t.wTag2 < 256 ∧ t.wTag4 < 256 ∧ t.wTagBig < 256 ∧
  t.wLen2 = t.rLen2 ∧ t.wLen4 = t.rLen4 ∧
  -(((256 ^ t.wLen2 : Nat) : Int)) ≤ 2 * t.wLo2 ∧ 2 * t.wHi2 < ((256 ^ t.wLen2 : Nat) : Int) ∧
  -(((256 ^ t.wLen4 : Nat) : Int)) ≤ 2 * t.wLo4 ∧ 2 * t.wHi4 < ((256 ^ t.wLen4 : Nat) : Int) ∧
  t.wLenCap ≤ 256 ∧ 1 ≤ t.wSignBits ∧ t.wBitsPerByte = 8 ∧ 1 ≤ t.wMinLen

instance (t : IntTable) : Decidable t.WF := by unfold IntTable.WF; infer_instance

/-- The table at the pinned commit (used only for non-vacuity examples and tests;
    the checks use the generated one). -/
def refTable : IntTable :=
  { wSmallLo := 0, wSmallHi := 252, wTag2 := 253, wLo2 := -32768, wHi2 := 32767, wLen2 := 2,
    wTag4 := 254, wLo4 := -2147483648, wHi4 := 2147483647, wLen4 := 4, wTagBig := 255,
    wLenCap := 256, wSignBits := 1, wBitsPerByte := 8, wMinLen := 1,
    rSmallHi := 252, rTag2 := 253, rLen2 := 2, rTag4 := 254, rLen4 := 4 }

/-! ### other scalar codecs (`writeBool`, `writeBytes`, `writeStr`, `writeFloat`, vectors) -/

def writeBool (t : IntTable) (b : Bool) : Option Bytes := writeInt t (if b then 1 else 0)
def readBool (t : IntTable) (s : Bytes) : Option (Bool × Bytes) :=
  (readInt t s).map fun (z, r) => (z != 0, r)

/-- `writeBytes`: length prefix then the payload. -/
def writeBytes (t : IntTable) (v : Bytes) : Option Bytes :=
  (writeInt t v.length).map (· ++ v)

/-- `readBytes` (repaired: negative or short lengths are errors). -/
def readBytes (t : IntTable) (s : Bytes) : Option (Bytes × Bytes) :=
  match readInt t s with
  | none => none
  | some (z, r) => if z < 0 then none else readExact z.toNat r

/-- fixed-width raw payloads: floats are 8 opaque bytes (`struct.pack("<d")` is trusted),
    vectors 24, orientations 32. -/
def writeRaw (v : Bytes) : Bytes := v
def readRaw (n : Nat) (s : Bytes) : Option (Bytes × Bytes) := readExact n s

end Scenic.Codec
