import Std.Data.HashMap
/-! # C10 — a pegen-style PEG interpreter and a well-formedness checker (termination of the parser)

The grammar is the *flattened* grammar exactly as pegen's Python generator emits it: every nested group,
repetition and gather has become an artificial rule (`_tmp_N`, `_loop0_N`, `_loop1_N`, `_gather_N`), so an
alternative is a list of items, each an atom (terminal or rule call) wrapped in one of pegen's call forms.

Modelled faithfully (see `pegen/parser.py`, `pegen/python_generator.py`):
* ordered choice with reset, `~` cut, `&`/`!` lookahead, `&&` forced items (raise on failure), optional items
  (`(x := call,)` — always truthy), loop rules (`while alt: children.append(action)`),
* alternatives that mention an `invalid_` rule are guarded by `call_invalid_rules`; `*without_invalid` rules
  switch the flag off inside; the two passes of `Parser.parse`,
* the memo cache keyed by (rule, position) for `@memoize` rules; `@memoize_left_rec` leaders (seed the cache with a
  failure, re-run the body while the end mark grows); non-leader left-recursive rules are not cached,
* reading a token beyond the end of the token list raises (StopIteration / the tokenizer's own error).

Abstracted: which terminal matches which token (`matchAt`), and what an action evaluates to (truthy / `None` /
raises) — an arbitrary *stateful* oracle.  The termination theorem holds for every choice of both.
`Res.hang` is returned only when fuel (recursion depth) or a loop counter runs out.  No Mathlib. -/
namespace Scenic.PegTotal

inductive Atom where
  | tok (t : Nat)
  | rule (r : Nat)
  deriving Repr, DecidableEq, Inhabited

inductive Item where
  | plain (a : Atom)
  | opt (a : Atom)
  | pos (a : Atom)
  | neg (a : Atom)
  | forced (a : Atom)
  | cut
  deriving Repr, DecidableEq, Inhabited

structure Alt where
  items : List Item
  /-- the alternative mentions an `invalid_` rule: tried only when `call_invalid_rules` is set -/
  guard : Bool
  /-- identity of the action (argument of the oracle) -/
  act : Nat
  deriving Repr, Inhabited

inductive Kind where
  | memo | leader | nomemo
  deriving Repr, DecidableEq, Inhabited

structure Rule where
  alts : List Alt
  kind : Kind
  /-- artificial `_loop` rule -/
  loop : Bool
  /-- the rule's name ends with `without_invalid` -/
  noinv : Bool
  deriving Repr, Inhabited

/-- Tables are packed into natural numbers so that the kernel can re-check `WF` on the ~700 rules of the real grammar
with GMP arithmetic (bit `r` of `nullable` / `leaders`; digit `r` in base `rankBase` of `rank`). -/
structure Grammar where
  rules : Array Rule
  /-- claimed nullable set (checked to be a post-fixpoint) -/
  nullable : Nat
  /-- set of `@memoize_left_rec` rules (checked against the rule kinds) -/
  leaders : Nat
  /-- claimed rank of each rule in the left-call order (checked) -/
  rank : Nat
  rankBase : Nat
  deriving Repr

inductive ActOut where
  | ok | none | raise
  deriving Repr, DecidableEq

inductive Res where
  | fail (e : Nat)     -- falsy result; the tokenizer is left at `e`
  | ok (e : Nat)
  | raise
  | hang
  deriving Repr, DecidableEq, Inhabited

/-- everything the grammar does not determine -/
structure Env (σ : Type) where
  /-- number of tokens (ENDMARKER included) -/
  n : Nat
  /-- does terminal `t` match the token at position `p` -/
  matchAt : Nat → Nat → Bool
  /-- outcome of the action of alternative `a` matched from `p` to `e` -/
  act : σ → Nat → Nat → Nat → ActOut × σ

abbrev Cache := Std.HashMap (Nat × Nat) (Bool × Nat)

structure St (σ : Type) where
  cache : Cache
  orc : σ

abbrev Rec (σ : Type) := Nat → Nat → Bool → St σ → Res × St σ

variable {σ : Type}

def evalAtom (E : Env σ) (rec : Rec σ) (a : Atom) (p : Nat) (inv : Bool) (s : St σ) : Res × St σ :=
  match a with
  | .tok t => if p < E.n then (if E.matchAt t p then (.ok (p + 1), s) else (.fail p, s)) else (.raise, s)
  | .rule r => rec r p inv s

/-- result of an item sequence: `ok e` | `fail cutSeen` | raise | hang -/
inductive IRes where
  | ok (e : Nat)
  | fail (cut : Bool)
  | raise
  | hang
  deriving Repr, DecidableEq

def Item.atom? : Item → Option Atom
  | .plain a => some a
  | .opt a => some a
  | .pos a => some a
  | .neg a => some a
  | .forced a => some a
  | .cut => none

inductive Next where
  | go (e : Nat)
  | stop (r : IRes)
  deriving Repr, DecidableEq

/-- what the generated `if (item1) and (item2) …` does after the call of an item returned `res` -/
def itemNext (it : Item) (p : Nat) (c : Bool) (res : Res) : Next :=
  match res with
  | .raise => .stop .raise
  | .hang => .stop .hang
  | .ok e =>
    match it with
    | .plain _ => .go e
    | .opt _ => .go e
    | .forced _ => .go e
    | .pos _ => .go p
    | .neg _ => .stop (.fail c)
    | .cut => .go p
  | .fail e =>
    match it with
    | .plain _ => .stop (.fail c)
    | .opt _ => .go e            -- `(x := call,)` is truthy; the position is where the callee left it
    | .pos _ => .stop (.fail c)
    | .neg _ => .go p
    | .forced _ => .stop .raise  -- expect_forced raises a syntax error
    | .cut => .go p

def evalItems (E : Env σ) (rec : Rec σ) (inv : Bool) : List Item → Nat → Bool → St σ → IRes × St σ
  | [], p, _, s => (.ok p, s)
  | it :: rest, p, c, s =>
    match it.atom? with
    | none => evalItems E rec inv rest p true s          -- `~`
    | some a =>
      let out := evalAtom E rec a p inv s
      match itemNext it p c out.1 with
      | .go e => evalItems E rec inv rest e c out.2
      | .stop r => (r, out.2)

def actRes (E : Env σ) (s : St σ) (alt : Alt) (p e : Nat) : Res × St σ :=
  let o := E.act s.orc alt.act p e
  match o.1 with
  | .ok => (.ok e, { s with orc := o.2 })
  | .none => (.fail e, { s with orc := o.2 })   -- `return <falsy>`: later alternatives are not tried
  | .raise => (.raise, { s with orc := o.2 })

def evalAlts (E : Env σ) (rec : Rec σ) (inv : Bool) (p : Nat) : List Alt → St σ → Res × St σ
  | [], s => (.fail p, s)
  | alt :: rest, s =>
    if alt.guard && !inv then evalAlts E rec inv p rest s
    else
      let out := evalItems E rec inv alt.items p false s
      match out.1 with
      | .ok e => actRes E out.2 alt p e
      | .fail cut =>
        if cut then (.fail p, out.2)
        else evalAlts E rec inv p rest out.2
      | .raise => (.raise, out.2)
      | .hang => (.hang, out.2)

/-- `while (items): children.append(action); mark = self._mark()` with an explicit iteration counter -/
def evalLoop (E : Env σ) (rec : Rec σ) (inv : Bool) (alt : Alt) : Nat → Nat → Bool → St σ → Res × St σ
  | 0, _, _, s => (.hang, s)
  | k + 1, p, any, s =>
    if alt.guard && !inv then (if any then .ok p else .fail p, s)
    else
      let out := evalItems E rec inv alt.items p false s
      match out.1 with
      | .ok e =>
        let a := actRes E out.2 alt p e
        match a.1 with
        | .raise => (.raise, a.2)
        | _ => evalLoop E rec inv alt k e true a.2
      | .fail _ => (if any then .ok p else .fail p, out.2)
      | .raise => (.raise, out.2)
      | .hang => (.hang, out.2)

def body (E : Env σ) (rec : Rec σ) (rule : Rule) (p : Nat) (inv : Bool) (s : St σ) : Res × St σ :=
  if rule.loop then
    match rule.alts with
    | [alt] => evalLoop E rec (inv && !rule.noinv) alt (E.n - p + 1) p false s
    | _ => (.raise, s)
  else evalAlts E rec (inv && !rule.noinv) p rule.alts s

def cacheRes (v : Bool × Nat) : Res := if v.1 then .ok v.2 else .fail v.2

def St.put (s : St σ) (k : Nat × Nat) (v : Bool × Nat) : St σ := { s with cache := s.cache.insert k v }

/-- what `memoize_left_rec` returns (and caches) when the seed stops growing -/
def growFin (r p : Nat) (last : Option Nat) (s : St σ) : Res × St σ :=
  match last with
  | some e => (.ok e, s.put (r, p) (true, e))
  | none => (.fail p, s.put (r, p) (false, p))

/-- the seed-growing loop of `memoize_left_rec` -/
def grow (E : Env σ) (rec : Rec σ) (r : Nat) (rule : Rule) (p : Nat) (inv : Bool) :
    Nat → Option Nat → St σ → Res × St σ
  | 0, _, s => (.hang, s)
  | k + 1, last, s =>
    let out := body E rec rule p inv s
    match out.1 with
    | .ok e =>
      if e ≤ last.getD p then growFin r p last out.2
      else grow E rec r rule p inv k (some e) (out.2.put (r, p) (true, e))
    | .fail _ => growFin r p last out.2
    | .raise => (.raise, out.2)
    | .hang => (.hang, out.2)

def memoCall (E : Env σ) (rec : Rec σ) (r : Nat) (rule : Rule) (p : Nat) (inv : Bool) (s : St σ) : Res × St σ :=
  match s.cache[(r, p)]? with
  | some v => (cacheRes v, s)
  | none =>
    let out := body E rec rule p inv s
    match out.1 with
    | .ok e => (.ok e, out.2.put (r, p) (true, e))
    | .fail e => (.fail e, out.2.put (r, p) (false, e))
    | .raise => (.raise, out.2)
    | .hang => (.hang, out.2)

def leaderCall (E : Env σ) (rec : Rec σ) (r : Nat) (rule : Rule) (p : Nat) (inv : Bool) (s : St σ) : Res × St σ :=
  match s.cache[(r, p)]? with
  | some v => (if v.1 then .ok v.2 else .fail p, s)
  | none => grow E rec r rule p inv (E.n - p + 2) none (s.put (r, p) (false, p))

def callRule (E : Env σ) (g : Grammar) (rec : Rec σ) : Rec σ := fun r p inv s =>
  match g.rules[r]? with
  | none => (.raise, s)
  | some rule =>
    match rule.kind with
    | .nomemo => body E rec rule p inv s
    | .memo => memoCall E rec r rule p inv s
    | .leader => leaderCall E rec r rule p inv s

/-- recursion depth `fuel` -/
def interp (E : Env σ) (g : Grammar) : Nat → Rec σ
  | 0 => fun _ _ _ s => (.hang, s)
  | f + 1 => callRule E g (interp E g f)

/-- `Parser.parse`: first pass without the invalid_ rules; if it fails, the cache is cleared and a second pass
with them runs, after which a syntax error is raised in any case -/
def parse (E : Env σ) (g : Grammar) (fuel : Nat) (start : Nat) (o : σ) : Res :=
  match interp E g fuel start 0 false ⟨{}, o⟩ with
  | (.ok e, _) => .ok e
  | (.fail _, s) =>
    match interp E g fuel start 0 true ⟨{}, s.orc⟩ with
    | (.hang, _) => .hang
    | _ => .raise
  | (.raise, _) => .raise
  | (.hang, _) => .hang

/-! ## the well-formedness checker -/

def Grammar.isNullable (g : Grammar) (r : Nat) : Bool := g.nullable.testBit r
def Grammar.rankOf (g : Grammar) (r : Nat) : Nat := (g.rank / g.rankBase ^ r) % g.rankBase
def Grammar.isLeader (g : Grammar) (r : Nat) : Bool := g.leaders.testBit r

def atomNullable (g : Grammar) : Atom → Bool
  | .tok _ => false
  | .rule r => g.isNullable r

def itemNullable (g : Grammar) : Item → Bool
  | .plain a => atomNullable g a
  | .forced a => atomNullable g a
  | .opt _ => true
  | .pos _ => true
  | .neg _ => true
  | .cut => true

def itemsNullable (g : Grammar) (items : List Item) : Bool := items.all (itemNullable g)
def altsNullable (g : Grammar) (alts : List Alt) : Bool := alts.any (fun a => itemsNullable g a.items)

/-- may rule `r'` be called at the start position of the rule under consideration -/
def atomEdgeOK (edge : Nat → Bool) : Option Atom → Bool
  | some (.rule r') => edge r'
  | _ => true

/-- every rule reachable before a token has certainly been consumed satisfies `edge` -/
def leftOKItems (g : Grammar) (edge : Nat → Bool) : List Item → Bool
  | [] => true
  | it :: rest => atomEdgeOK edge it.atom? && (if itemNullable g it then leftOKItems g edge rest else true)

def atomRefOK (g : Grammar) : Option Atom → Bool
  | some (.rule r) => r < g.rules.size
  | _ => true

def refsOK (g : Grammar) (rule : Rule) : Bool :=
  rule.alts.all (fun a => a.items.all (fun it => atomRefOK g it.atom?))

/-- a left call may enter a memoised leader, otherwise it must descend in rank -/
def edgeFor (g : Grammar) (r : Nat) (r' : Nat) : Bool := g.isLeader r' || g.rankOf r' < g.rankOf r

def ruleOK (g : Grammar) (r : Nat) (rule : Rule) : Bool :=
  refsOK g rule
  && (g.isLeader r == (rule.kind == .leader))                                          -- the leader set is the real one
  && (!(altsNullable g rule.alts) || g.isNullable r)                                   -- nullable set is a post-fixpoint
  && (rule.kind == .leader
      || (1 ≤ g.rankOf r && rule.alts.all (fun a => leftOKItems g (edgeFor g r) a.items)))   -- left calls descend
  && (!rule.loop || (match rule.alts with
        | [a] => !(itemsNullable g a.items)                                            -- a loop body consumes a token
        | _ => false))

def rulesOKFrom (g : Grammar) : Nat → List Rule → Bool
  | _, [] => true
  | k, rule :: rest => ruleOK g k rule && rulesOKFrom g (k + 1) rest

def WF (g : Grammar) : Bool := decide (0 < g.rankBase) && rulesOKFrom g 0 g.rules.toList

def Grammar.numLeaders (g : Grammar) : Nat := (List.range g.rules.size).countP g.isLeader

/-- fuel that suffices for every input of `n` tokens: linear in `n` -/
def fuelBound (g : Grammar) (n : Nat) : Nat := (n + 1) * ((g.numLeaders + 1) * (g.rankBase + 1)) + 1

end Scenic.PegTotal
