import ScenicModel.Model.LTL
/-
# C11 — one running scenario with its list of requirement monitors

Core Lean only (used by the driver).  Mirrors `DynamicScenario` in `dynamics/scenarios.py`:

* `_start`:   `self._requirementMonitors = [r.toMonitor() for r in self._temporalRequirements]`
              (`lastValue = initLast`, no update yet);
* `_step`:    first `for m in self._requirementMonitors: result = m.value(); if result ∈ stepReject: raise Reject…`,
              then the compose block runs and may execute temporal `require` statements;
* `_addDynamicRequirement` (a `require` executed by the compose block): `monitor = dreq.toMonitor();
              self._requirementMonitors.append(monitor); if monitor.value() ∈ dynReject: raise Reject…`
              — the new monitor is updated in the step the statement executes and, being in the list, in every
              later step;
* `_stop`:    `for req in self._requirementMonitors: if req.lastValue ∈ stopReject: rejection` (after the last step).

Steps are counted from the start of the scenario (step 0 = the step in which `_start` is called); `σ` is the
trace of the atoms from that step on.  A monitor created in step `start` sees the trace `shift σ start`.
-/
namespace Scenic.LTL

/-- one entry of `_requirementMonitors` -/
structure Mon where
  f : F
  /-- the step of the monitor's first update -/
  start : Nat
  /-- `lastValue` -/
  last : Nat
deriving Repr, DecidableEq

/-- the verdict a monitor of `f` created in step `start` returns when it is updated in step `t ≥ start`
    (it has then seen the steps `start … t`) -/
def verdictAt (c : MonCfg) (σ : Trace) (f : F) (start t : Nat) : Nat :=
  evalAt c (shift σ start) (t - start + 1) f 0

/-- `m.value()` in step `t`: the monitor is updated and remembers the verdict -/
def Mon.refresh (c : MonCfg) (σ : Trace) (t : Nat) (m : Mon) : Mon :=
  { m with last := verdictAt c σ m.f m.start t }

/-- the loop at the top of `_step` (`none` = `RejectSimulationException`) -/
def stepMons (c : MonCfg) (R : Rule) (σ : Trace) (t : Nat) : List Mon → Option (List Mon)
  | [] => some []
  | m :: ms =>
    if R.stepReject.contains (verdictAt c σ m.f m.start t) then none
    else (stepMons c R σ t ms).map fun ms' => m.refresh c σ t :: ms'

/-- `_addDynamicRequirement`, once per temporal `require` the compose block executes in step `t` -/
def addMons (c : MonCfg) (dr : List Nat) (σ : Trace) (t : Nat) : List F → List Mon → Option (List Mon)
  | [], ms => some ms
  | f :: fs, ms =>
    if dr.contains (verdictAt c σ f t t) then none
    else addMons c dr σ t fs (ms ++ [{ f := f, start := t, last := verdictAt c σ f t t }])

/-- the loop of `_stop` -/
def stopRejects (R : Rule) (ms : List Mon) : Bool := ms.any fun m => R.stopReject.contains m.last

/-- steps `t, t + 1, …, t + fuel - 1` of the scenario, then `_stop` (at the end of step `t + fuel - 1`);
    `script s` = the temporal requirements the compose block executes in step `s`, in order -/
def loop (c : MonCfg) (R : Rule) (dr : List Nat) (script : Nat → List F) (σ : Trace) :
    Nat → Nat → List Mon → Outcome
  | t, 0, ms => if stopRejects R ms then .rejectedAt (t - 1) else .accepted
  | t, fuel + 1, ms =>
    match stepMons c R σ t ms with
    | none => .rejectedAt t
    | some ms1 =>
      match addMons c dr σ t (script t) ms1 with
      | none => .rejectedAt t
      | some ms2 => loop c R dr script σ (t + 1) fuel ms2

/-- a scenario with the temporal requirements `init` registered before it starts (compile time / setup block)
    that runs for `N` steps while its compose block executes the temporal requirements `script s` in step `s` -/
def simulate (c : MonCfg) (R : Rule) (init : List F) (script : Nat → List F) (σ : Trace) (N : Nat) : Outcome :=
  let ms := init.map fun f => ({ f := f, start := 0, last := R.initLast } : Mon)
  match R.dynReject with
  | some dr => loop c R dr script σ 0 N ms
  | none => loop c R [] (fun _ => []) σ 0 N ms

/-- a finite script: `(step, formula)` pairs in program order -/
def scriptOf (adds : List (Nat × F)) : Nat → List F := fun s => (adds.filter fun e => e.1 == s).map (·.2)

end Scenic.LTL
