/-!
# Model of Scenic's overlap / containment decision procedures (property C04)

Executable, Mathlib-free.  Each procedure of `/repo` is a *decision tree over observations*:

* `intersects`        — `MeshVolumeRegion.intersects(MeshVolumeRegion)`   (regions.py, five passes)
* `containsObject`    — `MeshVolumeRegion.containsObject(obj)`             (regions.py, five passes)
* `footprintContains` — `PolygonalFootprintRegion.containsObject(obj)`     (regions.py)
* `objectIntersects`  — `Object.intersects(other)` with the planar-box fast paths (object_types.py)
* `minimumDistance`   — `Object.minimumDistanceTo(other)` with the planar fast path
* `isPlanarBox`       — `Object._isPlanarBox`
* `volumeMinimumDistance` — `MeshVolumeRegion.minimumDistanceTo` (BVH surface distance + nested-volume correction)
* `isConvexFlag`      — `MeshVolumeRegion.isConvex` (override, trimesh's edge test, hull-volume guard)
* `circumradiusSq`    — the three branches of `MeshVolumeRegion._circumradius` (squared, exact)

An *observation* is what the real code reads from its numerical back-ends (FCL, trimesh, shapely,
numpy): distances, radii, flags.  The comparators, the operands of every comparison, the boolean
connectives and the returned constants are **not** fixed here: they are fields of the `…Cfg`
structures, regenerated from the ASTs of `/repo` into `Gen/Solid.lean` on every run.  The theorems in
`Props/C04*.lean` are parametric in that data and need only the semantic side conditions `…Cfg.Sound`.
-/
namespace Scenic.Solid

/-- comparison operators that may appear in a pass -/
inductive Cmp where
  | lt | le | gt | ge | eq | ne
  deriving DecidableEq, Repr, Inhabited

def Cmp.eval : Cmp → Rat → Rat → Bool
  | .lt, a, b => decide (a < b)
  | .le, a, b => decide (a ≤ b)
  | .gt, a, b => decide (b < a)
  | .ge, a, b => decide (b ≤ a)
  | .eq, a, b => decide (a = b)
  | .ne, a, b => !decide (a = b)

/-- boolean connectives (`and` / `or`) -/
inductive Conn where
  | and | or
  deriving DecidableEq, Repr, Inhabited

def Conn.eval : Conn → Bool → Bool → Bool
  | .and, a, b => a && b
  | .or, a, b => a || b

/-! ## `MeshVolumeRegion.intersects(MeshVolumeRegion)` -/

/-- what the five passes read.  `S` = self, `O` = other. -/
structure IntersectObs where
  centerDist : Rat      -- numpy.linalg.norm(self.position - other.position)
  circS : Rat           -- self._circumradius
  circO : Rat           -- other._circumradius
  scaledS : Bool        -- bool(self._scaledShape)
  scaledO : Bool
  pointDist : Rat       -- norm(self._interiorPoint - other._interiorPoint)
  inS : Rat             -- self._interiorPointRadii[0]
  inO : Rat
  pcircS : Rat          -- self._interiorPointRadii[1]
  pcircO : Rat
  bbOverlap : Bool      -- axis-aligned bounding boxes overlap in all dimensions
  collide : Bool        -- fcl.collide(selfObj, otherObj)
  convexS : Bool        -- self.isConvex
  convexO : Bool
  bodiesS : Nat         -- self._bodyCount
  bodiesO : Nat
  sHasO : Bool          -- self._containsPointExact(other._interiorPoint)
  oHasS : Bool          -- other._containsPointExact(self._interiorPoint)
  boolEmpty : Bool      -- isinstance(self.intersect(other), EmptyRegion)
  deriving Repr, Inhabited

/-- the exit through which an answer was produced -/
inductive IExit where
  | p1 | p2aIn | p2aCirc | p2b | p3Hit | p3Convex | p4 | p5
  deriving DecidableEq, Repr, Inhabited

def IExit.name : IExit → String
  | .p1 => "p1" | .p2aIn => "p2aIn" | .p2aCirc => "p2aCirc" | .p2b => "p2b"
  | .p3Hit => "p3Hit" | .p3Convex => "p3Convex" | .p4 => "p4" | .p5 => "p5"

/-- data of the five passes, regenerated from the source -/
structure IntersectCfg where
  /-- PASS 1: `if <p1Lhs> <p1Cmp> <p1Rhs>: return <p1Ret>` -/
  p1Lhs : IntersectObs → Rat
  p1Cmp : Cmp
  p1Rhs : IntersectObs → Rat
  p1Ret : Bool
  /-- PASS 2 guard `self._scaledShape <conn> other._scaledShape` -/
  p2Guard : Conn
  p2aInLhs : IntersectObs → Rat
  p2aInCmp : Cmp
  p2aInRhs : IntersectObs → Rat
  p2aInRet : Bool
  p2aCircLhs : IntersectObs → Rat
  p2aCircCmp : Cmp
  p2aCircRhs : IntersectObs → Rat
  p2aCircRet : Bool
  /-- PASS 2B: `if not bb_overlap: return <p2bRet>` -/
  p2bRet : Bool
  /-- PASS 3: `if surface_collision: return <p3HitRet>`; convex guard `self.isConvex <conn> other.isConvex` -/
  p3HitRet : Bool
  p3Convex : Conn
  /-- PASS 4: `self._bodyCount == <n> <conn> other._bodyCount == <n>`; overlap = `a <conn> b` -/
  p4Bodies : Nat
  p4Guard : Conn
  p4Conn : Conn
  /-- PASS 5: `return not isinstance(..., EmptyRegion)` -/
  p5Negate : Bool

/-- passes 3-5 -/
def intersectsTail (c : IntersectCfg) (o : IntersectObs) : Bool × IExit :=
  if o.collide then (c.p3HitRet, .p3Hit)
  else if c.p3Convex.eval o.convexS o.convexO then (o.collide, .p3Convex)
  else if c.p4Guard.eval (o.bodiesS == c.p4Bodies) (o.bodiesO == c.p4Bodies) then
    (c.p4Conn.eval o.sHasO o.oHasS, .p4)
  else ((if c.p5Negate then !o.boolEmpty else o.boolEmpty), .p5)

def intersects (c : IntersectCfg) (o : IntersectObs) : Bool × IExit :=
  if c.p1Cmp.eval (c.p1Lhs o) (c.p1Rhs o) then (c.p1Ret, .p1)
  else if c.p2Guard.eval o.scaledS o.scaledO then
    if c.p2aInCmp.eval (c.p2aInLhs o) (c.p2aInRhs o) then (c.p2aInRet, .p2aIn)
    else if c.p2aCircCmp.eval (c.p2aCircLhs o) (c.p2aCircRhs o) then (c.p2aCircRet, .p2aCirc)
    else intersectsTail c o
  else if !o.bbOverlap then (c.p2bRet, .p2b)
  else intersectsTail c o

/-! ## `MeshVolumeRegion.containsObject(obj)` -/

structure ContainObs where
  bbOverlap : Bool      -- bounding boxes of region and object overlap
  convex : Bool         -- self.isConvex
  minCornerSd : Rat     -- min of pq.signed_distance(obj.boundingBox.mesh.vertices)
  minVertexSd : Rat     -- min of pq.signed_distance(obj.occupiedSpace.mesh.vertices)
  candAvail : Bool      -- a candidate point of the object was found
  regionHasCand : Bool  -- self.containsPoint(obj_candidate_point)
  objCirc : Rat         -- max |v - cand| over object vertices
  sdCand : Rat          -- pq.signed_distance([cand])[0]  (positive inside)
  regCandAvail : Bool   -- a candidate point of the region was found
  regCirc : Rat         -- max |v - regcand| over region vertices
  objMaxDist : Rat      -- max |v - regcand| over object vertices
  diffEmpty : Bool      -- isinstance(obj.occupiedSpace.difference(self), EmptyRegion)
  deriving Repr, Inhabited

inductive CExit where
  | p1 | p2Corners | p2Vertices | p3Outside | p3Ball | p4 | p5
  deriving DecidableEq, Repr, Inhabited

def CExit.name : CExit → String
  | .p1 => "p1" | .p2Corners => "p2Corners" | .p2Vertices => "p2Vertices" | .p3Outside => "p3Outside"
  | .p3Ball => "p3Ball" | .p4 => "p4" | .p5 => "p5"

structure ContainCfg where
  p1Ret : Bool                 -- `if not bb_overlap: return False`
  p2CornerCmp : Cmp            -- `numpy.all(bb_distances > 0)`
  p2CornerThr : Rat
  p2CornerRet : Bool
  p2VertCmp : Cmp              -- `numpy.all(vertex_distances > 0)`
  p2VertThr : Rat
  p3OutRet : Bool              -- `if not self.containsPoint(cand): return False`
  p3Lhs : ContainObs → Rat     -- `region_distance > obj_circumradius` ⇒ True, region_distance = abs(sdCand)
  p3Cmp : Cmp
  p3Rhs : ContainObs → Rat
  p3Ret : Bool
  p4Lhs : ContainObs → Rat     -- `obj_max_distance > reg_circumradius` ⇒ False
  p4Cmp : Cmp
  p4Rhs : ContainObs → Rat
  p4Ret : Bool
  p5Negate : Bool              -- `return isinstance(diff_region, EmptyRegion)`

/-- pass 5 -/
def containsTail5 (c : ContainCfg) (o : ContainObs) : Bool × CExit :=
  ((if c.p5Negate then !o.diffEmpty else o.diffEmpty), .p5)

/-- passes 4-5 -/
def containsTail4 (c : ContainCfg) (o : ContainObs) : Bool × CExit :=
  if o.regCandAvail then
    if c.p4Cmp.eval (c.p4Lhs o) (c.p4Rhs o) then (c.p4Ret, .p4) else containsTail5 c o
  else containsTail5 c o

def containsObject (c : ContainCfg) (o : ContainObs) : Bool × CExit :=
  if !o.bbOverlap then (c.p1Ret, .p1)
  else if o.convex then
    if c.p2CornerCmp.eval o.minCornerSd c.p2CornerThr then (c.p2CornerRet, .p2Corners)
    else (c.p2VertCmp.eval o.minVertexSd c.p2VertThr, .p2Vertices)
  else if o.candAvail then
    if !o.regionHasCand then (c.p3OutRet, .p3Outside)
    else if c.p3Cmp.eval (c.p3Lhs o) (c.p3Rhs o) then (c.p3Ret, .p3Ball)
    else containsTail4 c o
  else containsTail4 c o

/-! ## `PolygonalFootprintRegion.containsObject(obj)` -/

structure FootObs where
  convexObj : Bool       -- obj._isConvex
  hasBounding : Bool     -- self.polygons.contains(obj._boundingPolygon)
  hasHull : Bool         -- self.polygons.contains(obj.occupiedSpace._boundingPolygonHull)
  deriving Repr, Inhabited

inductive FExit where
  | convex | hull | exact
  deriving DecidableEq, Repr, Inhabited

def FExit.name : FExit → String
  | .convex => "convex" | .hull => "hull" | .exact => "exact"

structure FootCfg where
  convexFast : Bool      -- the `if obj._isConvex:` fast path exists
  hullRet : Bool         -- `if self.polygons.contains(hullPoly): return True`

def footprintContains (c : FootCfg) (o : FootObs) : Bool × FExit :=
  if c.convexFast && o.convexObj then (o.hasBounding, .convex)
  else if o.hasHull then (c.hullRet, .hull)
  else (o.hasBounding, .exact)

/-! ## `Object._isPlanarBox`, `Object.intersects`, `Object.minimumDistanceTo` -/

structure PlanarCfg where
  needsBox : Bool        -- isinstance(self.shape, BoxShape)
  pitchCmp : Cmp         -- self.orientation.pitch == 0
  pitchVal : Rat
  rollCmp : Cmp
  rollVal : Rat

def isPlanarBox (c : PlanarCfg) (isBox : Bool) (pitch roll : Rat) : Bool :=
  (if c.needsBox then isBox else true) && c.pitchCmp.eval pitch c.pitchVal && c.rollCmp.eval roll c.rollVal

structure ObjObs where
  selfPlanar : Bool
  otherIsObject : Bool
  otherPlanar : Bool
  otherIsPolygonal : Bool
  zS : Rat               -- self.position.z
  zO : Rat               -- other.position.z  (other.z for a PolygonalRegion)
  hS : Rat               -- self.height
  hO : Rat               -- other.height
  polyIntersects : Bool  -- shapely: self._boundingPolygon.intersects(other polygon)
  volumeAnswer : Bool    -- self.occupiedSpace.intersects(other occupied space)
  deriving Repr, Inhabited

inductive OExit where
  | planarZ | planarPoly | planarRegion | volume
  deriving DecidableEq, Repr, Inhabited

def OExit.name : OExit → String
  | .planarZ => "planarZ" | .planarPoly => "planarPoly" | .planarRegion => "planarRegion" | .volume => "volume"

def absQ (q : Rat) : Rat := if q < 0 then -q else q

structure ObjCfg where
  zLhs : ObjObs → Rat    -- abs(self.position.z - other.position.z)
  zCmp : Cmp             -- >
  zRhs : ObjObs → Rat    -- (self.height + other.height) / 2
  zRet : Bool            -- False
  rLhs : ObjObs → Rat    -- abs(self.position.z - other.z)
  rCmp : Cmp             -- <=
  rRhs : ObjObs → Rat    -- self.height / 2

def objectIntersects (c : ObjCfg) (o : ObjObs) : Bool × OExit :=
  if o.selfPlanar && (o.otherIsObject && o.otherPlanar) then
    if c.zCmp.eval (c.zLhs o) (c.zRhs o) then (c.zRet, .planarZ)
    else (o.polyIntersects, .planarPoly)
  else if o.selfPlanar && (o.otherIsPolygonal && c.rCmp.eval (c.rLhs o) (c.rRhs o)) then
    (o.polyIntersects, .planarRegion)
  else (o.volumeAnswer, .volume)

/-! ### `MeshVolumeRegion.minimumDistanceTo(MeshVolumeRegion)`

`dist = fcl.distance(selfObj, otherObj)` over the triangle-level (BVH) distance models of
`_fclDistanceData`; BVH models are *surfaces*, so a volume nested inside another one is reported as
being apart: `if dist > 0 and self.intersects(other): return 0.0`. -/

structure VolDistObs where
  fclDist : Rat          -- fcl.distance over the BVH (surface) models
  volIntersects : Bool   -- self.intersects(other)   (only evaluated when the first conjunct holds)
  deriving Repr, Inhabited

structure VolDistCfg where
  posCmp : Cmp           -- `dist > 0`
  posThr : Rat
  conn : Conn            -- `and`
  nestedRet : Rat        -- `return 0.0`
  /-- both distance geometries are triangle-level BVH models (never `fcl.Convex`, whose GJK distance is inexact) -/
  bvhOnly : Bool

/-- (value, took the nested-volume correction) -/
def volumeMinimumDistance (c : VolDistCfg) (o : VolDistObs) : Rat × Bool :=
  if c.conn.eval (c.posCmp.eval o.fclDist c.posThr) o.volIntersects then (c.nestedRet, true)
  else (o.fclDist, false)

structure DistObs where
  selfPlanar : Bool
  otherPlanar : Bool
  zS : Rat
  zO : Rat
  polyDist : Rat         -- shapely distance of the two bounding polygons
  fclDist : Rat          -- fcl.distance of the two occupied spaces (BVH surface models)
  volIntersects : Bool   -- self.occupiedSpace.intersects(other.occupiedSpace)
  deriving Repr, Inhabited

structure DistCfg where
  zCmp : Cmp             -- self.z == other.z

inductive DExit where
  | fast | nested | fcl
  deriving DecidableEq, Repr, Inhabited

def DExit.name : DExit → String
  | .fast => "fast" | .nested => "nested" | .fcl => "fcl"

/-- `Object.minimumDistanceTo`: the planar fast path, else `occupiedSpace.minimumDistanceTo` -/
def minimumDistance (c : DistCfg) (vc : VolDistCfg) (o : DistObs) : Rat × DExit :=
  if o.selfPlanar && o.otherPlanar && c.zCmp.eval o.zS o.zO then (o.polyDist, .fast)
  else
    let r := volumeMinimumDistance vc { fclDist := o.fclDist, volIntersects := o.volIntersects }
    (r.1, if r.2 then .nested else .fcl)

/-! ## `MeshVolumeRegion.isConvex`

`_isConvex` given by the constructor wins; otherwise trimesh's edge-based test **and** the mesh must fill
its convex hull: `mesh.volume >= (1 - 1e-6) * mesh.convex_hull.volume`. -/

structure ConvexObs where
  override : Option Bool   -- self._isConvex
  trimeshConvex : Bool     -- self.mesh.is_convex
  vol : Rat                -- self.mesh.volume
  hullVol : Rat            -- self.mesh.convex_hull.volume
  deriving Repr, Inhabited

structure ConvexCfg where
  overrideFirst : Bool             -- `if self._isConvex is not None: return self._isConvex` comes first
  needsTrimesh : Bool              -- `if not mesh.is_convex: return False`
  volLhs : ConvexObs → Rat
  volCmp : Cmp
  volRhs : ConvexObs → Rat

def isConvexFlag (c : ConvexCfg) (o : ConvexObs) : Bool :=
  match (if c.overrideFirst then o.override else none) with
  | some b => b
  | none => (if c.needsTrimesh then o.trimeshConvex else true) && c.volCmp.eval (c.volLhs o) (c.volRhs o)

/-! ## `MeshVolumeRegion._circumradius` (squared, exact rational arithmetic) -/

abbrev V3 := Rat × Rat × Rat

def V3.add (a b : V3) : V3 := (a.1 + b.1, a.2.1 + b.2.1, a.2.2 + b.2.2)
def V3.sub (a b : V3) : V3 := (a.1 - b.1, a.2.1 - b.2.1, a.2.2 - b.2.2)
def V3.smul (t : Rat) (a : V3) : V3 := (t * a.1, t * a.2.1, t * a.2.2)
def V3.dot (a b : V3) : Rat := a.1 * b.1 + a.2.1 * b.2.1 + a.2.2 * b.2.2
def V3.zero : V3 := (0, 0, 0)
def V3.normSq (a : V3) : Rat := V3.dot a a
def V3.distSq (a b : V3) : Rat := V3.normSq (V3.sub a b)

/-- about which point the fall-back branch of `_circumradius` measures the vertices -/
inductive Center where
  | origin | position
  deriving DecidableEq, Repr, Inhabited

def maxQ (l : List Rat) : Rat := l.foldl (fun m x => if m < x then x else m) 0

/-- fall-back branch: `numpy.max(numpy.linalg.norm(self.mesh.vertices [- self.position], axis=1))`, squared;
    `verts` are the world-space vertices of the region -/
def fallbackCircSq (c : Center) (pos : V3) (verts : List V3) : Rat :=
  match c with
  | .origin => maxQ (verts.map V3.normSq)
  | .position => maxQ (verts.map fun v => V3.distSq v pos)

/-- 3×3 matrix by rows -/
abbrev Mat3 := V3 × V3 × V3

def Mat3.mulVec (m : Mat3) (v : V3) : V3 := (V3.dot m.1 v, V3.dot m.2.1 v, V3.dot m.2.2 v)

/-- `MᵀM = I` (the columns are orthonormal): what a rotation matrix satisfies -/
def Mat3.isOrtho (m : Mat3) : Bool :=
  decide (m.1.1 * m.1.1 + m.2.1.1 * m.2.1.1 + m.2.2.1 * m.2.2.1 = 1) &&
  decide (m.1.2.1 * m.1.2.1 + m.2.1.2.1 * m.2.1.2.1 + m.2.2.2.1 * m.2.2.2.1 = 1) &&
  decide (m.1.2.2 * m.1.2.2 + m.2.1.2.2 * m.2.1.2.2 + m.2.2.2.2 * m.2.2.2.2 = 1) &&
  decide (m.1.1 * m.1.2.1 + m.2.1.1 * m.2.1.2.1 + m.2.2.1 * m.2.2.2.1 = 0) &&
  decide (m.1.1 * m.1.2.2 + m.2.1.1 * m.2.1.2.2 + m.2.2.1 * m.2.2.2.2 = 0) &&
  decide (m.1.2.1 * m.1.2.2 + m.2.1.2.1 * m.2.1.2.2 + m.2.2.2.1 * m.2.2.2.2 = 0)

/-- rigid placement `x ↦ R x + p` (`MeshRegion._transform` without scaling) -/
def rigid (m : Mat3) (p : V3) (x : V3) : V3 := V3.add (m.mulVec x) p

/-- component-wise scaling by the dimensions -/
def V3.scale (d v : V3) : V3 := (d.1 * v.1, d.2.1 * v.2.1, d.2.2 * v.2.2)

def max3 (d : V3) : Rat := let m := if d.1 < d.2.1 then d.2.1 else d.1; if m < d.2.2 then d.2.2 else m

/-- which branch of `_circumradius` is taken and what it reads -/
inductive CircSource where
  /-- `self._scaledShape._circumradius`: the scaled shape is itself a `MeshVolumeRegion` placed at the
      origin without rotation, whose vertices are `sv` -/
  | scaled (sv : List V3)
  /-- `max(dims) * self._shape._circumradius`: `uv` are the vertices of the unit-extent shape mesh -/
  | shape (dims : V3) (uv : List V3)
  /-- `numpy.max(numpy.linalg.norm(self.mesh.vertices - self.position, axis=1))` -/
  | fallback

/-- `MeshVolumeRegion._circumradius`, squared; `c` is the centre used by the fall-back expression
    (regenerated from the source), `pos`/`verts` the region's position and world-space vertices -/
def circumradiusSq (c : Center) (src : CircSource) (pos : V3) (verts : List V3) : Rat :=
  match src with
  | .scaled sv => fallbackCircSq c V3.zero sv
  | .shape dims uv => max3 dims * max3 dims * maxQ (uv.map V3.normSq)
  | .fallback => fallbackCircSq c pos verts

/-! ## round 4: `MeshVolumeRegion.intersects(MeshSurfaceRegion)` (three passes) -/

structure SurfObs where
  bbOverlap : Bool      -- the axis-aligned bounding boxes overlap in all three dimensions
  collide : Bool        -- collision_manager.in_collision_internal()  (volume mesh vs SurfaceCollisionTrimesh)
  hasFirst : Bool       -- self.containsPoint(other.mesh.vertices[0])
  deriving Repr, Inhabited

inductive SExit where
  | p1 | p2Hit | p3
  deriving DecidableEq, Repr, Inhabited

def SExit.name : SExit → String
  | .p1 => "p1" | .p2Hit => "p2Hit" | .p3 => "p3"

structure SurfCfg where
  p1Ret : Bool          -- `if not bb_overlap: return False`
  p2Ret : Bool          -- `if surface_collision: return True`
  p3Negate : Bool       -- `return self.containsPoint(other.mesh.vertices[0])`  (no `not`)

def intersectsSurface (c : SurfCfg) (o : SurfObs) : Bool × SExit :=
  if !o.bbOverlap then (c.p1Ret, .p1)
  else if o.collide then (c.p2Ret, .p2Hit)
  else ((if c.p3Negate then !o.hasFirst else o.hasFirst), .p3)

/-! ## round 4: `MeshVolumeRegion.intersects(PolygonalFootprintRegion)` and the cache of
`PolygonalFootprintRegion.approxBoundFootprint`

The footprint (an infinite vertical cylinder) is cut to a slab `(centre, height)` = `[centre - height/2,
centre + height/2]` covering the vertical extent `[lo, hi]` of the mesh, and the volume/volume procedure is
run on the bounded footprint.  `approxBoundFootprint` keeps **one** cached slab per footprint and re-uses it
when it covers the requested one; otherwise it builds a padded slab and caches it. -/

/-- Python's `max(a, b)` on numbers -/
def maxR (a b : Rat) : Rat := if a < b then b else a

structure SlabCfg where
  /-- `mesh_height = vertical_bounds[1] - vertical_bounds[0] + 1` as a function of (lo, hi) -/
  height : Rat → Rat → Rat
  /-- `centerZ = (vertical_bounds[1] + vertical_bounds[0]) / 2` -/
  center : Rat → Rat → Rat
  /-- the two comparisons of the cache test, operands as functions of (prevCentre, prevHeight, centre, height) -/
  topLhs : Rat → Rat → Rat → Rat → Rat
  topCmp : Cmp
  topRhs : Rat → Rat → Rat → Rat → Rat
  botLhs : Rat → Rat → Rat → Rat → Rat
  botCmp : Cmp
  botRhs : Rat → Rat → Rat → Rat → Rat
  conn : Conn
  /-- `padded_height = 100 * max(1, centerZ) * height` as a function of (centre, height) -/
  padded : Rat → Rat → Rat

/-- lower / upper end of a slab `(centre, height)` (what `boundFootprint` extrudes to) -/
def slabLo (s : Rat × Rat) : Rat := s.1 - s.2 / 2
def slabHi (s : Rat × Rat) : Rat := s.1 + s.2 / 2

/-- `approxBoundFootprint(centerZ, height)` on the cache state: (slab used, new cache, cache was re-used) -/
def approxBound (c : SlabCfg) (cache : Option (Rat × Rat)) (cz h : Rat) : (Rat × Rat) × Option (Rat × Rat) × Bool :=
  match cache with
  | some (pc, ph) =>
    if c.conn.eval (c.topCmp.eval (c.topLhs pc ph cz h) (c.topRhs pc ph cz h))
                   (c.botCmp.eval (c.botLhs pc ph cz h) (c.botRhs pc ph cz h)) then ((pc, ph), some (pc, ph), true)
    else ((cz, c.padded cz h), some (cz, c.padded cz h), false)
  | none => ((cz, c.padded cz h), some (cz, c.padded cz h), false)

/-- the slab used by `MeshVolumeRegion.intersects(PolygonalFootprintRegion)` for a mesh of vertical extent `[lo, hi]` -/
def footprintSlab (c : SlabCfg) (cache : Option (Rat × Rat)) (lo hi : Rat) : (Rat × Rat) × Option (Rat × Rat) × Bool :=
  approxBound c cache (c.center lo hi) (c.height lo hi)

/-- a whole history of queries `(lo, hi)` against one footprint, starting from the empty cache: the slabs used -/
def slabHistory (c : SlabCfg) : Option (Rat × Rat) → List (Rat × Rat) → List (Rat × Rat)
  | _, [] => []
  | cache, (lo, hi) :: rest =>
    let r := footprintSlab c cache lo hi
    r.1 :: slabHistory c r.2.1 rest

/-! ## round 4: `MeshVolumeRegion.containsRegionInner(MeshVolumeRegion)` -/

structure InnerCfg where
  /-- `reg.difference(self)` (false) or `self.difference(reg)` (true) -/
  swapped : Bool
  negate : Bool          -- `return isinstance(diff_region, EmptyRegion)` (no `not`)

/-- `regMinusSelfEmpty` / `selfMinusRegEmpty`: emptiness of the two possible boolean differences -/
def containsRegionInner (c : InnerCfg) (regMinusSelfEmpty selfMinusRegEmpty : Bool) : Bool :=
  let e := if c.swapped then selfMinusRegEmpty else regMinusSelfEmpty
  if c.negate then !e else e

end Scenic.Solid
