/-
Model of `Simulation.valuesHaveDiverged` (scalar and vector branches), core Lean only.
Values are exact rationals; the vector branch measures the squared norm against `tol^2`
(`norm > tol ⇔ norm² > tol²` for `tol ≥ 0`, avoiding square roots).

`useAbs` is extracted from the source by `tools/translate/divergence.py`: `true` when the scalar
branch computes `abs(actual - expected)`.
-/
namespace Scenic.Replay

/-- scalar branch: `diff = [abs](actual - expected); if diff: return diff > tol else: return actual != expected` -/
def scalarDiverged (useAbs : Bool) (tol expected actual : Rat) : Bool :=
  let d := actual - expected
  let diff := if useAbs then (if d < 0 then -d else d) else d
  if diff ≠ 0 then decide (diff > tol) else decide (actual ≠ expected)

def normSq (v : List Rat) : Rat := v.foldl (fun acc x => acc + x * x) 0

/-- vector branch (`(actual - expected).norm() > tol`), stated with squares -/
def vectorDiverged (tol : Rat) (expected actual : List Rat) : Bool :=
  let d := List.zipWith (· - ·) actual expected
  let n2 := normSq d
  if n2 ≠ 0 then decide (n2 > tol * tol) else decide (actual ≠ expected)

end Scenic.Replay
