/-!
# The `.snet` cache of road networks (`Network.fromFile` / `fromPickle` / `dumpPickle`)

Bytes are `Nat`s < 256.  The compressed pickle is abstract (`pickle` / `unpickle`); the model is
the header logic: version field, digest of the map file, digest of the map options, the order of
the checks, which exception each failure raises and which exceptions `fromFile` swallows.
-/
namespace Scenic.RoadCache

abbrev Bytes := List Nat

inductive Err | unpickling | digestMismatch | fileNotFound | valueError | other
  deriving DecidableEq, Repr

/-- constants regenerated from roads.py -/
structure Cfg where
  formatVersion : Nat
  versionBytes : Nat
  digestBytes : Nat
  optionsBytes : Nat
  shortErr : Err
  versionErr : Err
  digestErr : Err
  optionsErr : Err
  payloadErr : Err
  /-- exception classes caught by `fromFile` (the cache is then ignored) -/
  caught : List Err
  deriving Repr

/-- little-endian decoding (`struct.unpack("<I", …)`) -/
def leDecode : Bytes → Nat
  | [] => 0
  | b :: bs => b + 256 * leDecode bs

/-- little-endian encoding on `k` bytes (`struct.pack("<I", v)` for `k = 4`) -/
def leEncode : Nat → Nat → Bytes
  | 0, _ => []
  | k + 1, v => v % 256 :: leEncode k (v / 256)

/-- Python truthiness of an optional bytes argument (`originalDigest and …`) -/
def truthy : Option Bytes → Bool
  | some (_ :: _) => true
  | _ => false

inductive Res (α : Type) | ok (a : α) | err (e : Err)
  deriving DecidableEq, Repr

/-- `Network.fromPickle(path, originalDigest, optionsDigest)` on the bytes of the file -/
def fromPickle {α : Type} (c : Cfg) (unpickle : Bytes → Option α) (file : Bytes)
    (orig opts : Option Bytes) : Res α :=
  let ver := file.take c.versionBytes
  if ver.length ≠ c.versionBytes then .err c.shortErr else
  if leDecode ver ≠ c.formatVersion then .err c.versionErr else
  let rest := file.drop c.versionBytes
  let dig := rest.take c.digestBytes
  if dig.length ≠ c.digestBytes then .err c.shortErr else
  if truthy orig && orig != some dig then .err c.digestErr else
  let rest := rest.drop c.digestBytes
  let od := rest.take c.optionsBytes
  if od.length ≠ c.optionsBytes then .err c.shortErr else
  if truthy opts && opts != some od then .err c.optionsErr else
  match unpickle (rest.drop c.optionsBytes) with
  | some a => .ok a
  | none => .err c.payloadErr

def header (c : Cfg) (digest optDigest : Bytes) : Bytes :=
  leEncode c.versionBytes c.formatVersion ++ digest ++ optDigest

/-- `Network.dumpPickle` -/
def dumpPickle {α : Type} (c : Cfg) (pickle : α → Bytes) (a : α) (digest optDigest : Bytes) : Bytes :=
  header c digest optDigest ++ pickle a

inductive Source (α : Type) | cached (a : α) | parsed (a : α) | raised (e : Err)
  deriving DecidableEq, Repr

/-- `Network.fromFile` for a map with an underlying map file: `digest` is the hash of the map
file, `optDigest` the hash of the options, `cacheFile` the bytes of the `.snet` file if it exists,
`parse` the network the parser would build. -/
def fromFile {α : Type} (c : Cfg) (unpickle : Bytes → Option α) (parse : α) (useCache : Bool)
    (cacheFile : Option Bytes) (digest optDigest : Bytes) : Source α :=
  match useCache, cacheFile with
  | true, some file =>
    match fromPickle c unpickle file (some digest) (some optDigest) with
    | .ok a => .cached a
    | .err e => if c.caught.contains e then .parsed parse else .raised e
  | _, _ => .parsed parse

/-- the cache file after `fromFile` returns -/
def cacheAfter {α : Type} (c : Cfg) (unpickle : Bytes → Option α) (pickle : α → Bytes) (parse : α)
    (useCache writeCache : Bool) (cacheFile : Option Bytes) (digest optDigest : Bytes) : Option Bytes :=
  match fromFile c unpickle parse useCache cacheFile digest optDigest with
  | .parsed a => if writeCache then some (dumpPickle c pickle a digest optDigest) else cacheFile
  | _ => cacheFile


/-! ### the front of `Network.fromFile`: which file is read for a given spelling of the path -/

/-- extension of the path passed to `fromFile`: none, a map format (`.xodr`), the cache format
(`.snet`), anything else -/
inductive Ext | none | map | pickled | unknown
  deriving DecidableEq, Repr

structure PathCfg where
  /-- the keys of the `handlers` dict in order ("in order of decreasing priority") -/
  handlerOrder : List Ext
  /-- exception for a path without extension when no file of a known format exists -/
  notFoundErr : Err
  /-- exception for an extension that is not a key of `handlers` -/
  unknownErr : Err
  deriving Repr

def extExists (mapExists cacheExists : Bool) : Ext → Bool
  | .map => mapExists
  | .pickled => cacheExists
  | _ => false

/-- `if not ext: for ext in handlers: if path.with_suffix(ext).exists(): …` / `elif ext not in handlers` -/
def resolveExt (pc : PathCfg) (ext : Ext) (mapExists cacheExists : Bool) : Res Ext :=
  match ext with
  | .none =>
    match pc.handlerOrder.find? (extExists mapExists cacheExists) with
    | some e => .ok e
    | none => .err pc.notFoundErr
  | e => if pc.handlerOrder.contains e then .ok e else .err pc.unknownErr

/-- `Network.fromFile(path, useCache, …)` with the path handling in front: `mapFile` = digest of the
map file if it exists, `cacheFile` = bytes of the `.snet` file if it exists.  A `.snet` path is
loaded directly, without expected digests, and its exceptions propagate; opening a missing file
raises `FileNotFoundError` (`openErr`). -/
def fromFilePath {α : Type} (c : Cfg) (pc : PathCfg) (openErr : Err) (unpickle : Bytes → Option α)
    (parse : α) (useCache : Bool) (ext : Ext) (mapFile : Option Bytes) (cacheFile : Option Bytes)
    (optDigest : Bytes) : Source α :=
  match resolveExt pc ext mapFile.isSome cacheFile.isSome with
  | .err e => .raised e
  | .ok .pickled =>
    match cacheFile with
    | none => .raised openErr
    | some file =>
      match fromPickle c unpickle file none none with
      | .ok a => .cached a
      | .err e => .raised e
  | .ok _ =>
    match mapFile with
    | none => .raised openErr
    | some digest => fromFile c unpickle parse useCache cacheFile digest optDigest

/-! ### the options digest (`deterministicHash`) : the byte string fed to blake2b -/

structure HashCfg where
  sepKey : Bytes
  sepVal : Bytes
  placeholder : Bytes
  deriving Repr

/-- `kvs` are the (key, value) pairs in the order in which they are hashed; a value of an
unsupported type is `none` -/
def encodeOptions (h : HashCfg) (kvs : List (Bytes × Option Bytes)) : Bytes :=
  kvs.flatMap fun kv => h.sepKey ++ kv.1 ++ h.sepVal ++ (match kv.2 with | some v => v | none => h.placeholder)

def bytesLt : Bytes → Bytes → Bool
  | [], [] => false
  | [], _ :: _ => true
  | _ :: _, [] => false
  | a :: as, b :: bs => a < b || (a == b && bytesLt as bs)

def insertKV (kv : Bytes × Option Bytes) : List (Bytes × Option Bytes) → List (Bytes × Option Bytes)
  | [] => [kv]
  | x :: xs => if bytesLt kv.1 x.1 then kv :: x :: xs else x :: insertKV kv xs

/-- `sorted(mapping.keys(), key=str)` (stable insertion sort on the key bytes) -/
def sortKVs (kvs : List (Bytes × Option Bytes)) : List (Bytes × Option Bytes) :=
  kvs.foldl (fun acc kv => insertKV kv acc) []

def optionsPreimage (h : HashCfg) (kvs : List (Bytes × Option Bytes)) : Bytes :=
  encodeOptions h (sortKVs kvs)

end Scenic.RoadCache
