import ScenicModel.Model.SimCo
/-! # C12 — the documented order of a simulation, as an automaton over the event log

`docs/reference/dynamic_scenarios.rst`, steps 1–10, read as a language of event logs:

    create* upd(0)
    ( scenario-events*  ri* r* traj(t)             -- 1 (compose blocks, requirement / time-limit /
                                                   --    termination checks, stops), 2 (records)
      monitor-events*                              -- 3
      ts-cond(false)*                              -- 4 (terminate simulation when …; step limit)
      sched(order) (bstep(a) behavior-events-of-a*)* -- 5, one `bstep` per scheduled agent, in order
      act(t) sim(t) upd(t+1) )*                    -- 6, 7, 8+9
    … the last iteration may end after 3, inside/after 4 (a `terminate simulation when`
      condition that evaluates to true ends it at once), or inside 5 …
    stop* rf*                                      -- 10

`t` is the number of completed iterations: it is carried by the automaton state, so
`traj/act/sim/upd` must carry the right clock value, `ri` may only occur at `t = 0`, a
behavior event must belong to the agent whose turn it is, every scheduled agent must have had
its turn before `act`, and nothing but `stop`/`rf` may follow the termination.

This file is independent of the executable model (`SimLoop.lean`): it is the specification
the model is proved against, and it is also run on the event logs of the real code. -/
namespace Scenic.SimLoop

inductive DS
  | start
  | scen (t : Nat)
  | rini (t : Nat)
  | recs (t : Nat)
  | mon (t : Nat)
  | chk (t : Nat)
  | beh (t : Nat) (rem : List Nat) (cur : Option Nat)
  | act (t : Nat)
  | sim (t : Nat)
  | fin (t : Nat)
  | fin2 (t : Nat)
  deriving Repr, DecidableEq, Inhabited

/-- events of the scenario phase (step 1) -/
def Ev.isScen : Ev → Bool
  | .q _ | .c _ _ | .create _ | .stop _ => true
  | .cond x _ _ => x == .comp || x == .termWhen
  | _ => false

/-- events of the monitor phase (step 3) -/
def Ev.isMon : Ev → Bool
  | .m _ _ _ | .stop _ => true
  | .cond x _ _ => x == .mon
  | _ => false

def DS.step : DS → Ev → Option DS
  | .start, .create _ => some .start
  | .start, .upd 0 => some (.scen 0)
  | .start, _ => none
  | .scen t, .recInit => if t = 0 then some (.rini t) else none
  | .scen t, .recd _ => some (.recs t)
  | .scen t, .traj t' => if t' = t then some (.mon t) else none
  | .scen t, e => if e.isScen then some (.scen t) else none
  | .rini t, .recInit => some (.rini t)
  | .rini t, .recd _ => some (.recs t)
  | .rini t, .traj t' => if t' = t then some (.mon t) else none
  | .rini _, _ => none
  | .recs t, .recd _ => some (.recs t)
  | .recs t, .traj t' => if t' = t then some (.mon t) else none
  | .recs _, _ => none
  | .mon t, .cond .termSim _ v => some (if v then .fin t else .chk t)
  | .mon t, .sched o => some (.beh t o none)
  | .mon t, .recFinal => some (.fin2 t)
  | .mon t, e => if e.isMon then some (.mon t) else none
  | .chk t, .cond .termSim _ v => some (if v then .fin t else .chk t)
  | .chk t, .sched o => some (.beh t o none)
  | .chk t, .stop _ => some (.fin t)
  | .chk t, .recFinal => some (.fin2 t)
  | .chk _, _ => none
  | .beh t rem _, .bstep a =>
    match rem with
    | a' :: rem' => if a' = a then some (.beh t rem' (some a)) else none
    | [] => none
  | .beh t rem cur, .b a _ => if cur = some a then some (.beh t rem cur) else none
  | .beh t rem cur, .cond .beh _ _ => if cur.isSome then some (.beh t rem cur) else none
  | .beh t rem cur, .stop _ => some (.beh t rem cur)
  | .beh t rem _, .act t' _ => if t' = t ∧ rem = [] then some (.act t) else none
  | .beh t _ _, .recFinal => some (.fin2 t)
  | .beh _ _ _, _ => none
  | .act t, .sim t' => if t' = t then some (.sim t) else none
  | .act _, _ => none
  | .sim t, .upd t' => if t' = t + 1 then some (.scen (t + 1)) else none
  | .sim _, _ => none
  | .fin t, .stop _ => some (.fin t)
  | .fin t, .recFinal => some (.fin2 t)
  | .fin _, _ => none
  | .fin2 t, .recFinal => some (.fin2 t)
  | .fin2 _, _ => none

def DS.run : DS → List Ev → Option DS
  | s, [] => some s
  | s, e :: l => match s.step e with
    | some s' => s'.run l
    | none => none

/-- states in which a simulation may have ended -/
def DS.final : DS → Bool
  | .mon _ | .chk _ | .beh _ _ _ | .fin _ | .fin2 _ => true
  | _ => false

/-- number of completed iterations (= the simulation clock) -/
def DS.time : DS → Nat
  | .start => 0
  | .scen t | .rini t | .recs t | .mon t | .chk t | .beh t _ _ | .act t | .sim t | .fin t | .fin2 t => t

/-- the log of a whole simulation that ended normally -/
def wellOrdered (log : List Ev) : Bool :=
  match DS.start.run log with
  | some s => s.final
  | none => false

end Scenic.SimLoop
