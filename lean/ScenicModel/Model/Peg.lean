/-!
# PEG machine of pegen's generated Python parsers (model for C09)

What is modelled (read from `pegen/python_generator.py`, `pegen/parser.py`, `pegen/tokenizer.py`):

* items: token-class terminals (`NUMBER`, `NEWLINE`, ...), `NAME` (a NAME token that is not a hard keyword),
  literals `'x'` / `"x"` (pegen's `expect` compares the *string* of the next token first, whatever its type),
  rule references, groups, `[x]`, `x*`, `x+`, `s.x+`, `&x`, `!x`, `~`, `&&x`;
* alternatives are tried in order; an alternative that mentions an `invalid_` rule is guarded by
  `self.call_invalid_rules`; a cut makes the enclosing alternative list fail when the rest of the alternative fails;
  a forced item that fails raises (aborts the whole parse);
* left recursion: the leader of a left-recursive cycle grows a seed (`memoize_left_rec`): the seed starts as failure,
  the body is re-evaluated while the result gets longer, the last longer result wins;
* actions are abstracted: the result of an alternative is the bracketed sequence of the tokens it consumed,
  `open label … close` (`label` identifies the alternative of `scenic.gram`).

Not modelled: the plain memo table (transparent for this deterministic machine), action code (an action that returns a
falsy value makes pegen treat the alternative as failed), `*_without_invalid` rules (only relevant in the second,
diagnostic pass), the tokenizer.

Tokens carry a token-type number and the id of their string in the literal table of the grammar
(`noLit` when the string is not a literal of the grammar). No `String` is inspected by the machine.
-/
namespace Scenic.Peg

structure Tok where
  kind : Nat
  lit  : Nat
  deriving DecidableEq, Repr, Inhabited

/-- token type of NAME in CPython's `token` module -/
def nameKind : Nat := 1

inductive Expr where
  | eps
  | fail
  | cut
  | name
  | softkw
  | tok (kind : Nat)
  | lit (id : Nat)
  | ref (r : Nat)
  | seq (a b : Expr)
  | alt (a b : Expr)
  | opt (a : Expr)
  | star (a : Expr)
  | plus (a : Expr)
  | gather (sep a : Expr)
  | pos (a : Expr)
  | neg (a : Expr)
  | forced (a : Expr)
  | inv (a : Expr)
  | act (label : Nat) (a : Expr)
  deriving Repr, Inhabited, DecidableEq

structure Rule where
  body : Expr
  leader : Bool
  deriving Repr, Inhabited

/-- finite sets of rule indices / literal ids are bit masks (`Nat.testBit`), which the kernel evaluates natively -/
abbrev Mask := Nat
def Mask.has (m : Mask) (i : Nat) : Bool := m.testBit i
def Mask.ofList (l : List Nat) : Mask := l.foldl (fun m i => m ||| (1 <<< i)) 0

structure Grammar where
  rules : Array Rule
  /-- literal ids of the hard keywords -/
  keywords : Mask
  /-- literal ids of the soft keywords -/
  softKeywords : Mask := 0
  deriving Inhabited

/-- events of a derivation: token consumed at index `i`, start of alternative `l`, end of alternative -/
inductive Ev where
  | t (i : Nat)
  | o (l : Nat)
  | c
  deriving DecidableEq, Repr

/-- `oof` out of fuel; `err` a forced item failed (pegen raises); `cutfail` failure after a cut -/
inductive Res where
  | oof
  | err
  | fail
  | cutfail
  | ok (p : Nat) (cut : Bool) (evs : List Ev)
  deriving DecidableEq, Repr

/-- seed of a left-recursive leader at a position: `none` = failure -/
abbrev Seed := Option (Nat × List Ev)
abbrev Seeds := List (Nat × Nat × Seed)

def Seeds.find (sd : Seeds) (r p : Nat) : Option Seed :=
  match sd with
  | [] => none
  | (r', p', s) :: rest => if r' = r ∧ p' = p then some s else Seeds.find rest r p

def Seed.toRes : Seed → Res
  | none => .fail
  | some (q, evs) => .ok q false evs

/-- end position of the current seed (`p` while the seed is still the initial failure) -/
def Seed.last (s : Seed) (p : Nat) : Nat :=
  match s with
  | none => p
  | some (q0, _) => q0

/-- the result of an item as seen by the enclosing alternative: cuts do not leak out of groups / rules -/
def Res.item : Res → Res
  | .ok q _ evs => .ok q false evs
  | .cutfail => .fail
  | r => r

def matchTok (toks : Array Tok) (p : Nat) (f : Tok → Bool) : Res :=
  match toks[p]? with
  | some t => if f t then .ok (p + 1) false [.t p] else .fail
  | none => .fail

mutual
/-- `eval g toks ci fuel seeds e p`: run expression `e` at token index `p`. `ci` = `call_invalid_rules`.
    Only `seq`, `act`, `inv` and `cut` let cut information through; every other form is an *item* (`Res.item`). -/
def eval (g : Grammar) (toks : Array Tok) (ci : Bool) : Nat → Seeds → Expr → Nat → Res
  | 0, _, _, _ => .oof
  | fuel + 1, sd, e, p =>
    match e with
    | .eps => .ok p false []
    | .fail => .fail
    | .cut => .ok p true []
    | .name => matchTok toks p fun t => t.kind == nameKind && !g.keywords.has t.lit
    | .softkw => matchTok toks p fun t => t.kind == nameKind && g.softKeywords.has t.lit
    | .tok k => matchTok toks p fun t => t.kind == k
    | .lit i => matchTok toks p fun t => t.lit == i
    | .seq a b =>
      match eval g toks ci fuel sd a p with
      | .ok q c evs =>
        match eval g toks ci fuel sd b q with
        | .ok q' c' evs' => .ok q' (c || c') (evs ++ evs')
        | .fail => if c then .cutfail else .fail
        | r => r
      | r => r
    | .act l a =>
      match eval g toks ci fuel sd a p with
      | .ok q c evs => .ok q c (.o l :: evs ++ [.c])
      | r => r
    | .inv a => if ci then eval g toks ci fuel sd a p else .fail
    | .alt a b =>
      Res.item (match eval g toks ci fuel sd a p with
        | .fail => eval g toks ci fuel sd b p
        | r => r)
    | .opt a =>
      Res.item (match (eval g toks ci fuel sd a p).item with
        | .fail => .ok p false []
        | r => r)
    | .star a =>
      Res.item (match (eval g toks ci fuel sd a p).item with
        | .ok q _ evs =>
          if q ≤ p then .ok q false evs
          else match eval g toks ci fuel sd (.star a) q with
            | .ok q' _ evs' => .ok q' false (evs ++ evs')
            | r => r
        | .fail => .ok p false []
        | r => r)
    | .plus a =>
      Res.item (match (eval g toks ci fuel sd a p).item with
        | .ok q _ evs =>
          match eval g toks ci fuel sd (.star a) q with
          | .ok q' _ evs' => .ok q' false (evs ++ evs')
          | r => r
        | r => r)
    | .gather s a =>
      Res.item (match (eval g toks ci fuel sd a p).item with
        | .ok q _ evs =>
          match eval g toks ci fuel sd (.star (.seq s a)) q with
          | .ok q' _ evs' => .ok q' false (evs ++ evs')
          | r => r
        | r => r)
    | .pos a =>
      Res.item (match (eval g toks ci fuel sd a p).item with
        | .ok _ _ _ => .ok p false []
        | r => r)
    | .neg a =>
      Res.item (match (eval g toks ci fuel sd a p).item with
        | .ok _ _ _ => .fail
        | .fail => .ok p false []
        | r => r)
    | .forced a =>
      Res.item (match (eval g toks ci fuel sd a p).item with
        | .fail => .err
        | r => r)
    | .ref r =>
      match sd.find r p with
      | some s => s.toRes
      | none =>
        match g.rules[r]? with
        | none => .fail
        | some rule =>
          if rule.leader then grow g toks ci fuel sd r rule.body p none
          else (eval g toks ci fuel sd rule.body p).item

/-- seed growing of a left-recursive leader (pegen's `memoize_left_rec`): the seed starts as failure, the body is
    re-evaluated with the seed in place while its result gets longer; the last longer result is the answer -/
def grow (g : Grammar) (toks : Array Tok) (ci : Bool) : Nat → Seeds → Nat → Expr → Nat → Seed → Res
  | 0, _, _, _, _, _ => .oof
  | fuel + 1, sd, r, body, p, cur =>
    Res.item (match (eval g toks ci fuel ((r, p, cur) :: sd) body p).item with
      | .ok q _ evs =>
        if q ≤ cur.last p then cur.toRes
        else grow g toks ci fuel sd r body p (some (q, evs))
      | .fail => cur.toRes
      | r => r)
end

/-- parse a whole token list from rule `start` -/
def parse (g : Grammar) (toks : Array Tok) (ci : Bool) (fuel start : Nat) : Res :=
  eval g toks ci fuel [] (.ref start) 0

/-! ## Syntactic analyses used by the conservativity theorem -/

/-- `e` can never raise: it contains no forced item and only refers to rules of `S` -/
def noErr (S : Mask) : Expr → Bool
  | .forced _ => false
  | .ref r => S.has r
  | .seq a b | .alt a b | .gather a b => noErr S a && noErr S b
  | .opt a | .star a | .plus a | .pos a | .neg a | .inv a | .act _ a => noErr S a
  | _ => true

/-- no cut on the spine of the alternative -/
def spineNoCut : Expr → Bool
  | .cut => false
  | .seq a b => spineNoCut a && spineNoCut b
  | .act _ a | .inv a => spineNoCut a
  | _ => true

/-- `e` cannot succeed (and fails without raising or cutting) on a token stream that contains no word of `R`,
    assuming the rules of `F` cannot. `ci = false`: alternatives mentioning `invalid_` rules are inactive. -/
def mustFail (F S R : Mask) (ci : Bool) : Expr → Bool
  | .fail => true
  | .lit i => R.has i
  | .ref r => F.has r
  | .seq a b => mustFail F S R ci a || (noErr S a && spineNoCut a && mustFail F S R ci b)
  | .alt a b => mustFail F S R ci a && mustFail F S R ci b
  | .plus a | .pos a | .act _ a => mustFail F S R ci a
  | .gather _ a => mustFail F S R ci a
  | .inv a => !ci || mustFail F S R ci a
  | _ => false

/-- replace every alternative that cannot succeed by `fail` (the shape of the grammar is kept) -/
def erase (F S R : Mask) (ci : Bool) : Expr → Expr
  | .alt a b => .alt (if mustFail F S R ci a then .fail else erase F S R ci a) (erase F S R ci b)
  | .seq a b => .seq (erase F S R ci a) (erase F S R ci b)
  | .gather s a => .gather (erase F S R ci s) (erase F S R ci a)
  | .opt a => .opt (erase F S R ci a)
  | .star a => .star (erase F S R ci a)
  | .plus a => .plus (erase F S R ci a)
  | .pos a => .pos (erase F S R ci a)
  | .neg a => .neg (erase F S R ci a)
  | .forced a => .forced (erase F S R ci a)
  | .inv a => .inv (erase F S R ci a)
  | .act l a => .act l (erase F S R ci a)
  | e => e

def eraseGrammar (F S R : Mask) (ci : Bool) (g : Grammar) : Grammar :=
  { g with rules := g.rules.map fun r => { r with body := erase F S R ci r.body } }

def allIdx (f : Nat → Rule → Bool) : List Rule → Nat → Bool
  | [], _ => true
  | r :: rs, i => f i r && allIdx f rs (i + 1)

/-- every rule of `F` has a body that cannot succeed (given `F`) -/
def fOK (g : Grammar) (F S R : Mask) (ci : Bool) : Bool :=
  allIdx (fun i r => !F.has i || mustFail F S R ci r.body) g.rules.toList 0

/-- every rule of `S` has a body without forced items that only refers to rules of `S` -/
def sOK (g : Grammar) (S : Mask) : Bool :=
  allIdx (fun i r => !S.has i || noErr S r.body) g.rules.toList 0

/-- no token of the stream is one of the words `R` -/
def wordFree (R : Mask) (toks : Array Tok) : Prop := ∀ t ∈ toks, R.has t.lit = false

/-! ## What is left of Scenic after the erasure -/

def mentions (scenic R : Mask) : Expr → Bool
  | .ref r => scenic.has r
  | .lit i => R.has i
  | .seq a b | .alt a b | .gather a b => mentions scenic R a || mentions scenic R b
  | .opt a | .star a | .plus a | .pos a | .neg a | .forced a | .inv a | .act _ a => mentions scenic R a
  | _ => false

def altsOf : Expr → List Expr
  | .alt a b => a :: altsOf b
  | _ => []

def refsOf : Expr → List Nat
  | .ref r => [r]
  | .seq a b | .alt a b | .gather a b => refsOf a ++ refsOf b
  | .opt a | .star a | .plus a | .pos a | .neg a | .forced a | .inv a | .act _ a => refsOf a
  | _ => []

/-- rules reachable from `todo`; `seen` is a mask -/
def reach (rules : List Rule) : Nat → List Nat → Mask → Mask
  | 0, _, seen => seen
  | _, [], seen => seen
  | fuel + 1, r :: todo, seen =>
    if seen.has r then reach rules fuel todo seen
    else match rules[r]? with
      | some rule => reach rules fuel (refsOf rule.body ++ todo) (seen ||| (1 <<< r))
      | none => reach rules fuel todo (seen ||| (1 <<< r))

def labelOf : Expr → Option Nat
  | .act l _ => some l
  | .inv a => labelOf a
  | _ => none

def residueAux (scenic R seen : Mask) : List Rule → Nat → List (Nat × Nat)
  | [], _ => []
  | rule :: rs, i =>
    (if seen.has i then
      (altsOf rule.body).filterMap fun a =>
        if mentions scenic R a then (labelOf a).map fun l => (i, l) else none
     else []) ++ residueAux scenic R seen rs (i + 1)

/-- (rule, label) of the top-level alternatives, in rules reachable from `start`, that mention a Scenic rule or word
    (erased alternatives are `fail` and mention nothing) -/
def residue (g : Grammar) (scenic R : Mask) (start fuel : Nat) : List (Nat × Nat) :=
  let rules := g.rules.toList
  residueAux scenic R (reach rules fuel [start] 0) rules 0

end Scenic.Peg
