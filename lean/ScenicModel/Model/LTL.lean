/-
# C11 — temporal requirements: formulas, finite-trace semantics, the rv_ltl monitor, Scenic's acceptance rule

Core Lean only (the driver `drv_c11` is compiled from this file).

* `F`        formulas as Scenic builds them (`propositions.py` → `rv_ltl` propositions).  `And(*ops)` / `Or(*ops)`
             are `reduce(&, ops, TRUE)` / `reduce(|, ops, FALSE)` in `rv_ltl.monitor`, i.e. left folds from the
             constants `tt` / `ff`; `F.andL` / `F.orL` build exactly those folds.
* `sat`      the specification: finite-trace LTL with strong `next` and strong `until` on a trace of `n` steps.
* `evalAt`   the monitor, written to mirror `rv_ltl/monitor.py` `_evaluate_at` clause by clause. The four
             verdicts are coded `FALSE = 1, PRESUMABLY_FALSE = 2, PRESUMABLY_TRUE = 3, TRUE = 4` as in `rv_ltl.b4`
             (`&` = `min`, `|` = `max`, `~v` = `5 - v`, truthy = `≥ 3`).
             `MonCfg.untilShift` says whether `UntilMonitor` bounds the scan of its left operand by
             `min(i + k, last)` (as the installed package does) or by `k` (the textbook bound); it is extracted
             from the installed `rv_ltl/monitor.py` on every run.
* `run`      Scenic's rule (`dynamics/scenarios.py` `_step` / `_stop`): one monitor update per step, reject
             when the verdict is in `stepReject`, reject at the stop when the last verdict is in `stopReject`.

A trace is a function `step → atom → Bool` together with the number `n` of steps observed so far, so a
continuation of a run is simply a larger `n` (and any trace agreeing on the first `n` steps).
-/
namespace Scenic.LTL

inductive F where
  | atom (a : Nat)
  | tt
  | ff
  | not (f : F)
  | and (a b : F)
  | or (a b : F)
  | implies (a b : F)
  | next (f : F)
  | until (a b : F)
  | eventually (f : F)
  | always (f : F)
deriving Repr, DecidableEq, Inhabited

/-- `rv_ltl.And(*ops)`: `reduce(lambda v1, v2: v1 & v2, values, B4.TRUE)` -/
def F.andL (fs : List F) : F := fs.foldl F.and F.tt
/-- `rv_ltl.Or(*ops)`: `reduce(lambda v1, v2: v1 | v2, values, B4.FALSE)` -/
def F.orL (fs : List F) : F := fs.foldl F.or F.ff

abbrev Trace := Nat → Nat → Bool

/-! ## bounded search / folds over index ranges -/

/-- first `k` in `[i, i + fuel)` with `p k` -/
def findFrom (p : Nat → Bool) : Nat → Nat → Option Nat
  | _, 0 => none
  | i, fuel + 1 => if p i then some i else findFrom p (i + 1) fuel

/-- `∃ k, lo ≤ k < hi ∧ p k` -/
def anyRange (p : Nat → Bool) (lo hi : Nat) : Bool := (List.range' lo (hi - lo)).any p
/-- `∀ k, lo ≤ k < hi → p k` -/
def allRange (p : Nat → Bool) (lo hi : Nat) : Bool := (List.range' lo (hi - lo)).all p
/-- `result = init; for j in range(lo, hi): result = result & g(j)` -/
def minRange (g : Nat → Nat) (init lo hi : Nat) : Nat :=
  (List.range' lo (hi - lo)).foldl (fun r j => min r (g j)) init

/-! ## specification: finite-trace semantics (strong next, strong until) -/

def sat (σ : Trace) (n : Nat) : F → Nat → Bool
  | .atom a, i => σ i a
  | .tt, _ => true
  | .ff, _ => false
  | .not f, i => !sat σ n f i
  | .and a b, i => sat σ n a i && sat σ n b i
  | .or a b, i => sat σ n a i || sat σ n b i
  | .implies a b, i => !sat σ n a i || sat σ n b i
  | .next f, i => decide (i + 1 < n) && sat σ n f (i + 1)
  | .until a b, i => anyRange (fun k => sat σ n b k && allRange (fun j => sat σ n a j) i k) i n
  | .eventually f, i => anyRange (fun k => sat σ n f k) i n
  | .always f, i => allRange (fun k => sat σ n f k) i n

/-! ## the monitor (rv_ltl) -/

structure MonCfg where
  /-- `UntilMonitor._evaluate_at` scans its left operand over `range(i, min(i + k, last))` (true) or
      `range(i, k)` (false) -/
  untilShift : Bool
deriving Repr, DecidableEq

def truthy (v : Nat) : Bool := decide (3 ≤ v)
def b4 (b : Bool) : Nat := if b then 4 else 1

/-- upper bound of the left-operand scan in `UntilMonitor._evaluate_at` -/
def MonCfg.hi (c : MonCfg) (i k last : Nat) : Nat := if c.untilShift then min (i + k) last else k

/-- `UntilMonitor._evaluate_at(i)` given the operand monitors `l`, `r` and `last = n - 1`:
```
for k in range(i, last + 1):
    v = rhs(k)
    if not v.is_truthy: continue
    result = v
    for j in range(i, min(i + k, last)): result = result & lhs(j)
    return result
return PRESUMABLY_FALSE
``` -/
def untilVal (c : MonCfg) (l r : Nat → Nat) (n i : Nat) : Nat :=
  match findFrom (fun k => truthy (r k)) i (n - 1 + 1 - i) with
  | none => 2
  | some k => minRange l (r k) i (c.hi i k (n - 1))

/-- verdict of the monitor of `f` at index `i` after `n` updates (`_last_index = n - 1`) -/
def evalAt (c : MonCfg) (σ : Trace) (n : Nat) : F → Nat → Nat
  | .atom a, i => b4 (σ i a)
  | .tt, _ => 4
  | .ff, _ => 1
  | .not f, i => 5 - evalAt c σ n f i
  | .and a b, i => min (evalAt c σ n a i) (evalAt c σ n b i)
  | .or a b, i => max (evalAt c σ n a i) (evalAt c σ n b i)
  -- ImpliesMonitor = OrMonitor(NotMonitor(lhs), rhs)
  | .implies a b, i => max (5 - evalAt c σ n a i) (evalAt c σ n b i)
  -- NextMonitor: `if next_i > last: PRESUMABLY_FALSE else op(next_i)`
  | .next f, i => if i + 1 > n - 1 then 2 else evalAt c σ n f (i + 1)
  | .until a b, i => untilVal c (fun j => evalAt c σ n a j) (fun k => evalAt c σ n b k) n i
  -- EventuallyMonitor = UntilMonitor(ConstantTrue, op)
  | .eventually f, i => untilVal c (fun _ => 4) (fun k => evalAt c σ n f k) n i
  -- AlwaysMonitor = Not(Eventually(Not(op)))
  | .always f, i => 5 - untilVal c (fun _ => 4) (fun k => 5 - evalAt c σ n f k) n i

/-! ## syntactic classes -/

/-- no temporal operator (a Boolean combination of atoms) -/
def F.prop : F → Bool
  | .atom _ | .tt | .ff => true
  | .not f => f.prop
  | .and a b | .or a b | .implies a b => a.prop && b.prop
  | .next _ | .until _ _ | .eventually _ | .always _ => false

/-- Boolean value of a non-temporal formula in one step -/
def F.pval (v : Nat → Bool) : F → Bool
  | .atom a => v a
  | .tt => true
  | .ff => false
  | .not f => !f.pval v
  | .and a b => a.pval v && b.pval v
  | .or a b => a.pval v || b.pval v
  | .implies a b => !a.pval v || b.pval v
  | _ => false

/-- The monitor of `f` is exact at **every** index.  `crisp` additionally asks the right operand of each
    `until` to be non-temporal (needed for the finality of `FALSE`). -/
def F.okAll (c : MonCfg) (crisp : Bool) : F → Bool
  | .atom _ | .tt | .ff => true
  | .not f | .next f | .eventually f | .always f => f.okAll c crisp
  | .and a b | .or a b | .implies a b => a.okAll c crisp && b.okAll c crisp
  | .until a b => !c.untilShift && a.okAll c crisp && b.okAll c crisp && (!crisp || b.prop)

/-- The monitor of `f` is exact at index 0 (where Scenic evaluates requirements): an `until` that is not
    below another temporal operator is only ever evaluated at index 0, where `min(0 + k, last) = k`. -/
def F.okZero (c : MonCfg) (crisp : Bool) : F → Bool
  | .not f => f.okZero c crisp
  | .and a b | .or a b | .implies a b => a.okZero c crisp && b.okZero c crisp
  | .until a b => a.okAll c crisp && b.okAll c crisp && (!crisp || b.prop)
  | f => f.okAll c crisp

/-! ## Scenic's acceptance rule -/

structure Rule where
  /-- verdicts on which `DynamicScenario._step` raises `RejectSimulationException` -/
  stepReject : List Nat
  /-- verdicts of `lastValue` on which `DynamicScenario._stop` rejects -/
  stopReject : List Nat
  /-- `MonitorRequirement.lastValue` before the first update -/
  initLast : Nat
  /-- verdicts of the one-shot monitor on which `CompiledRequirement.falsifiedByInner` rejects a scene -/
  sceneReject : List Nat
  /-- `_addDynamicRequirement`: a temporal `require` executed while its scenario is running gets a monitor at
      once, the monitor is updated in that very step and the simulation is rejected when the verdict is in this
      set (`none`: no monitor is created for such a requirement) -/
  dynReject : Option (List Nat)
  /-- `propositions.Implies` defines `evaluate()` (needed when a non-temporal `require` is executed while a
      simulation is running: `veneer.require` then calls `req.evaluate()` instead of using a monitor) -/
  impliesEval : Bool
deriving Repr, DecidableEq

inductive Outcome where
  | accepted
  | rejectedAt (t : Nat)
  /-- the run ends with an exception that is not a rejection -/
  | crashed
deriving Repr, DecidableEq

/-- a requirement in force for `N` steps (monitor updated at relative steps `0 … N-1`, scenario stopped
    in step `N-1`) -/
def run (c : MonCfg) (R : Rule) (f : F) (σ : Trace) (N : Nat) : Outcome :=
  match findFrom (fun t => R.stepReject.contains (evalAt c σ (t + 1) f 0)) 0 N with
  | some t => .rejectedAt t
  | none =>
    let last := if N = 0 then R.initLast else evalAt c σ N f 0
    if R.stopReject.contains last then .rejectedAt (N - 1) else .accepted

/-- the initial-scene check (`falsifiedByInner`): the verdict after the first update -/
def sceneOK (c : MonCfg) (R : Rule) (f : F) (σ : Trace) : Bool :=
  !R.sceneReject.contains (evalAt c σ 1 f 0)

/-- every node of a non-temporal formula has an `evaluate()` method -/
def F.evaluable (impliesEval : Bool) : F → Bool
  | .atom _ | .tt | .ff => true
  | .not f => f.evaluable impliesEval
  | .and a b | .or a b => a.evaluable impliesEval && b.evaluable impliesEval
  | .implies a b => impliesEval && a.evaluable impliesEval && b.evaluable impliesEval
  | .next _ | .until _ _ | .eventually _ | .always _ => false

/-! ## values of atomic conditions (only their truth value may matter) -/

/-- what an atomic condition returns in a step, as far as Scenic and rv_ltl look at it: its truth value
    (`bool(v)`), whether it is `None` (rv_ltl's `AtomicMonitor` drops `None` from its history) and an opaque
    identity standing for everything else -/
structure PyVal where
  truth : Bool
  isNone : Bool
  tag : Nat
deriving Repr, DecidableEq

def PyVal.ofBool (b : Bool) : PyVal := { truth := b, isNone := false, tag := 0 }

/-- `PropositionMonitor.update`: the entry of the monitor state for an atom whose closure returned `v`
    (`bool(b)` when `coerce`, else the raw value: `none` = the step is missing from the atom's history) -/
def atomInput (coerce : Bool) (v : PyVal) : Option Bool :=
  if coerce then some v.truth else if v.isNone then none else some v.truth

/-- `evaluate()` of a non-temporal proposition tree on the values of its atoms:
    `Atomic`: `closure()`; `Not`: `not x`; `And`: `all([...])`; `Or`: `any([...])`;
    `Implies`: `(not lhs) or rhs` — the *value* of `rhs` when `lhs` is truthy -/
def F.evalPy (v : Nat → PyVal) : F → PyVal
  | .atom a => v a
  | .tt => .ofBool true
  | .ff => .ofBool false
  | .not f => .ofBool (!(f.evalPy v).truth)
  | .and a b => .ofBool ((a.evalPy v).truth && (b.evalPy v).truth)
  | .or a b => .ofBool ((a.evalPy v).truth || (b.evalPy v).truth)
  | .implies a b => if (a.evalPy v).truth then b.evalPy v else .ofBool true
  | _ => .ofBool false

/-- the forms of `evaluate()` that `F.evalPy` hard-wires (class, normalised body) -/
def canonicalEvalForms : List (String × String) :=
  [("Atomic", "closure()"), ("Not", "not x"), ("And", "all"), ("Or", "any"), ("Implies", "(not x) or y")]

/-- a non-temporal `require` executed while a simulation is running (`veneer.require`): evaluated once, in
    the current step, with `req.evaluate()` -/
def runImmediate (R : Rule) (f : F) (σ : Trace) : Outcome :=
  if f.evaluable R.impliesEval then (if f.pval (σ 0) then .accepted else .rejectedAt 0) else .crashed

/-- the same on the values the atoms return (what the code does: `result = req.evaluate(); if not result: reject`) -/
def runImmediateV (R : Rule) (f : F) (v : Nat → PyVal) : Outcome :=
  if f.evaluable R.impliesEval then (if (f.evalPy v).truth then .accepted else .rejectedAt 0) else .crashed

/-- a `require` in the setup block of a scenario that is started while the simulation runs: a temporal one is
    registered before `_start` builds the monitors, a non-temporal one is evaluated on the spot -/
def runRuntimeSetup (c : MonCfg) (R : Rule) (f : F) (σ : Trace) (N : Nat) : Outcome :=
  if f.prop then runImmediate R f σ else run c R f σ N

/-- a temporal `require` executed inside a running scenario (`_addDynamicRequirement`): the monitor is created
    and updated in the step the statement executes (relative step 0) and that first verdict is tested against
    `dr`; from the next step on the monitor is one of `_requirementMonitors` (`_step`, `_stop`) -/
def runRegistered (c : MonCfg) (R : Rule) (dr : List Nat) (f : F) (σ : Trace) (N : Nat) : Outcome :=
  if dr.contains (evalAt c σ 1 f 0) then .rejectedAt 0
  else
    match findFrom (fun t => R.stepReject.contains (evalAt c σ (t + 1) f 0)) 1 (N - 1) with
    | some t => .rejectedAt t
    | none => if R.stopReject.contains (evalAt c σ N f 0) then .rejectedAt (N - 1) else .accepted

/-- a `require` executed inside a running scenario (compose block): a non-temporal one is evaluated on the
    spot, a temporal one is handed to `_addDynamicRequirement` -/
def runDynamic (c : MonCfg) (R : Rule) (f : F) (σ : Trace) (N : Nat) : Outcome :=
  if f.prop then runImmediate R f σ
  else
    match R.dynReject with
    | some dr => runRegistered c R dr f σ N
    | none => .accepted

/-- what the property asks of the rule: reject a step on FALSE only (also in the step a requirement is registered
    at run time), reject at the stop on a falsy last verdict, reject a scene on FALSE only -/
def Rule.Canonical (R : Rule) : Prop :=
  R.stepReject = [1] ∧ R.stopReject = [1, 2] ∧ R.sceneReject = [1]

instance (R : Rule) : Decidable R.Canonical := by unfold Rule.Canonical; exact inferInstance

/-- … and of the run-time paths: a requirement registered at run time is tested like in every later step, and
    every non-temporal connective can be evaluated on the spot -/
def Rule.RuntimeCanonical (R : Rule) : Prop :=
  R.dynReject = some R.stepReject ∧ R.impliesEval = true

instance (R : Rule) : Decidable R.RuntimeCanonical := by unfold Rule.RuntimeCanonical; exact inferInstance

/-- traces that agree on the first `n` steps -/
def Agree (σ σ' : Trace) (n : Nat) : Prop := ∀ t, t < n → σ t = σ' t

/-- shift a trace so that absolute step `d` becomes relative step 0 (a requirement that takes effect in step `d`) -/
def shift (σ : Trace) (d : Nat) : Trace := fun t a => σ (t + d) a

/-- a finite table as a trace (`rows[t][a]`, false outside) -/
def ofRows (rows : List (List Bool)) : Trace := fun t a => ((rows[t]?).bind (·[a]?)).getD false

end Scenic.LTL
