/-!
# C05 — expressions over random values: value universe, Python semantics, Scenic's forest

Idealisations (stated in notes/design/C05.md):
* Python's `int`/`float`/`bool` are erased to exact rationals (`Val.num`): values are compared as with
  Python's `==`; an integral rational may be used where Python wants an `int` (index, repetition count).
* exceptions are identified (`none`); the property is about values.
* `Vector` coordinates are rationals; `v * w` / `v / w` with a non-number `w` is an error.

The file is Mathlib-free (it is linked into the driver executable).
-/
namespace Scenic.Expr

/-- sampled / ordinary Python values -/
inductive Val where
  | num (q : Rat)
  | none
  | str (s : String)
  | seq (isList : Bool) (xs : List Val)     -- tuple (`false`) or list (`true`)
  | vec (x y z : Rat)
  deriving Repr, BEq, Inhabited

inductive BinOp where
  | add | sub | mul | truediv | floordiv | mod | pow
  deriving Repr, DecidableEq, Inhabited

inductive UnOp where
  | neg | pos | abs
  deriving Repr, DecidableEq, Inhabited

/-- lifted functions (`distributionFunction`-wrapped) known to the model -/
inductive Fn where
  | max | min
  deriving Repr, DecidableEq, Inhabited

/-! ## Python semantics on values -/

def numBin : BinOp → Rat → Rat → Option Rat
  | .add, a, b => some (a + b)
  | .sub, a, b => some (a - b)
  | .mul, a, b => some (a * b)
  | .truediv, a, b => if b = 0 then none else some (a / b)
  | .floordiv, a, b => if b = 0 then none else some ((a / b).floor : Int)
  | .mod, a, b => if b = 0 then none else some (a - b * ((a / b).floor : Int))
  | .pow, a, b =>
    if b.den = 1 then
      (if 0 ≤ b.num then some (a ^ b.num.toNat)
       else if a = 0 then none else some ((1 / a) ^ (-b.num).toNat))
    else none      -- non-integral exponents are outside the model

def numUn : UnOp → Rat → Rat
  | .neg, a => -a
  | .pos, a => a
  | .abs, a => if a < 0 then -a else a

/-- an integral rational used as a Python `int` -/
def asIndex (q : Rat) : Option Int := if q.den = 1 then some q.num else none

def repeatList {α} (n : Int) (xs : List α) : List α := (List.replicate n.toNat xs).flatten

/-- `xs[i]` with Python's negative indices -/
def listIndex {α} (xs : List α) (i : Int) : Option α :=
  let n : Int := xs.length
  let j := if i < 0 then i + n else i
  if 0 ≤ j then xs[j.toNat]? else none

/-- first three coordinates of something a `Vector` method indexes with `other[0..2]` -/
def coords3 : Val → Option (Rat × Rat × Rat)
  | .vec x y z => some (x, y, z)
  | .seq _ (.num x :: .num y :: .num z :: _) => some (x, y, z)
  | _ => none

/-- `Vector.__op__(v, w)` / `Vector.__rop__(v, w)` on sampled values (`none` = raises / not defined) -/
def vecMethod (op : BinOp) (refl : Bool) (x y z : Rat) (w : Val) : Option Val :=
  match op, refl with
  | .add, _ => (coords3 w).map fun (a, b, c) => .vec (x + a) (y + b) (z + c)
  | .sub, false => (coords3 w).map fun (a, b, c) => .vec (x - a) (y - b) (z - c)
  | .sub, true => (coords3 w).map fun (a, b, c) => .vec (a - x) (b - y) (c - z)
  | .mul, _ => match w with
    | .num k => some (.vec (x * k) (y * k) (z * k))
    | _ => none
  | .truediv, false => match w with
    | .num k => if k = 0 then none else some (.vec (x / k) (y / k) (z / k))
    | _ => none
  | _, _ => none

/-- does `Vector` define `__op__` / `__rop__` -/
def vecHas (op : BinOp) (refl : Bool) : Bool :=
  match op, refl with
  | .add, _ | .sub, _ | .mul, _ | .truediv, false => true
  | _, _ => false

def allZero : List Val → Bool
  | [] => true
  | .num q :: rest => q == 0 && allZero rest
  | _ :: _ => false

/-- operators for which the zero vector is declared an identity (`zeroIdentityVectorOperator`); the generated
    table must agree with this (side condition `gen_vecops_expected`) -/
def vecZeroIdentity (op : BinOp) (refl : Bool) : Bool :=
  match op, refl with
  | .add, _ | .sub, false => true
  | _, _ => false

/-- `all(coord == 0 for coord in w)` for a Vector / tuple / list `w` -/
def isZeroOperand : Val → Bool
  | .vec a b c => a == 0 && b == 0 && c == 0
  | .seq _ xs => allZero xs
  | _ => false

/-- the *decorated* `Vector.__op__(v, w)` on non-random operands: the zero-identity shortcut, then the method -/
def vecCall (op : BinOp) (refl : Bool) (x y z : Rat) (w : Val) : Option Val :=
  if vecZeroIdentity op refl && isZeroOperand w then some (.vec x y z) else vecMethod op refl x y z w

/-- sequence (`tuple`/`list`/`str`) concatenation and repetition as Python's `+`/`*` define them -/
def seqBin (op : BinOp) (a b : Val) : Option Val :=
  match op, a, b with
  | .add, .seq k xs, .seq k' ys => if k = k' then some (.seq k (xs ++ ys)) else none
  | .add, .str s, .str t => some (.str (s ++ t))
  | .mul, .seq k xs, .num n => (asIndex n).map fun i => .seq k (repeatList i xs)
  | .mul, .num n, .seq k xs => (asIndex n).map fun i => .seq k (repeatList i xs)
  | .mul, .str s, .num n => (asIndex n).map fun i => .str (String.join (List.replicate i.toNat s))
  | .mul, .num n, .str s => (asIndex n).map fun i => .str (String.join (List.replicate i.toNat s))
  | _, _, _ => none

/-- **plain Python**: the value of `a op b` (`none` = an exception) -/
def pyBin (op : BinOp) (a b : Val) : Option Val :=
  match a, b with
  | .num p, .num q => (numBin op p q).map .num
  | .vec x y z, w => vecCall op false x y z w
  | w, .vec x y z => if vecHas op true then vecCall op true x y z w else none
  | a, b => seqBin op a b

def pyUn (op : UnOp) : Val → Option Val
  | .num q => some (.num (numUn op q))
  | _ => none

def pyGetitem : Val → Val → Option Val
  | .seq _ xs, .num q => (asIndex q).bind (listIndex xs)
  | .str s, .num q => (asIndex q).bind fun i => (listIndex s.toList i).map fun c => .str (String.singleton c)
  | .vec x y z, .num q => (asIndex q).bind fun i => (listIndex [x, y, z] i).map .num
  | _, _ => none

def pyLen : Val → Option Val
  | .seq _ xs => some (.num (xs.length : Int))
  | .str s => some (.num (s.length : Int))
  | .vec _ _ _ => some (.num 3)
  | _ => none

def pyAttr (name : String) : Val → Option Val
  | .vec x y z => if name = "x" then some (.num x) else if name = "y" then some (.num y)
                  else if name = "z" then some (.num z) else none
  | _ => none

/-- what `*v` unpacks to -/
def iterVals : Val → Option (List Val)
  | .seq _ xs => some xs
  | .vec x y z => some [.num x, .num y, .num z]
  | .str s => some (s.toList.map fun c => .str (String.singleton c))
  | _ => none

def allNums : List Val → Option (List Rat)
  | [] => some []
  | .num q :: rest => (allNums rest).map (q :: ·)
  | _ :: _ => none

def ratMax (a b : Rat) : Rat := if a < b then b else a     -- Python's max keeps the first of equals
def ratMin (a b : Rat) : Rat := if b < a then b else a

def foldNums (f : Rat → Rat → Rat) : List Rat → Option Rat
  | [] => none
  | q :: rest => some (rest.foldl f q)

/-- `max(*args)` / `min(*args)` on numbers; a single iterable argument is iterated -/
def fnApply (f : Fn) (args : List Val) : Option Val :=
  let items : Option (List Val) := match args with
    | [single] => (match single with
        | .num _ => none            -- max(3) : 'int' object is not iterable
        | v => iterVals v)
    | _ => some args
  items.bind fun xs => (allNums xs).bind fun qs =>
    (foldNums (match f with | .max => ratMax | .min => ratMin) qs).map .num

/-! ## `getattr(v, "__op__")(w)`: what `VectorOperatorDistribution.sampleGiven` calls
(`OperatorDistribution.sampleGiven` applies `operator.add` & co. to the sampled operands, i.e. `pyBin`) -/

inductive Call where
  | noAttr            -- `getattr` raises AttributeError
  | notImpl           -- the method returns `NotImplemented`
  | ret (v : Val)
  | raise
  deriving Repr, BEq, Inhabited

/-- does a value of this kind have the attribute `__op__` (`refl = false`) / `__rop__` (`refl = true`) -/
def hasDunder (v : Val) (op : BinOp) (refl : Bool) : Bool :=
  match v with
  | .num _ => true
  | .none => false
  | .str _ => (match op, refl with | .add, false | .mul, _ | .mod, _ => true | _, _ => false)
  | .seq _ _ => (match op, refl with | .add, false | .mul, _ => true | _, _ => false)
  | .vec _ _ _ => vecHas op refl

def ofOpt : Option Val → Call
  | some v => .ret v
  | none => .raise

/-- the result of `getattr(v, name)(w)` -/
def dunder (op : BinOp) (refl : Bool) (v w : Val) : Call :=
  if !hasDunder v op refl then .noAttr else
  match v, w with
  | .num p, .num q => ofOpt ((if refl then numBin op q p else numBin op p q).map .num)
  | .num _, _ => .notImpl
  | .vec x y z, w => ofOpt (vecCall op refl x y z w)
  | .str _, w => (match op, w with
      | .mod, .str _ => .raise              -- (string formatting is outside the model)
      | .mod, _ => if refl then .notImpl else .raise
      | op, w => ofOpt (if refl then seqBin op w v else seqBin op v w))
  | v, w => ofOpt (if refl then seqBin op w v else seqBin op v w)

/-- `getattr(first, "__op__")(rest)` without any fallback: `VectorOperatorDistribution.sampleGiven` -/
def callDunder (op : BinOp) (refl : Bool) (first rest : Val) : Option Val :=
  match dunder op refl first rest with
  | .ret v => some v
  | _ => none

/-! ## Expressions, static value types, the forest -/

/-- what Scenic records as `_valueType`, as far as the simplifications test it -/
inductive STy where
  | number | vector | other
  deriving Repr, DecidableEq, Inhabited

mutual
  inductive Expr where
    | const (v : Val)
    | leaf (i : Nat) (ty : STy)                 -- a primitive distribution (Range, DiscreteRange, Options, ...)
    | bin (op : BinOp) (l r : Expr)
    | un (op : UnOp) (e : Expr)
    | getitem (e i : Expr)
    | len (e : Expr)
    | attr (e : Expr) (name : String)
    | mkseq (isList : Bool) (es : List Expr)    -- tuple / list literal
    | mkvec (x y z : Expr)                      -- Vector(x, y, z)
    | call (f : Fn) (args : List Arg)
  inductive Arg where
    | pos (e : Expr)
    | star (e : Expr)
end

/-- an entry of the identity-simplification table: `X op c → X` when `X._valueType` is a number type and `arg == c` -/
structure SimpEntry where
  op : BinOp
  refl : Bool
  const : Int
  deriving Repr, DecidableEq

/-- data regenerated from `/repo` (see `Gen/ExprTables.lean`) -/
structure Tables where
  simp : List SimpEntry                  -- makeOperatorHandler, numbers
  vecOps : List (BinOp × Bool × Bool)    -- (op, reflected, zeroIdentity) installed on VectorDistribution
  pythonDispatch : Bool                  -- sampleGiven applies operator.add & co. to the sampled operands
  vecHandlerAcceptsSeq : Bool            -- the zero test of makeVectorOperatorHandler iterates tuples/lists too
  vecOpsWrapOperands : Bool              -- the vector operators wrap their operands with toDistribution
  deriving Repr

/-- the identities that are sound on numbers: `x + 0`, `0 + x`, `x - 0`, `x * 1`, `1 * x`, `x / 1`, `x ** 1` -/
def entryOK (e : SimpEntry) : Bool :=
  match e.op, e.refl, e.const with
  | .add, _, 0 => true
  | .sub, false, 0 => true
  | .mul, _, 1 => true
  | .truediv, false, 1 => true
  | .pow, false, 1 => true
  | _, _, _ => false

/-- well-formedness of the generated tables (re-decided on the regenerated data on every run): every identity
    simplification is one of the sound ones, the vector operators carry the zero-identity flags the model of
    `Vector.__add__` & co. assumes, and the three code shapes the model below is a model of are in place
    (`OperatorDistribution.sampleGiven` uses Python's own dispatch; the zero test of the VectorDistribution handler
    accepts tuples/lists; the vector operators wrap their operands with `toDistribution`).  When one of the
    three flags is false the code is not the code modelled here and the theorems say nothing about it. -/
def Tables.WF (T : Tables) : Bool :=
  T.simp.all entryOK &&
  (T.vecOps.all fun e => e.2.2 == vecZeroIdentity e.1 e.2.1 && vecHas e.1 e.2.1) &&
  T.pythonDispatch && T.vecHandlerAcceptsSeq && T.vecOpsWrapOperands

/-- the objects Scenic's compile-time evaluation manipulates -/
inductive Node where
  | const (v : Val)                                  -- an ordinary Python value
  | leaf (i : Nat) (ty : STy)
  | opd2 (op : BinOp) (refl : Bool) (obj arg : Node)              -- OperatorDistribution (binary dunder)
  | opd1 (op : UnOp) (obj : Node)                                 -- OperatorDistribution (unary dunder)
  | geti (obj idx : Node)                                         -- OperatorDistribution('__getitem__')
  | lend (obj : Node)                                             -- OperatorDistribution('__len__')
  | attrd (name : String) (obj : Node)                            -- AttributeDistribution
  | vop (op : BinOp) (refl : Bool) (obj arg : Node)               -- VectorOperatorDistribution
  | vmeth (op : BinOp) (refl : Bool) (x y z : Rat) (arg : Node)   -- VectorMethodDistribution on a constant Vector
  | vecOf (x y z : Node)                                          -- a Vector with random coordinates (Samplable)
  | tupd (isList : Bool) (xs : List Node)                         -- TupleDistribution
  | rawt (isList : Bool) (xs : List Node)                         -- a plain tuple/list containing random values
  | fnd (f : Fn) (args : List Node) (starred : List Bool)         -- FunctionDistribution; `starred[i]`: args[i] is wrapped
                                                                  -- in a StarredDistribution
  | fail                                                          -- Python raised while building
  deriving Repr, Inhabited

/-- `OperatorDistribution.inferType` for a binary operator, as far as modelled -/
def inferBin (op : BinOp) (refl : Bool) (objTy argTy : STy) : STy :=
  match objTy, argTy with
  | .number, .number => .number
  | .vector, _ => if vecHas op refl then .vector else .other     -- return annotations of Vector's methods
  | _, _ => .other

/-- `inferType` for `__getitem__`: only the scalar rule applies to the types modelled -/
def inferGetitem (objTy idxTy : STy) : STy :=
  match objTy, idxTy with
  | .number, .number => .number
  | _, _ => .other

def inferUn (objTy : STy) : STy :=
  match objTy with
  | .number => .number
  | _ => .other

def isXYZ (name : String) : Bool := name == "x" || name == "y" || name == "z"

namespace Node

/-- `isinstance(n, Distribution)` -/
def isDist : Node → Bool
  | .leaf .. | .opd2 .. | .opd1 .. | .geti .. | .lend .. | .attrd .. | .vop .. | .vmeth .. | .tupd .. | .fnd .. => true
  | _ => false

/-- `isinstance(n, VectorDistribution)` -/
def isVecDist : Node → Bool
  | .vop .. | .vmeth .. => true
  | _ => false

/-- `isLazy(n)` = `needsSampling(n)` here (no delayed arguments in this model) -/
def isLazy : Node → Bool
  | .vecOf .. => true          -- only built with at least one random coordinate
  | n => n.isDist

/-- `_valueType` (`type(v)` for constants) as far as modelled: what the node was given when it was constructed.
    (A VectorOperatorDistribution is only ever built on a vector-typed object; for other `vop` nodes,
    which `build` never produces, the type is reported as unknown.) -/
def vty : Node → STy
  | .const (.num _) => .number
  | .const (.vec ..) => .vector
  | .leaf _ ty => ty
  | .opd2 op refl obj arg => inferBin op refl obj.vty arg.vty
  | .opd1 _ obj => inferUn obj.vty
  | .lend _ => .number
  | .geti obj idx => inferGetitem obj.vty idx.vty
  | .attrd name obj => if obj.vty == .vector && isXYZ name then .number else .other
  | .vop _ _ obj _ => if obj.vty == .vector then .vector else .other
  | .vmeth .. | .vecOf .. => .vector
  | _ => .other

def isRaw : Node → Bool
  | .rawt .. => true
  | _ => false

def isFail : Node → Bool
  | .fail => true
  | _ => false

def isConst : Node → Bool
  | .const _ => true
  | _ => false

end Node

mutual
  /-- `toDistribution` -/
  def toDist : Node → Node
    | .rawt k xs => .tupd k (toDistList xs)
    | n => n
  def toDistList : List Node → List Node
    | [] => []
    | x :: rest => toDist x :: toDistList rest
end

/-- the guard of an identity simplification in `makeOperatorHandler`:
    `not isLazy(arg) and issubclass(self._valueType, numbers.Number) and arg == c` -/
def simplifies (T : Tables) (op : BinOp) (refl : Bool) (self arg : Node) : Bool :=
  match arg with
  | .const (.num c) => self.vty == .number &&
      T.simp.any fun e => e.op == op && e.refl == refl && ((e.const : Rat) == c)
  | _ => false

/-- `Distribution.__op__` / `__rop__` (makeOperatorHandler) -/
def handler (T : Tables) (op : BinOp) (refl : Bool) (self arg : Node) : Node :=
  if simplifies T op refl self arg then self else .opd2 op refl self (toDist arg)

def vecOpsLookup (T : Tables) (op : BinOp) (refl : Bool) : Option Bool :=
  (T.vecOps.find? (fun e => e.1 == op && e.2.1 == refl)).map (·.2.2)

/-- `VectorDistribution.__op__` (makeVectorOperatorHandler), for the operators in `T.vecOps`;
    other operators fall back to `handler` -/
def vhandlerCore (op : BinOp) (refl : Bool) (zeroIdentity : Bool) (self arg : Node) : Node :=
  if zeroIdentity && !arg.isLazy then
    match arg with
    | .const v =>
      -- `isinstance(args[0], (Vector, tuple, list, numpy.ndarray)) and all(coord == 0 for coord in args[0])`
      if isZeroOperand v then self else .vop op refl self arg
    | _ => .fail                       -- (only a failed operand is neither lazy nor a constant here)
  else .vop op refl self arg

def vhandler (T : Tables) (op : BinOp) (refl : Bool) (self arg : Node) : Node :=
  match vecOpsLookup T op refl with
  | none => handler T op refl self arg
  | some zeroIdentity =>
    -- `args = tuple(toDistribution(arg) for arg in args)`: raw tuples/lists become TupleDistributions
    vhandlerCore op refl zeroIdentity self (toDist arg)

/-- the `vectorOperator` helper after its operand has been wrapped with `toDistribution` -/
def vecApply (T : Tables) (op : BinOp) (refl : Bool) (self arg : Node) : Node :=
  if arg.isLazy then
    match self with
    | .const (.vec x y z) => .vmeth op refl x y z arg
    | _ => .vop op refl self arg
  else
    match arg with
    | .const v =>
      if vecOpsLookup T op refl == some true && isZeroOperand v then self else .vop op refl self arg
    | _ => .fail        -- (only a failed operand is neither lazy nor a constant here)

/-- `Vector.__op__(self, arg)` (`refl`: `Vector.__rop__`) where `self` is a (possibly random-coordinate) Vector:
    the `vectorOperator` helper -/
def vecHelperCore (T : Tables) (op : BinOp) (refl : Bool) (self arg : Node) : Node :=
  if !vecHas op refl then
    -- Vector does not define the method: Python falls back to the other operand's reflected method
    (if arg.isDist && !refl then (if arg.isVecDist then vhandler T op true arg self else handler T op true arg self)
     else .fail)
  else
  -- `args = tuple(toDistribution(arg) for arg in args)`: raw tuples/lists become TupleDistributions
  vecApply T op refl self (toDist arg)

/-- `Vector.__rmul__` is the undecorated `return self.__mul__(other)` -/
def vecHelper (T : Tables) (op : BinOp) (refl : Bool) (self arg : Node) : Node :=
  vecHelperCore T op (if op == .mul then false else refl) self arg

def mkVec : Val → Val → Val → Option Val
  | .num a, .num b, .num c => some (.vec a b c)
  | _, _, _ => none

def optNode : Option Val → Node
  | some v => .const v
  | none => .fail

/-- the repetition `xs * n` of a raw tuple/list, done by Python while compiling -/
def rawRepeat (k : Bool) (xs : List Node) (n : Rat) : Node :=
  match asIndex n with
  | some i => if i ≤ 0 then .const (.seq k []) else .rawt k (repeatList i xs)
  | none => .fail

/-- `c op r` where `c` is a constant that is not a Vector and `r` is not a constant: Python tries `type(c).__op__`,
    which does not know `r`, then `r.__rop__(c)` -/
def constLeft (T : Tables) (op : BinOp) (c : Val) (l r : Node) : Node :=
  if r.isVecDist then vhandler T op true r l
  else if r.isDist then handler T op true r l
  else match r with
    | .vecOf .. => vecHelper T op true r l
    | .rawt k ys => (match c with
        | .seq k' xs => if op == .add && k == k' then .rawt k (xs.map .const ++ ys) else .fail
        | .num n => if op == .mul then rawRepeat k ys n else .fail
        | _ => .fail)
    | _ => .fail

/-- `l op r` where `l` is the raw tuple/list `xs` (a plain Python container holding random values): concatenation
    and repetition are done by Python itself; otherwise `tuple.__op__` does not know `r` and Python tries
    `r.__rop__(l)` -/
def rawLeft (T : Tables) (op : BinOp) (k : Bool) (xs : List Node) (l r : Node) : Node :=
  if r.isVecDist then vhandler T op true r l
  else if r.isDist then handler T op true r l
  else match r with
    | .vecOf .. => vecHelper T op true r l
    | .const (.vec ..) => vecHelper T op true r l
    | .rawt k' ys => if op == .add && k == k' then .rawt k (xs ++ ys) else .fail
    | .const (.seq k' ys) => if op == .add && k == k' then .rawt k (xs ++ ys.map .const) else .fail
    | .const (.num n) => if op == .mul then rawRepeat k xs n else .fail
    | _ => .fail

/-- `l op r` where not both operands are constants and neither failed -/
def binGen (T : Tables) (op : BinOp) (l r : Node) : Node :=
  if l.isVecDist then vhandler T op false l r
  else if l.isDist then
    -- a VectorDistribution on the right is a Distribution too: no subclass priority applies
    handler T op false l r
  else match l with
    | .vecOf .. => vecHelper T op false l r
    | .const (.vec ..) => vecHelper T op false l r
    | .const (.str s) =>
      -- str.__mod__ succeeds on any object (formats it): outside the model
      if op == .mod then .fail else constLeft T op (.str s) l r
    | .const c => constLeft T op c l r
    | .rawt k xs => rawLeft T op k xs l r
    | _ => .fail

/-- Python evaluating `l op r` at compile time, where `l`, `r` are the already-built operands -/
def binBuild (T : Tables) (op : BinOp) (l r : Node) : Node :=
  match l, r with
  | .fail, _ => .fail
  | _, .fail => .fail
  | .const a, .const b => optNode (pyBin op a b)
  | l, r => binGen T op l r

def unBuild (op : UnOp) (n : Node) : Node :=
  match n with
  | .fail => .fail
  | .const v => optNode (pyUn op v)
  | n => if n.isDist then .opd1 op n else .fail     -- Vector / tuple have no __neg__ etc.

def constIndex : Node → Option Int
  | .const (.num q) => asIndex q
  | _ => none

def getitemBuild (obj idx : Node) : Node :=
  match obj, idx with
  | .fail, _ => .fail
  | _, .fail => .fail
  | .const a, .const b => optNode (pyGetitem a b)
  | obj, idx =>
    if obj.isDist then .geti obj (toDist idx)
    else match obj with
      | .rawt _ xs => (match constIndex idx with
          | some i => (listIndex xs i).getD .fail
          | none => .fail)                      -- tuple indices must be integers, not Distribution
      | .vecOf x y z => (match constIndex idx with
          | some i => (listIndex [x, y, z] i).getD .fail
          | none => .fail)
      | _ => .fail                              -- a constant container indexed by a random value

def lenBuild (n : Node) : Node :=
  match n with
  | .fail => .fail
  | .const v => optNode (pyLen v)
  | .rawt _ xs => .const (.num (xs.length : Int))
  | .vecOf .. => .const (.num 3)
  | n => if n.isDist then .lend n else .fail

def attrBuild (name : String) (n : Node) : Node :=
  match n with
  | .fail => .fail
  | .const v => optNode (pyAttr name v)
  | .vecOf x y z => if name = "x" then x else if name = "y" then y else if name = "z" then z else .fail
  | n => if n.isDist then .attrd name n else .fail

def anyFail : List Node → Bool
  | [] => false
  | .fail :: _ => true
  | _ :: rest => anyFail rest

def allConst : List Node → Option (List Val)
  | [] => some []
  | .const v :: rest => (allConst rest).map (v :: ·)
  | _ :: _ => none

def seqBuild (k : Bool) (ns : List Node) : Node :=
  if anyFail ns then .fail else
  match allConst ns with
  | some vs => .const (.seq k vs)
  | none => .rawt k ns

def vecBuild (x y z : Node) : Node :=
  match x, y, z with
  | .fail, _, _ => .fail
  | _, .fail, _ => .fail
  | _, _, .fail => .fail
  | .const a, .const b, .const c => optNode (mkVec a b c)     -- Vectors of non-numbers are outside the model
  | x, y, z => .vecOf x y z

/-- `wrapStarredValue` followed by Python's `*` unpacking in the call: the actual arguments, each with the flag
    "is a StarredDistribution" -/
def starBuild (n : Node) : Option (List Node × List Bool) :=
  match n with
  | .fail => none
  | .const v => (iterVals v).map fun xs => (xs.map .const, xs.map fun _ => false)
  | .rawt _ xs => some (xs, xs.map fun _ => false)
  | .tupd _ xs => some (xs, xs.map fun _ => false)
  | .vecOf .. => none              -- "iterable unpacking cannot be applied to Vector"
  | n => if n.isDist then some ([n], [true]) else none

/-- the `distributionFunction` helper -/
def callBuild (f : Fn) (args : Option (List Node × List Bool)) : Node :=
  match args with
  | none => .fail
  | some (ns, ss) =>
    if anyFail ns then .fail else
    let ds := toDistList ns
    if ss.any id then .fnd f ds ss else
    match allConst ds with
    | some vs => optNode (fnApply f vs)
    | none => .fnd f ds ss

mutual
  /-- what Scenic's compile-time evaluation of the expression produces -/
  def build (T : Tables) : Expr → Node
    | .const v => .const v
    | .leaf i ty => .leaf i ty
    | .bin op l r => binBuild T op (build T l) (build T r)
    | .un op e => unBuild op (build T e)
    | .getitem e i => getitemBuild (build T e) (build T i)
    | .len e => lenBuild (build T e)
    | .attr e name => attrBuild name (build T e)
    | .mkseq k es => seqBuild k (buildList T es)
    | .mkvec x y z => vecBuild (build T x) (build T y) (build T z)
    | .call f args => callBuild f (buildArgs T args)
  def buildList (T : Tables) : List Expr → List Node
    | [] => []
    | e :: rest => build T e :: buildList T rest
  def buildArgs (T : Tables) : List Arg → Option (List Node × List Bool)
    | [] => some ([], [])
    | .pos e :: rest => (buildArgs T rest).map fun (ns, ss) => (build T e :: ns, false :: ss)
    | .star e :: rest =>
      (starBuild (build T e)).bind fun (xs, fs) => (buildArgs T rest).map fun (ns, ss) => (xs ++ ns, fs ++ ss)
end

/-! ## Evaluation -/

abbrev Env := Nat → Val

/-- a primitive distribution only produces values of its declared `_valueType` (assumption on the leaves) -/
def leafOK (v : Val) : STy → Bool
  | .number => (match v with | .num _ => true | _ => false)
  | .vector => (match v with | .vec .. => true | _ => false)
  | .other => true

def leafVal (env : Env) (i : Nat) (ty : STy) : Option Val :=
  if leafOK (env i) ty then some (env i) else none

mutual
  /-- sampling the forest: `sampleGiven` of every node, given the values of the leaves -/
  def evalNode (T : Tables) (env : Env) : Node → Option Val
    | .const v => some v
    | .leaf i ty => leafVal env i ty
    | .opd2 op refl obj arg =>
      (evalNode T env obj).bind fun a => (evalNode T env arg).bind fun b =>
        -- `binaryOperatorFunctions[self.symbol]` applied to the sampled operands (swapped for `__rop__` nodes)
        if refl then pyBin op b a else pyBin op a b
    | .opd1 op obj => (evalNode T env obj).bind (pyUn op)
    | .geti obj idx => (evalNode T env obj).bind fun a => (evalNode T env idx).bind fun b => pyGetitem a b
    | .lend obj => (evalNode T env obj).bind pyLen
    | .attrd name obj => (evalNode T env obj).bind (pyAttr name)
    | .vop op refl obj arg =>
      (evalNode T env obj).bind fun a => (evalNode T env arg).bind fun b =>
        callDunder op refl a b
    | .vmeth op refl x y z arg => (evalNode T env arg).bind fun b => vecMethod op refl x y z b
    | .vecOf x y z =>
      (evalNode T env x).bind fun a => (evalNode T env y).bind fun b => (evalNode T env z).bind fun c => mkVec a b c
    | .tupd k xs => (evalNodes T env xs).map (.seq k)
    | .rawt k xs => (evalNodes T env xs).map (.seq k)
    | .fnd f args starred => (evalArgs T env args starred).bind (fnApply f)
    | .fail => none
  def evalNodes (T : Tables) (env : Env) : List Node → Option (List Val)
    | [] => some []
    | n :: rest => (evalNode T env n).bind fun v => (evalNodes T env rest).map (v :: ·)
  /-- arguments of a FunctionDistribution: starred ones are extended -/
  def evalArgs (T : Tables) (env : Env) : List Node → List Bool → Option (List Val)
    | [], _ => some []
    | n :: rest, true :: ss =>
      (evalNode T env n).bind fun v => (iterVals v).bind fun xs => (evalArgs T env rest ss).map (xs ++ ·)
    | n :: rest, _ :: ss => (evalNode T env n).bind fun v => (evalArgs T env rest ss).map (v :: ·)
    | n :: rest, [] => (evalNode T env n).bind fun v => (evalArgs T env rest []).map (v :: ·)
end

mutual
  /-- **ordinary Python** on the sampled leaves -/
  def evalPy (env : Env) : Expr → Option Val
    | .const v => some v
    | .leaf i ty => leafVal env i ty
    | .bin op l r => (evalPy env l).bind fun a => (evalPy env r).bind fun b => pyBin op a b
    | .un op e => (evalPy env e).bind (pyUn op)
    | .getitem e i => (evalPy env e).bind fun a => (evalPy env i).bind fun b => pyGetitem a b
    | .len e => (evalPy env e).bind pyLen
    | .attr e name => (evalPy env e).bind (pyAttr name)
    | .mkseq k es => (evalPyList env es).map (.seq k)
    | .mkvec x y z =>
      (evalPy env x).bind fun a => (evalPy env y).bind fun b => (evalPy env z).bind fun c => mkVec a b c
    | .call f args => (evalPyArgs env args).bind (fnApply f)
  def evalPyList (env : Env) : List Expr → Option (List Val)
    | [] => some []
    | e :: rest => (evalPy env e).bind fun v => (evalPyList env rest).map (v :: ·)
  def evalPyArgs (env : Env) : List Arg → Option (List Val)
    | [] => some []
    | .pos e :: rest => (evalPy env e).bind fun v => (evalPyArgs env rest).map (v :: ·)
    | .star e :: rest => (evalPy env e).bind fun v => (iterVals v).bind fun xs => (evalPyArgs env rest).map (xs ++ ·)
end

end Scenic.Expr
