/-
Model of the point-set layer of `scenic.core.regions` (C16) — core Lean only, executable, exact over `Rat`.

Two layers are kept apart on purpose:

* the **specification**: `Reg.mem R p`, the 3-coordinate membership of a point in a region
  (planar regions live at their height `z`, polylines at `z = 0`, footprints ignore `z`);
* the **code model**: what the library's methods compute (`containsPoint`, `_trueContainsPoint`,
  `distanceTo`, `AABB`, `projectVector`, `containsRegion`), parametric in `Flags` — the facts that
  `tools/translate/regionops.py` extracts from the current source (which `z` is compared / passed,
  whether `axis=1` is given, ...).  `Props/C16*.lean` prove that the code model agrees with the
  specification when the flags have the values the property needs, and give concrete counterexamples
  for the other values.

Shapes are the primitives the correspondence generator can build exactly (dyadic rationals are exact
as floats): simple polygons, discs, polylines, 3-D paths, finite point sets, oriented boxes.
Results of Shapely / trimesh boolean operations are represented by their *ideal* point sets
(closures `V2 → Bool`, `Pt → Bool`); that these libraries compute them is a stated assumption which
the correspondence run checks through probe points.
-/
namespace Scenic.Region

structure V2 where
  x : Rat
  y : Rat
deriving DecidableEq, Repr

structure Pt where
  x : Rat
  y : Rat
  z : Rat
deriving DecidableEq, Repr

def Pt.xy (p : Pt) : V2 := ⟨p.x, p.y⟩
def V2.at (q : V2) (z : Rat) : Pt := ⟨q.x, q.y, z⟩

def sq (a : Rat) : Rat := a * a
def absR (a : Rat) : Rat := if a < 0 then -a else a
def maxR (a b : Rat) : Rat := if a ≤ b then b else a
def minR (a b : Rat) : Rat := if a ≤ b then a else b

def V2.dsq (a b : V2) : Rat := sq (a.x - b.x) + sq (a.y - b.y)
def Pt.dsq (a b : Pt) : Rat := sq (a.x - b.x) + sq (a.y - b.y) + sq (a.z - b.z)
def Pt.sub (a b : Pt) : Pt := ⟨a.x - b.x, a.y - b.y, a.z - b.z⟩
def Pt.add (a b : Pt) : Pt := ⟨a.x + b.x, a.y + b.y, a.z + b.z⟩
def Pt.smul (t : Rat) (a : Pt) : Pt := ⟨t * a.x, t * a.y, t * a.z⟩
def Pt.dot (a b : Pt) : Rat := a.x * b.x + a.y * b.y + a.z * b.z

/-! ## planar primitives -/

/-- does the edge `a b` cross the horizontal ray from `q` towards `+x`?  (division free) -/
def crosses (q a b : V2) : Bool :=
  if decide (a.y ≤ q.y) == decide (b.y ≤ q.y) then false
  else
    let lhs := (q.x - a.x) * (b.y - a.y)
    let rhs := (q.y - a.y) * (b.x - a.x)
    if a.y < b.y then decide (lhs < rhs) else decide (rhs < lhs)

/-- consecutive vertex pairs of a closed ring -/
def ringEdges : List V2 → List (V2 × V2)
  | [] => []
  | v :: rest => (v :: rest).zip (rest ++ [v])

/-- `q` lies on the closed segment `a b`: `q - a` is parallel to `b - a`, points the same way and is
    not longer (for `a = b` this forces `q = a`) -/
def onSeg2 (q a b : V2) : Bool :=
  let cr := (b.x - a.x) * (q.y - a.y) - (b.y - a.y) * (q.x - a.x)
  let dt := (q.x - a.x) * (b.x - a.x) + (q.y - a.y) * (b.y - a.y)
  decide (cr = 0) && decide (0 ≤ dt) && decide (V2.dsq q a ≤ V2.dsq a b)

/-- even–odd rule -/
def polyInterior (vs : List V2) (q : V2) : Bool :=
  ((ringEdges vs).filter (fun e => crosses q e.1 e.2)).length % 2 == 1

def polyBoundary (vs : List V2) (q : V2) : Bool :=
  (ringEdges vs).any (fun e => onSeg2 q e.1 e.2)

/-- closed polygon (Shapely's `intersects_xy` is closed) -/
def polyMem (vs : List V2) (q : V2) : Bool := polyInterior vs q || polyBoundary vs q

/-- squared distance from `q` to the closed segment `a b` (for `a = b`: to the point) -/
def segDistSq2 (q a b : V2) : Rat :=
  let l := V2.dsq a b
  let dt := (q.x - a.x) * (b.x - a.x) + (q.y - a.y) * (b.y - a.y)
  if l = 0 then V2.dsq q a
  else if dt ≤ 0 then V2.dsq q a
  else if l ≤ dt then V2.dsq q b
  else V2.dsq q a - dt * dt / l

def listMin : List Rat → Option Rat
  | [] => none
  | a :: rest => match listMin rest with
    | none => some a
    | some m => some (minR a m)

/-- squared distance to a closed polygon: 0 inside, otherwise the nearest edge -/
def polyDistSq (vs : List V2) (q : V2) : Rat :=
  if polyMem vs q then 0
  else ((listMin ((ringEdges vs).map (fun e => segDistSq2 q e.1 e.2))).getD 0)

inductive Shape2
  | poly (vs : List V2)
  | disc (c : V2) (r : Rat)
deriving Repr

def Shape2.mem : Shape2 → V2 → Bool
  | .poly vs, q => polyMem vs q
  | .disc c r, q => decide (V2.dsq q c ≤ sq r)

/-- consecutive pairs of an open chain -/
def chainSegs : List V2 → List (V2 × V2)
  | [] => []
  | v :: rest => (v :: rest).zip rest

def onChain (c : List V2) (q : V2) : Bool := (chainSegs c).any (fun e => onSeg2 q e.1 e.2)

/-! ## spatial primitives -/

/-- `q` lies on the closed 3-D segment `a b` -/
def onSeg3 (q a b : Pt) : Bool :=
  let u := b.sub a
  let w := q.sub a
  let cx := u.y * w.z - u.z * w.y
  let cy := u.z * w.x - u.x * w.z
  let cz := u.x * w.y - u.y * w.x
  let dt := w.dot u
  decide (cx = 0) && decide (cy = 0) && decide (cz = 0) && decide (0 ≤ dt) && decide (Pt.dsq q a ≤ u.dot u)

def segDistSq3 (q a b : Pt) : Rat :=
  let u := b.sub a
  let l := u.dot u
  let dt := (q.sub a).dot u
  if l = 0 then Pt.dsq q a
  else if dt ≤ 0 then Pt.dsq q a
  else if l ≤ dt then Pt.dsq q b
  else Pt.dsq q a - dt * dt / l

def chainSegs3 : List Pt → List (Pt × Pt)
  | [] => []
  | v :: rest => (v :: rest).zip rest

def onPath (c : List Pt) (q : Pt) : Bool := (chainSegs3 c).any (fun e => onSeg3 q e.1 e.2)

/-- an oriented box: centre, half extents, and the world directions `u v w` of its local axes
    (columns of a rational rotation matrix) -/
structure Box where
  c : Pt
  h : Pt
  u : Pt
  v : Pt
  w : Pt
deriving Repr

def Box.local (b : Box) (p : Pt) : Pt :=
  let d := p.sub b.c
  ⟨b.u.dot d, b.v.dot d, b.w.dot d⟩

def Box.mem (b : Box) (p : Pt) : Bool :=
  let l := b.local p
  decide (absR l.x ≤ b.h.x) && decide (absR l.y ≤ b.h.y) && decide (absR l.z ≤ b.h.z)

/-- on the surface of the box -/
def Box.onSurface (b : Box) (p : Pt) : Bool :=
  let l := b.local p
  b.mem p && (decide (absR l.x = b.h.x) || decide (absR l.y = b.h.y) || decide (absR l.z = b.h.z))

/-- vertical extent of the box (`mesh.bounds[:, 2]`) -/
def Box.zHalf (b : Box) : Rat := absR b.u.z * b.h.x + absR b.v.z * b.h.y + absR b.w.z * b.h.z
def Box.xHalf (b : Box) : Rat := absR b.u.x * b.h.x + absR b.v.x * b.h.y + absR b.w.x * b.h.z
def Box.yHalf (b : Box) : Rat := absR b.u.y * b.h.x + absR b.v.y * b.h.y + absR b.w.y * b.h.z

/-- an axis-aligned box -/
def Box.aligned (c h : Pt) : Box := ⟨c, h, ⟨1, 0, 0⟩, ⟨0, 1, 0⟩, ⟨0, 0, 1⟩⟩

/-! ## regions -/

/-- region kinds as far as the double dispatch distinguishes them -/
inductive Kind
  | all | empty | poly | disc | foot | line | path | pts | vol | surf | comp
deriving DecidableEq, Repr

def Kind.list : List Kind :=
  [.all, .empty, .poly, .disc, .foot, .line, .path, .pts, .vol, .surf, .comp]

/-- Python class hierarchy restricted to the modelled kinds (`CircularRegion ⊂ PolygonalRegion`) -/
def Kind.parent : Kind → Option Kind
  | .disc => some .poly
  | _ => none

/-- `isinstance(x, K)` for `x` of kind `k` (`K` itself or the parent class of `k`) -/
def Kind.isa (k K : Kind) : Bool :=
  match k, K with
  | .disc, .poly => true
  | .all, .all | .empty, .empty | .poly, .poly | .disc, .disc | .foot, .foot | .line, .line
  | .path, .path | .pts, .pts | .vol, .vol | .surf, .surf | .comp, .comp => true
  | _, _ => false

inductive Reg
  | all
  | empty
  /-- `PolygonalRegion` / `RectangularRegion` / `SectorRegion` at height `z` -/
  | planar (z : Rat) (s : Shape2)
  /-- `CircularRegion` -/
  | disc (z : Rat) (c : V2) (r : Rat)
  /-- `PolygonalFootprintRegion` -/
  | foot (s : Shape2)
  /-- `PolylineRegion` (always at height 0) -/
  | line (c : List V2)
  /-- `PathRegion` -/
  | path (c : List Pt)
  /-- `PointSetRegion` -/
  | pts (ps : List Pt)
  /-- `MeshVolumeRegion` (boxes) -/
  | vol (b : Box)
  /-- `MeshSurfaceRegion` (surface of a box) -/
  | surf (b : Box)
  /-- an operand whose parameters were random (`isLazy`) -/
  | lzy (r : Reg)
  /-- `IntersectionRegion`, `UnionRegion`, `DifferenceRegion` -/
  | inter (a b : Reg)
  | union (a b : Reg)
  | diff (a b : Reg)
deriving Repr

def Reg.kind : Reg → Kind
  | .all => .all
  | .empty => .empty
  | .planar .. => .poly
  | .disc .. => .disc
  | .foot .. => .foot
  | .line .. => .line
  | .path .. => .path
  | .pts .. => .pts
  | .vol .. => .vol
  | .surf .. => .surf
  | .lzy r => r.kind
  | .inter .. => .comp
  | .union .. => .comp
  | .diff .. => .comp

def Reg.isLazy : Reg → Bool
  | .lzy _ => true
  | _ => false

/-- the planar point set of a region that `toPolygon` accepts (`polygons` / `lineString`) -/
def Reg.shape2 : Reg → Option (V2 → Bool)
  | .planar _ s => some s.mem
  | .disc _ c r => some (Shape2.disc c r).mem
  | .foot s => some s.mem
  | .line c => some (onChain c)
  | .lzy r => r.shape2
  | _ => none

/-- the height of a planar region -/
def Reg.z? : Reg → Option Rat
  | .planar z _ => some z
  | .disc z _ _ => some z
  | .lzy r => r.z?
  | _ => none

/-- **specification**: 3-coordinate membership -/
def Reg.mem : Reg → Pt → Bool
  | .all, _ => true
  | .empty, _ => false
  | .planar z s, p => decide (p.z = z) && s.mem p.xy
  | .disc z c r, p => decide (p.z = z) && decide (V2.dsq p.xy c ≤ sq r)
  | .foot s, p => s.mem p.xy
  | .line c, p => decide (p.z = 0) && onChain c p.xy
  | .path c, p => onPath c p
  | .pts ps, p => ps.contains p
  | .vol b, p => b.mem p
  | .surf b, p => b.onSurface p
  | .lzy r, p => r.mem p
  | .inter a b, p => a.mem p && b.mem p
  | .union a b, p => a.mem p || b.mem p
  | .diff a b, p => a.mem p && !b.mem p

/-! ## what the source says (regenerated into `Gen/RegionOps.lean`) -/

/-- which height an expression uses -/
inductive ZSrc
  | selfZ | otherZ | zero
deriving DecidableEq, Repr

structure Flags where
  /-- `PolygonalRegion._trueContainsPoint` tests `point.z == self.z` -/
  polyTrueChecksZ : Bool
  /-- `PolygonalRegion.distanceTo` combines the planar distance with `point[2] - self.z` -/
  polyDistZ : ZSrc
  /-- `PolygonalRegion.AABB` puts `self.z` in both corners -/
  polyAABBZ : ZSrc
  /-- `PolygonalRegion.containsRegionInner` compares heights before the planar test (since 8459a79f) -/
  polyContainsRegionChecksZ : Bool
  /-- `CircularRegion.containsPoint` refuses `point.z != self.z` -/
  discContainsChecksZ : Bool
  /-- `CircularRegion.distanceTo` uses the planar closed form when `point.z == <this>` -/
  discDistPlane : ZSrc
  /-- `CircularRegion.AABB` uses `self.z` -/
  discAABBZ : ZSrc
  /-- `PolylineRegion.containsPoint` refuses `point.z != 0` -/
  lineContainsChecksZ : Bool
  /-- `MeshRegion.projectVector` takes the norm with `axis=1` -/
  projectAxis1 : Bool
  /-- `regionFromShapelyObject` passes its `z` to `PolygonalRegion` -/
  fromShapelyPassesZ : Bool
  /-- `IntersectionRegion / UnionRegion / DifferenceRegion` define `_trueContainsPoint` structurally
      (`all / any / and-not` of the parts' `_trueContainsPoint`); otherwise they inherit
      `Region._trueContainsPoint = containsPoint`, which has footprint semantics -/
  compTrueStructural : Bool
deriving Repr, DecidableEq

/-! ## code model: point predicates -/

/-- `containsPoint` of the primitive kinds -/
def containsPrim (F : Flags) : Reg → Pt → Bool
  | .all, _ => true
  | .empty, _ => false
  | .planar _ s, p => s.mem p.xy                               -- footprint semantics (by design)
  | .disc z c r, p => (!F.discContainsChecksZ || decide (p.z = z)) && decide (V2.dsq p.xy c ≤ sq r)
  | .foot s, p => s.mem p.xy
  | .line c, p => (!F.lineContainsChecksZ || decide (p.z = 0)) && onChain c p.xy
  | .path c, p => onPath c p
  | .pts ps, p => ps.contains p
  | .vol b, p => b.mem p
  | .surf b, p => b.onSurface p
  | _, _ => false

mutual
/-- `Region.containsPoint`; intersections and differences evaluate their *footprint*
    (`convertToFootprint`), unions do not -/
def containsPoint (F : Flags) : Reg → Pt → Bool
  | .lzy r, p => containsPoint F r p
  | .inter a b, p => containsFoot F a p && containsFoot F b p
  | .union a b, p => containsPoint F a p || containsPoint F b p
  | .diff a b, p => containsFoot F a p && !containsFoot F b p
  | r, p => containsPrim F r p
/-- `convertToFootprint(r).containsPoint(p)`: polygonal regions become their footprints, recursively
    through intersections and differences -/
def containsFoot (F : Flags) : Reg → Pt → Bool
  | .planar _ s, p => s.mem p.xy
  | .disc _ c r, p => (Shape2.disc c r).mem p.xy
  | .lzy r, p => containsFoot F r p
  | .inter a b, p => containsFoot F a p && containsFoot F b p
  | .diff a b, p => containsFoot F a p && !containsFoot F b p
  | .union a b, p => containsPoint F a p || containsPoint F b p
  | r, p => containsPrim F r p
end

/-- `_trueContainsPoint`: overridden by `PolygonalRegion`, and (flag `compTrueStructural`) by the composite
    regions; everything else inherits `Region._trueContainsPoint = containsPoint` -/
def trueContains (F : Flags) : Reg → Pt → Bool
  | .planar z s, p => (!F.polyTrueChecksZ || decide (p.z = z)) && s.mem p.xy
  | .disc z c r, p => (!F.polyTrueChecksZ || decide (p.z = z)) && containsPrim F (.disc z c r) p
  | .lzy r, p => trueContains F r p
  | .inter a b, p =>
      if F.compTrueStructural then trueContains F a p && trueContains F b p else containsPoint F (.inter a b) p
  | .union a b, p =>
      if F.compTrueStructural then trueContains F a p || trueContains F b p else containsPoint F (.union a b) p
  | .diff a b, p =>
      if F.compTrueStructural then trueContains F a p && !trueContains F b p else containsPoint F (.diff a b) p
  | r, p => containsPoint F r p

/-- membership as the generic samplers of the composite regions realise it: `_trueContainsPoint` of the
    *immediate* parts (`all(region._trueContainsPoint(point) for region in regs)`, …) -/
def memCode (F : Flags) : Reg → Pt → Bool
  | .lzy r, p => memCode F r p
  | .inter a b, p => trueContains F a p && trueContains F b p
  | .union a b, p => trueContains F a p || trueContains F b p
  | .diff a b, p => trueContains F a p && !trueContains F b p
  | r, p => trueContains F r p

/-! ## code model: distance -/

/-- a distance in closed form, `hypot (max 0 (√gapSq − r)) (√dzSq)` with `0 ≤ r`
    (square roots are never taken in the model; the harness evaluates the form in floating point) -/
structure DistForm where
  gapSq : Rat
  r : Rat
  dzSq : Rat
deriving Repr, DecidableEq

/-- the distance denoted by the form is zero -/
def DistForm.isZero (d : DistForm) : Bool := decide (d.gapSq ≤ sq d.r) && decide (d.dzSq = 0)

inductive DistOut
  | val (d : DistForm)
  | inf            -- `float("inf")` (EmptyRegion)
  | unsupported    -- NotImplementedError
deriving Repr, DecidableEq

def ZSrc.pick (s : ZSrc) (selfZ otherZ : Rat) : Rat :=
  match s with
  | .selfZ => selfZ
  | .otherZ => otherZ
  | .zero => 0

/-- planar distance of a shape as (gapSq, r) -/
def Shape2.gap : Shape2 → V2 → Rat × Rat
  | .poly vs, q => (polyDistSq vs q, 0)
  | .disc c r, q => (V2.dsq q c, r)

def minOver {α} (f : α → Rat) (l : List α) : Rat := (listMin (l.map f)).getD 0

/-- squared distance from a point to an oriented box with orthonormal axes -/
def Box.distSq (b : Box) (p : Pt) : Rat :=
  let l := b.local p
  sq (maxR 0 (absR l.x - b.h.x)) + sq (maxR 0 (absR l.y - b.h.y)) + sq (maxR 0 (absR l.z - b.h.z))

/-- distance from an interior point to the surface -/
def Box.depth (b : Box) (p : Pt) : Rat :=
  let l := b.local p
  minR (b.h.x - absR l.x) (minR (b.h.y - absR l.y) (b.h.z - absR l.z))

/-- `Region.distanceTo` per class -/
def distanceTo (F : Flags) : Reg → Pt → DistOut
  | .all, _ => .val ⟨0, 0, 0⟩
  | .empty, _ => .inf
  | .planar z s, p =>
      -- math.hypot(shapely.distance(self.polygons, point2D), point[2] - <z>)
      let g := s.gap p.xy
      .val ⟨g.1, g.2, sq (p.z - F.polyDistZ.pick z 0)⟩
  | .disc z c r, p =>
      if p.z = F.discDistPlane.pick z 0 then
        -- max(0, point.distanceTo(self.center) - self.radius), a 3-D distance to the centre
        .val ⟨Pt.dsq p (c.at z), r, 0⟩
      else
        -- super().distanceTo(point): the polygon approximating the disc
        .val ⟨V2.dsq p.xy c, r, sq (p.z - F.polyDistZ.pick z 0)⟩
  | .foot s, p => let g := s.gap p.xy; .val ⟨g.1, g.2, 0⟩
  | .line c, p => .val ⟨minOver (fun e => segDistSq2 p.xy e.1 e.2) (chainSegs c), 0, sq p.z⟩
  | .path c, p => .val ⟨minOver (fun e => segDistSq3 p e.1 e.2) (chainSegs3 c), 0, 0⟩
  | .pts ps, p => .val ⟨minOver (fun m => Pt.dsq p m) ps, 0, 0⟩
  | .vol b, p => .val ⟨b.distSq p, 0, 0⟩
  | .surf b, p => if b.mem p then .val ⟨sq (b.depth p), 0, 0⟩ else .val ⟨b.distSq p, 0, 0⟩
  | .lzy r, p => distanceTo F r p
  | .inter .., _ => .unsupported
  | .union .., _ => .unsupported
  | .diff .., _ => .unsupported

/-! ## code model: bounding boxes -/

def coordMin (f : V2 → Rat) (l : List V2) : Rat := (listMin (l.map f)).getD 0
def coordMax (f : V2 → Rat) (l : List V2) : Rat := -((listMin (l.map (fun v => -(f v)))).getD 0)
def coordMin3 (f : Pt → Rat) (l : List Pt) : Rat := (listMin (l.map f)).getD 0
def coordMax3 (f : Pt → Rat) (l : List Pt) : Rat := -((listMin (l.map (fun v => -(f v)))).getD 0)

def Shape2.bounds : Shape2 → V2 × V2
  | .poly vs => (⟨coordMin (·.x) vs, coordMin (·.y) vs⟩, ⟨coordMax (·.x) vs, coordMax (·.y) vs⟩)
  | .disc c r => (⟨c.x - r, c.y - r⟩, ⟨c.x + r, c.y + r⟩)

/-- `Region.AABB`; `none` where the class raises -/
def aabb (F : Flags) : Reg → Option (Pt × Pt)
  | .planar z s =>
      let b := s.bounds
      let zz := F.polyAABBZ.pick z 0
      some (b.1.at zz, b.2.at zz)
  | .disc z c r =>
      let zz := F.discAABBZ.pick z 0
      some (⟨c.x - r, c.y - r, zz⟩, ⟨c.x + r, c.y + r, zz⟩)
  | .line c => some (⟨coordMin (·.x) c, coordMin (·.y) c, 0⟩, ⟨coordMax (·.x) c, coordMax (·.y) c, 0⟩)
  | .path c => some (⟨coordMin3 (·.x) c, coordMin3 (·.y) c, coordMin3 (·.z) c⟩,
                     ⟨coordMax3 (·.x) c, coordMax3 (·.y) c, coordMax3 (·.z) c⟩)
  | .pts ps => some (⟨coordMin3 (·.x) ps, coordMin3 (·.y) ps, coordMin3 (·.z) ps⟩,
                     ⟨coordMax3 (·.x) ps, coordMax3 (·.y) ps, coordMax3 (·.z) ps⟩)
  | .vol b => some (⟨b.c.x - b.xHalf, b.c.y - b.yHalf, b.c.z - b.zHalf⟩,
                    ⟨b.c.x + b.xHalf, b.c.y + b.yHalf, b.c.z + b.zHalf⟩)
  | .surf b => some (⟨b.c.x - b.xHalf, b.c.y - b.yHalf, b.c.z - b.zHalf⟩,
                     ⟨b.c.x + b.xHalf, b.c.y + b.yHalf, b.c.z + b.zHalf⟩)
  | .lzy r => aabb F r
  | _ => none

def inAABB (bb : Pt × Pt) (p : Pt) : Bool :=
  decide (bb.1.x ≤ p.x) && decide (p.x ≤ bb.2.x) && decide (bb.1.y ≤ p.y) && decide (p.y ≤ bb.2.y) &&
  decide (bb.1.z ≤ p.z) && decide (p.z ≤ bb.2.z)

/-! ## code model: projection along a direction (`MeshRegion.projectVector`) -/

/-- entry and exit parameters of the line `l + t·d` through the slab `|x| ≤ h`;
    `none` when the line is parallel to the slab and outside it -/
def slab (l d h : Rat) : Option (Rat × Rat) :=
  if d = 0 then (if absR l ≤ h then some (0, 0) else none)    -- (0,0) is ignored: see `Box.rayHit`
  else
    let t1 := (-h - l) / d
    let t2 := (h - l) / d
    some (minR t1 t2, maxR t1 t2)

/-- first point of the box met by the ray `p + t·d`, `t > 0`, from a point outside the box -/
def Box.rayHit (b : Box) (p d : Pt) : Option Pt :=
  let l := b.local p
  let ld : Pt := ⟨b.u.dot d, b.v.dot d, b.w.dot d⟩
  match slab l.x ld.x b.h.x, slab l.y ld.y b.h.y, slab l.z ld.z b.h.z with
  | some sx, some sy, some sz =>
    let ins : List (Rat × Rat) :=
      (if ld.x = 0 then [] else [sx]) ++ (if ld.y = 0 then [] else [sy]) ++ (if ld.z = 0 then [] else [sz])
    match ins with
    | [] => none
    | s0 :: rest =>
      let tin := rest.foldl (fun a s => maxR a s.1) s0.1
      let tout := rest.foldl (fun a s => minR a s.2) s0.2
      if tin ≤ tout ∧ 0 < tin then some (p.add (Pt.smul tin d)) else none
  | _, _, _ => none

/-- `closest_point = hits[argmin(norm(hits - point, axis=1))]`; without `axis=1` the norm is one
    number and `argmin` is 0 -/
def selectHit (axis1 : Bool) (p : Pt) : List Pt → Option Pt
  | [] => none
  | h :: rest =>
    if axis1 then
      match selectHit axis1 p rest with
      | none => some h
      | some m => if Pt.dsq p h ≤ Pt.dsq p m then some h else some m
    else some h

/-- `MeshRegion.projectVector(point, onDirection)` for a box volume -/
def projectVector (F : Flags) (b : Box) (p d : Pt) : Option Pt :=
  if b.mem p then some p
  else
    let neg : Pt := ⟨-d.x, -d.y, -d.z⟩
    selectHit F.projectAxis1 p ([b.rayHit p d, b.rayHit p neg].filterMap id)

/-! ## code model: region-in-region containment (`Region.containsRegion`) -/

/-- `dimensionality`; `AllRegion` reports `inf` (any number above 3 behaves the same) -/
def dimOf : Reg → Option Nat
  | .all => some 4
  | .empty => some 0
  | .planar .. => some 2
  | .disc .. => some 2
  | .foot _ => some 3
  | .line _ => some 1
  | .path _ => some 1
  | .pts _ => some 0
  | .vol _ => some 3
  | .surf _ => some 2
  | .lzy r => dimOf r
  | _ => none

inductive Tri
  | yes | no
  /-- the class raises (`NotImplementedError` / `TypeError`) or the pair is outside the model -/
  | undecided
deriving Repr, DecidableEq

/-- idealised Shapely / FCL predicates, with their contracts stated in `Props/C16` -/
structure Oracle where
  /-- `a.contains(b)` for planar sets -/
  sub2 : (V2 → Bool) → (V2 → Bool) → Bool
  /-- `not a.is_empty` / `a.intersects(b)` for planar sets -/
  ne2 : (V2 → Bool) → Bool
  /-- non-emptiness of a spatial set (FCL / trimesh) -/
  ne3 : (Pt → Bool) → Bool

/-- `PolygonalRegion.containsRegionInner` (inherited by `CircularRegion`) -/
def polyContainsInner (F : Flags) (O : Oracle) (z : Rat) (s : V2 → Bool) (r : Reg) : Tri :=
  match r.shape2 with
  | none => .undecided            -- TypeError: cannot test inclusion
  | some f =>
    let planarOK := O.sub2 s f
    if F.polyContainsRegionChecksZ then
      (match r.z? with
       | some zr => if zr = z ∧ planarOK then .yes else .no
       | none => if planarOK then .yes else .no)
    else if planarOK then .yes else .no

/-- `Region.containsRegion(reg, tolerance=0)`; `sizeSmaller` is the outcome of the size fast path
    `self.size * 1.01 < reg.size` (sizes are real numbers, outside the rational model) -/
def containsRegion (F : Flags) (O : Oracle) (self reg : Reg) (sizeSmaller : Bool) : Tri :=
  if self.kind == .all || reg.kind == .empty then .yes
  else if self.kind == .empty || reg.kind == .all then .no
  else
    let fast : Bool := match dimOf self, dimOf reg with
      | some ds, some dr => decide (ds < dr) || (decide (ds = dr) && sizeSmaller)
      | _, _ => false
    if fast then .no
    else match self, reg with
      | .pts ps, .pts qs => if qs.all (ps.contains ·) then .yes else .no
      | .planar z s, r => polyContainsInner F O z s.mem r
      | .disc z c rad, r => polyContainsInner F O z (Shape2.disc c rad).mem r
      | .foot s, .planar _ t => if O.sub2 s.mem t.mem then .yes else .no
      | .foot s, .disc _ c rad => if O.sub2 s.mem (Shape2.disc c rad).mem then .yes else .no
      | .foot s, .foot t => if O.sub2 s.mem t.mem then .yes else .no
      | _, _ => .undecided

end Scenic.Region
