/-
Executable model of the logic core of Scenic's compile-time pruning (core Lean only, exact rationals).

  §1  `relations.py`  RequirementMatcher.matchBounds / matchBoundsInner / matchAbsBounds
  §2  `pruning.py`    relativeHeadingRange, the overlap test and guard of feasibleRHPolygon,
                      `geometry.normalizeAngle`
  §3  `pruning.py`    erosion amount (minRadius - maxDistance), visibility buffer (radius + maxDistance);
      `regions.py`    iteration counts of _erodeOverapproximate / _bufferOverapproximate, the sign
                      dispatch of VoxelRegion.dilation, k passes of the 3x3x3 structuring element
  §4  `pruning.py`    the two `while … is None` retry loops as state machines
  §5  conditioning of finite weighted distributions (what `Samplable.conditionTo` promises)
  §6  `pruning.py`    checkConditionedCycle as a worklist search over a dependency graph

Everything that is a *choice made by the source* (operator dispatch, coefficient signs, which pitch is
passed, …) is a field of a configuration structure; `Gen/Pruning.lean` holds the values extracted from
/repo by `tools/translate/pruning.py`.  Angles are rationals measured in an arbitrary unit in which a
half turn is `P` (`P = Fraction(math.pi)` in the correspondence run).
-/
namespace Scenic.Pruning

/-! ## §1 bound extraction -/

inductive CmpOp | lt | ltE | gt | gtE | eq | notEq | is | isNot | in_ | notIn
  deriving DecidableEq, Repr

inductive Arith | add | sub
  deriving DecidableEq, Repr

/-- What the matcher can learn about a sub-expression before sampling. -/
structure Leaf where
  /-- `matchConstant`: value known prior to sampling (an `int`/`float`) -/
  cval : Option Rat
  /-- `matchAtom`: the node is `F(target)` for the matched unary function; the target's identity -/
  atom : Option Nat
  /-- identity of the expression when it is neither (an opaque random quantity) -/
  id : Nat
  deriving DecidableEq, Repr

/-- operand of a comparison, as far as the matcher distinguishes shapes -/
inductive Expr
  | leaf (l : Leaf)
  | abs1 (l : Leaf)                     -- `abs(l)`
  | absBin (op : Arith) (l r : Leaf)    -- `abs(l op r)`
  deriving DecidableEq, Repr

def absQ (x : Rat) : Rat := if x < 0 then -x else x

def Arith.app : Arith → Rat → Rat → Rat
  | .add, x, y => x + y
  | .sub, x, y => x - y

/-- `matchConstant` on an operand -/
def Expr.cval : Expr → Option Rat
  | .leaf l => l.cval
  | .abs1 l => l.cval.map absQ
  | .absBin op l r => match l.cval, r.cval with
    | some x, some y => some (absQ (op.app x y))
    | _, _ => none

/-- `matchAtom` on an operand (only a bare call of the matched function) -/
def Expr.atom : Expr → Option Nat
  | .leaf l => l.atom
  | _ => none

/-- the choices made by `matchBoundsInner` / `matchAbsBounds` (extracted from the source) -/
structure Dispatch where
  /-- `if isinstance(op, A): return self.matchBoundsInner(right, left, B(), …)` -/
  swapOps : List (CmpOp × CmpOp)
  /-- `elif not isinstance(op, (…)): return None, None, None` — the operators that do bound -/
  boundOps : List CmpOp
  /-- `isinstance(op, Eq)` — the operators giving a two-sided bound -/
  eqOps : List CmpOp
  /-- in `matchAbsBounds`, the `not isUpperBound and not Eq → None` guard precedes the `const < 0` error -/
  absGuardFirst : Bool
  /-- `abs(Q) op c`  ↦  (lo, hi) = (a·c, b·c) -/
  absPlain : Int × Int
  /-- `abs(Q + m) op c` ↦ (lo, hi) = (a·c + b·m, a'·c + b'·m) -/
  absAdd : (Int × Int) × (Int × Int)
  /-- `abs(Q - m) op c` -/
  absSub : (Int × Int) × (Int × Int)
  deriving DecidableEq, Repr

inductive Res
  | none
  | bound (lo hi : Option Rat) (t : Nat)
  /-- `inconsistencyError` (InconsistentScenarioError) -/
  | inconsistent
  deriving DecidableEq, Repr

def lin (k : Int × Int) (c m : Rat) : Rat := (k.1 : Rat) * c + (k.2 : Rat) * m

/-- the two early exits of `matchAbsBounds`, in the order the source performs them -/
def absGuarded (D : Dispatch) (c : Rat) (op : CmpOp) (isUpper : Bool) (k : Res) : Res :=
  let guardFails := !isUpper && !(D.eqOps.contains op)
  if D.absGuardFirst then
    if guardFails then .none else if c < 0 then .inconsistent else k
  else
    if c < 0 then .inconsistent else if guardFails then .none else k

/-- `abs(QUANTITY ± CONST) </= CONST` (either operand order) -/
def absBinBound (D : Dispatch) (a : Arith) (c m : Rat) (t : Nat) : Res :=
  match a with
  | .add => .bound (some (lin D.absAdd.1 c m)) (some (lin D.absAdd.2 c m)) t
  | .sub => .bound (some (lin D.absSub.1 c m)) (some (lin D.absSub.2 c m)) t

/-- `matchAbsBounds(node, const, op, isUpperBound, matchAtom)` -/
def matchAbsBounds (D : Dispatch) (node : Expr) (c : Rat) (op : CmpOp) (isUpper : Bool) : Res :=
  match node with
  | .leaf _ => .none
  | .abs1 l =>
    absGuarded D c op isUpper (match l.atom with
      | some t => .bound (some ((D.absPlain.1 : Rat) * c)) (some ((D.absPlain.2 : Rat) * c)) t
      | Option.none => .none)
  | .absBin a l r =>
    absGuarded D c op isUpper (match l.cval, r.atom with
      | some m, some t => absBinBound D a c m t
      | _, _ => match r.cval, l.atom with
        | some m, some t => absBinBound D a c m t
        | _, _ => .none)

/-- body of `matchBoundsInner` once `>`/`>=` have been reduced -/
def innerCore (D : Dispatch) (left right : Expr) (op : CmpOp) : Res :=
  if !(D.boundOps.contains op) then .none else
  let isEq := D.eqOps.contains op
  let fromLeft : Res :=
    match left.cval with
    | some lc =>
      (match right.atom with
       | some t => if isEq then .bound (some lc) (some lc) t else .bound (some lc) Option.none t
       | Option.none => matchAbsBounds D right lc op false)
    | Option.none => .none
  match fromLeft with
  | .none =>
    (match right.cval with
     | some rc =>
       (match left.atom with
        | some t => if isEq then .bound (some rc) (some rc) t else .bound Option.none (some rc) t
        | Option.none => matchAbsBounds D left rc op true)
     | Option.none => .none)
  | r => r

/-- `matchBoundsInner(left, right, op, matchAtom)` -/
def matchBoundsInner (D : Dispatch) (left right : Expr) (op : CmpOp) : Res :=
  match D.swapOps.lookup op with
  | some op' => innerCore D right left op'
  | Option.none => innerCore D left right op

/-- a bound table: target ↦ (lower, upper); `none` is −∞ / +∞ -/
abbrev Bounds := List (Nat × (Option Rat × Option Rat))

def tightenLo (best : Option Rat) (lo : Option Rat) : Option Rat :=
  match lo, best with
  | some l, some b => if l > b then some l else some b
  | some l, Option.none => some l
  | Option.none, b => b

def tightenHi (best : Option Rat) (hi : Option Rat) : Option Rat :=
  match hi, best with
  | some h, some b => if h < b then some h else some b
  | some h, Option.none => some h
  | Option.none, b => b

def Bounds.get (bs : Bounds) (t : Nat) : Option Rat × Option Rat :=
  (bs.lookup t).getD (Option.none, Option.none)

/-- `bounds[targetID] = (bestLower, bestUpper)` keeping first-insertion order of targets -/
def Bounds.set : Bounds → Nat → (Option Rat × Option Rat) → Bounds
  | [], t, v => [(t, v)]
  | (t', v') :: rest, t, v => if t' = t then (t', v) :: rest else (t', v') :: Bounds.set rest t v

/-- the loop of `matchBounds` over `zip(node.comparators, node.ops)` -/
def matchBoundsLoop (D : Dispatch) : Expr → List (CmpOp × Expr) → Bounds → Except Unit Bounds
  | _, [], acc => .ok acc
  | first, (op, second) :: rest, acc =>
    match matchBoundsInner D first second op with
    | .inconsistent => .error ()
    | .none => matchBoundsLoop D second rest acc
    | .bound lo hi t =>
      let (bl, bh) := acc.get t
      matchBoundsLoop D second rest (acc.set t (tightenLo bl lo, tightenHi bh hi))

def matchBounds (D : Dispatch) (first : Expr) (rest : List (CmpOp × Expr)) : Except Unit Bounds :=
  matchBoundsLoop D first rest []

/-! ### semantics of the requirement -/

/-- environment: `q t` is the value of the matched quantity of target `t`, `w i` that of opaque expression `i` -/
structure Env where
  q : Nat → Rat
  w : Nat → Rat

def Leaf.val (e : Env) (l : Leaf) : Rat :=
  match l.atom with
  | some t => e.q t
  | Option.none => match l.cval with
    | some c => c
    | Option.none => e.w l.id

/-- a compile-time constant really is the value (only restrictive when a leaf is both atom and constant) -/
def Leaf.Ok (e : Env) (l : Leaf) : Prop := ∀ c, l.cval = some c → l.val e = c

def Expr.val (e : Env) : Expr → Rat
  | .leaf l => l.val e
  | .abs1 l => absQ (l.val e)
  | .absBin op l r => absQ (op.app (l.val e) (r.val e))

def Expr.Ok (e : Env) : Expr → Prop
  | .leaf l => l.Ok e
  | .abs1 l => l.Ok e
  | .absBin _ l r => l.Ok e ∧ r.Ok e

/-- meaning of one comparison on numbers; identity / membership tests carry no numeric information -/
def CmpOp.sem : CmpOp → Rat → Rat → Prop
  | .lt, x, y => x < y
  | .ltE, x, y => x ≤ y
  | .gt, x, y => x > y
  | .gtE, x, y => x ≥ y
  | .eq, x, y => x = y
  | .notEq, x, y => x ≠ y
  | _, _, _ => True

/-- Python's chained comparison `a op1 b op2 c …` = `a op1 b and b op2 c and …` -/
def chainHolds (e : Env) : Expr → List (CmpOp × Expr) → Prop
  | _, [] => True
  | first, (op, second) :: rest => op.sem (first.val e) (second.val e) ∧ chainHolds e second rest

def chainOk (e : Env) : Expr → List (CmpOp × Expr) → Prop
  | first, [] => first.Ok e
  | first, (_, second) :: rest => first.Ok e ∧ chainOk e second rest

def inBound (b : Option Rat × Option Rat) (x : Rat) : Prop :=
  (∀ l, b.1 = some l → l ≤ x) ∧ (∀ h, b.2 = some h → x ≤ h)

/-- operators whose truth implies `left ≤ right` -/
def CmpOp.isUpper : CmpOp → Bool
  | .lt | .ltE | .eq => true
  | _ => false

/-- `b` is the converse of `a` (a x y ↔ b y x) for the reductions the source performs -/
def CmpOp.converseOf : CmpOp → CmpOp → Bool
  | .gt, .lt | .gtE, .ltE | .lt, .gt | .ltE, .gtE | .eq, .eq | .notEq, .notEq => true
  | _, _ => false

/-- decidable well-formedness of an extracted dispatch: exactly what the soundness proofs use -/
def Dispatch.WF (D : Dispatch) : Bool :=
  D.swapOps.all (fun p => p.1.converseOf p.2 && (D.swapOps.lookup p.2).isNone)
  && D.boundOps.all CmpOp.isUpper
  && D.eqOps.all (· == .eq)
  && D.absGuardFirst
  && D.absPlain == (-1, 1)
  && D.absAdd == ((-1, -1), (1, -1))
  && D.absSub == ((-1, 1), (1, 1))

/-! ## §2 relative headings -/

/-- `geometry.normalizeAngle` with half-turn `P`: the two `while` loops in closed form -/
def normalizeAngle (P x : Rat) : Rat :=
  if x > P then x - 2 * P * (((x - P) / (2 * P)).ceil : Int)
  else if x < -P then x + 2 * P * (((-P - x) / (2 * P)).ceil : Int)
  else x

structure RHConfig where
  /-- the result is normalised with `normalizeAngle` (commit 3faece04) -/
  normalizeResult : Bool
  /-- `if upper - lower >= tau: return -pi, pi` -/
  wideFallback : Bool
  /-- `if lower > upper: return -pi, pi` after normalising -/
  wrapFallback : Bool
  deriving DecidableEq, Repr

def listMin (d : Rat) : List Rat → Rat
  | [] => d
  | x :: xs => xs.foldl (fun a b => if b < a then b else a) x

def listMax (d : Rat) : List Rat → Rat
  | [] => d
  | x :: xs => xs.foldl (fun a b => if b > a then b else a) x

/-- `points = [lower, upper]; if upper < lower: points.extend((pi, -pi))` -/
def arcPoints (P lower upper : Rat) : List Rat :=
  if upper < lower then [lower, upper, P, -P] else [lower, upper]

/-- `relativeHeadingRange(baseHeading, offsetL, offsetR, targetHeading, tOffsetL, tOffsetR)`;
    a heading of `none` is a cell whose heading is not constant -/
def relativeHeadingRange (cfg : RHConfig) (P : Rat) (bh : Option Rat) (oL oR : Rat)
    (th : Option Rat) (tL tR : Rat) : Rat × Rat :=
  match bh, th with
  | some bh, some th =>
    let points := arcPoints P (normalizeAngle P (bh + oL)) (normalizeAngle P (bh + oR))
    let tPoints := arcPoints P (normalizeAngle P (th + tL)) (normalizeAngle P (th + tR))
    let rhs := tPoints.flatMap (fun tp => points.map (fun p => tp - p))
    let lower := listMin 0 rhs
    let upper := listMax 0 rhs
    if !cfg.normalizeResult then (lower, upper) else
    if cfg.wideFallback && decide (upper - lower ≥ 2 * P) then (-P, P) else
    let lower := normalizeAngle P lower
    let upper := normalizeAngle P upper
    if cfg.wrapFallback && decide (lower > upper) then (-P, P) else (lower, upper)
  | _, _ => (-P, P)

/-- the early `return None` of `feasibleRHPolygon` (no pruning at all); `inclusive` = the test is `>=` -/
def rhGuardTrips (inclusive : Bool) (P oL oR tL tR lowerBound upperBound : Rat) : Bool :=
  let wide (w : Rat) : Bool := if inclusive then decide (w ≥ 2 * P) else decide (w > 2 * P)
  wide (oR - oL) || wide (tR - tL) || wide (upperBound - lowerBound)

/-- evaluation of a numeric comparison operator (identity / membership tests: false) -/
def CmpOp.evalB : CmpOp → Rat → Rat → Bool
  | .lt, x, y => decide (x < y)
  | .ltE, x, y => decide (x ≤ y)
  | .gt, x, y => decide (x > y)
  | .gtE, x, y => decide (x ≥ y)
  | .eq, x, y => decide (x = y)
  | .notEq, x, y => decide (x ≠ y)
  | _, _, _ => false

/-- `if upper ⟨ops.1⟩ lowerBound ⟨and/or⟩ lower ⟨ops.2⟩ upperBound` — the pair of cells is kept -/
def cellPairKept (cfg : RHConfig) (ops : CmpOp × CmpOp) (conj : Bool) (P : Rat) (bh : Option Rat)
    (oL oR : Rat) (th : Option Rat) (tL tR lowerBound upperBound : Rat) : Bool :=
  let r := relativeHeadingRange cfg P bh oL oR th tL tR
  let a := ops.1.evalB r.2 lowerBound
  let b := ops.2.evalB r.1 upperBound
  if conj then a && b else a || b

/-- the overlap test is the sound one: `upper >= lowerBound`, `lower <= upperBound` -/
def overlapSound (ops : CmpOp × CmpOp) : Bool := ops.1 == .gtE && ops.2 == .ltE

/-! ## §3 erosion / dilation amounts and iteration counts -/

/-- `maxDistance is not None and minRadius is not None and (maxErosion := minRadius - maxDistance) > 0` -/
def erosionAmount (useDifference : Bool) (minRadius maxDistance : Option Rat) : Option Rat :=
  match minRadius, maxDistance with
  | some r, some d =>
    let e := if useDifference then r - d else r + d
    if e > 0 then some e else none
  | _, _ => none

/-- `buffer_quantity = obj.radius + maxDistance` -/
def visibilityBuffer (useSum : Bool) (radius maxDistance : Rat) : Rat :=
  if useSum then radius + maxDistance else radius - maxDistance

structure ErodeCountCfg where
  /-- `math.hypot(*([target_pitch] * n))`: n -/
  hypotDims : Nat
  /-- `- k` after the floor -/
  minus : Int
  /-- the divisor uses `target_pitch` (the voxel edge) rather than the relative `pitch` -/
  usesTargetPitch : Bool
  deriving DecidableEq, Repr

structure DilateCountCfg where
  /-- `+ k` after the ceil -/
  plus : Int
  /-- the divisor is `target_pitch` (the voxel edge) rather than the relative `pitch` -/
  usesTargetPitch : Bool
  deriving DecidableEq, Repr

/-- `math.floor(r / (sqrt n * p))` for `r ≥ 0`, `p > 0`, in squared form: the largest `k` with `n k² p² ≤ r²` -/
def floorDivSqrt (n : Nat) (r p : Rat) : Int :=
  if r < 0 ∨ p ≤ 0 ∨ n = 0 then 0 else
  (Nat.sqrt ((r * r) / ((n : Rat) * p * p)).floor.toNat : Int)

/-- `iterations = math.floor(maxErosion / math.hypot(*([target_pitch] * 3))) - 1` -/
def erodePasses (cfg : ErodeCountCfg) (maxErosion pitch targetPitch : Rat) : Int :=
  floorDivSqrt cfg.hypotDims maxErosion (if cfg.usesTargetPitch then targetPitch else pitch) - cfg.minus

/-- `iterations = math.ceil(minBuffer / pitch) + 1` -/
def dilatePasses (cfg : DilateCountCfg) (minBuffer pitch targetPitch : Rat) : Int :=
  (minBuffer / (if cfg.usesTargetPitch then targetPitch else pitch)).ceil + cfg.plus

inductive Morph | same | dilate (k : Nat) | erode (k : Nat)
  deriving DecidableEq, Repr

/-- `VoxelRegion.dilation(iterations)`: 0 ↦ self, >0 ↦ binary_dilation, <0 ↦ binary_erosion(|iterations|) -/
def morphOf (iterations : Int) : Morph :=
  if iterations = 0 then .same
  else if iterations > 0 then .dilate iterations.toNat
  else .erode (-iterations).toNat

/-- `_erodeOverapproximate` calls `dilation(iterations=-iterations)` -/
def erodeMorph (cfg : ErodeCountCfg) (negate : Bool) (maxErosion pitch targetPitch : Rat) : Morph :=
  let it := erodePasses cfg maxErosion pitch targetPitch
  morphOf (if negate then -it else it)

def dilateMorph (cfg : DilateCountCfg) (minBuffer pitch targetPitch : Rat) : Morph :=
  morphOf (dilatePasses cfg minBuffer pitch targetPitch)

abbrev Cell := Int × Int × Int

def Cell.add (a b : Cell) : Cell := (a.1 + b.1, a.2.1 + b.2.1, a.2.2 + b.2.2)

/-- the rank-3, connectivity-3 structuring element (`generate_binary_structure(3, 3)`): the 3×3×3 cube -/
def nbhd : List Cell :=
  [-1, 0, 1].flatMap fun a => [-1, 0, 1].flatMap fun b => [-1, 0, 1].map fun c => ((a, b, c) : Cell)

def dedup : List Cell → List Cell
  | [] => []
  | c :: cs => if cs.contains c then dedup cs else c :: dedup cs

/-- one pass of binary dilation on an unbounded grid -/
def dilate1 (cells : List Cell) : List Cell :=
  dedup (cells.flatMap fun c => nbhd.map fun d => c.add d)

/-- one pass of binary erosion on an unbounded grid (cells outside the set are empty) -/
def erode1 (cells : List Cell) : List Cell :=
  cells.filter fun c => nbhd.all fun d => cells.contains (c.add d)

def iter {α} (f : α → α) : Nat → α → α
  | 0, x => x
  | n + 1, x => iter f n (f x)

def applyMorph : Morph → List Cell → List Cell
  | .same, cs => cs
  | .dilate k, cs => iter dilate1 k cs
  | .erode k, cs => iter erode1 k cs

/-- `VoxelRegion.dilation` on a dense grid of the given shape: scipy's morphology keeps the shape of its input, so
    unless the grid is padded by the number of passes before dilating (`pads`, commit e7c606cc) the dilated
    set is clipped to the original grid.  Erosion never leaves the grid. -/
def applyMorphGrid (pads : Bool) (shape : Nat × Nat × Nat) (m : Morph) (cs : List Cell) : List Cell :=
  match m with
  | .dilate _ =>
    if pads then applyMorph m cs
    else (applyMorph m cs).filter fun c =>
      decide (0 ≤ c.1) && decide (c.1 < shape.1) && decide (0 ≤ c.2.1) && decide (c.2.1 < shape.2.1)
        && decide (0 ≤ c.2.2) && decide (c.2.2 < shape.2.2)
  | _ => applyMorph m cs

/-! ## §4 the retry loops -/

structure RetryCfg where
  /-- the call inside the loop is given `current_pitch` (true) or the constant `PRUNING_PITCH` (false) -/
  passesCurrentPitch : Bool
  /-- the callee has a path that cannot return `None` once the pitch *it is given* reaches 1 (the
      `BoxRegion` fast path of `_bufferOverapproximate`) -/
  calleeTotalAtMax : Bool
  /-- the loop body gives up with `if current_pitch >= 1: break` after the call (commit 8b16337f) -/
  breaksAtMax : Bool
  deriving DecidableEq, Repr

/-- `current_pitch = min(2 * current_pitch, 1)` -/
def nextPitch (cur : Rat) : Rat := if 2 * cur < 1 then 2 * cur else 1

/-- the pitch handed to the callee in one iteration -/
def usedPitch (cfg : RetryCfg) (p0 cur : Rat) : Rat := if cfg.passesCurrentPitch then cur else p0

/-- one iteration leaves the loop: the callee cannot fail, or the conversion succeeds, or the loop breaks -/
def exits (cfg : RetryCfg) (conv : Rat → Bool) (p0 cur : Rat) : Bool :=
  (cfg.calleeTotalAtMax && decide (usedPitch cfg p0 cur ≥ 1)) || conv (usedPitch cfg p0 cur)
    || (cfg.breaksAtMax && decide (cur ≥ 1))

/-- `while result is None:` with `conv pitch` = "the voxel→mesh conversion at this pitch yields a volume".
    Returns the number of loop iterations executed, or `none` when the fuel runs out. -/
def retryLoop (cfg : RetryCfg) (conv : Rat → Bool) (p0 : Rat) : Nat → Rat → Option Nat
  | 0, _ => none
  | fuel + 1, cur =>
    if exits cfg conv p0 cur then some 1
    else (retryLoop cfg conv p0 fuel (nextPitch cur)).map (· + 1)

/-- the pitches handed to the callee, in order (at most `fuel` of them) -/
def retryTrace (cfg : RetryCfg) (conv : Rat → Bool) (p0 : Rat) : Nat → Rat → List Rat
  | 0, _ => []
  | fuel + 1, cur =>
    usedPitch cfg p0 cur ::
      (if exits cfg conv p0 cur then [] else retryTrace cfg conv p0 fuel (nextPitch cur))

/-! ## §5 conditioning of finite weighted distributions -/

/-- finite (unnormalised) distribution: outcomes with non-negative weights -/
abbrev Dist (Ω : Type) := List (Ω × Rat)

def Dist.mass {Ω} (d : Dist Ω) (A : Ω → Bool) : Rat :=
  (d.filter fun x => A x.1).foldr (fun x s => x.2 + s) 0

/-- restriction to a region (what pruning does to the sampling region) -/
def Dist.restrict {Ω} (d : Dist Ω) (keep : Ω → Bool) : Dist Ω := d.filter fun x => keep x.1

/-- rescaling (e.g. re-normalising the uniform density on the smaller region) -/
def Dist.scale {Ω} (d : Dist Ω) (c : Rat) : Dist Ω := d.map fun x => (x.1, c * x.2)

/-- P(E | A) -/
def Dist.cond {Ω} (d : Dist Ω) (A E : Ω → Bool) : Rat :=
  d.mass (fun x => A x && E x) / d.mass A

/-- probability that rejection sampling returns an outcome in `E` within `n` iterations, as a function
    of `pE = P(A ∧ E)` and `pA = P(A)` -/
def rejWithin (pE pA : Rat) : Nat → Rat
  | 0 => 0
  | n + 1 => pE + (1 - pA) * rejWithin pE pA n

/-! ## §6 checkConditionedCycle -/

/-- dependency graph after conditioning: `deps n` = `conditionedDeps(n)` -/
abbrev Graph := Nat → List Nat

/-- the `while unseen_deps:` loop (pop from the end, `deps` is the set of seen nodes) -/
def cycleLoop (g : Graph) (b : Nat) : Nat → List Nat → List Nat → Option Bool
  | 0, _, _ => none
  | _ + 1, [], _ => some false
  | fuel + 1, unseen, seen =>
    let target := unseen.getLast!
    let unseen := unseen.dropLast
    let new := g target
    if target = b || new.contains b then some true
    else cycleLoop g b fuel (unseen ++ new.filter (fun d => !seen.contains d))
           (seen ++ new.filter (fun d => !seen.contains d))

/-- `checkConditionedCycle(A, B)` on node identities -/
def checkConditionedCycle (g : Graph) (fuel a b : Nat) : Option Bool :=
  if a = b then some true else cycleLoop g b fuel (g a) []

end Scenic.Pruning
