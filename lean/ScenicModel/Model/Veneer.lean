/-!
# C14 model (part 2): the module-level interpreter state of `scenic.syntax.veneer`

`veneer.py` keeps the interpreter state in module globals (`activity`, `currentScenario`,
`scenarioStack`, `currentSimulation`, `currentBehavior`, `runningScenarios`, `evaluatingRequirement`,
`evaluatingGuard`, `_globalParameters`, `lockedParameters`, `lockedModel`, `loadingModel`,
`inInitialScenario`, `simulatorFactory`, `mode2D` and the swapped classes `Point/OrientedPoint/Object`).
They are changed by

* a *session opener/closer* pair: `beginSimulation`/`endSimulation` (the closer is called from the `finally`
  of `Simulation.__init__`) and `activate`/`deactivate` (the closer is called from the `finally` of
  `scenarioFromStream`/`compileStream`);
* *context managers* (`executeInRequirement`, `executeInScenario`, `executeInBehavior`, `executeInGuard`,
  and the `try … finally` functions `model`, `instantiateSimulator`, nested `activate`/`deactivate`), which
  restore what they changed when they are left – by an exception or normally;
* *plain functions* that assign a global and never restore it (`finishScenarioSetup`, `startScenario`,
  `simulator`, …).

A run is an arbitrary sequence of such operations; a failure at any point is a prefix of the sequence,
after which Python unwinds all open `with` blocks (LIFO) and then runs the closer.  A `with` block inside a
generator that is suspended at a `yield` is different: it is left only when the generator is finalised,
possibly long after the session was closed (`enterDeferred` / `exitDeferred`).

Which globals each function writes/restores is *data* (`Tables`), regenerated from the source.
Values are abstract tokens.  No Mathlib.
-/
namespace Scenic.Veneer

inductive GVal
  | none | false_ | true_ | zero | empty | orig
  | tok (n : Nat)
  deriving DecidableEq, Repr

abbrev GState := String → GVal

def GState.set (g : GState) (n : String) (v : GVal) : GState := fun m => if m = n then v else g m

/-- how a context manager restores a global when it is left -/
inductive Restore
  | saved               -- to the value it had when the block was entered
  | const (v : GVal)    -- to a constant
  deriving DecidableEq, Repr

structure CmSpec where
  name : String
  writes : List String
  restores : List (String × Restore)
  deriving Repr

/-- What the translator reads off `veneer.py` for one kind of session. -/
structure Tables where
  initial : List (String × GVal)          -- the module-level initial values
  openWrites : List String                -- globals assigned by the opener
  closeResets : List (String × GVal)      -- globals assigned by the closer, with the value
  plains : List (String × List String)    -- function ↦ globals it assigns without restoring
  cms : List CmSpec
  suspended : List String                 -- context managers held open across a `yield`
  deriving Repr

def Tables.init (T : Tables) : GState := fun n =>
  match T.initial.find? (fun e => e.1 == n) with
  | some e => e.2
  | none => .none

/-- an entered block: the values to write when it is left -/
structure Frame where
  restores : List (String × GVal)
  deriving Repr

/-- the value the frame writes to `n` when it is left (the last assignment wins), if any -/
def Frame.val (fr : Frame) (n : String) : Option GVal :=
  (fr.restores.reverse.find? (fun e => e.1 == n)).map (·.2)

/-- leaving a block: the `finally` part -/
def exitFrame (g : GState) (fr : Frame) : GState := fun n =>
  match fr.val n with
  | some v => v
  | none => g n

structure GS where
  g : GState
  stack : List Frame       -- open `with` blocks, innermost first
  deferred : List Frame    -- blocks held open by suspended generators

inductive Op
  | opener (vals : List (String × GVal))
  | plain (f : String) (vals : List (String × GVal))
  | enter (cm : String) (vals : List (String × GVal))
  | exit
  | enterDeferred (cm : String) (vals : List (String × GVal))
  | exitDeferred (k : Nat)
  deriving Repr

/-- assign the given values, but only to globals the function is known to assign -/
def writeAll (allowed : List String) (vals : List (String × GVal)) (g : GState) : GState :=
  vals.foldl (fun g e => if allowed.contains e.1 then g.set e.1 e.2 else g) g

def findCm (T : Tables) (cm : String) : Option CmSpec := T.cms.find? (fun c => c.name == cm)

def plainWrites (T : Tables) (f : String) : List String :=
  match T.plains.find? (fun e => e.1 == f) with
  | some e => e.2
  | none => []

def mkFrame (c : CmSpec) (g : GState) : Frame :=
  { restores := c.restores.map (fun e => (e.1, match e.2 with | .saved => g e.1 | .const v => v)) }

def applyOp (T : Tables) (gs : GS) : Op → GS
  | .opener vals => { gs with g := writeAll T.openWrites vals gs.g }
  | .plain f vals => { gs with g := writeAll (plainWrites T f) vals gs.g }
  | .enter cm vals =>
      match findCm T cm with
      | some c => { gs with g := writeAll c.writes vals gs.g, stack := mkFrame c gs.g :: gs.stack }
      | none => gs
  | .exit =>
      match gs.stack with
      | fr :: rest => { gs with g := exitFrame gs.g fr, stack := rest }
      | [] => gs
  | .enterDeferred cm vals =>
      match findCm T cm with
      | some c =>
          if T.suspended.contains cm then
            { gs with g := writeAll c.writes vals gs.g, deferred := gs.deferred ++ [mkFrame c gs.g] }
          else
            { gs with g := writeAll c.writes vals gs.g, stack := mkFrame c gs.g :: gs.stack }
      | none => gs
  | .exitDeferred k =>
      match gs.deferred[k]? with
      | some fr => { gs with g := exitFrame gs.g fr, deferred := gs.deferred.eraseIdx k }
      | none => gs

/-- Python leaves all open `with` blocks, innermost first -/
def unwindG : List Frame → GState → GState
  | [], g => g
  | fr :: rest, g => unwindG rest (exitFrame g fr)

/-- the closer (`endSimulation` / the `activity == 0` part of `deactivate`) -/
def closeG (T : Tables) (g : GState) : GState :=
  T.closeResets.foldl (fun g e => g.set e.1 e.2) g

def initGS (T : Tables) : GS := { g := T.init, stack := [], deferred := [] }

/-- A whole session: any operations (cut off anywhere), unwinding, the closer, and then the finalisation
    of whatever generators were still suspended (`late`). -/
def session (T : Tables) (ops : List Op) (late : List Nat) : GState :=
  let gs := ops.foldl (applyOp T) (initGS T)
  let gs1 : GS := { gs with g := closeG T (unwindG gs.stack gs.g), stack := [] }
  (late.foldl (fun gs k => applyOp T gs (.exitDeferred k)) gs1).g

/-! ### well-formedness of the tables (decidable; re-decided on the generated data on every run) -/

def isReset (T : Tables) (n : String) : Bool := T.closeResets.any (fun e => e.1 == n)

/-- the closer writes initial values only -/
def wfClose (T : Tables) : Bool := T.closeResets.all (fun e => e.2 == T.init e.1)

/-- everything the opener and the plain functions assign is reset by the closer -/
def wfWrites (T : Tables) : Bool :=
  T.openWrites.all (isReset T) && T.plains.all (fun e => e.2.all (isReset T))

def cmRestores (c : CmSpec) (n : String) : Bool := c.restores.any (fun e => e.1 == n)

/-- every context manager restores what it assigns (or the closer resets it), and constants it restores
    are the initial values (or the closer resets them) -/
def wfCms (T : Tables) : Bool :=
  T.cms.all (fun c =>
    c.writes.all (fun n => isReset T n || cmRestores c n) &&
    c.restores.all (fun e => match e.2 with
      | .saved => true
      | .const v => isReset T e.1 || v == T.init e.1))

def wf (T : Tables) : Bool := wfClose T && wfWrites T && wfCms T

/-- the globals that are assigned by the opener or a plain function and reset by nobody (diagnostics) -/
def leaks (T : Tables) : List String :=
  ((T.openWrites ++ T.plains.flatMap (·.2)).filter (fun n => !isReset T n)).eraseDups

end Scenic.Veneer
