import ScenicModel.Model.Solid
/-!
# Exact-rational solid geometry oracle with checkable certificates (property C04)

Executable, Mathlib-free.  Solids are unions of convex pieces; a convex piece is either

* a `Box` in half-space form: `{x | ∀ k, |(x - c)·aₖ| ≤ aₖ·aₖ}` with centre `c` and half-edge vectors
  `a₁ a₂ a₃` (an oriented box when the `aₖ` are orthogonal, which `Box.orthogonal` checks), or
* a `Hull`: the convex hull of a finite vertex list (membership = existence of convex weights).

Every verdict of the oracle is backed by a certificate that these *checkers* accept; the soundness of
each checker (accepted ⇒ the geometric fact holds for **all** points) is proved in `Props/C04Geo.lean`.
The search for certificates (separating axes, witnesses, coefficients) is done outside (Python, exact
`Fraction`s); nothing about that search is trusted.
-/
namespace Scenic.Solid

structure Box where
  c : V3
  a1 : V3
  a2 : V3
  a3 : V3
  deriving Repr, Inhabited

/-- `|(x-c)·a| ≤ a·a` written without `abs` -/
def slabHas (c a x : V3) : Bool :=
  decide (V3.dot (V3.sub x c) a ≤ V3.dot a a) && decide (-(V3.dot a a) ≤ V3.dot (V3.sub x c) a)

def Box.has (b : Box) (x : V3) : Bool :=
  slabHas b.c b.a1 x && slabHas b.c b.a2 x && slabHas b.c b.a3 x

def Box.orthogonal (b : Box) : Bool :=
  decide (V3.dot b.a1 b.a2 = 0) && decide (V3.dot b.a1 b.a3 = 0) && decide (V3.dot b.a2 b.a3 = 0)
  && decide (0 < V3.dot b.a1 b.a1) && decide (0 < V3.dot b.a2 b.a2) && decide (0 < V3.dot b.a3 b.a3)

/-- `t₁a₁ + t₂a₂ + t₃a₃` -/
def Box.lin (b : Box) (t : V3) : V3 :=
  V3.add (V3.add (V3.smul t.1 b.a1) (V3.smul t.2.1 b.a2)) (V3.smul t.2.2 b.a3)

/-- `|t₁| a₁·a₁ + |t₂| a₂·a₂ + |t₃| a₃·a₃` : the support of the box in direction `lin t`, relative to its centre -/
def Box.support (b : Box) (t : V3) : Rat :=
  absQ t.1 * V3.dot b.a1 b.a1 + absQ t.2.1 * V3.dot b.a2 b.a2 + absQ t.2.2 * V3.dot b.a3 b.a3

/-- the eight corners `c ± a₁ ± a₂ ± a₃` -/
def Box.corners (b : Box) : List V3 :=
  [(1, 1, 1), (1, 1, -1), (1, -1, 1), (1, -1, -1), (-1, 1, 1), (-1, 1, -1), (-1, -1, 1), (-1, -1, -1)].map
    fun (s : V3) => V3.add b.c (b.lin s)

/-- signed separation of two boxes along `n`, where `n = A.lin α = B.lin β`:
    every `x ∈ A`, `y ∈ B` has `n·(y - x) ≥ sepGap` -/
def sepGap (A B : Box) (n α β : V3) : Rat :=
  V3.dot n (V3.sub B.c A.c) - A.support α - B.support β

/-- separating-axis certificate: the axis is expressed in both box frames and the gap is positive -/
def sepCheck (A B : Box) (n α β : V3) : Bool :=
  decide (A.lin α = n) && decide (B.lin β = n) && decide (0 < sepGap A B n α β)

/-- common-point certificate -/
def witnessCheck (A B : Box) (x : V3) : Bool := A.has x && B.has x

/-- lower bound `g2 ≤ |y - x|²` for all `x ∈ A`, `y ∈ B` -/
def distLowerCheck (A B : Box) (n α β : V3) (g2 : Rat) : Bool :=
  decide (A.lin α = n) && decide (B.lin β = n) && decide (0 < V3.dot n n) &&
  decide (0 ≤ sepGap A B n α β) && decide (g2 * V3.dot n n ≤ sepGap A B n α β * sepGap A B n α β)

/-- upper bound: two points realising squared distance at most `G2` -/
def distUpperCheck (A B : Box) (x y : V3) (G2 : Rat) : Bool :=
  A.has x && B.has y && decide (V3.distSq x y ≤ G2)

/-- one face pair of the container: `a = B.lin β` and `|a·(cB - cA)| + support_B(β) ≤ a·a` -/
def faceContains (cA a : V3) (B : Box) (β : V3) : Bool :=
  decide (B.lin β = a) &&
  decide (V3.dot (V3.sub B.c cA) a + B.support β ≤ V3.dot a a) &&
  decide (-(V3.dot a a) ≤ V3.dot (V3.sub B.c cA) a - B.support β)

/-- containment certificate `B ⊆ A` -/
def containCheck (A B : Box) (β1 β2 β3 : V3) : Bool :=
  faceContains A.c A.a1 B β1 && faceContains A.c A.a2 B β2 && faceContains A.c A.a3 B β3

/-- non-containment certificate: a point of `B` outside `A` -/
def notContainCheck (A B : Box) (x : V3) : Bool := B.has x && !A.has x

/-! ### unions of boxes -/

def unionHas (bs : List Box) (x : V3) : Bool := bs.any (·.has x)

/-- `x` lies in some box of `Bs` and in no box of `As` -/
def unionNotContainCheck (As Bs : List Box) (x : V3) : Bool := unionHas Bs x && !unionHas As x

/-! ### convex hulls of vertex lists -/

def comb : List Rat → List V3 → V3
  | w :: ws, v :: vs => V3.add (V3.smul w v) (comb ws vs)
  | _, _ => V3.zero

def sumQ : List Rat → Rat
  | [] => 0
  | w :: ws => w + sumQ ws

/-- `w` are convex weights over `V` producing `x` -/
def hullWeights (V : List V3) (w : List Rat) (x : V3) : Bool :=
  decide (w.length = V.length) && w.all (fun t => decide (0 ≤ t)) && decide (sumQ w = 1) && decide (comb w V = x)

/-- all vertices of `V` have `n·v ≤ m` -/
def allBelow (n : V3) (m : Rat) (V : List V3) : Bool := V.all fun v => decide (V3.dot n v ≤ m)
/-- all vertices of `V` have `m ≤ n·v` -/
def allAbove (n : V3) (m : Rat) (V : List V3) : Bool := V.all fun v => decide (m ≤ V3.dot n v)

/-- separating plane between two hulls: `n·v ≤ lo` on `VA`, `hi ≤ n·w` on `VB`, `lo < hi` -/
def hullSepCheck (VA VB : List V3) (n : V3) (lo hi : Rat) : Bool :=
  allBelow n lo VA && allAbove n hi VB && decide (lo < hi)

/-- common point of two hulls -/
def hullWitnessCheck (VA VB : List V3) (wa wb : List Rat) (x : V3) : Bool :=
  hullWeights VA wa x && hullWeights VB wb x

/-- lower bound on the squared distance of two hulls -/
def hullDistLowerCheck (VA VB : List V3) (n : V3) (lo hi g2 : Rat) : Bool :=
  allBelow n lo VA && allAbove n hi VB && decide (lo ≤ hi) && decide (0 < V3.dot n n) &&
  decide (g2 * V3.dot n n ≤ (hi - lo) * (hi - lo))

/-- upper bound on the squared distance of two hulls -/
def hullDistUpperCheck (VA VB : List V3) (wa wb : List Rat) (x y : V3) (G2 : Rat) : Bool :=
  hullWeights VA wa x && hullWeights VB wb y && decide (V3.distSq x y ≤ G2)

/-- all vertices of `V` lie in box `A` (then the whole hull does) -/
def hullInBoxCheck (A : Box) (V : List V3) : Bool := V.all A.has

/-- a hull point outside every box of `As` -/
def hullNotInUnionCheck (As : List Box) (V : List V3) (w : List Rat) (x : V3) : Bool :=
  hullWeights V w x && !unionHas As x

/-! ### footprints: point in polygon-with-holes prisms is handled as unions of boxes by the harness;
    the planar fast path of `Object.intersects` needs only intervals -/

/-- closed intervals `[z₁ - h₁/2, z₁ + h₁/2]` and `[z₂ - h₂/2, z₂ + h₂/2]` share a point -/
def zIntervalsMeet (z1 h1 z2 h2 : Rat) : Bool :=
  decide (z1 - h1 / 2 ≤ z2 + h2 / 2) && decide (z2 - h2 / 2 ≤ z1 + h1 / 2)

end Scenic.Solid
