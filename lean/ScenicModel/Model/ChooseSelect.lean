import ScenicModel.Model.Choose
/-!
# `Options` as a function of the raw uniform value (property C19, round 4)

`Model/Choose.lean` models `Options(dict)` sampled at once as the distribution `weightedPick`.  Here the same
construction is followed through the code, as a *deterministic function of the value `u = random()`* that CPython's
`random.choices` consumes:

* `Options.__init__`: negative weight ⇒ `ValueError`, zero weights dropped, empty ⇒ `RejectionException`,
  `index = self.makeSelector(len(options) - highOff, weights)`;
* `Options.makeSelector(n, weights) = DiscreteRange(selLow, n, weights)`;
* `DiscreteRange.__init__` (weighted): `low <= high`, `len(weights) == high - low + 1`,
  `cumulativeWeights = accumulate(weights)`, `options = range(low, high + rangeOff)`;
* `DiscreteRange.sampleGiven`: `random.choices(self.options, cum_weights=self.cumulativeWeights)[takeIdx]`
  (`choices`: lengths must agree, total must be positive, `population[bisect(cum, u * total, 0, n - 1)]`);
* `MultiplexerDistribution.sampleGiven`: `assert 0 <= idx < len(self.options)`, `self.options[idx]`.

The integer constants (`highOff`, `selLow`, `rangeOff`, `takeIdx`) are read from the source by
`tools/translate/choose.py` on every run (`Gen.selectConfig`).  Any exception other than the two the property speaks
about is `Pick.crash`.
-/
namespace Scenic.Choose

/-- integer constants of the `Options → DiscreteRange → choices → Multiplexer` pipeline, extracted from the source -/
structure SelectConfig where
  /-- `self.makeSelector(len(options) - highOff, weights)` -/
  highOff : Nat
  /-- `DiscreteRange(selLow, n, weights)` -/
  selLow : Nat
  /-- `self.options = tuple(range(low, high + rangeOff))` -/
  rangeOff : Nat
  /-- `random.choices(…)[takeIdx]` -/
  takeIdx : Nat
  deriving DecidableEq, Repr

def SelectConfig.WF (s : SelectConfig) : Prop :=
  s.highOff = 1 ∧ s.selLow = 0 ∧ s.rangeOff = 1 ∧ s.takeIdx = 0

instance (s : SelectConfig) : Decidable s.WF := by unfold SelectConfig.WF; exact inferInstance

/-- `DiscreteRange(selLow, len - highOff, weights)` constructed and sampled with raw uniform value `u`:
the integer it returns (`none`: an exception other than the ones the property speaks about) -/
def selectIndex (s : SelectConfig) (ws : List Rat) (u : Rat) : Option Nat :=
  if ws.length < s.highOff then none                         -- high < 0 ≤ low: `ValueError` (lower bound above upper bound)
  else
    let high := ws.length - s.highOff
    if high < s.selLow then none                             -- `ValueError` (lower bound above upper bound)
    else if ws.length ≠ high - s.selLow + 1 then none        -- `ValueError` (wrong number of weights)
    else
      let pop := (List.range (high + s.rangeOff)).drop s.selLow   -- `tuple(range(low, high + rangeOff))`
      if pop.length ≠ ws.length then none                    -- `choices`: number of weights does not match the population
      else if ws.sum ≤ 0 then none                           -- `choices`: total of weights must be greater than zero
      else if s.takeIdx ≠ 0 then none                        -- `choices(k=1)[takeIdx]`: `IndexError`
      else pop[choicesIndex ws u]?

/-- `Options(dict)` constructed and sampled with the raw uniform value `u ∈ [0,1)` -/
def optionsSelect {α : Type} (c : Config) (s : SelectConfig) (xs : List (α × Rat)) (u : Rat) : Pick α :=
  if xs.any (fun x => x.2 < 0) then .negWeight
  else
    let nz := if c.dropZero then xs.filter (fun x => x.2 != 0) else xs
    if nz.isEmpty then .emptyDomain
    else
      match selectIndex s (nz.map Prod.snd) u with
      | none => .crash
      | some idx =>
        match nz[idx]? with                                  -- `assert 0 <= idx < len(self.options)`
        | some x => .picked x.1
        | none => .crash

/-- the sub-interval of `[0,1)` of raw uniform values that select entry `k` of the positive weights `ws` -/
def selLo (ws : List Rat) (k : Nat) : Rat := (ws.take k).sum / ws.sum
def selHi (ws : List Rat) (k : Nat) : Rat := (ws.take (k + 1)).sum / ws.sum

end Scenic.Choose
