/-!
# The documented rewrites of Scenic's compile step, on location-carrying syntax trees (model for C09)

Source: `src/scenic/syntax/compiler.py`, `ScenicToPythonTransformer.visit_Name / visit_Call / visit_ClassDef`,
`generic_visit` for every other Python node, followed by `ast.fix_missing_locations` (called by `compileScenicAST`).
Only the top-level context is modelled (not inside behaviors/monitors/compose blocks, where local names become
attribute look-ups and star arguments are left alone).

Trees are untyped: a node has a tag (the Python class name), a location and its fields in `_fields` order;
lists are cons-lists; identifiers/constants/`None`/integers are atoms. The location only keeps
`lineno`/`end_lineno` (the property speaks of line numbers).
-/
namespace Scenic.Rewrites

/-- location attributes of a node -/
inductive Loc where
  | noattr                 -- the node type has no `lineno` attribute (`Load`, `arguments`, operators, ...)
  | missing                -- a freshly built node before `fix_missing_locations`
  | at (l el : Nat)        -- `lineno`, `end_lineno`
  deriving DecidableEq, Repr, Inhabited

inductive T where
  | nil
  | cons (h t : T)
  | atom (s : String)                 -- constants (opaque), integers, `None`
  | ident (s : String)                -- identifiers
  | node (tag : String) (loc : Loc) (fields : T)
  deriving DecidableEq, Repr, Inhabited

/-- data extracted from compiler.py -/
structure Cfg where
  tracked : List String
  globalParams : String
  builtin : List String
  lifted : List (String × String)
  wrapStar : String
  callStar : String
  defaultBase : String
  propTable : String
  annAssignRejected : Bool
  deriving Repr

def idAtom (s : String) : T := .ident s

/-- identifier text -/
def identOf : T → Option String
  | .ident s => some s
  | _ => none

/-- Python's `None` -/
def noneAtom : T := .atom "~"
def loadCtx : T := .node "Load" .noattr .nil
def storeCtx : T := .node "Store" .noattr .nil
def isLoad : T → Bool
  | .node tag _ _ => tag == "Load"
  | _ => false

def list1 (a : T) : T := .cons a .nil
def list2 (a b : T) : T := .cons a (.cons b .nil)
def list3 (a b c : T) : T := .cons a (.cons b (.cons c .nil))

/-- `ast.Name(nm, ast.Load())` without location -/
def mkName (nm : String) : T := .node "Name" .missing (list2 (idAtom nm) loadCtx)

/-- `ast.Call(ast.Name(nm, loadCtx), [], [])` at `loc` (the accessor call replacing `ego`, `workspace`, `globalParameters`) -/
def accessor (loc : Loc) (nm : String) : T := .node "Call" loc (list3 (mkName nm) .nil .nil)

/-- `visit_Name` on a node with fields `fs = [id, ctx]` -/
def postName (cfg : Cfg) (loc : Loc) (fs : T) : Option T :=
  match fs with
  | .cons i (.cons ctx .nil) =>
    match identOf i with
    | some nm =>
      if cfg.builtin.contains nm then
        if !isLoad ctx then none
        else if nm == cfg.globalParams then some (accessor loc nm)
        else some (.node "Name" loc fs)
      else if cfg.tracked.contains nm then
        if !isLoad ctx then none else some (accessor loc nm)
      else some (.node "Name" loc fs)
    | none => some (.node "Name" loc fs)
  | _ => some (.node "Name" loc fs)

def linenoOf : T → Nat
  | .node _ (.at l _) _ => l
  | _ => 0

/-- the value of a `Starred(value, ctx)` node -/
def starValue : T → Option T
  | .node tag _ (.cons v (.cons _ .nil)) => if tag == "Starred" then some v else none
  | _ => none

/-- `ast.Starred(ast.Call(ast.Name(wrapStar), [v, ast.Constant(v.lineno)], []), ast.Load())`, all without location -/
def wrappedStar (cfg : Cfg) (v : T) : T :=
  let lineConst : T := .node "Constant" .missing (list2 (.atom ("i:" ++ toString (linenoOf v))) noneAtom)
  let checked : T := .node "Call" .missing (list3 (mkName cfg.wrapStar) (list2 v lineConst) .nil)
  .node "Starred" .missing (list2 checked loadCtx)

/-- wrap the starred arguments of an (already visited) argument list; the flag says whether any was wrapped -/
def wrapStars (cfg : Cfg) : T → T × Bool
  | .cons a rest =>
    match starValue a with
    | some v => (.cons (wrappedStar cfg v) (wrapStars cfg rest).1, true)
    | none => (.cons a (wrapStars cfg rest).1, (wrapStars cfg rest).2)
  | t => (t, false)

/-- `(loc, identifier, ctx)` of a `Name(id, ctx)` node -/
def nameParts : T → Option (Loc × String × T)
  | .node tag loc (.cons i (.cons ctx .nil)) =>
    if tag == "Name" then (identOf i).map fun nm => (loc, nm, ctx) else none
  | _ => none

def liftName (cfg : Cfg) (func : T) : T :=
  match nameParts func with
  | some (loc, nm, ctx) =>
    match cfg.lifted.lookup nm with
    | some nm' => .node "Name" loc (list2 (idAtom nm') ctx)
    | none => func
  | none => func

/-- `visit_Call` on the visited fields `[func, args, keywords]` -/
def postCall (cfg : Cfg) (loc : Loc) (fs' : T) : T :=
  match fs' with
  | .cons func (.cons args (.cons kws .nil)) =>
    if (wrapStars cfg args).2 then
      .node "Call" loc (list3 (mkName cfg.callStar) (.cons (liftName cfg func) (wrapStars cfg args).1) kws)
    else .node "Call" loc (list3 (liftName cfg func) (wrapStars cfg args).1 kws)
  | _ => .node "Call" loc fs'

def isEmptyList : T → Bool
  | .nil => true
  | _ => false

def hasTag (tag : String) : T → Bool
  | .node t _ _ => t == tag
  | _ => false

def anyTag (tag : String) : T → Bool
  | .cons h t => hasTag tag h || anyTag tag t
  | _ => false

def append1 : T → T → T
  | .cons h t, x => .cons h (append1 t x)
  | _, x => .cons x .nil

/-- `visit_ClassDef`: `fs` are the original fields `[name, bases, keywords, body, decorator_list, type_params…]`,
    `fs'` the visited ones -/
def postClass (cfg : Cfg) (loc : Loc) (fs fs' : T) : Option T :=
  match fs, fs' with
  | .cons _ (.cons bases (.cons _ (.cons body _))), .cons name' (.cons bases' (.cons kws' (.cons body' rest'))) =>
    if cfg.annAssignRejected && anyTag "AnnAssign" body then none
    else do
      let base ← postName cfg .missing (list2 (idAtom cfg.defaultBase) loadCtx)
      let target ← postName cfg .missing (list2 (idAtom cfg.propTable) storeCtx)
      let table : T := .node "Assign" .missing
        (list3 (list1 target) (.node "Dict" .missing (list2 .nil .nil)) noneAtom)
      let bases'' := if isEmptyList bases then list1 base else bases'
      some (.node "ClassDef" loc (.cons name' (.cons bases'' (.cons kws' (.cons (append1 body' table) rest')))))
  | _, _ => some (.node "ClassDef" loc fs')

/-- the transformer: children first (generic visit), then the node-specific rewrite -/
def rw (cfg : Cfg) : T → Option T
  | .nil => some .nil
  | .atom s => some (.atom s)
  | .ident s => some (.ident s)
  | .cons h t => do
    let h' ← rw cfg h
    let t' ← rw cfg t
    some (.cons h' t')
  | .node tag loc fs => do
    let fs' ← rw cfg fs
    if tag == "Name" then postName cfg loc fs
    else if tag == "Call" then some (postCall cfg loc fs')
    else if tag == "ClassDef" then postClass cfg loc fs fs'
    else some (.node tag loc fs')

/-- `ast.fix_missing_locations`: a node without location takes the one of the nearest located ancestor -/
def fixLoc (cur : Nat × Nat) : T → T
  | .nil => .nil
  | .atom s => .atom s
  | .ident s => .ident s
  | .cons h t => .cons (fixLoc cur h) (fixLoc cur t)
  | .node tag loc fs =>
    match loc with
    | .noattr => .node tag .noattr (fixLoc cur fs)
    | .missing => .node tag (.at cur.1 cur.2) (fixLoc cur fs)
    | .at l el => .node tag (.at l el) (fixLoc (l, el) fs)

/-- `compileScenicAST` on a plain-Python module: the rewrites, then `fix_missing_locations` (which starts at line 1) -/
def compile (cfg : Cfg) (t : T) : Option T := (rw cfg t).map (fixLoc (1, 1))

/-! ## predicates used by the theorems -/

/-- every node that can carry a location has one -/
def located : T → Bool
  | .nil | .atom _ | .ident _ => true
  | .cons h t => located h && located t
  | .node _ loc fs => (match loc with | .missing => false | _ => true) && located fs

/-- all line numbers (`lineno` and `end_lineno`) occurring in the tree -/
def lines : T → List Nat
  | .nil | .atom _ | .ident _ => []
  | .cons h t => lines h ++ lines t
  | .node _ loc fs => (match loc with | .at l el => [l, el] | _ => []) ++ lines fs

def rootLoc : T → Loc
  | .node _ loc _ => loc
  | _ => .noattr

def isTriggerName (cfg : Cfg) (fs : T) : Bool :=
  match fs with
  | .cons i _ => match identOf i with
    | some nm => cfg.builtin.contains nm || cfg.tracked.contains nm
    | none => false
  | _ => false

def hasStarred : T → Bool
  | .cons a t => (starValue a).isSome || hasStarred t
  | _ => false

def callArgs : T → T
  | .cons _ (.cons args _) => args
  | _ => .nil

/-- nothing for the documented rewrites to do: no reserved/tracked name, no starred call argument, no class -/
def noTrigger (cfg : Cfg) : T → Bool
  | .nil | .atom _ | .ident _ => true
  | .cons h t => noTrigger cfg h && noTrigger cfg t
  | .node tag _ fs =>
    noTrigger cfg fs &&
    (if tag == "Name" then !isTriggerName cfg fs
     else if tag == "Call" then !hasStarred (callArgs fs)
     else tag != "ClassDef")

end Scenic.Rewrites
