/-!
# C05 — delayed arguments and `self.`-dependent defaults are evaluated against final property values

`Constructible._resolveSpecifiers` evaluates the specifiers one after the other in a context holding the
properties assigned so far (`spec.getValuesFor(context)` → `valueInContext(DelayedArgument, context)`), assigning the
properties each specifier specifies (or modifies).  A specifier's value is a function of the context that reads only
the properties it declared as dependencies.  Mathlib-free.
-/
namespace Scenic.Delayed

abbrev Prop' := Nat                      -- property names
abbrev Ctx (α : Type) := Prop' → Option α    -- the context: properties assigned so far

/-- a resolved specifier: the properties it reads, the properties it assigns, and its (lazily evaluated) value -/
structure Spec (α : Type) where
  deps : List Prop'
  sets : List Prop'
  value : Ctx α → Prop' → α

/-- assign the properties of one specifier, evaluated in the current context -/
def applySpec {α} (s : Spec α) (ctx : Ctx α) : Ctx α :=
  fun p => if p ∈ s.sets then some (s.value ctx p) else ctx p

/-- `for spec in order: ... cls._specify(context, prop, value)` -/
def run {α} : List (Spec α) → Ctx α → Ctx α
  | [], ctx => ctx
  | s :: rest, ctx => run rest (applySpec s ctx)

/-- the value of a specifier depends only on the properties it declares as dependencies -/
def Spec.local {α} (s : Spec α) : Prop :=
  ∀ c1 c2 : Ctx α, (∀ p ∈ s.deps, c1 p = c2 p) → ∀ q, s.value c1 q = s.value c2 q

/-- the order in which the specifiers are evaluated never assigns a property after it has been read:
    every specifier that assigns a dependency of `s` (including modifying specifiers) comes before `s` -/
def wellOrdered {α} : List (Spec α) → Bool
  | [] => true
  | s :: rest => (rest.all fun t => s.deps.all fun p => !(p ∈ t.sets)) && (s.deps.all fun p => !(p ∈ s.sets))
                 && wellOrdered rest

end Scenic.Delayed
