/-!
# C05 — delayed arguments and `self.`-dependent defaults are evaluated against final property values

`Constructible._resolveSpecifiers` evaluates the specifiers one after the other in a context holding the
properties assigned so far (`spec.getValuesFor(context)` → `valueInContext(DelayedArgument, context)`), assigning the
properties each specifier specifies (or modifies).  A specifier's value is a function of the context that reads only
the properties it declared as dependencies.  Mathlib-free.
-/
namespace Scenic.Delayed

abbrev Prop' := Nat                      -- property names
abbrev Ctx (α : Type) := Prop' → Option α    -- the context: properties assigned so far

/-- a resolved specifier: the properties it reads, the properties it assigns, and its (lazily evaluated) value -/
structure Spec (α : Type) where
  deps : List Prop'
  sets : List Prop'
  value : Ctx α → Prop' → α

/-- assign the properties of one specifier, evaluated in the current context -/
def applySpec {α} (s : Spec α) (ctx : Ctx α) : Ctx α :=
  fun p => if p ∈ s.sets then some (s.value ctx p) else ctx p

/-- `for spec in order: ... cls._specify(context, prop, value)` -/
def run {α} : List (Spec α) → Ctx α → Ctx α
  | [], ctx => ctx
  | s :: rest, ctx => run rest (applySpec s ctx)

/-- the value of a specifier depends only on the properties it declares as dependencies -/
def Spec.local {α} (s : Spec α) : Prop :=
  ∀ c1 c2 : Ctx α, (∀ p ∈ s.deps, c1 p = c2 p) → ∀ q, s.value c1 q = s.value c2 q

/-- the order in which the specifiers are evaluated never assigns a property after it has been read:
    every specifier that assigns a dependency of `s` (including modifying specifiers) comes before `s` -/
def wellOrdered {α} : List (Spec α) → Bool
  | [] => true
  | s :: rest => (rest.all fun t => s.deps.all fun p => !(p ∈ t.sets)) && (s.deps.all fun p => !(p ∈ s.sets))
                 && wellOrdered rest

/-! ## Delayed values built by lifted calls (`lazy_eval.py`)

A lifted function / method called with a lazily evaluated argument (and no random one) returns
`makeDelayedFunctionCall(helper, args, kwargs)`; operators, attribute access and calls on a `DelayedArgument` build
further `DelayedArgument`s.  Each constructor unions the `_requiredProperties` of (some of) its operands into the
new value's `_requiredProperties` — *which* operands is read off the source (`Shapes`, generated) — while the value
function evaluates **every** operand (positional and keyword) with `valueInContext`. -/

/-- the four constructors of derived delayed values -/
inductive Kind where
  | fnCall     -- makeDelayedFunctionCall(func, args, kwargs)
  | dCall      -- DelayedArgument.__call__(self, *args, **kwargs)   (first positional operand = self)
  | opCall     -- makeDelayedOperatorHandler(op)(self, *args)        (first positional operand = self)
  | attrGet    -- DelayedArgument.__getattr__(self, name)            (only operand = self)
  deriving DecidableEq, Repr

/-- which operands each constructor collects required properties from (extracted from the source) -/
structure Shapes where
  fnPos : Bool
  fnKw : Bool
  dcallSelf : Bool
  dcallPos : Bool
  dcallKw : Bool
  opSelf : Bool
  opArgs : Bool
  attrSelf : Bool
  deriving DecidableEq, Repr

/-- every operand that is evaluated is also collected -/
def Shapes.WF (S : Shapes) : Bool :=
  S.fnPos && S.fnKw && S.dcallSelf && S.dcallPos && S.dcallKw && S.opSelf && S.opArgs && S.attrSelf

/-- does constructor `k` collect the required properties of an operand (keyword? first positional?) -/
def collects (S : Shapes) (k : Kind) (kw first : Bool) : Bool :=
  match k with
  | .fnCall => if kw then S.fnKw else S.fnPos
  | .dCall => if kw then S.dcallKw else if first then S.dcallSelf else S.dcallPos
  | .opCall => if first then S.opSelf else S.opArgs
  | .attrGet => S.attrSelf

/-- delayed values; operand lists are `nil` / `arg kw d rest` chains (`kw` = passed by keyword) -/
inductive DVal where
  | const (v : Int)
  | prop (p : Prop')                             -- a primitive DelayedArgument reading property `p`
  | nil
  | arg (kw : Bool) (d : DVal) (rest : DVal)
  | call (k : Kind) (f : Nat) (args : DVal)
  deriving Repr

/-- `_requiredProperties` as the code computes it; `(k, first)` = the constructor whose operand list we are in -/
def required (S : Shapes) (k : Kind) (first : Bool) : DVal → List Prop'
  | .const _ => []
  | .prop p => [p]
  | .nil => []
  | .arg kw d rest => (if collects S k kw first then required S k first d else []) ++ required S k (first && kw) rest
  | .call k' _ args => required S k' true args

/-- the properties read when the value is evaluated (`valueInContext` of every operand) -/
def reads : DVal → List Prop'
  | .const _ => []
  | .prop p => [p]
  | .nil => []
  | .arg _ d rest => reads d ++ reads rest
  | .call _ _ args => reads args

def headVal (l : List (Bool × Int)) : Int := (l.head?.map (·.2)).getD 0

/-- evaluation in a context; `I f operands` = the lifted Python function (operands tagged keyword / positional) -/
def evalD (I : Nat → List (Bool × Int) → Int) (ctx : Ctx Int) : DVal → List (Bool × Int)
  | .const v => [(false, v)]
  | .prop p => [(false, (ctx p).getD 0)]
  | .nil => []
  | .arg kw d rest => (kw, headVal (evalD I ctx d)) :: evalD I ctx rest
  | .call _ f args => [(false, I f (evalD I ctx args))]

/-- the specifier `with prop <delayed value>`: dependencies = the declared required properties -/
def delayedSpec (S : Shapes) (I : Nat → List (Bool × Int) → Int) (d : DVal) (sets : List Prop') : Spec Int :=
  { deps := required S .fnCall true d, sets := sets, value := fun ctx _ => headVal (evalD I ctx d) }

end Scenic.Delayed
