/-
Model of the region samplers of `src/scenic/core/regions.py` (property C03), core Lean only.

Part 1 (discrete / atomic): a sampler is a *sub-probability mass list* `SubPMF α` (outcomes with
exact rational weights; the missing mass is the probability of a `RejectionException`).
A region is abstracted as a finite list of equal-measure atoms; for `PointSetRegion`/`GridRegion`
the atoms are the points themselves, so the model is exact there.  Modelled (as written in the code):

* `PointSetRegion.uniformPointInner`            (`random.randrange`)             -> `uniformList`
* `IntersectionRegion.genericSampler`           (dimension filter, first fit)    -> `interSampler`
* `UnionRegion.genericSampler`                  (max-dimension filter, size-weighted choice,
                                                 `1 - 1/containment_count` rejection)  -> `unionSampler`
* `DifferenceRegion.genericSampler`                                              -> `diffSampler`
* the sampler installed by `PointSetRegion.intersect` (candidate ball from the other region's
  `circumcircle`, filter by `containsPoint`, `random.choice`)                    -> `ballSampler`
* `PolylineRegion/PathRegion.uniformPointInner` segment choice (`random.choices` by length) and
  `PolygonalRegion.uniformPointInner` (triangle by area, then bounding-box rejection loop)
                                                                                 -> `weightedPick`, `rejectionLoop`

The knobs that the translator regenerates from the source on every run are collected in `SamplerCfg`.

Part 2 (closed forms): the maps from the raw random draws to the returned point for
`RectangularRegion`, `CircularRegion`, `SectorRegion`, `PolylineRegion`, `PathRegion`, `VoxelRegion`,
`PolygonalRegion`, over exact rationals, with the membership predicates they must satisfy, and the
candidate balls (`circumcircle`) of the planar classes and of `MeshRegion`.
-/
namespace Scenic.RegionSampling

/-! ## Part 1: sub-probability mass lists -/

abbrev SubPMF (α : Type) := List (α × Rat)

variable {α : Type}

/-- total mass (probability that a point is returned) -/
def total (p : SubPMF α) : Rat := (p.map Prod.snd).sum

/-- mass of one outcome -/
def mass [DecidableEq α] (p : SubPMF α) (x : α) : Rat := total (p.filter fun e => e.1 = x)

def scale (c : Rat) (p : SubPMF α) : SubPMF α := p.map fun e => (e.1, c * e.2)

/-- `random.randrange(len(l))` / `random.choice(l)`: each *position* of the list equally likely -/
def uniformList (l : List α) : SubPMF α := l.map fun x => (x, 1 / (l.length : Rat))

/-- `random.choices(pop, weights=ws)[0]` followed by a per-item sampler -/
def weightedPick {β : Type} (items : List β) (w : β → Rat) (f : β → SubPMF α) : SubPMF α :=
  let W := (items.map w).sum
  items.flatMap fun b => scale (w b / W) (f b)

/-- comparison operators that may appear in the dimension filters -/
inductive CmpOp | le | lt | eq | ge | gt
  deriving DecidableEq, Repr

def CmpOp.eval : CmpOp → Nat → Nat → Bool
  | .le, a, b => a ≤ b
  | .lt, a, b => a < b
  | .eq, a, b => a == b
  | .ge, a, b => a ≥ b
  | .gt, a, b => a > b

/-- how `UnionRegion.genericSampler` turns the containment count into an acceptance probability -/
inductive AcceptKind
  | invCount      -- reject iff `random.random() < 1 - 1 / containment_count`
  | always        -- no multiplicity rejection
  | invCountSq    -- (placeholder for any other recognised shape; never proved uniform)
  deriving DecidableEq, Repr

/-- what the weights passed to `random.choices` are -/
inductive WeightKind | size | one
  deriving DecidableEq, Repr

/-- over which regions the containment count ranges -/
inductive CountScope | allRegs | largeRegs
  deriving DecidableEq, Repr

/-- how the drawn region itself enters the containment count of `UnionRegion.genericSampler` -/
inductive SelfCount
  | byConstruction   -- `1 + sum(... for reg in <scope> if reg is not target_reg)`: counted because it was drawn from
  | byTest           -- `sum(... for reg in <scope>)`: the drawn region is asked about its own sample
  deriving DecidableEq, Repr

/-- which test a composed region (`IntersectionRegion` / `UnionRegion` / `DifferenceRegion`) answers
    `_trueContainsPoint` with -/
inductive ComposedMembership
  | inherited    -- no own definition: `Region._trueContainsPoint = containsPoint`, which tests the operands' *footprints*
  | structural   -- `all` / `any` / `A and not B` over the operands' `_trueContainsPoint`
  deriving DecidableEq, Repr

/-- data regenerated from the source by `tools/translate/regionsampling.py` -/
structure SamplerCfg where
  /-- `r.dimensionality is None or r.dimensionality <op> min_dim` in `IntersectionRegion.genericSampler` -/
  interDimOp : CmpOp
  /-- the first-fit test is `all(region._trueContainsPoint(point) for region in regs)` (all operands) -/
  interChecksAll : Bool
  /-- `reg.dimensionality <op> max_dim` in `UnionRegion.genericSampler` -/
  unionDimOp : CmpOp
  unionWeight : WeightKind
  unionCount : CountScope
  unionAccept : AcceptKind
  /-- whether the drawn region is counted by construction or by asking its own membership test -/
  unionSelf : SelfCount
  /-- `DifferenceRegion.genericSampler` rejects exactly when `regionB._trueContainsPoint(point)` -/
  diffRejectsInB : Bool
  /-- `IntersectionRegion._trueContainsPoint` / `UnionRegion._trueContainsPoint` / `DifferenceRegion._trueContainsPoint` -/
  interTrue : ComposedMembership := .structural
  unionTrue : ComposedMembership := .structural
  diffTrue : ComposedMembership := .structural
  deriving DecidableEq, Repr

/-- by which test the sampler installed by `PointSetRegion.intersect` filters its candidates -/
inductive BallFilter
  | containsPoint       -- `o.containsPoint(p)` (ignores z for polygonal regions)
  | trueContainsPoint   -- `o._trueContainsPoint(p)`
  | none                -- no test
  deriving DecidableEq, Repr

/-- what the sampler installed by `PointSetRegion.intersect` does when the other region has no `circumcircle` -/
inductive BallFallback
  | allPoints        -- `if hasattr(o, "circumcircle"): ... else: indices = range(len(self.kdTree.data))`
  | attributeError   -- no guard: `o.circumcircle` raises (no point is ever returned)
  deriving DecidableEq, Repr

/-- the configuration the theorems are proved for -/
def SamplerCfg.reference : SamplerCfg :=
  { interDimOp := .le, interChecksAll := true, unionDimOp := .eq, unionWeight := .size,
    unionCount := .allRegs, unionAccept := .invCount, unionSelf := .byConstruction, diffRejectsInB := true,
    interTrue := .structural, unionTrue := .structural, diffTrue := .structural }

/-- A region as seen by the generic samplers. -/
structure Operand (α : Type) where
  /-- `uniformPointInner`: `none` = raises `UndefinedSamplingException` -/
  sampler : Option (SubPMF α)
  /-- `dimensionality` (`none` = `None`) -/
  dim : Option Nat
  /-- `size` (`none` = `None` or infinite) -/
  size : Option Rat
  /-- `_trueContainsPoint` (what the generic samplers test) -/
  contains : α → Bool
  /-- `containsPoint` (what the point-set sampler tests; ignores z for polygonal regions) -/
  containsPt : α → Bool := contains
  /-- `convertToFootprint(region).containsPoint` (what the `containsPoint` of a composed region tests on its operands) -/
  footprint : α → Bool := containsPt

/-- a primitive region of dimension `d` made of the equal-measure atoms `atoms`, each of measure `μ` -/
def primOperand [DecidableEq α] (d : Nat) (μ : Rat) (atoms : List α) : Operand α :=
  { sampler := some (uniformList atoms), dim := some d, size := some (μ * atoms.length),
    contains := fun x => decide (x ∈ atoms) }

def listMin : List Nat → Option Nat
  | [] => none
  | a :: l => some (l.foldl min a)

def listMax : List Nat → Option Nat
  | [] => none
  | a :: l => some (l.foldl max a)

/-! ### IntersectionRegion.genericSampler -/

/-- the `for reg in sampling_regions` loop: first point lying in every operand wins -/
def interFirstFit (inAll : α → Bool) : List (Option (SubPMF α)) → SubPMF α
  | [] => []
  | none :: rest => interFirstFit inAll rest
  | some p :: rest =>
    let hit := p.filter fun e => inAll e.1
    hit ++ scale (1 - total hit) (interFirstFit inAll rest)

def interSamplingRegions (cfg : SamplerCfg) (ops : List (Operand α)) : List (Operand α) :=
  match listMin (ops.filterMap (·.dim)) with
  | none => ops
  | some m => ops.filter fun o => match o.dim with
    | none => true
    | some d => cfg.interDimOp.eval d m

def interSampler (cfg : SamplerCfg) (ops : List (Operand α)) : Option (SubPMF α) :=
  let sampling := interSamplingRegions cfg ops
  if sampling.all (·.sampler.isNone) then none
  else
    let test : α → Bool := fun x =>
      if cfg.interChecksAll then ops.all (·.contains x) else true
    some (interFirstFit test (sampling.map (·.sampler)))

/-! ### UnionRegion.genericSampler -/

def containCount (ops : List (Operand α)) (x : α) : Nat := (ops.filter (·.contains x)).length

def acceptProb : AcceptKind → Nat → Rat
  | .invCount, c => if c = 0 then 0 else 1 / (c : Rat)      -- c = 0: ZeroDivisionError, no point returned (only possible with `SelfCount.byTest`)
  | .always, _ => 1
  | .invCountSq, c => if c = 0 then 0 else 1 / ((c : Rat) * c)

def opSize (o : Operand α) : Rat := o.size.getD 0

def isLarge (cfg : SamplerCfg) (m : Nat) (o : Operand α) : Bool :=
  match o.dim with
  | none => false
  | some d => cfg.unionDimOp.eval d m

def unionLarge (cfg : SamplerCfg) (ops : List (Operand α)) : List (Operand α) :=
  match listMax (ops.filterMap (·.dim)) with
  | none => []
  | some m => ops.filter (isLarge cfg m)

/-- the operands paired with their position in `union.regions` (the position stands for object identity) -/
def unionLargeIdx (cfg : SamplerCfg) (ops : List (Operand α)) : List (Operand α × Nat) :=
  match listMax (ops.filterMap (·.dim)) with
  | none => []
  | some m => ops.zipIdx.filter fun oi => isLarge cfg m oi.1

/-- `containment_count` for a point `x` drawn from the operand at position `i`.
    `same i j` = "the operands at positions `i` and `j` are the same object" (`reg is target_reg`). -/
def unionCountAt (cfg : SamplerCfg) (scope : List (Operand α × Nat)) (same : Nat → Nat → Bool) (i : Nat) (x : α) : Nat :=
  match cfg.unionSelf with
  | .byTest => (scope.filter fun oj => oj.1.contains x).length
  | .byConstruction => 1 + (scope.filter fun oj => !same i oj.2 && oj.1.contains x).length

def unionSampler (cfg : SamplerCfg) (ops : List (Operand α))
    (same : Nat → Nat → Bool := fun i j => i == j) : Option (SubPMF α) :=
  if ops.any (·.dim.isNone) then none else
  let large := unionLargeIdx cfg ops
  if large.any (·.1.size.isNone) then none else
  if large.any (·.1.sampler.isNone) then none else
  let w : Operand α × Nat → Rat := fun oi => match cfg.unionWeight with
    | .size => opSize oi.1
    | .one => 1
  let scope := match cfg.unionCount with
    | .allRegs => ops.zipIdx
    | .largeRegs => large
  some (weightedPick large w fun oi =>
    (oi.1.sampler.getD []).map fun e =>
      (e.1, e.2 * acceptProb cfg.unionAccept (unionCountAt cfg scope same oi.2 e.1)))

/-! ### DifferenceRegion.genericSampler -/

def diffSampler (cfg : SamplerCfg) (a b : Operand α) : Option (SubPMF α) :=
  match a.sampler with
  | none => none
  | some p => some (p.filter fun e => if cfg.diffRejectsInB then !b.contains e.1 else true)

/-! ### the sampler installed by PointSetRegion.intersect -/

/-- `possibles` = points of the set inside the candidate ball; `intersection` = those the other
    region contains; `random.choice` among them (rejection when there are none). -/
def ballSampler (points : List α) (inBall : α → Bool) (contains : α → Bool) : SubPMF α :=
  uniformList ((points.filter inBall).filter contains)

/-- the same sampler with the `hasattr(o, "circumcircle")` guard: `ball = none` means the other region has no
    candidate ball -/
def ballSamplerOpt (fb : BallFallback) (points : List α) (ball : Option (α → Bool)) (contains : α → Bool) : SubPMF α :=
  match ball, fb with
  | some inBall, _ => ballSampler points inBall contains
  | none, .allPoints => ballSampler points (fun _ => true) contains
  | none, .attributeError => []

/-! ### bounding-box rejection loop of PolygonalRegion.uniformPointInner -/

/-- `n` rounds of: draw uniformly from the box atoms, return if inside the triangle.
    (The code loops forever; `n` rounds is the exact distribution of "returned within `n` rounds".) -/
def rejectionLoop (box : List α) (inTri : α → Bool) : Nat → SubPMF α
  | 0 => []
  | n + 1 =>
    let hit := (uniformList box).filter fun e => inTri e.1
    hit ++ scale (1 - total hit) (rejectionLoop box inTri n)

/-- `n` rounds of a retry loop around one `pass` (a sub-PMF whose missing mass means "try again"):
    the outer `while True` of `PolygonalRegion.uniformPointInner`. -/
def retryLoop (pass : SubPMF α) : Nat → SubPMF α
  | 0 => []
  | n + 1 => pass ++ scale (1 - total pass) (retryLoop pass n)

/-- one pass of `PolygonalRegion.uniformPointInner` (inner bounding-box loop taken at its limit, the uniform
    distribution on the chosen triangle): triangle chosen with weight `μ·|t|` (its area), uniform atom of it,
    and — when the source has the guard `if shapely.intersects_xy(self.polygons, x, y)` — kept only if it lies in
    the polygon (the triangulation may overshoot). -/
def polygonPass (outerFilter : Bool) (μ : Rat) (tris : List (List α)) (inPoly : α → Bool) : SubPMF α :=
  let cand := weightedPick tris (fun t => μ * (t.length : Rat)) uniformList
  if outerFilter then cand.filter fun e => inPoly e.1 else cand

def polygonSampler (outerFilter : Bool) (μ : Rat) (tris : List (List α)) (inPoly : α → Bool) (n : Nat) : SubPMF α :=
  retryLoop (polygonPass outerFilter μ tris inPoly) n

/-! ### a straight-line program of region constructions (used by the driver) -/

inductive Instr (α : Type)
  /-- point set / grid: atoms (with the duplicates the code keeps), and its `containsPoint` as an explicit atom list -/
  | points (atoms : List α) (member : List α)
  /-- a region used only through `dimensionality`, `size`, `_trueContainsPoint`, `containsPoint` and its footprint's
      `containsPoint`, each given as an explicit atom list (never sampled in the discrete fragment) -/
  | opaque (dim : Option Nat) (size : Option Rat) (member memberPt memberFp : List α)
  | inter (args : List Nat)
  | union (args : List Nat)
  | diff (a b : Nat)
  /-- `PointSetRegion.intersect(other)` with the specialised sampler: points, atoms inside the ball, index of other -/
  | ball (pts : Nat) (inBall : Option (List α)) (other : Nat)

def undefinedOperand : Operand α := { sampler := none, dim := none, size := none, contains := fun _ => false }

/-- a composed region: `containsPoint` (and the footprint's) is `c`, which tests the operands' footprints;
    `_trueContainsPoint` is `ct` (structural over the operands' `_trueContainsPoint`) when the class defines it,
    and the inherited default `containsPoint` otherwise -/
def composed (how : ComposedMembership) (sampler : Option (SubPMF α)) (ct c : α → Bool) : Operand α :=
  { sampler := sampler, dim := none, size := none,
    contains := match how with
      | .structural => ct
      | .inherited => c,
    containsPt := c, footprint := c }

def evalInstr [DecidableEq α] (cfg : SamplerCfg) (bf : BallFilter) (fb : BallFallback) (env : List (Operand α)) : Instr α → Operand α
  | .points atoms member =>
    { sampler := some (uniformList atoms), dim := some 0, size := some (atoms.length : Rat),
      contains := fun x => decide (x ∈ member) }
  | .opaque d s member memberPt memberFp =>
    { sampler := none, dim := d, size := s, contains := fun x => decide (x ∈ member),
      containsPt := fun x => decide (x ∈ memberPt), footprint := fun x => decide (x ∈ memberFp) }
  | .inter args =>
    let ops := args.map fun i => env.getD i undefinedOperand
    composed cfg.interTrue (interSampler cfg ops) (fun x => ops.all (·.contains x)) fun x => ops.all (·.footprint x)
  | .union args =>
    let ops := args.map fun i => env.getD i undefinedOperand
    -- two positions denote the same region object iff they refer to the same instruction
    composed cfg.unionTrue (unionSampler cfg ops fun i j => args[i]? == args[j]?) (fun x => ops.any (·.contains x))
      fun x => ops.any (·.containsPt x)
  | .diff a b =>
    let oa := env.getD a undefinedOperand
    let ob := env.getD b undefinedOperand
    composed cfg.diffTrue (diffSampler cfg oa ob) (fun x => oa.contains x && !ob.contains x)
      fun x => oa.footprint x && !ob.footprint x
  | .ball pts inBall other =>
    let op := env.getD pts undefinedOperand
    let oo := env.getD other undefinedOperand
    let atoms := (op.sampler.getD []).map Prod.fst
    let test : α → Bool := match bf with
      | .containsPoint => oo.containsPt
      | .trueContainsPoint => oo.contains
      | .none => fun _ => true
    -- the result of `PointSetRegion.intersect` is an `IntersectionRegion(self, other, sampler=…)`
    composed cfg.interTrue (some (ballSamplerOpt fb atoms (inBall.map fun l x => decide (x ∈ l)) test))
      (fun x => op.contains x && oo.contains x) fun x => op.footprint x && oo.footprint x

def evalProgram [DecidableEq α] (cfg : SamplerCfg) (bf : BallFilter) (fb : BallFallback) (prog : List (Instr α)) : List (Operand α) :=
  prog.foldl (fun env i => env ++ [evalInstr cfg bf fb env i]) []

/-- the set a region program denotes: membership decided from the *leaves'* `_trueContainsPoint` by the set operations
    (`envD` = the denotations of the earlier instructions; a dangling reference denotes the empty set) -/
def denoteInstr [DecidableEq α] (envD : List (α → Bool)) : Instr α → α → Bool
  | .points _ member => fun x => decide (x ∈ member)
  | .opaque _ _ member _ _ => fun x => decide (x ∈ member)
  | .inter args => fun x => args.all fun i => envD.getD i (fun _ => false) x
  | .union args => fun x => args.any fun i => envD.getD i (fun _ => false) x
  | .diff a b => fun x => envD.getD a (fun _ => false) x && !envD.getD b (fun _ => false) x
  | .ball pts _ other => fun x => envD.getD pts (fun _ => false) x && envD.getD other (fun _ => false) x

def denoteProgram [DecidableEq α] (prog : List (Instr α)) : List (α → Bool) :=
  prog.foldl (fun envD i => envD ++ [denoteInstr envD i]) []

/-- merge equal outcomes (for printing) -/
def collect [DecidableEq α] (p : SubPMF α) : SubPMF α :=
  (p.map Prod.fst).eraseDups.map fun x => (x, mass p x)

/-! ## Part 2: closed-form samplers over exact rationals -/

structure V3 where
  x : Rat
  y : Rat
  z : Rat
  deriving DecidableEq, Repr

def V3.add (a b : V3) : V3 := ⟨a.x + b.x, a.y + b.y, a.z + b.z⟩
def V3.sub (a b : V3) : V3 := ⟨a.x - b.x, a.y - b.y, a.z - b.z⟩
def V3.smul (t : Rat) (a : V3) : V3 := ⟨t * a.x, t * a.y, t * a.z⟩
def V3.dot (a b : V3) : Rat := a.x * b.x + a.y * b.y + a.z * b.z
def V3.normSq (a : V3) : Rat := a.dot a
def V3.cross (a b : V3) : V3 := ⟨a.y * b.z - a.z * b.y, a.z * b.x - a.x * b.z, a.x * b.y - a.y * b.x⟩

/-- which z coordinate a planar sampler writes into the returned `Vector` (regenerated from the source) -/
inductive ZKind
  | regionZ   -- the z of the region (`self.z`, the z of `self.center`, or position + an offset with z = 0)
  | zero      -- the literal 0
  | other
  deriving DecidableEq, Repr

def zOf : ZKind → Rat → Rat
  | .regionZ, z => z
  | .zero, _ => 0
  | .other, z => z + 1   -- any unrecognised expression is modelled as "not the region's z"

/-- `Vector.rotatedBy(angle)` with `c = cos angle`, `s = sin angle` -/
def rotZ (c s : Rat) (v : V3) : V3 := ⟨c * v.x - s * v.y, s * v.x + c * v.y, v.z⟩

/-- `RectangularRegion.uniformPointInner`: `position.offsetRotated(heading, Vector(rx, ry, 0))` -/
def rectSample (zk : ZKind) (pos : V3) (c s rx ry : Rat) : V3 :=
  let p := pos.add (rotZ c s ⟨rx, ry, 0⟩)
  ⟨p.x, p.y, zOf zk p.z⟩

/-- the rectangle as a set: local coordinates (rotate back by the heading) within the half extents, same z -/
def inRect (pos : V3) (c s hw hl : Rat) (p : V3) : Prop :=
  0 - hw ≤ c * (p.x - pos.x) + s * (p.y - pos.y) ∧ c * (p.x - pos.x) + s * (p.y - pos.y) ≤ hw ∧
  0 - hl ≤ c * (p.y - pos.y) - s * (p.x - pos.x) ∧ c * (p.y - pos.y) - s * (p.x - pos.x) ≤ hl ∧ p.z = pos.z

/-- `CircularRegion.uniformPointInner`: `Vector(x + r cos t, y + r sin t, z)` -/
def discSample (zk : ZKind) (ctr : V3) (r ct st : Rat) : V3 :=
  ⟨ctr.x + r * ct, ctr.y + r * st, zOf zk ctr.z⟩

def inDisc (ctr : V3) (R : Rat) (p : V3) : Prop :=
  (p.x - ctr.x) * (p.x - ctr.x) + (p.y - ctr.y) * (p.y - ctr.y) ≤ R * R ∧ p.z = ctr.z

/-- `SectorRegion.uniformPointInner`: direction = the heading direction `(hx, hy) = (-sin h, cos h)`
    (that is `(cos, sin)` of `heading + π/2`) rotated by the drawn offset `u ∈ [-angle/2, angle/2]`,
    `(cu, su) = (cos u, sin u)`. -/
def sectorSample (zk : ZKind) (ctr : V3) (hx hy r cu su : Rat) : V3 :=
  ⟨ctr.x + r * (hx * cu - hy * su), ctr.y + r * (hx * su + hy * cu), zOf zk ctr.z⟩

/-- the sector as a set, without square roots: there is a length `ρ` of the offset with `ρ ≤ R` and the
    angle to the heading direction at most the half angle (`offset · h ≥ ρ cos(angle/2)`) -/
def inSector (ctr : V3) (hx hy R cosHalf : Rat) (p : V3) : Prop :=
  ∃ ρ : Rat, 0 ≤ ρ ∧ ρ ≤ R ∧
    (p.x - ctr.x) * (p.x - ctr.x) + (p.y - ctr.y) * (p.y - ctr.y) = ρ * ρ ∧
    (p.x - ctr.x) * hx + (p.y - ctr.y) * hy ≥ ρ * cosHalf ∧ p.z = ctr.z

/-- `PathRegion.uniformPointInner`: `c1 + t * (c2 - c1)` -/
def segSample (a b : V3) (t : Rat) : V3 := a.add (V3.smul t (b.sub a))

/-- `PolylineRegion.uniformPointInner`: `averageVectors(a, b, weight=t)` then `Vector(x, y, 0)` -/
def polylineSample (zk : ZKind) (a b : V3) (t : Rat) : V3 :=
  ⟨a.x * (1 - t) + b.x * t, a.y * (1 - t) + b.y * t, zOf zk 0⟩

/-- closed segment: collinear with and between the end points -/
def onSegment (a b p : V3) : Prop :=
  (b.sub a).cross (p.sub a) = ⟨0, 0, 0⟩ ∧ 0 ≤ (p.sub a).dot (b.sub a) ∧ (p.sub a).dot (b.sub a) ≤ (b.sub a).normSq

/-- `VoxelRegion.uniformPointInner`: `voxel_base + (u - 0.5) * scale` per coordinate -/
def voxelSample (base scale u : V3) : V3 :=
  ⟨base.x + (u.x - 1/2) * scale.x, base.y + (u.y - 1/2) * scale.y, base.z + (u.z - 1/2) * scale.z⟩

def inVoxel (base scale p : V3) : Prop :=
  base.x - scale.x / 2 ≤ p.x ∧ p.x ≤ base.x + scale.x / 2 ∧
  base.y - scale.y / 2 ≤ p.y ∧ p.y ≤ base.y + scale.y / 2 ∧
  base.z - scale.z / 2 ≤ p.z ∧ p.z ≤ base.z + scale.z / 2

/-- `random.uniform(a, b)` = `a + (b - a) * random()` -/
def uniformAB (a b u : Rat) : Rat := a + (b - a) * u

/-- `PolygonalRegion.uniformPointInner` candidate: `Vector(uniform(minx, maxx), uniform(miny, maxy), self.z)` -/
def polyCandidate (zk : ZKind) (minx miny maxx maxy z ux uy : Rat) : V3 :=
  ⟨uniformAB minx maxx ux, uniformAB miny maxy uy, zOf zk z⟩

/-! ### candidate balls (`circumcircle`) -/

/-- the operator combining `radius` and `c = cos(angle/2)` in `SectorRegion._makeCircumcircle` -/
inductive CircOp | divide | multiply
  deriving DecidableEq, Repr

/-- shape of `SectorRegion._makeCircumcircle` (regenerated from the source):
    `if c > thr: r = radius <op> (k * c) ; centre = center.offsetRadially(r, heading)` else `(center, radius)` -/
structure SectorCircCfg where
  thr : Rat
  k : Rat
  op : CircOp
  deriving DecidableEq, Repr

def SectorCircCfg.reference : SectorCircCfg := { thr := 1/2, k := 2, op := .divide }

/-- radius and distance of the centre along the heading direction (0 = at the sector's centre) -/
def sectorCirc (cfg : SectorCircCfg) (R c : Rat) : Rat × Rat :=
  if c > cfg.thr then
    let r := match cfg.op with
      | .divide => R / (cfg.k * c)
      | .multiply => (R / cfg.k) * c
    (r, r)
  else (R, 0)

/-- ball membership in the plane of the region, squared form -/
def inBall2 (cx cy r : Rat) (p : V3) : Prop :=
  (p.x - cx) * (p.x - cx) + (p.y - cy) * (p.y - cy) ≤ r * r

/-- 3-D ball membership (what `kdTree.query_ball_point(center, radius)` decides), squared form -/
def inBall3 (ctr : V3) (rSq : Rat) (p : V3) : Bool := decide ((p.sub ctr).normSq ≤ rSq)

/-- how the other planar classes build their `circumcircle` (regenerated from the source) -/
inductive RadiusKind
  | radius          -- `self.radius`
  | hypotHalves     -- `hypot(hw, hl)` / `hypot(*half_extents)`
  | other
  deriving DecidableEq, Repr

structure CircTable where
  circle : RadiusKind
  rect : RadiusKind
  mesh : RadiusKind
  deriving DecidableEq, Repr

def CircTable.reference : CircTable := { circle := .radius, rect := .hypotHalves, mesh := .hypotHalves }

/-- radius² of a candidate ball as a function of the table entry -/
def radiusSq : RadiusKind → (radius hw hl hz : Rat) → Rat
  | .radius, r, _, _, _ => r * r
  | .hypotHalves, _, hw, hl, hz => hw * hw + hl * hl + hz * hz
  | .other, _, _, _, _ => 0

/-! ### the membership tests (`_trueContainsPoint`) the generic samplers rely on -/

/-- `GridRegion._trueContainsPoint` -/
inductive GridMembership
  | pointSet   -- `PointSetRegion.containsPoint(self, point)`: only the free grid points themselves
  | cell       -- inherited `containsPoint`: the nearest grid point is free (a whole cell, any z)
  | other
  deriving DecidableEq, Repr

/-- `PolygonalRegion._trueContainsPoint` -/
inductive PolygonMembership
  | zAndFootprint   -- `point.z == self.z and self.containsPoint(point)`
  | footprintOnly   -- `self.containsPoint(point)` (ignores z)
  | other
  deriving DecidableEq, Repr

/-- `PolylineRegion.containsPoint` -/
inductive PolylineMembership
  | withinTolerance   -- `point.z == 0` and `lineString.distance(point) <= self.tolerance`
  | exactIntersects   -- `point.z == 0` and `lineString.intersects(point)` (distance exactly 0)
  | other
  deriving DecidableEq, Repr

structure MembershipTable where
  grid : GridMembership
  polygon : PolygonMembership
  polyline : PolylineMembership
  deriving DecidableEq, Repr

def MembershipTable.reference : MembershipTable :=
  { grid := .pointSet, polygon := .zAndFootprint, polyline := .withinTolerance }

/-- membership of `x` in a grid region with free grid points `pts`; `cellOf x` = the grid point nearest to `x`
    (`pointToGrid`, `none` outside the grid) -/
def gridContains [DecidableEq α] (k : GridMembership) (pts : List α) (cellOf : α → Option α) (x : α) : Bool :=
  match k with
  | .pointSet => decide (x ∈ pts)
  | .cell => match cellOf x with
    | some g => decide (g ∈ pts)
    | none => false
  | .other => false

/-- a grid region as an operand of the generic samplers -/
def gridOperand [DecidableEq α] (k : GridMembership) (pts : List α) (cellOf : α → Option α) : Operand α :=
  { primOperand 0 1 pts with contains := gridContains k pts cellOf }

/-- membership of the point `p` in a polygonal region at height `z` whose footprint test is `fp` -/
def polygonContains (k : PolygonMembership) (z : Rat) (fp : V3 → Bool) (p : V3) : Bool :=
  match k with
  | .zAndFootprint => decide (p.z = z) && fp p
  | .footprintOnly => fp p
  | .other => false

/-- membership of a point at height `pz` and planar distance `dist` from the line string -/
def polylineContains (k : PolylineMembership) (tol dist pz : Rat) : Bool :=
  match k with
  | .withinTolerance => decide (pz = 0) && decide (dist ≤ tol)
  | .exactIntersects => decide (pz = 0) && decide (dist = 0)
  | .other => false

/-- table of the z written by each planar sampler -/
structure ZTable where
  rect : ZKind
  circle : ZKind
  sector : ZKind
  polygon : ZKind
  polyline : ZKind
  deriving DecidableEq, Repr

def ZTable.reference : ZTable :=
  { rect := .regionZ, circle := .regionZ, sector := .regionZ, polygon := .regionZ, polyline := .zero }

end Scenic.RegionSampling
