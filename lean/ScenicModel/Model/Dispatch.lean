import ScenicModel.Model.RegionAlgebra
/-
Model of the double dispatch of `Region.intersect / union / difference / intersects` (C16).

Python resolves `A.op(B)` through the `isinstance` chains of `type(A).op`, `super()` calls, and the
generic fall-backs of `Region` which retry `B.op(A, triedReversed=True)`.  The control flow only
looks at a finite abstraction `Ctl` of the two operands (their kinds, laziness, whether two planar
heights differ, whether a planar operand is elevated), so

* `route` replays the control flow on `Ctl`, driven by the clause table that
  `tools/translate/regionops.py` regenerates from the source (`Gen/RegionOps.lean`), and returns a
  `Route` (which handler finally runs, after which swaps);
* `exec` runs a route on two concrete regions and yields the result as an ideal point set.

`Props/C16*.lean`: termination and acceptance of every ordered pair are decided on the finite `Ctl`
space for the regenerated table; the set semantics of every handler is proved for all regions.
-/
namespace Scenic.Region

inductive Op
  | intersect | union | difference | intersects
deriving DecidableEq, Repr

def Op.list : List Op := [.intersect, .union, .difference, .intersects]

/-- exact handlers found in the classes (parameters = facts extracted from the source) -/
inductive Handler
  | retSelf | retOther | retNowhere | retFalse
  | otherNotEmpty                         -- `not isinstance(other, EmptyRegion)`
  | polyAnd (passZ : Bool)                -- `regionFromShapelyObject(self.polygons & poly, z=self.z)`
  | polyOr (passZ : Bool)                 -- `PolygonalRegion(polygon=polygonUnion(..), z=self.z)`
  | polySub (passZ : Bool)                -- `regionFromShapelyObject(self.polygons - poly, z=self.z)`
  | polyIntersects                        -- `self.polygons.intersects(poly)`
  | discIntersects                        -- `center.distanceTo(other.center) <= r1 + r2`
  | lineAnd | lineSub | lineIntersects
  | footAnd | footOr | footSub | footPathClip
  | volAnd | volOr | volSub | volFootAnd | volFootSub
  | volSlice (sliceZ resZ : ZSrc)         -- slice the mesh at a height, intersect with the polygon
  | volPathClip | volLineClip
  | volVolIntersects | volSurfIntersects | volFootIntersects | surfSurfIntersects | surfFootIntersects
  | ptsFilter                             -- `[pt for pt in self.points if other.containsPoint(pt)]`
  | ptsSampler                            -- `IntersectionRegion(self, other, sampler=...)`
  | ptsAny                                -- `any(other.containsPoint(pt) for pt in self.points)`
  | ptsAnyTrue                            -- `any(other._trueContainsPoint(Vector(*pt)) for pt in self.points)`
deriving DecidableEq, Repr

inductive Guard
  | lzy                -- `isLazy(self) or isLazy(other)`
  | isKind (k : Kind)  -- `isinstance(other, K)`
  | notKind (k : Kind) -- `not isinstance(other, K)`
  | hasPoly            -- `toPolygon(other) is not None`
  | zNe                -- `self.z != other.z`
  | otherElev          -- `other.z != 0`
  | selfElev           -- `self.z != 0`
  | tried              -- `triedReversed`
  | notTried           -- `triedReversed is False`
deriving DecidableEq, Repr

inductive Act
  | run (h : Handler)
  | super              -- `super().op(other, triedReversed)`
  | superFresh         -- `super().op(other)` (the flag is dropped)
  | reverse            -- `other.op(self, triedReversed=True)`
  | retryFresh         -- `other.op(self)` (the flag is dropped)
  | compose            -- `IntersectionRegion / UnionRegion / DifferenceRegion (self, other)`
  | viaIntersect       -- look at `self.intersect(other)`: composite → NotImplementedError, empty → False
  | liftSelf (z : ZSrc) -- `PolygonalRegion(polygon=self.polygons, z=<z>).op(other)`
deriving DecidableEq, Repr

structure Clause where
  guards : List Guard
  act : Act
deriving DecidableEq, Repr

/-- the methods each class defines itself (`none`: inherited), and the generic ones of `Region` -/
structure Table where
  cls : Kind → Op → Option (List Clause)
  generic : Op → List Clause

/-- what the control flow can see of the two operands -/
structure Ctl where
  ka : Kind
  kb : Kind
  la : Bool
  lb : Bool
  zne : Bool
  ea : Bool
  eb : Bool
deriving DecidableEq, Repr

def Ctl.swap (c : Ctl) : Ctl := ⟨c.kb, c.ka, c.lb, c.la, c.zne, c.eb, c.ea⟩
/-- after `self := PolygonalRegion(self.polygons, z=other.z)` -/
def Ctl.lift (c : Ctl) : Ctl := ⟨.poly, c.kb, c.lb, c.lb, false, c.eb, c.eb⟩

def elevated : Option Rat → Bool
  | some z => decide (z ≠ 0)
  | none => false

def ctlOf (A B : Reg) : Ctl :=
  { ka := A.kind, kb := B.kind, la := A.isLazy, lb := B.isLazy,
    zne := (match A.z?, B.z? with
      | some a, some b => decide (a ≠ b)
      | _, _ => false),
    ea := elevated A.z?, eb := elevated B.z? }

/-- kinds for which `toPolygon` finds `polygons` / `lineString` -/
def Kind.hasPoly : Kind → Bool
  | .poly | .disc | .foot | .line => true
  | _ => false

def Guard.eval (c : Ctl) (tried : Bool) : Guard → Bool
  | .lzy => c.la || c.lb
  | .isKind k => c.kb.isa k
  | .notKind k => !c.kb.isa k
  | .hasPoly => !c.lb && c.kb.hasPoly
  | .zNe => c.zne
  | .otherElev => c.eb
  | .selfElev => c.ea
  | .tried => tried
  | .notTried => !tried

def firstAct (c : Ctl) (tried : Bool) : List Clause → Option Act
  | [] => none
  | cl :: rest => if cl.guards.all (Guard.eval c tried) then some cl.act else firstAct c tried rest

inductive Route
  | run (h : Handler)
  | swap (r : Route)
  | lift (z : ZSrc) (r : Route)
  | compose
  | viaIntersect (r : Route)
  | crash          -- the method falls off its end (returns `None`) or calls something undefined
  | fuel
deriving DecidableEq, Repr

/-- replay of the control flow: `cls = some k` runs the method of class `k` (looked up through the
    class hierarchy), `cls = none` the generic method of `Region` -/
def route (T : Table) : Nat → Option Kind → Op → Ctl → Bool → Route
  | 0, _, _, _, _ => .fuel
  | n + 1, cls, op, c, tried =>
    let clauses : Option (List Clause) := match cls with
      | none => some (T.generic op)
      | some k => T.cls k op
    match clauses with
    | none => route T n (cls.bind Kind.parent) op c tried
    | some cs =>
      match firstAct c tried cs with
      | none => .crash
      | some (.run h) => .run h
      | some .super => route T n (cls.bind Kind.parent) op c tried
      | some .superFresh => route T n (cls.bind Kind.parent) op c false
      | some .reverse => .swap (route T n (some c.kb) op c.swap true)
      | some .retryFresh => .swap (route T n (some c.kb) op c.swap false)
      | some .compose => .compose
      | some .viaIntersect => .viaIntersect (route T n (some c.ka) .intersect c false)
      | some (.liftSelf z) => .lift z (route T n (some .poly) op c.lift false)

/-- `A.op(B)` -/
def routeOf (T : Table) (fuel : Nat) (op : Op) (c : Ctl) : Route := route T fuel (some c.ka) op c false

/-! ## results as ideal point sets -/

inductive Res
  | same (r : Reg)                     -- an operand, `nowhere` or `everywhere`, returned as is
  | planar (z : Rat) (s : V2 → Bool)   -- `PolygonalRegion(polygon=…, z=z)`
  | foot (s : V2 → Bool)
  | line (s : V2 → Bool)               -- planar geometry at height 0 (`PolylineRegion`, `PointSetRegion`)
  | path (s : Pt → Bool)
  | pts (ps : List Pt)
  | vol (s : Pt → Bool)
  | comp (op : Op) (a b : Reg) (sampler : Bool)

def Res.mem : Res → Pt → Bool
  | .same r, p => r.mem p
  | .planar z s, p => decide (p.z = z) && s p.xy
  | .foot s, p => s p.xy
  | .line s, p => decide (p.z = 0) && s p.xy
  | .path s, p => s p
  | .pts ps, p => ps.contains p
  | .vol s, p => s p
  | .comp .intersect a b _, p => a.mem p && b.mem p
  | .comp .union a b _, p => a.mem p || b.mem p
  | .comp .difference a b _, p => a.mem p && !b.mem p
  | .comp .intersects _ _ _, _ => false

/-- `not isinstance(result, EmptyRegion)`: exact handlers return `nowhere` for empty geometry -/
def Res.nonempty (O : Oracle) : Res → Bool
  | .same r => r.kind != .empty
  | .planar _ s => O.ne2 s
  | .foot s => O.ne2 s
  | .line s => O.ne2 s
  | .path s => O.ne3 s
  | .pts ps => !ps.isEmpty
  | .vol s => O.ne3 s
  | .comp .. => true

def Res.tag : Res → String
  | .same r => "same:" ++ (repr r.kind).pretty
  | .planar .. => "planar"
  | .foot _ => "foot"
  | .line _ => "line"
  | .path _ => "path"
  | .pts _ => "pts"
  | .vol _ => "vol"
  | .comp op _ _ s => "comp:" ++ (repr op).pretty ++ (if s then "+s" else "")

inductive Out
  | res (r : Res)
  | bool (b : Bool)
  | notImpl        -- NotImplementedError("Cannot check intersection of …")
  | crash          -- anything else (None result, AttributeError, RecursionError, …)

def noShape : V2 → Bool := fun _ => false

/-- `toPolygon(r)` as a point set -/
def Reg.sh (r : Reg) : V2 → Bool := (r.shape2).getD noShape
def Reg.zz (r : Reg) : Rat := (r.z?).getD 0

def Reg.points : Reg → List Pt
  | .pts ps => ps
  | .lzy r => r.points
  | _ => []
def Reg.chain : Reg → List V2
  | .line c => c
  | .lzy r => r.chain
  | _ => []
def Reg.chain3 : Reg → List Pt
  | .path c => c
  | .lzy r => r.chain3
  | _ => []
def Reg.center : Reg → Pt
  | .disc z c _ => c.at z
  | .lzy r => r.center
  | _ => ⟨0, 0, 0⟩
def Reg.radius : Reg → Rat
  | .disc _ _ r => r
  | .lzy r => r.radius
  | _ => 0

/-- the handlers as functions of (`self`, `other`) -/
def runH (O : Oracle) (F : Flags) (h : Handler) (A B : Reg) : Out :=
  match h with
  | .retSelf => .res (.same A)
  | .retOther => .res (.same B)
  | .retNowhere => .res (.same .empty)
  | .retFalse => .bool false
  | .otherNotEmpty => .bool (B.kind != .empty)
  | .polyAnd passZ =>
      -- Shapely `&`; regionFromShapelyObject: polygons keep z (if passed and forwarded), lines do not
      if B.kind == .line then .res (.line (fun q => A.sh q && B.sh q))
      else .res (.planar (if passZ && F.fromShapelyPassesZ then A.zz else 0) (fun q => A.sh q && B.sh q))
  | .polyOr passZ =>
      -- polygonUnion(...).buffer(0) drops linear parts
      if B.kind == .line then .res (.planar (if passZ then A.zz else 0) A.sh)
      else .res (.planar (if passZ then A.zz else 0) (fun q => A.sh q || B.sh q))
  | .polySub passZ =>
      -- a polygon minus a curve is the polygon
      if B.kind == .line then .res (.planar (if passZ && F.fromShapelyPassesZ then A.zz else 0) A.sh)
      else .res (.planar (if passZ && F.fromShapelyPassesZ then A.zz else 0) (fun q => A.sh q && !B.sh q))
  | .polyIntersects => .bool (O.ne2 (fun q => A.sh q && B.sh q))
  | .discIntersects => .bool (decide (0 ≤ A.radius + B.radius) && decide (Pt.dsq A.center B.center ≤ sq (A.radius + B.radius)))
  | .lineAnd => .res (.line (fun q => A.sh q && B.sh q))
  | .lineSub => .res (.line (fun q => A.sh q && !B.sh q))
  | .lineIntersects => .bool (O.ne2 (fun q => A.sh q && B.sh q))
  | .footAnd => .res (.foot (fun q => A.sh q && B.sh q))
  | .footOr => .res (.foot (fun q => A.sh q || B.sh q))
  | .footSub => .res (.foot (fun q => A.sh q && !B.sh q))
  | .footPathClip => .res (.path (fun p => onPath B.chain3 p && A.sh p.xy))
  | .volAnd => .res (.vol (fun p => A.mem p && B.mem p))
  | .volOr => .res (.vol (fun p => A.mem p || B.mem p))
  | .volSub => .res (.vol (fun p => A.mem p && !B.mem p))
  | .volFootAnd => .res (.vol (fun p => A.mem p && B.sh p.xy))
  | .volFootSub => .res (.vol (fun p => A.mem p && !B.sh p.xy))
  | .volSlice sliceZ resZ =>
      .res (.planar (resZ.pick 0 B.zz) (fun q => A.mem (q.at (sliceZ.pick 0 B.zz)) && B.sh q))
  | .volPathClip => .res (.path (fun p => onPath B.chain3 p && A.mem p))
  | .volLineClip => .res (.line (fun q => onChain B.chain q && A.mem (q.at 0)))
  | .volVolIntersects => .bool (O.ne3 (fun p => A.mem p && B.mem p))
  | .volSurfIntersects => .bool (O.ne3 (fun p => A.mem p && B.mem p))
  | .volFootIntersects => .bool (O.ne3 (fun p => A.mem p && B.sh p.xy))
  | .surfSurfIntersects => .bool (O.ne3 (fun p => A.mem p && B.mem p))
  | .surfFootIntersects => .bool (O.ne3 (fun p => A.mem p && B.sh p.xy))
  | .ptsFilter => .res (.pts (A.points.filter (fun p => containsPoint F B p)))
  | .ptsSampler => .res (.comp .intersect A B true)
  | .ptsAny => .bool (A.points.any (fun p => containsPoint F B p))
  | .ptsAnyTrue => .bool (A.points.any (fun p => trueContains F B p))

/-- `self := PolygonalRegion(polygon=self.polygons, z=…)` -/
def liftReg (z : ZSrc) (A B : Reg) : Reg :=
  match A with
  | .foot s => if B.isLazy then .lzy (.planar (z.pick 0 B.zz) s) else .planar (z.pick 0 B.zz) s
  | r => r

def exec (O : Oracle) (F : Flags) (op : Op) : Route → Reg → Reg → Out
  | .run h, A, B => runH O F h A B
  | .swap r, A, B => exec O F op r B A
  | .lift z r, A, B => exec O F op r (liftReg z A B) B
  | .compose, A, B => .res (.comp op A B false)
  | .viaIntersect r, A, B =>
      match exec O F .intersect r A B with
      | .res (.comp ..) => .notImpl
      | .res x => .bool (x.nonempty O)
      | o => o
  | .crash, _, _ => .crash
  | .fuel, _, _ => .crash

def fuelBound : Nat := 16

/-- the points the specialised sampler of `PointSetRegion.intersect` chooses from:
    `[p for p in possibles if o._trueContainsPoint(p)]` (`possibles` = all points, or those within the
    circumcircle of `o`, which contains `o`) -/
def ptsSamplerSupport (F : Flags) (A B : Reg) : List Pt := A.points.filter (fun p => trueContains F B p)

/-- `Workspace.<method>` (workspaces.py): does the method hand the call on to `self.region.<method>` with the
    same arguments, in order, and return its result? -/
structure Delegation where
  method : String
  forwards : Bool
deriving DecidableEq, Repr

/-- the region interface a `Workspace` must hand on for the double dispatch and the point queries to reach
    the wrapped region -/
def Delegation.required : List String :=
  ["intersect", "intersects", "difference", "union", "containsPoint", "containsObject", "containsRegionInner",
   "distanceTo", "projectVector", "uniformPointInner", "AABB", "dimensionality", "size"]

def Delegation.allForward (ds : List Delegation) : Bool :=
  Delegation.required.all fun m => ds.any fun d => d.method == m && d.forwards

/-- the model of `A.op(B)` -/
def dispatch (T : Table) (O : Oracle) (F : Flags) (op : Op) (A B : Reg) : Out :=
  exec O F op (routeOf T fuelBound op (ctlOf A B)) A B

end Scenic.Region
