import ScenicModel.Model.Sample

/-!
Model of the replay stream of a simulation: `Serializer.writeReplayHeader/readReplayHeader`,
`Simulation.initializeReplay`, `replayCanContinue`/`detectReplayEnd`, `recordSampledValue`/
`replaySampledValue` as called from `Distribution.__new__` while a simulation runs, and the
divergence-data part of `Simulation.updateObjects`.  Core Lean only.

A *deterministic* program + simulator is a function `next` from the number of events so far and the
random values drawn so far (newest first) to what happens next:
* `draw ty`   — a primitive distribution of value type `ty` is evaluated in a behavior/monitor
                (`Distribution.__new__`: read the value from the replay if `replayCanContinue()`,
                otherwise sample it; then `recordSampledValue`).  While a simulation runs every
                distribution is sampled at once, so the dependencies of a run-time distribution are
                constants and only primitive values enter the stream.
* `update ps` — `updateObjects` for one object: `ps` are the entries of `dynTypes` in order, each
                with the value the simulator returned (`getProperties`).
* `stop`      — the simulation ends.
Everything else a simulation produces (trajectory, actions, records, termination) is a function of
the values drawn, so two runs with the same history of drawn values are the same simulation.
-/
namespace Scenic.ReplayStream
open Scenic.Codec Scenic.Sample

inductive Err | serr | diverged
  deriving DecidableEq, Repr

inductive Ev
  | stop
  | draw (ty : Ty)
  | update (props : List (Ty × Val))
  deriving Repr

/-! ### header: format version (`<H`, 2 bytes) then flags (`<I`, 4 bytes) -/

def writeHeader (version flags : Nat) : Bytes := toLE version 2 ++ toLE flags 4

/-- `readReplayHeader`: `none` = SerializationError (short field or other version) -/
def readHeader (version : Nat) (s : Bytes) : Option (Nat × Bytes) :=
  match readExact 2 s with
  | none => none
  | some (v, s1) =>
    if fromLE v ≠ version then none else
    match readExact 4 s1 with
    | none => none
    | some (f, s2) => some (fromLE f, s2)

/-- `ReplayMode.checkDivergence in ReplayMode(flags)` for `checkDivergence = bit` -/
def flagSet (bit flags : Nat) : Bool := (flags / bit) % 2 == 1

structure Cfg where
  t : IntTable
  next : Nat → List Val → Ev
  /-- `valuesHaveDiverged(obj, prop, expected, actual)` -/
  diverged : Ty → Val → Val → Bool

/-- options of one run: `enableReplay`, `enableDivergenceCheck`, the flag read from the replay
    header, `continueAfterDivergence` -/
structure Mode where
  record : Bool
  writeDiv : Bool
  checkDiv : Bool
  continueAfter : Bool
  deriving Repr

/-- `k`: events so far; `hist`: values drawn so far (newest first); `inp`: `some rest` while
    `self.replaying`; `out`: bytes written to `_replayOut` (after its header) -/
structure St where
  k : Nat
  hist : List Val
  inp : Option Bytes
  out : Bytes
  deriving Repr

/-- values of the dynamic properties of one object, `writeValue(values[prop], ty)` in order -/
def writeProps (t : IntTable) : List (Ty × Val) → Option Bytes
  | [] => some []
  | (_, v) :: ps =>
    match writeValue t v with
    | none => none
    | some b => (writeProps t ps).map (b ++ ·)

/-- the divergence loop of `updateObjects`: `.ok (some rest)` = still replaying,
    `.ok none` = divergence with `continueAfterDivergence` (`self.replaying = False; break`) -/
def checkProps (c : Cfg) (m : Mode) : List (Ty × Val) → Bytes → Except Err (Option Bytes)
  | [], s => .ok (some s)
  | (ty, a) :: ps, s =>
    match readValue c.t ty s with
    | none => .error .serr
    | some (e, r) =>
      if c.diverged ty e a then (if m.continueAfter then .ok none else .error .diverged)
      else checkProps c m ps r

/-- one event; `.ok none` = the simulation has ended -/
def step (c : Cfg) (m : Mode) (fresh : Nat → Val) (st : St) : Except Err (Option St) :=
  match c.next st.k st.hist with
  | .stop => .ok none
  | .draw ty =>
    -- `if sim.replayCanContinue(): value = sim.replaySampledValue(..) else: value = dist.sample(..)`
    let got : Except Err (Val × Option Bytes) :=
      match st.inp with
      | some (b :: bs) =>
        match readValue c.t ty (b :: bs) with
        | none => .error .serr
        | some (v, r) => .ok (v, some r)
      | _ => .ok (fresh st.hist.length, none)
    match got with
    | .error e => .error e
    | .ok (v, inp') =>
      -- `sim.recordSampledValue(dist, subsamples)`
      if m.record then
        match writeValue c.t v with
        | none => .error .serr
        | some enc => .ok (some ⟨st.k + 1, v :: st.hist, inp', st.out ++ enc⟩)
      else .ok (some ⟨st.k + 1, v :: st.hist, inp', st.out⟩)
  | .update props =>
    match (if m.record && m.writeDiv then writeProps c.t props else some []) with
    | none => .error .serr
    | some enc =>
      match st.inp with
      | some (b :: bs) =>
        if m.checkDiv then
          match checkProps c m props (b :: bs) with
          | .error e => .error e
          | .ok inp' => .ok (some ⟨st.k + 1, st.hist, inp', st.out ++ enc⟩)
        else .ok (some ⟨st.k + 1, st.hist, some (b :: bs), st.out ++ enc⟩)
      | _ => .ok (some ⟨st.k + 1, st.hist, none, st.out ++ enc⟩)

/-- at most `n` events -/
def run (c : Cfg) (m : Mode) (fresh : Nat → Val) : Nat → St → Except Err St
  | 0, st => .ok st
  | n + 1, st =>
    match step c m fresh st with
    | .error e => .error e
    | .ok none => .ok st
    | .ok (some st') => run c m fresh n st'

/-- the format constants of the stream (`Gen/StreamCfg.lean` holds the ones of the current source) -/
structure Fmt where
  replayVersion : Nat
  checkBit : Nat
  deriving Repr, DecidableEq

def Fmt.WF (f : Fmt) : Prop := f.replayVersion < 256 ^ 2 ∧ f.checkBit = 1

instance (f : Fmt) : Decidable f.WF := by unfold Fmt.WF; infer_instance

/-- `Simulator.simulate(scene, replay=…, enableReplay=…, enableDivergenceCheck=…)`:
    `initializeReplay` then the run; the result's `out` is `getReplay()` (header included). -/
def simulate (c : Cfg) (f : Fmt) (record writeDiv continueAfter : Bool) (replay : Option Bytes)
    (fresh : Nat → Val) (n : Nat) : Except Err St :=
  let hdr := if record then writeHeader f.replayVersion (if writeDiv then f.checkBit else 0) else []
  match replay with
  | some (b :: bs) =>
    match readHeader f.replayVersion (b :: bs) with
    | none => .error .serr
    | some (flags, body) =>
      run c ⟨record, writeDiv, flagSet f.checkBit flags, continueAfter⟩ fresh n ⟨0, [], some body, hdr⟩
  | _ => run c ⟨record, writeDiv, false, continueAfter⟩ fresh n ⟨0, [], none, hdr⟩

end Scenic.ReplayStream
