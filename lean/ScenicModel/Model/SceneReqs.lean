import ScenicModel.Model.Checker
import ScenicModel.Model.DefaultReqs
/-
Glue between the two models: the requirement list a `Scenario` hands to its checker
(`self.defaultRequirements + self.userRequirements`, scenarios.py `setSampleChecker`) as `Checker.Req`s, and
what `falsifiedBy` returns on a sample described by a `World`.  Core Lean only.
-/
namespace Scenic.SceneReqs
open Scenic.Checker Scenic.DefaultReqs

/-- built-in requirements are always active; user requirement `k` is active when selected for this scene -/
def kindActive (act : Nat → Bool) : ReqKind → Bool
  | .user k => act k
  | _ => true

def toReqsFrom (c : DefaultReqs.Cfg) (act : Nat → Bool) : Nat → List ReqKind → List Req
  | _, [] => []
  | i, k :: ks => ⟨i, k.optional c, kindActive act k⟩ :: toReqsFrom c act (i + 1) ks

/-- ids are positions in the checker's requirement tuple -/
def toReqs (c : DefaultReqs.Cfg) (act : Nat → Bool) (kinds : List ReqKind) : List Req := toReqsFrom c act 0 kinds

/-- what `falsifiedBy` of requirement `i` does on the sample `w`: `none` = raises RejectionException -/
def falsOf (c : DefaultReqs.Cfg) (kinds : List ReqKind) (w : World) (i : Nat) : Option Bool :=
  match kinds[i]? with
  | some k => if w.raises k then none else some (falsified c w k)
  | none => some false

/-- `self.defaultRequirements + self.userRequirements` -/
def allKinds (defaults : List ReqKind) (nUser : Nat) : List ReqKind :=
  defaults ++ (List.range nUser).map ReqKind.user

/-- one candidate of the rejection loop: `none` = sampling raised RejectionException -/
def attemptOf (c : DefaultReqs.Cfg) (kinds : List ReqKind) : Option World × List Rat → Attempt
  | (none, ts) => ⟨true, fun _ => some false, ts⟩
  | (some w, ts) => ⟨false, falsOf c kinds w, ts⟩

end Scenic.SceneReqs
