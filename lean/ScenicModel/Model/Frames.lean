import ScenicModel.Gen.Frames
import ScenicModel.Model.FramesCore
/-!
# Frames — the part of the frame model (C07) that is instantiated on data regenerated from `/repo`

`Gen/Frames.lean` provides the six offset formulas of `left of … below` (`veneer.py:1784-1925`), the
contact offsets of `directionalSpecHelper` and `On`, the scalar reading of `beyond … by D`, and the
side / corner tables of `Object` (`object_types.py:1232-1349`). Everything else is in `FramesCore.lean`.
-/
namespace Scenic.Frames

section
variable {α : Type} [Add α] [Sub α] [Mul α] [Neg α] [Div α] [OfNat α 0] [OfNat α 1] [OfNat α 2]

/-- `Object.corners` (`object_types.py:1336`), in the order of the source -/
def corners (pos : Vec3 α) (ori : Mat3 α) (d : Dims α) : List (Vec3 α) :=
  Gen.Frames.cornerTable.map fun t => relativePosition pos ori (sideVec d t)

/-- `front of X`, `top front left of X`, … (`object_types.py:1232-1302`) by property name -/
def sidePoint (pos : Vec3 α) (ori : Mat3 α) (d : Dims α) (name : String) : Option (OPoint α) :=
  (Gen.Frames.sideTable.lookup name).map fun t => relativize pos ori (sideVec d t)

/-! ## `left of / right of / ahead of / behind / above / below` (`veneer.py:1784-1978`) -/

inductive Dir | left | right | ahead | behind | above | below
deriving DecidableEq, Repr

/-- the optional `by D` argument -/
inductive Dist (α : Type)
  | none
  | scalar (d : α)
  | vector (v : Vec3 α)

/-- `toComponents` of each specifier (generated) -/
def dirComponents (k : Dir) (d : α) : Vec3 α :=
  Vec3.ofTriple (match k with
    | .left => Gen.Frames.leftComponents d
    | .right => Gen.Frames.rightComponents d
    | .ahead => Gen.Frames.aheadComponents d
    | .behind => Gen.Frames.behindComponents d
    | .above => Gen.Frames.aboveComponents d
    | .below => Gen.Frames.belowComponents d)

/-- `dx, dy, dz` in `directionalSpecHelper` -/
def distComponents (k : Dir) : Dist α → Vec3 α
  | .none => Vec3.zero
  | .scalar d => dirComponents k d
  | .vector v => v

/-- `makeOffset(self, dims, tol, dx, dy, dz)` of each specifier (generated) -/
def makeOffset (k : Dir) (self ref : Dims α) (tol : α) (c : Vec3 α) : Vec3 α :=
  Vec3.ofTriple (match k with
    | .left => Gen.Frames.leftOffset self.w self.l self.h ref.w ref.l ref.h tol c.x c.y c.z
    | .right => Gen.Frames.rightOffset self.w self.l self.h ref.w ref.l ref.h tol c.x c.y c.z
    | .ahead => Gen.Frames.aheadOffset self.w self.l self.h ref.w ref.l ref.h tol c.x c.y c.z
    | .behind => Gen.Frames.behindOffset self.w self.l self.h ref.w ref.l ref.h tol c.x c.y c.z
    | .above => Gen.Frames.aboveOffset self.w self.l self.h ref.w ref.l ref.h tol c.x c.y c.z
    | .below => Gen.Frames.belowOffset self.w self.l self.h ref.w ref.l ref.h tol c.x c.y c.z)

/-- `makeContactOffset(dist, ct)` (generated): `ct / 2` when no `by D` was given, else `0` -/
def contactTol (dist : Dist α) (ct : α) : α :=
  match dist with
  | .none => Gen.Frames.contactOffsetNone ct
  | _ => Gen.Frames.contactOffsetGiven ct

/-- `K of <Object> [by D]`: (position, parentOrientation) of the new object -/
def dirObject (k : Dir) (refPos : Vec3 α) (refOri : Mat3 α) (refDims self : Dims α) (ct : α)
    (dist : Dist α) : Vec3 α × Mat3 α :=
  (relativePosition refPos refOri (makeOffset k self refDims (contactTol dist ct) (distComponents k dist)), refOri)

/-- `K of <OrientedPoint> [by D]` -/
def dirOPoint (k : Dir) (refPos : Vec3 α) (refOri : Mat3 α) (self : Dims α) (dist : Dist α) :
    Vec3 α × Mat3 α :=
  (relativePosition refPos refOri (makeOffset k self ⟨0, 0, 0⟩ 0 (distComponents k dist)), refOri)

/-- `K of <vector> [by D]`: position only; uses the *new object's own* orientation -/
def dirVector (k : Dir) (pos : Vec3 α) (selfOri : Mat3 α) (self : Dims α) (dist : Dist α) : Vec3 α :=
  offsetLocally pos selfOri (makeOffset k self ⟨0, 0, 0⟩ 0 (distComponents k dist))

/-- a scalar `D` is read as the vector `(0, D, 0)` (generated) -/
def beyondScalar (d : α) : Vec3 α := Vec3.ofTriple (Gen.Frames.beyondScalar d)

/-- `on`: `contactOffset = Vector(0, 0, ct/2) - baseOffset` (generated), rotated by the region's
    orientation when it has one; result is the new position -/
def onPosition (pos : Vec3 α) (ct : α) (baseOffset : Vec3 α) (regionOri : Option (Mat3 α)) : Vec3 α :=
  let co : Vec3 α := Vec3.ofTriple (Gen.Frames.onContactOffset ct baseOffset.x baseOffset.y baseOffset.z)
  match regionOri with
  | none => pos.add co
  | some r => pos.add (r.mulVec co)

end

end Scenic.Frames
