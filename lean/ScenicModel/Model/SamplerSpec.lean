import ScenicModel.Model.Sampler
/-
The *declarative* semantics of a program of the finite-discrete fragment (core Lean only, executable): what the property
says scene generation must be, written without any reference to how the sampler walks the dependency graph, checks the
requirements or loops.

* prior: every node that is drawn at all (`specOrder`: the nodes reachable from the roots, see
  `Scenic.C01.sampled_iff_reachable`) is drawn once, independently given its parameters, in increasing node index;
* conditioning: a sample is a scene when *all* active requirements hold (no evaluation order);
* rejection loop in closed form: a scene is returned at iteration `k` with weight `r^(k-1) · acc`, nothing is returned
  with weight `r^n` (`geomLoop`);
* soft requirements: mixture over the subsets `S` with weights `Π_{i∈S} p_i Π_{i∉S} (1 - p_i)` (`specGenerate`).

`Scenic.C01.scene_generation_eq_declarative_semantics` proves that the operational model (`generate`) gives every event the probability this
semantics gives it; the driver evaluates both, and the Python brute-force oracle of tools/props/c01.py is compared with
`specGenerate` on every generated program.
-/
namespace Scenic.Sampler
open Dist

/-- lift a predicate on scenes to attempt outcomes (a rejection does not satisfy it) -/
def onSome {σ : Type} (q : σ → Bool) : Option σ → Bool
  | some s => q s
  | none => false

def isRej {σ : Type} : Option σ → Bool
  | some _ => false
  | none => true

/-- "scene satisfying `q` returned after exactly `k` iterations" -/
def hit {σ : Type} (k : Nat) (q : σ → Bool) : Option (σ × Nat) → Bool
  | some (s, j) => j == k && q s
  | none => false

/-- "scene satisfying `q` returned (after any number of iterations)" -/
def sceneIs {σ : Type} (q : σ → Bool) : Option (σ × Nat) → Bool
  | some (s, _) => q s
  | none => false

/-- all Boolean vectors of a given length -/
def vectors : Nat → List (List Bool)
  | 0 => [[]]
  | n + 1 => (vectors n).map (true :: ·) ++ (vectors n).map (false :: ·)

/-- weight of an activation vector: `Π_{i active} p_i · Π_{i inactive} (1 - p_i)` -/
def softWeight : List Rat → List Bool → Rat
  | p :: ps, b :: bs => (if b then p else 1 - p) * softWeight ps bs
  | [], [] => 1
  | _, _ => 0

/-- the nodes that are drawn for a scene, in increasing node index -/
def specOrder (P : Prog) (roots : List Nat) : List Nat :=
  (List.range P.nodes.length).filter fun i => (postorder P roots).contains i

/-- the program's prior: one independent draw per drawn node given its parameters -/
def specPrior (cfg : Cfg) (P : Prog) (roots : List Nat) : Dist (Option Env) :=
  seqAlong cfg P (specOrder P roots) []

/-- a sample is a scene iff all the active requirements hold -/
def restrictOutcome {σ : Type} (active : List (Env → Bool)) (scene : Env → σ) : Option Env → Option σ
  | none => none
  | some env => if active.all (fun r => r env) then some (scene env) else none

/-- the prior restricted to the active requirements (a sub-distribution on scenes; the rest is rejection) -/
def restrict {σ : Type} (prior : Dist (Option Env)) (active : List (Env → Bool)) (scene : Env → σ) : Dist (Option σ) :=
  prior.map (restrictOutcome active scene)

/-- the accepted outcomes of an attempt, tagged with the iteration count `k` -/
def accepted {σ : Type} (att : Dist (Option σ)) (k : Nat) : Dist (Option (σ × Nat)) :=
  att.filterMap fun x => x.1.map fun s => (some (s, k), x.2)

/-- closed form of the rejection loop: with `r` the rejection mass of one attempt, a scene accepted with weight `a` is
    returned at iteration `k + j + 1` with weight `r^j · a` (`j < n`), and nothing is returned with weight `r^n` -/
def geomLoop {σ : Type} (att : Dist (Option σ)) : Nat → Nat → Dist (Option (σ × Nat))
  | 0, _ => [(none, 1)]
  | n + 1, k => accepted att (k + 1) ++ scale (mass att isRej) (geomLoop att n (k + 1))

/-- **the declarative semantics of scene generation** with `maxIterations = n`: outcome = (which soft requirements were
    enforced, `some (scene, iterations)` or `none` for "no scene within `n` iterations") -/
def specGenerate {σ : Type} (cfg : Cfg) (P : Prog) (roots : List Nat) (reqs : List (Rat × (Env → Bool)))
    (defaults : List (Env → Bool)) (scene : Env → σ) (n : Nat) : Dist (List Bool × Option (σ × Nat)) :=
  (vectors reqs.length).flatMap fun act =>
    scale (softWeight (reqs.map (·.1)) act)
      ((geomLoop (restrict (specPrior cfg P roots) (defaults ++ activeOf (reqs.map (·.2)) act) scene) n 0).map
        fun r => (act, r))

/-! ### executable versions of the hypotheses of `Scenic.C01.scene_generation_eq_declarative_semantics`
(the driver evaluates them on every program of the correspondence run; soundness: `Prog.wfB_sound`,
`Prog.normalizedB_sound`) -/

/-- every dependency of node `i` has an index below `i` -/
def Prog.wfB (P : Prog) : Bool :=
  (List.range P.nodes.length).all fun i =>
    match P.nodes[i]? with
    | some nd => nd.deps.all fun j => decide (j < i)
    | none => true

/-- the weights of every weighted choice are non-negative and not all zero -/
def Prog.normalizedB (P : Prog) : Bool :=
  P.nodes.all fun nd =>
    match nd with
    | .windex ws => ws.all (fun w => decide (0 ≤ w)) && decide (0 < sumW ws)
    | _ => true

end Scenic.Sampler
