/-!
# C14 model (part 1): dynamic proxies, `override` bookkeeping and the clean-up of `Simulation.__init__`

What is modelled (read off the source, not what it should do):

* `object_types.py` `Object.__getattribute__/__setattr__`: every attribute access goes through
  `_dynamicProxy`, which is the object itself outside simulations and a copy (`_copyWith()`) between
  `enableDynamicProxyFor` (in `Simulation._createObject`) and `disableDynamicProxyFor` (in the `finally`
  of `Simulation.__init__`).  `Object._override/_revert` use `object.__setattr__(self, …)`, but they are
  *looked up through the proxy*, so `self` is whatever `_dynamicProxy` points to at the time of the call:
  they behave like ordinary writes.  (`World`, `read`, `write`, `enable`, `disable`.)
* `dynamics/scenarios.py` `DynamicScenario._override` (the `_overrides` dictionary of old values and the
  way a second override of the same object is merged: `MergeMode`), `_stop` (stops running
  sub-scenarios first, then reverts its own overrides, and – depending on the source – forgets them or
  not: `stopClears`), `_prepare`/`_start` (a scenario can execute `override` in its setup block before it
  is running).  (`Frame`, `St`, `Ev`, `step`.)
* `simulators.py` `Simulation.__init__`: the `finally` block as an ordered list of clean-up steps
  (`Step`, generated from the source), including the fact that `self.agents` may not exist yet when the
  block runs (`agentsEarly`), and that `self.destroy()` – code of the simulator interface – is itself a
  statement of the block and may raise (`runSimD`, `destroyGuarded`).  The top-level `DynamicScenario` object is shared by all simulations of a
  compiled scenario, so its `_overrides` survive from one simulation to the next (`stale`).

Values are integers, objects and properties are numbered.  No Mathlib.
-/
namespace Scenic.Overrides

abbrev ObjId := Nat
abbrev PropId := Nat
abbrev Val := Int

/-- The scene's objects (`orig`), their per-simulation copies (`proxy`) and the `_dynamicProxy` switch. -/
structure World where
  orig : ObjId → PropId → Val
  proxy : ObjId → PropId → Val
  proxied : ObjId → Bool

namespace World

/-- `getattr(obj, prop)` -/
def read (w : World) (o : ObjId) (p : PropId) : Val :=
  if w.proxied o then w.proxy o p else w.orig o p

/-- `setattr(obj, prop, v)` (also `_override`/`_revert`, which are bound to the current proxy) -/
def write (w : World) (o : ObjId) (p : PropId) (v : Val) : World :=
  if w.proxied o then
    { w with proxy := fun o' p' => if o' = o ∧ p' = p then v else w.proxy o' p' }
  else
    { w with orig := fun o' p' => if o' = o ∧ p' = p then v else w.orig o' p' }

/-- `enableDynamicProxyFor(obj)`: the proxy becomes a copy of what the object currently reads as -/
def enable (w : World) (o : ObjId) : World :=
  { w with
    proxy := fun o' p' => if o' = o then w.read o p' else w.proxy o' p'
    proxied := fun o' => if o' = o then true else w.proxied o' }

/-- `disableDynamicProxyFor(obj)` -/
def disable (w : World) (o : ObjId) : World :=
  { w with proxied := fun o' => if o' = o then false else w.proxied o' }

end World

/-- `DynamicScenario._overrides`, flattened: (object, property, value to restore) -/
abbrev Saved := List (ObjId × PropId × Val)

/-- How `DynamicScenario._override` records the old values of an object it has overridden before. -/
inductive MergeMode
  | keepOldest      -- first dict kept, later old values added with `setdefault` (current source)
  | firstDictOnly   -- `if obj not in self._overrides: self._overrides[obj] = oldVals` and nothing else (the old defect)
  | overwriteDict   -- `self._overrides[obj] = oldVals`
  deriving DecidableEq, Repr

def hasPair (s : Saved) (o : ObjId) (p : PropId) : Bool := s.any (fun e => e.1 == o && e.2.1 == p)
def hasObj (s : Saved) (o : ObjId) : Bool := s.any (fun e => e.1 == o)

def addSaved (m : MergeMode) (s : Saved) (o : ObjId) (olds : List (PropId × Val)) : Saved :=
  match m with
  | .keepOldest =>
      olds.foldl (fun acc pv => if hasPair acc o pv.1 then acc else acc ++ [(o, pv.1, pv.2)]) s
  | .firstDictOnly => if hasObj s o then s else s ++ olds.map (fun pv => (o, pv.1, pv.2))
  | .overwriteDict => s.filter (fun e => e.1 != o) ++ olds.map (fun pv => (o, pv.1, pv.2))

/-- `for obj, oldVals in self._overrides.items(): obj._revert(oldVals)` -/
def revertAll (w : World) (s : Saved) : World :=
  s.foldl (fun w e => w.write e.1 e.2.1 e.2.2) w

inductive Status
  | prepared | running | stopped
  deriving DecidableEq, Repr

/-- One `DynamicScenario` instance taking part in a simulation. -/
structure Frame where
  id : Nat
  anc : List Nat          -- the scenarios it was (transitively) invoked by
  status : Status
  saved : Saved

/-- The steps of the `finally` block of `Simulation.__init__`. -/
inductive Step
  | destroy | disableProxies | stopBehaviors | stopScenarios | endSimulation
  deriving DecidableEq, Repr

/-- What the translator reads off the source. -/
structure Cfg where
  order : List Step        -- order of the statements of the `finally` block
  merge : MergeMode        -- `DynamicScenario._override`
  stopClears : Bool        -- `_stop` forgets the reverted overrides
  agentsEarly : Bool       -- `self.agents` is assigned before the `try` (so the `finally` cannot fail on it)
  destroyGuarded : Bool    -- the statements after `self.destroy()` run even if it raises (nested `try … finally`)
  deriving Repr

structure St where
  w : World
  frames : List Frame      -- in creation order (oldest first); frame 0 is the top-level scenario
  objs : List ObjId        -- `Simulation.objects`

inductive Ev
  | create (o : ObjId)                                        -- `Simulation._createObject`
  | write (o : ObjId) (p : PropId) (v : Val)                  -- any attribute assignment (behaviour, compose block, `updateObjects`)
  | override (s : Nat) (o : ObjId) (ps : List (PropId × Val)) -- `override o with …` executed by scenario `s`
  | prepare (s : Nat) (parent : Nat)                          -- `DynamicScenario._prepare` of a sub-scenario
  | start (s : Nat)                                           -- `veneer.startScenario`
  | stop (s : Nat)                                            -- `DynamicScenario._stop`
  deriving Repr

def inSub (s : Nat) (f : Frame) : Bool := f.id == s || f.anc.contains s

def isRunning (f : Frame) : Bool := f.status == .running

def stopFrame (cfg : Cfg) (s : Nat) (f : Frame) : Frame :=
  if isRunning f && inSub s f then
    { f with status := .stopped, saved := if cfg.stopClears then [] else f.saved }
  else f

def overrideFrame (cfg : Cfg) (s : Nat) (o : ObjId) (olds : List (PropId × Val)) (f : Frame) : Frame :=
  if f.id == s then { f with saved := addSaved cfg.merge f.saved o olds } else f

def startFrame (s : Nat) (f : Frame) : Frame :=
  if f.id == s then { f with status := .running } else f

/-- `DynamicScenario._stop`: running descendants are stopped first (youngest first), each reverting
    its own overrides, then the scenario itself. -/
def stopScen (cfg : Cfg) (st : St) (s : Nat) : St :=
  if st.frames.any (fun f => f.id == s && isRunning f) then
    let victims := st.frames.reverse.filter (fun f => isRunning f && inSub s f)
    { st with
      w := victims.foldl (fun w f => revertAll w f.saved) st.w
      frames := st.frames.map (stopFrame cfg s) }
  else st

def doOverride (cfg : Cfg) (st : St) (s : Nat) (o : ObjId) (ps : List (PropId × Val)) : St :=
  let olds := ps.map (fun pv => (pv.1, st.w.read o pv.1))
  { st with
    w := ps.foldl (fun w pv => w.write o pv.1 pv.2) st.w
    frames := st.frames.map (overrideFrame cfg s o olds) }

def doPrepare (st : St) (s par : Nat) : St :=
  let anc := match st.frames.find? (fun f => f.id == par) with
    | some f => f.anc ++ [par]
    | none => [par]
  { st with frames := st.frames ++ [{ id := s, anc := anc, status := .prepared, saved := [] }] }

def doStart (st : St) (s : Nat) : St :=
  { st with frames := st.frames.map (startFrame s) }

def step (cfg : Cfg) (st : St) : Ev → St
  | .create o => { st with objs := st.objs ++ [o], w := st.w.enable o }
  | .write o p v => { st with w := st.w.write o p v }
  | .override s o ps => doOverride cfg st s o ps
  | .prepare s par => doPrepare st s par
  | .start s => doStart st s
  | .stop s => stopScen cfg st s

def run (cfg : Cfg) (st : St) (evs : List Ev) : St := evs.foldl (step cfg) st

/-- `for scenario in tuple(reversed(veneer.runningScenarios)): scenario._stop("exception", quiet=True)` -/
def stopAllRunning (cfg : Cfg) (st : St) : St :=
  ((st.frames.reverse.filter isRunning).map (·.id)).foldl (stopScen cfg) st

def cleanupStep (cfg : Cfg) (st : St) : Step → St
  | .disableProxies => { st with w := st.objs.foldl World.disable st.w }
  | .stopScenarios => stopAllRunning cfg st
  | _ => st

/-- The `finally` block.  `agentsSet`: `Simulation.setup` got as far as `self.agents = []`.  If it did not and
    the attribute is not initialised earlier, the loop over `self.agents` raises `AttributeError` and the
    remaining statements of the block are skipped.  The Boolean result says whether `endSimulation` ran. -/
def cleanup (cfg : Cfg) (agentsSet : Bool) : List Step → St → Bool → St × Bool
  | [], st, ended => (st, ended)
  | .stopBehaviors :: rest, st, ended =>
      if agentsSet || cfg.agentsEarly then cleanup cfg agentsSet rest st ended else (st, ended)
  | .endSimulation :: rest, st, _ => cleanup cfg agentsSet rest st true
  | s :: rest, st, ended => cleanup cfg agentsSet rest (cleanupStep cfg st s) ended

structure SimResult where
  w : World
  stale : Saved     -- `_overrides` of the (shared) top-level scenario after the simulation
  ended : Bool      -- `veneer.endSimulation` was reached

def topSaved (st : St) : Saved :=
  match st.frames with
  | f :: _ => f.saved
  | [] => []

def initSt (w : World) (stale : Saved) : St :=
  { w := w, frames := [{ id := 0, anc := [], status := .prepared, saved := stale }], objs := [] }

/-- One call of `Simulation.__init__`: the events up to the point where the run ends (normally or by an
    exception anywhere), followed by the `finally` block. -/
def runSim (cfg : Cfg) (w : World) (stale : Saved) (agentsSet : Bool) (evs : List Ev) : SimResult :=
  let st := run cfg (initSt w stale) evs
  let r := cleanup cfg agentsSet cfg.order st false
  { w := r.1.w, stale := topSaved r.1, ended := r.2 }

/-- The statements of the `finally` block that have completed when `self.destroy()` raises. -/
def beforeDestroy : List Step → List Step
  | [] => []
  | .destroy :: _ => []
  | s :: rest => s :: beforeDestroy rest

/-- One call of `Simulation.__init__` in which the simulator interface's `destroy()` may itself raise
    (`destroyFails`; e.g. the connection to the simulator was lost).  `destroy()` is a statement of the `finally`
    block: unless the rest of the block is protected by a nested `try … finally` (`destroyGuarded`), the
    exception leaves the block at once and the remaining statements are skipped. -/
def runSimD (cfg : Cfg) (w : World) (stale : Saved) (agentsSet destroyFails : Bool) (evs : List Ev) : SimResult :=
  if destroyFails && !cfg.destroyGuarded then
    let st := run cfg (initSt w stale) evs
    let r := cleanup cfg agentsSet (beforeDestroy cfg.order) st false
    { w := r.1.w, stale := topSaved r.1, ended := r.2 }
  else runSim cfg w stale agentsSet evs

/-- Several simulations of scenes of the same compiled scenario, one after the other, in one process. -/
def runHist (cfg : Cfg) (w : World) (stale : Saved) : List (Bool × List Ev) → World × Saved
  | [] => (w, stale)
  | (a, evs) :: rest =>
      let r := runSim cfg w stale a evs
      runHist cfg r.w r.stale rest

/-- After the proxies are disabled nothing is reverted any more. -/
def safeOrder : List Step → Bool
  | [] => true
  | .disableProxies :: rest => !rest.contains .stopScenarios
  | _ :: rest => safeOrder rest

/-- every object an event writes to has been created in this simulation -/
def scopedEvs : List ObjId → List Ev → Bool
  | _, [] => true
  | cr, .create o :: rest => scopedEvs (cr ++ [o]) rest
  | cr, .write o _ _ :: rest => cr.contains o && scopedEvs cr rest
  | cr, .override _ o _ :: rest => cr.contains o && scopedEvs cr rest
  | cr, _ :: rest => scopedEvs cr rest

/-- the top-level scenario only executes `override` while it is running -/
def topDiscipline : Bool → List Ev → Bool
  | _, [] => true
  | r, .start s :: rest => topDiscipline (if s = 0 then true else r) rest
  | r, .stop s :: rest => topDiscipline (if s = 0 then false else r) rest
  | r, .override s _ _ :: rest => (s != 0 || r) && topDiscipline r rest
  | r, .create _ :: rest => topDiscipline r rest
  | r, .write _ _ _ :: rest => topDiscipline r rest
  | r, .prepare _ _ :: rest => topDiscipline r rest

def topRunning (st : St) : Bool :=
  match st.frames with
  | f :: _ => isRunning f
  | [] => false

/-- a world in which no object is proxied and every property of every object is 0 -/
def World.zero : World := { orig := fun _ _ => 0, proxy := fun _ _ => 0, proxied := fun _ => false }

end Scenic.Overrides
