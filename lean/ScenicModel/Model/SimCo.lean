/-! # C12 — coroutine machine for behaviors, monitors and compose blocks

A behavior / monitor / compose block of the dynamic fragment is a list of statements
(`Stmt`).  The running generator (with its `yield from` chain through
`Invocable._invokeSubBehavior`, `runTryInterrupt` and `_invokeInner`) is a stack of frames,
innermost first.  `resume` is one `send(None)`:

* first every enclosing `do … for/until` / `wait for/until` condition is re-evaluated,
  outermost first (each `runTryInterrupt` is suspended at its own `yield` and tests
  `interrupt.isEnabled` before it steps its body again); the outermost condition that holds
  discards everything inside it (`handler` … `BlockConclusion.ABORT`) and execution goes on
  after the statement;
* otherwise execution continues at the innermost frame until the next `take`/`wait`/
  `terminate`/`terminate simulation`.

The machine is pure.  Everything that touches scenario state is handed back to the caller
(`Res.invokeStart`, `Res.invokeCont`, `Res.stopSubs`), which is `SimLoop`.

Source: `core/dynamics/invocables.py` (`_invokeSubBehavior`, `runTryInterrupt`,
`InterruptBlock`), `core/dynamics/behaviors.py` (`Behavior._step`, `_invokeInner`),
`syntax/compiler.py` (`visit_Take/Wait/WaitFor/WaitUntil/Terminate/TerminateSimulation/Do*`,
`generateInvocation`, `makeDoLike`). -/
namespace Scenic.SimLoop

/-- conditions of the fragment are functions of the simulation clock -/
inductive Cond
  | tt | ff
  | ge (k : Nat) | lt (k : Nat) | eq (k : Nat) | ne (k : Nat)
  deriving Repr, DecidableEq, Inhabited

def Cond.eval (t : Nat) : Cond → Bool
  | .tt => true
  | .ff => false
  | .ge k => decide (k ≤ t)
  | .lt k => decide (t < k)
  | .eq k => t == k
  | .ne k => t != k

/-- modifier of a `do`/`wait` statement; durations are already converted to a number of steps
    (`thr` = least natural number `k` with `k ≥ limit / timestep`, see `secToSteps*`) -/
inductive Mod
  | none
  | forT (thr : Nat)
  | untilC (c : Nat)
  deriving Repr, DecidableEq, Inhabited

inductive Stmt
  | log (tag : Nat)                         -- a call appending to the event log
  | take (a : Nat)                          -- `take a`
  | wait                                    -- `wait`
  | doSub (subs : List Nat) (m : Mod)       -- `do X [for/until]`, `wait for/until` (subs = [])
  | term                                    -- `terminate`
  | termSim                                 -- `terminate simulation`
  | rep (k : Nat) (body : List Stmt)        -- `for _ in range(k):`
  | forever (body : List Stmt)              -- `while True:`
  | ite (c : Nat) (thn els : List Stmt)     -- `if cond: … else: …`
  deriving Inhabited

inductive Guard
  | forT (start thr : Nat)                  -- `currentTime - startTime >= timeLimit`
  | untilC (c : Nat)
  deriving Repr, DecidableEq, Inhabited

inductive Frame
  | seq (ss : List Stmt)
  | rep (k : Nat) (body : List Stmt)
  | forever (body : List Stmt)
  | guard (g : Guard)                       -- a running `runTryInterrupt`
  | waiting                                 -- `while True: yield ()` of a `do` with no sub
  | invoke                                  -- `DynamicScenario._invokeInner`, suspended at `yield None`
  deriving Inhabited

abbrev Stack := List Frame

/-- who runs the coroutine (decides which events it may emit and how `do` is entered) -/
inductive Owner
  | comp (inst : Nat)
  | mon (inst idx : Nat)
  | beh (agent : Nat)
  deriving Repr, DecidableEq, Inhabited

/-- context tag of a logged condition evaluation -/
inductive Ctx
  | comp | mon | beh | termWhen | termSim
  deriving Repr, DecidableEq, Inhabited

def Owner.ctx : Owner → Ctx
  | .comp _ => .comp
  | .mon _ _ => .mon
  | .beh _ => .beh

/-- the observable events (what the logging simulator, the helper functions called from the
    generated Scenic program and the `_stop` wrapper append to the event log) -/
inductive Ev
  | q (inst : Nat)                                   -- temporal requirement of a scenario evaluated
  | c (inst tag : Nat)                               -- compose block reached a log statement
  | m (inst idx tag : Nat)                           -- monitor reached a log statement
  | b (agent tag : Nat)                              -- behavior reached a log statement
  | bstep (agent : Nat)                              -- `agent.behavior._step()` entered
  | cond (ctx : Ctx) (id : Nat) (val : Bool)         -- a user condition was evaluated
  | create (agent : Nat)                             -- object created in the simulator
  | stop (inst : Nat)                                -- `DynamicScenario._stop` entered
  | recInit                                          -- `record initial` evaluated
  | recd (k : Nat)                                   -- `record` number k evaluated
  | traj (t : Nat)                                   -- trajectory entry appended
  | recFinal                                         -- `record final` evaluated
  | sched (order : List Nat)                         -- `scheduleForAgents` result
  | act (t : Nat) (acts : List (Nat × Option Nat))   -- `executeActions`
  | sim (t : Nat)                                    -- `step`
  | upd (t : Nat)                                    -- `updateObjects` (t = clock after increment)
  deriving Repr, DecidableEq, Inhabited

def Ev.isTraj : Ev → Bool | .traj _ => true | _ => false
def Ev.isAct : Ev → Bool | .act _ _ => true | _ => false
def Ev.isSim : Ev → Bool | .sim _ => true | _ => false

/-- what a `send(None)` produced -/
inductive Y
  | acts (a : Option Nat)     -- `take a` / `wait` (or `yield None` of a compose block)
  | endScen                   -- `_EndScenarioAction`
  | endSim                    -- `_EndSimulationAction`
  deriving Repr, DecidableEq, Inhabited

inductive Res
  | yield (y : Y) (s : Stack)
  | done                              -- StopIteration
  | stuck                             -- fuel exhausted (Python would not return)
  | invokeStart (subs : List Nat) (s : Stack)   -- compose `do S1, S2`: start them, then loop
  | invokeCont (s : Stack)            -- resumed inside `_invokeInner`
  | stopSubs (s : Stack)              -- a `for/until` fired in a compose block: stop running subs
  deriving Inhabited

structure Out where
  log : List Ev
  res : Res
  deriving Inhabited

/-- code tables the machine reads -/
structure Code where
  conds : List Cond
  behs : List (List Stmt)      -- sub-behavior bodies (`do B()` in a behavior)
  deriving Inhabited

def Code.cond (P : Code) (c t : Nat) : Bool := (P.conds.getD c .ff).eval t

def logEv (o : Owner) (tag : Nat) : Ev :=
  match o with
  | .comp i => .c i tag
  | .mon i j => .m i j tag
  | .beh a => .b a tag

def Guard.fires (P : Code) (t : Nat) : Guard → Bool
  | .forT start thr => decide (thr ≤ t - start)
  | .untilC c => P.cond c t

def Guard.evs (P : Code) (o : Owner) (t : Nat) : Guard → List Ev
  | .forT _ _ => []
  | .untilC c => [.cond o.ctx c (P.cond c t)]

/-- Re-evaluate the enclosing conditions, outermost first.  `some rest` = the outermost
    condition that holds, `rest` being the frames outside it. -/
def scan (P : Code) (o : Owner) (t : Nat) : Stack → List Ev × Option Stack
  | [] => ([], none)
  | f :: rest =>
    match scan P o t rest with
    | (l, some r) => (l, some r)
    | (l, none) =>
      match f with
      | .guard g => (l ++ g.evs P o t, if g.fires P t then some rest else none)
      | _ => (l, none)

/-- enter the body of a `do`: sub-behavior inline, sub-scenarios via the caller, nothing = wait loop -/
def enter (P : Code) (o : Owner) (subs : List Nat) (k : Stack) : Stack ⊕ Res :=
  match subs with
  | [] => .inr (.yield (.acts none) (.waiting :: k))
  | b :: _ =>
    match o with
    | .comp _ => .inr (.invokeStart subs (.invoke :: k))
    | _ => .inl (.seq (P.behs.getD b []) :: k)

/-- run until the next yield -/
def exec (P : Code) (o : Owner) (t : Nat) : Nat → Stack → List Ev → Out
  | 0, _, l => ⟨l, .stuck⟩
  | n + 1, s, l =>
    match s with
    | [] => ⟨l, .done⟩
    | .seq [] :: r => exec P o t n r l
    | .seq (st :: ss) :: r =>
      let k := Frame.seq ss :: r
      match st with
      | .log tag => exec P o t n k (l ++ [logEv o tag])
      | .take a => ⟨l, .yield (.acts (some a)) k⟩
      | .wait => ⟨l, .yield (.acts none) k⟩
      | .term => ⟨l, .yield .endScen k⟩
      | .termSim => ⟨l, .yield .endSim k⟩
      | .rep c body => exec P o t n (.rep c body :: k) l
      | .forever body => exec P o t n (.forever body :: k) l
      | .ite c a b =>
        let v := P.cond c t
        exec P o t n (.seq (if v then a else b) :: k) (l ++ [.cond o.ctx c v])
      | .doSub subs m =>
        match m with
        | .none =>
          match enter P o subs k with
          | .inl s' => exec P o t n s' l
          | .inr r => ⟨l, r⟩
        | .forT thr =>
          if thr = 0 then exec P o t n k l
          else match enter P o subs (.guard (.forT t thr) :: k) with
            | .inl s' => exec P o t n s' l
            | .inr r => ⟨l, r⟩
        | .untilC c =>
          let v := P.cond c t
          let l' := l ++ [.cond o.ctx c v]
          if v then exec P o t n k l'
          else match enter P o subs (.guard (.untilC c) :: k) with
            | .inl s' => exec P o t n s' l'
            | .inr r => ⟨l', r⟩
    | .rep 0 _ :: r => exec P o t n r l
    | .rep (c + 1) body :: r => exec P o t n (.seq body :: .rep c body :: r) l
    | .forever body :: r => exec P o t n (.seq body :: .forever body :: r) l
    | .guard _ :: r => exec P o t n r l
    | .waiting :: r => ⟨l, .yield (.acts none) (.waiting :: r)⟩
    | .invoke :: r => ⟨l, .invokeCont (.invoke :: r)⟩

/-- one `send(None)` -/
def resume (P : Code) (o : Owner) (t : Nat) (fuel : Nat) (s : Stack) : Out :=
  match scan P o t s with
  | (l, some rest) =>
    match o with
    | .comp _ => ⟨l, .stopSubs rest⟩
    | _ => exec P o t fuel rest l
  | (l, none) => exec P o t fuel s l

/-! ### seconds → steps

`limit / timestep` is a float division in `/repo`; a clock value `k` reaches the limit when
`k >= limit / timestep`, i.e. when `k ≥ ⌈limit / timestep⌉`.  `secToStepsF` is what runs in
the correspondence driver (IEEE double, as CPython), `secToStepsQ` the exact quotient used
as the specification. -/
def secToStepsQ (q dt : Rat) : Nat := (q / dt).ceil.toNat

def secToStepsF (q dt : Float) : Nat := (Float.ceil (q / dt)).toUInt64.toNat

end Scenic.SimLoop
