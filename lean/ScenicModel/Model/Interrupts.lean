/-
Executable model of Scenic's try-interrupt scheduler and guard checks (C13), core Lean only.

What is modelled (read from /repo, see notes/design/C13.md):

* `compiler.py visit_TryInterrupt`  -> `lowerS` : the body/handler blocks become closures, the
  condition and handler tuples are (each) reversed, `break`/`continue`/`return` at block level become
  `return <flag>`, and after `yield from runTryInterrupt(..)` the flag is turned back into
  `break`/`continue`/`return`  (`TryFlags`: which of those re-raising statements were emitted).
  Two compilers are modelled: the *legacy* bookkeeping (one pair of `usedBreak/usedContinue` attributes
  shared by all nested statements, the emitted statements are not re-visited) and the *nested-aware* one.
* `compiler.py generateInvocation`  -> `take a` lowers to `[yld a, chk]` (yield, then invariant check).
* `invocables.py runTryInterrupt / InterruptBlock` -> `Task.loopTI`, `pick`, `K.atTry`.
* `invocables.py _invokeSubBehavior` (`do B`, `do B until c`), `behaviors.py _invokeInner/_start/_stop`
  -> `L.sub`, `TryKind.doUntil`, start = preconditions then invariants, stop events.
* Python generators -> suspended continuations `K` (one per generator object); a pre-empted block keeps
  its `K` in the `st` field of its `Blk` (InterruptBlock.runningIterator).

Everything is total: `go` recurses on a fuel argument (a handler that finishes without yielding while
its condition stays true loops forever in the real code; the model answers `diverge`).
-/
namespace Scenic.Interrupts

/-- How a generator function body is left. `fin`: ran off the end (`return FINISHED`),
`abort/brk/cont/ret`: `return ABORT/BREAK/CONTINUE/RETURN(v)` resp. Python `break/continue`,
`rawRet`: a Python `return v` of a value that is not a flag. -/
inductive Flow where
  | fin | abort | brk | cont | ret | rawRet
  deriving DecidableEq, Repr, Inhabited

/-- Data regenerated from /repo (tools/translate/interrupts.py). -/
structure Cfg where
  /-- `conditions` tuple is built from `reversed(conditionNames)` -/
  condsReversed : Bool
  /-- `handlers` tuple is built from `reversed(handlerNames)` -/
  handlersReversed : Bool
  /-- runTryInterrupt tests `interrupt.isEnabled` -/
  useEnabled : Bool
  /-- runTryInterrupt tests `interrupt.isRunning` -/
  useRunning : Bool
  /-- the selection loop `break`s at the first matching interrupt -/
  firstWins : Bool
  /-- a handler that FINISHED makes the scheduler loop again (`continue`) instead of returning -/
  finishedContinues : Bool
  /-- runTryInterrupt re-checks the invariants after its `yield` -/
  tiCheck : Bool
  /-- ... but not while a sub-behaviour of the behaviour is in progress -/
  tiCheckSkipsSub : Bool
  /-- generateInvocation emits the invariant check after the yield -/
  checkAfterInvoke : Bool
  /-- generateInvocation emits an invariant check before the yield (not in the unchanged code) -/
  checkBeforeInvoke : Bool
  /-- `_checkAllPreconditions` calls checkPreconditions -/
  startPre : Bool
  /-- `_checkAllPreconditions` calls checkInvariants -/
  startInv : Bool
  /-- `_invokeInner` stops the sub-behaviour in a `finally` -/
  stopInFinally : Bool
  /-- visit_TryInterrupt handles nesting: usedBreak/usedContinue saved and restored, the emitted
      `break`/`continue`/`return` are compiled in the enclosing context -/
  nestedFlow : Bool
  /-- the names generated for a try-interrupt statement (`_Scenic_interrupt_*`) are not declared
      `nonlocal` in the enclosing block, so a nested statement may have any number of handlers -/
  nestedNames : Bool
  /-- runTryInterrupt closes the blocks that are still suspended when it is left, in a `finally` (so also when it
      is left by an exception); otherwise their finalisation -- which stops their sub-behaviours -- is left to the
      garbage collector: immediate when the statement concludes (reference counting), but *after the simulation*
      when it is left by an exception, whose traceback keeps the frames alive -/
  closeBlocks : Bool
  deriving DecidableEq, Repr, Inhabited

/-- The configuration the property theorems ask for. -/
def Cfg.spec : Cfg :=
  { condsReversed := true, handlersReversed := true, useEnabled := true, useRunning := true,
    firstWins := true, finishedContinues := true, tiCheck := true, tiCheckSkipsSub := true,
    checkAfterInvoke := true, checkBeforeInvoke := false, startPre := true, startInv := true,
    stopInFinally := true, nestedFlow := true, nestedNames := true, closeBlocks := true }

/-! ## Surface syntax (the interrupt fragment) -/

inductive Stmt where
  | take (a : Nat)
  | doSub (b : Nat) (u : Option Nat)
  | tryI (body : List Stmt) (hs : List (Nat × List Stmt))
  | forN (n : Nat) (body : List Stmt)
  | whileT (body : List Stmt)
  | abort | brk | cont | ret
  deriving Repr, Inhabited

structure SBeh where
  pre : List Nat
  inv : List Nat
  body : List Stmt
  deriving Repr, Inhabited

/-! ## Lowered code -/

/-- which re-raising statements follow `r = yield from runTryInterrupt(..)` -/
structure TryFlags where
  emitBrk : Bool
  emitCont : Bool
  /-- `if r is RETURN: return <RETURN(r.return_value)>` (wrapped again for an enclosing block) -/
  retWrap : Bool
  deriving DecidableEq, Repr, Inhabited

inductive TryKind where
  | user (fl : TryFlags)
  /-- the runTryInterrupt call made by `_invokeSubBehavior` for `do .. until c` -/
  | doUntil
  deriving DecidableEq, Repr, Inhabited

inductive L where
  /-- `yield (a,)` -/
  | yld (a : Nat)
  /-- `_Scenic_current_behavior.checkInvariants(self, ..)` -/
  | chk
  /-- `yield from self._invokeInner(agent, (B_b(),))` -/
  | sub (b : Nat)
  /-- `r = yield from runTryInterrupt(beh, self, body, conditions, handlers)` followed by the flag tests;
      `hs` is in *runtime* order (the order of the tuples passed to runTryInterrupt) -/
  | tryI (kind : TryKind) (body : List L) (hs : List (Nat × List L))
  | forN (n : Nat) (body : List L)
  | whileT (body : List L)
  | flow (f : Flow)
  deriving Repr, Inhabited

structure Beh where
  pre : List Nat
  inv : List Nat
  body : List L
  deriving Repr, Inhabited

abbrev Prog := List Beh

/-! ### Lowering (the compiler) -/

structure LCtx where
  inBlock : Bool
  inLoop : Bool
  /-- largest number of handlers of a try-interrupt statement placed directly in the behaviour's own
      generator function (legacy compiler: only those names are bound for `nonlocal`) -/
  maxTop : Nat
  deriving Repr

structure LSt where
  usedBrk : Bool
  usedCont : Bool
  deriving Repr

def zipRuntime (cfg : Cfg) (conds : List Nat) (codes : List (List L)) : List (Nat × List L) :=
  List.zip (if cfg.condsReversed then conds.reverse else conds)
           (if cfg.handlersReversed then codes.reverse else codes)

def lowerTake (cfg : Cfg) (a : Nat) : List L :=
  (if cfg.checkBeforeInvoke then [L.chk] else []) ++ [L.yld a] ++ (if cfg.checkAfterInvoke then [L.chk] else [])

def lowerDo (cfg : Cfg) (b : Nat) (u : Option Nat) : List L :=
  let inv : L := match u with
    | none => L.sub b
    | some c => L.tryI .doUntil [L.sub b] [(c, [L.flow .abort])]
  (if cfg.checkBeforeInvoke then [L.chk] else []) ++ [inv] ++ (if cfg.checkAfterInvoke then [L.chk] else [])

mutual
/-- `none` = the program does not compile (Python `'break' outside loop`, misplaced `abort`, ..) -/
def lowerS (cfg : Cfg) (ctx : LCtx) (st : LSt) : Stmt → Option (List L × LSt)
  | .take a => some (lowerTake cfg a, st)
  | .doSub b u => some (lowerDo cfg b u, st)
  | .abort => if ctx.inBlock then some ([L.flow .abort], st) else none
  | .brk =>
    if ctx.inLoop then some ([L.flow .brk], st)
    else if ctx.inBlock then some ([L.flow .brk], { st with usedBrk := true })
    else none
  | .cont =>
    if ctx.inLoop then some ([L.flow .cont], st)
    else if ctx.inBlock then some ([L.flow .cont], { st with usedCont := true })
    else none
  | .ret => some ([L.flow (if ctx.inBlock then .ret else .rawRet)], st)
  | .forN n body =>
    match lowerList cfg { ctx with inLoop := true } st body with
    | none => none
    | some (b, st') => some ([L.forN n b], st')
  | .whileT body =>
    match lowerList cfg { ctx with inLoop := true } st body with
    | none => none
    | some (b, st') => some ([L.whileT b], st')
  | .tryI body hs =>
    let inner : LCtx := { ctx with inBlock := true, inLoop := false }
    if !cfg.nestedNames && ctx.inBlock && hs.length > ctx.maxTop then none else
    match lowerList cfg inner { usedBrk := false, usedCont := false } body with
    | none => none
    | some (b, st1) =>
      match lowerHandlers cfg inner st1 hs with
      | none => none
      | some (conds, codes, st2) =>
        if cfg.nestedFlow then
          -- the emitted break/continue/return are compiled in the enclosing context
          let brkOk := !st2.usedBrk || ctx.inLoop || ctx.inBlock
          let contOk := !st2.usedCont || ctx.inLoop || ctx.inBlock
          if brkOk && contOk then
            let st' : LSt :=
              { usedBrk := st.usedBrk || (st2.usedBrk && !ctx.inLoop && ctx.inBlock),
                usedCont := st.usedCont || (st2.usedCont && !ctx.inLoop && ctx.inBlock) }
            some ([L.tryI (.user { emitBrk := st2.usedBrk, emitCont := st2.usedCont, retWrap := ctx.inBlock })
                    b (zipRuntime cfg conds codes)], st')
          else none
        else
          -- legacy: raw `break`/`continue`/`return r.return_value`; the flags leak to the enclosing statement
          let brkOk := !st2.usedBrk || ctx.inLoop
          let contOk := !st2.usedCont || ctx.inLoop
          if brkOk && contOk then
            some ([L.tryI (.user { emitBrk := st2.usedBrk, emitCont := st2.usedCont, retWrap := false })
                    b (zipRuntime cfg conds codes)], st2)
          else none

def lowerList (cfg : Cfg) (ctx : LCtx) (st : LSt) : List Stmt → Option (List L × LSt)
  | [] => some ([], st)
  | s :: rest =>
    match lowerS cfg ctx st s with
    | none => none
    | some (l1, st1) =>
      match lowerList cfg ctx st1 rest with
      | none => none
      | some (l2, st2) => some (l1 ++ l2, st2)

/-- handlers in syntactic order; in the legacy compiler the flags set by one clause are visible
    (and resettable) while the next clause is compiled -/
def lowerHandlers (cfg : Cfg) (ctx : LCtx) (st : LSt) :
    List (Nat × List Stmt) → Option (List Nat × List (List L) × LSt)
  | [] => some ([], [], st)
  | (c, h) :: rest =>
    match lowerList cfg ctx st h with
    | none => none
    | some (code, st1) =>
      match lowerHandlers cfg ctx st1 rest with
      | none => none
      | some (cs, codes, st2) => some (c :: cs, code :: codes, st2)
end

mutual
def topMaxS : Stmt → Nat
  | .tryI _ hs => hs.length
  | .forN _ body => topMaxL body
  | .whileT body => topMaxL body
  | _ => 0
def topMaxL : List Stmt → Nat
  | [] => 0
  | s :: rest => max (topMaxS s) (topMaxL rest)
end

def lowerBeh (cfg : Cfg) (b : SBeh) : Option Beh :=
  match lowerList cfg { inBlock := false, inLoop := false, maxTop := topMaxL b.body } { usedBrk := false, usedCont := false } b.body with
  | none => none
  | some (body, _) => some { pre := b.pre, inv := b.inv, body := body }

def lowerProg (cfg : Cfg) (p : List SBeh) : Option Prog := p.mapM (lowerBeh cfg)

/-! ## Run-time state -/

inductive Frame where
  | seq (rest : List L)
  | forF (n : Nat) (body : List L)
  | whileF (body : List L)
  deriving Repr, Inhabited

/-- an `InterruptBlock`: its condition, its code, and `runningIterator` -/
structure Blk (κ : Type) where
  cond : Nat
  code : List L
  st : Option κ
  deriving Repr, Inhabited

/-- a suspended generator -/
inductive K where
  /-- suspended at a `yield`; resume by running `l` then the frames `c` -/
  | atYld (l : List L) (c : List Frame)
  /-- suspended inside `yield from` of sub-behaviour `b` -/
  | atSub (b : Nat) (sub : K) (l : List L) (c : List Frame)
  /-- suspended at the `yield result` of runTryInterrupt -/
  | atTry (kind : TryKind) (body : Blk K) (hs : List (Blk K)) (l : List L) (c : List Frame)
  deriving Repr, Inhabited

inductive Task where
  | resume (k : K)
  | exec (l : List L) (c : List Frame)
  /-- top of the `while True` loop of runTryInterrupt -/
  | loopTI (kind : TryKind) (body : Blk K) (hs : List (Blk K)) (l : List L) (c : List Frame)
  deriving Repr, Inhabited

inductive GuardKind where
  | pre | inv
  deriving DecidableEq, Repr, Inhabited

inductive Ev where
  /-- guard `g` of behaviour `beh` was evaluated -/
  | chk (beh : Nat) (g : Nat)
  | sstart (b : Nat)
  | sstop (b : Nat)
  deriving DecidableEq, Repr, Inhabited

structure Viol where
  kind : GuardKind
  beh : Nat
  deriving DecidableEq, Repr, Inhabited

inductive Out where
  | yielded (a : Nat) (k : K) (log : List Ev)
  | done (f : Flow) (log : List Ev)
  | viol (v : Viol) (log : List Ev)
  | diverge
  deriving Repr, Inhabited

def Out.pre (lg : List Ev) : Out → Out
  | .yielded a k l => .yielded a k (lg ++ l)
  | .done f l => .done f (lg ++ l)
  | .viol v l => .viol v (lg ++ l)
  | .diverge => .diverge

/-- the environment at one time step: interrupt conditions and guard values
    (0 = false, 1 = true, anything else = a rejection raised inside the guard) -/
structure Env where
  cond : Nat → Bool
  guard : Nat → Nat

/-- evaluate guards in order; returns the log and whether all held (stops at the first that does not) -/
def checkGuards (env : Env) (beh : Nat) : List Nat → List Ev × Bool
  | [] => ([], true)
  | g :: gs =>
    if env.guard g = 1 then
      let r := checkGuards env beh gs
      (Ev.chk beh g :: r.1, r.2)
    else ([Ev.chk beh g], false)

def getBeh (P : Prog) (b : Nat) : Beh := P.getD b { pre := [], inv := [], body := [] }

/-- `_start`: preconditions, then invariants -/
def startChecks (cfg : Cfg) (P : Prog) (env : Env) (b : Nat) : List Ev × Option Viol :=
  let B := getBeh P b
  let r1 := if cfg.startPre then checkGuards env b B.pre else ([], true)
  if r1.2 then
    let r2 := if cfg.startInv then checkGuards env b B.inv else ([], true)
    (r1.1 ++ r2.1, if r2.2 then none else some { kind := .inv, beh := b })
  else (r1.1, some { kind := .pre, beh := b })

def invCheck (P : Prog) (env : Env) (b : Nat) : List Ev × Option Viol :=
  let r := checkGuards env b (getBeh P b).inv
  (r.1, if r.2 then none else some { kind := .inv, beh := b })

/-- Python `break`/`continue`/`return` inside one generator function with loop frames `c`:
    `some (l, c')` = continue by running `l` with frames `c'`; `none` = the function returns `f`. -/
def unwind (f : Flow) : List Frame → Option (List L × List Frame)
  | [] => none
  | .seq _ :: c => unwind f c
  | .forF n body :: c =>
    match f with
    | .brk => some ([], c)
    | .cont => some ([], .forF n body :: c)
    | _ => none
  | .whileF body :: c =>
    match f with
    | .brk => some ([], c)
    | .cont => some ([], .whileF body :: c)
    | _ => none

mutual
/-- does the suspended generator (of one behaviour) have a sub-behaviour invocation in progress? -/
def K.hasSub : K → Bool
  | .atYld _ _ => false
  | .atSub _ _ _ _ => true
  | .atTry kind body hs _ _ =>
    (match kind with | .doUntil => true | .user _ => false) || blkHasSub body || blksHaveSub hs
def blkHasSub : Blk K → Bool
  | ⟨_, _, none⟩ => false
  | ⟨_, _, some k⟩ => K.hasSub k
def blksHaveSub : List (Blk K) → Bool
  | [] => false
  | b :: bs => blkHasSub b || blksHaveSub bs
end

mutual
/-- sub-behaviours in progress inside a suspended generator, innermost first
    (the order in which closing the generator stops them) -/
def K.subs : K → List Nat
  | .atYld _ _ => []
  | .atSub b sub _ _ => K.subs sub ++ [b]
  | .atTry _ body hs _ _ => blkSubs body ++ blksSubs hs
def blkSubs : Blk K → List Nat
  | ⟨_, _, none⟩ => []
  | ⟨_, _, some k⟩ => K.subs k
def blksSubs : List (Blk K) → List Nat
  | [] => []
  | b :: bs => blkSubs b ++ blksSubs bs
end

/-- sub-behaviours in progress in the generators a task is about to run -/
def Task.subs : Task → List Nat
  | .resume k => K.subs k
  | .exec _ _ => []
  | .loopTI _ body hs _ _ => blkSubs body ++ blksSubs hs

def stopsOf (cfg : Cfg) (subs : List Nat) : List Ev :=
  if cfg.stopInFinally then subs.map Ev.sstop else []

/-- stops caused by the `finally` of runTryInterrupt when the statement is left by an exception -/
def closeStops (cfg : Cfg) (subs : List Nat) : List Ev :=
  if cfg.closeBlocks then stopsOf cfg subs else []

def blkActive (cfg : Cfg) (env : Env) (b : Blk K) : Bool :=
  (cfg.useEnabled && env.cond b.cond) || (cfg.useRunning && b.st.isSome)

/-- index (in runtime order) of the interrupt block to run, `none` = the body -/
def pickFrom (cfg : Cfg) (env : Env) : Nat → List (Blk K) → Option Nat
  | _, [] => none
  | i, b :: bs =>
    if blkActive cfg env b then
      if cfg.firstWins then some i
      else match pickFrom cfg env (i + 1) bs with
        | some j => some j
        | none => some i
    else pickFrom cfg env (i + 1) bs

def pick (cfg : Cfg) (env : Env) (hs : List (Blk K)) : Option Nat := pickFrom cfg env 0 hs

def setSt (hs : List (Blk K)) (i : Nat) (st : Option K) : List (Blk K) :=
  hs.modify i (fun b => { b with st := st })

/-- sub-behaviours in progress in all blocks except handler `i` (`none`: except the body) -/
def otherSubs (body : Blk K) (hs : List (Blk K)) (i : Option Nat) : List Nat :=
  match i with
  | none => blksSubs hs
  | some i => blkSubs body ++ blksSubs (hs.eraseIdx i)

def othersHaveSub (body : Blk K) (hs : List (Blk K)) (i : Option Nat) : Bool :=
  match i with
  | none => blksHaveSub hs
  | some i => blkHasSub body || blksHaveSub (hs.eraseIdx i)

def kindIsDoUntil : TryKind → Bool
  | .doUntil => true
  | .user _ => false

/-- what follows `r = yield from runTryInterrupt(..)` when the statement concluded with `f` -/
def afterTry (kind : TryKind) (f : Flow) (l : List L) : List L :=
  match kind with
  | .doUntil => l
  | .user fl =>
    match f with
    | .brk => if fl.emitBrk then L.flow .brk :: l else l
    | .cont => if fl.emitCont then L.flow .cont :: l else l
    | .ret => L.flow (if fl.retWrap then .ret else .rawRet) :: l
    | _ => l

/-- One resumption (`send(None)`) of a generator of behaviour `self` at the time step described by `env`.
`inSub`: a sub-behaviour invocation of `self` is in progress in an enclosing/sibling position. -/
def go (cfg : Cfg) (P : Prog) (env : Env) : Nat → Nat → Bool → Task → Out
  | 0, _, _, _ => .diverge
  | fuel + 1, self, inSub, task =>
    match task with
    | .resume (.atYld l c) => go cfg P env fuel self inSub (.exec l c)
    | .resume (.atSub b sub l c) =>
      match go cfg P env fuel b false (.resume sub) with
      | .yielded a sub' lg => .yielded a (.atSub b sub' l c) lg
      | .done _ lg => (go cfg P env fuel self inSub (.exec l c)).pre (lg ++ stopsOf cfg [b])
      -- the exception travels through `_invokeInner`, whose `finally` stops the sub-behaviour
      | .viol v lg => .viol v (lg ++ stopsOf cfg [b])
      | .diverge => .diverge
    | .resume (.atTry kind body hs l c) =>
      let busy := inSub || kindIsDoUntil kind || blkHasSub body || blksHaveSub hs
      if cfg.tiCheck && !(cfg.tiCheckSkipsSub && busy) then
        match invCheck P env self with
        -- the violation is raised inside runTryInterrupt: its `finally` closes every suspended block
        | (lg, some v) => .viol v (lg ++ closeStops cfg (blkSubs body ++ blksSubs hs))
        | (lg, none) => (go cfg P env fuel self inSub (.loopTI kind body hs l c)).pre lg
      else go cfg P env fuel self inSub (.loopTI kind body hs l c)
    | .exec [] [] => .done .fin []
    | .exec [] (.seq rest :: c) => go cfg P env fuel self inSub (.exec rest c)
    | .exec [] (.forF 0 _ :: c) => go cfg P env fuel self inSub (.exec [] c)
    | .exec [] (.forF (n + 1) body :: c) => go cfg P env fuel self inSub (.exec body (.forF n body :: c))
    | .exec [] (.whileF body :: c) => go cfg P env fuel self inSub (.exec body (.whileF body :: c))
    | .exec (.yld a :: l) c => .yielded a (.atYld l c) []
    | .exec (.chk :: l) c =>
      match invCheck P env self with
      | (lg, some v) => .viol v lg
      | (lg, none) => (go cfg P env fuel self inSub (.exec l c)).pre lg
    | .exec (.sub b :: l) c =>
      -- `sub._start(agent)` checks the guards; the sub-behaviour counts as started (`sstart`) when they hold
      match startChecks cfg P env b with
      | (lg, some v) => .viol v lg
      | (lg, none) =>
        match go cfg P env fuel b false (.exec (getBeh P b).body []) with
        | .yielded a sub' lg' => .yielded a (.atSub b sub' l c) (lg ++ Ev.sstart b :: lg')
        | .done _ lg' =>
          (go cfg P env fuel self inSub (.exec l c)).pre (lg ++ Ev.sstart b :: lg' ++ stopsOf cfg [b])
        | .viol v lg' => .viol v (lg ++ Ev.sstart b :: lg' ++ stopsOf cfg [b])
        | .diverge => .diverge
    | .exec (.forN n body :: l) c => go cfg P env fuel self inSub (.exec [] (.forF n body :: .seq l :: c))
    | .exec (.whileT body :: l) c => go cfg P env fuel self inSub (.exec [] (.whileF body :: .seq l :: c))
    | .exec (.flow f :: _) c =>
      match f with
      | .fin => .done .fin []
      | _ =>
        match unwind f c with
        | some (l', c') => go cfg P env fuel self inSub (.exec l' c')
        | none => .done f []
    | .exec (.tryI kind body hs :: l) c =>
      go cfg P env fuel self inSub
        (.loopTI kind ⟨0, body, none⟩ (hs.map fun p => ⟨p.1, p.2, none⟩) l c)
    | .loopTI kind body hs l c =>
      let i := pick cfg env hs
      let blk : Blk K := match i with
        | none => body
        | some i => hs.getD i body
      let inSub' := inSub || kindIsDoUntil kind || othersHaveSub body hs i
      let r := match blk.st with
        | some k => go cfg P env fuel self inSub' (.resume k)
        | none => go cfg P env fuel self inSub' (.exec blk.code [])
      match r with
      | .yielded a k' lg =>
        match i with
        | none => .yielded a (.atTry kind { body with st := some k' } hs l c) lg
        | some i => .yielded a (.atTry kind body (setSt hs i (some k')) l c) lg
      | .done f lg =>
        if f = .fin && i.isSome && cfg.finishedContinues then
          (go cfg P env fuel self inSub (.loopTI kind body (setSt hs (i.getD 0) none) l c)).pre lg
        else
          (go cfg P env fuel self inSub (.exec (afterTry kind f l) c)).pre
            (lg ++ stopsOf cfg (otherSubs body hs i))
      -- an exception raised by the stepped block leaves runTryInterrupt: the `finally` closes the other blocks
      | .viol v lg => .viol v (lg ++ closeStops cfg (otherSubs body hs i))
      | .diverge => .diverge

/-! ## Whole simulation of one agent -/

inductive Outcome where
  | ok
  | violation (v : Viol) (t : Nat)
  | diverge (t : Nat)
  deriving DecidableEq, Repr, Inhabited

structure Trace where
  /-- action of each completed time step (`none`: the behaviour had finished, `()` is taken) -/
  actions : List (Option Nat)
  /-- events of each time step, the start of the behaviour included in step 0 -/
  events : List (List Ev)
  outcome : Outcome
  /-- sub-behaviours still in progress when the simulation stopped (they are stopped by the simulator) -/
  pending : List Nat := []
  deriving Repr, Inhabited

/-- state of the agent's behaviour between steps: `none` = finished -/
def simLoop (cfg : Cfg) (P : Prog) (envAt : Nat → Env) (fuel main : Nat) :
    Nat → Nat → Option Task → List Ev → Trace
  | 0, _, st, pend =>
    { actions := [], events := [pend], outcome := .ok,
      pending := match st with | some task => task.subs | none => [] }
  | n + 1, t, none, pend =>
    let r := simLoop cfg P envAt fuel main n (t + 1) none []
    { r with actions := none :: r.actions, events := pend :: r.events }
  | n + 1, t, some task, pend =>
    match go cfg P (envAt t) fuel main false task with
    | .yielded a k lg =>
      let r := simLoop cfg P envAt fuel main n (t + 1) (some (.resume k)) []
      { r with actions := some a :: r.actions, events := (pend ++ lg) :: r.events }
    | .done _ lg =>
      let r := simLoop cfg P envAt fuel main n (t + 1) none []
      { r with actions := none :: r.actions, events := (pend ++ lg) :: r.events }
    | .viol v lg => { actions := [], events := [pend ++ lg], outcome := .violation v t }
    | .diverge => { actions := [], events := [pend], outcome := .diverge t }

def simulate (cfg : Cfg) (P : Prog) (envAt : Nat → Env) (fuel main steps : Nat) : Trace :=
  match startChecks cfg P (envAt 0) main with
  | (lg, some v) => { actions := [], events := [lg], outcome := .violation v 0 }
  | (lg, none) =>
    simLoop cfg P envAt fuel main steps 0 (some (.exec (getBeh P main).body [])) lg

end Scenic.Interrupts
