/-
Model of `Scenario.generateDefaultRequirements` (scenarios.py) and of the `falsifiedByInner` methods of
the built-in requirement classes (requirements.py), over abstract instance descriptors.  Core Lean only.

Python iteration semantics are part of the model: a name bound to a `filter(...)`/generator object is a
*one-shot* iterator — the first consumer drains it and every later consumer sees nothing.  Which names are
bound to one-shot iterators, and how often each is consumed, is extracted from the source
(`Gen/DefaultReqsCfg.lean`).
-/
namespace Scenic.DefaultReqs

/-- what is known at compile time about one element of `Scenario._instances` -/
structure Inst where
  isObject : Bool
  /-- `allowCollisions`: `some b` = the constant `b`, `none` = `needsSampling(...)` -/
  allowStatic : Option Bool
  /-- `isinstance(containerOfObject(obj), AllRegion)` -/
  containerAll : Bool
  /-- `occluding`: `some b` = constant, `none` = random -/
  occludingStatic : Option Bool
  requireVisible : Bool
  /-- `_observingEntity` / `_nonObservingEntity` (index into the instance list) -/
  observing : Option Nat
  nonObserving : Option Nat
deriving Repr, DecidableEq

inductive ReqKind where
  | blanket (objs : List Nat)
  | intersection (a b : Nat)
  | containment (o : Nat)
  | visibility (src tgt : Nat) (occluders : List Nat)
  | nonVisibility (src tgt : Nat) (occluders : List Nat)
  | user (k : Nat)
deriving Repr, DecidableEq

/-- how a name used as an iterable is bound -/
inductive IterKind where
  /-- `tuple(...)`/list: can be iterated any number of times -/
  | materialized
  /-- `filter(...)`, `map(...)`, generator expression: drained by its first consumer -/
  | oneShot
deriving Repr, DecidableEq

structure Cfg where
  /-- module constant `INITIAL_COLLISION_CHECK` -/
  initialCollisionCheck : Bool
  /-- truth table of the `colliding_objects` condition on `allowCollisions`:
      random / constant False / constant True -/
  collideIfRandom : Bool
  collideIfFalse : Bool
  collideIfTrue : Bool
  /-- `itertools.combinations(colliding_objects, 2)` -/
  combinationsOfTwo : Bool
  /-- containment requirement is created when `not isinstance(container, AllRegion)` -/
  containUnlessAll : Bool
  /-- truth table of the `possible_occluders` condition on `occluding` -/
  occludeIfRandom : Bool
  occludeIfTrue : Bool
  occludeIfFalse : Bool
  /-- how `possible_occluders` is bound -/
  occludersKind : IterKind
  /-- visibility / non-visibility loops exist and pass (entity, obj, possible_occluders) -/
  hasObserving : Bool
  hasNonObserving : Bool
  /-- ego loop: `x.requireVisible and x is not self.egoObject`, occluder candidates `self.objects` -/
  hasEgoVisible : Bool
  /-- `VisibilityRequirement.__init__` removes source and target from the occluder list -/
  dropSource : Bool
  dropTarget : Bool
  /-- `optional` flag each class passes to `SamplingRequirement.__init__` by default -/
  optBlanket : Bool
  optIntersection : Bool
  optContainment : Bool
  optVisibility : Bool
  optUser : Bool
  /-- `IntersectionRequirement.falsifiedByInner` returns False when either object allows collisions -/
  interSkipsAllowed : Bool
  /-- polarity: `return objA.intersects(objB)` (true = not negated) -/
  interPositive : Bool
  /-- `return not container.containsObject(obj)` -/
  containNegated : Bool
  /-- `return not source.canSee(target, occludingObjects=occluders)` -/
  visNegated : Bool
  /-- `occluders = tuple(obj for obj in potential_occluders if obj.occluding)` -/
  visFiltersOccluding : Bool
  /-- `NonVisibilityRequirement`: `return not super().falsifiedByInner(sample)` -/
  nonVisNegatesSuper : Bool
  /-- `CompiledRequirement`: `closure(...) == rv_ltl.B4.FALSE` -/
  userFalsifiedWhenFalse : Bool
deriving Repr, DecidableEq

def Cfg.WF (c : Cfg) : Bool :=
  c.collideIfRandom && c.collideIfFalse && c.combinationsOfTwo && c.containUnlessAll &&
  c.occludeIfRandom && c.occludeIfTrue && c.occludersKind == .materialized &&
  c.hasObserving && c.hasNonObserving && c.hasEgoVisible && c.dropSource && c.dropTarget &&
  !c.optIntersection && !c.optContainment && !c.optVisibility && !c.optUser &&
  c.interSkipsAllowed && c.interPositive && c.containNegated && c.visNegated && c.visFiltersOccluding &&
  c.nonVisNegatesSuper && c.userFalsifiedWhenFalse

def tri (ifRandom ifTrue ifFalse : Bool) : Option Bool → Bool
  | none => ifRandom
  | some true => ifTrue
  | some false => ifFalse

def collidable (c : Cfg) (i : Inst) : Bool := tri c.collideIfRandom c.collideIfTrue c.collideIfFalse i.allowStatic
def mayOcclude (c : Cfg) (i : Inst) : Bool := tri c.occludeIfRandom c.occludeIfTrue c.occludeIfFalse i.occludingStatic

def instAt (insts : List Inst) (i : Nat) : Inst :=
  insts.getD i ⟨false, none, true, some false, false, none, none⟩

/-- all pairs `(x, y)` with `x` before `y` — `itertools.combinations(l, 2)` -/
def pairs : List Nat → List (Nat × Nat)
  | [] => []
  | x :: xs => xs.map (fun y => (x, y)) ++ pairs xs

/-- a Python iterable: its elements and whether it has been drained -/
structure Iter where
  kind : IterKind
  items : List Nat

/-- iterate over it once: returns what the consumer sees and the iterable afterwards -/
def Iter.consume (it : Iter) : List Nat × Iter :=
  match it.kind with
  | .materialized => (it.items, it)
  | .oneShot => (it.items, { it with items := [] })

/-- `VisibilityRequirement.__init__`: `tuple(obj for obj in objects if obj is not source and obj is not target)` -/
def visOccluders (c : Cfg) (src tgt : Nat) (objs : List Nat) : List Nat :=
  objs.filter fun o => (!c.dropSource || o != src) && (!c.dropTarget || o != tgt)

/-- one of the two loops over `self._instances` creating (Non)VisibilityRequirements -/
def visLoop (c : Cfg) (mk : Nat → Nat → List Nat → ReqKind) (sel : Inst → Option Nat) (insts : List Inst) :
    List Nat → Iter → List ReqKind × Iter
  | [], it => ([], it)
  | t :: ts, it =>
    match sel (instAt insts t) with
    | none => visLoop c mk sel insts ts it
    | some s =>
      let (seen, it') := it.consume
      let (rs, it'') := visLoop c mk sel insts ts it'
      (mk s t (visOccluders c s t seen) :: rs, it'')

/-- `generateDefaultRequirements`; `objects` = `self.objects` as indices into `insts` (ego first),
    `none` = InvalidScenarioError (requireVisible without ego) -/
def generate (c : Cfg) (insts : List Inst) (objects : List Nat) (ego : Option Nat) : Option (List ReqKind) :=
  let blanket := if c.initialCollisionCheck then [ReqKind.blanket objects] else []
  let colliding := objects.filter fun o => collidable c (instAt insts o)
  let inter := if c.combinationsOfTwo then (pairs colliding).map fun p => ReqKind.intersection p.1 p.2 else []
  let contain := (objects.filter fun o => c.containUnlessAll && !(instAt insts o).containerAll).map ReqKind.containment
  let occ : Iter := ⟨c.occludersKind, objects.filter fun o => mayOcclude c (instAt insts o)⟩
  let all := List.range insts.length
  let (vis, occ) := if c.hasObserving then visLoop c .visibility (·.observing) insts all occ else ([], occ)
  let (nonvis, _) := if c.hasNonObserving then visLoop c .nonVisibility (·.nonObserving) insts all occ else ([], occ)
  let wantEgo := if c.hasEgoVisible then objects.filter fun o => (instAt insts o).requireVisible && some o != ego else []
  match ego, wantEgo with
  | none, _ :: _ => none
  | none, [] => some (blanket ++ inter ++ contain ++ vis ++ nonvis)
  | some e, _ =>
    some (blanket ++ inter ++ contain ++ vis ++ nonvis ++ wantEgo.map fun o => .visibility e o (visOccluders c e o objects))

def ReqKind.optional (c : Cfg) : ReqKind → Bool
  | .blanket _ => c.optBlanket
  | .intersection .. => c.optIntersection
  | .containment _ => c.optContainment
  | .visibility .. => c.optVisibility
  | .nonVisibility .. => c.optVisibility
  | .user _ => c.optUser

/-! ## what the requirements test on a sample -/

/-- the geometric facts about one sample (whatever the real predicates return on it) -/
structure World where
  /-- sampled `allowCollisions` / `occluding` of instance `i` -/
  allow : Nat → Bool
  occluding : Nat → Bool
  /-- `objA.intersects(objB)` -/
  intersects : Nat → Nat → Bool
  /-- `container.containsObject(obj)` for the object's own container -/
  contained : Nat → Bool
  /-- `source.canSee(target, occludingObjects)` -/
  canSee : Nat → Nat → List Nat → Bool
  /-- FCL reports a surface collision among the listed objects that do not allow collisions -/
  blanketHit : List Nat → Bool
  /-- user requirement `k` evaluates to FALSE -/
  userFalse : Nat → Bool
  /-- evaluating the requirement on this sample raises RejectionException (e.g. a user requirement
      evaluating a vector field outside its domain) -/
  raises : ReqKind → Bool

/-- `falsifiedByInner` -/
def falsified (c : Cfg) (w : World) : ReqKind → Bool
  | .blanket objs => w.blanketHit objs
  | .intersection a b =>
    if c.interSkipsAllowed && (w.allow a || w.allow b) then false
    else (w.intersects a b == c.interPositive)
  | .containment o => (w.contained o != c.containNegated)
  | .visibility s t occ =>
    (w.canSee s t (if c.visFiltersOccluding then occ.filter w.occluding else occ) != c.visNegated)
  | .nonVisibility s t occ =>
    let sup := (w.canSee s t (if c.visFiltersOccluding then occ.filter w.occluding else occ) != c.visNegated)
    if c.nonVisNegatesSuper then !sup else sup
  | .user k => (w.userFalse k == c.userFalsifiedWhenFalse)

/-- a sample is consistent with the compile-time descriptors: constants are sampled as themselves -/
def World.consistent (w : World) (insts : List Inst) : Prop :=
  ∀ i b, (instAt insts i).allowStatic = some b → w.allow i = b

end Scenic.DefaultReqs
