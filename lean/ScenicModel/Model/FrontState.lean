/-! # C10 — the compiler's global state (veneer) across nested module compilations

Model of `veneer.activate` / `veneer.deactivate` and of the `try … finally` skeletons of
`translator._scenarioFromStream` (a *top* frame) and `translator.compileStream(activate=True)` (an *import*
frame, entered by `import m` of a Scenic module), as an abstract machine over a flat script of events.
The statement *order* of activate/deactivate is the one matched by `tools/translate/frontstate_c10.py`; which globals
are written / reset and the shape of the skeleton are data (`Data`, regenerated into `Gen/FrontStateC10.lean`).

A tracked global is either *clean* (holds its initial value) or *dirty*.  No Mathlib. -/
namespace Scenic.FrontState

structure Data where
  nGlobals : Nat
  /-- written by `activate` when the options carry parameter / model overrides -/
  overrideWrites : List Nat
  /-- written by `activate` in 2D mode -/
  mode2DWrites : List Nat
  /-- written by every `activate` (currentScenario) -/
  activateAlways : List Nat
  /-- written by the compile-time API of the veneer without a local `finally` restoring them -/
  compileWrites : List Nat
  /-- reset by every `deactivate` -/
  resetAlways : List Nat
  /-- reset by `deactivate` when `activity` reaches 0 -/
  resetAtZero : List Nat
  mode2DIdx : Nat
  /-- the zero branch of `deactivate` restores `mode2D` and the constructibles -/
  mode2DReset : Bool
  /-- `_scenarioFromStream` deactivates in its `finally` only if its own activation succeeded -/
  sfsGuarded : Bool
  deriving Repr

structure Opts where
  overrides : Bool
  mode2D : Bool
  deriving Repr, DecidableEq

def Opts.plain : Opts := ⟨false, false⟩

structure St where
  activity : Int
  stack : Nat
  mode2D : Bool
  dirty : List Nat
  deriving Repr, DecidableEq

def St.inactive : St := ⟨0, 0, false, []⟩

def allWrites (d : Data) : List Nat :=
  d.compileWrites ++ d.overrideWrites ++ d.mode2DWrites ++ d.activateAlways

/-- globals that some compile-time path writes and `deactivate` never resets -/
def leaks (d : Data) : List Nat :=
  (allWrites d).filter (fun g => !(d.resetAlways.contains g) && !(d.resetAtZero.contains g))

/-- `veneer.activate(options)`; the Boolean is `false` when an assertion failed (the exception leaves the
state as it is at that point). -/
def activate (d : Data) (o : Opts) (s : St) : St × Bool :=
  let ov := if o.overrides then d.overrideWrites else []
  let m2 := if o.mode2D then d.mode2DWrites else []
  if o.overrides && s.activity != 0 then (s, false)                         -- assert activity == 0
  else if o.mode2D && !(s.mode2D || s.activity == 0) then                   -- assert mode2D or activity == 0
    ({ s with dirty := ov ++ s.dirty }, false)                              --   (the override writes already happened)
  else
    ({ activity := s.activity + 1, stack := s.stack + 1, mode2D := s.mode2D || o.mode2D,
       dirty := d.activateAlways ++ m2 ++ ov ++ s.dirty }, true)

def unreset (rs : List Nat) (dirty : List Nat) : List Nat := dirty.filter (fun g => !(rs.contains g))

/-- `veneer.deactivate()`; `false` = an assertion (or the `pop` from an empty stack) raised. -/
def deactivate (d : Data) (s : St) : St × Bool :=
  let a := s.activity - 1
  if a < 0 then ({ s with activity := a }, false)                           -- assert activity >= 0
  else if s.stack == 0 then ({ s with activity := a }, false)               -- scenarioStack.pop() on an empty list
  else
    let k := s.stack - 1
    if (k : Int) != a then ({ s with activity := a, stack := k }, false)    -- assert len(scenarioStack) == activity
    else
      let d1 := unreset d.resetAlways s.dirty
      if a == 0 then
        ({ activity := 0, stack := k, mode2D := if d.mode2DReset then false else s.mode2D,
           dirty := unreset d.resetAtZero d1 }, true)
      else
        ({ activity := a, stack := k, mode2D := s.mode2D, dirty := d.activateAlways ++ d1 }, true)

/-- events of a script (flat; `openImp`/`openTop` … `close` delimit nested module compilations) -/
inductive Tok where
  | write (g : Nat)          -- a compile-time veneer API call that dirties global `g` (param, simulator, scenario def, …)
  | probe                    -- observation point: records (activity, len scenarioStack)
  | fail                     -- an exception is raised here (syntax error, run-time error, time-out, …)
  | openImp                  -- `import m` of a Scenic module: compileStream(activate=True)
  | openTop (o : Opts) (caught : Bool)   -- nested scenarioFromString(…, options); `caught`: inside the program's own try/except
  | close
  deriving Repr, DecidableEq

structure Frame where
  isTop : Bool
  caught : Bool
  activated : Bool
  deriving Repr, DecidableEq

structure M where
  st : St
  frames : List Frame
  /-- an exception is propagating / the body of the current frame is not executed -/
  exc : Bool
  /-- opens seen while skipping (their bodies are skipped as well) -/
  skip : Nat
  trace : List (Int × Nat)
  deriving Repr

/-- leaving a frame (normally or by an exception): run its `finally`, then let its caller catch or not -/
def closeFrame (d : Data) (m : M) : M :=
  match m.frames with
  | [] => m
  | f :: rest =>
    let runs := if f.isTop then (!d.sfsGuarded || f.activated) else f.activated
    let r := if runs then deactivate d m.st else (m.st, true)
    { m with st := r.1, frames := rest, skip := 0, exc := if f.isTop && f.caught then false else (m.exc || !r.2) }

/-- entering `_scenarioFromStream`: activation happens inside the `try`, so the frame exists even if it fails -/
def openTop (d : Data) (o : Opts) (caught : Bool) (m : M) : M :=
  { m with st := (activate d o m.st).1, frames := ⟨true, caught, (activate d o m.st).2⟩ :: m.frames,
           exc := !(activate d o m.st).2 }

/-- while an exception propagates (or the frame's activation failed) the remaining events of the frame are skipped -/
def stepExc (d : Data) (m : M) : Tok → M
  | .openImp => { m with skip := m.skip + 1 }
  | .openTop _ _ => { m with skip := m.skip + 1 }
  | .close => if m.skip > 0 then { m with skip := m.skip - 1 } else closeFrame d m
  | .write _ => m
  | .probe => m
  | .fail => m

def stepRun (d : Data) (m : M) : Tok → M
  | .write g => if d.compileWrites.contains g then { m with st := { m.st with dirty := g :: m.st.dirty } } else m
  | .probe => { m with trace := (m.st.activity, m.st.stack) :: m.trace }
  | .fail => { m with exc := true }
  | .openImp =>
    -- compileStream activates *before* its try: a failing activation propagates without running its finally
    if (activate d Opts.plain m.st).2 then
      { m with st := (activate d Opts.plain m.st).1, frames := ⟨false, false, true⟩ :: m.frames }
    else { m with st := (activate d Opts.plain m.st).1, exc := true, skip := m.skip + 1 }
  | .openTop o caught => openTop d o caught m
  | .close => closeFrame d m

def step (d : Data) (m : M) (t : Tok) : M :=
  if m.frames.isEmpty then m            -- nothing runs outside a compilation
  else if m.exc then stepExc d m t else stepRun d m t

/-- close every frame still open at the end of the script -/
def finish (d : Data) : Nat → M → M
  | 0, m => m
  | n + 1, m => match m.frames with
    | [] => m
    | _ => finish d n (closeFrame d { m with skip := 0 })

def runFrom (d : Data) (m : M) (ts : List Tok) : M := ts.foldl (step d) m

/-- `scenic.scenarioFromString(text, options)` where the execution of `text` performs the events `ts` -/
def runTop (d : Data) (o : Opts) (ts : List Tok) : M :=
  let m1 := runFrom d (openTop d o false ⟨St.inactive, [], false, 0, []⟩) ts
  finish d (m1.frames.length) m1

/-- the script contains no nested top-level compilation whose activation asserts fail -/
def plainTops : List Tok → Bool
  | [] => true
  | .openTop o _ :: ts => !o.overrides && !o.mode2D && plainTops ts
  | _ :: ts => plainTops ts

end Scenic.FrontState
