/-
# C11 — the temporal-expression rules of `scenic.gram` as a recursive-descent (PEG) parser

Core Lean only.  The rules mirrored (src/scenic/syntax/scenic.gram, `scenic_temporal_expression` …
`scenic_temporal_group`), with the parts `tools/translate/ltlgram.py` extracts as data in `GramCfg`:

```
scenic_until:                 a=scenic_above_until 'until' b=scenic_above_until | scenic_above_until
scenic_above_until:           scenic_temporal_prefix | scenic_implication
scenic_temporal_prefix:       KW e=scenic_above_until                                   (KW ∈ prefixOps)
scenic_implication:           a=scenic_temporal_disjunction "implies" b=(scenic_temporal_prefix? | scenic_temporal_disjunction)
                            | scenic_temporal_disjunction
scenic_temporal_disjunction:  a=scenic_temporal_conjunction ('or' (scenic_temporal_prefix? | scenic_temporal_conjunction))+ | …
scenic_temporal_conjunction:  a=scenic_temporal_inversion ('and' (scenic_temporal_prefix? | scenic_temporal_inversion))+ | …
scenic_temporal_inversion:    'not' (scenic_temporal_prefix? | scenic_temporal_inversion) | scenic_temporal_group | comparison
scenic_temporal_group:        '(' scenic_temporal_expression ')' &(groupFollow)
```
`comparison` is ordinary Python: over the token language used here (`A`, `B`, parentheses, `not`/`and`/`or`)
it is an atom or a parenthesised Python Boolean expression; `PropositionTransformer` turns Python `BoolOp` /
`not` into the same proposition classes as the temporal rules do, so both levels build the same trees.

Tokens are strings; the end of the statement is the token `<nl>`.  Trees come out in the prefix form the
driver reads (`Atom k | Not φ | And n φ… | Or n φ… | Implies φ ψ | Until φ ψ | Next φ | Eventually φ | Always φ`).
PEG semantics: ordered choice, greedy loops, no backtracking into a completed loop.
-/
namespace Scenic.LTL.Syntax

structure GramCfg where
  /-- keyword → proposition class of `scenic_temporal_prefix` -/
  prefixOps : List (String × String)
  /-- tokens of the look-ahead that closes `scenic_temporal_group` -/
  groupFollow : List String
  /-- `scenic_temporal_prefix` is an alternative for: the right operand of `implies`, the later operands of
      `or` / `and`, the operand of `not` -/
  impliesRhsPrefix : Bool
  orOperandPrefix : Bool
  andOperandPrefix : Bool
  notOperandPrefix : Bool
deriving Repr, DecidableEq

/-- soft keywords: the prefix operators and `implies` -/
def GramCfg.soft (g : GramCfg) : List String := g.prefixOps.map (·.1) ++ ["implies"]

abbrev Toks := List String
abbrev Tree := List String
abbrev Res := Option (Tree × Toks)

/-- `A`, `B`, `C` are the atoms; the temporal keywords other than `until` are *soft* keywords of the grammar
    (double-quoted in scenic.gram), so where no temporal rule applies they are ordinary names (`Atom ?`) -/
def atomOf (soft : List String) : String → Option Tree
  | "A" => some ["Atom", "0"]
  | "B" => some ["Atom", "1"]
  | "C" => some ["Atom", "2"]
  | t => if soft.contains t then some ["Atom", "?"] else none

/-- operand counts as tokens (kept as a table so that the kernel can evaluate the parser) -/
def numTok : Nat → String
  | 0 => "0" | 1 => "1" | 2 => "2" | 3 => "3" | 4 => "4" | 5 => "5" | 6 => "6" | 7 => "7" | 8 => "8" | 9 => "9"
  | _ => "many"

def nary (cls : String) (ops : List Tree) : Tree :=
  match ops with
  | [t] => t
  | _ => [cls, numTok ops.length] ++ ops.flatten

def orElse (a : Res) (b : Unit → Res) : Res :=
  match a with
  | some r => some r
  | none => b ()

mutual
  /-- Python `disjunction` inside ordinary parentheses -/
  def pyDisj (soft : List String) : Nat → Toks → Res
    | 0, _ => none
    | fuel + 1, ts =>
      match pyConj soft fuel ts with
      | some (a, rest) => pyDisjRest soft fuel rest [a]
      | none => none
  def pyDisjRest (soft : List String) : Nat → Toks → List Tree → Res
    | 0, _, _ => none
    | fuel + 1, "or" :: ts, acc =>
      match pyConj soft fuel ts with
      | some (b, rest) => pyDisjRest soft fuel rest (acc ++ [b])
      | none => some (nary "Or" acc, "or" :: ts)
    | _ + 1, ts, acc => some (nary "Or" acc, ts)
  def pyConj (soft : List String) : Nat → Toks → Res
    | 0, _ => none
    | fuel + 1, ts =>
      match pyInv soft fuel ts with
      | some (a, rest) => pyConjRest soft fuel rest [a]
      | none => none
  def pyConjRest (soft : List String) : Nat → Toks → List Tree → Res
    | 0, _, _ => none
    | fuel + 1, "and" :: ts, acc =>
      match pyInv soft fuel ts with
      | some (b, rest) => pyConjRest soft fuel rest (acc ++ [b])
      | none => some (nary "And" acc, "and" :: ts)
    | _ + 1, ts, acc => some (nary "And" acc, ts)
  def pyInv (soft : List String) : Nat → Toks → Res
    | 0, _ => none
    | fuel + 1, "not" :: ts =>
      match pyInv soft fuel ts with
      | some (a, rest) => some ("Not" :: a, rest)
      | none => none
    | fuel + 1, ts => pyAtom soft fuel ts
  def pyAtom (soft : List String) : Nat → Toks → Res
    | 0, _ => none
    | fuel + 1, "(" :: ts =>
      match pyDisj soft fuel ts with
      | some (a, ")" :: rest) => some (a, rest)
      | _ => none
    | _ + 1, t :: ts => (atomOf soft t).map fun a => (a, ts)
    | _ + 1, [] => none
end

mutual
  /-- `scenic_until` (= `scenic_temporal_expression` over this token language) -/
  def pUntil (g : GramCfg) : Nat → Toks → Res
    | 0, _ => none
    | fuel + 1, ts =>
      match pAbove g fuel ts with
      | some (a, "until" :: rest) =>
        match pAbove g fuel rest with
        | some (b, rest') => some (["Until"] ++ a ++ b, rest')
        | none => some (a, "until" :: rest)
      | r => r
  def pAbove (g : GramCfg) : Nat → Toks → Res
    | 0, _ => none
    | fuel + 1, ts => orElse (pPrefix g fuel ts) fun _ => pImpl g fuel ts
  def pPrefix (g : GramCfg) : Nat → Toks → Res
    | 0, _ => none
    | _ + 1, [] => none
    | fuel + 1, t :: ts =>
      match g.prefixOps.find? (fun e => e.1 == t) with
      | some (_, cls) =>
        match pAbove g fuel ts with
        | some (e, rest) => some (cls :: e, rest)
        | none => none
      | none => none
  def pImpl (g : GramCfg) : Nat → Toks → Res
    | 0, _ => none
    | fuel + 1, ts =>
      match pDisj g fuel ts with
      | some (a, "implies" :: rest) =>
        match orElse (if g.impliesRhsPrefix then pPrefix g fuel rest else none) (fun _ => pDisj g fuel rest) with
        | some (b, rest') => some (["Implies"] ++ a ++ b, rest')
        | none => some (a, "implies" :: rest)
      | r => r
  def pDisj (g : GramCfg) : Nat → Toks → Res
    | 0, _ => none
    | fuel + 1, ts =>
      match pConj g fuel ts with
      | some (a, rest) => pDisjRest g fuel rest [a]
      | none => none
  def pDisjRest (g : GramCfg) : Nat → Toks → List Tree → Res
    | 0, _, _ => none
    | fuel + 1, "or" :: ts, acc =>
      match orElse (if g.orOperandPrefix then pPrefix g fuel ts else none) (fun _ => pConj g fuel ts) with
      | some (b, rest) => pDisjRest g fuel rest (acc ++ [b])
      | none => some (nary "Or" acc, "or" :: ts)
    | _ + 1, ts, acc => some (nary "Or" acc, ts)
  def pConj (g : GramCfg) : Nat → Toks → Res
    | 0, _ => none
    | fuel + 1, ts =>
      match pInv g fuel ts with
      | some (a, rest) => pConjRest g fuel rest [a]
      | none => none
  def pConjRest (g : GramCfg) : Nat → Toks → List Tree → Res
    | 0, _, _ => none
    | fuel + 1, "and" :: ts, acc =>
      match orElse (if g.andOperandPrefix then pPrefix g fuel ts else none) (fun _ => pInv g fuel ts) with
      | some (b, rest) => pConjRest g fuel rest (acc ++ [b])
      | none => some (nary "And" acc, "and" :: ts)
    | _ + 1, ts, acc => some (nary "And" acc, ts)
  def pInv (g : GramCfg) : Nat → Toks → Res
    | 0, _ => none
    | fuel + 1, "not" :: ts =>
      match orElse (if g.notOperandPrefix then pPrefix g fuel ts else none) (fun _ => pInv g fuel ts) with
      | some (a, rest) => some ("Not" :: a, rest)
      | none => none
    | fuel + 1, ts => orElse (pGroup g fuel ts) fun _ => pyAtom g.soft fuel ts
  def pGroup (g : GramCfg) : Nat → Toks → Res
    | 0, _ => none
    | fuel + 1, "(" :: ts =>
      match pUntil g fuel ts with
      | some (a, ")" :: nxt :: rest) => if g.groupFollow.contains nxt then some (a, nxt :: rest) else none
      | _ => none
    | _ + 1, _ => none
end

/-- parse a whole `require` condition: the expression must be followed by the end of the statement -/
def parse (g : GramCfg) (ts : Toks) : Option Tree :=
  match pUntil g (10 * ts.length + 16) (ts ++ ["<nl>"]) with
  | some (t, ["<nl>"]) => some t
  | _ => none

/-- the configuration of the grammar the property was written against -/
def canonical : GramCfg :=
  { prefixOps := [("next", "Next"), ("eventually", "Eventually"), ("always", "Always")],
    groupFollow := ["until", "or", "and", "implies", ")", ";", "<nl>"],
    impliesRhsPrefix := true, orOperandPrefix := true, andOperandPrefix := true, notOperandPrefix := true }

end Scenic.LTL.Syntax
