/-!
# Executable model of Scenic's specifier resolution (property C06)

Models, statement by statement, `Constructible._resolveSpecifiers`
(`src/scenic/core/object_types.py`), the class-level merging of property defaults
(`Constructible.__init_subclass__` + `PropertyDefault.resolveFor`,
`src/scenic/core/specifiers.py`) and the 2-D rewriting of `with heading` into `facing`
(`OrientedPoint2D._prepareSpecifiers` / `__init_subclass__`).

What is abstracted: the *values* of properties (every specifier is a black box producing a value
for each property it ends up specifying -- the geometry is C07's business).  What is kept:
names, priorities, dependencies, the modifying flag and the modifiable set of every specifier,
the order of all loops and dictionary insertions, the three DFS states, the order of evaluation.

Core Lean only (this file is linked into the driver executable).
-/
namespace Scenic.Spec

/-! ## Python `dict` as an association list (replace in place / append at the end) -/

def get {α β} [DecidableEq α] : List (α × β) → α → Option β
  | [], _ => none
  | (k', v) :: rest, k => if k' = k then some v else get rest k

def put {α β} [DecidableEq α] : List (α × β) → α → β → List (α × β)
  | [], k, v => [(k, v)]
  | (k', v') :: rest, k, v => if k' = k then (k, v) :: rest else (k', v') :: put rest k v

/-! ## Specifiers -/

/-- What `_resolveSpecifiers` reads of a `Specifier` / `ModifyingSpecifier` object. -/
structure Spec where
  /-- `spec.name` -/
  name : String
  /-- `spec.priorities` (a dict: property ↦ priority; smaller number = higher priority) -/
  prios : List (String × Nat)
  /-- `spec.requiredProperties` (sorted tuple) -/
  deps : List String
  /-- `isinstance(spec, ModifyingSpecifier)` -/
  modifying : Bool := false
  /-- `spec.modifiable_props` -/
  modifiable : List String := []
deriving DecidableEq, Repr, Inhabited

/-- What `_resolveSpecifiers` reads of the class: `cls._defaults` (property ↦ the required
properties of its resolved default specifier, in dictionary order) and `cls._finalProperties`. -/
structure ClassInfo where
  defaults : List (String × List String)
  finals : List String
deriving DecidableEq, Repr, Inhabited

/-- Identity of a specifier object during one resolution.  After the duplicate-name check user
specifiers are identified by their name; the default specifier of a class is identified by its
property (they all carry the name `PropertyDefault`). -/
inductive Node where
  | user (name : String)
  | dflt (prop : String)
deriving DecidableEq, Repr, Inhabited

/-- The `SpecifierError`s of `_resolveSpecifiers`, by raise site. -/
inductive Err where
  /-- "Cannot use X specifier to modify itself." -/
  | dupName
  /-- "property P cannot be directly specified" -/
  | finalProp
  /-- "property P specified twice with the same priority" -/
  | tie
  /-- "property P ... modified twice." -/
  | modifiedTwice
  /-- "specifier X depends on itself" -/
  | cycle
  /-- "property P required by specifier X is not specified" -/
  | missingDep
  /-- model artefact: the DFS ran out of fuel (proved impossible: `Scenic.C06.resolve_never_fuel`) -/
  | fuel
deriving DecidableEq, Repr, Inhabited

/-- The check `specifiers_count[spec] > 1` over `Counter(spec.name for spec in specifiers)`. -/
def hasDup : List String → Bool
  | [] => false
  | x :: xs => xs.contains x || hasDup xs

/-! ## Pass 1: normal specifiers -/

/-- `properties`/`priorities` (kept together: they are always written together) and
`seenPriorities`. -/
structure NState where
  props : List (String × (Node × Nat))
  seen : List (String × Nat)
deriving DecidableEq, Repr, Inhabited

/-- Body of `for prop in spec.priorities:` for a normal specifier. -/
def stepNormal (finals : List String) (name : String) (st : NState) (pk : String × Nat) :
    Except Err NState :=
  if pk.1 ∈ finals then .error .finalProp
  else if pk ∈ st.seen then .error .tie
  else
    let seen := st.seen ++ [pk]
    match get st.props pk.1 with
    | some (_, cur) =>
      if pk.2 < cur then .ok ⟨put st.props pk.1 (.user name, pk.2), seen⟩ else .ok ⟨st.props, seen⟩
    | none => .ok ⟨put st.props pk.1 (.user name, pk.2), seen⟩

def stepsNormal (finals : List String) (name : String) : List (String × Nat) → NState → Except Err NState
  | [], st => .ok st
  | pk :: rest, st =>
    match stepNormal finals name st pk with
    | .error e => .error e
    | .ok st' => stepsNormal finals name rest st'

/-- `for spec in normal_specifiers: for prop in spec.priorities: ...` -/
def normalPass (finals : List String) : List Spec → NState → Except Err NState
  | [], st => .ok st
  | s :: rest, st =>
    match stepsNormal finals s.name s.prios st with
    | .error e => .error e
    | .ok st' => normalPass finals rest st'

/-! ## Pass 2: modifying specifiers -/

structure MState where
  props : List (String × (Node × Nat))
  modifying : List (String × Node)
deriving DecidableEq, Repr, Inhabited

/-- Body of `for prop in spec.priorities:` for a modifying specifier, after the check of the final
properties. -/
def stepModCore (s : Spec) (st : MState) (pk : String × Nat) : Except Err MState :=
  match get st.props pk.1 with
  | some (_, cur) =>
    if pk.2 < cur then .ok ⟨put st.props pk.1 (.user s.name, pk.2), st.modifying⟩
    else if pk.1 ∈ s.modifiable then
      match get st.modifying pk.1 with
      | some _ => .error .modifiedTwice
      | none => .ok ⟨st.props, put st.modifying pk.1 (.user s.name)⟩
    else .ok st
  | none => .ok ⟨put st.props pk.1 (.user s.name, pk.2), st.modifying⟩

/-- Body of `for prop in spec.priorities:` for a modifying specifier: since commit 5766576b the
`prop in finals` check is made here too ("Final properties cannot be specified by modifying
specifiers either"). -/
def stepMod (finals : List String) (s : Spec) (st : MState) (pk : String × Nat) : Except Err MState :=
  if pk.1 ∈ finals then .error .finalProp else stepModCore s st pk

def stepsMod (finals : List String) (s : Spec) : List (String × Nat) → MState → Except Err MState
  | [], st => .ok st
  | pk :: rest, st =>
    match stepMod finals s st pk with
    | .error e => .error e
    | .ok st' => stepsMod finals s rest st'

def modPass (finals : List String) : List Spec → MState → Except Err MState
  | [], st => .ok st
  | s :: rest, st =>
    match stepsMod finals s s.prios st with
    | .error e => .error e
    | .ok st' => modPass finals rest st'

/-! ## Defaults -/

/-- `for prop, default_spec in defaults.items(): if prop not in priorities: ...`:
returns the extended `properties` (as property ↦ specifier) and the default specifiers
appended to `specifiers`, in order.  `prio` is the (unchanged) `priorities` dictionary. -/
def addDefaults (prio : List (String × (Node × Nat))) :
    List (String × List String) → List (String × Node) → List Node → List (String × Node) × List Node
  | [], assign, added => (assign, added)
  | (p, _) :: rest, assign, added =>
    match get prio p with
    | none => addDefaults prio rest (put assign p (.dflt p)) (added ++ [.dflt p])
    | some _ => addDefaults prio rest assign added

/-! ## Dependency graph and DFS -/

/-- `spec.requiredProperties` of the specifier object identified by a node. -/
def depsOf (C : ClassInfo) (S : List Spec) : Node → List String
  | .user n => match S.find? (fun s => s.name = n) with
    | some s => s.deps
    | none => []
  | .dflt p => (get C.defaults p).getD []

/-- `modifying_inv[n]`, where `modifying_inv = defaultdict(list)` is filled by
`for prop, spec in modifying.items(): modifying_inv[spec].append(prop)`: the properties that the
specifier `n` modifies, in the order of the `modifying` dictionary. -/
def modProps (modifier : List (String × Node)) (n : Node) : List String :=
  (modifier.filter (fun pm => pm.2 = n)).map (·.1)

/-- The successive `child` look-ups made by `dfs(spec)`: one per required property
(`modifying.get(dep)` or else `properties.get(dep)`; `none` = "is not specified"), then, for a
specifier that modifies properties, the specifiers of all those properties
(`for prop in modifying_inv[spec]: dfs(properties[prop])`). -/
def steps (depsOf : Node → List String) (assign modifier : List (String × Node)) (n : Node) :
    List (Option Node) :=
  (depsOf n).map (fun dep => match get modifier dep with
    | some m => some m
    | none => get assign dep)
  ++ (modProps modifier n).map (fun p => get assign p)

/-- `spec._dfs_state` for every specifier, and `order`. -/
structure DState where
  st : Node → Nat
  order : List Node

/-- `for c in children: dfs(c)` with the look-up failure raised lazily, as in the source. -/
def visitAll (visit : Node → DState → Except Err DState) : List (Option Node) → DState → Except Err DState
  | [], d => .ok d
  | none :: _, _ => .error .missingDep
  | some c :: rest, d =>
    match visit c d with
    | .error e => .error e
    | .ok d' => visitAll visit rest d'

/-- The nested function `dfs` of `_resolveSpecifiers` (fuel = recursion depth bound). -/
def dfs (steps : Node → List (Option Node)) : Nat → Node → DState → Except Err DState
  | 0, _, _ => .error .fuel
  | fuel + 1, n, d =>
    if d.st n = 2 then .ok d
    else if d.st n = 1 then .error .cycle
    else
      match visitAll (dfs steps fuel) (steps n) ⟨fun m => if m = n then 1 else d.st m, d.order⟩ with
      | .error e => .error e
      | .ok d' => .ok ⟨fun m => if m = n then 2 else d'.st m, d'.order ++ [n]⟩

/-- `actual_props[spec]`: filled by iterating over `properties` in insertion order. -/
def actualProps (assign modifier : List (String × Node)) (n : Node) : List String :=
  assign.flatMap (fun pa =>
    (if pa.2 = n then [pa.1] else []) ++ (if get modifier pa.1 = some n then [pa.1] else []))

/-! ## The whole of `_resolveSpecifiers` up to evaluation -/

structure Outcome where
  /-- `properties`: property ↦ the specifier that specifies it -/
  assign : List (String × Node)
  /-- `modifying`: property ↦ the specifier that modifies it -/
  modifier : List (String × Node)
  /-- `specifiers` after the defaults were appended -/
  nodes : List Node
  /-- `order`: the order in which `getValuesFor` is called -/
  order : List Node
deriving DecidableEq, Repr, Inhabited

def userNodes (S : List Spec) : List Node := S.map (fun s => Node.user s.name)

/-- The result of the two priority passes and of adding the defaults. -/
structure Pre where
  /-- `properties` -/
  assign : List (String × Node)
  /-- `modifying` -/
  modifier : List (String × Node)
  /-- `specifiers` after the defaults were appended -/
  nodes : List Node
deriving DecidableEq, Repr, Inhabited

/-- Everything before the topological sort: duplicate names, normal pass, modifying pass, defaults. -/
def assignPhase (C : ClassInfo) (S : List Spec) : Except Err Pre :=
  if hasDup (S.map (·.name)) then .error .dupName
  else
    match normalPass C.finals (S.filter (fun s => !s.modifying)) ⟨[], []⟩ with
    | .error e => .error e
    | .ok ns =>
      match modPass C.finals (S.filter (fun s => s.modifying)) ⟨ns.props, []⟩ with
      | .error e => .error e
      | .ok ms =>
        let da := addDefaults ms.props C.defaults (ms.props.map (fun e => (e.1, e.2.1))) []
        .ok ⟨da.1, ms.modifying, userNodes S ++ da.2⟩

/-- The look-ups of `dfs` for the dictionaries computed by `assignPhase`. -/
def stepsOf (C : ClassInfo) (S : List Spec) (pre : Pre) : Node → List (Option Node) :=
  steps (depsOf C S) pre.assign pre.modifier

/-- The topological sort: `for spec in specifiers: dfs(spec)`. The recursion depth of the source is
bounded by the number of specifiers (`Scenic.C06.resolve_never_fuel`). -/
def orderPhase (C : ClassInfo) (S : List Spec) (pre : Pre) : Except Err (List Node) :=
  match visitAll (dfs (stepsOf C S pre) (pre.nodes.length + 1)) (pre.nodes.map some) ⟨fun _ => 0, []⟩ with
  | .error e => .error e
  | .ok d => .ok d.order

def resolve (C : ClassInfo) (S : List Spec) : Except Err Outcome :=
  match assignPhase C S with
  | .error e => .error e
  | .ok pre =>
    match orderPhase C S pre with
    | .error e => .error e
    | .ok order => .ok ⟨pre.assign, pre.modifier, pre.nodes, order⟩

/-- The evaluation trace: for each specifier in evaluation order, the properties it sets
(`for spec in order: ... for prop in actual_props[spec]: cls._specify(context, prop, value)`). -/
def trace (o : Outcome) : List (Node × List String) :=
  o.order.map (fun n => (n, actualProps o.assign o.modifier n))

/-! ## 2-D compatibility mode -/

/-- `OrientedPoint2D._prepareSpecifiers`: `with heading X` becomes `facing X`
(`mk` builds the `Facing` specifier from the `With(heading)` one). -/
def prepare2D (mk : Spec → Spec) (S : List Spec) : List Spec :=
  S.map (fun s => if s.name = "With(heading)" ∧ s.prios.map (·.1) = ["heading"] then mk s else s)

/-- `OrientedPoint2D.__init_subclass__`: a class-level `heading` default becomes a
`parentOrientation` default; defining both is an error (`none`). The dictionary entry is deleted
and re-inserted at the end, as `props[...] = ...; del props["heading"]` does. -/
def transform2D {β} (props : List (String × β)) : Option (List (String × β)) :=
  match get props "heading" with
  | none => some props
  | some v =>
    match get props "parentOrientation" with
    | some _ => none
    | none => some ((props.filter (fun e => e.1 ≠ "heading")) ++ [("parentOrientation", v)])

/-! ## Class-level merging of defaults -/

/-- A `PropertyDefault`. -/
structure PropDefault where
  deps : List String
  additive : Bool := false
  dynamic : Bool := false
  final : Bool := false
deriving DecidableEq, Repr, Inhabited

/-- One class of the MRO that has `_scenic_properties`. -/
structure ClassDecl where
  name : String
  props : List (String × PropDefault)
deriving DecidableEq, Repr, Inhabited

/-- insertion into a sorted duplicate-free list (`tuple(sorted(set))`) -/
def insertSorted (x : String) : List String → List String
  | [] => [x]
  | y :: ys => if x = y then y :: ys else if x < y then x :: y :: ys else y :: insertSorted x ys

def sortDedup (l : List String) : List String := l.foldr insertSorted []

/-- The specifier produced by `PropertyDefault.resolveFor`, with the classes whose value
expressions it evaluates (`sources`: the primary one, or all of them in MRO order when additive). -/
structure Resolved where
  deps : List String
  sources : List String
deriving DecidableEq, Repr, Inhabited

structure Merged where
  defaults : List (String × Resolved)
  finals : List String
  dynamics : List String
deriving DecidableEq, Repr, Inhabited

/-- `allDefs`: for every class of the MRO, in order, append each of its defaults. -/
def collectDefs : List ClassDecl → List (String × List (String × PropDefault)) →
    List (String × List (String × PropDefault))
  | [], acc => acc
  | c :: rest, acc =>
    collectDefs rest (c.props.foldl (fun a pd => put a pd.1 ((get a pd.1).getD [] ++ [(c.name, pd.2)])) acc)

/-- `primary.resolveFor(prop, rest)`; `none` = `InvalidScenarioError` ("cannot be overridden"). -/
def resolveFor (defs : List (String × PropDefault)) : Option Resolved :=
  match defs with
  | [] => none
  | (c, primary) :: rest =>
    if rest.any (fun d => d.2.final) then none
    else if primary.additive then
      some ⟨sortDedup (primary.deps ++ rest.flatMap (fun d => d.2.deps)), c :: rest.map (·.1)⟩
    else some ⟨sortDedup primary.deps, [c]⟩

def mergeLoop : List (String × List (String × PropDefault)) → Merged → Option Merged
  | [], m => some m
  | (p, defs) :: rest, m =>
    match resolveFor defs with
    | none => none
    | some r =>
      mergeLoop rest
        ⟨m.defaults ++ [(p, r)],
         if (defs.head?.map (fun d => d.2.final)).getD false then m.finals ++ [p] else m.finals,
         if defs.any (fun d => d.2.dynamic) then m.dynamics ++ [p] else m.dynamics⟩

/-- `Constructible.__init_subclass__`, the part computing `_defaults`, `_finalProperties` and the
set of dynamic properties from the MRO. -/
def mergeDefaults (mro : List ClassDecl) : Option Merged :=
  mergeLoop (collectDefs mro []) ⟨[], [], []⟩

def Merged.toClassInfo (m : Merged) : ClassInfo :=
  { defaults := m.defaults.map (fun e => (e.1, e.2.deps)), finals := m.finals }

/-! ## The table of built-in specifiers (data generated into `Gen/SpecTable.lean`) -/

/-- One specifier function of `veneer.py` and argument-kind variant, as extracted from the source. -/
structure BuiltinEntry where
  /-- `<function>/<variant>` -/
  key : String
  /-- title of the section of `docs/reference/specifiers.rst` that documents it -/
  doc : String
  /-- whether the conditional bullets ("if the region has a preferred orientation") apply -/
  cond : Bool
  /-- the dependencies also include those of the argument value (`facing <value>`) -/
  valueDeps : Bool
  /-- the descriptor; `$prop` stands for the property argument of `with` -/
  spec : Spec
deriving DecidableEq, Repr, Inhabited

/-- One "Specifies / Dependencies" block of the reference. -/
structure DocEntry where
  title : String
  /-- property, priority, is the bullet conditional -/
  specifies : List (String × Nat × Bool)
  deps : List String
  modifies : List String
deriving DecidableEq, Repr, Inhabited

/-- properties whose name starts with an underscore are internal (not part of the reference) -/
def isPublic (p : String) : Bool :=
  match p.toList with
  | '_' :: _ => false
  | _ => true

/-- what the reference says about a variant -/
def DocEntry.view (d : DocEntry) (cond : Bool) : List (String × Nat) × List String × List String :=
  ((d.specifies.filter (fun e => cond || !e.2.2)).map (fun e => (e.1, e.2.1)), d.deps, d.modifies)

/-- what the code does, restricted to public properties -/
def BuiltinEntry.view (e : BuiltinEntry) : List (String × Nat) × List String × List String :=
  (e.spec.prios.filter (fun pk => isPublic pk.1), e.spec.deps, e.spec.modifiable)

/-- same elements, whatever the order (dictionary / bullet order is immaterial) -/
def sameElems {α} [BEq α] (a b : List α) : Bool :=
  a.length == b.length && a.all (b.contains ·) && b.all (a.contains ·)

/-- the entry agrees with its documentation section -/
def BuiltinEntry.matchesDoc (docs : List DocEntry) (e : BuiltinEntry) : Bool :=
  match docs.find? (fun d => d.title = e.doc) with
  | some d =>
    sameElems (d.view e.cond).1 e.view.1 && sameElems (d.view e.cond).2.1 e.view.2.1 &&
    sameElems (d.view e.cond).2.2 e.view.2.2 && (e.spec.modifying = !d.modifies.isEmpty)
  | none => false

/-- instantiate a table entry: `prop` replaces `$prop` (for `with`), `extra` are the dependencies
contributed by the argument value (already merged and sorted by the caller's `requiredProperties`) -/
def BuiltinEntry.inst (e : BuiltinEntry) (prop : String) (extra : List String) : Spec :=
  { e.spec with
    name := if e.spec.name = "With($prop)" then "With(" ++ prop ++ ")" else e.spec.name
    prios := e.spec.prios.map (fun pk => (if pk.1 = "$prop" then prop else pk.1, pk.2))
    deps := sortDedup (e.spec.deps ++ extra) }

end Scenic.Spec
