import ScenicModel.Model.Specifiers
/-!
# The evaluation loop of `_resolveSpecifiers` (property C06)

```python
context = LazilyEvaluable.makeContext()
for spec in order:
    specifiedValues = spec.getValuesFor(context)
    for prop in actual_props[spec]:
        assert not hasattr(context, prop) or prop in modifying, (prop, spec)
        value = toDistribution(specifiedValues[prop])
        cls._specify(context, prop, value)
properties = LazilyEvaluable.getContextValues(context)
```

Values stay abstract: the context records, for every property that has a value, *which specifier produced
it*.  The loop is instrumented with one ghost check that the source does not make explicitly: when
`getValuesFor` runs, every required property must have a value in the context (the source would fail with an
`AttributeError` inside the lazily evaluated value otherwise) and that value must already be the final one
(nobody will overwrite it later).  `Scenic.C06.evaluate_ok` proves that neither the ghost check nor the
source's assertion can fail after a successful resolution.

Core Lean only (linked into the driver executable).
-/
namespace Scenic.Spec

/-- The producer of the final value of a property: its modifier if it has one, else its specifier. -/
def finalWriter (assign modifier : List (String × Node)) (p : String) : Option Node :=
  match get modifier p with
  | some m => some m
  | none => get assign p

inductive EvalErr where
  /-- ghost check: a required property has no value yet, or not its final value, when `getValuesFor` runs -/
  | depNotFinal (n : Node) (dep : String)
  /-- the source's `assert not hasattr(context, prop) or prop in modifying` -/
  | assertFail (n : Node) (p : String)
deriving DecidableEq, Repr, Inhabited

/-- the context: property ↦ the specifier that produced its current value -/
abbrev Ctx := List (String × Node)

/-- the first required property that is absent from the context or does not have its final value -/
def firstUnready (assign modifier : List (String × Node)) (ctx : Ctx) : List String → Option String
  | [] => none
  | d :: ds =>
    match get ctx d with
    | some w => if finalWriter assign modifier d = some w then firstUnready assign modifier ctx ds else some d
    | none => some d

/-- `for prop in actual_props[spec]: assert ...; cls._specify(context, prop, value)` -/
def writeProps (modifier : List (String × Node)) (n : Node) : List String → Ctx → Except EvalErr Ctx
  | [], ctx => .ok ctx
  | p :: ps, ctx =>
    if (get ctx p).isSome && (get modifier p).isNone then .error (.assertFail n p)
    else writeProps modifier n ps (put ctx p n)

/-- `for spec in order: ...` -/
def evalFrom (deps : Node → List String) (assign modifier : List (String × Node)) :
    List Node → Ctx → Except EvalErr Ctx
  | [], ctx => .ok ctx
  | n :: rest, ctx =>
    match firstUnready assign modifier ctx (deps n) with
    | some d => .error (.depNotFinal n d)
    | none =>
      match writeProps modifier n (actualProps assign modifier n) ctx with
      | .error e => .error e
      | .ok ctx' => evalFrom deps assign modifier rest ctx'

/-- The evaluation loop run on the outcome of a resolution; the result is the final context
(`properties = getContextValues(context)`): property ↦ producer of its value. -/
def evaluate (C : ClassInfo) (S : List Spec) (o : Outcome) : Except EvalErr Ctx :=
  evalFrom (depsOf C S) o.assign o.modifier o.order []

/-- `_defaultedProperties`: the set filled by `for prop, default_spec in defaults.items(): if prop not in priorities:
... properties[prop] = default_spec; _defaultedProperties.add(prop)` -- the properties that `properties` maps to a
default specifier of the class (candidates for `constProps`), in the order of `properties`. -/
def defaulted (o : Outcome) : List String :=
  (o.assign.filter (fun pa => match pa.2 with | .dflt _ => true | .user _ => false)).map (·.1)

/-- `constProps = frozenset({prop for prop in _defaultedProperties if not needsSampling(properties[prop])})`;
`sampled p` abstracts `needsSampling` of the final value of `p` (values are not modelled). -/
def constProps (sampled : String → Bool) (o : Outcome) : List String :=
  (defaulted o).filter (fun p => !sampled p)

/-! ## `Constructible._override` (`override obj <specifiers>`)

```python
for spec in specifiers:
    for prop in spec.priorities:
        if prop in self._dynamicProperties: raise SpecifierError('cannot override dynamic property')
        if prop not in self._propertiesSet: raise SpecifierError('object has no property ... to override')
        oldVals[prop] = getattr(self, prop)
defs = {prop: Specifier("OverrideDefault", {prop: -1}, {prop: getattr(self, prop)}) for prop in self.properties}
newprops, _ = self._resolveSpecifiers(specifiers, defaults=defs)
```
The replacement defaults have no dependencies (their values are the current, concrete values); the node
`.dflt p` of the resolution below therefore stands for "the value `p` had before the override". -/

inductive OvErr where
  /-- "cannot override dynamic property" -/
  | dynamicProp
  /-- "object has no property ... to override" -/
  | noSuchProp
deriving DecidableEq, Repr, Inhabited

/-- `for prop in spec.priorities:` of the validation loop -/
def overrideCheckProps (dyn props : List String) : List String → Option OvErr
  | [] => none
  | p :: ps =>
    if p ∈ dyn then some .dynamicProp
    else if p ∉ props then some .noSuchProp
    else overrideCheckProps dyn props ps

/-- `for spec in specifiers:` of the validation loop -/
def overrideCheck (dyn props : List String) : List Spec → Option OvErr
  | [] => none
  | s :: rest =>
    match overrideCheckProps dyn props (s.prios.map (·.1)) with
    | some e => some e
    | none => overrideCheck dyn props rest

/-- `defaults=defs` with `finals = cls._finalProperties` (unchanged) -/
def overrideClass (C : ClassInfo) (props : List String) : ClassInfo :=
  ⟨props.map (fun p => (p, [])), C.finals⟩

inductive OvOutcome where
  | refused (e : OvErr)
  | resolveErr (e : Err)
  | ok (o : Outcome)
deriving DecidableEq, Repr, Inhabited

/-- `_override` up to the assignment of the new values; `dyn` = `self._dynamicProperties`,
`props` = `self.properties`. -/
def override (C : ClassInfo) (dyn props : List String) (S : List Spec) : OvOutcome :=
  match overrideCheck dyn props S with
  | some e => .refused e
  | none =>
    match resolve (overrideClass C props) S with
    | .error e => .resolveErr e
    | .ok o => .ok o

end Scenic.Spec
