/-
Model of Scenic's visibility test (`src/scenic/core/visibility.py: canSee`, the viewer wrappers in
`object_types.py` and the occluder plumbing in `veneer.py` / `requirements.py`).  Core Lean only.

All quantities are exact rationals.  Angles never appear: a view angle `a` is represented by the pair
`(cos (a/2), sin (a/2))` of its *half*-angle (a rational point of the unit circle), and every angular
comparison of the code is modelled by the equivalent polynomial comparison:

* `-a/2 ≤ atan2(y, x) - π/2 (wrapped) ≤ a/2`   ⇔   `y ≥ cos(a/2) · √(x² + y²)`      (`GeMulSqrt`)
* `-b/2 ≤ asin(z / |v|) ≤ b/2`                 ⇔   `z² ≤ sin(b/2)² · |v|²`          (`AltOK`)
* `dist > D` (reject)                           ⇔   `|d|² > D²`  for `D ≥ 0`

(the equivalences with real angles are proved in `Props/C17Angles.lean`).

The *choices* the source makes (order of translation and rotation, which ray components feed `atan2`
and `asin`, the quarter-turn offset of the azimuth, which entry of `viewAngles` bounds which angle, the
direction of the distance / occlusion comparisons, how the camera position of an `Object` is composed)
are data (`Cfg`, `WrapCfg`), regenerated from /repo by `tools/translate/visibility.py` into
`Gen/Visibility.lean`.  The property theorems hold for the reference configuration; the side condition
`gen_cfg_reference` re-decides on every run that the generated configuration is that one.

Occluders and object targets are oriented boxes (centre, rotation matrix, half-extents) with exact
ray/box intersection.  trimesh's ray casting and the ray grid of the object branch are not modelled:
the object procedure is modelled as "the centre shortcut, or some ray of a given finite list that lies in
the view windows, hits the target within the visible distance and is not hit earlier by an occluder".
-/
namespace Scenic.Vis

/-! ## vectors and matrices -/

structure V3 where
  x : Rat
  y : Rat
  z : Rat
deriving DecidableEq, Repr, Inhabited

namespace V3
def zero : V3 := ⟨0, 0, 0⟩
def add (a b : V3) : V3 := ⟨a.x + b.x, a.y + b.y, a.z + b.z⟩
def sub (a b : V3) : V3 := ⟨a.x - b.x, a.y - b.y, a.z - b.z⟩
def smul (k : Rat) (a : V3) : V3 := ⟨k * a.x, k * a.y, k * a.z⟩
def dot (a b : V3) : Rat := a.x * b.x + a.y * b.y + a.z * b.z
def normSq (a : V3) : Rat := a.x * a.x + a.y * a.y + a.z * a.z
/-- component by index (`0,1,2`; larger indices read `z`) -/
def comp (a : V3) : Nat → Rat
  | 0 => a.x
  | 1 => a.y
  | _ => a.z
end V3

/-- 3×3 matrix given by its rows -/
structure Mat3 where
  r0 : V3
  r1 : V3
  r2 : V3
deriving DecidableEq, Repr, Inhabited

namespace Mat3
def id : Mat3 := ⟨⟨1, 0, 0⟩, ⟨0, 1, 0⟩, ⟨0, 0, 1⟩⟩
/-- `M v` -/
def apply (M : Mat3) (v : V3) : V3 := ⟨M.r0.dot v, M.r1.dot v, M.r2.dot v⟩
/-- `Mᵀ v` (the inverse rotation when `M` is orthogonal) -/
def applyT (M : Mat3) (v : V3) : V3 :=
  ⟨M.r0.x * v.x + M.r1.x * v.y + M.r2.x * v.z,
   M.r0.y * v.x + M.r1.y * v.y + M.r2.y * v.z,
   M.r0.z * v.x + M.r1.z * v.y + M.r2.z * v.z⟩
def col0 (M : Mat3) : V3 := ⟨M.r0.x, M.r1.x, M.r2.x⟩
def col1 (M : Mat3) : V3 := ⟨M.r0.y, M.r1.y, M.r2.y⟩
def col2 (M : Mat3) : V3 := ⟨M.r0.z, M.r1.z, M.r2.z⟩
/-- matrix product: `(A.mul B).apply v = A.apply (B.apply v)` -/
def mul (A B : Mat3) : Mat3 :=
  ⟨⟨A.r0.dot B.col0, A.r0.dot B.col1, A.r0.dot B.col2⟩,
   ⟨A.r1.dot B.col0, A.r1.dot B.col1, A.r1.dot B.col2⟩,
   ⟨A.r2.dot B.col0, A.r2.dot B.col1, A.r2.dot B.col2⟩⟩
/-- orthogonal: rows orthonormal and columns orthonormal (`M Mᵀ = MᵀM = I`) -/
def IsOrtho (M : Mat3) : Prop :=
  (M.r0.dot M.r0 = 1 ∧ M.r1.dot M.r1 = 1 ∧ M.r2.dot M.r2 = 1 ∧
   M.r0.dot M.r1 = 0 ∧ M.r0.dot M.r2 = 0 ∧ M.r1.dot M.r2 = 0) ∧
  (M.col0.dot M.col0 = 1 ∧ M.col1.dot M.col1 = 1 ∧ M.col2.dot M.col2 = 1 ∧
   M.col0.dot M.col1 = 0 ∧ M.col0.dot M.col2 = 0 ∧ M.col1.dot M.col2 = 0)
instance (M : Mat3) : Decidable M.IsOrtho := by unfold IsOrtho; exact inferInstance

/-- rotation matrix of the quaternion `w + xi + yj + zk` (not necessarily of unit length; this is what
    SciPy's `Rotation.from_quat([x, y, z, w])` represents after normalisation) -/
def ofQuat (w x y z : Rat) : Mat3 :=
  let n := w * w + x * x + y * y + z * z
  ⟨⟨(w * w + x * x - y * y - z * z) / n, 2 * (x * y - z * w) / n, 2 * (x * z + y * w) / n⟩,
   ⟨2 * (x * y + z * w) / n, (w * w - x * x + y * y - z * z) / n, 2 * (y * z - x * w) / n⟩,
   ⟨2 * (x * z - y * w) / n, 2 * (y * z + x * w) / n, (w * w - x * x - y * y + z * z) / n⟩⟩
end Mat3

/-! ## configuration extracted from the source -/

/-- choices made by the point branch of `visibility.canSee` (and shared by the object branch) -/
structure Cfg where
  /-- `target_vertex = target_loc - position` is computed *before* the inverse rotation is applied
      (`R⁻¹(t - p)`); `false` models `R⁻¹ t - p` -/
  translateFirst : Bool
  /-- the candidate ray is rotated back to world coordinates (`orientation.getRotation().apply`)
      before it is cast against the occluders -/
  rayRotatedBack : Bool
  /-- `if target_distance > visibleDistance: return False` -/
  distRejectBeyond : Bool
  /-- `atan2(ray[azNum], ray[azDen])` -/
  azNum : Nat
  azDen : Nat
  /-- azimuth = `atan2(..) + azQuarter·π/2` (wrapped to `[-π, π)`); the code subtracts `π/2` -/
  azQuarter : Int
  /-- `asin(ray[altComp])` -/
  altComp : Nat
  /-- index into `viewAngles` bounding the azimuth / the altitude -/
  azAngleIdx : Nat
  altAngleIdx : Nat
  /-- an occluder hit blocks when `occ_distance <= target_distance` -/
  occBlockIfCloser : Bool
  /-- occluders are kept when `position.distanceTo(obj) <= visibleDistance` -/
  occFilterWithin : Bool
deriving DecidableEq, Repr

/-- the configuration under which the property theorems are proved -/
def Cfg.reference : Cfg :=
  { translateFirst := true, rayRotatedBack := true, distRejectBeyond := true,
    azNum := 1, azDen := 0, azQuarter := -1, altComp := 2, azAngleIdx := 0, altAngleIdx := 1,
    occBlockIfCloser := true, occFilterWithin := true }

/-- shape of the object branch of `visibility.canSee` (each flag says that the corresponding statement
    has the form the model `objectVisible` assumes) -/
structure ObjCfg where
  /-- `if target.shape.containsCenter and canSee(<same viewer>, target.position, occludingObjects): return True` -/
  centreShortcut : Bool
  /-- `if target.distanceTo(position) > visibleDistance: return False` -/
  distRejectBeyond : Bool
  /-- target vertices are translated by `-position` before the inverse rotation is applied -/
  translateFirst : Bool
  /-- rays are `(-sin az, cos az, tan alt)` normalised -/
  rayFormula : Bool
  /-- rays are rotated back to world coordinates before being cast -/
  rayRotatedBack : Bool
  /-- target hits with `hit_dist > visibleDistance` are ignored -/
  hitRejectBeyond : Bool
  /-- a ray is occluded when an occluder hit has `hit_dist <= target_dist_map[ray]` -/
  occBlockIfCloser : Bool
  /-- the closest target hit of each ray is the one compared -/
  closestHit : Bool
  /-- visible as soon as one candidate ray survives all occluders -/
  survivorVisible : Bool
deriving DecidableEq, Repr

def ObjCfg.reference : ObjCfg :=
  { centreShortcut := true, distRejectBeyond := true, translateFirst := true, rayFormula := true,
    rayRotatedBack := true, hitRejectBeyond := true, occBlockIfCloser := true, closestHit := true,
    survivorVisible := true }

/-- choices made by the viewer wrappers (`Point/OrientedPoint/Object.canSee`, `visibleRegion`) and by
    the operator / requirement plumbing -/
structure WrapCfg where
  /-- `Object.canSee`: camera = `position.offsetLocally(orientation, cameraOffset)` = `p + R·off` -/
  objCamOffsetLocal : Bool
  /-- `Object.visibleRegion` is placed at the same camera position with the same rotation -/
  objRegionSameCam : Bool
  /-- `Object.canSee` / `OrientedPoint.canSee` pass `self.orientation` and `self.viewAngles` -/
  orientedPassOrientation : Bool
  /-- `OrientedPoint.canSee` / `visibleRegion` use `self.position` -/
  orientedCamIsPosition : Bool
  /-- `Point.canSee` passes `orientation=None` and `viewAngles=(τ, π)` -/
  pointFullSphere : Bool
  /-- all three pass `self.visibleDistance` -/
  passVisibleDistance : Bool
  /-- `CanSee`: occluders = objects with `occluding`, other than `X` and `Y`, materialised -/
  opOccludersFiltered : Bool
  /-- `VisibilityRequirement`: occluders = sampled objects other than source/target with `occluding`,
      materialised (a tuple, not a one-shot iterator) -/
  reqOccludersFiltered : Bool
  /-- `Point.visibleRegion = SpheroidRegion(position=self.position, dimensions=(k·D, k·D, k·D))` with
      `D = self.visibleDistance`: the factor `k` (`SpheroidRegion` takes full extents, so the documented
      radius `D` needs `k = 2`) -/
  pointRegionDiamFactor : Nat
  /-- `ViewRegion.__init__`: the base sphere is `SpheroidRegion(dimensions=(k·D, k·D, k·D))` -/
  viewRegionDiamFactor : Nat
  /-- every form of `ViewRegion` is the base sphere or `base_sphere.intersect(<section>)`, placed at the
      `position` / `rotation` it is given -/
  viewRegionWithinSphere : Bool
deriving DecidableEq, Repr

def WrapCfg.reference : WrapCfg :=
  { objCamOffsetLocal := true, objRegionSameCam := true, orientedPassOrientation := true,
    orientedCamIsPosition := true, pointFullSphere := true, passVisibleDistance := true,
    opOccludersFiltered := true, reqOccludersFiltered := true, pointRegionDiamFactor := 2,
    viewRegionDiamFactor := 2, viewRegionWithinSphere := true }

/-- choices made by the 2D compatibility mode (`Point2D.canSee`, `_canSee2D`, the `visibleRegion`s of
    `Point2D` / `OrientedPoint2D` / `Object2D`, `SectorRegion.containsPoint`, `CircularRegion.containsPoint`,
    `geometry.pointIsInCone` / `viewAngleToPoint`, `Vector.rotatedBy` / `offsetRotated`) -/
structure Cfg2D where
  /-- `Point2D.canSee`: `if not occludingObjects: return self._canSee2D(other)`; with occluders the 3D
      class's `canSee` is used -/
  fastPathWithoutOccluders : Bool
  /-- `_canSee2D` for a `Vector` / `Point2D`: `self.visibleRegion.containsPoint(toVector(other))` -/
  pointViaRegion : Bool
  /-- `Point2D.visibleRegion = CircularRegion(self.position, self.visibleDistance)` -/
  discArgs : Bool
  /-- `OrientedPoint2D.visibleRegion = SectorRegion(self.position, self.visibleDistance, self.heading,
      self.viewAngle)` -/
  sectorArgs : Bool
  /-- `Object2D.visibleRegion`: the same sector based at
      `self.position.offsetRotated(self.heading, self.cameraOffset)` -/
  objCamOffsetRotated : Bool
  /-- `rotatedBy(θ)` is the counter-clockwise rotation `(c·x − s·y, s·x + c·y, z)` and
      `offsetRotated(θ, off) = self + off.rotatedBy(θ)` -/
  rotatedByCCW : Bool
  /-- `containsPoint`: `if point.z != self.z: return False` (sector and disc) -/
  planarOnly : Bool
  /-- `containsPoint`: `point.distanceTo(self.center) <= self.radius` (sector and disc) -/
  distWithin : Bool
  /-- `viewAngleToPoint`: `normalizeAngle(atan2(p[coneNum] − b[coneNum], p[coneDen] − b[coneDen])
      − heading + coneQuarter·π/2)` (the code subtracts `heading + π/2`) -/
  coneNum : Nat
  coneDen : Nat
  coneQuarter : Int
  /-- `pointIsInCone`: `abs(va) <= angle / 2` -/
  coneHalfAngle : Bool
deriving DecidableEq, Repr

def Cfg2D.reference : Cfg2D :=
  { fastPathWithoutOccluders := true, pointViaRegion := true, discArgs := true, sectorArgs := true,
    objCamOffsetRotated := true, rotatedByCCW := true, planarOnly := true, distWithin := true,
    coneNum := 1, coneDen := 0, coneQuarter := -1, coneHalfAngle := true }

/-! ## the viewer -/

/-- `(cos, sin)` of half a view angle (also used for `(cos, sin)` of a heading) -/
structure Half where
  c : Rat
  s : Rat
deriving DecidableEq, Repr, Inhabited

/-- a rational point of the unit circle in the upper half plane: half of an angle in `[0, 2π]` -/
def Half.Valid (h : Half) : Prop := h.c * h.c + h.s * h.s = 1 ∧ 0 ≤ h.s
/-- half of a vertical view angle (in `[0, π]`, so the half-angle is in `[0, π/2]`) -/
def Half.ValidAlt (h : Half) : Prop := h.Valid ∧ 0 ≤ h.c
/-- half of the full turn (`viewAngles[0] = τ`) and half of `π` -/
def Half.full : Half := ⟨-1, 0⟩
def Half.quarter : Half := ⟨0, 1⟩

/-- what `visibility.canSee` receives: camera position, rotation, visible distance and the half-angles
    of `viewAngles[0]`, `viewAngles[1]` -/
structure Viewer where
  cam : V3
  R : Mat3
  D : Rat
  a0 : Half
  a1 : Half
deriving Repr, Inhabited

inductive ViewerKind | point | oriented | object
deriving DecidableEq, Repr

/-- the arguments the wrappers hand to `visibility.canSee` for a viewer with the given properties -/
def mkViewer (w : WrapCfg) (k : ViewerKind) (pos : V3) (R : Mat3) (off : V3) (D : Rat)
    (a0 a1 : Half) : Viewer :=
  match k with
  | .point =>
    if w.pointFullSphere then ⟨pos, Mat3.id, D, Half.full, Half.quarter⟩ else ⟨pos, R, D, a0, a1⟩
  | .oriented =>
    ⟨pos, if w.orientedPassOrientation then R else Mat3.id, D, a0, a1⟩
  | .object =>
    ⟨if w.objCamOffsetLocal then pos.add (R.apply off) else pos.add off,
     if w.orientedPassOrientation then R else Mat3.id, D, a0, a1⟩

/-! ## angular windows -/

/-- `f ≥ c·√n` for `n ≥ 0`, without square roots -/
def GeMulSqrt (f c n : Rat) : Prop :=
  if 0 ≤ c then 0 ≤ f ∧ c * c * n ≤ f * f else 0 ≤ f ∨ f * f ≤ c * c * n
instance (f c n : Rat) : Decidable (GeMulSqrt f c n) := by unfold GeMulSqrt; exact inferInstance

/-- the component of the horizontal projection along the axis from which the azimuth is measured:
    `azimuth = atan2(a, b) + k·π/2`, so `cos azimuth = forward / √(a² + b²)` -/
def forward (cfg : Cfg) (v : V3) : Rat :=
  let a := v.comp cfg.azNum
  let b := v.comp cfg.azDen
  match cfg.azQuarter % 4 with
  | 0 => b
  | 1 => -a
  | 2 => -b
  | _ => a

/-- cosine of the azimuth the code computes when both `atan2` arguments are zero (`atan2(0,0) = 0`) -/
def zeroCos (cfg : Cfg) : Rat :=
  match cfg.azQuarter % 4 with
  | 0 => 1
  | 2 => -1
  | _ => 0

def horizSq (cfg : Cfg) (v : V3) : Rat :=
  v.comp cfg.azNum * v.comp cfg.azNum + v.comp cfg.azDen * v.comp cfg.azDen

/-- `-a/2 <= azimuth <= a/2` -/
def AzOK (cfg : Cfg) (h : Half) (v : V3) : Prop :=
  if horizSq cfg v = 0 then h.c ≤ zeroCos cfg else GeMulSqrt (forward cfg v) h.c (horizSq cfg v)
instance (cfg : Cfg) (h : Half) (v : V3) : Decidable (AzOK cfg h v) := by
  unfold AzOK; exact inferInstance

/-- `-b/2 <= asin(ray[altComp]) <= b/2` with `ray = v/|v|` -/
def AltOK (cfg : Cfg) (h : Half) (v : V3) : Prop :=
  v.comp cfg.altComp * v.comp cfg.altComp ≤ h.s * h.s * v.normSq
instance (cfg : Cfg) (h : Half) (v : V3) : Decidable (AltOK cfg h v) := by
  unfold AltOK; exact inferInstance

def halfAt (vw : Viewer) (i : Nat) : Half := if i = 0 then vw.a0 else vw.a1

/-- the target expressed in the viewer's frame, as the code computes it -/
def relVec (cfg : Cfg) (vw : Viewer) (t : V3) : V3 :=
  if cfg.translateFirst then vw.R.applyT (t.sub vw.cam) else (vw.R.applyT t).sub vw.cam

/-- the windows test on a vector of the viewer's frame (false for the zero vector: the code divides by
    the norm and every comparison with NaN fails) -/
def InWindows (cfg : Cfg) (vw : Viewer) (v : V3) : Prop :=
  v ≠ V3.zero ∧ AzOK cfg (halfAt vw cfg.azAngleIdx) v ∧ AltOK cfg (halfAt vw cfg.altAngleIdx) v
instance (cfg : Cfg) (vw : Viewer) (v : V3) : Decidable (InWindows cfg vw v) := by
  unfold InWindows; exact inferInstance

/-- the distance test -/
def DistOK (cfg : Cfg) (D dSq : Rat) : Prop :=
  if cfg.distRejectBeyond then 0 ≤ D ∧ dSq ≤ D * D else D < 0 ∨ D * D ≤ dSq
instance (cfg : Cfg) (D dSq : Rat) : Decidable (DistOK cfg D dSq) := by
  unfold DistOK; exact inferInstance

/-! ## boxes and exact ray casting -/

/-- an oriented box: centre, rotation (columns = box axes in world coordinates), half-extents -/
structure Box where
  c : V3
  M : Mat3
  h : V3
deriving Repr, Inhabited

def absR (a : Rat) : Rat := if a < 0 then -a else a

/-- coordinates of a world point in the box frame -/
def Box.loc (b : Box) (p : V3) : V3 := b.M.applyT (p.sub b.c)

def InExt (h l : V3) : Prop :=
  (-h.x ≤ l.x ∧ l.x ≤ h.x) ∧ (-h.y ≤ l.y ∧ l.y ≤ h.y) ∧ (-h.z ≤ l.z ∧ l.z ≤ h.z)
instance (h l : V3) : Decidable (InExt h l) := by unfold InExt; exact inferInstance

/-- the (closed, solid) box contains the world point -/
def Box.Contains (b : Box) (p : V3) : Prop := InExt b.h (b.loc p)
instance (b : Box) (p : V3) : Decidable (b.Contains p) := by unfold Box.Contains; exact inferInstance

/-- by how much `|u|` exceeds `h` -/
def excess (u h : Rat) : Rat := if absR u ≤ h then 0 else absR u - h

/-- squared distance from a world point to the box -/
def Box.distSq (b : Box) (p : V3) : Rat :=
  let l := b.loc p
  excess l.x b.h.x * excess l.x b.h.x + excess l.y b.h.y * excess l.y b.h.y
    + excess l.z b.h.z * excess l.z b.h.z

/-- squared distance from a world point to the farthest point of the box -/
def Box.farSq (b : Box) (p : V3) : Rat :=
  let l := b.loc p
  (absR l.x + b.h.x) * (absR l.x + b.h.x) + (absR l.y + b.h.y) * (absR l.y + b.h.y)
    + (absR l.z + b.h.z) * (absR l.z + b.h.z)

/-- parameters at which the line `o + s·e` crosses the two face planes of one axis -/
def axisCands (o e h : Rat) : List Rat := if e = 0 then [] else [(-h - o) / e, (h - o) / e]

/-- parameters `s` (any sign) at which the line `p + s·dir` meets the surface of the box transversally:
    the crossings of the six face planes that lie in the box -/
def Box.hitParams (b : Box) (p dir : V3) : List Rat :=
  let o := b.loc p
  let e := b.M.applyT dir
  (axisCands o.x e.x b.h.x ++ axisCands o.y e.y b.h.y ++ axisCands o.z e.z b.h.z).filter
    fun s => decide (InExt b.h (o.add (e.smul s)))

/-- the ray from `p` along `dir` hits the box surface at a distance related to `tdSq` (the squared
    target distance) as the code demands: `occ_distance <= target_distance` -/
def Box.Blocks (cfg : Cfg) (b : Box) (p dir : V3) (tdSq : Rat) : Bool :=
  (b.hitParams p dir).any fun s =>
    decide (0 ≤ s) &&
      (if cfg.occBlockIfCloser then decide (s * s * dir.normSq ≤ tdSq)
       else decide (tdSq ≤ s * s * dir.normSq))

/-- the filter applied to `occludingObjects` on entry -/
def Box.Kept (cfg : Cfg) (vw : Viewer) (b : Box) : Bool :=
  if cfg.occFilterWithin then decide (b.distSq vw.cam ≤ vw.D * vw.D)
  else decide (vw.D * vw.D ≤ b.distSq vw.cam)

/-! ## the point branch -/

/-- direction of the ray cast against the occluders -/
def rayDir (cfg : Cfg) (vw : Viewer) (v : V3) : V3 := if cfg.rayRotatedBack then vw.R.apply v else v

/-- `visibility.canSee` for a `Vector` / `Point` target -/
def pointVisible (cfg : Cfg) (vw : Viewer) (t : V3) (occ : List Box) : Bool :=
  let tdSq := (t.sub vw.cam).normSq
  let v := relVec cfg vw t
  decide (DistOK cfg vw.D tdSq) && decide (InWindows cfg vw v) &&
    !((occ.filter (Box.Kept cfg vw)).any fun b => b.Blocks cfg vw.cam (rayDir cfg vw v) tdSq)

/-! ## the object branch (ray casting abstracted to a given finite list of rays) -/

/-- smallest element of a list -/
def minList : List Rat → Option Rat
  | [] => none
  | s :: rest =>
    match minList rest with
    | none => some s
    | some m => if s < m then some s else some m

/-- first parameter `s ≥ 0` at which the ray meets the target surface with `s·|dir| ≤ D` -/
def Box.firstHit (b : Box) (p dir : V3) (D : Rat) : Option Rat :=
  minList ((b.hitParams p dir).filter fun s => decide (0 ≤ s ∧ s * s * dir.normSq ≤ D * D))

/-- one candidate ray `r` (viewer frame): inside the windows, hits the target within `D`, and no kept
    occluder is hit at a distance `≤` the target hit -/
def rayShows (cfg : Cfg) (vw : Viewer) (tgt : Box) (occ : List Box) (r : V3) : Bool :=
  decide (InWindows cfg vw r) &&
    (let dir := rayDir cfg vw r
     match tgt.firstHit vw.cam dir vw.D with
     | none => false
     | some s =>
       !((occ.filter (Box.Kept cfg vw)).any fun b => b.Blocks cfg vw.cam dir (s * s * dir.normSq)))

/-- `visibility.canSee` for an `Object` target whose shape is a box (which contains its centre) -/
def objectVisible (cfg : Cfg) (vw : Viewer) (rays : List V3) (tgt : Box) (occ : List Box) : Bool :=
  pointVisible cfg vw tgt.c occ ||
    (decide (0 ≤ vw.D ∧ tgt.distSq vw.cam ≤ vw.D * vw.D) && rays.any (rayShows cfg vw tgt occ))

/-! ## the view volume (specification side) and certificates used by the object oracle -/

/-- the view volume: points whose viewer-frame vector `Rᵀ(t - cam)` is within the visible distance and
    inside both angular windows (closed; the apex is excluded, see `InWindows`) -/
def InViewVolume (vw : Viewer) (t : V3) : Prop :=
  let v := vw.R.applyT (t.sub vw.cam)
  (0 ≤ vw.D ∧ v.normSq ≤ vw.D * vw.D) ∧ InWindows Cfg.reference vw v
instance (vw : Viewer) (t : V3) : Decidable (InViewVolume vw t) := by
  unfold InViewVolume; exact inferInstance

/-- maximum over the box of the linear functional `ℓ · (viewer-frame vector of the point)` -/
def Box.maxLin (b : Box) (vw : Viewer) (l : V3) : Rat :=
  let g := b.M.applyT (vw.R.apply l)     -- functional in box coordinates
  l.dot (vw.R.applyT (b.c.sub vw.cam)) + absR g.x * b.h.x + absR g.y * b.h.y + absR g.z * b.h.z

/-- minimum over the box of the same functional -/
def Box.minLin (b : Box) (vw : Viewer) (l : V3) : Rat :=
  let g := b.M.applyT (vw.R.apply l)
  l.dot (vw.R.applyT (b.c.sub vw.cam)) - (absR g.x * b.h.x + absR g.y * b.h.y + absR g.z * b.h.z)

/-- viewer-frame vector of a world point -/
def vf (vw : Viewer) (p : V3) : V3 := vw.R.applyT (p.sub vw.cam)

/-- strictly off the altitude band, above it (`sgn = 1`) or below it (`sgn = -1`):
    `sgn·z > 0` and `cos·|z| > sin·√(x² + y²)` -/
def OffBand (h : Half) (sgn : Rat) (v : V3) : Prop :=
  0 < sgn * v.z ∧ h.s * h.s * (v.x * v.x + v.y * v.y) < h.c * h.c * (v.z * v.z)
instance (h : Half) (sgn : Rat) (v : V3) : Decidable (OffBand h sgn v) := by
  unfold OffBand; exact inferInstance

/-- viewer-frame vector of the point with box coordinates `l` -/
def boxPt (vw : Viewer) (b : Box) (l : V3) : V3 := vf vw (b.c.add (b.M.apply l))

/-- all eight corners of the box are strictly above / below the altitude band -/
def cornersOffBand (vw : Viewer) (b : Box) (sgn : Rat) : Prop :=
  OffBand vw.a1 sgn (boxPt vw b ⟨-b.h.x, -b.h.y, -b.h.z⟩) ∧ OffBand vw.a1 sgn (boxPt vw b ⟨-b.h.x, -b.h.y, b.h.z⟩) ∧
  OffBand vw.a1 sgn (boxPt vw b ⟨-b.h.x, b.h.y, -b.h.z⟩) ∧ OffBand vw.a1 sgn (boxPt vw b ⟨-b.h.x, b.h.y, b.h.z⟩) ∧
  OffBand vw.a1 sgn (boxPt vw b ⟨b.h.x, -b.h.y, -b.h.z⟩) ∧ OffBand vw.a1 sgn (boxPt vw b ⟨b.h.x, -b.h.y, b.h.z⟩) ∧
  OffBand vw.a1 sgn (boxPt vw b ⟨b.h.x, b.h.y, -b.h.z⟩) ∧ OffBand vw.a1 sgn (boxPt vw b ⟨b.h.x, b.h.y, b.h.z⟩)
instance (vw : Viewer) (b : Box) (sgn : Rat) : Decidable (cornersOffBand vw b sgn) := by
  unfold cornersOffBand; exact inferInstance

/-- certificate that the whole box lies outside the view volume: too far, or all eight corners strictly above (or
    all strictly below) the altitude band (a convex cone), or strictly on the wrong side of a plane through the
    vertical axis of the viewer that bounds the azimuth window -/
def outsideCert (vw : Viewer) (b : Box) : Bool :=
  decide (vw.D < 0) || decide (vw.D * vw.D < b.distSq vw.cam) ||
  decide (cornersOffBand vw b 1) || decide (cornersOffBand vw b (-1)) ||
  (let c := vw.a0.c
   let s := vw.a0.s
   if 0 < c then
     -- convex wedge: separated by one of its two bounding planes or by the plane `y = 0`
     decide (b.maxLin vw ⟨-c, s, 0⟩ < 0) || decide (b.maxLin vw ⟨c, s, 0⟩ < 0)
       || decide (b.maxLin vw ⟨0, 1, 0⟩ < 0)
   else
     -- reflex wedge: its complement is the convex cone `c·x - s·y > 0 ∧ -c·x - s·y > 0`
     decide (0 < b.minLin vw ⟨c, -s, 0⟩) && decide (0 < b.minLin vw ⟨-c, -s, 0⟩))

/-- certificate that the whole box lies inside the view volume.  `u` is a rational unit vector of the
    horizontal plane of the viewer (chosen by the caller near the direction of the box) -/
def insideCert (vw : Viewer) (b : Box) (u : V3) : Bool :=
  decide (0 ≤ vw.D) && decide (b.farSq vw.cam ≤ vw.D * vw.D) &&
  decide (u.z = 0 ∧ u.x * u.x + u.y * u.y = 1) &&
  -- away from the vertical axis, in the direction u
  decide (0 < b.minLin vw u) &&
  -- azimuth
  (let c := vw.a0.c
   let s := vw.a0.s
   if 0 < c then decide (0 ≤ b.minLin vw ⟨-c, s, 0⟩) && decide (0 ≤ b.minLin vw ⟨c, s, 0⟩)
     && decide (0 ≤ b.minLin vw ⟨0, 1, 0⟩)
   else decide (0 ≤ b.minLin vw ⟨0, 1, 0⟩) || decide (0 ≤ b.minLin vw ⟨-c, s, 0⟩)
     || decide (0 ≤ b.minLin vw ⟨c, s, 0⟩)) &&
  -- altitude: cos·|z| ≤ sin·(u·(x,y)) ≤ sin·√(x²+y²)
  (let c := vw.a1.c
   let s := vw.a1.s
   decide (0 ≤ b.minLin vw ⟨s * u.x, s * u.y, -c⟩) && decide (0 ≤ b.minLin vw ⟨s * u.x, s * u.y, c⟩))

/-! ## visible regions (`visibleRegion` of the three kinds of viewer) -/

/-- the closed ball with centre `c` and *diameter* `diam` (what `SpheroidRegion(dimensions=(diam,)*3)` placed at `c`
    is), without square roots or division -/
def BallContains (c : V3) (diam : Rat) (t : V3) : Prop := 0 ≤ diam ∧ 4 * (t.sub c).normSq ≤ diam * diam
instance (c : V3) (diam : Rat) (t : V3) : Decidable (BallContains c diam t) := by
  unfold BallContains; exact inferInstance

/-- `Point.visibleRegion.containsPoint(t)` -/
def pointRegion (w : WrapCfg) (pos : V3) (D : Rat) (t : V3) : Prop :=
  BallContains pos ((w.pointRegionDiamFactor : Rat) * D) t
instance (w : WrapCfg) (pos : V3) (D : Rat) (t : V3) : Decidable (pointRegion w pos D t) := by
  unfold pointRegion; exact inferInstance

/-- the outer bound of `ViewRegion` (the visible region of `OrientedPoint` / `Object`): its base sphere, placed at
    the camera; `False`-valued flag = not known to be inside any sphere -/
def viewRegionBound (w : WrapCfg) (cam : V3) (D : Rat) (t : V3) : Prop :=
  w.viewRegionWithinSphere = true ∧ BallContains cam ((w.viewRegionDiamFactor : Rat) * D) t
instance (w : WrapCfg) (cam : V3) (D : Rat) (t : V3) : Decidable (viewRegionBound w cam D t) := by
  unfold viewRegionBound; exact inferInstance

/-! ## 2D compatibility mode: the fast path of `Point2D.canSee` for point targets -/

/-- rotation about the vertical axis by the heading whose cosine and sine are `c`, `s`
    (`Vector.rotatedBy`: counter-clockwise, `(c·x − s·y, s·x + c·y, z)`) -/
def Mat3.yaw (c s : Rat) : Mat3 := ⟨⟨c, -s, 0⟩, ⟨s, c, 0⟩, ⟨0, 0, 1⟩⟩

/-- the configuration of the angular test of `pointIsInCone`, in the vocabulary of the 3D windows -/
def Cfg2D.azCfg (c2 : Cfg2D) : Cfg :=
  { Cfg.reference with azNum := c2.coneNum, azDen := c2.coneDen, azQuarter := c2.coneQuarter }

/-- centre of the sector / disc that is the `visibleRegion` of a 2D viewer -/
def cam2D (c2 : Cfg2D) (k : ViewerKind) (pos off : V3) (hd : Half) : V3 :=
  match k with
  | .object =>
    if c2.objCamOffsetRotated then
      pos.add (if c2.rotatedByCCW then (Mat3.yaw hd.c hd.s).apply off else (Mat3.yaw hd.c hd.s).applyT off)
    else pos
  | _ => pos

/-- `CircularRegion.containsPoint` / the distance and planarity part of `SectorRegion.containsPoint` -/
def Disc2D (c2 : Cfg2D) (ctr : V3) (D : Rat) (t : V3) : Prop :=
  (c2.planarOnly = true → t.z = ctr.z) ∧
    (if c2.distWithin then 0 ≤ D ∧ (t.sub ctr).normSq ≤ D * D else D < 0 ∨ D * D ≤ (t.sub ctr).normSq)
instance (c2 : Cfg2D) (ctr : V3) (D : Rat) (t : V3) : Decidable (Disc2D c2 ctr D t) := by
  unfold Disc2D; exact inferInstance

/-- `SectorRegion.containsPoint`: in the disc and `|viewAngleToPoint| ≤ angle/2`.  The angle
    `atan2(dy, dx) − heading` is the `atan2` of the difference vector rotated back by the heading. -/
def Sector2D (c2 : Cfg2D) (ctr : V3) (hd : Half) (D : Rat) (a : Half) (t : V3) : Prop :=
  Disc2D c2 ctr D t ∧
    (c2.coneHalfAngle = true → AzOK c2.azCfg a ((Mat3.yaw hd.c hd.s).applyT (t.sub ctr)))
instance (c2 : Cfg2D) (ctr : V3) (hd : Half) (D : Rat) (a : Half) (t : V3) :
    Decidable (Sector2D c2 ctr hd D a t) := by
  unfold Sector2D; exact inferInstance

/-- `Point2D / OrientedPoint2D / Object2D.canSee(<vector or Point2D>)` with no occluders (the 2D fast path) -/
def canSee2D (c2 : Cfg2D) (k : ViewerKind) (pos off : V3) (hd : Half) (D : Rat) (a : Half) (t : V3) : Prop :=
  match k with
  | .point => Disc2D c2 pos D t
  | _ => Sector2D c2 (cam2D c2 k pos off hd) hd D a t
instance (c2 : Cfg2D) (k : ViewerKind) (pos off : V3) (hd : Half) (D : Rat) (a : Half) (t : V3) :
    Decidable (canSee2D c2 k pos off hd D a t) := by
  unfold canSee2D; cases k <;> exact inferInstance

end Scenic.Vis
