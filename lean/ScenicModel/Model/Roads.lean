/-!
# Road networks as finite link tables (model of `scenic.domains.driving.roads`)

A `Network` is an array of elements; element 0 stands for the `Network` object itself, maneuvers are
elements too.  Every Python attribute that refers to other network elements is a *field* holding a
list of element indices (an `Optional` attribute is a list of length ≤ 1, a tuple attribute a list
in order).  A value that is not an element of the network (e.g. a raw OpenDRIVE lane id left in
`_successor`, or a stale copy of an element) is exported as an out-of-range index, so it fails
the `typed` rules.

`rules` is the list of reciprocity statements of property C20, each an instance of one of a few
schemas; `Rule.check` is the executable checker of a schema, `Rule.Holds` its ∀-statement.
No Mathlib: this file is compiled into the driver.
-/
namespace Scenic.Roads

inductive Kind
  | network | road | laneGroup | lane | roadSection | laneSection | intersection
  | sidewalk | shoulder | crossing | maneuver
  deriving DecidableEq, Repr

inductive Field
  | road | group | lane | succ | pred | opposite | forward | backward | sidewalk | shoulder
  | left | right | faster | slower | lanes | sections | groups | adjacent | maneuvers
  | roads | connecting | incoming | outgoing | intersections | sidewalks | shoulders | laneSections
  | start | conn | endLane | inter | via | direct
  deriving DecidableEq, Repr

structure Elem where
  kind : Kind
  isForward : Bool := true
  fields : List (Field × List Nat) := []
  deriving Repr

def Elem.get (e : Elem) (f : Field) : List Nat :=
  match e.fields.lookup f with
  | some l => l
  | none => []

structure Network where
  elems : Array Elem

/-- a union (in order) of compositions of fields; `[]` is the identity path -/
abbrev Paths := List (List Field)

namespace Network

def field (n : Network) (f : Field) (i : Nat) : List Nat :=
  match n.elems[i]? with
  | some e => e.get f
  | none => []

def path (n : Network) : List Field → Nat → List Nat
  | [], i => [i]
  | f :: fs, i => (n.field f i).flatMap (n.path fs)

def eval (n : Network) (ps : Paths) (i : Nat) : List Nat := ps.flatMap (fun p => n.path p i)

def kindOf (n : Network) (i : Nat) : Option Kind := (n.elems[i]?).map (·.kind)

def fwdOf (n : Network) (i : Nat) : Bool :=
  match n.elems[i]? with
  | some e => e.isForward
  | none => true

/-- `p i e` for every element `e` at index `i` whose kind is `k` -/
def forKind (n : Network) (k : Kind) (p : Nat → Elem → Bool) : Bool :=
  (List.range n.elems.size).all fun i =>
    match n.elems[i]? with
    | some e => if e.kind = k then p i e else true
    | none => true

end Network

def subList (a b : List Nat) : Bool := a.all (fun x => b.contains x)

/-- does the target `j` pass the optional kind guard -/
def guardKind (n : Network) (kj : Option Kind) (j : Nat) : Bool :=
  match kj with
  | none => true
  | some k => n.kindOf j == some k

inductive Mode | eq | into
  deriving DecidableEq, Repr

inductive Rule
  /-- every target of `f` is an element of the network whose kind is in `ks` -/
  | typed (k : Kind) (f : Field) (ks : List Kind)
  /-- `f` has exactly one value -/
  | one (k : Kind) (f : Field)
  /-- `i ∉ f i` -/
  | irrefl (k : Kind) (f : Field)
  /-- targets of `f` have the same direction flag -/
  | sameDir (k : Kind) (f : Field)
  /-- for `j ∈ f i`: `i ∈ g j` if `j` has the same direction as `i`, else `i ∈ g' j` -/
  | invIf (k : Kind) (f g g' : Field)
  /-- for `j ∈ f i` (of kind `kj` if given): `eval p j = eval q i` (mode eq) / `eval q i ⊆ eval p j` (mode into) -/
  | link (k : Kind) (f : Field) (kj : Option Kind) (p q : Paths) (m : Mode)
  /-- `eval p i ⊆ eval q i` -/
  | sub (k : Kind) (p q : Paths)
  /-- `eval p i = eval q i` (as lists: same elements in the same order) -/
  | same (k : Kind) (p q : Paths)
  /-- `eval p i = eval q i` for forward elements, `= eval q' i` for backward ones -/
  | ifFwd (k : Kind) (p q q' : Paths)
  /-- `f i` and `g i` have the same number of values -/
  | card (k : Kind) (f g : Field)
  /-- every target `j` of `f` (of kind `kj` if given) is one of `eval q i` -/
  | memIf (k : Kind) (f : Field) (kj : Option Kind) (q : Paths)
  deriving DecidableEq, Repr

def Rule.kind : Rule → Kind
  | .typed k .. | .one k .. | .irrefl k .. | .sameDir k .. | .invIf k .. | .link k ..
  | .sub k .. | .same k .. | .ifFwd k .. | .card k .. | .memIf k .. => k

/-- the executable check of a rule at element `e` (index `i`) -/
def Rule.checkAt (n : Network) (r : Rule) (i : Nat) (e : Elem) : Bool :=
  match r with
  | .typed _ f ks => (e.get f).all fun j =>
      match n.elems[j]? with
      | some e' => ks.contains e'.kind
      | none => false
  | .one _ f => (e.get f).length == 1
  | .irrefl _ f => !(e.get f).contains i
  | .sameDir _ f => (e.get f).all fun j => n.fwdOf j == e.isForward
  | .invIf _ f g g' => (e.get f).all fun j =>
      if n.fwdOf j == e.isForward then (n.field g j).contains i else (n.field g' j).contains i
  | .link _ f kj p q m => (e.get f).all fun j =>
      if guardKind n kj j then
        (match m with
         | .eq => n.eval p j == n.eval q i
         | .into => subList (n.eval q i) (n.eval p j))
      else true
  | .sub _ p q => subList (n.eval p i) (n.eval q i)
  | .same _ p q => n.eval p i == n.eval q i
  | .ifFwd _ p q q' => n.eval p i == (if e.isForward then n.eval q i else n.eval q' i)
  | .card _ f g => (e.get f).length == (e.get g).length
  | .memIf _ f kj q => (e.get f).all fun j => if guardKind n kj j then (n.eval q i).contains j else true

/-- the ∀-statement of a rule at element `e` (index `i`) -/
def Rule.HoldsAt (n : Network) (r : Rule) (i : Nat) (e : Elem) : Prop :=
  match r with
  | .typed _ f ks => ∀ j ∈ e.get f, ∃ e', n.elems[j]? = some e' ∧ e'.kind ∈ ks
  | .one _ f => (e.get f).length = 1
  | .irrefl _ f => i ∉ e.get f
  | .sameDir _ f => ∀ j ∈ e.get f, n.fwdOf j = e.isForward
  | .invIf _ f g g' => ∀ j ∈ e.get f,
      (n.fwdOf j = e.isForward → i ∈ n.field g j) ∧ (n.fwdOf j ≠ e.isForward → i ∈ n.field g' j)
  | .link _ f kj p q m => ∀ j ∈ e.get f, (∀ k', kj = some k' → n.kindOf j = some k') →
      (match m with
       | .eq => n.eval p j = n.eval q i
       | .into => ∀ x ∈ n.eval q i, x ∈ n.eval p j)
  | .sub _ p q => ∀ x ∈ n.eval p i, x ∈ n.eval q i
  | .same _ p q => n.eval p i = n.eval q i
  | .ifFwd _ p q q' => n.eval p i = (if e.isForward then n.eval q i else n.eval q' i)
  | .card _ f g => (e.get f).length = (e.get g).length
  | .memIf _ f kj q => ∀ j ∈ e.get f, (∀ k', kj = some k' → n.kindOf j = some k') → j ∈ n.eval q i

/-- the rule checked on every element of its kind -/
def Rule.check (n : Network) (r : Rule) : Bool := n.forKind r.kind (r.checkAt n)

/-- the rule as a statement about every element of its kind -/
def Rule.Holds (n : Network) (r : Rule) : Prop :=
  ∀ i e, n.elems[i]? = some e → e.kind = r.kind → r.HoldsAt n i e

/-- indices at which a rule fails (diagnostics for the driver) -/
def Rule.failures (n : Network) (r : Rule) : List Nat :=
  (List.range n.elems.size).filter fun i =>
    match n.elems[i]? with
    | some e => decide (e.kind = r.kind) && !r.checkAt n i e
    | none => false

/-! ### The reciprocity rules of property C20

Each rule is named in the comment to its right by the Python attributes it speaks about.  Strict
reciprocity of `successor`/`predecessor` between *different* lanes or roads is not a rule: both
attributes are single-valued while lanes fan in and out at junctions, so the code (by design) keeps
one of several; what is required instead is that lane-level links agree with the lane-section
links, that links inside one road (section chains) are strictly reciprocal, and that maneuvers
tie start, connecting and end lanes to their intersection in both directions. -/
open Kind Field in
def rules : List Rule := [
  -- link values are elements of this network, of the right class
  .typed network roads [road], .typed network connecting [road], .typed network groups [laneGroup],
  .typed network lanes [lane], .typed network intersections [intersection],
  .typed network sidewalks [sidewalk], .typed network shoulders [shoulder],
  .typed network sections [roadSection], .typed network laneSections [laneSection],
  .typed road lanes [lane], .typed road forward [laneGroup], .typed road backward [laneGroup],
  .typed road groups [laneGroup], .typed road sections [roadSection],
  .typed road succ [road, intersection], .typed road pred [road, intersection],
  .typed road sidewalks [sidewalk],
  .typed laneGroup Field.road [road], .typed laneGroup lanes [lane], .typed laneGroup opposite [laneGroup],
  .typed laneGroup Field.sidewalk [sidewalk], .typed laneGroup Field.shoulder [shoulder],
  .typed laneGroup succ [laneGroup, intersection], .typed laneGroup pred [laneGroup, intersection],
  .typed lane group [laneGroup], .typed lane Field.road [road], .typed lane sections [laneSection],
  .typed lane adjacent [lane], .typed lane maneuvers [maneuver], .typed lane succ [lane],
  .typed lane pred [lane],
  .typed roadSection Field.road [road], .typed roadSection lanes [laneSection],
  .typed roadSection forward [laneSection], .typed roadSection backward [laneSection],
  .typed roadSection succ [roadSection, intersection], .typed roadSection pred [roadSection, intersection],
  .typed laneSection Field.lane [lane], .typed laneSection group [laneGroup], .typed laneSection Field.road [road],
  .typed laneSection left [laneSection], .typed laneSection right [laneSection],
  .typed laneSection faster [laneSection], .typed laneSection slower [laneSection],
  .typed laneSection adjacent [laneSection], .typed laneSection succ [laneSection],
  .typed laneSection pred [laneSection],
  .typed intersection roads [road], .typed intersection incoming [lane], .typed intersection outgoing [lane],
  .typed intersection maneuvers [maneuver],
  .typed Kind.sidewalk Field.road [road], .typed Kind.shoulder Field.road [road],
  .typed maneuver start [lane], .typed maneuver conn [lane], .typed maneuver endLane [lane],
  .typed maneuver inter [intersection],
  -- every child has exactly one owner of each level
  .one laneGroup Field.road, .one lane group, .one lane Field.road, .one roadSection Field.road,
  .one laneSection Field.lane, .one laneSection group, .one laneSection Field.road,
  .one Kind.sidewalk Field.road, .one Kind.shoulder Field.road, .one maneuver start, .one maneuver endLane,
  -- ownership: road ⇄ lane group ⇄ lane ⇄ lane section, road ⇄ road section ⇄ lane section
  .link road lanes none [[Field.road]] [[]] .eq,            -- l ∈ r.lanes → l.road is r
  .link road groups none [[Field.road]] [[]] .eq,           -- g ∈ r.laneGroups → g.road is r
  .same road [[groups]] [[forward], [backward]],            -- laneGroups = (forwardLanes, backwardLanes)
  .link laneGroup lanes none [[group]] [[]] .eq,            -- l ∈ g.lanes → l.group is g
  .link laneGroup lanes none [[Field.road]] [[Field.road]] .eq, -- … and l.road is g.road
  .link lane group none [[lanes]] [[]] .into,               -- l ∈ l.group.lanes
  .link lane Field.road none [[lanes]] [[]] .into,          -- l ∈ l.road.lanes
  .link laneGroup Field.road none [[groups]] [[]] .into,    -- g ∈ g.road.laneGroups
  .sub road [[groups, lanes]] [[lanes]], .sub road [[lanes]] [[groups, lanes]],
  .link lane sections none [[Field.lane]] [[]] .eq,         -- s ∈ l.sections → s.lane is l
  .link lane sections none [[group]] [[group]] .eq,         -- … s.group is l.group
  .link lane sections none [[Field.road]] [[Field.road]] .eq, -- … s.road is l.road
  .link laneSection Field.lane none [[sections]] [[]] .into, -- s ∈ s.lane.sections
  .link road sections none [[Field.road]] [[]] .eq,         -- rs ∈ r.sections → rs.road is r
  .link roadSection Field.road none [[sections]] [[]] .into, -- rs ∈ rs.road.sections
  .link roadSection lanes none [[Field.road]] [[Field.road]] .eq, -- lane sections of rs have rs's road
  .same roadSection [[lanes]] [[forward], [backward]],
  .sub laneSection [[]] [[Field.road, sections, lanes]],    -- s lies in a road section of its road
  .link laneGroup Field.sidewalk none [[Field.road]] [[Field.road]] .eq,
  .link laneGroup Field.shoulder none [[Field.road]] [[Field.road]] .eq,
  .same road [[sidewalks]] [[groups, Field.sidewalk]],
  -- the network's aggregate lists are the concatenation of what the roads own
  .same network [[lanes]] [[roads, lanes], [connecting, lanes]],
  .same network [[groups]] [[roads, groups], [connecting, groups]],
  .same network [[laneSections]] [[lanes, sections]],
  .same network [[sections]] [[roads, sections]],
  .same network [[sidewalks]] [[groups, Field.sidewalk]],
  .same network [[shoulders]] [[groups, Field.shoulder]],
  -- opposite lane groups
  .link laneGroup opposite none [[opposite]] [[]] .eq,      -- g.opposite.opposite is g
  .link laneGroup opposite none [[Field.road]] [[Field.road]] .eq,
  .irrefl laneGroup opposite,
  .link road forward none [[opposite]] [[backward]] .eq,    -- forwardLanes.opposite is backwardLanes
  .link road backward none [[opposite]] [[forward]] .eq,
  -- adjacent lanes
  .invIf laneSection left right left,      -- same direction: left.laneToRight is s; opposite: left.laneToLeft is s
  .invIf laneSection right left right,
  .same laneSection [[adjacent]] [[left], [right]],
  .irrefl laneSection adjacent, .irrefl lane adjacent,
  .link laneSection adjacent none [[adjacent]] [[]] .into,  -- adjacency of lane sections is symmetric
  .link lane adjacent none [[adjacent]] [[]] .into,         -- adjacency of lanes is symmetric
  .same lane [[adjacent]] [[sections, adjacent, Field.lane]],
  .link laneSection left none [[Field.road]] [[Field.road]] .eq,
  .link laneSection right none [[Field.road]] [[Field.road]] .eq,
  .sub laneSection [[faster], [slower]] [[left], [right]],
  .sameDir laneSection faster, .sameDir laneSection slower,
  .link laneSection faster none [[slower]] [[]] .eq,        -- s.fasterLane.slowerLane is s
  .link laneSection slower none [[faster]] [[]] .eq,
  .ifFwd laneSection [[group]] [[Field.road, forward]] [[Field.road, backward]],
  .sameDir lane sections,
  -- predecessor / successor
  .link roadSection succ (some roadSection) [[pred]] [[]] .eq,   -- section chains of a road
  .link roadSection pred (some roadSection) [[succ]] [[]] .eq,
  .link roadSection succ (some roadSection) [[Field.road]] [[Field.road]] .eq,
  .sub laneSection [[succ, Field.lane]] [[Field.lane], [Field.lane, succ]],
  .sub laneSection [[pred, Field.lane]] [[Field.lane], [Field.lane, pred]],
  .sub lane [[succ]] [[sections, succ, Field.lane]],        -- lane links agree with lane-section links
  .sub lane [[pred]] [[sections, pred, Field.lane]],
  .link road succ (some intersection) [[roads]] [[]] .into, -- r.successor is I → r ∈ I.roads
  .link road pred (some intersection) [[roads]] [[]] .into,
  .link intersection roads none [[succ], [pred]] [[]] .into, -- r ∈ I.roads → I is r's successor or predecessor
  -- links of lane groups and roads agree with the links of their lanes
  .memIf laneGroup pred (some laneGroup) [[lanes, pred, group]],   -- g.predecessor is the group of a predecessor of one of g's lanes
  .memIf laneGroup succ (some laneGroup) [[lanes, succ, group]],
  .memIf laneGroup succ (some intersection) [[Field.road, succ], [Field.road, pred]], -- … or the intersection its road ends at
  .memIf laneGroup pred (some intersection) [[Field.road, succ], [Field.road, pred]],
  .memIf road pred (some road) [[lanes, pred, Field.road], [lanes, succ, Field.road]],  -- r.predecessor is the road of a linked lane
  .memIf road succ (some road) [[lanes, pred, Field.road], [lanes, succ, Field.road]],
  -- maneuvers
  .link lane maneuvers none [[start]] [[]] .eq,             -- m ∈ l.maneuvers → m.startLane is l
  .link maneuver start none [[maneuvers]] [[]] .into,       -- m ∈ m.startLane.maneuvers
  .link intersection maneuvers none [[inter]] [[]] .eq,     -- m ∈ I.maneuvers → m.intersection is I
  .link maneuver inter none [[maneuvers]] [[]] .into,       -- m ∈ m.intersection.maneuvers
  .card maneuver conn inter,                                -- connecting lane ⇔ intersection
  .link maneuver conn none [[succ]] [[endLane]] .eq,        -- m.connectingLane.successor is m.endLane
  .link maneuver inter none [[incoming]] [[start]] .into,   -- m.startLane ∈ I.incomingLanes
  .link maneuver inter none [[outgoing]] [[endLane]] .into, -- m.endLane ∈ I.outgoingLanes
  .link maneuver inter none [[roads]] [[start, Field.road], [endLane, Field.road]] .into,
  .sub maneuver [[direct]] [[start, succ]],                 -- lane merger: endLane is startLane.successor
  .sub maneuver [[conn, pred]] [[inter, maneuvers, start]], -- the connecting lane's predecessor enters there
  .sub intersection [[incoming, Field.road], [outgoing, Field.road]] [[roads]],
  .sub intersection [[outgoing]] [[maneuvers, endLane]]
]

/-- the Boolean checker of all link rules -/
def linksReciprocal (n : Network) : Bool := rules.all (·.check n)

/-- the ∀-statement of property C20's link clause -/
def Reciprocal (n : Network) : Prop := ∀ r ∈ rules, r.Holds n

end Scenic.Roads
