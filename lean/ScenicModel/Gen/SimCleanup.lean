-- GENERATED from /repo by tools (never hand-edited); regenerated on every check run.
import ScenicModel.Model.Overrides
namespace Scenic.Gen
open Scenic.Overrides
/-- `Simulation.__init__` (order of the `finally` block, `self.agents` before the `try`),
    `DynamicScenario._override` (merge of old values) and `DynamicScenario._stop` (forgets reverted overrides) -/
def simCfg : Cfg :=
  { order := [.destroy, .stopScenarios, .stopBehaviors, .disableProxies, .endSimulation],
    merge := .keepOldest,
    stopClears := true,
    agentsEarly := true,
    destroyGuarded := true }
/-- `DynamicScenario._stop` stops its sub-scenarios before it reverts its own overrides -/
def subsStoppedBeforeRevert : Bool := true
/-- `Simulation._createObject` registers the object and enables its proxy before calling the simulator -/
def proxyBeforeCreate : Bool := true
end Scenic.Gen
