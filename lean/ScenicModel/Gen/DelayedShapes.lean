-- GENERATED from /repo by tools (never hand-edited); regenerated on every check run.
import ScenicModel.Model.Delayed
namespace Scenic.Gen

/-- which operands the constructors of derived DelayedArguments in src/scenic/core/lazy_eval.py collect
    `requiredProperties` from (makeDelayedFunctionCall, DelayedArgument.__call__, makeDelayedOperatorHandler,
    DelayedArgument.__getattr__); every one of them evaluates all its operands with valueInContext -/
def delayedShapes : Scenic.Delayed.Shapes :=
  { fnPos := true, fnKw := true, dcallSelf := true, dcallPos := true, dcallKw := true, opSelf := true, opArgs := true, attrSelf := true }

end Scenic.Gen
