-- GENERATED from /repo by tools (never hand-edited); regenerated on every check run.
import ScenicModel.Model.SimLoop
namespace Scenic.Gen
open Scenic.SimLoop

/-- phases of one iteration of `Simulation._run`, in source order (simulators.py) -/
def runOrder : List Phase :=
  [.scen, .record, .monitors, .retPending, .termSimWhen, .maxSteps, .behaviors, .actions, .simStep, .clock, .update]

/-- checks of `DynamicScenario._step`, in source order (scenarios.py) -/
def stepOrder : List String :=
  ["requirements", "timeLimit", "elapsed", "compose", "composeDone", "terminateWhen"]

/-- the numbered procedure of docs/reference/dynamic_scenarios.rst, by keyword -/
def docOrder : List String :=
  ["scenarios", "record", "monitors", "terminationChecks", "behaviors", "actions", "simulatorStep", "clock", "update", "finish"]

/-- sub-items (a)-(e) of item 1 of the documented procedure -/
def docStepOrder : List String :=
  ["requirements", "timeLimit", "invariants", "compose", "stop"]

/-- comparison operators of the time-limit tests -/
def opScenarioTimeLimit : String := "GtE"   -- self._elapsedTime <op> self._timeLimitInSteps
def opMaxSteps : String := "GtE"            -- self.currentTime <op> maxSteps
def opDoFor : String := "GtE"               -- currentTime - startTime <op> timeLimit
/-- limits given in seconds are divided by the time step -/
def secondsDivide : Bool := true

/-- `_addDynamicRequirement` files every statement kind under the temporal requirements -/
def dynReqAsTemporal : Bool := false
/-- `_runMonitors` hands a sub-scenario monitor's `terminate` up as a termination reason -/
def monTermPropagates : Bool := false

/-- calls of the `try:` body of `Simulation.__init__`, in source order -/
def initOrder : List String :=
  ["begin", "setup", "start", "update", "run", "stopRemaining", "recordFinal", "result"]

/-- `Simulation.recordCurrentState`, in source order (the initial records are guarded by `step == 0`) -/
def recordOrder : List String :=
  ["initial", "series", "trajectory"]

/-- `DynamicScenario._runMonitors`, in source order -/
def monitorsOrder : List String :=
  ["own", "subs", "stopSelf"]

/-- `DynamicScenario._invokeInner`, in source order -/
def invokeOrder : List String :=
  ["start", "assign", "fresh", "stepAll", "keep", "returnIfNone", "yield", "dropStopped"]

/-- `DynamicScenario._stop`, in source order -/
def stopOrder : List String :=
  ["monitors", "clearMonitors", "subs", "iterator", "endScenario"]

/-- `_checkSimulationTerminationConditions` also asks the sub-scenarios / only the running ones -/
def termSimRecurses : Bool := true
def termSimRunningOnly : Bool := true
/-- `_evaluateRecordedExprsAt` asks every scenario of `_subScenarios`, running or not -/
def recordAllSubs : Bool := true
/-- `Behavior._step`: a behavior that has ended yields the empty action tuple -/
def behaviorEndIsEmpty : Bool := true

def sem : Sem := ⟨runOrder⟩
end Scenic.Gen
