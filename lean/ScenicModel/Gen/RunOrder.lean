-- GENERATED from /repo by tools (never hand-edited); regenerated on every check run.
import ScenicModel.Model.SimLoop
namespace Scenic.Gen
open Scenic.SimLoop

/-- phases of one iteration of `Simulation._run`, in source order (simulators.py) -/
def runOrder : List Phase :=
  [.scen, .record, .monitors, .retPending, .termSimWhen, .maxSteps, .behaviors, .actions, .simStep, .clock, .update]

/-- checks of `DynamicScenario._step`, in source order (scenarios.py) -/
def stepOrder : List String :=
  ["requirements", "timeLimit", "elapsed", "compose", "composeDone", "terminateWhen"]

/-- the numbered procedure of docs/reference/dynamic_scenarios.rst, by keyword -/
def docOrder : List String :=
  ["scenarios", "record", "monitors", "terminationChecks", "behaviors", "actions", "simulatorStep", "clock", "update", "finish"]

/-- sub-items (a)-(e) of item 1 of the documented procedure -/
def docStepOrder : List String :=
  ["requirements", "timeLimit", "invariants", "compose", "stop"]

/-- comparison operators of the time-limit tests -/
def opScenarioTimeLimit : String := "GtE"   -- self._elapsedTime <op> self._timeLimitInSteps
def opMaxSteps : String := "GtE"            -- self.currentTime <op> maxSteps
def opDoFor : String := "GtE"               -- currentTime - startTime <op> timeLimit
/-- limits given in seconds are divided by the time step -/
def secondsDivide : Bool := true

/-- `_addDynamicRequirement` files every statement kind under the temporal requirements -/
def dynReqAsTemporal : Bool := false
/-- `_runMonitors` hands a sub-scenario monitor's `terminate` up as a termination reason -/
def monTermPropagates : Bool := false

def sem : Sem := ⟨runOrder, dynReqAsTemporal, monTermPropagates⟩
end Scenic.Gen
