-- GENERATED from /repo by tools (never hand-edited); regenerated on every check run.
import ScenicModel.Model.Expr
namespace Scenic.Gen
open Scenic.Expr

/-- tables of src/scenic/core/distributions.py (makeOperatorHandler, OperatorDistribution.sampleGiven) and
    src/scenic/core/vectors.py (vectorOperator decorators) -/
def exprTables : Tables :=
  { simp := [⟨.add, false, 0⟩, ⟨.add, true, 0⟩, ⟨.sub, false, 0⟩, ⟨.mul, false, 1⟩, ⟨.mul, true, 1⟩, ⟨.truediv, false, 1⟩, ⟨.pow, false, 1⟩],
    vecOps := [(.add, false, true), (.add, true, true), (.sub, false, true), (.sub, true, false), (.mul, false, false), (.truediv, false, false)],
    pythonDispatch := true,
    vecHandlerAcceptsSeq := true,
    vecOpsWrapOperands := true }

/-- `X * globalOrientation -> X` style simplifications on Orientation-typed values: (operator, reflected) -/
def orientationIdentityOps : List (BinOp × Bool) := [(.mul, false), (.mul, true)]
/-- distributionMethod(identity=...) uses in vectors.py: (method, identity) -/
def identityMethods : List (String × String) := [("Orientation.__mul__", "globalOrientation")]

def allowedOperators : List String := ["__neg__", "__pos__", "__abs__", "__round__", "__getitem__", "__len__"]
def reversibleOperators : List String := ["__add__", "__radd__", "__sub__", "__rsub__", "__mul__", "__rmul__", "__truediv__", "__rtruediv__", "__floordiv__", "__rfloordiv__", "__mod__", "__rmod__", "__divmod__", "__rdivmod__", "__pow__", "__rpow__"]
/-- Vector dunder operators defined without a lifting decorator -/
def vectorPlainDunders : List String := ["__rmul__"]
/-- named Vector methods with their lifting decorator -/
def vectorNamedOps : List (String × String) := [("applyRotation", "vectorOperator"), ("sphericalCoordinates", "vectorOperator"), ("rotatedBy", "zeroPreservingVectorOperator"), ("offsetRotated", "vectorOperator"), ("offsetLocally", "vectorOperator"), ("offsetRadially", "vectorOperator"), ("distanceTo", "scalarOperator"), ("angleTo", "scalarOperator"), ("azimuthTo", "scalarOperator"), ("altitudeTo", "scalarOperator"), ("angleWith", "scalarOperator"), ("norm", "scalarOperator"), ("dot", "scalarOperator"), ("cross", "vectorOperator"), ("normalized", "vectorOperator")]
/-- `scalarOperator` (distanceTo, angleTo, norm, dot, ...) samples a Vector with random coordinates it is applied to
    (3b90c565); these operators are outside the Lean model, the flag is re-decided by `gen_scalar_operator_samples_self` -/
def scalarOperatorSamplesSelf : Bool := true
/-- MultiplexerDistribution keeps its selector in a private attribute (e1aeac6d: `self.index` shadowed the `index`
    method of the sampled tuples/lists/strings) -/
def multiplexerSelectorAttr : String := "_index"
def multiplexerSelectorPrivate : Bool := true
/-- functions of geometry.py declared `monotonicDistributionFunction` -/
def monotoneDeclared : List String := ["max", "min"]

end Scenic.Gen
