-- GENERATED from /repo by tools (never hand-edited); regenerated on every check run.
import ScenicModel.Model.Support
namespace Scenic.Gen
open Scenic.Support

/-- the formulas of `OperatorDistribution.supportInterval` (src/scenic/core/distributions.py) -/
def supportFormulas : Formulas :=
  {
    add := fun l1 r1 l2 r2 => (some ((l1 + l2)), some ((r1 + r2))),
    sub := fun l1 r1 l2 r2 => (some ((l1 - r2)), some ((r1 - l2))),
    rsub := fun l1 r1 l2 r2 => (some ((l2 - r1)), some ((r2 - l1))),
    mul := fun l1 r1 l2 r2 => (some ((rmin4 (l1 * l2) (l1 * r2) (r1 * l2) (r1 * r2))), some ((rmax4 (l1 * l2) (l1 * r2) (r1 * l2) (r1 * r2)))),
    truediv := fun l1 r1 l2 r2 => ((if l2 > (0 : Rat) then some ((if l1 ≥ (0 : Rat) then (l1 / r2) else (l1 / l2))) else none), (if l2 > (0 : Rat) then some ((if r1 ≥ (0 : Rat) then (r1 / l2) else (r1 / r2))) else none)),
    rtruediv := fun l1 r1 l2 r2 => ((if l1 > (0 : Rat) then some ((if l2 ≥ (0 : Rat) then (l2 / r1) else (l2 / l1))) else none), (if l1 > (0 : Rat) then some ((if r2 ≥ (0 : Rat) then (r2 / l1) else (r2 / r1))) else none)),
    neg := fun l r => (some ((-r)), some ((-l))),
    abs := fun l r => (some ((if r < (0 : Rat) then (-r) else (if l < (0 : Rat) then (0 : Rat) else l))), some ((if r < (0 : Rat) then (-l) else (if l < (0 : Rat) then (rmax (-l) r) else r)))),
    hypAbs := fun l r => ((if r < (0 : Rat) then (-r) else (if l < (0 : Rat) then (0 : Rat) else l)), (if r < (0 : Rat) then (-l) else (if l < (0 : Rat) then (if (-l) > r then (-l) else r) else r))),
    binOps := [(.add, false, .add), (.add, true, .add), (.sub, false, .sub), (.sub, true, .rsub), (.mul, false, .mul), (.mul, true, .mul), (.truediv, false, .truediv), (.truediv, true, .rtruediv)],
    unOps := [(.neg, .neg), (.abs, .abs)] }

end Scenic.Gen
