-- GENERATED from /repo by tools (never hand-edited); regenerated on every check run.
import ScenicModel.Model.ChooseSelect
namespace Scenic.Gen
/-- constants read from `_invokeSubBehavior.pickEnabledInvocable` / the shuffle branch / `Options.__init__`
(reference values for a function whose shape did not match its template on this run) -/
def chooseConfig : Scenic.Choose.Config :=
  { defaultWeight := 1, shortcutLen := 1, shortcutIdx := 0, dropZero := true,
    copyOperand := true }
/-- integer constants of `Options.__init__` (`len(options) - highOff`), `Options.makeSelector` (`DiscreteRange(selLow, …)`),
`DiscreteRange.__init__` (`range(low, high + rangeOff)`) and `DiscreteRange.sampleGiven` (`choices(…)[takeIdx]`) -/
def selectConfig : Scenic.Choose.SelectConfig :=
  { highOff := 1, selLow := 0, rangeOff := 1, takeIdx := 0 }
/-- functions whose statement-by-statement shape matched the model's template on this run (informational) -/
def chooseMatchedShapes : List String := ["Invocable._runSubBehavior", "Invocable._invokeSubBehavior", "Invocable._isEnabledForAgent", "Options.__init__", "Options.makeSelector", "DiscreteRange.__init__", "DiscreteRange.sampleGiven", "MultiplexerDistribution.__init__", "MultiplexerDistribution.sampleGiven", "Uniform", "Distribution.__new__", "visit_DoChoose", "visit_DoShuffle", "makeDoLike"]
end Scenic.Gen
