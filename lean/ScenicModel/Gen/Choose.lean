-- GENERATED from /repo by tools (never hand-edited); regenerated on every check run.
import ScenicModel.Model.Choose
namespace Scenic.Gen
def chooseConfig : Scenic.Choose.Config :=
  { defaultWeight := 1, shortcutLen := 1, shortcutIdx := 0, dropZero := true }
end Scenic.Gen
