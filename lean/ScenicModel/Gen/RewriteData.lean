-- GENERATED from /repo by tools (never hand-edited); regenerated on every check run.
import ScenicModel.Model.Rewrites
/-! Data of the documented rewrites, extracted from src/scenic/syntax/compiler.py
    (trackedNames, globalParametersName, builtinNames, visit_Name, visit_Call, visit_ClassDef). -/
namespace Scenic.Gen.RewriteData
open Scenic.Rewrites

def cfg : Cfg where
  tracked := ["ego", "workspace"]
  globalParams := "globalParameters"
  builtin := ["float", "globalParameters", "int", "str"]
  lifted := [("float", "_toFloatScenic"), ("int", "_toIntScenic"), ("str", "_toStrScenic")]
  wrapStar := "wrapStarredValue"
  callStar := "callWithStarArgs"
  defaultBase := "Object"
  propTable := "_scenic_properties"
  annAssignRejected := true

end Scenic.Gen.RewriteData
