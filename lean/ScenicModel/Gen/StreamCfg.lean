-- GENERATED from /repo by tools (never hand-edited); regenerated on every check run.
import ScenicModel.Model.ReplayStream
namespace Scenic.Gen
/-- `Serializer.sceneFormatVersion()` -/
def sceneVersion : Nat := 3
/-- `Serializer.replayFormatVersion()`, bit of `ReplayMode.checkDivergence` -/
def streamFmt : Scenic.ReplayStream.Fmt := ⟨2, 1⟩
/-- widths written by `writeScene`: version (struct format), asserted AST-hash and options-hash lengths -/
def sceneWriteWidths : List Nat := [2, 4, 4]
/-- widths read by `readScene` -/
def sceneReadWidths : List Nat := [2, 4, 4]
/-- widths written by `writeReplayHeader` (version, flags) / read by `readReplayHeader` -/
def replayWriteWidths : List Nat := [2, 4]
def replayReadWidths : List Nat := [2, 4]
/-- `readScene`: version field length-checked, other version refused, both hashes compared with `!=` under `verify` -/
def sceneHeaderChecked : Bool := true
/-- `readReplayHeader`: both fields length-checked before `struct.unpack`, other version refused -/
def replayHeaderChecked : Bool := true
/-- `initializeReplay`: `_checkDivergence` of the replaying run comes from the flags of the replay header -/
def flagFromHeader : Bool := true
/-- `initializeReplay`: the header flag is set exactly when `_writeDivergenceData` is, and that header is written -/
def flagIffDivergenceData : Bool := true
end Scenic.Gen
