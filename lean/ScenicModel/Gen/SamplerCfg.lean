-- GENERATED from /repo by tools (never hand-edited); regenerated on every check run.
import ScenicModel.Model.Sampler
namespace Scenic.Gen
open Scenic.Sampler
/-- constants of `DiscreteRange.sampleGiven`, `Options.__init__`, `UniformDistribution.__init__` (distributions.py)
    and `Scenario._generateInner` (scenarios.py) -/
def samplerCfg : Cfg :=
  { lowRound := .ceil, highRound := .floor, emptyStrict := true,
    selLo := 0, selHiOff := (-1), dynSelLo := 0, dynSelHiOff := (-1),
    actCmp := .le, actOneMinus := false, iterStart := 0, stopCmp := .ge }
end Scenic.Gen
