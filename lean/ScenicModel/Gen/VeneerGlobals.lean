-- GENERATED from /repo by tools (never hand-edited); regenerated on every check run.
import ScenicModel.Model.Veneer
namespace Scenic.Gen
open Scenic.Veneer

/-- module-level initial values of the interpreter state of `scenic.syntax.veneer` -/
def veneerInitial : List (String × GVal) :=
  [("Object", .orig),
   ("OrientedPoint", .orig),
   ("Point", .orig),
   ("_globalParameters", .empty),
   ("activity", .zero),
   ("currentBehavior", .none),
   ("currentScenario", .none),
   ("currentSimulation", .none),
   ("evaluatingGuard", .false_),
   ("evaluatingRequirement", .false_),
   ("inInitialScenario", .true_),
   ("loadingModel", .false_),
   ("lockedModel", .none),
   ("lockedParameters", .empty),
   ("mode2D", .false_),
   ("runningScenarios", .empty),
   ("scenarioStack", .empty),
   ("scenarios", .empty),
   ("simulatorFactory", .none)]

/-- `with veneer.executeIn*(…)` blocks whose body yields (held open by a suspended generator) -/
def veneerSuspended : List String := []

def simTables : Tables :=
  { initial := veneerInitial,
    openWrites := ["currentSimulation", "currentScenario", "runningScenarios", "inInitialScenario", "_globalParameters", "mode2D", "Point", "OrientedPoint", "Object"],
    closeResets := [("currentSimulation", .none), ("currentScenario", .none), ("runningScenarios", .empty), ("currentBehavior", .none), ("inInitialScenario", .true_), ("_globalParameters", .empty), ("mode2D", .false_), ("Point", .orig), ("OrientedPoint", .orig), ("Object", .orig)],
    plains := [("finishScenarioSetup", ["inInitialScenario"]), ("startScenario", ["runningScenarios"]), ("endScenario", ["runningScenarios"])],
    cms := [{ name := "executeInRequirement", writes := ["evaluatingRequirement", "currentScenario"], restores := [("evaluatingRequirement", Restore.const .false_), ("currentScenario", Restore.saved)] },
            { name := "executeInScenario", writes := ["currentScenario", "_globalParameters"], restores := [("currentScenario", Restore.saved), ("_globalParameters", Restore.saved)] },
            { name := "executeInBehavior", writes := ["currentBehavior"], restores := [("currentBehavior", Restore.saved)] },
            { name := "executeInGuard", writes := ["evaluatingGuard"], restores := [("evaluatingGuard", Restore.const .false_)] },
            { name := "instantiateSimulator", writes := ["_globalParameters"], restores := [("_globalParameters", Restore.const .empty)] }],
    suspended := veneerSuspended }

def compileTables : Tables :=
  { initial := veneerInitial,
    openWrites := ["_globalParameters", "lockedParameters", "lockedModel", "mode2D", "Point", "OrientedPoint", "Object", "activity", "scenarioStack", "currentScenario"],
    closeResets := [("activity", .zero), ("scenarioStack", .empty), ("scenarios", .empty), ("lockedParameters", .empty), ("lockedModel", .none), ("currentScenario", .none), ("simulatorFactory", .none), ("_globalParameters", .empty), ("inInitialScenario", .true_), ("mode2D", .false_), ("Point", .orig), ("OrientedPoint", .orig), ("Object", .orig)],
    plains := [("finishScenarioSetup", ["inInitialScenario"]), ("registerDynamicScenarioClass", ["scenarios"]), ("simulator", ["simulatorFactory"]), ("param", ["_globalParameters"])],
    cms := [{ name := "executeInRequirement", writes := ["evaluatingRequirement", "currentScenario"], restores := [("evaluatingRequirement", Restore.const .false_), ("currentScenario", Restore.saved)] },
            { name := "executeInScenario", writes := ["currentScenario", "_globalParameters"], restores := [("currentScenario", Restore.saved), ("_globalParameters", Restore.saved)] },
            { name := "model", writes := ["loadingModel"], restores := [("loadingModel", Restore.const .false_)] },
            { name := "instantiateSimulator", writes := ["_globalParameters"], restores := [("_globalParameters", Restore.const .empty)] },
            { name := "activateNested", writes := ["_globalParameters", "lockedParameters", "lockedModel", "mode2D", "Point", "OrientedPoint", "Object", "activity", "scenarioStack", "currentScenario"], restores := [("activity", Restore.saved), ("scenarioStack", Restore.saved), ("currentScenario", Restore.saved), ("scenarios", Restore.const .empty)] }],
    suspended := veneerSuspended }

end Scenic.Gen
