-- GENERATED from /repo by tools (never hand-edited); regenerated on every check run.
import ScenicModel.Model.Visibility
namespace Scenic.Gen
open Scenic.Vis

/-- choices of the point branch of `visibility.canSee` (src/scenic/core/visibility.py) -/
def visCfg : Cfg :=
  { translateFirst := true,
    rayRotatedBack := true,
    distRejectBeyond := true,
    azNum := 1,
    azDen := 0,
    azQuarter := (-1),
    altComp := 2,
    azAngleIdx := 0,
    altAngleIdx := 1,
    occBlockIfCloser := true,
    occFilterWithin := true }

/-- shape of the object branch of `visibility.canSee` -/
def visObjCfg : ObjCfg :=
  { centreShortcut := true,
    distRejectBeyond := true,
    translateFirst := true,
    rayFormula := true,
    rayRotatedBack := true,
    hitRejectBeyond := true,
    occBlockIfCloser := true,
    closestHit := true,
    survivorVisible := true }

/-- choices of `Point/OrientedPoint/Object.canSee`, `visibleRegion`, `CanSee`, `VisibilityRequirement` -/
def visWrapCfg : WrapCfg :=
  { objCamOffsetLocal := true,
    objRegionSameCam := true,
    orientedPassOrientation := true,
    orientedCamIsPosition := true,
    pointFullSphere := true,
    passVisibleDistance := true,
    opOccludersFiltered := true,
    reqOccludersFiltered := true,
    pointRegionDiamFactor := 2,
    viewRegionDiamFactor := 2,
    viewRegionWithinSphere := true }

/-- choices of the 2D compatibility mode (`Point2D.canSee`, the 2D `visibleRegion`s, `SectorRegion.containsPoint`,
    `geometry.pointIsInCone`, `Vector.rotatedBy`) -/
def visCfg2D : Cfg2D :=
  { fastPathWithoutOccluders := true,
    pointViaRegion := true,
    discArgs := true,
    sectorArgs := true,
    objCamOffsetRotated := true,
    rotatedByCCW := true,
    planarOnly := true,
    distWithin := true,
    coneNum := 1,
    coneDen := 0,
    coneQuarter := (-1),
    coneHalfAngle := true }

end Scenic.Gen
