-- GENERATED from /repo by tools (never hand-edited); regenerated on every check run.
import ScenicModel.Model.LTL
namespace Scenic.Gen.LTL
open Scenic.LTL

/-- `UntilMonitor._evaluate_at` of the installed rv_ltl scans `range(i, min(i + k, last))` -/
def monCfg : MonCfg := { untilShift := true }

/-- acceptance rule of dynamics/scenarios.py `_step`/`_stop`, requirements.py `MonitorRequirement`,
    `CompiledRequirement.falsifiedByInner`, `_addDynamicRequirement` -/
def rule : Rule :=
  { stepReject := [1],
    stopReject := [1, 2],
    initLast := 4,
    sceneReject := [1],
    dynReject := some [1],
    impliesEval := true }

/-- propositions.py: Scenic proposition class -> (rv_ltl constructor, positions of the operands passed) -/
def ctorMap : List (String × String × List Nat) :=
  [("Always", "Always", [0]),
   ("Eventually", "Eventually", [0]),
   ("Next", "Next", [0]),
   ("Not", "Not", [0]),
   ("And", "And", []),
   ("Or", "Or", []),
   ("Until", "Until", [0, 1]),
   ("Implies", "Implies", [0, 1])]

/-- propositions.py: classes that set `is_temporal` -/
def temporalClasses : List String := ["Always", "Eventually", "Next", "Until"]

/-- propositions.py `PropositionMonitor.update`: the value of an atom is coerced with `bool()` before it is handed to rv_ltl -/
def atomCoerce : Bool := true

/-- propositions.py: the normalised body of `evaluate()` of each non-temporal class -/
def evalForms : List (String × String) :=
  [("Atomic", "closure()"), ("Not", "not x"), ("And", "all"), ("Or", "any"), ("Implies", "(not x) or y")]

/-- rv_ltl/monitor.py: sugar monitors as (class, expansion) -/
def sugar : List (String × String) :=
  [("Eventually", "Until(True,x)"),
   ("Always", "Not(Eventually(Not(x)))"),
   ("Implies", "Or(Not(x),y)")]

end Scenic.Gen.LTL
