-- GENERATED from /repo by tools (never hand-edited); regenerated on every check run.
import ScenicModel.Model.Dispatch
namespace Scenic.Gen.RegionOps
open Scenic.Region

/-- facts read off the point predicates of src/scenic/core/regions.py -/
def flags : Flags :=
  { polyTrueChecksZ := true,
    polyDistZ := .selfZ,
    polyAABBZ := .selfZ,
    polyContainsRegionChecksZ := true,
    discContainsChecksZ := true,
    discDistPlane := .selfZ,
    discAABBZ := .selfZ,
    lineContainsChecksZ := true,
    projectAxis1 := true,
    fromShapelyPassesZ := true,
    compTrueStructural := true }

/-- the `isinstance` chains of every class's intersect / union / difference / intersects, in source order -/
def clsTable : Kind → Op → Option (List Clause)
  | .all, .intersect => some [⟨[], .run .retOther⟩]
  | .all, .intersects => some [⟨[], .run .otherNotEmpty⟩]
  | .all, .union => some [⟨[], .run .retSelf⟩]
  | .disc, .intersects => some [⟨[.isKind .disc, .zNe], .run .retFalse⟩, ⟨[.isKind .disc], .run .discIntersects⟩, ⟨[], .super⟩]
  | .empty, .difference => some [⟨[], .run .retSelf⟩]
  | .empty, .intersect => some [⟨[], .run .retSelf⟩]
  | .empty, .intersects => some [⟨[], .run .retFalse⟩]
  | .empty, .union => some [⟨[], .run .retOther⟩]
  | .foot, .difference => some [⟨[.isKind .foot], .run .footSub⟩, ⟨[], .super⟩]
  | .foot, .intersect => some [⟨[.isKind .foot], .run .footAnd⟩, ⟨[.isKind .poly], .liftSelf .otherZ⟩, ⟨[.isKind .path], .run .footPathClip⟩, ⟨[], .super⟩]
  | .foot, .union => some [⟨[.isKind .foot], .run .footOr⟩, ⟨[], .super⟩]
  | .line, .difference => some [⟨[.hasPoly, .isKind .poly, .otherElev], .run .retSelf⟩, ⟨[.hasPoly], .run .lineSub⟩, ⟨[], .super⟩]
  | .line, .intersect => some [⟨[.hasPoly, .isKind .poly, .otherElev], .super⟩, ⟨[.hasPoly], .run .lineAnd⟩, ⟨[], .super⟩]
  | .line, .intersects => some [⟨[.hasPoly, .isKind .poly, .otherElev], .run .retFalse⟩, ⟨[.hasPoly], .run .lineIntersects⟩, ⟨[], .super⟩]
  | .poly, .difference => some [⟨[.lzy], .super⟩, ⟨[.isKind .poly, .zNe], .run .retSelf⟩, ⟨[.isKind .line, .selfElev], .run .retSelf⟩, ⟨[.hasPoly], .run (.polySub true)⟩, ⟨[], .super⟩]
  | .poly, .intersect => some [⟨[.lzy], .super⟩, ⟨[.isKind .poly, .zNe], .run .retNowhere⟩, ⟨[.isKind .line, .selfElev], .run .retNowhere⟩, ⟨[.hasPoly], .run (.polyAnd true)⟩, ⟨[], .super⟩]
  | .poly, .intersects => some [⟨[.isKind .poly, .zNe], .run .retFalse⟩, ⟨[.isKind .line, .selfElev], .run .retFalse⟩, ⟨[.hasPoly], .run .polyIntersects⟩, ⟨[], .super⟩]
  | .poly, .union => some [⟨[.lzy], .super⟩, ⟨[.notKind .poly], .super⟩, ⟨[.isKind .poly, .zNe], .super⟩, ⟨[.hasPoly], .run (.polyOr true)⟩, ⟨[], .super⟩]
  | .pts, .intersect => some [⟨[.isKind .pts], .run .ptsFilter⟩, ⟨[.notTried], .retryFresh⟩, ⟨[], .run .ptsSampler⟩]
  | .pts, .intersects => some [⟨[], .run .ptsAnyTrue⟩]
  | .surf, .intersects => some [⟨[.isKind .surf], .run .surfSurfIntersects⟩, ⟨[.isKind .foot], .run .surfFootIntersects⟩, ⟨[], .super⟩]
  | .vol, .difference => some [⟨[.lzy], .super⟩, ⟨[.isKind .vol], .run .volSub⟩, ⟨[.isKind .foot], .run .volFootSub⟩, ⟨[], .super⟩]
  | .vol, .intersect => some [⟨[.lzy], .super⟩, ⟨[.isKind .vol], .run .volAnd⟩, ⟨[.isKind .foot], .run .volFootAnd⟩, ⟨[.isKind .poly], .run (.volSlice .otherZ .otherZ)⟩, ⟨[.isKind .path], .run .volPathClip⟩, ⟨[.isKind .line], .run .volLineClip⟩, ⟨[], .super⟩]
  | .vol, .intersects => some [⟨[.isKind .vol], .run .volVolIntersects⟩, ⟨[.isKind .surf], .run .volSurfIntersects⟩, ⟨[.isKind .foot], .run .volFootIntersects⟩, ⟨[], .super⟩]
  | .vol, .union => some [⟨[.lzy], .super⟩, ⟨[.isKind .vol], .run .volOr⟩, ⟨[], .super⟩]
  | _, _ => none

/-- the generic methods of `Region` -/
def genericTable : Op → List Clause
  | .intersect => [⟨[.tried], .compose⟩, ⟨[], .reverse⟩]
  | .union => [⟨[.tried], .compose⟩, ⟨[], .reverse⟩]
  | .difference => [⟨[.isKind .empty], .run .retSelf⟩, ⟨[.isKind .all], .run .retNowhere⟩, ⟨[], .compose⟩]
  | .intersects => [⟨[.tried], .viaIntersect⟩, ⟨[], .reverse⟩]

def table : Table := ⟨clsTable, genericTable⟩

/-- src/scenic/core/workspaces.py: which region methods of `Workspace` hand the call on to `self.region` -/
def workspace : List Delegation :=
  [⟨"intersect", true⟩, ⟨"intersects", true⟩, ⟨"difference", true⟩, ⟨"union", true⟩, ⟨"containsPoint", true⟩, ⟨"containsObject", true⟩, ⟨"containsRegionInner", true⟩, ⟨"distanceTo", true⟩, ⟨"projectVector", true⟩, ⟨"uniformPointInner", true⟩, ⟨"AABB", true⟩, ⟨"dimensionality", true⟩, ⟨"size", true⟩]

end Scenic.Gen.RegionOps
