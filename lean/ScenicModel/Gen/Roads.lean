-- GENERATED from /repo by tools (never hand-edited); regenerated on every check run.
import ScenicModel.Model.RoadLookup
import ScenicModel.Model.RoadDirection
import ScenicModel.Model.RoadCache
import ScenicModel.Model.RoadAdjacency
namespace Scenic.Gen.Roads
open Scenic.Roads Scenic.RoadCache

/-- passes of `Network.findPointIn` (roads.py): exact, then tolerant guarded by `self.tolerance > 0` -/
def passes : List Pass := [.exact, .tolerant]

/-- the element lists searched by the `…At` methods of `Network`, in order (`_topLevelElements`,
`_nominalDirElems` and `allRoads` expanded) -/
def lookups : List (String × LookupDef) := [
  ("elementAt", { first := [[.intersections], [.roads], [.shoulders], [.sidewalks]] }),
  ("roadAt", { first := [[.roads], [.connecting]] }),
  ("laneAt", { first := [[.lanes]] }),
  ("laneSectionAt", { first := [[.lanes]], child := some [[.sections]] }),
  ("laneGroupAt", { first := [[.roads], [.connecting]], child := some [[.groups]] }),
  ("intersectionAt", { first := [[.intersections]] }),
  ("sidewalkAt", { first := [[.sidewalks]] }),
  ("shoulderAt", { first := [[.shoulders]] }),
  ("nominalDirElem", { first := [[.intersections], [.roads], [.shoulders]] })
]

/-- header of the `.snet` cache: `_currentFormatVersion`, the three reads of `fromPickle`, the exception
raised by each check, the exception classes caught by `fromFile` -/
def cacheCfg : Cfg :=
  { formatVersion := 35, versionBytes := 4, digestBytes := 64, optionsBytes := 8,
    shortErr := .unpickling, versionErr := .unpickling, digestErr := .digestMismatch,
    optionsErr := .digestMismatch, payloadErr := .unpickling,
    caught := [.unpickling, .digestMismatch] }

/-- separators of `deterministicHash` (serialization.py) -/
def hashCfg : HashCfg := { sepKey := [0, 75], sepVal := [0, 86], placeholder := [0] }

/-- the `…At` methods of network elements: class, list searched, second stage -/
def elemLookups : List (String × ElemLookup) := [
  ("Road.sectionAt", { owner := .road, first := .sections }),
  ("Road.laneAt", { owner := .road, first := .lanes }),
  ("Road.laneGroupAt", { owner := .road, first := .groups }),
  ("LaneGroup.laneAt", { owner := .laneGroup, first := .lanes }),
  ("Lane.sectionAt", { owner := .lane, first := .sections }),
  ("RoadSection.laneAt", { owner := .roadSection, first := .lanes }),
  ("Road.laneSectionAt", { owner := .road, first := .lanes, child := some .sections })
]

/-- `Road._defaultHeadingAt` -> `laneGroupAt`, `LaneGroup._defaultHeadingAt` -> `laneAt`: the lists through which the
heading of a road descends to a lane (every method involved has the reference shape) -/
def headingChain : List (Kind × Field) := [(.road, .groups), (.laneGroup, .lanes)]

/-- the front of `Network.fromFile`: keys of `handlers` in order, the errors for "nothing found" / "unknown extension" -/
def pathCfg : PathCfg :=
  { handlerOrder := [.map, .pickled], notFoundErr := .fileNotFound, unknownErr := .valueError }

/-- xodr_parser.py `Road.toScenicRoad`: the `leftID` / `rightID` chains and the faster / slower assignment -/
def adjCfg : Scenic.RoadAdj.Cfg :=
  { left := [(.lt (-1), .add 1), (.eq (-1), .const 1), (.eq 1, .const (-1)), (.otherwise, .add (-1))],
    right := [(.lt 0, .add (-1)), (.otherwise, .add 1)],
    fasterIsLeftOnRight := true, dropOpposite := true }

end Scenic.Gen.Roads
