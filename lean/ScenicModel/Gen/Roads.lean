-- GENERATED from /repo by tools (never hand-edited); regenerated on every check run.
import ScenicModel.Model.RoadLookup
import ScenicModel.Model.RoadCache
namespace Scenic.Gen.Roads
open Scenic.Roads Scenic.RoadCache

/-- passes of `Network.findPointIn` (roads.py): exact, then tolerant guarded by `self.tolerance > 0` -/
def passes : List Pass := [.exact, .tolerant]

/-- the element lists searched by the `…At` methods of `Network`, in order (`_topLevelElements`,
`_nominalDirElems` and `allRoads` expanded) -/
def lookups : List (String × LookupDef) := [
  ("elementAt", { first := [[.intersections], [.roads], [.shoulders], [.sidewalks]] }),
  ("roadAt", { first := [[.roads], [.connecting]] }),
  ("laneAt", { first := [[.lanes]] }),
  ("laneSectionAt", { first := [[.lanes]], child := some [[.sections]] }),
  ("laneGroupAt", { first := [[.roads], [.connecting]], child := some [[.groups]] }),
  ("intersectionAt", { first := [[.intersections]] }),
  ("sidewalkAt", { first := [[.sidewalks]] }),
  ("shoulderAt", { first := [[.shoulders]] }),
  ("nominalDirElem", { first := [[.intersections], [.roads], [.shoulders]] })
]

/-- header of the `.snet` cache: `_currentFormatVersion`, the three reads of `fromPickle`, the exception
raised by each check, the exception classes caught by `fromFile` -/
def cacheCfg : Cfg :=
  { formatVersion := 35, versionBytes := 4, digestBytes := 64, optionsBytes := 8,
    shortErr := .unpickling, versionErr := .unpickling, digestErr := .digestMismatch,
    optionsErr := .digestMismatch, payloadErr := .unpickling,
    caught := [.unpickling, .digestMismatch] }

/-- separators of `deterministicHash` (serialization.py) -/
def hashCfg : HashCfg := { sepKey := [0, 75], sepVal := [0, 86], placeholder := [0] }

end Scenic.Gen.Roads
