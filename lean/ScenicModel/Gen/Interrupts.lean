-- GENERATED from /repo by tools (never hand-edited); regenerated on every check run.
import ScenicModel.Model.Interrupts
namespace Scenic.Gen
open Scenic.Interrupts
def interruptCfg : Cfg :=
  { condsReversed := true, handlersReversed := true, useEnabled := true, useRunning := true,
    firstWins := true, finishedContinues := true, tiCheck := true, tiCheckSkipsSub := false,
    checkAfterInvoke := true, checkBeforeInvoke := false, startPre := true, startInv := true,
    stopInFinally := true, nestedFlow := false, nestedNames := false }
end Scenic.Gen
