-- GENERATED from /repo by tools (never hand-edited); regenerated on every check run.
import ScenicModel.Model.Interrupts
namespace Scenic.Gen
open Scenic.Interrupts
/-- shape of runTryInterrupt / visit_TryInterrupt / generateInvocation / _checkAllPreconditions / _invokeInner -/
def interruptCfg : Cfg :=
  { condsReversed := true,
    handlersReversed := true,
    useEnabled := true,
    useRunning := true,
    firstWins := true,
    finishedContinues := true,
    tiCheck := true,
    tiCheckSkipsSub := true,
    checkAfterInvoke := true,
    checkBeforeInvoke := false,
    startPre := true,
    startInv := true,
    stopInFinally := true,
    nestedFlow := true,
    nestedNames := true,
    closeBlocks := true }
/-- the invariant re-check of runTryInterrupt and the check emitted by generateInvocation pass the agent -/
def tiCheckPassesAgent : Bool := true
end Scenic.Gen
