-- GENERATED from /repo by tools (never hand-edited); regenerated on every check run.
namespace Scenic.Gen
/-- the scalar branch of `Simulation.valuesHaveDiverged` computes `abs(actual - expected)` -/
def divergenceUsesAbs : Bool := true
end Scenic.Gen
