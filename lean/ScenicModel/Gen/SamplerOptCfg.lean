-- GENERATED from /repo by tools (never hand-edited); regenerated on every check run.
import ScenicModel.Model.SamplerOptions
namespace Scenic.Gen
open Scenic.Sampler
/-- constants of the dict branch of `Options.__init__` (distributions.py) -/
def optCfg : OptCfg :=
  { negCmp := .lt, negConst := 0, skipCmp := .eq, skipConst := 0,
    emptyCmp := .eq, emptyConst := 0 }
end Scenic.Gen
