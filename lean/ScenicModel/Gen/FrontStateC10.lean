-- GENERATED from /repo by tools (never hand-edited); regenerated on every check run.
import ScenicModel.Model.FrontState
namespace Scenic.Gen
open Scenic.FrontState
/-- tracked veneer globals (index = position) -/
def frontGlobalNames : List String := ["_globalParameters", "constructibles", "currentBehavior", "currentScenario", "currentSimulation", "evaluatingGuard", "evaluatingRequirement", "inInitialScenario", "loadingModel", "lockedModel", "lockedParameters", "mode2D", "runningScenarios", "scenarios", "simulatorFactory"]
/-- compile-time writers found in veneer.py: _globalParameters <- param; inInitialScenario <- finishScenarioSetup; scenarios <- registerDynamicScenarioClass; simulatorFactory <- simulator -/
def frontData : Data where
  nGlobals := 15
  overrideWrites := [0, 9, 10]
  mode2DWrites := [1, 11]
  activateAlways := [3]
  compileWrites := [0, 7, 13, 14]
  resetAlways := [13]
  resetAtZero := [0, 1, 3, 7, 9, 10, 11, 14]
  mode2DIdx := 11
  mode2DReset := true
  sfsGuarded := true
end Scenic.Gen
