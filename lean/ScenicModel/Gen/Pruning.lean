-- GENERATED from /repo by tools (never hand-edited); regenerated on every check run.
import ScenicModel.Model.Pruning
namespace Scenic.Gen
open Scenic.Pruning

/-- relations.py: RequirementMatcher.matchBoundsInner / matchAbsBounds -/
def pruneDispatch : Dispatch :=
  { swapOps := [(.gt, .lt), (.gtE, .ltE)], boundOps := [.lt, .ltE, .eq], eqOps := [.eq],
    absGuardFirst := true, absPlain := ((-1), 1),
    absAdd := (((-1), (-1)), (1, (-1))),
    absSub := (((-1), 1), (1, 1)) }

/-- pruning.py: tail of relativeHeadingRange -/
def rhConfig : RHConfig :=
  { normalizeResult := true, wideFallback := true, wrapFallback := true }

/-- pruning.py: feasibleRHPolygon returns None when a width is `>=` (true) / `>` (false) a full turn -/
def rhGuardInclusive : Bool := true

/-- pruning.py: feasibleRHPolygon keeps a cell pair when `upper ⟨op1⟩ lowerBound ⟨and|or⟩ lower ⟨op2⟩ upperBound` -/
def rhOverlapOps : CmpOp × CmpOp := (.gtE, .ltE)
def rhOverlapConj : Bool := true

/-- pruning.py: PRUNING_PITCH -/
def pruningPitch : Rat := 3/20

/-- pruning.py pruneContainment: `(maxErosion := minRadius - maxDistance) > 0` -/
def erosionUsesDifference : Bool := true

/-- pruning.py pruneContainment: the `while eroded_container is None` loop -/
def erodeLoop : RetryCfg :=
  { passesCurrentPitch := true, calleeTotalAtMax := false, breaksAtMax := true }

/-- pruning.py pruneVisibility.bufferHelper: `buffer_quantity = obj.radius + maxDistance` -/
def visibilityBufferIsSum : Bool := true

/-- pruning.py bufferHelper loop (the callee has a BoxRegion fast path at pitch >= 1) -/
def bufferLoop : RetryCfg :=
  { passesCurrentPitch := true, calleeTotalAtMax := true, breaksAtMax := false }

/-- regions.py _erodeOverapproximate: `math.floor(maxErosion / math.hypot(*([p] * n))) - k` -/
def erodeCount : ErodeCountCfg := { hypotDims := 3, minus := 1, usesTargetPitch := true }

/-- regions.py _erodeOverapproximate: `dilation(iterations=-iterations)` -/
def erodeNegates : Bool := true

/-- regions.py _bufferOverapproximate: `math.ceil(minBuffer / p) + k` -/
def dilateCount : DilateCountCfg := { plus := 1, usesTargetPitch := true }

/-- regions.py VoxelRegion.dilation pads the dense grid by the number of passes before dilating -/
def dilationPads : Bool := true

end Scenic.Gen
