-- GENERATED from /repo by tools (never hand-edited); regenerated on every check run.
import ScenicModel.Model.Solid
set_option linter.unusedVariables false
namespace Scenic.Gen
open Scenic.Solid

/-- the five passes of `MeshVolumeRegion.intersects(MeshVolumeRegion)` in src/scenic/core/regions.py -/
def intersectCfg : IntersectCfg :=
  { p1Lhs := fun o => o.centerDist,
    p1Cmp := .gt,
    p1Rhs := fun o => (o.circS + o.circO),
    p1Ret := false,
    p2Guard := .and,
    p2aInLhs := fun o => o.pointDist,
    p2aInCmp := .lt,
    p2aInRhs := fun o => (o.inS + o.inO),
    p2aInRet := true,
    p2aCircLhs := fun o => o.pointDist,
    p2aCircCmp := .gt,
    p2aCircRhs := fun o => (o.pcircS + o.pcircO),
    p2aCircRet := false,
    p2bRet := false,
    p3HitRet := true,
    p3Convex := .and,
    p4Bodies := 1,
    p4Guard := .and,
    p4Conn := .or,
    p5Negate := true }

/-- the five passes of `MeshVolumeRegion.containsObject` -/
def containCfg : ContainCfg :=
  { p1Ret := false,
    p2CornerCmp := .gt,
    p2CornerThr := (0 : Rat),
    p2CornerRet := true,
    p2VertCmp := .gt,
    p2VertThr := (0 : Rat),
    p3OutRet := false,
    p3Lhs := fun o => (absQ o.sdCand),
    p3Cmp := .gt,
    p3Rhs := fun o => o.objCirc,
    p3Ret := true,
    p4Lhs := fun o => o.objMaxDist,
    p4Cmp := .gt,
    p4Rhs := fun o => o.regCirc,
    p4Ret := false,
    p5Negate := false }

/-- `PolygonalFootprintRegion.containsObject` -/
def footCfg : FootCfg := { convexFast := true, hullRet := true }

/-- `Object._isPlanarBox` in src/scenic/core/object_types.py -/
def planarCfg : PlanarCfg :=
  { needsBox := true, pitchCmp := .eq, pitchVal := (0 : Rat),
    rollCmp := .eq, rollVal := (0 : Rat) }

/-- the planar-box fast paths of `Object.intersects` -/
def objCfg : ObjCfg :=
  { zLhs := fun o => (absQ (o.zS - o.zO)),
    zCmp := .gt,
    zRhs := fun o => ((o.hS + o.hO) / (2 : Rat)),
    zRet := false,
    rLhs := fun o => (absQ (o.zS - o.zO)),
    rCmp := .le,
    rRhs := fun o => (o.hS / (2 : Rat)) }

/-- the planar fast path of `Object.minimumDistanceTo` -/
def distCfg : DistCfg := { zCmp := .eq }

/-- the point about which the fall-back branch of `MeshVolumeRegion._circumradius` measures the vertices -/
def fallbackCenter : Center := .position

/-- `MeshVolumeRegion.minimumDistanceTo`: the nested-volume correction and the geometry of `_fclDistanceData` -/
def volDistCfg : VolDistCfg :=
  { posCmp := .gt, posThr := (0 : Rat), conn := .and,
    nestedRet := (0 : Rat), bvhOnly := true }

/-- `MeshVolumeRegion.isConvex` -/
def convexCfg : ConvexCfg :=
  { overrideFirst := true, needsTrimesh := true,
    volLhs := fun o => o.vol,
    volCmp := .ge,
    volRhs := fun o => (((1 : Rat) - ((4722366482869645 / 4722366482869645213696) : Rat)) * o.hullVol) }

/-- the three passes of `MeshVolumeRegion.intersects(MeshSurfaceRegion)` -/
def surfCfg : SurfCfg := { p1Ret := false, p2Ret := true, p3Negate := false }

/-- the slab of `MeshVolumeRegion.intersects(PolygonalFootprintRegion)` and the cache test / padding of
    `PolygonalFootprintRegion.approxBoundFootprint` -/
def slabCfg : SlabCfg :=
  { height := fun lo hi => ((hi - lo) + (1 : Rat)),
    center := fun lo hi => ((hi + lo) / (2 : Rat)),
    topLhs := fun pc ph cz h => (pc + (ph / (2 : Rat))),
    topCmp := .gt,
    topRhs := fun pc ph cz h => (cz + (h / (2 : Rat))),
    botLhs := fun pc ph cz h => (pc - (ph / (2 : Rat))),
    botCmp := .lt,
    botRhs := fun pc ph cz h => (cz - (h / (2 : Rat))),
    conn := .and,
    padded := fun cz h => (((100 : Rat) * (maxR (1 : Rat) cz)) * h) }

/-- `MeshVolumeRegion.containsRegionInner(MeshVolumeRegion)` -/
def innerCfg : InnerCfg := { swapped := false, negate := false }

end Scenic.Gen
