-- GENERATED from /repo by tools (never hand-edited); regenerated on every check run.
import ScenicModel.Model.DefaultReqs
namespace Scenic.Gen
open Scenic.DefaultReqs
/-- choice points of Scenario.generateDefaultRequirements (scenarios.py) and of the built-in requirement
    classes (requirements.py) -/
def defaultReqsCfg : Cfg := {
  initialCollisionCheck := true
  collideIfRandom := true
  collideIfFalse := true
  collideIfTrue := false
  combinationsOfTwo := true
  containUnlessAll := true
  occludeIfRandom := true
  occludeIfTrue := true
  occludeIfFalse := false
  occludersKind := .materialized
  hasObserving := true
  hasNonObserving := true
  hasEgoVisible := true
  dropSource := true
  dropTarget := true
  optBlanket := true
  optIntersection := false
  optContainment := false
  optVisibility := false
  optUser := false
  interSkipsAllowed := true
  interPositive := true
  containNegated := true
  visNegated := true
  visFiltersOccluding := true
  nonVisNegatesSuper := true
  userFalsifiedWhenFalse := true
}
end Scenic.Gen
