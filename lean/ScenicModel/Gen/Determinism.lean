-- GENERATED from /repo by tools (never hand-edited); regenerated on every check run.
import ScenicModel.Model.Determinism
namespace Scenic.Gen
open Scenic.Det

/-- containers through which random values reach `Scenario.dependencies`
    (site, iteration order = insertion order, taking the containers it is filled from into account) -/
def detOrderSites : List (String × Bool) :=
  [ ("requirement.getNameBindings.globals", true),
    ("requirement.getNameBindings.closures", true),
    ("requirement.init.cells", true),
    ("requirement.init.bindings", true),
    ("requirement.compile.deps", true),
    ("dynamic.requirementDeps", true),
    ("dynamic.toScenario", true),
    ("scenario.instances", true),
    ("scenario.paramDeps", true),
    ("scenario.behaviorDeps", true),
    ("scenario.dependencies", true) ]

/-- sites that are themselves iterated in an address-dependent order (root causes) -/
def detUnorderedRoots : List String := []


/-- root causes recorded as known findings (KNOWN_FINDINGS.json / findings.d, keys `unordered-site:<site>`) -/
def detKnownUnorderedRoots : List String := ["requirement.getNameBindings.closures"]

/-- the segments concatenated into `Scenario.dependencies`, in order -/
def detDependencyTerms : List String := ["self._instances", "paramDeps", "tuple(requirementDeps)", "tuple(behaviorDeps)"]

/-- generator states saved before / restored after `self.checker.checkRequirements(sample)`
    in `Scenario._generateInner` -/
def detBracket : Bracket :=
  { savePy := true, saveNp := true, restorePy := true, restoreNp := true }

/-- soft-requirement activation compares with `<=` -/
def detActivationLe : Bool := true

/-- internal sampling sites and whether they use a private, constant-seeded generator -/
def detPrivateSites : List (String × Bool) :=
  [ ("utils.findMeshInteriorPoint", true),
    ("visibility.canSee.shuffle", true),
    ("regions.MeshRegion.mesh.no_apply_transform", true) ]
end Scenic.Gen
