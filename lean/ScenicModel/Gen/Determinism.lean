-- GENERATED from /repo by tools (never hand-edited); regenerated on every check run.
import ScenicModel.Model.SampleOrder
namespace Scenic.Gen
open Scenic.Det

/-- containers through which random values reach `Scenario.dependencies`
    (site, iteration order = insertion order, taking the containers it is filled from into account) -/
def detOrderSites : List (String × Bool) :=
  [ ("requirement.getNameBindings.globals", true),
    ("requirement.getNameBindings.closures", true),
    ("requirement.init.cells", true),
    ("requirement.init.bindings", true),
    ("requirement.compile.deps", true),
    ("dynamic.requirementDeps", true),
    ("dynamic.toScenario", true),
    ("scenario.instances", true),
    ("scenario.paramDeps", true),
    ("scenario.behaviorDeps", true),
    ("scenario.dependencies", true) ]

/-- the same sites judged on their own (their inputs assumed ordered): the kind of each container -/
def detSiteKinds : List (String × Bool) :=
  [ ("requirement.getNameBindings.globals", true),
    ("requirement.getNameBindings.closures", true),
    ("requirement.init.cells", true),
    ("requirement.init.bindings", true),
    ("requirement.compile.deps", true),
    ("dynamic.requirementDeps", true),
    ("dynamic.toScenario", true),
    ("scenario.instances", true),
    ("scenario.paramDeps", true),
    ("scenario.behaviorDeps", true),
    ("scenario.dependencies", true) ]

/-- sites that are themselves iterated in an address-dependent order (root causes) -/
def detUnorderedRoots : List String := []


def detSiteOrdered (name : String) : Bool := (detSiteKinds.lookup name).getD false

/-- the container kinds as the model of the construction of `Scenario.dependencies` takes them -/
def detKinds : Kinds :=
  { bindings := detSiteOrdered "requirement.getNameBindings.globals" && detSiteOrdered "requirement.init.bindings",
    closures := detSiteOrdered "requirement.getNameBindings.closures",
    cells := detSiteOrdered "requirement.init.cells",
    compileDeps := detSiteOrdered "requirement.compile.deps",
    dynDeps := detSiteOrdered "dynamic.requirementDeps",
    passed := detSiteOrdered "dynamic.toScenario",
    instances := detSiteOrdered "scenario.instances",
    paramDeps := detSiteOrdered "scenario.paramDeps",
    behaviorDeps := detSiteOrdered "scenario.behaviorDeps",
    dependencies := detSiteOrdered "scenario.dependencies",
    size := 8 }

/-- the segments concatenated into `Scenario.dependencies`, in source order: as written, and by role -/
def detDependencyTerms : List String := ["self._instances", "paramDeps", "tuple(requirementDeps)", "tuple(behaviorDeps)"]
def detDependencySegs : List Seg := [.instances, .params, .reqDeps, .behaviors]

/-- where `PendingRequirement.compile` adds dependencies, in source order -/
def detCompileSources : List DepSrc := [.bindings, .cells, .objectsIfCanSee, .ego]

/-- generator states saved before / restored after `self.checker.checkRequirements(sample)`
    in `Scenario._generateInner` -/
def detBracket : Bracket :=
  { savePy := true, saveNp := true, restorePy := true, restoreNp := true }

/-- soft-requirement activation compares with `<=` -/
def detActivationLe : Bool := true

/-- internal sampling sites and whether they use a private, constant-seeded generator -/
def detPrivateSites : List (String × Bool) :=
  [ ("utils.findMeshInteriorPoint", true),
    ("visibility.canSee.shuffle", true),
    ("regions.MeshRegion.mesh.no_apply_transform", true) ]

/-- where the dependency graph walked by `Samplable.sampleAll` is built and iterated
    (site, iteration order = insertion order) -/
def detSampleSites : List (String × Bool) :=
  [ ("samplable.init.deps", true),
    ("lazy.init.dependencies", true),
    ("samplable.sample.children", true),
    ("samplable.sampleAll.quantities", true) ]


def detSampleSiteOrdered (name : String) : Bool := (detSampleSites.lookup name).getD false

/-- the iteration kinds as the model of graph construction and of the walk takes them -/
def detSampleKinds : SampleKinds :=
  { initDeps := detSampleSiteOrdered "samplable.init.deps",
    stored := detSampleSiteOrdered "lazy.init.dependencies",
    children := detSampleSiteOrdered "samplable.sample.children",
    quantities := detSampleSiteOrdered "samplable.sampleAll.quantities",
    size := 8 }
end Scenic.Gen
