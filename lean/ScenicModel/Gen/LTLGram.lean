-- GENERATED from /repo by tools (never hand-edited); regenerated on every check run.
import ScenicModel.Model.LTLSyntax
namespace Scenic.Gen.LTLGram
open Scenic.LTL.Syntax

/-- src/scenic/syntax/scenic.gram, rules scenic_until … scenic_temporal_group -/
def gram : GramCfg :=
  { prefixOps := [("next", "Next"), ("eventually", "Eventually"), ("always", "Always")],
    groupFollow := ["until", "or", "and", "implies", ")", ";", "<nl>"],
    impliesRhsPrefix := true,
    orOperandPrefix := true,
    andOperandPrefix := true,
    notOperandPrefix := true }

/-- compiler.py PropositionTransformer / veneer.py / syntax/ast.py:
    syntax node -> (proposition class, grammar-order positions of the operands passed) -/
def syntaxMap : List (String × String × List Nat) :=
  [("Always", "Always", [0]),
   ("Eventually", "Eventually", [0]),
   ("Next", "Next", [0]),
   ("UntilOp", "Until", [0, 1]),
   ("ImpliesOp", "Implies", [0, 1]),
   ("Or", "Or", []),
   ("And", "And", []),
   ("Not", "Not", [0])]

/-- worked examples of docs/reference/statements.rst and operators.rst: (tokens, stated reading) -/
def docExamples : List (List String × List String) :=
  [(["A", "and", "always", "B"], ["And", "2", "Atom", "0", "Always", "Atom", "1"]),
   (["(", "always", "A", ")", "implies", "B"], ["Implies", "Always", "Atom", "0", "Atom", "1"]),
   (["always", "A", "implies", "B"], ["Always", "Implies", "Atom", "0", "Atom", "1"]),
   (["always", "(", "A", "implies", "next", "A", ")"], ["Always", "Implies", "Atom", "0", "Next", "Atom", "0"]),
   (["always", "A", "implies", "B"], ["Always", "Implies", "Atom", "0", "Atom", "1"]),
   (["(", "A", "until", "B", ")", "or", "(", "always", "A", "and", "not", "B", ")"], ["Or", "2", "Until", "Atom", "0", "Atom", "1", "Always", "And", "2", "Atom", "0", "Not", "Atom", "1"])]

end Scenic.Gen.LTLGram
