-- GENERATED from /repo by tools (never hand-edited); regenerated on every check run.
import ScenicModel.Model.RegionSampling
namespace Scenic.Gen
open Scenic.RegionSampling
/-- shapes of the generic samplers in src/scenic/core/regions.py -/
def samplerCfg : SamplerCfg :=
  { interDimOp := .le, interChecksAll := true, unionDimOp := .eq, unionWeight := .size,
    unionCount := .allRegs, unionAccept := .invCount, unionSelf := .byConstruction, diffRejectsInB := true,
    interTrue := .structural, unionTrue := .structural, diffTrue := .structural }
/-- the membership test of the sampler installed by PointSetRegion.intersect -/
def ballFilter : BallFilter := .trueContainsPoint
/-- what that sampler does when the other region has no `circumcircle` -/
def ballFallback : BallFallback := .allPoints
/-- SectorRegion._makeCircumcircle -/
def sectorCircCfg : SectorCircCfg := { thr := 1/2, k := 2, op := .divide }
/-- circumcircle radius of CircularRegion / RectangularRegion / MeshRegion -/
def circTable : CircTable := { circle := .radius, rect := .hypotHalves, mesh := .hypotHalves }
/-- z written by each planar uniformPointInner -/
def zTable : ZTable :=
  { rect := .regionZ, circle := .regionZ, sector := .regionZ, polygon := .regionZ, polyline := .zero }
/-- PolygonalRegion.uniformPointInner discards candidates that lie outside self.polygons (overshooting triangulation) -/
def polygonOuterFilter : Bool := true
/-- the `_trueContainsPoint` of GridRegion / PolygonalRegion and the containsPoint of PolylineRegion -/
def membership : MembershipTable := { grid := .pointSet, polygon := .zAndFootprint, polyline := .withinTolerance }
end Scenic.Gen
