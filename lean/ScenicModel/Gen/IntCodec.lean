-- GENERATED from /repo by tools (never hand-edited); regenerated on every check run.
import ScenicModel.Model.Codec
namespace Scenic.Gen
open Scenic.Codec

/-- constants of `writeInt` / `readInt` in src/scenic/core/serialization.py -/
def intTable : IntTable :=
  { wSmallLo := 0,
    wSmallHi := 252,
    wTag2 := 253,
    wLo2 := (-32768),
    wHi2 := 32767,
    wLen2 := 2,
    wTag4 := 254,
    wLo4 := (-2147483648),
    wHi4 := 2147483647,
    wLen4 := 4,
    wTagBig := 255,
    wLenCap := 256,
    wSignBits := 1,
    wBitsPerByte := 8,
    wMinLen := 1,
    rSmallHi := 252,
    rTag2 := 253,
    rLen2 := 2,
    rTag4 := 254,
    rLen4 := 4 }

/-- every read in `readInt` is length-checked (`_readExactly`) -/
def readsChecked : Bool := true
/-- `readBytes` rejects negative lengths and short payloads -/
def bytesChecked : Bool := true

end Scenic.Gen
