-- GENERATED from /repo by tools (never hand-edited); regenerated on every check run.
/-! formulas and tables of the directional specifiers, `on`, `beyond`, `apparently facing`
    (veneer.py) and of the sides / corners of an `Object` (object_types.py) -/
set_option linter.unusedVariables false
namespace Scenic.Gen.Frames
section
variable {α : Type} [Add α] [Sub α] [Mul α] [Neg α] [Div α] [OfNat α 0] [OfNat α 1] [OfNat α 2]

/-- `Left of`: `toComponents` -/
def leftComponents (dist : α) : α × α × α := (dist, 0, 0)
/-- `Left of`: `makeOffset(self, dims, tol, dx, dy, dz)` -/
def leftOffset (selfW selfL selfH d0 d1 d2 tol dx dy dz : α) : α × α × α :=
  ((((((-selfW) / 2) - dx) - (d0 / 2)) - tol), dy, dz)
def leftAxis : String := "width"

/-- `Right of`: `toComponents` -/
def rightComponents (dist : α) : α × α × α := (dist, 0, 0)
/-- `Right of`: `makeOffset(self, dims, tol, dx, dy, dz)` -/
def rightOffset (selfW selfL selfH d0 d1 d2 tol dx dy dz : α) : α × α × α :=
  (((((selfW / 2) + dx) + (d0 / 2)) + tol), dy, dz)
def rightAxis : String := "width"

/-- `Ahead of`: `toComponents` -/
def aheadComponents (dist : α) : α × α × α := (0, dist, 0)
/-- `Ahead of`: `makeOffset(self, dims, tol, dx, dy, dz)` -/
def aheadOffset (selfW selfL selfH d0 d1 d2 tol dx dy dz : α) : α × α × α :=
  (dx, ((((selfL / 2) + dy) + (d1 / 2)) + tol), dz)
def aheadAxis : String := "length"

/-- `Behind`: `toComponents` -/
def behindComponents (dist : α) : α × α × α := (0, dist, 0)
/-- `Behind`: `makeOffset(self, dims, tol, dx, dy, dz)` -/
def behindOffset (selfW selfL selfH d0 d1 d2 tol dx dy dz : α) : α × α × α :=
  (dx, (((((-selfL) / 2) - dy) - (d1 / 2)) - tol), dz)
def behindAxis : String := "length"

/-- `Above`: `toComponents` -/
def aboveComponents (dist : α) : α × α × α := (0, 0, dist)
/-- `Above`: `makeOffset(self, dims, tol, dx, dy, dz)` -/
def aboveOffset (selfW selfL selfH d0 d1 d2 tol dx dy dz : α) : α × α × α :=
  (dx, dy, ((((selfH / 2) + dz) + (d2 / 2)) + tol))
def aboveAxis : String := "height"

/-- `Below`: `toComponents` -/
def belowComponents (dist : α) : α × α × α := (0, 0, dist)
/-- `Below`: `makeOffset(self, dims, tol, dx, dy, dz)` -/
def belowOffset (selfW selfL selfH d0 d1 d2 tol dx dy dz : α) : α × α × α :=
  (dx, dy, (((((-selfH) / 2) - dz) - (d2 / 2)) - tol))
def belowAxis : String := "height"

/-- `makeContactOffset(dist, ct)` when `dist is None` -/
def contactOffsetNone (ct : α) : α := (ct / 2)
/-- `makeContactOffset(dist, ct)` when a distance was given -/
def contactOffsetGiven (ct : α) : α := 0
/-- `On`: `contactOffset = Vector(0, 0, ct / 2) - baseOffset` -/
def onContactOffset (ct ox oy oz : α) : α × α × α := ((0 - ox), (0 - oy), ((ct / 2) - oz))
/-- `Beyond`: a scalar offset `d` is read as this vector -/
def beyondScalar (d : α) : α × α × α := (0, d, 0)
end

/-- whether `ApparentlyFacing.helper` computes the line of sight in the parent frame -/
def apparentlyFacingUsesParent : Bool := true
/-- whether `Beyond` tests `isA(fromPt, OrientedPoint)` before coercing `fromPt` to a vector
    (only then can the orientation of an oriented `from` argument be inherited) -/
def beyondInheritsFromOrientation : Bool := true
/-- `Object.corners`: signs of `(hw, hl, hh)`, in source order -/
def cornerTable : List (Int × Int × Int) := [(1, 1, 1), ((-1), 1, 1), ((-1), (-1), 1), (1, (-1), 1), (1, 1, (-1)), ((-1), 1, (-1)), ((-1), (-1), (-1)), (1, (-1), (-1))]
/-- `Object.left … bottomBackRight`: signs of `(hw, hl, hh)` passed to `relativize` -/
def sideTable : List (String × (Int × Int × Int)) := [
  ("left", ((-1), 0, 0)),
  ("right", (1, 0, 0)),
  ("front", (0, 1, 0)),
  ("back", (0, (-1), 0)),
  ("top", (0, 0, 1)),
  ("bottom", (0, 0, (-1))),
  ("frontLeft", ((-1), 1, 0)),
  ("frontRight", (1, 1, 0)),
  ("backLeft", ((-1), (-1), 0)),
  ("backRight", (1, (-1), 0)),
  ("topFrontLeft", ((-1), 1, 1)),
  ("topFrontRight", (1, 1, 1)),
  ("topBackLeft", ((-1), (-1), 1)),
  ("topBackRight", (1, (-1), 1)),
  ("bottomFrontLeft", ((-1), 1, (-1))),
  ("bottomFrontRight", (1, 1, (-1))),
  ("bottomBackLeft", ((-1), (-1), (-1))),
  ("bottomBackRight", (1, (-1), (-1)))
]
end Scenic.Gen.Frames
