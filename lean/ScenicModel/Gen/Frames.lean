-- GENERATED from /repo by tools (never hand-edited); regenerated on every check run.
/-! formulas and tables of the directional specifiers, `on`, `beyond`, the `facing toward` family
    (veneer.py), of the vector / angle primitives (vectors.py, geometry.py) and of the sides / corners of an
    `Object` (object_types.py) -/
set_option linter.unusedVariables false
namespace Scenic.Gen.Frames
section
variable {α : Type} [Add α] [Sub α] [Mul α] [Neg α] [Div α] [OfNat α 0] [OfNat α 1] [OfNat α 2]

/-- `Left of`: `toComponents` -/
def leftComponents (dist : α) : α × α × α := (dist, 0, 0)
/-- `Left of`: `makeOffset(self, dims, tol, dx, dy, dz)` -/
def leftOffset (selfW selfL selfH d0 d1 d2 tol dx dy dz : α) : α × α × α :=
  ((((((-selfW) / 2) - dx) - (d0 / 2)) - tol), dy, dz)
def leftAxis : String := "width"

/-- `Right of`: `toComponents` -/
def rightComponents (dist : α) : α × α × α := (dist, 0, 0)
/-- `Right of`: `makeOffset(self, dims, tol, dx, dy, dz)` -/
def rightOffset (selfW selfL selfH d0 d1 d2 tol dx dy dz : α) : α × α × α :=
  (((((selfW / 2) + dx) + (d0 / 2)) + tol), dy, dz)
def rightAxis : String := "width"

/-- `Ahead of`: `toComponents` -/
def aheadComponents (dist : α) : α × α × α := (0, dist, 0)
/-- `Ahead of`: `makeOffset(self, dims, tol, dx, dy, dz)` -/
def aheadOffset (selfW selfL selfH d0 d1 d2 tol dx dy dz : α) : α × α × α :=
  (dx, ((((selfL / 2) + dy) + (d1 / 2)) + tol), dz)
def aheadAxis : String := "length"

/-- `Behind`: `toComponents` -/
def behindComponents (dist : α) : α × α × α := (0, dist, 0)
/-- `Behind`: `makeOffset(self, dims, tol, dx, dy, dz)` -/
def behindOffset (selfW selfL selfH d0 d1 d2 tol dx dy dz : α) : α × α × α :=
  (dx, (((((-selfL) / 2) - dy) - (d1 / 2)) - tol), dz)
def behindAxis : String := "length"

/-- `Above`: `toComponents` -/
def aboveComponents (dist : α) : α × α × α := (0, 0, dist)
/-- `Above`: `makeOffset(self, dims, tol, dx, dy, dz)` -/
def aboveOffset (selfW selfL selfH d0 d1 d2 tol dx dy dz : α) : α × α × α :=
  (dx, dy, ((((selfH / 2) + dz) + (d2 / 2)) + tol))
def aboveAxis : String := "height"

/-- `Below`: `toComponents` -/
def belowComponents (dist : α) : α × α × α := (0, 0, dist)
/-- `Below`: `makeOffset(self, dims, tol, dx, dy, dz)` -/
def belowOffset (selfW selfL selfH d0 d1 d2 tol dx dy dz : α) : α × α × α :=
  (dx, dy, (((((-selfH) / 2) - dz) - (d2 / 2)) - tol))
def belowAxis : String := "height"

/-- `makeContactOffset(dist, ct)` when `dist is None` -/
def contactOffsetNone (ct : α) : α := (ct / 2)
/-- `makeContactOffset(dist, ct)` when a distance was given -/
def contactOffsetGiven (ct : α) : α := 0
/-- `On`: `contactOffset = Vector(0, 0, ct / 2) - baseOffset` -/
def onContactOffset (ct ox oy oz : α) : α × α × α := ((0 - ox), (0 - oy), ((ct / 2) - oz))
/-- `Beyond`: a scalar offset `d` is read as this vector -/
def beyondScalar (d : α) : α × α × α := (0, d, 0)
/-- `Vector.rotatedBy(angle)` with `c = cos angle`, `s = sin angle` -/
def rotatedByFormula (c s x y z : α) : α × α × α := (((c * x) - (s * y)), ((s * x) + (c * y)), z)
/-- `Vector.sphericalCoordinates()[1]`: the arguments `(A, B)` of its `atan2(A, B)` (`h` stands for `hypot` of the first two coordinates) -/
def sphThetaArgs (x y z h : α) : α × α := (y, x)
/-- … and `(cos, sin)` of the result from `(c0, s0) = (cos, sin)` of that `atan2` -/
def sphThetaPost (c0 s0 : α) : α × α := (s0, (-c0))
/-- `Vector.sphericalCoordinates()[2]`: the arguments `(A, B)` of its `atan2(A, B)` (`h` stands for `hypot` of the first two coordinates) -/
def sphPhiArgs (x y z h : α) : α × α := (z, h)
/-- … and `(cos, sin)` of the result from `(c0, s0) = (cos, sin)` of that `atan2` -/
def sphPhiPost (c0 s0 : α) : α × α := (c0, s0)
/-- `Vector.azimuthTo` on `d = other - self`: the arguments `(A, B)` of its `atan2(A, B)` (`h` stands for `hypot` of the first two coordinates) -/
def azimuthToArgs (d0 d1 d2 h : α) : α × α := (d1, d0)
/-- … and `(cos, sin)` of the result from `(c0, s0) = (cos, sin)` of that `atan2` -/
def azimuthToPost (c0 s0 : α) : α × α := (s0, (-c0))
/-- `Vector.altitudeTo` on `d = other - self`: the arguments `(A, B)` of its `atan2(A, B)` (`h` stands for `hypot` of the first two coordinates) -/
def altitudeToArgs (d0 d1 d2 h : α) : α × α := (d2, h)
/-- … and `(cos, sin)` of the result from `(c0, s0) = (cos, sin)` of that `atan2` -/
def altitudeToPost (c0 s0 : α) : α × α := (c0, s0)
/-- `geometry.apparentHeadingAtPoint(point, heading, base)`: the arguments `(A, B)` of its `atan2(A, B)` (`h` stands for `hypot` of the first two coordinates) -/
def apparentHeadingArgs (p0 p1 b0 b1 : α) : α × α := ((p1 - b1), (p0 - b0))
/-- … and `(cos, sin)` of the result from `(c0, s0) = (cos, sin)` of that `atan2` -/
def apparentHeadingPost (cheading sheading c0 s0 : α) : α × α := ((((-sheading) * c0) + (cheading * s0)), ((cheading * c0) - ((-sheading) * s0)))
end

/-- `VectorField.followFrom`: number of forward-Euler steps -/
def followNumSteps (minSteps : Nat) (dist stepSize : Rat) : Nat := (Nat.max minSteps (Rat.ceil (dist / stepSize)).toNat)
/-- axis sequence given to SciPy by `Orientation._fromEuler`, encoded as X = 0, Y = 1, Z = 2 (intrinsic, upper case), x = 3, y = 4, z = 5 (extrinsic, lower case) -/
def fromEulerAxes : List Nat := [2, 0, 1]   -- "ZXY"
/-- axis sequence given to SciPy by `Orientation.eulerAngles`, encoded as X = 0, Y = 1, Z = 2 (intrinsic, upper case), x = 3, y = 4, z = 5 (extrinsic, lower case) -/
def eulerAnglesAxes : List Nat := [2, 0, 1]   -- "ZXY"
/-- the `facing toward` family: (direction is `position - target`, pitch is specified too, a heading is added) -/
def facingTable : List (String × (Bool × Bool × Bool)) := [
  ("FacingToward", (false, false, false)),
  ("FacingDirectlyToward", (false, true, false)),
  ("FacingAwayFrom", (true, false, false)),
  ("FacingDirectlyAwayFrom", (true, true, false)),
  ("ApparentlyFacing", (true, false, true))
]
/-- `Object.corners`: signs of `(hw, hl, hh)`, in source order -/
def cornerTable : List (Int × Int × Int) := [(1, 1, 1), ((-1), 1, 1), ((-1), (-1), 1), (1, (-1), 1), (1, 1, (-1)), ((-1), 1, (-1)), ((-1), (-1), (-1)), (1, (-1), (-1))]
/-- `Object.left … bottomBackRight`: signs of `(hw, hl, hh)` passed to `relativize` -/
def sideTable : List (String × (Int × Int × Int)) := [
  ("left", ((-1), 0, 0)),
  ("right", (1, 0, 0)),
  ("front", (0, 1, 0)),
  ("back", (0, (-1), 0)),
  ("top", (0, 0, 1)),
  ("bottom", (0, 0, (-1))),
  ("frontLeft", ((-1), 1, 0)),
  ("frontRight", (1, 1, 0)),
  ("backLeft", ((-1), (-1), 0)),
  ("backRight", (1, (-1), 0)),
  ("topFrontLeft", ((-1), 1, 1)),
  ("topFrontRight", (1, 1, 1)),
  ("topBackLeft", ((-1), (-1), 1)),
  ("topBackRight", (1, (-1), 1)),
  ("bottomFrontLeft", ((-1), 1, (-1))),
  ("bottomFrontRight", (1, 1, (-1))),
  ("bottomBackLeft", ((-1), (-1), (-1))),
  ("bottomBackRight", (1, (-1), (-1)))
]
end Scenic.Gen.Frames
