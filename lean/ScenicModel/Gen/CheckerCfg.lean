-- GENERATED from /repo by tools (never hand-edited); regenerated on every check run.
import ScenicModel.Model.Checker
namespace Scenic.Gen
open Scenic.Checker
/-- choice points of src/scenic/core/sample_checking.py -/
def checkerCfg : Cfg := {
  wFilter := .active
  wSortReverse := false
  wPopPred := some .optional
  wPopTest := .last
  wPopFrom := .last
  wLoopSorted := true
  wRejectWhen := true
  wFallthroughAccepts := true
  wAccNotRejected := true
  bGuardActive := true
  bRejectWhen := true
  bFallthroughAccepts := true
  bKeepMandatory := true
  bBlanketMin := 3
  catchRejects := true
}
/-- `WeightedAcceptanceChecker(bufferSize=…)` in Scenario.__init__ -/
def defaultBufferSize : Nat := 100
/-- `random.random() <= req.prob` -/
def activationCmpLe : Bool := true
end Scenic.Gen
