-- root of the library
import ScenicModel.Props.C18
