import Driver.Util
/-! line protocol for the C14 model (stub: replaced when the property's model is built) -/
namespace Driver.C14
open Driver

def handle : List String → String
  | _ => "bad-op"

end Driver.C14

def main : IO Unit := Driver.runLoop Driver.C14.handle
