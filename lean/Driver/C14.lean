import Driver.Util
import ScenicModel.Model.Overrides
import ScenicModel.Model.Veneer
import ScenicModel.Gen.SimCleanup
import ScenicModel.Gen.VeneerGlobals
/-! line protocol for the C14 models (see tools/props/c14.py for the token grammar)

  side                                   -> the decidable side conditions evaluated on the generated data
  hist P o:<id>:<v,..> … sim:<a>:<d> ev … sim:<a>:<d> ev …   -> observations of a history of simulations
      (a = Simulation.setup was reached, d = the simulator's destroy() raised)
  glob <sim|compile> op …                -> observations of a session of the veneer-globals model
-/
namespace Driver.C14
open Driver Scenic.Overrides Scenic.Veneer

def b2s (b : Bool) : String := if b then "1" else "0"

def parseInts (s : String) : Option (List Int) :=
  if s == "" then some [] else (s.splitOn ",").mapM (·.toInt?)

def parsePairs (s : String) : Option (List (Nat × Int)) :=
  if s == "" then some [] else
  (s.splitOn ",").mapM fun t => match t.splitOn "=" with
    | [p, v] => do let p ← p.toNat?; let v ← v.toInt?; pure (p, v)
    | _ => none

/-- one token of a `hist` line -/
inductive Tok
  | obj (o : Nat) (vals : List Int)       -- header: a scene object and its property values
  | sim (agentsSet destroyFails : Bool)
  | ev (e : Ev)
  | newObj (o : Nat) (vals : List Int)    -- an object created during the simulation
  | read
  | saved (s : Nat)
  | fix (o p : Nat) (v : Int)             -- between simulations: the harness repaired a scene object
  | heal                                  -- the harness executed the statements of the `finally` block that were skipped

def parseTok (t : String) : Option Tok :=
  match t.splitOn ":" with
  | ["o", o, vs] => do pure (.obj (← o.toNat?) (← parseInts vs))
  | ["n", o, vs] => do pure (.newObj (← o.toNat?) (← parseInts vs))
  | ["sim", a] => some (.sim (a == "1") false)
  | ["sim", a, d] => some (.sim (a == "1") (d == "1"))
  | ["c", o] => do pure (.ev (.create (← o.toNat?)))
  | ["w", o, p, v] => do pure (.ev (.write (← o.toNat?) (← p.toNat?) (← v.toInt?)))
  | ["v", s, o, ps] => do pure (.ev (.override (← s.toNat?) (← o.toNat?) (← parsePairs ps)))
  | ["p", s, par] => do pure (.ev (.prepare (← s.toNat?) (← par.toNat?)))
  | ["s", s] => do pure (.ev (.start (← s.toNat?)))
  | ["x", s] => do pure (.ev (.stop (← s.toNat?)))
  | ["f", o, p, v] => do pure (.fix (← o.toNat?) (← p.toNat?) (← v.toInt?))
  | ["h"] => some .heal
  | ["r"] => some .read
  | ["k", s] => do pure (.saved (← s.toNat?))
  | _ => none

def setOrig (w : World) (o : Nat) (vals : List Int) : World :=
  { w with orig := fun o' p' => if o' = o then vals.getD p' 0 else w.orig o' p' }

def showReads (f : Nat → Nat → Int) (objs : List Nat) (nprop : Nat) : String :=
  ",".intercalate (objs.flatMap fun o => (List.range nprop).map fun p => s!"{o}.{p}:{f o p}")

def showSaved (s : Saved) : String :=
  let sorted := s.mergeSort (fun a b => a.1 < b.1 || (a.1 == b.1 && a.2.1 ≤ b.2.1))
  ",".intercalate (sorted.map fun e => s!"{e.1}.{e.2.1}:{e.2.2}")

structure HState where
  w : World
  stale : Saved
  objs : List Nat                 -- all objects seen so far (for printing)
  cur : Option (Bool × Bool × List Ev)   -- the simulation being read: agentsSet, destroyFails, events
  last : Option (World × Saved × Bool × List Ev)   -- the simulation just finished: state before it, agentsSet, events
  out : List String

def finishSim (cfg : Cfg) (nprop : Nat) (h : HState) : HState :=
  match h.cur with
  | none => h
  | some (a, d, evs) =>
    let r := runSimD cfg h.w h.stale a d evs
    let line := s!"e={b2s r.ended};o={showReads r.w.orig h.objs nprop};x={",".intercalate ((h.objs.filter r.w.proxied).map toString)};s={showSaved r.stale}"
    { h with w := r.w, stale := r.stale, cur := none, last := some (h.w, h.stale, a, evs), out := h.out ++ [line] }

def histStep (cfg : Cfg) (nprop : Nat) (h : HState) : Tok → HState
  | .obj o vals => { h with w := setOrig h.w o vals, objs := h.objs ++ [o] }
  | .sim a d => { finishSim cfg nprop h with cur := some (a, d, []) }
  | .ev e => match h.cur with
      | some (a, d, evs) => { h with cur := some (a, d, evs ++ [e]) }
      | none => h
  | .newObj o vals => match h.cur with
      | some (a, d, evs) =>
          { h with w := setOrig h.w o vals, objs := h.objs ++ [o], cur := some (a, d, evs ++ [.create o]) }
      | none => h
  | .fix o p v =>
      let h := finishSim cfg nprop h
      { h with w := { h.w with orig := fun o' p' => if o' = o ∧ p' = p then v else h.w.orig o' p' } }
  | .heal =>
      let h := finishSim cfg nprop h
      match h.last with
      | some (w0, stale0, a, evs) =>
          let r := runSim cfg w0 stale0 a evs
          { h with w := r.w, stale := r.stale }
      | none => h
  | .read => match h.cur with
      | some (_, _, evs) =>
          let st := run cfg (initSt h.w h.stale) evs
          { h with out := h.out ++ ["r=" ++ showReads st.w.read h.objs nprop] }
      | none => h
  | .saved s => match h.cur with
      | some (_, _, evs) =>
          let st := run cfg (initSt h.w h.stale) evs
          let sv := (st.frames.filter (fun f => f.id == s)).flatMap (·.saved)
          { h with out := h.out ++ ["k=" ++ showSaved sv] }
      | none => h

/-- N.B. an object created during a simulation gets its initial values written into `orig` when the token is
    read; since `runSim` is applied to the world at the start of the simulation, `setOrig` for such objects
    must not disturb earlier observations – objects are never reused with different values in one line. -/
def handleHist (cfg : Cfg) (ws : List String) : String :=
  match ws with
  | np :: rest =>
    match np.toNat?, rest.mapM parseTok with
    | some nprop, some toks =>
      let h := toks.foldl (histStep cfg nprop) { w := World.zero, stale := [], objs := [], cur := none, last := none, out := [] }
      " ".intercalate (finishSim cfg nprop h).out
    | _, _ => "bad-hist"
  | [] => "bad-hist"

/-! ### globals -/

def parseGVal (s : String) : Option GVal :=
  match s with
  | "none" => some .none | "false" => some .false_ | "true" => some .true_ | "zero" => some .zero
  | "empty" => some .empty | "orig" => some .orig
  | _ => if s.startsWith "t" then (s.drop 1).toString.toNat?.map .tok else none

def showGVal : GVal → String
  | .none => "none" | .false_ => "false" | .true_ => "true" | .zero => "zero" | .empty => "empty" | .orig => "orig"
  | .tok n => s!"t{n}"

def parseVals (s : String) : Option (List (String × GVal)) :=
  if s == "" then some [] else
  (s.splitOn ",").mapM fun t => match t.splitOn "=" with
    | [n, v] => do pure (n, ← parseGVal v)
    | _ => none

inductive GTok
  | op (o : Op) | finish | q

def parseGTok (t : String) : Option GTok :=
  match t.splitOn ":" with
  | ["O", vs] => do pure (.op (.opener (← parseVals vs)))
  | ["P", f, vs] => do pure (.op (.plain f (← parseVals vs)))
  | ["E", cm, vs] => do pure (.op (.enter cm (← parseVals vs)))
  | ["X"] => some (.op .exit)
  | ["D", cm, vs] => do pure (.op (.enterDeferred cm (← parseVals vs)))
  | ["G", k] => do pure (.op (.exitDeferred (← k.toNat?)))
  | ["F"] => some .finish
  | ["q"] => some .q
  | _ => none

def showG (T : Tables) (g : GState) : String :=
  ",".intercalate (T.initial.map fun e => s!"{e.1}={showGVal (g e.1)}")

structure GH where
  ops : List Op
  late : Option (List Nat)
  out : List String

def globStep (T : Tables) (h : GH) : GTok → GH
  | .op o => match h.late with
      | none => { h with ops := h.ops ++ [o] }
      | some l => match o with
          | .exitDeferred k => { h with late := some (l ++ [k]) }
          | _ => h
  | .finish => { h with late := some [] }
  | .q => match h.late with
      | none => { h with out := h.out ++ [showG T (h.ops.foldl (applyOp T) (initGS T)).g] }
      | some l => { h with out := h.out ++ [showG T (session T h.ops l)] }

def handleGlob (ws : List String) : String :=
  match ws with
  | sess :: rest =>
    let T := if sess == "compile" then Scenic.Gen.compileTables else Scenic.Gen.simTables
    match rest.mapM parseGTok with
    | some toks => " ".intercalate (toks.foldl (globStep T) { ops := [], late := none, out := [] }).out
    | none => "bad-glob"
  | [] => "bad-glob"

def showMerge : MergeMode → String
  | .keepOldest => "keepOldest" | .firstDictOnly => "firstDictOnly" | .overwriteDict => "overwriteDict"

def handleSide : String :=
  let c := Scenic.Gen.simCfg
  let st := Scenic.Gen.simTables
  let ct := Scenic.Gen.compileTables
  s!"order={b2s (safeOrder c.order)} clears={b2s c.stopClears} agents={b2s c.agentsEarly} destroy={b2s c.destroyGuarded} merge={showMerge c.merge} " ++
  s!"steps={b2s (c.order.contains .disableProxies && c.order.contains .stopScenarios && c.order.contains .endSimulation)} " ++
  s!"simclose={b2s (wfClose st && wfCms st)} compclose={b2s (wfClose ct && wfCms ct)} " ++
  s!"simwrites={b2s (wfWrites st)} compwrites={b2s (wfWrites ct)} susp={b2s st.suspended.isEmpty} " ++
  s!"simleaks={",".intercalate (leaks st)} compleaks={",".intercalate (leaks ct)} suspended={",".intercalate st.suspended}"

def handle : List String → String
  | "side" :: _ => handleSide
  | "hist" :: rest => handleHist Scenic.Gen.simCfg rest
  | "glob" :: rest => handleGlob rest
  | _ => "bad-op"

end Driver.C14

def main : IO Unit := Driver.runLoop Driver.C14.handle
